(* Helpers used by the generated cases files of the correspondence check.
   A cases file defines  cases : list C.case  and evaluates
     A := bad_idx C.agree cases        (model <> implementation)
     B := classify_idx C.spec_ok C.classify cases
                                       (property fails on what the implementation did;
                                        second component: known-finding number, 0 = not listed)
   with vm_compute and prints both. *)
From Coq Require Export List NArith ZArith Bool.
Export ListNotations.

Section Idx.
  Context {A : Type}.

  Fixpoint bad_idx_from (i : N) (ok : A -> bool) (l : list A) : list N :=
    match l with
    | [] => []
    | x :: l' => if ok x then bad_idx_from (N.succ i) ok l'
                 else i :: bad_idx_from (N.succ i) ok l'
    end.
  Definition bad_idx := bad_idx_from 0%N.

  Fixpoint classify_idx_from (i : N) (ok : A -> bool) (cls : A -> N) (l : list A)
    : list (N * N) :=
    match l with
    | [] => []
    | x :: l' => if ok x then classify_idx_from (N.succ i) ok cls l'
                 else (i, cls x) :: classify_idx_from (N.succ i) ok cls l'
    end.
  Definition classify_idx := classify_idx_from 0%N.

  Lemma bad_idx_nil_forall ok l i : bad_idx_from i ok l = [] -> Forall (fun x => ok x = true) l.
  Proof.
    revert i; induction l as [|x l IH]; intros i H; constructor.
    - simpl in H. destruct (ok x); [reflexivity|discriminate].
    - simpl in H. destruct (ok x); [eapply IH; eassumption|discriminate].
  Qed.
End Idx.
