(* Outcome of a modelled Go operation: Go's partial operations are explicit. *)
From Coq Require Export List NArith ZArith Bool.
Export ListNotations.

Inductive Outcome (A : Type) : Type :=
| Ok (a : A)        (* normal return *)
| Err (kind : N)    (* clean Go error; kind is a small per-model enum *)
| Panic             (* Go would panic here (index out of range, nil deref, ...) *)
| OutOfFuel.        (* the modelled loop did not finish within the fuel: a hang *)
Arguments Ok {A} a.
Arguments Err {A} kind.
Arguments Panic {A}.
Arguments OutOfFuel {A}.

Definition obind {A B} (o : Outcome A) (f : A -> Outcome B) : Outcome B :=
  match o with
  | Ok a => f a
  | Err k => Err k
  | Panic => Panic
  | OutOfFuel => OutOfFuel
  end.

Definition omap {A B} (f : A -> B) (o : Outcome A) : Outcome B :=
  obind o (fun a => Ok (f a)).

Definition is_ok {A} (o : Outcome A) : bool :=
  match o with Ok _ => true | _ => false end.
Definition is_err {A} (o : Outcome A) : bool :=
  match o with Err _ => true | _ => false end.
Definition is_panic {A} (o : Outcome A) : bool :=
  match o with Panic => true | _ => false end.
Definition is_oof {A} (o : Outcome A) : bool :=
  match o with OutOfFuel => true | _ => false end.

(* Observation class used when only the *kind* of outcome is compared with the
   implementation: 0 ok, 1 clean error, 2 panic / crash, 3 hang. *)
Definition oclass {A} (o : Outcome A) : N :=
  match o with Ok _ => 0 | Err _ => 1 | Panic => 2 | OutOfFuel => 3 end%N.
