(* Go strings are lists of bytes (N); runes are N as well. *)
From Coq Require Export List NArith ZArith Bool.
Export ListNotations.

Definition byte := N.
Definition bytes := list N.

Fixpoint bytes_eqb (a b : bytes) : bool :=
  match a, b with
  | [], [] => true
  | x :: a', y :: b' => N.eqb x y && bytes_eqb a' b'
  | _, _ => false
  end.

Lemma bytes_eqb_eq a b : bytes_eqb a b = true <-> a = b.
Proof.
  revert b; induction a as [|x a IH]; intros [|y b]; simpl; split; intro H;
    try reflexivity; try discriminate.
  - apply andb_true_iff in H as [H1 H2]. apply N.eqb_eq in H1. apply IH in H2. subst; reflexivity.
  - inversion H; subst. rewrite N.eqb_refl. simpl. apply IH. reflexivity.
Qed.

Lemma bytes_eqb_refl a : bytes_eqb a a = true.
Proof. apply bytes_eqb_eq; reflexivity. Qed.

Fixpoint list_eqb {A} (eqb : A -> A -> bool) (a b : list A) : bool :=
  match a, b with
  | [], [] => true
  | x :: a', y :: b' => eqb x y && list_eqb eqb a' b'
  | _, _ => false
  end.

Lemma list_eqb_eq {A} (eqb : A -> A -> bool)
      (H : forall x y, eqb x y = true <-> x = y) a b :
  list_eqb eqb a b = true <-> a = b.
Proof.
  revert b; induction a as [|x a IH]; intros [|y b]; simpl; split; intro E;
    try reflexivity; try discriminate.
  - apply andb_true_iff in E as [E1 E2]. apply H in E1. apply IH in E2. subst; reflexivity.
  - inversion E; subst. apply andb_true_iff; split; [apply H|apply IH]; reflexivity.
Qed.

Definition option_eqb {A} (eqb : A -> A -> bool) (a b : option A) : bool :=
  match a, b with
  | None, None => true
  | Some x, Some y => eqb x y
  | _, _ => false
  end.
