(* C19 — the panic- and hang-freedom theorems of the modelled builtins, collected.
   Each line re-exports a theorem proved in the development of another property,
   stated with fully qualified names (several models define `run`, `clean`, ...). *)
From Murex Require Import Base.Outcome Base.Bytes.
From Murex Require Model.Index Model.Range Model.MkArray Model.Tokenizer Model.BlockParse
  Model.Resolve Model.Flags Model.NamedPipes Model.Jobs Check.C19.
From Murex Require Proof.Index Proof.Range Proof.MkArray Proof.BlockParse Proof.Resolve
  Proof.Flags Proof.NamedPipes Proof.Jobs.
From Murex Require Properties.C16 Properties.C17 Properties.C18 Properties.C20 Properties.C22
  Properties.C24 Properties.C26 Properties.C27.

(* an outcome that is neither an internal panic nor a hang *)
Definition total {A} (o : Outcome A) : Prop := o <> Panic /\ o <> OutOfFuel.

(* `[`, `![`, `[[` on json / yaml / jsonl: any document, any parameters *)
Lemma index_total : forall f o legacy doc params,
  total (Murex.Model.Index.run f o legacy doc params).
Proof. exact Murex.Properties.C16.C16_run_never_panics. Qed.

(* range filters `[s..e]` with any integer parameters on lists of any length *)
Lemma range_total : forall A f (p : Murex.Model.Range.rparams) (xs : list A),
  total (Murex.Model.Range.run_range f p xs).
Proof. exact Murex.Properties.C17.C17_range_total. Qed.

(* mkarray (`a`, `ja`): the odometer never leaves a block, for any number of blocks *)
Lemma mkarray_total : forall e, Murex.Proof.MkArray.wf_expr e ->
  total (Murex.Model.MkArray.expand e).
Proof. exact Murex.Properties.C18.C18_expand_total. Qed.

(* the tokenizer / highlighter returns for every rune list and every cursor position *)
Lemma tokenizer_total : forall block pos,
  exists r, Murex.Model.Tokenizer.parse block pos = Ok r.
Proof. exact Murex.Properties.C20.C20_tokenizer_total. Qed.

(* the block parser's dispatcher returns (tree or syntax error) within length+1 iterations,
   for every sub-parser table meeting the stop-set contract *)
Lemma block_parser_total : forall src orc,
  Murex.Model.BlockParse.contract_b src orc = true ->
  Murex.Proof.BlockParse.returns (Murex.Model.BlockParse.parse_block src orc).
Proof. intros src orc C. exact (proj2 (Murex.Properties.C20.C20_block_terminates_no_panic src orc C)). Qed.

(* command resolution never loops, whatever the alias / function / builtin tables *)
Lemma resolve_terminates : forall t c n args,
  Murex.Model.Resolve.resolve_cmd t c n args <> OutOfFuel.
Proof. exact Murex.Properties.C22.C22_alias_once_terminates. Qed.

(* flag parsing and the `args` builtin: no nil dereference, no endless alias chase *)
Lemma args_total : forall a conv args,
  total (Murex.Model.Flags.args_builtin a conv args).
Proof. exact Murex.Properties.C24.C24_args_never_panics. Qed.

(* the named-pipe registry under every interleaving of API calls and delayed closes *)
Lemma named_pipes_total : forall ops s,
  ~ In Murex.Model.NamedPipes.RPanic (Murex.Model.NamedPipes.results s ops).
Proof. exact Murex.Properties.C26.C26_registry_never_panics. Qed.

(* the job table: no lookup panics after any history *)
Lemma jobs_total : forall s o,
  snd (Murex.Model.Jobs.step s o) <> Murex.Model.Jobs.RPanic.
Proof. exact Murex.Properties.C27.C27_lookups_never_panic. Qed.

(* what the check evaluates: the prediction "finished cleanly" satisfies the property predicate *)
Lemma model_meets_spec : forall p,
  Murex.Check.C19.spec_ok {| Murex.Check.C19.c_prog := p;
                             Murex.Check.C19.c_kind := Murex.Check.C19.model_kind p |} = true.
Proof. intro p. reflexivity. Qed.
