(* C38 — proofs about Model/Lists.v. *)
From Coq Require Import Lia ZifyBool ZifyN ZifyNat Permutation Sorted.
From Murex Require Import Base.Outcome Base.Bytes Model.ByteStr Model.Lists Check.C38 Proof.ByteStr.

Definition ble (a b : bytes) : Prop := bytes_leb a b = true.

(* ---------------------------------------------------------------- msort *)
Lemma insert_perm x l : Permutation (insert x l) (x :: l).
Proof.
  induction l as [|y l IH]; simpl; [apply Permutation_refl|].
  destruct (bytes_leb x y); [apply Permutation_refl|].
  eapply perm_trans; [apply perm_skip; exact IH|apply perm_swap].
Qed.

Lemma isort_perm l : Permutation (isort l) l.
Proof.
  induction l as [|x l IH]; simpl; [constructor|].
  eapply perm_trans; [apply insert_perm|]. apply perm_skip. exact IH.
Qed.

Lemma insert_sorted x l : StronglySorted ble l -> StronglySorted ble (insert x l).
Proof.
  induction l as [|y l IH]; intro S; simpl.
  - constructor; constructor.
  - inversion S as [|? ? S' F]; subst.
    destruct (bytes_leb x y) eqn:E.
    + constructor; [exact S|]. constructor; [exact E|].
      eapply Forall_impl; [|exact F]. intros z Hz. eapply bytes_leb_trans; eassumption.
    + constructor; [apply IH; exact S'|].
      eapply Permutation_Forall; [apply Permutation_sym, insert_perm|].
      constructor; [apply bytes_leb_false; exact E|exact F].
Qed.

Lemma isort_sorted l : StronglySorted ble (isort l).
Proof. induction l as [|x l IH]; simpl; [constructor|apply insert_sorted; exact IH]. Qed.

(* a sorted permutation is unique: whatever sort.Strings does internally, its
   result is this list *)
Lemma sorted_perm_unique a b :
  StronglySorted ble a -> StronglySorted ble b -> Permutation a b -> a = b.
Proof.
  revert b; induction a as [|x a IH]; intros b Sa Sb P.
  - apply Permutation_nil in P. subst; reflexivity.
  - destruct b as [|y b]; [apply Permutation_sym, Permutation_nil in P; discriminate|].
    inversion Sa as [|? ? Sa' Fa]; inversion Sb as [|? ? Sb' Fb]; subst.
    assert (x = y) as ->.
    { assert (Ix : In x (y :: b)) by (eapply Permutation_in; [exact P|left; reflexivity]).
      assert (Iy : In y (x :: a)) by (eapply Permutation_in; [apply Permutation_sym; exact P|left; reflexivity]).
      destruct Ix as [->|Ix]; [reflexivity|]. destruct Iy as [->|Iy]; [reflexivity|].
      apply bytes_leb_antisym.
      - rewrite Forall_forall in Fa. apply Fa; exact Iy.
      - rewrite Forall_forall in Fb. apply Fb; exact Ix. }
    f_equal. apply IH; try assumption. eapply Permutation_cons_inv; exact P.
Qed.

Lemma sort_contract_unique (sort : list bytes -> list bytes) l :
  Permutation (sort l) l -> StronglySorted ble (sort l) -> sort l = isort l.
Proof.
  intros P S. apply sorted_perm_unique; [exact S|apply isort_sorted|].
  eapply perm_trans; [exact P|apply Permutation_sym, isort_perm].
Qed.

Lemma msort_perm_sorted xs :
  Permutation (fst (apply_op OpMsort xs)) xs /\ StronglySorted ble (fst (apply_op OpMsort xs)).
Proof. split; [apply isort_perm|apply isort_sorted]. Qed.

(* the executable checkers of Check/C38 accept it *)
Lemma sortedb_of_sorted l : StronglySorted ble l -> sortedb l = true.
Proof.
  induction l as [|x l IH]; intro S; [reflexivity|].
  inversion S as [|? ? S' F]; subst. destruct l as [|y l]; [reflexivity|].
  cbn [sortedb]. inversion F; subst. apply andb_true_iff; split; [assumption|apply IH; exact S'].
Qed.

Lemma sortedb_sound l : sortedb l = true -> Sorted ble l.
Proof.
  induction l as [|x l IH]; intro H; [constructor|].
  destruct l as [|y l]; [repeat constructor|].
  cbn [sortedb] in H. apply andb_true_iff in H as [H1 H2].
  constructor; [apply IH; exact H2|constructor; exact H1].
Qed.

Lemma count_perm x a b : Permutation a b -> count x a = count x b.
Proof.
  unfold count. induction 1 as [|y a b P IH|y z a|a b c P1 IH1 P2 IH2]; simpl.
  - reflexivity.
  - destruct (bytes_eqb x y); simpl; congruence.
  - destruct (bytes_eqb x y); destruct (bytes_eqb x z); reflexivity.
  - congruence.
Qed.

Lemma permb_of_perm a b : Permutation a b -> permb a b = true.
Proof.
  intro P. unfold permb. apply forallb_forall. intros x _.
  apply Nat.eqb_eq. apply count_perm; exact P.
Qed.

(* ----------------------------------------------------------------- mtac *)
Lemma mtac_is_rev xs : fst (apply_op OpMtac xs) = rev xs.
Proof. reflexivity. Qed.

Lemma mtac_involutive xs : fst (apply_op OpMtac (fst (apply_op OpMtac xs))) = xs.
Proof. simpl. apply rev_involutive. Qed.

(* ------------------------------------------------------ prepend / append *)
Lemma prepend_exact ps xs : fst (apply_op (OpPrepend ps) xs) = ps ++ xs.
Proof. reflexivity. Qed.
Lemma append_exact ps xs : fst (apply_op (OpAppend ps) xs) = xs ++ ps.
Proof. reflexivity. Qed.

(* --------------------------------------------------------- match / !match *)
(* m and nm are merged, in order, into xs *)
Inductive Merge {A} : list A -> list A -> list A -> Prop :=
| Merge_nil : Merge [] [] []
| Merge_l x m nm xs : Merge m nm xs -> Merge (x :: m) nm (x :: xs)
| Merge_r x m nm xs : Merge m nm xs -> Merge m (x :: nm) (x :: xs).

Lemma filter_merge {A} (f : A -> bool) xs :
  Merge (filter f xs) (filter (fun x => negb (f x)) xs) xs.
Proof.
  induction xs as [|x xs IH]; simpl; [constructor|].
  destruct (f x); simpl; constructor; exact IH.
Qed.

Lemma merge_length {A} (m nm xs : list A) : Merge m nm xs -> length xs = (length m + length nm)%nat.
Proof. induction 1; simpl; lia. Qed.

Lemma match_partition ps xs :
  join_sp ps <> [] ->
  let m := fst (apply_op (OpMatch ps) xs) in
  let nm := snd (apply_op (OpMatch ps) xs) in
  Merge m nm xs /\
  Forall (fun x => contains (join_sp ps) x = true) m /\
  Forall (fun x => contains (join_sp ps) x = false) nm.
Proof.
  intro NE. cbn [apply_op]. destruct (join_sp ps) as [|c pat] eqn:E; [congruence|].
  cbn [fst snd]. split; [apply filter_merge|]. split.
  - apply Forall_forall. intros x Hx. apply filter_In in Hx. tauto.
  - apply Forall_forall. intros x Hx. apply filter_In in Hx. destruct Hx as [_ Hx].
    apply negb_true_iff in Hx. exact Hx.
Qed.

Lemma mergeb_filter pat xs :
  mergeb pat xs (filter (contains pat) xs) (filter (fun x => negb (contains pat x)) xs) = true.
Proof.
  induction xs as [|x xs IH]; [reflexivity|]. cbn [mergeb filter].
  destruct (contains pat x); cbn [negb]; rewrite bytes_eqb_refl; exact IH.
Qed.

Lemma mergeb_sound pat xs m nm : mergeb pat xs m nm = true ->
  Merge m nm xs /\ Forall (fun x => contains pat x = true) m /\ Forall (fun x => contains pat x = false) nm.
Proof.
  revert m nm; induction xs as [|x xs IH]; intros m nm H; cbn [mergeb] in H.
  - destruct m; destruct nm; try discriminate. repeat constructor.
  - destruct (contains pat x) eqn:C.
    + destruct m as [|y m]; [discriminate|]. apply andb_true_iff in H as [E H].
      apply bytes_eqb_eq in E; subst y. destruct (IH _ _ H) as (M & F1 & F2).
      split; [constructor; exact M|]. split; [constructor; assumption|exact F2].
    + destruct nm as [|y nm]; [discriminate|]. apply andb_true_iff in H as [E H].
      apply bytes_eqb_eq in E; subst y. destruct (IH _ _ H) as (M & F1 & F2).
      split; [constructor; exact M|]. split; [exact F1|constructor; assumption].
Qed.

(* ---------------------------------------------------------- left / right *)
Lemma take_drop_chars k b : take_chars k b ++ drop_chars k b = b.
Proof.
  unfold take_chars, drop_chars. rewrite <- concat_app, firstn_skipn. apply concat_chars.
Qed.

Lemma left1_keep n b :
  left1 n b = concat (firstn (Z.to_nat (keep n (Z.of_nat (length (chars b))))) (chars b)).
Proof.
  unfold left1, keep, take_chars, clamp. set (cs := chars b).
  destruct (Z.ltb_spec 0 n).
  - f_equal. f_equal. lia.
  - destruct (Z.ltb_spec n 0).
    + destruct (Z.ltb_spec (Z.of_nat (length cs)) (Z.abs n)).
      * replace (Z.to_nat _) with 0%nat by lia. reflexivity.
      * f_equal. f_equal. lia.
    + reflexivity.
Qed.

Lemma right1_keep n b :
  let c := Z.of_nat (length (chars b)) in
  right1 n b = concat (skipn (Z.to_nat (c - keep n c)) (chars b)).
Proof.
  unfold right1, keep, drop_chars, clamp. set (cs := chars b). cbv zeta.
  destruct (Z.ltb_spec 0 n).
  - destruct (Z.ltb_spec (Z.of_nat (length cs)) n).
    + replace (Z.to_nat _) with 0%nat by lia. cbn [skipn]. symmetry. apply concat_chars.
    + f_equal. f_equal. lia.
  - destruct (Z.ltb_spec n 0).
    + destruct (Z.ltb_spec (Z.of_nat (length cs)) (Z.abs n)).
      * replace (Z.to_nat _) with (length cs) by lia. rewrite skipn_all. reflexivity.
      * f_equal. f_equal. lia.
    + replace (Z.to_nat _) with (length cs) by lia. rewrite skipn_all. reflexivity.
Qed.

(* left n keeps a prefix, right n a suffix, made of whole characters *)
Lemma left1_prefix n b : exists k, left1 n b = take_chars k b /\ b = left1 n b ++ drop_chars k b.
Proof.
  rewrite left1_keep. eexists. split; [reflexivity|]. symmetry. apply take_drop_chars.
Qed.

Lemma right1_suffix n b : exists k, right1 n b = drop_chars k b /\ b = take_chars k b ++ right1 n b.
Proof.
  rewrite right1_keep. eexists. split; [reflexivity|]. symmetry. apply take_drop_chars.
Qed.

(* `left n` and `right -n` cut every element at the same place *)
Lemma left_right_complement n b : n <> 0%Z -> left1 n b ++ right1 (- n) b = b.
Proof.
  intro NZ. rewrite left1_keep, right1_keep. cbv zeta.
  set (cs := chars b). set (c := Z.of_nat (length cs)).
  replace (Z.to_nat (c - keep (- n) c)) with (Z.to_nat (keep n c)).
  - rewrite <- concat_app, firstn_skipn. apply concat_chars.
  - unfold keep. destruct (Z.ltb_spec 0 n); destruct (Z.ltb_spec n 0);
      destruct (Z.ltb_spec 0 (- n)); destruct (Z.ltb_spec (- n) 0); lia.
Qed.

(* on ASCII elements characters are bytes: the documented examples *)
Lemma left1_ascii n b : Forall (fun c => (c < 128)%N) b -> (0 < n)%Z ->
  left1 n b = firstn (Z.to_nat n) b.
Proof.
  intros A P. rewrite left1_keep, (chars_ascii b A). rewrite map_length.
  unfold keep. destruct (Z.ltb_spec 0 n); [|lia].
  rewrite <- (concat_map_singleton (firstn (Z.to_nat n) b)), firstn_map. f_equal.
  destruct (Z.min_spec n (Z.of_nat (length b))) as [[L ->]|[L ->]]; [reflexivity|].
  rewrite Nat2Z.id. rewrite !firstn_all2; [reflexivity| |]; rewrite ?map_length; lia.
Qed.

Lemma forall2b_map {A B} (f : A -> B -> bool) (g : A -> B) xs :
  (forall x, f x (g x) = true) -> forall2b f xs (map g xs) = true.
Proof. intro H. induction xs as [|x xs IH]; simpl; [reflexivity|]. rewrite H. exact IH. Qed.

Lemma forall2b_length {A B} (f : A -> B -> bool) a b : forall2b f a b = true -> length a = length b.
Proof.
  revert b; induction a as [|x a IH]; intros [|y b] H; simpl in *; try discriminate; [reflexivity|].
  apply andb_true_iff in H as [_ H]. f_equal. apply IH; exact H.
Qed.

(* left / right / prefix / suffix are pointwise: same number of elements, the
   i-th output is the transformed i-th input *)
Lemma pointwise_ops xs :
  (forall n, fst (apply_op (OpLeft n) xs) = map (left1 n) xs) /\
  (forall n, fst (apply_op (OpRight n) xs) = map (right1 n) xs) /\
  (forall ps, fst (apply_op (OpPrefix ps) xs) = map (fun x => join_sp ps ++ x) xs) /\
  (forall ps, fst (apply_op (OpSuffix ps) xs) = map (fun x => x ++ join_sp ps) xs) /\
  (forall o, match o with OpLeft _ | OpRight _ | OpPrefix _ | OpSuffix _ => True | _ => False end ->
             length (fst (apply_op o xs)) = length xs).
Proof.
  repeat split; try reflexivity.
  intros o H. destruct o; try contradiction; cbn [apply_op fst]; apply map_length.
Qed.

(* ------------------------------------------------- the model meets the spec *)
Lemma elems_eqb_refl l : elems_eqb l l = true.
Proof. apply list_eqb_eq; [apply bytes_eqb_eq|reflexivity]. Qed.

Lemma spec_elems_model o xs : match o with OpMatch ps => join_sp ps <> [] | _ => True end ->
  spec_elems o xs (fst (apply_op o xs)) (snd (apply_op o xs)) = true.
Proof.
  intro G. destruct o; cbn [apply_op fst snd spec_elems].
  - apply andb_true_iff; split.
    + apply sortedb_of_sorted, isort_sorted.
    + apply permb_of_perm, Permutation_sym, isort_perm.
  - apply elems_eqb_refl.
  - apply elems_eqb_refl.
  - apply elems_eqb_refl.
  - destruct (join_sp ps) as [|c pat] eqn:E; [congruence|]. cbn [fst snd]. apply mergeb_filter.
  - apply forall2b_map. intro x. unfold left_spec. rewrite left1_keep. apply bytes_eqb_refl.
  - apply forall2b_map. intro x. unfold right_spec. rewrite right1_keep. apply bytes_eqb_refl.
  - apply forall2b_map. intro x. apply bytes_eqb_refl.
  - apply forall2b_map. intro x. apply bytes_eqb_refl.
Qed.

(* the cases in which the model reports no error beyond the usage error *)
Definition clean (dt : dtype) (strict : bool) (o : op) (xs : list bytes) : bool :=
  let r := run dt strict o xs in
  match o with
  | OpMatch ps => is_nil (join_sp ps) || (negb (o_err r) && negb (o_err2 r))
  | _ => negb (o_err r)
  end.

Lemma clean_str strict o xs : clean DStr strict o xs = true.
Proof.
  unfold clean, run. destruct o; cbn [o_err o_err2 op_err]; try reflexivity.
  destruct (is_nil (join_sp ps)); reflexivity.
Qed.

(* for json the only errors are empty result lists *)
Lemma clean_json_nonempty strict o xs :
  is_nil (fst (apply_op o xs)) = false ->
  (match o with OpMatch _ => is_nil (snd (apply_op o xs)) = false | _ => True end) ->
  clean DJson strict o xs = true.
Proof.
  intros H1 H2. unfold clean, run. cbn [in_elems].
  destruct o; cbn [o_err o_err2 op_err]; rewrite ?H1, ?H2; cbn; try reflexivity.
  destruct (is_nil (join_sp ps)); reflexivity.
Qed.

Theorem model_meets_spec dt strict o xs : clean dt strict o xs = true ->
  spec_ok {| c_dt := dt; c_strict := strict; c_op := o; c_in := xs; c_obs := run dt strict o xs |} = true.
Proof.
  unfold clean, spec_ok. cbn [c_dt c_op c_in c_obs].
  set (ys := in_elems dt xs).
  destruct o as [| |ps|ps|ps|n|n|ps|ps]; unfold run; fold ys; cbv zeta; cbn [o_err o_out o_err2 o_out2]; intro C.
  5: { (* OpMatch *)
    destruct (join_sp ps) as [|c pat] eqn:J.
    - cbn [apply_op]. rewrite J. cbn [fst snd is_nil]. unfold op_err. rewrite J. reflexivity.
    - assert (G : join_sp ps <> []) by (rewrite J; discriminate).
      cbn [is_nil orb] in C |- *. rewrite (spec_elems_model (OpMatch ps) ys G). cbn [andb]. exact C. }
  all: match goal with |- context [apply_op ?o ?ys] =>
         pose proof (spec_elems_model o ys I) as S; cbn [apply_op fst snd] in S, C |- *;
         rewrite S; cbn [andb]; exact C end.
Qed.

(* every case the guard excludes is exactly known finding 1 *)
Theorem unclean_is_finding dt strict o xs : clean dt strict o xs = false ->
  spec_ok {| c_dt := dt; c_strict := strict; c_op := o; c_in := xs; c_obs := run dt strict o xs |} = false /\
  classify {| c_dt := dt; c_strict := strict; c_op := o; c_in := xs; c_obs := run dt strict o xs |} = 1%N.
Proof.
  destruct dt; [rewrite clean_str; discriminate|].
  unfold clean, spec_ok, classify. cbn [c_dt c_op c_in c_obs in_elems].
  destruct o as [| |ps|ps|ps|n|n|ps|ps]; unfold run; cbn [in_elems]; cbv zeta; cbn [o_err o_out o_err2 o_out2]; intro C.
  5: { destruct (join_sp ps) as [|c pat] eqn:J; [discriminate|].
       assert (G : join_sp ps <> []) by (rewrite J; discriminate).
       cbn [is_nil orb negb andb] in *. rewrite (spec_elems_model (OpMatch ps) xs G). cbn [andb].
       unfold op_err in *. rewrite J in *. cbn [is_nil orb] in *.
       destruct (is_nil (fst (apply_op (OpMatch ps) xs))); destruct (is_nil (snd (apply_op (OpMatch ps) xs)));
         cbn in *; try discriminate; split; reflexivity. }
  all: match goal with |- context [fst (apply_op ?o ?ys)] =>
         pose proof (spec_elems_model o ys I) as S;
         change (snd (apply_op o ys)) with (@nil bytes) in S;
         generalize dependent (fst (apply_op o ys)); intros out C S end.
  all: rewrite S; unfold op_err, json_empty_err in *; destruct out; try (destruct strict);
       cbn in *; try discriminate; split; reflexivity.
Qed.

(* F38-1: `%[a,b] -> match x` (json) reports "no data returned" instead of [] *)
Lemma empty_result_refuted :
  clean DJson true (OpMatch [[120%N]]) [[97%N]; [98%N]] = false /\
  o_out (run DJson true (OpMatch [[120%N]]) [[97%N]; [98%N]]) = [] /\
  o_err (run DJson true (OpMatch [[120%N]]) [[97%N]; [98%N]]) = true.
Proof. vm_compute. auto. Qed.

(* match and !match together keep every element: counts add up *)
Lemma match_count ps xs : join_sp ps <> [] ->
  (length (fst (apply_op (OpMatch ps) xs)) + length (snd (apply_op (OpMatch ps) xs)) = length xs)%nat.
Proof.
  intro NE. destruct (match_partition ps xs NE) as (M & _). symmetry. apply merge_length. exact M.
Qed.

Lemma msort_count xs : length (fst (apply_op OpMsort xs)) = length xs.
Proof. apply Permutation_length, isort_perm. Qed.

Lemma mtac_count xs : length (fst (apply_op OpMtac xs)) = length xs.
Proof. apply rev_length. Qed.

Lemma pend_count ps xs :
  length (fst (apply_op (OpPrepend ps) xs)) = (length ps + length xs)%nat /\
  length (fst (apply_op (OpAppend ps) xs)) = (length xs + length ps)%nat.
Proof. cbn [apply_op fst]. rewrite !app_length. auto. Qed.
