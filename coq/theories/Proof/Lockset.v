(* C32 — soundness of the lock-set discipline of Model/Lockset.v: threads that run
   any sequences of disciplined, lock-balanced paths never reach a state in which two
   of them are about to perform conflicting accesses. *)
From Coq Require Import List NArith Bool Arith Lia.
Import ListNotations.
From Murex Require Import Model.Lockset.

Lemma mem_remove1 x y l l' : remove1 x l = Some l' -> mem y l' = true -> mem y l = true.
Proof.
  revert l'; induction l as [|z l IH]; intros l' H Hm; simpl in H; [discriminate|].
  destruct (N.eqb x z) eqn:E.
  - inversion H; subst. unfold mem in *. simpl. rewrite Hm. apply orb_true_r.
  - destruct (remove1 x l) as [r|] eqn:R; [|discriminate]. inversion H; subst.
    unfold mem in *. simpl in *. apply orb_true_iff in Hm as [Hm|Hm].
    + rewrite Hm. reflexivity.
    + rewrite (IH r eq_refl Hm). apply orb_true_r.
Qed.

Lemma nth_error_set_nth {A} (l : list A) i x k :
  nth_error (set_nth l i x) k =
  if Nat.eqb i k then (match nth_error l k with Some _ => Some x | None => None end) else nth_error l k.
Proof.
  revert i k; induction l as [|y l IH]; intros [|i] [|k]; simpl;
    try (destruct (Nat.eqb _ _); reflexivity); try reflexivity.
  apply IH.
Qed.

Lemma existsb_false_nth {A} (f : A -> bool) l k x :
  existsb f l = false -> nth_error l k = Some x -> f x = false.
Proof.
  intros H Hk. apply nth_error_In in Hk.
  destruct (f x) eqn:E; [|reflexivity].
  assert (existsb f l = true) by (apply existsb_exists; eauto). congruence.
Qed.

Lemma option_map_some {A B} (f : A -> B) o y : option_map f o = Some y -> exists x, o = Some x /\ y = f x.
Proof. destruct o; simpl; intro H; [inversion H; eauto|discriminate]. Qed.

Section Sound.
  Variable c : cls.
  Variable guard : N -> option N.

  Lemma sim_app p q : forall hw hr,
    sim c guard hw hr (p ++ q) =
    match sim c guard hw hr p with Some (a, b) => sim c guard a b q | None => None end.
  Proof.
    induction p as [|e p IH]; intros hw hr; simpl; [reflexivity|].
    destruct e; simpl;
      try (destruct (mem m hw || mem m hr); [reflexivity|apply IH]);
      try (destruct (mem m hw); [reflexivity|apply IH]);
      try (destruct (remove1 m hw); [apply IH|reflexivity]);
      try (destruct (remove1 m hr); [apply IH|reflexivity]);
      try (match goal with |- context [if ?b then _ else _] => destruct b end; [apply IH|reflexivity]).
  Qed.

  Lemma sim_concat ps : Forall (fun p => path_ok c guard p = true) ps ->
    sim c guard [] [] (List.concat ps) = Some ([], []).
  Proof.
    induction ps as [|p ps IH]; intro H; simpl; [reflexivity|].
    inversion H as [|? ? Hp Hps]; subst. rewrite sim_app.
    unfold path_ok in Hp.
    destruct (sim c guard [] [] p) as [[[|] [|]]|]; try discriminate. apply IH. assumption.
  Qed.

  (* the invariant of the interleaving semantics *)
  Definition thread_ok (t : thread) : Prop := sim c guard (t_hw t) (t_hr t) (t_rest t) <> None.

  Definition excl (st : state) : Prop :=
    forall i j ti tj m, i <> j -> nth_error st i = Some ti -> nth_error st j = Some tj ->
      mem m (t_hw ti) = true -> mem m (t_hw tj) = false /\ mem m (t_hr tj) = false.

  Definition SInv (st : state) : Prop :=
    (forall i t, nth_error st i = Some t -> thread_ok t) /\ excl st.

  Lemma init_inv progs : Forall (Forall (fun p => path_ok c guard p = true)) progs ->
    SInv (init_state progs).
  Proof.
    intro H. split.
    - intros i t Hi. unfold init_state in Hi.
      rewrite nth_error_map in Hi. apply option_map_some in Hi as [ps [E ->]].
      unfold thread_ok. simpl.
      rewrite sim_concat; [discriminate|].
      rewrite Forall_forall in H. apply H. eapply nth_error_In. eassumption.
    - intros i j ti tj m _ Hi _ Hm. unfold init_state in Hi.
      rewrite nth_error_map in Hi. apply option_map_some in Hi as [ps [E ->]].
      simpl in Hm. discriminate.
  Qed.

  Lemma step_inv st i st' : SInv st -> tstep st i = Some st' -> SInv st'.
  Proof.
    intros [Hok Hex] Hs. unfold tstep in Hs.
    destruct (nth_error st i) as [t|] eqn:Hi; [|discriminate].
    destruct (t_rest t) as [|e rest] eqn:Hr; [discriminate|].
    pose proof (Hok i t Hi) as Ht. unfold thread_ok in Ht. rewrite Hr in Ht. simpl in Ht.
    (* generic facts: what a replaced thread i must satisfy *)
    assert (Gen : forall t',
      st' = set_nth st i t' ->
      thread_ok t' ->
      (forall m, mem m (t_hw t') = true -> mem m (t_hw t) = true \/
                 (forall j tj, j <> i -> nth_error st j = Some tj -> holds_any m tj = false)) ->
      (forall m, mem m (t_hr t') = true -> mem m (t_hr t) = true \/
                 (forall j tj, j <> i -> nth_error st j = Some tj -> holds_w m tj = false)) ->
      SInv st').
    { intros t' -> Hok' Hw Hrd. split.
      - intros k tk Hk. rewrite nth_error_set_nth in Hk.
        destruct (Nat.eqb_spec i k) as [->|Hne].
        + rewrite Hi in Hk. inversion Hk; subst. assumption.
        + eapply Hok; eassumption.
      - intros a b ta tb m Hab Ha Hb Hm. rewrite nth_error_set_nth in Ha, Hb.
        destruct (Nat.eqb_spec i a) as [Eia|Nia]; destruct (Nat.eqb_spec i b) as [Eib|Nib].
        + exfalso. apply Hab. congruence.
        + (* a is the stepping thread *)
          rewrite <- Eia in *. rewrite Hi in Ha. inversion Ha; subst ta.
          destruct (Hw m Hm) as [Hold|Hnew].
          * exact (Hex i b t tb m Hab Hi Hb Hold).
          * pose proof (Hnew b tb (not_eq_sym Nib) Hb) as Hn. unfold holds_any in Hn.
            apply orb_false_iff in Hn. exact Hn.
        + (* b is the stepping thread, a holds m for writing *)
          rewrite <- Eib in *. rewrite Hi in Hb. inversion Hb; subst tb.
          destruct (Hex a i ta t m Hab Ha Hi Hm) as [H1 H2]. split.
          * destruct (mem m (t_hw t')) eqn:E; [|reflexivity].
            destruct (Hw m E) as [Hold|Hnew]; [congruence|].
            pose proof (Hnew a ta Hab Ha) as Hn. unfold holds_any in Hn.
            apply orb_false_iff in Hn as [Hn _]. congruence.
          * destruct (mem m (t_hr t')) eqn:E; [|reflexivity].
            destruct (Hrd m E) as [Hold|Hnew]; [congruence|].
            pose proof (Hnew a ta Hab Ha) as Hn. unfold holds_w in Hn. congruence.
        + exact (Hex a b ta tb m Hab Ha Hb Hm). }
    destruct e as [m|m|m|m|f|f|f].
    - (* Lock *)
      destruct (existsb (holds_any m) st) eqn:Ex; [discriminate|]. inversion Hs; subst st'.
      destruct (mem m (t_hw t) || mem m (t_hr t)) eqn:Em; [congruence|].
      eapply Gen; [reflexivity| | |].
      + unfold thread_ok. simpl. assumption.
      + intros m' Hm'. simpl in Hm'. unfold mem in Hm'. simpl in Hm'.
        apply orb_true_iff in Hm' as [Hm'|Hm']; [|left; exact Hm'].
        apply N.eqb_eq in Hm'. subst m'. right. intros j tj _ Hj.
        exact (existsb_false_nth _ _ _ _ Ex Hj).
      + intros m' Hm'. left. exact Hm'.
    - (* Unlock *)
      destruct (remove1 m (t_hw t)) as [hw'|] eqn:R; [|discriminate]. inversion Hs; subst st'.
      eapply Gen; [reflexivity| | |].
      + unfold thread_ok. simpl. assumption.
      + intros m' Hm'. left. simpl in Hm'. eapply mem_remove1; eassumption.
      + intros m' Hm'. left. exact Hm'.
    - (* RLock *)
      destruct (existsb (holds_w m) st) eqn:Ex; [discriminate|]. inversion Hs; subst st'.
      destruct (mem m (t_hw t)) eqn:Em; [congruence|].
      eapply Gen; [reflexivity| | |].
      + unfold thread_ok. simpl. assumption.
      + intros m' Hm'. left. exact Hm'.
      + intros m' Hm'. simpl in Hm'. unfold mem in Hm'. simpl in Hm'.
        apply orb_true_iff in Hm' as [Hm'|Hm']; [|left; exact Hm'].
        apply N.eqb_eq in Hm'. subst m'. right. intros j tj _ Hj.
        exact (existsb_false_nth _ _ _ _ Ex Hj).
    - (* RUnlock *)
      destruct (remove1 m (t_hr t)) as [hr'|] eqn:R; [|discriminate]. inversion Hs; subst st'.
      eapply Gen; [reflexivity| | |].
      + unfold thread_ok. simpl. assumption.
      + intros m' Hm'. left. exact Hm'.
      + intros m' Hm'. left. simpl in Hm'. eapply mem_remove1; eassumption.
    - inversion Hs; subst st'. destruct (access_ok c guard (t_hw t) (t_hr t) (Rd f)); [|congruence].
      eapply Gen; [reflexivity| | |]; [unfold thread_ok; simpl; assumption| |]; intros m' Hm'; left; exact Hm'.
    - inversion Hs; subst st'. destruct (access_ok c guard (t_hw t) (t_hr t) (Wr f)); [|congruence].
      eapply Gen; [reflexivity| | |]; [unfold thread_ok; simpl; assumption| |]; intros m' Hm'; left; exact Hm'.
    - inversion Hs; subst st'. destruct (access_ok c guard (t_hw t) (t_hr t) (Atomic f)); [|congruence].
      eapply Gen; [reflexivity| | |]; [unfold thread_ok; simpl; assumption| |]; intros m' Hm'; left; exact Hm'.
  Qed.

  Lemma reachable_inv st st' : SInv st -> reachable st st' -> SInv st'.
  Proof.
    intros HI Hr. induction Hr as [|st st1 st' i Hs Hr IH]; [assumption|].
    apply IH. eapply step_inv; eassumption.
  Qed.

  (* what the discipline gives at the next event of a thread *)
  Lemma next_access t e : thread_ok t -> hd_error (t_rest t) = Some e ->
    access_ok c guard (t_hw t) (t_hr t) e = true.
  Proof.
    unfold thread_ok. destruct (t_rest t) as [|e' rest]; simpl; [discriminate|].
    intros H He. inversion He; subst e'.
    destruct e; try reflexivity; simpl in *;
      match goal with |- ?b = true => destruct b; [reflexivity|congruence] end.
  Qed.

  Lemma held_excl st i j ti tj f : excl st -> i <> j ->
    nth_error st i = Some ti -> nth_error st j = Some tj ->
    held guard f (t_hw ti) = true ->
    held guard f (t_hw tj) = false /\ held guard f (t_hr tj) = false.
  Proof.
    unfold held. intros Hex Hne Hi Hj H. destruct (guard f) as [m|]; [|discriminate].
    exact (Hex i j ti tj m Hne Hi Hj H).
  Qed.

  Lemma inv_no_race st : SInv st -> ~ racy st.
  Proof.
    intros [Hok Hex] (i & j & ti & tj & a & b & Hne & Hi & Hj & Ha & Hb & Hc).
    pose proof (next_access ti a (Hok i ti Hi) Ha) as Ai.
    pose proof (next_access tj b (Hok j tj Hj) Hb) as Aj.
    assert (Hji : j <> i) by (intro; apply Hne; congruence).
    destruct a as [| | | |f|f|f]; destruct b as [| | | |g|g|g]; simpl in Hc; try discriminate;
      apply N.eqb_eq in Hc; subst g; simpl in Ai, Aj;
      repeat match goal with
      | H : _ && _ = true |- _ => apply andb_true_iff in H as [? ?]
      end.
    - (* Rd / Wr *)
      destruct (held_excl st j i tj ti f Hex Hji Hj Hi ltac:(assumption)) as [E1 E2].
      rewrite E1, E2 in *. simpl in *.
      match goal with H : pw c f = true |- _ => rewrite H in * end. simpl in *. discriminate.
    - (* Rd / Atomic *)
      match goal with H : pu c f = true |- _ => rewrite H in * end.
      match goal with H : au c f = true |- _ => rewrite H in * end.
      rewrite orb_false_r, andb_false_r, orb_false_r in *.
      destruct (held_excl st j i tj ti f Hex Hji Hj Hi ltac:(assumption)) as [E1 E2].
      rewrite E1, E2 in *. discriminate.
    - (* Wr / Rd *)
      destruct (held_excl st i j ti tj f Hex Hne Hi Hj ltac:(assumption)) as [E1 E2].
      rewrite E1, E2 in *. simpl in *.
      match goal with H : pw c f = true |- _ => rewrite H in * end. simpl in *. discriminate.
    - (* Wr / Wr *)
      destruct (held_excl st i j ti tj f Hex Hne Hi Hj ltac:(assumption)) as [E1 E2]. congruence.
    - (* Wr / Atomic *)
      match goal with H : pu c f = true |- _ => rewrite H in * end.
      rewrite orb_false_r in *.
      destruct (held_excl st i j ti tj f Hex Hne Hi Hj ltac:(assumption)) as [E1 E2]. congruence.
    - (* Atomic / Rd *)
      match goal with H : pu c f = true |- _ => rewrite H in * end.
      match goal with H : au c f = true |- _ => rewrite H in * end.
      rewrite orb_false_r, andb_false_r, orb_false_r in *.
      destruct (held_excl st i j ti tj f Hex Hne Hi Hj ltac:(assumption)) as [E1 E2].
      rewrite E1, E2 in *. discriminate.
    - (* Atomic / Wr *)
      match goal with H : pu c f = true |- _ => rewrite H in * end.
      rewrite orb_false_r in *.
      destruct (held_excl st j i tj ti f Hex Hji Hj Hi ltac:(assumption)) as [E1 E2]. congruence.
  Qed.

  (* Soundness: any number of threads, each running any sequence of disciplined
     paths, in any interleaving allowed by the lock semantics: no data race. *)
  Theorem lockset_sound (progs : list (list path)) :
    Forall (Forall (fun p => path_ok c guard p = true)) progs ->
    forall st, reachable (init_state progs) st -> ~ racy st.
  Proof.
    intros H st Hr. apply inv_no_race. eapply reachable_inv; [|eassumption]. apply init_inv. assumption.
  Qed.
End Sound.

(* the table form: threads draw their paths from the methods of a table that passes lockset_ok *)
Definition table_paths (t : table) : list path := flat_map (fun m => snd m) t.

Theorem lockset_table_sound (g : list (N * N)) (t : table) (progs : list (list path)) :
  lockset_ok g t = true ->
  Forall (Forall (fun p => In p (table_paths t))) progs ->
  forall st, reachable (init_state progs) st -> ~ racy st.
Proof.
  intros Hok Hin. apply (lockset_sound (cls_of t) (guard_of g)).
  unfold lockset_ok in Hok. rewrite forallb_forall in Hok.
  eapply Forall_impl; [|exact Hin]. intros ps Hps.
  eapply Forall_impl; [|exact Hps]. intros p Hp.
  unfold table_paths in Hp. apply in_flat_map in Hp as [m [Hm Hpm]].
  specialize (Hok m Hm). unfold method_ok in Hok. rewrite forallb_forall in Hok. apply Hok. assumption.
Qed.
