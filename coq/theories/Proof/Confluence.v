(* Abstract determinacy: a system of deterministic agents whose steps commute
   pairwise (one-step diamond) reaches, from a given state, at most one terminal
   state; every maximal run has the same length; no run is longer.  No termination
   hypothesis is needed.  Used twice for C03 (one pipeline; a whole program). *)
From Coq Require Import List Arith Lia.
Import ListNotations.

Section Confluence.
  Variable C : Type.
  Variable fire : nat -> C -> option C.
  Variable Inv : C -> Prop.
  Hypothesis inv_step : forall j c c', Inv c -> fire j c = Some c' -> Inv c'.
  Hypothesis diamond : forall i j c c1 c2, Inv c -> i <> j ->
    fire i c = Some c1 -> fire j c = Some c2 ->
    exists c3, fire j c1 = Some c3 /\ fire i c2 = Some c3.

  Definition terminal (c : C) : Prop := forall j, fire j c = None.

  (* n real steps *)
  Inductive steps : nat -> C -> C -> Prop :=
  | steps0 c : steps 0 c c
  | stepsS n j c c1 c' : fire j c = Some c1 -> steps n c1 c' -> steps (S n) c c'.

  Lemma steps_inv n c c' : Inv c -> steps n c c' -> Inv c'.
  Proof.
    intros HI Hs. induction Hs as [|n j c c1 c' Hf Hs IH]; [assumption|].
    apply IH. eapply inv_step; eassumption.
  Qed.

  Lemma steps_trans n m a b c : steps n a b -> steps m b c -> steps (n + m) a c.
  Proof.
    intros H1 H2. induction H1 as [|n j a a1 b Hf H1 IH]; simpl; [assumption|].
    econstructor; [eassumption|]. apply IH. assumption.
  Qed.

  (* the key lemma: any enabled step can be taken first without changing where we end *)
  Lemma strip n : forall c t j c2, Inv c -> steps n c t -> terminal t -> fire j c = Some c2 ->
    exists m, n = S m /\ steps m c2 t.
  Proof.
    induction n as [|k IH]; intros c t j c2 HI Hs Ht Hf.
    - inversion Hs; subst. rewrite (Ht j) in Hf. discriminate.
    - inversion Hs as [|k' i c0 c1 t0 Hfi Hs1]; subst.
      exists k. split; [reflexivity|].
      destruct (Nat.eq_dec i j) as [->|Hne].
      + rewrite Hf in Hfi. inversion Hfi; subst. assumption.
      + destruct (diamond i j c c1 c2 HI Hne Hfi Hf) as [c3 [H13 H23]].
        assert (HI1 : Inv c1) by (eapply inv_step; eassumption).
        destruct (IH c1 t j c3 HI1 Hs1 Ht H13) as [m [-> Hs3]].
        econstructor; eassumption.
  Qed.

  (* every run is a prefix of (a reordering of) the terminating one *)
  Theorem bounded m : forall n c t c', Inv c -> steps n c t -> terminal t -> steps m c c' ->
    m <= n /\ steps (n - m) c' t.
  Proof.
    induction m as [|m IH]; intros n c t c' HI Hn Ht Hm.
    - inversion Hm; subst. split; [lia|]. rewrite Nat.sub_0_r. assumption.
    - inversion Hm as [|m' j c0 c1 c0' Hf Hm1]; subst.
      destruct (strip n c t j c1 HI Hn Ht Hf) as [k [-> Hk]].
      assert (HI1 : Inv c1) by (eapply inv_step; eassumption).
      destruct (IH k c1 t c' HI1 Hk Ht Hm1) as [Hle Hrest].
      split; [lia|]. simpl. assumption.
  Qed.

  Theorem confluence n m c t t' : Inv c ->
    steps n c t -> terminal t -> steps m c t' -> terminal t' -> n = m /\ t = t'.
  Proof.
    intros HI Hn Ht Hm Ht'.
    destruct (bounded m n c t t' HI Hn Ht Hm) as [Hle Hrest].
    inversion Hrest as [c0 Heq|k j c0 c1 c0' Hf Hs Heq]; subst.
    - split; [lia|reflexivity].
    - rewrite (Ht' j) in Hf. discriminate.
  Qed.

  (* schedules: lists of agent ids; a disabled id is skipped *)
  Fixpoint runs (sched : list nat) (c : C) : C :=
    match sched with
    | [] => c
    | j :: sched' => runs sched' (match fire j c with Some c' => c' | None => c end)
    end.

  Lemma runs_steps sched : forall c, exists n, n <= length sched /\ steps n c (runs sched c).
  Proof.
    induction sched as [|j sched IH]; intros c; simpl.
    - exists 0. split; [lia|constructor].
    - destruct (fire j c) as [c1|] eqn:Hf.
      + destruct (IH c1) as [n [Hle Hs]]. exists (S n). split; [lia|]. econstructor; eassumption.
      + destruct (IH c) as [n [Hle Hs]]. exists n. split; [lia|assumption].
  Qed.

  Theorem schedules_agree s1 s2 c : Inv c ->
    terminal (runs s1 c) -> terminal (runs s2 c) -> runs s1 c = runs s2 c.
  Proof.
    intros HI H1 H2.
    destruct (runs_steps s1 c) as [n [_ Hn]]. destruct (runs_steps s2 c) as [m [_ Hm]].
    destruct (confluence n m c _ _ HI Hn H1 Hm H2) as [_ Heq]. exact Heq.
  Qed.

  (* if some run of n steps terminates, every schedule performs at most n real steps
     and can always be completed: no schedule hangs or deadlocks *)
  Theorem no_schedule_hangs n c t s : Inv c -> steps n c t -> terminal t ->
    exists k, k <= n /\ steps k (runs s c) t.
  Proof.
    intros HI Hn Ht. destruct (runs_steps s c) as [m [_ Hm]].
    destruct (bounded m n c t _ HI Hn Ht Hm) as [Hle Hrest].
    exists (n - m). split; [lia|assumption].
  Qed.
End Confluence.
