(* C03 — the transducer library (out / err / cast str / mtac / msort / null /
   prefix / suffix / foreach-out / match) satisfies the hypotheses of the generic
   theorems of Proof/Pipeline.v; headline theorem about Check.C03.spec_ok; the
   domain-delimiting counterexample with two stderr writers. *)
From Coq Require Import List Arith Lia Bool ZArith NArith.
Import ListNotations.
From Murex Require Import Base.Outcome Base.Bytes Model.Pipeline Check.C03
  Proof.Confluence Proof.Pipeline.

Lemma lquiet_ok : forall s, lquiet s = true ->
  match lstep s with
  | ARead k => forall o, lquiet (k o) = true
  | AOut _ s' => lquiet s' = true
  | AErr _ _ => False
  | AExit _ => True
  end.
Proof.
  intros [[|] b ex|ex|f acc|f cur|f b] H; simpl in *; try discriminate; auto.
  - intros [x|]; reflexivity.
  - intros [x|]; [destruct (N.eqb x nl); reflexivity|destruct cur; reflexivity].
Qed.

Definition noisy (l : list lstate) : nat := length (filter (fun s => negb (lquiet s)) l).

Lemma noisy_pairwise l : noisy l <= 1 -> pairwise_quiet lstate lquiet l.
Proof.
  unfold noisy. induction l as [|x l IH]; intros H i j si sj Hne Hi Hj.
  - destruct i; discriminate.
  - simpl in H. destruct (lquiet x) eqn:Q; simpl in H.
    + destruct i as [|i], j as [|j]; simpl in Hi, Hj.
      * contradiction.
      * inversion Hi; subst. left; assumption.
      * inversion Hj; subst. right; assumption.
      * apply (IH H i j si sj); auto.
    + assert (Hz : length (filter (fun s => negb (lquiet s)) l) = 0) by lia.
      assert (Hall : forall k s, nth_error l k = Some s -> lquiet s = true).
      { intros k s Hk. apply nth_error_In in Hk.
        destruct (lquiet s) eqn:Qs; [reflexivity|].
        assert (Hin : In s (filter (fun s => negb (lquiet s)) l)).
        { apply filter_In. split; [assumption|rewrite Qs; reflexivity]. }
        destruct (filter (fun s => negb (lquiet s)) l); [contradiction|discriminate]. }
      destruct i as [|i], j as [|j]; simpl in Hi, Hj.
      * contradiction.
      * right. eapply Hall; eassumption.
      * left. eapply Hall; eassumption.
      * left. eapply Hall; eassumption.
Qed.

Lemma litem_ok it : single_err_writer (map linit (snd it)) = true ->
  item_ok lstate lquiet (litem it).
Proof.
  unfold single_err_writer. intros H sk prev. apply Nat.leb_le in H.
  apply noisy_pairwise. unfold noisy, load_inits. simpl.
  destruct (skipped sk prev (fst it)); [|assumption].
  clear H. induction (map linit (snd it)) as [|x l IH]; simpl; [lia|exact IH].
Qed.

Lemma lguard_items p : lguard p = true -> Forall (item_ok lstate lquiet) (map litem p).
Proof.
  unfold lguard. intro H. apply andb_true_iff in H as [H _]. rewrite forallb_forall in H.
  apply Forall_forall. intros it Hin. apply in_map_iff in Hin as [x [<- Hx]].
  apply litem_ok. apply H. assumption.
Qed.

Lemma obs_eqb_refl o : obs_eqb o o = true.
Proof.
  unfold obs_eqb. rewrite !bytes_eqb_refl, Z.eqb_refl. destruct (o_hang o); reflexivity.
Qed.

Definition lrun (s : list nat) (p : lprog) : gconfig lstate :=
  grun lstate lstep s (ginit lstate (map litem p)).

(* every complete schedule of a program in the domain yields the predicted observation *)
Theorem lprog_sequential p r s : lguard p = true -> lpredict c03_fuel p = Ok r ->
  gfinished (lrun s p) = true -> obs_of (gresult (lrun s p)) = obs_of r.
Proof.
  intros Hg Hp Hf. f_equal.
  exact (program_sequential lstate lstep lquiet lquiet_ok c03_fuel _ r s (lguard_items p Hg) Hp Hf).
Qed.

(* headline: what the check evaluates on the implementation's runs holds of the model
   for every program of the domain and every family of complete schedules *)
Theorem model_meets_spec p r (scheds : list (list nat)) :
  lguard p = true -> lpredict c03_fuel p = Ok r -> scheds <> [] ->
  Forall (fun s => gfinished (lrun s p) = true) scheds ->
  let c := mkcase p true (map (fun s => obs_of (gresult (lrun s p))) scheds) in
  agree c = true /\ spec_ok c = true.
Proof.
  intros Hg Hp Hne HF c.
  assert (Hall : forall s, In s scheds -> obs_of (gresult (lrun s p)) = obs_of r).
  { intros s Hin. rewrite Forall_forall in HF. apply lprog_sequential; auto. }
  assert (Hruns : c_runs c = map (fun _ => obs_of r) scheds).
  { unfold c; simpl. apply map_ext_in. exact Hall. }
  split.
  - unfold agree. simpl c_modelled. simpl c_prog. rewrite Hg, Hp, Hruns. simpl.
    apply forallb_forall. intros x Hx. apply in_map_iff in Hx as [s [<- _]]. apply obs_eqb_refl.
  - unfold spec_ok. rewrite Hruns. destruct scheds as [|s0 ss]; [contradiction|]. simpl.
    destruct r as [[o e] x]. simpl. apply forallb_forall.
    intros y Hy. apply in_map_iff in Hy as [s [<- _]]. apply obs_eqb_refl.
Qed.

(* no schedule of a predicted program hangs *)
Theorem lprog_no_hang p r s : lguard p = true -> lpredict c03_fuel p = Ok r ->
  exists k t, steps _ (gfire lstate lstep) k (lrun s p) t /\ gfinished t = true /\ gresult t = r.
Proof.
  intros Hg Hp.
  exact (program_no_hang lstate lstep lquiet lquiet_ok c03_fuel _ r s (lguard_items p Hg) Hp).
Qed.

(* deadlock freedom of one pipeline of library stages (no guard needed) *)
Theorem lpipeline_progress (c : config lstate) : wf lstate c -> finished c = false ->
  exists j c', fire lstate lstep j c = Some c'.
Proof. apply progress. Qed.

(* ---- the domain is tight: two stages writing stderr ARE schedule dependent ---- *)
Open Scope N_scope.
Definition two_err : lprog := [(Seq, [SErr [97; 10]; SErr [98; 10]])].   (* err a | err b *)

Lemma two_stderr_writers_refuted :
  lguard two_err = false /\
  gfinished (lrun [0; 0; 1; 1]%nat two_err) = true /\
  gfinished (lrun [1; 0; 0; 1]%nat two_err) = true /\
  gresult (lrun [0; 0; 1; 1]%nat two_err) <> gresult (lrun [1; 0; 0; 1]%nat two_err) /\
  spec_ok (mkcase two_err true
             [obs_of (gresult (lrun [0; 0; 1; 1]%nat two_err));
              obs_of (gresult (lrun [1; 0; 0; 1]%nat two_err))]) = false.
Proof. vm_compute. repeat split; try reflexivity. intro H; discriminate. Qed.
