(* Proofs about Model/Fid.v: ids are unique and never reused under every
   schedule; every process of a block is deregistered exactly once by each of
   the three schedulers; a schedule in which every registered process is
   deregistered leaves the table as it found it. *)
From Coq Require Import Lia Sorted.
From Murex Require Import Base.Outcome Base.Bytes Model.RunMode Model.Fid.

(* ---- uniqueness --------------------------------------------------- *)
Lemma issued_increasing ops : forall t,
  StronglySorted N.lt (issued t ops) /\ Forall (fun i => (latest t < i)%N) (issued t ops).
Proof.
  induction ops as [|o ops IH]; intro t; [split; constructor|].
  destruct o as [h|h]; cbn [issued]; [|apply IH].
  unfold register. cbn [fst snd].
  destruct (IH {| latest := N.succ (latest t); live := N.succ (latest t) :: live t |}) as [S F].
  cbn [latest] in F. split.
  - constructor; assumption.
  - constructor; [lia|]. eapply Forall_impl; [|exact F]. cbn. intros; lia.
Qed.

(* the ids issued by any schedule are pairwise distinct, and all of them are
   larger than every id issued before the schedule started: never reused *)
Theorem fid_unique t ops :
  NoDup (issued t ops) /\ Forall (fun i => (latest t < i)%N) (issued t ops).
Proof.
  destruct (issued_increasing ops t) as [S F]. split; [|exact F].
  clear F. induction S as [|a l S IH F]; constructor; [|exact IH].
  intro H. rewrite Forall_forall in F. specialize (F a H). lia.
Qed.

(* ---- every process of a block gets exactly one disposal ------------ *)
Lemma falses_length {A} (l : list A) : length (falses l) = length l.
Proof. unfold falses. apply map_length. Qed.

Lemma normal_loop_length fx ps : forall prev skip,
  length (fst (normal_loop fx prev skip ps)) = length ps.
Proof.
  induction ps as [|p ps IH]; intros prev skip; [reflexivity|].
  cbn [normal_loop]. destruct (normal_skips fx prev skip p).
  - specialize (IH prev true). destruct (normal_loop fx prev true ps). cbn in *. lia.
  - specialize (IH (pexit p) false). destruct (normal_loop fx (pexit p) false ps). cbn in *. lia.
Qed.

Lemma try_loop_length ps : forall e sk, length (fst (try_loop e sk ps)) = length ps.
Proof.
  induction ps as [|p ps IH]; intros e sk; [reflexivity|].
  cbn [try_loop]. destruct (sk && (p_or p || p_method p)).
  - specialize (IH e true). destruct (try_loop e true ps). cbn in *. lia.
  - destruct ps as [|q ps']; [reflexivity|].
    destruct (p_method q).
    + specialize (IH e false). destruct (try_loop e false (q :: ps')). cbn in *. lia.
    + destruct (Z.ltb (pexit p) 1 && p_or q).
      * specialize (IH (pexit p) true). destruct (try_loop (pexit p) true (q :: ps')). cbn in *. lia.
      * destruct (Z.ltb 0 (pexit p) && negb (p_or q)).
        -- cbn [fst length]. rewrite falses_length. reflexivity.
        -- specialize (IH (pexit p) false). destruct (try_loop (pexit p) false (q :: ps')). cbn in *. lia.
Qed.

Lemma trypipe_loop_length ps : forall e sk, length (fst (trypipe_loop e sk ps)) = length ps.
Proof.
  induction ps as [|p ps IH]; intros e sk; [reflexivity|].
  cbn [trypipe_loop]. destruct (sk && (p_or p || p_method p)).
  - specialize (IH e true). destruct (trypipe_loop e true ps). cbn in *. lia.
  - destruct ps as [|q ps']; [reflexivity|].
    destruct (Z.ltb (pexit p) 1 && p_or q).
    + specialize (IH (pexit p) true). destruct (trypipe_loop (pexit p) true (q :: ps')). cbn in *. lia.
    + destruct (Z.ltb 0 (pexit p) && negb (p_or q)).
      * cbn [fst length]. rewrite falses_length. reflexivity.
      * specialize (IH (pexit p) false). destruct (trypipe_loop (pexit p) false (q :: ps')). cbn in *. lia.
Qed.

Lemma strict_loop_length chk every ps : forall o s c e sk,
  length (fst (strict_loop chk every o s c e sk ps)) = length ps.
Proof.
  induction ps as [|p ps IH]; intros o s c e sk; [reflexivity|].
  cbn [strict_loop]. destruct (sk && (p_or p || p_method p)).
  - specialize (IH o s [] e true). destruct (strict_loop chk every o s [] e true ps). cbn in *. lia.
  - destruct ps as [|q ps']; [reflexivity|].
    destruct (p_method q && negb every).
    + match goal with |- context [strict_loop chk every ?a ?b ?c ?d false (q :: ps')] =>
        specialize (IH a b c d false); destruct (strict_loop chk every a b c d false (q :: ps')) end.
      cbn in *. lia.
    + match goal with |- context [if ?c1 then _ else if ?c2 then _ else _] => destruct c1; [|destruct c2] end.
      * match goal with |- context [strict_loop chk every ?a ?b ?c ?d true (q :: ps')] =>
          specialize (IH a b c d true); destruct (strict_loop chk every a b c d true (q :: ps')) end.
        cbn in *. lia.
      * cbn [fst length]. rewrite falses_length. reflexivity.
      * match goal with |- context [strict_loop chk every ?a ?b ?c ?d false (q :: ps')] =>
          specialize (IH a b c d false); destruct (strict_loop chk every a b c d false (q :: ps')) end.
        cbn in *. lia.
Qed.

Lemma execute_length m ps : length (fst (execute m ps)) = length ps.
Proof.
  unfold execute. destruct ps as [|p ps]; [reflexivity|].
  destruct (sched_of m); cbn [fst].
  - unfold run_normal, run_normal_gen.
    pose proof (normal_loop_length true ps (pexit p) false) as L.
    destruct (normal_loop true (pexit p) false ps). cbn in *. lia.
  - unfold run_normal, run_normal_gen.
    pose proof (normal_loop_length true ps (pexit p) false) as L.
    destruct (normal_loop true (pexit p) false ps). cbn in *. lia.
  - apply try_loop_length.
  - apply trypipe_loop_length.
  - apply strict_loop_length.
  - apply strict_loop_length.
Qed.

(* all_released_normal / _try / _trypipe: whatever the flags and exit numbers,
   every process compile() registered has exactly one disposal, each of which
   deregisters it *)
Theorem disposals_cover m ps : length (disposals m ps) = length ps.
Proof. unfold disposals. rewrite map_length. apply execute_length. Qed.

(* ---- a schedule that deregisters what it registered ---------------- *)
Definition inv (t : fidtab) (e : env) (base : list N) (opn : list nat) : Prop :=
  (forall x, In x (live t) <-> (In x base \/ exists h, In h opn /\ lookup e h = Some x)) /\
  (forall x, In x base -> (x <= latest t)%N) /\
  (forall h x, lookup e h = Some x -> (x <= latest t)%N) /\
  (forall h h' x, lookup e h = Some x -> lookup e h' = Some x -> h = h') /\
  (forall x, In x base -> forall h, lookup e h <> Some x) /\
  (forall h, In h opn -> lookup e h <> None).

Definition regs_in (e : env) : list nat := map fst e.

Lemma lookup_none_iff e h : lookup e h = None <-> ~ In h (regs_in e).
Proof.
  induction e as [|[h' id] e IH]; cbn; [tauto|].
  destruct (Nat.eqb_spec h h'); split; intro H.
  - discriminate.
  - exfalso. apply H. left. auto.
  - intros [E|I]; [congruence|]. apply IH in H. contradiction.
  - apply IH. intro I. apply H. right. exact I.
Qed.

Lemma run_ops_inv ops : forall t e base opn,
  inv t e base opn ->
  fresh_regs (regs_in e) ops = true ->
  inv (fst (run_ops (t, e) ops)) (snd (run_ops (t, e) ops)) base (open_after opn ops).
Proof.
  induction ops as [|o ops IH]; intros t e base opn I F; [exact I|].
  destruct I as (IL & IB & IE & IJ & ID & IO).
  destruct o as [h|h]; cbn [run_ops fold_left step fresh_regs open_after] in *.
  - (* register a fresh process *)
    apply andb_true_iff in F as [F1 F2].
    assert (NI : lookup e h = None).
    { apply lookup_none_iff. intro H. apply negb_true_iff in F1.
      assert (existsb (Nat.eqb h) (regs_in e) = true); [|congruence].
      apply existsb_exists. exists h. split; [exact H|apply Nat.eqb_refl]. }
    unfold register. cbn [fst snd].
    apply (IH _ ((h, N.succ (latest t)) :: e) base (h :: opn)); [|exact F2].
    repeat split; cbn [live latest lookup].
    + intros [E|H].
      * right. exists h. split; [left; reflexivity|]. rewrite Nat.eqb_refl. congruence.
      * apply IL in H as [H|[h' [H1 H2]]]; [left; exact H|].
        right. exists h'. split; [right; exact H1|].
        destruct (Nat.eqb_spec h' h); [subst; congruence|exact H2].
    + intros [H|[h' [[E|H1] H2]]].
      * right. apply IL. left. exact H.
      * subst h'. rewrite Nat.eqb_refl in H2. left. congruence.
      * destruct (Nat.eqb_spec h' h).
        -- left. congruence.
        -- right. apply IL. right. exists h'. split; assumption.
    + intros x H. specialize (IB x H). lia.
    + intros h' x H. destruct (Nat.eqb_spec h' h); [injection H as <-; lia|].
      specialize (IE h' x H). lia.
    + intros h1 h2 x H1 H2.
      destruct (Nat.eqb_spec h1 h), (Nat.eqb_spec h2 h); subst; try reflexivity.
      * injection H1 as <-. specialize (IE h2 _ H2). lia.
      * injection H2 as <-. specialize (IE h1 _ H1). lia.
      * eapply IJ; eassumption.
    + intros x H h' H'. destruct (Nat.eqb_spec h' h).
      * injection H' as <-. specialize (IB _ H). lia.
      * exact (ID x H h' H').
    + intros h' [E|H] H'.
      * subst h'. rewrite Nat.eqb_refl in H'. discriminate.
      * destruct (Nat.eqb_spec h' h); [discriminate|]. exact (IO h' H H').
  - (* deregister *)
    destruct (lookup e h) as [id|] eqn:L.
    + apply (IH _ e base (remove Nat.eq_dec h opn)); [|exact F].
      repeat split; cbn [live latest deregister]; try assumption.
      * intro H. apply in_remove in H as [H NE]. apply IL in H as [H|[h' [H1 H2]]]; [left; exact H|].
        right. exists h'. split; [|exact H2]. apply in_in_remove; [|exact H1].
        intro E. subst h'. congruence.
      * intros [H|[h' [H1 H2]]].
        -- apply in_in_remove; [|apply IL; left; exact H].
           intro E. subst x. exact (ID id H h L).
        -- apply in_remove in H1 as [H1 NE]. apply in_in_remove.
           ++ intro E. subst x. apply NE. eapply IJ; eassumption.
           ++ apply IL. right. exists h'. split; assumption.
      * intros h' H. apply in_remove in H as [H _]. exact (IO h' H).
    + apply (IH _ e base (remove Nat.eq_dec h opn)); [|exact F].
      repeat split; try assumption.
      * intro H. apply IL in H as [H|[h' [H1 H2]]]; [left; exact H|].
        right. exists h'. split; [|exact H2]. apply in_in_remove; [|exact H1].
        intro E. subst h'. congruence.
      * intros [H|[h' [H1 H2]]]; apply IL; [left; exact H|].
        apply in_remove in H1 as [H1 _]. right. exists h'. split; assumption.
      * intros h' H. apply in_remove in H as [H _]. exact (IO h' H).
Qed.

(* Any interleaving: if every Register is for a new process and every
   registered process has been deregistered by the end, the table holds exactly
   the ids it held at the start - whatever the order of the operations. *)
Theorem balanced_schedule_clean t ops :
  (forall x, In x (live t) -> (x <= latest t)%N) ->
  fresh_regs [] ops = true ->
  open_after [] ops = [] ->
  forall x, In x (live (fst (run_ops (t, []) ops))) <-> In x (live t).
Proof.
  intros B F O x.
  assert (I : inv t [] (live t) []).
  { repeat split; cbn; try tauto; try discriminate; try contradiction; try exact B.
    intros [H|[h [[] _]]]; exact H. }
  pose proof (run_ops_inv ops t [] (live t) [] I F) as R.
  rewrite O in R. destruct R as (IL & _). rewrite IL. split; [|tauto].
  intros [H|[h [[] _]]]; exact H.
Qed.

(* one block under any of the run modes is such a schedule *)
Lemma open_after_regs hs : forall opn, open_after opn (map OReg hs) = rev hs ++ opn.
Proof.
  induction hs as [|h hs IH]; intro opn; [reflexivity|].
  cbn [map open_after]. rewrite IH. cbn [rev]. rewrite <- app_assoc. reflexivity.
Qed.

Lemma open_after_deregs hs : forall opn, (forall h, In h opn -> In h hs) ->
  open_after opn (map ODereg hs) = [].
Proof.
  induction hs as [|h hs IH]; intros opn H.
  - destruct opn as [|a opn]; [reflexivity|]. destruct (H a (or_introl eq_refl)).
  - cbn [map open_after]. apply IH. intros h' Hh'. apply in_remove in Hh' as [H1 H2].
    destruct (H h' H1); [congruence|assumption].
Qed.

Lemma fresh_regs_seq n : forall h0 seen, (forall h, In h seen -> h < h0) ->
  fresh_regs seen (map OReg (seq h0 n)) = true.
Proof.
  induction n as [|n IH]; intros h0 seen H; [reflexivity|].
  cbn [seq map fresh_regs]. apply andb_true_iff; split.
  - apply negb_true_iff. apply not_true_is_false. intro E. apply existsb_exists in E as [h [H1 H2]].
    apply Nat.eqb_eq in H2. subst h. specialize (H _ H1). lia.
  - apply IH. intros h [E|I]; [lia|]. specialize (H _ I). lia.
Qed.

Lemma fresh_regs_app seen a b :
  fresh_regs seen (a ++ map ODereg b) = fresh_regs seen a.
Proof.
  revert seen; induction a as [|o a IH]; intro seen; cbn [app].
  - induction b as [|h b IHb]; [reflexivity|exact IHb].
  - destruct o; cbn [fresh_regs]; rewrite IH; reflexivity.
Qed.

Lemma open_after_app a : forall opn b, open_after opn (a ++ b) = open_after (open_after opn a) b.
Proof.
  induction a as [|o a IH]; intros opn b; [reflexivity|].
  destruct o; cbn [app open_after]; apply IH.
Qed.

Theorem block_released h0 m ps t :
  (forall x, In x (live t) -> (x <= latest t)%N) ->
  forall x, In x (live (fst (run_ops (t, []) (block_ops h0 m ps)))) <-> In x (live t).
Proof.
  intro B. apply balanced_schedule_clean; [exact B| |]; unfold block_ops.
  - rewrite fresh_regs_app. apply fresh_regs_seq. intros h [].
  - rewrite open_after_app, open_after_regs, app_nil_r, disposals_cover.
    apply open_after_deregs. intros h H. apply in_rev in H. exact H.
Qed.

(* ---- function calls ------------------------------------------------ *)
Lemma remove_not_in (x : N) l : ~ In x l -> remove N.eq_dec x l = l.
Proof.
  induction l as [|a l IH]; intro H; [reflexivity|]. cbn.
  destruct (N.eq_dec x a) as [E|E]; [subst; exfalso; apply H; left; reflexivity|].
  rewrite IH; [reflexivity|]. intro I. apply H. right. exact I.
Qed.

(* a call whose parameters do not cast leaves the table unchanged ... *)
Theorem failed_cast_call_released t h :
  (forall x, In x (live t) -> (x <= latest t)%N) ->
  live (fst (run_ops (t, []) (call_ops true h false []))) = live t.
Proof.
  intro B. cbn. rewrite Nat.eqb_refl. cbn.
  destruct (N.eq_dec (N.succ (latest t)) (N.succ (latest t))) as [_|E]; [|congruence].
  apply remove_not_in. intro H. specialize (B _ H). lia.
Qed.

(* ... which it did not before the repair: the fork's id stayed for ever *)
Theorem old_failed_cast_call_leaks t h :
  In (N.succ (latest t)) (live (fst (run_ops (t, []) (call_ops false h false [])))).
Proof. cbn. left. reflexivity. Qed.
