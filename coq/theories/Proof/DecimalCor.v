(* The C16 / C17 / C18 theorems restated over integers: every int64 has the
   parameter text strconv.Itoa gives it, and strconv.Atoi reads it back. *)
From Coq Require Import Lia ZifyBool.
From Murex Require Import Base.Outcome Base.Bytes Model.Decimal Proof.Decimal.
From Murex Require Model.Index Check.C16 Proof.Index Model.Range Check.C17 Proof.Range Model.MkArray Check.C18 Proof.MkArray.
Open Scope Z_scope.

Definition int64 (z : Z) : Prop := int_min <= z <= int_max.

Module I16.
  Import Model.Index Check.C16 Proof.Index.
  Theorem index_in_range_int : forall xs k, int64 k -> in_range (zlen xs) k ->
    exists v, spec_pick xs k = Some v /\ ito_index_array [itoa k] xs = Ok (render_index v).
  Proof. intros xs k Hk H. apply (index_in_range xs (itoa k) k); [apply atoi_itoa; exact Hk|exact H]. Qed.

  Theorem index_out_of_range_int : forall xs k, int64 k -> ~ in_range (zlen xs) k ->
    ito_index_array [itoa k] xs = Err E_RANGE.
  Proof. intros xs k Hk H. apply (index_out_of_range_errs xs (itoa k) k); [apply atoi_itoa; exact Hk|exact H]. Qed.
End I16.

Module I17.
  Import Model.Range Check.C17 Proof.Range.
  Theorem range_s_e_int : forall A (xs : list A) s e, int64 s -> int64 e -> 1 <= s <= e ->
    range_filter (mkp (itoa s) (itoa e) false) xs = Ok (slice1 s e xs).
  Proof. intros A xs s e Hs He H. apply range_s_e; [apply atoi_itoa; exact Hs|apply atoi_itoa; exact He|exact H]. Qed.

  Theorem range_last_k_int : forall A (xs : list A) k, int64 (- k) -> 1 <= k ->
    range_filter (mkp (itoa (- k)) [] false) xs = Ok (zskipn (zlen xs - k) xs).
  Proof. intros A xs k Hk H. apply range_last_k; [apply atoi_itoa; exact Hk|exact H]. Qed.
End I17.

Module I18.
  Import Model.MkArray Check.C18 Proof.MkArray.
  (* `a [m..n]` for all int64 m, n written without leading zeros: every integer
     from m to n inclusive, in plain decimal *)
  Theorem int_range_int : forall m n, int64 m -> int64 n ->
    int_range (itoa m) (itoa n) = Ok (map itoa (zrange m n)).
  Proof.
    intros m n Hm Hn. rewrite (int_range_exact _ _ m n (atoi_itoa m Hm) (atoi_itoa n Hn)).
    f_equal. apply map_ext_in. intros z Hz. apply zrange_bounds in Hz.
    assert (P : forall k, int64 k -> zero_padded (itoa k) = false).
    { intros k Hk. destruct (zero_padded (itoa k)) eqn:E; [|reflexivity]. exfalso.
      destruct k as [|p|p]; cbn [itoa] in E; try discriminate.
      pose proof (atoi_itoa (Z.pos p) Hk) as Ha. cbn [itoa] in Ha.
      destruct (n_to_dec (N.pos p)) as [|b t] eqn:En; [discriminate|].
      destruct (N.eq_dec b 48) as [->|Hb]; [|rewrite (zp_not48 _ _ Hb) in E; discriminate].
      apply (n_to_dec_lead_nonzero (N.pos p) ltac:(discriminate) 48%N t En). reflexivity. }
    destruct (m <? n) eqn:E.
    - apply (fmtnum_plain (itoa m) m); [apply P; exact Hm|apply atoi_itoa; exact Hm|lia].
    - apply (fmtnum_plain (itoa n) n); [apply P; exact Hn|apply atoi_itoa; exact Hn|lia].
  Qed.
End I18.
