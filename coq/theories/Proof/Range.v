(* C17 — proofs about Model/Range.v. *)
From Coq Require Import Lia ZifyBool.
From Murex Require Import Base.Outcome Base.Bytes Model.Decimal Model.Range Check.C17.
Open Scope Z_scope.

Section Machine.
  Context {A : Type}.
  Variable p : rparams.
  Variable rf : rfidx.

  Definition has_end : bool := negb (is_empty (rp_end p)) && (-1 <? rf_end rf).

  Definition st_run (i : Z) : rstate := {| st_started := true; st_i := i; st_done := false |}.
  Definition st_wait (i : Z) : rstate := {| st_started := false; st_i := i; st_done := false |}.

  (* phase B: after the start, the counter runs to rf_end *)
  Definition phaseB (i : Z) (ys : list A) : list A :=
    if has_end then
      if rp_excl p then firstn (Z.to_nat (rf_end rf - i)) ys
      else firstn (Z.to_nat (Z.max 1 (rf_end rf - i + 1))) ys
    else ys.

  Lemma feed_done i s (xs : list A) :
    feed p rf {| st_started := s; st_i := i; st_done := true |} xs = [].
  Proof. destruct xs; reflexivity. Qed.

  Lemma feed_started : forall (xs : list A) i, feed p rf (st_run i) xs = phaseB i xs.
  Proof.
    unfold phaseB, has_end.
    induction xs as [|b rest IH]; intros i.
    - cbn [feed]. destruct (negb (is_empty (rp_end p)) && (-1 <? rf_end rf));
        [destruct (rp_excl p)|]; try rewrite firstn_nil; reflexivity.
    - cbn [feed st_run st_done st_started st_i step negb].
      destruct (negb (is_empty (rp_end p)) && (-1 <? rf_end rf)) eqn:He.
      + destruct (rf_end rf <? i + 1) eqn:Hlt.
        * (* the end item *)
          destruct (rp_excl p); cbn [negb].
          -- rewrite feed_done. replace (Z.to_nat (rf_end rf - i)) with 0%nat by lia. reflexivity.
          -- rewrite feed_done.
             replace (Z.to_nat (Z.max 1 (rf_end rf - i + 1))) with 1%nat by lia. reflexivity.
        * fold (st_run (i + 1)). rewrite IH.
          destruct (rp_excl p).
          -- replace (Z.to_nat (rf_end rf - i)) with (S (Z.to_nat (rf_end rf - (i + 1)))) by lia.
             reflexivity.
          -- replace (Z.to_nat (Z.max 1 (rf_end rf - i + 1)))
               with (S (Z.to_nat (Z.max 1 (rf_end rf - (i + 1) + 1)))) by lia.
             reflexivity.
      + fold (st_run i). rewrite IH. reflexivity.
  Qed.

  (* phase A: items are skipped until the counter passes rf_start *)
  Lemma feed_waiting : forall (xs : list A) i,
    feed p rf (st_wait i) xs =
    feed p rf (st_run (i + Z.max 0 (rf_start rf - i) + 1))
         (skipn (Z.to_nat (rf_start rf - i) + (if rp_excl p then 1 else 0)) xs).
  Proof.
    induction xs as [|b rest IH]; intros i.
    - rewrite skipn_nil. reflexivity.
    - cbn [feed st_wait st_done]. unfold step, st_wait. cbn [st_started st_i].
      destruct (rf_start rf <? i + 1) eqn:Hlt.
      + (* this item starts the range *)
        replace (Z.to_nat (rf_start rf - i)) with 0%nat by lia.
        replace (i + Z.max 0 (rf_start rf - i) + 1) with (i + 1) by lia.
        destruct (rp_excl p) eqn:Hx; cbn [negb Nat.add skipn].
        * reflexivity.
        * (* not exclusive: the same item goes through the End test, as a started state would *)
          cbn [feed st_run st_done]. unfold step, st_run. cbn [st_started st_i negb]. rewrite Hx. reflexivity.
      + cbn [negb]. change {| st_started := false; st_i := i + 1; st_done := false |} with (st_wait (i + 1)).
        rewrite IH.
        replace (i + 1 + Z.max 0 (rf_start rf - (i + 1)) + 1) with (i + Z.max 0 (rf_start rf - i) + 1) by lia.
        replace (Z.to_nat (rf_start rf - i)) with (S (Z.to_nat (rf_start rf - (i + 1)))) by lia.
        reflexivity.
  Qed.

  (* order: whatever the state and the parameters, what is written is a
     subsequence of what was read *)
  Lemma feed_sublist : forall (xs : list A) st, exists keep : list bool,
    length keep = length xs /\
    feed p rf st xs = map fst (filter snd (combine xs keep)).
  Proof.
    induction xs as [|b rest IH]; intros st.
    - exists []. split; reflexivity.
    - cbn [feed]. destruct (st_done st).
      + exists (repeat false (length (b :: rest))). split; [apply repeat_length|].
        clear. generalize (b :: rest). induction l as [|x l IHl]; [reflexivity|exact IHl].
      + destruct (step p rf st) as [st' w]. destruct (IH st') as [keep [Hl Hk]].
        exists (w :: keep). split; [cbn; lia|].
        cbn [combine filter snd]. destruct w; cbn [map fst]; rewrite Hk; reflexivity.
  Qed.
End Machine.

(* ---------- closed form of the whole filter ---------- *)

Definition closed_form {A} (p : rparams) (rf : rfidx) (xs : list A) : list A :=
  if is_empty (rp_start p) then phaseB p rf 0 xs
  else phaseB p rf (Z.max 0 (rf_start rf) + 1)
         (skipn (Z.to_nat (rf_start rf) + (if rp_excl p then 1 else 0)) xs).

Theorem range_filter_closed_form : forall A (p : rparams) (xs : list A) rf0 buffer,
  new_index p = Ok (rf0, buffer) ->
  range_filter p xs =
  Ok (closed_form p (if buffer then set_length rf0 (Z.of_nat (length xs)) else rf0) xs).
Proof.
  intros A p xs rf0 buffer H. unfold range_filter. rewrite H. f_equal.
  unfold closed_form. destruct (is_empty (rp_start p)).
  - apply (feed_started p _ xs 0).
  - change {| st_started := false; st_i := 0; st_done := false |} with (st_wait 0).
    rewrite feed_waiting, feed_started. rewrite Z.sub_0_r. reflexivity.
Qed.

Definition clean {A} (o : Outcome A) : Prop := o <> Panic /\ o <> OutOfFuel.

Theorem range_total : forall A (p : rparams) (xs : list A), clean (range_filter p xs).
Proof.
  intros A p xs. unfold range_filter, new_index.
  destruct (atoi _); [|split; discriminate].
  destruct (atoi _); split; discriminate.
Qed.

Theorem run_range_total : forall A f (p : rparams) (xs : list A), clean (run_range f p xs).
Proof.
  intros A f p xs. unfold run_range. pose proof (range_total A p xs) as [H1 H2].
  destruct (range_filter p xs) as [[|x l]| | |]; try contradiction; try (split; discriminate).
  destruct f; split; discriminate.
Qed.

(* ---------- the documented forms, for lists of any length ---------- *)

Lemma nonempty_not_empty (s : bytes) k : atoi s = Some k -> is_empty s = false.
Proof. destruct s; [discriminate|reflexivity]. Qed.

Definition mkp (s e : bytes) (x : bool) : rparams := {| rp_start := s; rp_end := e; rp_excl := x |}.

(* [s..e] *)
Theorem range_s_e : forall A (xs : list A) ps pe s e,
  atoi ps = Some s -> atoi pe = Some e -> 1 <= s <= e ->
  range_filter (mkp ps pe false) xs = Ok (slice1 s e xs).
Proof.
  intros A xs ps pe s e Hs He H.
  rewrite (range_filter_closed_form A _ xs {| rf_start := s - 1; rf_end := e |} false).
  2:{ unfold new_index. cbn [rp_start rp_end rp_excl mkp].
      rewrite (nonempty_not_empty _ _ Hs), (nonempty_not_empty _ _ He), Hs, He.
      replace (s <? 0) with false by lia. replace (0 <? s) with true by lia. cbn [andb negb].
      repeat f_equal. lia. }
  f_equal. unfold closed_form, phaseB, has_end. cbn [rp_start rp_end rp_excl mkp rf_start rf_end].
  rewrite (nonempty_not_empty _ _ Hs), (nonempty_not_empty _ _ He).
  replace (-1 <? e) with true by lia. cbn [negb andb].
  unfold slice1, zfirstn, zskipn. rewrite Nat.add_0_r.
  f_equal. lia.
Qed.

(* [s..e]e : both end points dropped *)
Theorem range_exclusive : forall A (xs : list A) ps pe s e,
  atoi ps = Some s -> atoi pe = Some e -> 1 <= s <= e ->
  range_filter (mkp ps pe true) xs = Ok (slice1 (s + 1) (e - 1) xs).
Proof.
  intros A xs ps pe s e Hs He H.
  rewrite (range_filter_closed_form A _ xs {| rf_start := s - 1; rf_end := e - 1 |} false).
  2:{ unfold new_index. cbn [rp_start rp_end rp_excl mkp].
      rewrite (nonempty_not_empty _ _ Hs), (nonempty_not_empty _ _ He), Hs, He.
      replace (s <? 0) with false by lia. replace (0 <? s) with true by lia. cbn [andb negb].
      reflexivity. }
  f_equal. unfold closed_form, phaseB, has_end. cbn [rp_start rp_end rp_excl mkp rf_start rf_end].
  rewrite (nonempty_not_empty _ _ Hs), (nonempty_not_empty _ _ He).
  replace (-1 <? e - 1) with true by lia. cbn [negb andb].
  unfold slice1, zfirstn, zskipn.
  replace (Z.to_nat (s - 1) + 1)%nat with (Z.to_nat (s + 1 - 1)) by lia.
  f_equal. lia.
Qed.

(* [s..] and [s..]e *)
Theorem range_s_open : forall A (xs : list A) ps s excl,
  atoi ps = Some s -> 1 <= s ->
  range_filter (mkp ps [] excl) xs = Ok (if excl then zskipn s xs else zskipn (s - 1) xs).
Proof.
  intros A xs ps s excl Hs H.
  rewrite (range_filter_closed_form A _ xs
             {| rf_start := s - 1; rf_end := (if excl then -1 else 0) - 1 |} false).
  2:{ unfold new_index. cbn [rp_start rp_end rp_excl mkp is_empty].
      rewrite (nonempty_not_empty _ _ Hs), Hs.
      change (atoi [45%N; 49%N]) with (Some (-1)).
      replace (s <? 0) with false by lia. replace (0 <? s) with true by lia. cbn [andb].
      destruct excl; reflexivity. }
  f_equal. unfold closed_form, phaseB, has_end. cbn [rp_start rp_end rp_excl mkp rf_start rf_end is_empty].
  rewrite (nonempty_not_empty _ _ Hs). cbn [negb andb].
  unfold zskipn. destruct excl; f_equal; lia.
Qed.

(* [..e] and [..e]e *)
Theorem range_open_e : forall A (xs : list A) pe e excl,
  atoi pe = Some e -> 1 <= e ->
  range_filter (mkp [] pe excl) xs = Ok (if excl then zfirstn (e - 1) xs else zfirstn e xs).
Proof.
  intros A xs pe e excl He H.
  rewrite (range_filter_closed_form A _ xs {| rf_start := -1; rf_end := e - 1 |} false).
  2:{ unfold new_index. cbn [rp_start rp_end rp_excl mkp is_empty].
      rewrite (nonempty_not_empty _ _ He), He.
      change (atoi [48%N]) with (Some 0). reflexivity. }
  f_equal. unfold closed_form, phaseB, has_end. cbn [rp_start rp_end rp_excl mkp rf_start rf_end is_empty].
  rewrite (nonempty_not_empty _ _ He).
  replace (-1 <? e - 1) with true by lia. cbn [negb andb].
  unfold zfirstn. destruct excl; f_equal; lia.
Qed.

(* [-k..] : the last k items (all of them when k > n) *)
Theorem range_last_k : forall A (xs : list A) ps k,
  atoi ps = Some (- k) -> 1 <= k ->
  range_filter (mkp ps [] false) xs = Ok (zskipn (zlen xs - k) xs).
Proof.
  intros A xs ps k Hs H.
  rewrite (range_filter_closed_form A _ xs {| rf_start := - k - 1; rf_end := 0 |} true).
  2:{ unfold new_index. cbn [rp_start rp_end rp_excl mkp is_empty].
      rewrite (nonempty_not_empty _ _ Hs), Hs.
      change (atoi [45%N; 49%N]) with (Some (-1)).
      replace (- k <? 0) with true by lia. replace (0 <? - k) with false by lia. reflexivity. }
  f_equal. unfold closed_form, phaseB, has_end, set_length.
  cbn [rp_start rp_end rp_excl mkp rf_start rf_end is_empty].
  rewrite (nonempty_not_empty _ _ Hs). cbn [negb andb].
  unfold zskipn, zlen. f_equal. lia.
Qed.

(* ---------- order ---------- *)

Inductive subseq {A} : list A -> list A -> Prop :=
| sub_nil : subseq [] []
| sub_skip x l1 l2 : subseq l1 l2 -> subseq l1 (x :: l2)
| sub_keep x l1 l2 : subseq l1 l2 -> subseq (x :: l1) (x :: l2).

Lemma feed_subseq {A} p rf : forall (xs : list A) st, subseq (feed p rf st xs) xs.
Proof.
  induction xs as [|b rest IH]; intros st; cbn [feed]; [constructor|].
  destruct (st_done st).
  - clear. generalize (b :: rest). induction l; constructor; assumption.
  - destruct (step p rf st) as [st' w]. destruct w; constructor; apply IH.
Qed.

Theorem range_order : forall A (p : rparams) (xs out : list A),
  range_filter p xs = Ok out -> subseq out xs.
Proof.
  intros A p xs out. unfold range_filter.
  destruct (new_index p) as [[rf0 buffer]| | |]; try discriminate.
  intros H; inversion H; subst. apply feed_subseq.
Qed.

Lemma is_subseq_tail : forall b x a, is_subseq (x :: a) b = true -> is_subseq a b = true.
Proof.
  induction b as [|y b IH]; intros x a H; [discriminate|].
  cbn [is_subseq] in H. destruct (bytes_eqb x y).
  - destruct a as [|z a']; [reflexivity|]. cbn [is_subseq].
    destruct (bytes_eqb z y); [apply (IH z); exact H|exact H].
  - destruct a as [|z a']; [reflexivity|]. cbn [is_subseq].
    destruct (bytes_eqb z y); [apply (IH z); apply (IH x); exact H|apply (IH x); exact H].
Qed.

Lemma subseq_is_subseq : forall a b, subseq a b -> is_subseq a b = true.
Proof.
  intros a b H. induction H as [|x l1 l2 H IH|x l1 l2 H IH].
  - reflexivity.
  - destruct l1 as [|z l1']; [reflexivity|]. cbn [is_subseq].
    destruct (bytes_eqb z x); [apply (is_subseq_tail _ z); exact IH|exact IH].
  - cbn [is_subseq]. rewrite bytes_eqb_refl. exact IH.
Qed.

(* ---------- the model satisfies the predicate the check evaluates ---------- *)

Definition mk (f : rfmt) (s e : bytes) (x : bool) (xs : list bytes) : case :=
  {| c_fmt := f; c_kind := KIndex; c_flags := no_flags;
     c_start := s; c_end := e; c_excl := x; c_items := xs;
     c_obs := obs_of (run_range f (mkp s e x) xs) |}.

Lemma items_eqb_refl l : items_eqb l l = true.
Proof. apply (list_eqb_eq bytes_eqb bytes_eqb_eq). reflexivity. Qed.

Lemma expected_is_model : forall s e x (xs : list bytes) l,
  expected s e x xs = Some l -> range_filter (mkp s e x) xs = Ok l.
Proof.
  intros s e x xs l. unfold expected.
  destruct s as [|s0 s']; destruct e as [|e0 e'].
  - discriminate.
  - destruct (atoi (e0 :: e')) as [ev|] eqn:He; [|discriminate].
    destruct (1 <=? ev) eqn:H1; [|discriminate]. intros H; inversion H; subst.
    apply range_open_e; [assumption|lia].
  - destruct (atoi (s0 :: s')) as [sv|] eqn:Hs; [|discriminate].
    destruct (1 <=? sv) eqn:H1.
    + intros H; inversion H; subst. apply range_s_open; [assumption|lia].
    + destruct ((sv <? 0) && negb x) eqn:H2; [|discriminate].
      intros H; inversion H; subst. destruct x; [cbn in H2; lia|].
      replace (zlen xs + sv) with (zlen xs - (- sv)) by lia.
      apply range_last_k; [rewrite Z.opp_involutive; assumption|lia].
  - destruct (atoi (s0 :: s')) as [sv|] eqn:Hs; [|discriminate].
    destruct (atoi (e0 :: e')) as [ev|] eqn:He; [|discriminate].
    destruct ((1 <=? sv) && (sv <=? ev)) eqn:H1; [|discriminate].
    intros H; inversion H; subst. destruct x.
    + apply range_exclusive; [assumption|assumption|lia].
    + apply range_s_e; [assumption|assumption|lia].
Qed.

Theorem model_meets_spec : forall f s e x xs,
  classify (mk f s e x xs) = 0%N -> spec_ok (mk f s e x xs) = true.
Proof.
  intros f s e x xs Hc. unfold spec_ok, classify, mk in *.
  change (plain_case _) with true in *. cbv iota in *.
  cbn [c_fmt c_start c_end c_excl c_items c_obs] in *. unfold spec_obs in *.
  assert (Hsub : forall l, range_filter (mkp s e x) xs = Ok l -> is_subseq l xs = true).
  { intros l Hl. apply subseq_is_subseq. apply (range_order _ _ _ _ Hl). }
  pose proof (range_total _ (mkp s e x) xs) as [Hp Hf].
  destruct (expected s e x xs) as [l|] eqn:Hex.
  - pose proof (expected_is_model _ _ _ _ _ Hex) as Hm.
    unfold run_range in *. rewrite Hm in *.
    destruct l as [|y l'].
    + destruct f; cbn in *; try (destruct xs; reflexivity); discriminate Hc.
    + cbn [obs_of no_panic o_class o_items]. cbn. rewrite (Hsub _ eq_refl).
      apply (items_eqb_refl (y :: l')).
  - unfold run_range.
    destruct (range_filter (mkp s e x) xs) as [l| | |] eqn:Hm; try contradiction.
    + destruct l as [|y l'].
      * destruct f; cbn; try (destruct xs; reflexivity); reflexivity.
      * cbn. rewrite (Hsub _ eq_refl). reflexivity.
    + reflexivity.
Qed.

(* the finding is real in the model *)
Lemma json_empty_selection_refuted :
  spec_ok (mk RJson [53%N] [] false [[97%N]; [98%N]]) = false.
Proof. vm_compute. reflexivity. Qed.
