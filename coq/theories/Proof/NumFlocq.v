(* C13 — round53 (Model/Num.v) is IEEE 754 binary64 round-to-nearest-even on integers:
   it equals Flocq's  round radix2 (FLT_exp (-1074) 53) ZnearestE (IZR z)  for every z. *)
From Coq Require Import ZArith Reals Lia Lra.
From Flocq Require Import Core.
From Murex Require Import Model.Num Proof.Num.
Local Open Scope Z_scope.

Definition near_even (z p : Z) : Z :=
  let q := z / p in
  let r := z mod p in
  if 2 * r <? p then q else if p <? 2 * r then q + 1 else if Z.even q then q else q + 1.

Lemma ZnearestE_div z p : 0 < p ->
  ZnearestE (IZR z / IZR p) = near_even z p.
Proof.
  intro Hp.
  assert (Pp : (0 < IZR p)%R) by (apply IZR_lt; exact Hp).
  assert (Hfl : Zfloor (IZR z / IZR p) = z / p) by (apply Zfloor_div; lia).
  pose proof (Z.div_mod z p ltac:(lia)) as DM.
  pose proof (Z.mod_pos_bound z p Hp) as [R0 R1].
  set (q := z / p) in *. set (r := z mod p) in *.
  assert (Hx : (IZR z / IZR p - IZR q = IZR r / IZR p)%R).
  { rewrite DM at 1. rewrite plus_IZR, mult_IZR. field. lra. }
  unfold near_even. fold q r.
  unfold Znearest. rewrite Hfl, Hx.
  assert (Ceil : r <> 0 -> Zceil (IZR z / IZR p) = q + 1).
  { intro NZ. rewrite Zceil_floor_neq; [rewrite Hfl; reflexivity|].
    rewrite Hfl. intro E.
    assert (IZR r / IZR p = 0)%R by (rewrite <- Hx; lra).
    assert (IZR r = 0)%R.
    { apply (Rmult_eq_reg_r (/ IZR p)); [|apply Rinv_neq_0_compat; lra]. unfold Rdiv in H. lra. }
    apply eq_IZR in H0. contradiction. }
  destruct (Z.ltb_spec (2 * r) p) as [L|L].
  - rewrite Rcompare_Lt; [reflexivity|].
    apply (Rmult_lt_reg_r (IZR p)); [exact Pp|].
    replace (IZR r / IZR p * IZR p)%R with (IZR r) by (field; lra).
    apply IZR_lt in L. rewrite mult_IZR in L. lra.
  - destruct (Z.ltb_spec p (2 * r)) as [G|G].
    + rewrite Rcompare_Gt; [apply Ceil; lia|].
      apply (Rmult_lt_reg_r (IZR p)); [exact Pp|].
      replace (IZR r / IZR p * IZR p)%R with (IZR r) by (field; lra).
      apply IZR_lt in G. rewrite mult_IZR in G. lra.
    + assert (E2 : 2 * r = p) by lia.
      rewrite Rcompare_Eq.
      * destruct (Z.even q); cbn [negb]; [reflexivity|apply Ceil; lia].
      * apply (Rmult_eq_reg_r (IZR p)); [|lra].
        replace (IZR r / IZR p * IZR p)%R with (IZR r) by (field; lra).
        apply (f_equal IZR) in E2. rewrite mult_IZR in E2. lra.
Qed.

Local Instance prec53 : Prec_gt_0 53 := eq_refl.

Notation fexp64 := (FLT_exp (-1074) 53).

Lemma mag_IZR_pos z : 0 < z -> (mag radix2 (IZR z) : Z) = Z.log2 z + 1.
Proof.
  intro Hz. apply mag_unique_pos.
  destruct (Z.log2_spec z Hz) as [Lo Hi].
  pose proof (Z.log2_nonneg z) as L0.
  replace (Z.log2 z + 1 - 1) with (Z.log2 z) by lia.
  rewrite <- !IZR_Zpower by lia. split.
  - apply IZR_le. exact Lo.
  - apply IZR_lt. replace (Z.log2 z + 1) with (Z.succ (Z.log2 z)) by lia. exact Hi.
Qed.

Lemma round53_pos z : 0 < z ->
  round radix2 fexp64 ZnearestE (IZR z) = IZR (round53 z).
Proof.
  intro Hz.
  pose proof (Z.log2_nonneg z) as L0.
  assert (Ce : cexp radix2 fexp64 (IZR z) = Z.log2 z - 52).
  { unfold cexp. rewrite (mag_IZR_pos z Hz). unfold FLT_exp. lia. }
  unfold round53. rewrite (Z.abs_eq z) by lia. rewrite (Z.sgn_pos z Hz), Z.mul_1_l.
  destruct (Z_le_gt_dec (Z.log2 z - 52) 0) as [Le|Gt].
  - (* representable: the integer is in the format *)
    rewrite (Z.max_l 0 (Z.log2 z - 52)) by lia.
    change (2 ^ 0) with 1. rewrite Z.div_1_r, Z.mod_1_r. cbn [Z.mul Z.ltb Z.compare]. rewrite Z.mul_1_r.
    apply round_generic; [apply valid_rnd_N|].
    replace (IZR z) with (F2R (Float radix2 z 0)) by (unfold F2R; cbn; lra).
    apply generic_format_F2R. intros _.
    replace (F2R (Float radix2 z 0)) with (IZR z) by (unfold F2R; cbn; lra).
    rewrite Ce. exact Le.
  - rewrite (Z.max_r 0 (Z.log2 z - 52)) by lia.
    set (e := Z.log2 z - 52) in *.
    assert (Pp : 0 < 2 ^ e) by (apply Z.pow_pos_nonneg; lia).
    unfold round, scaled_mantissa. rewrite Ce. fold e.
    assert (Sm : (IZR z * bpow radix2 (- e) = IZR z / IZR (2 ^ e))%R).
    { rewrite bpow_opp. rewrite <- (IZR_Zpower radix2 e) by lia. reflexivity. }
    rewrite Sm, (ZnearestE_div z (2 ^ e) Pp).
    unfold F2R. cbn [Fnum Fexp]. rewrite <- (IZR_Zpower radix2 e) by lia. rewrite <- mult_IZR.
    reflexivity.
Qed.

Lemma round53_opp z : round53 (- z) = - round53 z.
Proof. unfold round53. rewrite Z.abs_opp, Z.sgn_opp. lia. Qed.

Theorem round53_is_binary64_RNE : forall z,
  round radix2 fexp64 ZnearestE (IZR z) = IZR (round53 z).
Proof.
  intro z. destruct (Z.lt_trichotomy z 0) as [N|[->|P]].
  - assert (Hw : 0 < - z) by lia. set (w := - z) in *.
    assert (Ez : z = - w) by lia. rewrite Ez.
    rewrite round53_opp, !opp_IZR, round_NE_opp, (round53_pos w Hw). reflexivity.
  - rewrite round_0; [reflexivity|apply valid_rnd_N].
  - apply round53_pos. exact P.
Qed.

(* Corollary: the whole string -> float64 -> int path is exact up to 2^53, with no sampling:
   the decimal string of z denotes exactly z, the correctly rounded binary64 of that real
   number is z itself, and truncating it gives z. *)
Theorem int_through_binary64_exact : forall z, Z.abs z <= 2 ^ 53 ->
  parse_dec_int (itoa z) = Some z /\
  round radix2 fexp64 ZnearestE (IZR z) = IZR z /\
  Ztrunc (round radix2 fexp64 ZnearestE (IZR z)) = z.
Proof.
  intros z H. split; [apply parse_dec_int_itoa|].
  assert (E : round radix2 fexp64 ZnearestE (IZR z) = IZR z).
  { rewrite round53_is_binary64_RNE, (round53_exact z H). reflexivity. }
  split; [exact E|]. rewrite E. apply Ztrunc_IZR.
Qed.
