(* Lemmas about Model/ByteStr.v: the string order is a total order, characters
   partition a byte string, white-space trimming. *)
From Coq Require Import Lia ZifyBool ZifyN ZifyNat.
From Murex Require Import Base.Outcome Base.Bytes Model.ByteStr.

Local Open Scope N_scope.

(* ---- order ---- *)
Lemma bytes_leb_refl a : bytes_leb a a = true.
Proof. induction a as [|x a IH]; simpl; [reflexivity|]. rewrite N.ltb_irrefl, N.eqb_refl. exact IH. Qed.

Lemma bytes_leb_total a b : bytes_leb a b = true \/ bytes_leb b a = true.
Proof.
  revert b; induction a as [|x a IH]; intros [|y b]; simpl; auto.
  destruct (N.ltb_spec x y); auto. destruct (N.ltb_spec y x); auto.
  assert (x = y) by lia. subst. rewrite N.eqb_refl. apply IH.
Qed.

Lemma bytes_leb_antisym a b : bytes_leb a b = true -> bytes_leb b a = true -> a = b.
Proof.
  revert b; induction a as [|x a IH]; intros [|y b]; simpl; try discriminate; auto.
  destruct (N.ltb_spec x y); destruct (N.ltb_spec y x); try lia.
  - destruct (N.eqb_spec y x); [lia|discriminate].
  - destruct (N.eqb_spec x y); [lia|discriminate].
  - destruct (N.eqb_spec x y); [|discriminate]. subst. rewrite N.eqb_refl.
    intros H1 H2. f_equal. apply IH; assumption.
Qed.

Lemma bytes_leb_trans a b c : bytes_leb a b = true -> bytes_leb b c = true -> bytes_leb a c = true.
Proof.
  revert b c; induction a as [|x a IH]; intros [|y b] [|z c]; simpl; try discriminate; auto.
  destruct (N.ltb_spec x y); destruct (N.ltb_spec y z); destruct (N.ltb_spec x z); try lia; auto;
    destruct (N.eqb_spec x y); destruct (N.eqb_spec y z); destruct (N.eqb_spec x z); try lia; try discriminate; auto.
  apply IH.
Qed.

Lemma bytes_leb_false a b : bytes_leb a b = false -> bytes_leb b a = true.
Proof. intro H. destruct (bytes_leb_total a b) as [T|T]; [congruence|exact T]. Qed.

(* ---- characters ---- *)
Lemma rune_size_bounds b : b <> [] -> (1 <= rune_size b <= length b)%nat.
Proof.
  destruct b as [|c r]; [congruence|]. intros _. unfold rune_size.
  destruct (c <? 128); [simpl; lia|].
  destruct (in_rng 194 223 c).
  { destruct r as [|c1 r]; [simpl; lia|]. destruct (in_rng 128 191 c1); simpl; lia. }
  destruct (in_rng 224 239 c).
  { destruct r as [|c1 [|c2 r]]; try (simpl; lia).
    destruct (in_rng _ _ c1 && in_rng 128 191 c2); simpl; lia. }
  destruct (in_rng 240 244 c).
  { destruct r as [|c1 [|c2 [|c3 r]]]; try (simpl; lia).
    destruct (in_rng _ _ c1 && in_rng 128 191 c2 && in_rng 128 191 c3); simpl; lia. }
  simpl; lia.
Qed.

Lemma chars_fuel_concat f b : (length b <= f)%nat -> concat (chars_fuel f b) = b.
Proof.
  revert b; induction f as [|f IH]; intros b H.
  - destruct b; [reflexivity|simpl in H; lia].
  - destruct b as [|c r]; [reflexivity|].
    cbn [chars_fuel]. cbn [concat].
    assert (B := rune_size_bounds (c :: r) ltac:(discriminate)).
    rewrite IH.
    + apply firstn_skipn.
    + rewrite skipn_length. lia.
Qed.

Lemma concat_chars b : concat (chars b) = b.
Proof. apply chars_fuel_concat. lia. Qed.

Lemma chars_nil : chars [] = [].
Proof. reflexivity. Qed.

(* on ASCII text every byte is a character *)
Lemma chars_fuel_ascii f b : (length b <= f)%nat -> Forall (fun c => c < 128) b ->
  chars_fuel f b = map (fun c => [c]) b.
Proof.
  revert b; induction f as [|f IH]; intros b H A.
  - destruct b; [reflexivity|simpl in H; lia].
  - destruct b as [|c r]; [reflexivity|]. inversion A as [|? ? Hc Hr]; subst.
    cbn [chars_fuel]. unfold rune_size. destruct (N.ltb_spec c 128); [|lia].
    cbn [firstn skipn map]. f_equal. apply IH; [simpl in H; lia|assumption].
Qed.

Lemma chars_ascii b : Forall (fun c => c < 128) b -> chars b = map (fun c => [c]) b.
Proof. apply chars_fuel_ascii. lia. Qed.

Lemma concat_map_singleton {A} (l : list A) : concat (map (fun c => [c]) l) = l.
Proof. induction l as [|x l IH]; simpl; [reflexivity|]. f_equal. exact IH. Qed.

(* ---- trimming ---- *)
(* b neither starts nor ends with a white-space rune *)
Lemma frev_eq {A} (l : list A) : frev l = rev l.
Proof. unfold frev. symmetry. apply rev_alt. Qed.

Definition no_space_ends (b : bytes) : Prop :=
  strip_any space_pats b = None /\ strip_any (map (@rev N) space_pats) (frev b) = None.

Lemma trim_left_with_id pats b : strip_any pats b = None -> trim_left_with pats b = b.
Proof. unfold trim_left_with. destruct (length b); simpl; [reflexivity|]. intros ->. reflexivity. Qed.

Lemma trim_space_id b : no_space_ends b -> trim_space b = b.
Proof.
  intros [H1 H2]. unfold trim_space, trim_right, trim_left.
  rewrite (trim_left_with_id _ b H1), (trim_left_with_id _ (frev b) H2).
  rewrite !frev_eq. apply rev_involutive.
Qed.
