(* C23 — proofs about Model/FuncParams.v *)
From Coq Require Import Lia.
From Murex Require Import Base.Outcome Base.Bytes Model.FuncParams Check.C23.
Local Open Scope N_scope.

(* ------------------------------------------------------------------ *)
(* generalities *)

Lemma run_app : forall a b s, run s (a ++ b) = obind (run s a) (fun s' => run s' b).
Proof.
  induction a as [|r a IH]; intros b s; cbn [run app obind]; [reflexivity|].
  destruct (step s r); cbn [obind]; auto.
Qed.

Lemma nonempty_snoc : forall (l : list N) r, nonempty (l ++ [r]) = true.
Proof. intros [|x l] r; reflexivity. Qed.

Ltac split_eqb r k :=
  let E := fresh "E" in destruct (N.eqb_spec r k) as [E|E]; [subst r|].

(* ------------------------------------------------------------------ *)
(* well-formed parameter lists (the domain of the round trip) *)

Definition free_desc (r : N) : bool := negb (r =? 34) && negb (r =? 10) && negb (r =? 13) && negb (r =? 9).
Definition free_default (r : N) : bool := negb (r =? 93) && negb (r =? 10) && negb (r =? 13) && negb (r =? 9).

Definition wf_param (p : param) : bool :=
  nonempty (p_name p) && forallb is_ident (p_name p) &&
  nonempty (p_type p) && forallb is_ident (p_type p) &&
  forallb free_default (p_default p) && forallb free_desc (p_desc p) &&
  (p_hasdef p || negb (nonempty (p_default p))).

Definition wf_sig (ps : list param) : bool :=
  match ps with [] => false | _ => forallb wf_param ps && order_ok ps end.

Lemma classify_ident : forall r, is_ident r = true -> classify_rune r = CIdent.
Proof.
  intros r H. unfold classify_rune.
  split_eqb r 13; [discriminate|]. split_eqb r 10; [discriminate|].
  split_eqb r 32; [discriminate|]. split_eqb r 9; [discriminate|].
  split_eqb r 58; [discriminate|]. split_eqb r 34; [discriminate|].
  split_eqb r 91; [discriminate|]. split_eqb r 93; [discriminate|].
  split_eqb r 44; [discriminate|]. split_eqb r 33; [discriminate|].
  cbn [orb]. rewrite H. reflexivity.
Qed.

Notation mkst c n t d v h o done hd :=
  {| s_ctx := c; s_cur := {| p_name := n; p_type := t; p_desc := d; p_default := v; p_hasdef := h; p_opt := o |};
     s_done := done; s_hasdesc := hd |}.

Lemma step_desc : forall r n t d v h o done hd, free_desc r = true ->
  step (mkst DescRead n t d v h o done hd) r = Ok (mkst DescRead n t (d ++ [r]) v h o done hd).
Proof.
  intros r n t d v h o done hd H. unfold free_desc in H. unfold step, classify_rune.
  split_eqb r 13; [discriminate|]. split_eqb r 10; [discriminate|].
  split_eqb r 32; [reflexivity|]. split_eqb r 9; [discriminate|].
  split_eqb r 58; [reflexivity|]. split_eqb r 34; [discriminate|].
  split_eqb r 91; [reflexivity|]. split_eqb r 93; [reflexivity|].
  split_eqb r 44; [reflexivity|]. split_eqb r 33; [reflexivity|].
  cbn [orb]. destruct (is_ident r); reflexivity.
Qed.

Lemma step_default : forall r n t d v h o done hd, free_default r = true ->
  step (mkst DefaultRead n t d v h o done hd) r = Ok (mkst DefaultRead n t d (v ++ [r]) h o done hd).
Proof.
  intros r n t d v h o done hd H. unfold free_default in H. unfold step, classify_rune.
  split_eqb r 13; [discriminate|]. split_eqb r 10; [discriminate|].
  split_eqb r 32; [reflexivity|]. split_eqb r 9; [discriminate|].
  split_eqb r 58; [reflexivity|]. split_eqb r 34; [reflexivity|].
  split_eqb r 91; [reflexivity|]. split_eqb r 93; [discriminate|].
  split_eqb r 44; [reflexivity|]. split_eqb r 33; [reflexivity|].
  cbn [orb]. destruct (is_ident r); reflexivity.
Qed.

Lemma run_desc : forall w n t d v h o done hd, forallb free_desc w = true ->
  run (mkst DescRead n t d v h o done hd) w = Ok (mkst DescRead n t (d ++ w) v h o done hd).
Proof.
  induction w as [|r w IH]; intros n t d v h o done hd H; cbn [run].
  - rewrite app_nil_r. reflexivity.
  - cbn [forallb] in H. apply andb_true_iff in H as [H1 H2].
    rewrite step_desc by exact H1. cbn [obind]. rewrite IH by exact H2.
    rewrite <- app_assoc. reflexivity.
Qed.

Lemma run_default : forall w n t d v h o done hd, forallb free_default w = true ->
  run (mkst DefaultRead n t d v h o done hd) w = Ok (mkst DefaultRead n t d (v ++ w) h o done hd).
Proof.
  induction w as [|r w IH]; intros n t d v h o done hd H; cbn [run].
  - rewrite app_nil_r. reflexivity.
  - cbn [forallb] in H. apply andb_true_iff in H as [H1 H2].
    rewrite step_default by exact H1. cbn [obind]. rewrite IH by exact H2.
    rewrite <- app_assoc. reflexivity.
Qed.

Lemma step_name : forall r c n t d v h o done hd, (c = NameStart \/ c = NameRead) -> is_ident r = true ->
  step (mkst c n t d v h o done hd) r = Ok (mkst NameRead (n ++ [r]) t d v h o done hd).
Proof.
  intros r c n t d v h o done hd Hc H. unfold step. rewrite (classify_ident r H).
  destruct Hc; subst c; reflexivity.
Qed.

Lemma run_name : forall w c n t d v h o done hd, (c = NameStart \/ c = NameRead) ->
  forallb is_ident w = true -> nonempty w = true ->
  run (mkst c n t d v h o done hd) w = Ok (mkst NameRead (n ++ w) t d v h o done hd).
Proof.
  induction w as [|r w IH]; intros c n t d v h o done hd Hc H Hne; [discriminate|].
  cbn [run]. cbn [forallb] in H. apply andb_true_iff in H as [H1 H2].
  rewrite (step_name r c) by assumption. cbn [obind].
  destruct w as [|r2 w].
  - reflexivity.
  - rewrite IH; auto. rewrite <- app_assoc. reflexivity.
Qed.

Lemma step_type : forall r c n t d v h o done hd, (c = TypeStart \/ c = TypeRead) -> is_ident r = true ->
  step (mkst c n t d v h o done hd) r = Ok (mkst TypeRead n (t ++ [r]) d v h o done hd).
Proof.
  intros r c n t d v h o done hd Hc H. unfold step. rewrite (classify_ident r H).
  destruct Hc; subst c; reflexivity.
Qed.

Lemma run_type : forall w c n t d v h o done hd, (c = TypeStart \/ c = TypeRead) ->
  forallb is_ident w = true -> nonempty w = true ->
  run (mkst c n t d v h o done hd) w = Ok (mkst TypeRead n (t ++ w) d v h o done hd).
Proof.
  induction w as [|r w IH]; intros c n t d v h o done hd Hc H Hne; [discriminate|].
  cbn [run]. cbn [forallb] in H. apply andb_true_iff in H as [H1 H2].
  rewrite (step_type r c) by assumption. cbn [obind].
  destruct w as [|r2 w].
  - reflexivity.
  - rewrite IH; auto. rewrite <- app_assoc. reflexivity.
Qed.

Ltac step_now :=
  match goal with
  | |- context [step ?s ?r] =>
      let x := eval cbn in (step s r) in
      let y := eval cbv beta iota delta [set_ctx set_cur add_name add_type add_desc add_default set_hasdef set_opt set_type
                 push s_ctx s_cur s_done s_hasdesc p_name p_type p_desc p_default p_hasdef p_opt] in x in
      change (step s r) with y; cbn [obind]
  end.

Definition end_ctx (p : param) : ctx :=
  if nonempty (p_desc p) then DescEnd else if p_hasdef p then DefaultEnd else TypeRead.

(* reading the canonical text of one parameter *)
Lemma run_print_param : forall p done, wf_param p = true ->
  run {| s_ctx := NameStart; s_cur := empty_param; s_done := done; s_hasdesc := false |} (print_param p)
  = Ok {| s_ctx := end_ctx p; s_cur := p; s_done := done; s_hasdesc := nonempty (p_desc p) |}.
Proof.
  intros [n t d v h o] done H. unfold wf_param in H. cbn [p_name p_type p_desc p_default p_hasdef p_opt] in H.
  repeat (apply andb_true_iff in H; destruct H as [H ?]).
  rename H into Hn1, H0 into Hv0, H1 into Hd, H2 into Hv, H3 into Ht2, H4 into Ht1, H5 into Hn2.
  unfold print_param, end_ctx. cbn [p_name p_type p_desc p_default p_hasdef p_opt].
  (* after the optional '!' and the name and ": " and the type *)
  assert (Hhead : forall rest,
    run {| s_ctx := NameStart; s_cur := empty_param; s_done := done; s_hasdesc := false |}
        ((if o then [33] else []) ++ n ++ [58; 32] ++ t ++ rest)
    = run (mkst TypeRead n t [] [] false o done false) rest).
  { intro rest.
    assert (Hb : run {| s_ctx := NameStart; s_cur := empty_param; s_done := done; s_hasdesc := false |}
                     (if o then [33] else [])
                 = Ok (mkst (if o then NameRead else NameStart) [] [] [] [] false o done false)).
    { destruct o; reflexivity. }
    rewrite run_app, Hb. cbn [obind].
    rewrite run_app, (run_name n) by (auto; destruct o; auto). cbn [obind app].
    cbn [run]. step_now. step_now.
    rewrite run_app, (run_type t) by auto. cbn [obind app]. reflexivity. }
  rewrite Hhead.
  destruct h.
  - (* has a default *)
    cbn [app]. rewrite <- !app_assoc. cbn [run]. step_now. step_now.
    rewrite run_app, run_default by exact Hv. cbn [obind app run]. step_now.
    destruct (nonempty d) eqn:Nd.
    + cbn [app run]. step_now. step_now.
      rewrite run_app, run_desc by exact Hd. cbn [obind app run]. step_now. reflexivity.
    + destruct d; [reflexivity|discriminate].
  - (* no default: the default text is empty *)
    cbn [orb negb] in Hv0. destruct v; [|discriminate].
    cbn [app].
    destruct (nonempty d) eqn:Nd.
    + cbn [app run]. step_now. step_now.
      rewrite run_app, run_desc by exact Hd. cbn [obind app run]. step_now. reflexivity.
    + destruct d; [reflexivity|discriminate].
Qed.

Lemma finish_end : forall p done hd,
  finish {| s_ctx := end_ctx p; s_cur := p; s_done := done; s_hasdesc := hd |} = Ok (rev done ++ [p]).
Proof.
  intros p done hd. unfold finish, end_ctx. cbn [s_ctx s_cur s_done].
  destruct (nonempty (p_desc p)); [reflexivity|]. destruct (p_hasdef p); reflexivity.
Qed.

Lemma step_comma_end : forall p done hd,
  step {| s_ctx := end_ctx p; s_cur := p; s_done := done; s_hasdesc := hd |} 44
  = Ok {| s_ctx := NameStart; s_cur := empty_param; s_done := p :: done; s_hasdesc := false |}.
Proof.
  intros p done hd. unfold end_ctx.
  destruct (nonempty (p_desc p)); [reflexivity|]. destruct (p_hasdef p); reflexivity.
Qed.

Lemma run_print_sig : forall ps done, ps <> [] -> forallb wf_param ps = true ->
  obind (run {| s_ctx := NameStart; s_cur := empty_param; s_done := done; s_hasdesc := false |} (print_sig ps)) finish
  = Ok (rev done ++ ps).
Proof.
  induction ps as [|p ps IH]; intros done Hne H; [congruence|].
  cbn [forallb] in H. apply andb_true_iff in H as [Hp Hps].
  destruct ps as [|p2 ps].
  - cbn [print_sig]. rewrite run_print_param by exact Hp. cbn [obind]. apply finish_end.
  - change (print_sig (p :: p2 :: ps)) with (print_param p ++ [44; 32] ++ print_sig (p2 :: ps)).
    rewrite run_app, run_print_param by exact Hp. cbn [obind app run].
    rewrite step_comma_end. cbn [obind]. unfold step at 1. cbn [classify_rune N.eqb Pos.eqb orb s_ctx].
    cbn [obind]. rewrite IH by (auto; discriminate).
    cbn [rev]. rewrite <- app_assoc. reflexivity.
Qed.

Lemma wf_names : forall ps, forallb wf_param ps = true ->
  forallb (fun p => nonempty (p_name p)) ps = true /\ forallb (fun p => nonempty (p_type p)) ps = true.
Proof.
  induction ps as [|p ps IH]; intro H; [split; reflexivity|].
  cbn [forallb] in *. apply andb_true_iff in H as [Hp Hps]. destruct (IH Hps) as [A B].
  unfold wf_param in Hp. repeat (apply andb_true_iff in Hp; destruct Hp as [Hp ?]).
  rewrite A, B, Hp. rewrite H3. split; reflexivity.
Qed.

(* THE ROUND TRIP *)
Theorem sig_print_parse : forall ps, wf_sig ps = true -> parse_sig (print_sig ps) = Ok ps.
Proof.
  intros ps H. unfold wf_sig in H. destruct ps as [|p ps]; [discriminate|].
  apply andb_true_iff in H as [Hwf Hord].
  unfold parse_sig, init_st.
  pose proof (run_print_sig (p :: ps) [] ltac:(discriminate) Hwf) as R.
  destruct (run _ (print_sig (p :: ps))) as [s| | |]; cbn [obind] in R |- *; try discriminate.
  rewrite R. cbn [obind rev app]. unfold validate.
  destruct (wf_names _ Hwf) as [A B]. rewrite A, B, Hord. reflexivity.
Qed.

(* ------------------------------------------------------------------ *)
(* the parser accepts exactly the language of the documented grammar's automaton *)

Fixpoint order_ok_rev (l : list param) : bool :=   (* l: most recent first *)
  match l with
  | [] => true
  | p :: l' => (p_opt p || negb (existsb p_opt l')) && order_ok_rev l'
  end.

Lemma order_ok_snoc : forall l b p,
  order_ok_from b (l ++ [p]) = order_ok_from b l && (p_opt p || negb (b || existsb p_opt l)).
Proof.
  induction l as [|q l IH]; intros b p; cbn [app order_ok_from existsb].
  - rewrite orb_false_r, andb_true_r. reflexivity.
  - rewrite IH. rewrite <- andb_assoc. f_equal. f_equal. f_equal. f_equal.
    rewrite orb_assoc. reflexivity.
Qed.

Lemma existsb_rev : forall (f : param -> bool) l, existsb f (rev l) = existsb f l.
Proof.
  induction l as [|x l IH]; [reflexivity|]. cbn [rev existsb]. rewrite existsb_app, IH.
  cbn [existsb]. rewrite orb_false_r. apply orb_comm.
Qed.

Lemma forallb_rev : forall (f : param -> bool) l, forallb f (rev l) = forallb f l.
Proof.
  induction l as [|x l IH]; [reflexivity|]. cbn [rev forallb]. rewrite forallb_app, IH.
  cbn [forallb]. rewrite andb_true_r. apply andb_comm.
Qed.

Lemma order_ok_rev_spec : forall l, order_ok (rev l) = order_ok_rev l.
Proof.
  induction l as [|p l IH]; [reflexivity|]. unfold order_ok in *. cbn [rev order_ok_rev].
  rewrite order_ok_snoc, IH, existsb_rev. cbn [orb]. apply andb_comm.
Qed.

Definition sofar (s : st) : list param :=
  match s_ctx s with NameStart => s_done s | _ => s_cur s :: s_done s end.

Definition past_name (c : ctx) : bool := match c with NameStart | NameRead => false | _ => true end.

(* nothing read so far dooms the final validation *)
Definition good (s : st) : bool :=
  forallb (fun q => nonempty (p_name q)) (s_done s) &&
  (negb (past_name (s_ctx s)) || nonempty (p_name (s_cur s))) &&
  order_ok_rev (sofar s).

Definition inv (s : st) : bool :=
  let p := s_cur s in
  forallb (fun q => nonempty (p_type q)) (s_done s) &&
  match s_ctx s with
  | NameStart => negb (p_hasdef p) && negb (s_hasdesc s) && negb (p_opt p) && negb (nonempty (p_name p))
  | NameRead | TypeStart => negb (p_hasdef p) && negb (s_hasdesc s)
  | TypeRead | DescStart => negb (p_hasdef p) && negb (s_hasdesc s) && nonempty (p_type p)
  | DescRead | DescEnd => s_hasdesc s && nonempty (p_type p)
  | DefaultRead | DefaultEnd => p_hasdef p && nonempty (p_type p)
  end.

Definition alpha_d (s : st) : dstate :=
  let p := s_cur s in
  match s_ctx s with
  | NameStart => QStart
  | NameRead => if nonempty (p_name p) then QName else QBang
  | TypeStart => QColon
  | TypeRead => QType
  | DescStart => QExtras
  | DescRead => if p_hasdef p then QDesc2 else QDesc1
  | DescEnd => if p_hasdef p then QBoth else QDescEnd1
  | DefaultRead => if s_hasdesc s then QDef2 else QDef1
  | DefaultEnd => if s_hasdesc s then QBoth else QDefEnd1
  end.

Definition alpha (s : st) : dstate * bool := (alpha_d s, existsb p_opt (sofar s)).

Ltac bool_crush :=
  repeat match goal with
         | H : _ && _ = true |- _ => apply andb_true_iff in H; destruct H
         | H : negb _ = true |- _ => apply negb_true_iff in H
         | H : ?x = true |- _ => is_var x; subst x
         | H : ?x = false |- _ => is_var x; subst x
         end.

Ltac gen_atoms done :=
  generalize dependent (existsb p_opt done);
  generalize dependent (order_ok_rev done);
  generalize dependent (forallb (fun q : param => nonempty (p_name q)) done);
  generalize dependent (forallb (fun q : param => nonempty (p_type q)) done).

Ltac finish_bools :=
  intros;
  repeat match goal with
         | b : bool |- _ => destruct b; cbn in *; try discriminate
         end; try discriminate; repeat split; auto.

Lemma step_sim : forall s r, inv s = true -> good s = true ->
  match dstep (alpha s) (classify_rune r), step s r with
  | Some q, Ok s' => inv s' = true /\ good s' = true /\ alpha s' = q
  | Some q, _ => False
  | None, Ok s' => good s' = false
  | None, _ => True
  end.
Proof.
  intros [c [n t d v h o] done hd] r. unfold step.
  destruct (classify_rune r) eqn:E; destruct c; destruct h; destruct hd;
    unfold inv, good, alpha, alpha_d, sofar, past_name, dstep, or_err, append_free, push, set_ctx, set_cur,
      add_name, add_type, add_desc, add_default, set_hasdef, set_opt, set_type, ty_str, empty_param;
    cbn [s_ctx s_cur s_done s_hasdesc p_name p_type p_desc p_default p_hasdef p_opt forallb existsb order_ok_rev
         negb orb andb nonempty];
    rewrite ?nonempty_snoc;
    generalize (nonempty n); generalize (nonempty t); gen_atoms done; clear;
    finish_bools.
Qed.

Lemma doomed_step : forall s r s', good s = false -> step s r = Ok s' -> good s' = false.
Proof.
  intros [c [n t d v h o] done hd] r s'. unfold step.
  destruct (classify_rune r) eqn:E; destruct c;
    unfold good, sofar, past_name, or_err, append_free, push, set_ctx, set_cur,
      add_name, add_type, add_desc, add_default, set_hasdef, set_opt, set_type, ty_str, empty_param;
    cbn [s_ctx s_cur s_done s_hasdesc p_name p_type p_desc p_default p_hasdef p_opt forallb existsb order_ok_rev
         negb orb andb nonempty];
    intros G S; try discriminate;
    try (destruct hd; try discriminate); try (destruct h; try discriminate);
    inversion S; subst s';
    cbn [s_ctx s_cur s_done s_hasdesc p_name p_type p_desc p_default p_hasdef p_opt forallb existsb order_ok_rev
         negb orb andb nonempty];
    rewrite ?nonempty_snoc;
    revert G; generalize (nonempty n); gen_atoms done; clear;
    finish_bools.
Qed.

Lemma doomed_run : forall t s s', good s = false -> run s t = Ok s' -> good s' = false.
Proof.
  induction t as [|r t IH]; intros s s' G R; cbn [run] in R.
  - inversion R; subst; exact G.
  - destruct (step s r) as [s1| | |] eqn:S; cbn [obind] in R; try discriminate.
    eapply IH; [eapply doomed_step; eassumption|exact R].
Qed.

Lemma run_sim : forall t s, inv s = true -> good s = true ->
  match drun (alpha s) t with
  | Some q => exists s', run s t = Ok s' /\ inv s' = true /\ good s' = true /\ alpha s' = q
  | None => match run s t with Ok s' => good s' = false | _ => True end
  end.
Proof.
  induction t as [|r t IH]; intros s I G; cbn [drun run].
  - exists s. auto.
  - pose proof (step_sim s r I G) as S.
    destruct (dstep (alpha s) (classify_rune r)) as [q|].
    + destruct (step s r) as [s1| | |]; try contradiction.
      destruct S as (I1 & G1 & A1). cbn [obind]. subst q. apply IH; assumption.
    + destruct (step s r) as [s1| | |]; cbn [obind]; auto.
      destruct (run s1 t) as [s2| | |] eqn:R; auto. eapply doomed_run; eassumption.
Qed.

Lemma final_good : forall s, inv s = true -> good s = true ->
  is_ok (obind (finish s) validate) = daccepting (alpha_d s).
Proof.
  intros [c [n t d v h o] done hd]. unfold inv, good, alpha_d, finish, sofar, past_name, validate, set_type, ty_str.
  destruct c;
    cbn [s_ctx s_cur s_done s_hasdesc p_name p_type p_desc p_default p_hasdef p_opt obind];
    rewrite ?forallb_rev, ?order_ok_rev_spec;
    cbn [s_ctx s_cur s_done s_hasdesc p_name p_type p_desc p_default p_hasdef p_opt forallb existsb order_ok_rev
         negb orb andb nonempty];
    generalize (nonempty n); generalize (nonempty t); gen_atoms done; clear;
    finish_bools.
Qed.

Lemma final_doomed : forall s, good s = false -> is_ok (obind (finish s) validate) = false.
Proof.
  intros [c [n t d v h o] done hd]. unfold good, finish, sofar, past_name, validate, set_type, ty_str.
  destruct c;
    cbn [s_ctx s_cur s_done s_hasdesc p_name p_type p_desc p_default p_hasdef p_opt obind];
    rewrite ?forallb_rev, ?order_ok_rev_spec;
    cbn [s_ctx s_cur s_done s_hasdesc p_name p_type p_desc p_default p_hasdef p_opt forallb existsb order_ok_rev
         negb orb andb nonempty];
    generalize (nonempty n); generalize (nonempty t); gen_atoms done; clear;
    finish_bools.
Qed.

(* ACCEPTS EXACTLY THE DOCUMENTED GRAMMAR *)
Theorem parse_accepts_exactly : forall t, is_ok (parse_sig t) = doc_accepts t.
Proof.
  intro t. unfold parse_sig, doc_accepts.
  pose proof (run_sim t init_st eq_refl eq_refl) as S.
  change (alpha init_st) with (QStart, false) in S.
  destruct (drun (QStart, false) t) as [[q so]|].
  - destruct S as (s' & R & I & G & A). rewrite R. cbn [obind].
    rewrite final_good by assumption. unfold alpha in A. inversion A. reflexivity.
  - destruct (run init_st t) as [s'| | |]; cbn [obind]; try reflexivity.
    apply final_doomed. exact S.
Qed.

(* ------------------------------------------------------------------ *)
(* castParameters *)

Section BindProofs.
  Variable conv : list N -> list N -> option (list N).

  (* the one lemma about the loop: it succeeds exactly when every parameter is bindable, and the
     environment it builds is the declarative expect_var of the check *)
  Lemma bind_from_spec : forall ps args e,
    existsb is_prompt (sources ps args) = false ->
    if forallb (bindable conv) (sources ps args)
    then exists e', bind_from conv ps args e = Ok e' /\
                    forall n, lookup e' n = expect_var conv (sources ps args) n (lookup e n)
    else exists k, bind_from conv ps args e = Err k /\ k <> 20.
  Proof.
    induction ps as [|p ps IH]; intros args e NP; cbn [sources forallb bind_from].
    - exists e. split; [reflexivity|]. intro n. reflexivity.
    - cbn [sources existsb] in NP. apply orb_false_iff in NP as [NP1 NP2].
      unfold is_prompt in NP1. cbn [snd] in NP1. unfold bindable at 1. cbn [fst snd].
      specialize (IH (tl args)).
      destruct (source_of p (hd_error args)) as [s|s| |]; try discriminate.
      + destruct (conv (p_type p) s) as [v|] eqn:C; cbn [andb].
        * destruct (reserved (p_name p)) eqn:R; cbn [negb andb].
          -- exists 22. split; [reflexivity|discriminate].
          -- specialize (IH ((p_name p, (p_type p, v)) :: e) NP2).
             destruct (forallb (bindable conv) (sources ps (tl args))).
             ++ destruct IH as (e' & B & L). exists e'. split; [exact B|]. intro n. rewrite L.
                cbn [expect_var lookup]. rewrite C. reflexivity.
             ++ exact IH.
        * exists 21. split; [reflexivity|discriminate].
      + destruct (conv (p_type p) s) as [v|] eqn:C; cbn [andb].
        * destruct (reserved (p_name p)) eqn:R; cbn [negb andb].
          -- exists 22. split; [reflexivity|discriminate].
          -- specialize (IH ((p_name p, (p_type p, v)) :: e) NP2).
             destruct (forallb (bindable conv) (sources ps (tl args))).
             ++ destruct IH as (e' & B & L). exists e'. split; [exact B|]. intro n. rewrite L.
                cbn [expect_var lookup]. rewrite C. reflexivity.
             ++ exact IH.
        * exists 21. split; [reflexivity|discriminate].
      + cbn [andb]. specialize (IH e NP2).
        destruct (forallb (bindable conv) (sources ps (tl args))).
        * destruct IH as (e' & B & L). exists e'. split; [exact B|]. intro n. rewrite L.
          cbn [expect_var]. destruct (bytes_eqb (p_name p) n); reflexivity.
        * exact IH.
  Qed.

  Lemma bind_ok_no_prompt : forall ps args e e', bind_from conv ps args e = Ok e' ->
    existsb is_prompt (sources ps args) = false.
  Proof.
    induction ps as [|p ps IH]; intros args e e' B; cbn [sources existsb]; [reflexivity|].
    cbn [bind_from] in B. unfold is_prompt at 1. cbn [snd].
    destruct (source_of p (hd_error args)) as [s|s| |]; try discriminate; cbn [orb].
    - destruct (conv (p_type p) s); try discriminate. destruct (reserved (p_name p)); try discriminate.
      eapply IH; eassumption.
    - destruct (conv (p_type p) s); try discriminate. destruct (reserved (p_name p)); try discriminate.
      eapply IH; eassumption.
    - eapply IH; eassumption.
  Qed.

  Lemma bind_ok_spec : forall ps args e, bind conv ps args = Ok e ->
    forallb (bindable conv) (sources ps args) = true /\
    forall n, lookup e n = expect_var conv (sources ps args) n None.
  Proof.
    intros ps args e B. unfold bind in B.
    pose proof (bind_from_spec ps args [] (bind_ok_no_prompt _ _ _ _ B)) as S.
    destruct (forallb (bindable conv) (sources ps args)).
    - destruct S as (e' & B' & L). rewrite B in B'. inversion B'; subst e'. split; [reflexivity|exact L].
    - destruct S as (k & B' & _). rewrite B in B'. discriminate.
  Qed.

  (* ---- sources / expect_var of a parameter in the middle of the list ---- *)
  Lemma sources_app : forall a b args,
    sources (a ++ b) args = sources a args ++ sources b (skipn (length a) args).
  Proof.
    induction a as [|p a IH]; intros b args; cbn [app sources length skipn]; [reflexivity|].
    rewrite IH. destruct args; cbn [tl skipn]; [|reflexivity].
    destruct (length a); reflexivity.
  Qed.

  Lemma hd_skipn : forall (args : list (list N)) k, hd_error (skipn k args) = nth_error args k.
  Proof.
    induction args as [|x args IH]; intros [|k]; cbn; auto.
  Qed.

  Lemma expect_var_app : forall a b n acc,
    expect_var conv (a ++ b) n acc = expect_var conv b n (expect_var conv a n acc).
  Proof.
    induction a as [|[p src] a IH]; intros b n acc; cbn [app expect_var]; [reflexivity|apply IH].
  Qed.

  Definition other_names (n : list N) (ps : list param) : Prop :=
    forall q, In q ps -> bytes_eqb (p_name q) n = false.

  Lemma expect_var_other : forall ps args n acc, other_names n ps ->
    expect_var conv (sources ps args) n acc = acc.
  Proof.
    induction ps as [|p ps IH]; intros args n acc O; cbn [sources expect_var]; [reflexivity|].
    rewrite (O p (or_introl eq_refl)). apply IH. intros q Hq. apply O. right. exact Hq.
  Qed.

  Lemma bindable_at : forall pre p post args,
    forallb (bindable conv) (sources (pre ++ p :: post) args) = true ->
    bindable conv (p, source_of p (nth_error args (length pre))) = true.
  Proof.
    intros pre p post args H. rewrite sources_app, forallb_app in H.
    apply andb_true_iff in H as [_ H]. cbn [sources forallb] in H.
    apply andb_true_iff in H as [H _]. rewrite hd_skipn in H. exact H.
  Qed.

  Lemma value_at : forall pre p post args e, bind conv (pre ++ p :: post) args = Ok e ->
    other_names (p_name p) post ->
    lookup e (p_name p) =
      match source_of p (nth_error args (length pre)) with
      | Supplied s | FromDefault s =>
          match conv (p_type p) s with
          | Some v => Some (p_type p, v)
          | None => expect_var conv (sources pre args) (p_name p) None
          end
      | _ => expect_var conv (sources pre args) (p_name p) None
      end.
  Proof.
    intros pre p post args e B O. destruct (bind_ok_spec _ _ _ B) as [_ L].
    rewrite L, sources_app, expect_var_app. cbn [sources expect_var].
    rewrite expect_var_other by exact O. rewrite hd_skipn, bytes_eqb_refl. reflexivity.
  Qed.

  (* each supplied argument is bound to its named variable converted to the declared type *)
  Theorem bind_supplied : forall pre p post args e s,
    bind conv (pre ++ p :: post) args = Ok e ->
    nth_error args (length pre) = Some s -> other_names (p_name p) post ->
    exists v, conv (p_type p) s = Some v /\ lookup e (p_name p) = Some (p_type p, v).
  Proof.
    intros pre p post args e s B A O. pose proof (value_at _ _ _ _ _ B O) as V.
    destruct (bind_ok_spec _ _ _ B) as [F _]. apply bindable_at in F.
    rewrite A in V, F. cbn [source_of] in V, F. unfold bindable in F. cbn [fst snd] in F.
    destruct (conv (p_type p) s) as [v|]; [|discriminate]. exists v. auto.
  Qed.

  (* a missing optional parameter gets its default *)
  Theorem bind_default : forall pre p post args e,
    bind conv (pre ++ p :: post) args = Ok e ->
    nth_error args (length pre) = None -> p_opt p = true -> p_hasdef p = true ->
    other_names (p_name p) post ->
    exists v, conv (p_type p) (p_default p) = Some v /\ lookup e (p_name p) = Some (p_type p, v).
  Proof.
    intros pre p post args e B A Op Hd O. pose proof (value_at _ _ _ _ _ B O) as V.
    destruct (bind_ok_spec _ _ _ B) as [F _]. apply bindable_at in F.
    rewrite A in V, F. cbn [source_of] in V, F. rewrite Op, Hd in V, F. unfold bindable in F. cbn [fst snd] in F.
    destruct (conv (p_type p) (p_default p)) as [v|]; [|discriminate]. exists v. auto.
  Qed.

  (* ... or stays unset without one *)
  Theorem bind_unset : forall pre p post args e,
    bind conv (pre ++ p :: post) args = Ok e ->
    nth_error args (length pre) = None -> p_opt p = true -> p_hasdef p = false ->
    other_names (p_name p) pre -> other_names (p_name p) post ->
    lookup e (p_name p) = None.
  Proof.
    intros pre p post args e B A Op Hd O1 O2. pose proof (value_at _ _ _ _ _ B O2) as V.
    rewrite A in V. cbn [source_of] in V. rewrite Op, Hd in V. rewrite V.
    apply expect_var_other. exact O1.
  Qed.

  (* an argument (or default) that cannot be converted fails the call before the body runs *)
  Theorem bind_fails_before_body : forall pre p post args s,
    (nth_error args (length pre) = Some s \/
     (nth_error args (length pre) = None /\ p_opt p = true /\ p_hasdef p = true /\ s = p_default p)) ->
    conv (p_type p) s = None ->
    (forall e, bind conv (pre ++ p :: post) args <> Ok e) /\
    match call conv (pre ++ p :: post) args with Ok o => o_body o = false /\ o_exit_zero o = false | _ => True end.
  Proof.
    intros pre p post args s A C.
    assert (NB : forall e, bind conv (pre ++ p :: post) args <> Ok e).
    { intros e B. destruct (bind_ok_spec _ _ _ B) as [F _]. apply bindable_at in F.
      unfold bindable in F. cbn [fst snd] in F.
      destruct A as [A|(A & Op & Hd & Es)]; rewrite A in F; cbn [source_of] in F.
      - rewrite C in F. discriminate.
      - rewrite Op, Hd in F. subst s. rewrite C in F. discriminate. }
    split; [exact NB|]. unfold call.
    destruct (bind conv (pre ++ p :: post) args) as [e|k| |] eqn:B.
    - exfalso. exact (NB e eq_refl).
    - destruct (k =? 20) eqn:K.
      + apply N.eqb_eq in K. subst k. exact I.
      + destruct k as [|k]; [split; reflexivity|].
        repeat (destruct k as [k|k|]; try (split; reflexivity); try exact I).
    - split; reflexivity.
    - split; reflexivity.
  Qed.
End BindProofs.

(* ------------------------------------------------------------------ *)
(* the model meets the predicate the check evaluates *)

Lemma param_eqb_refl : forall p, param_eqb p p = true.
Proof.
  intros [n t d v h o]. unfold param_eqb. cbn. rewrite !bytes_eqb_refl.
  destruct h, o; reflexivity.
Qed.

Lemma params_eqb_refl : forall ps, params_eqb ps ps = true.
Proof. induction ps as [|p ps IH]; cbn; [reflexivity|]. rewrite param_eqb_refl. exact IH. Qed.

Lemma vars_eqb_refl : forall l : list (option value), list_eqb (option_eqb value_eqb) l l = true.
Proof.
  induction l as [|[[a b]|] l IH]; cbn; auto.
  unfold value_eqb. cbn. rewrite !bytes_eqb_refl. exact IH.
Qed.

Lemma vars_eqb_ext : forall (ps : list param) (f g : param -> option value),
  (forall p, f p = g p) -> list_eqb (option_eqb value_eqb) (map f ps) (map g ps) = true.
Proof. intros ps f g H. rewrite (map_ext f g H). apply vars_eqb_refl. Qed.

Lemma spec_call_model : forall conv ps args o, call conv ps args = Ok o -> spec_call_ok conv ps args o = true.
Proof.
  intros conv ps args o C. unfold spec_call_ok.
  destruct (existsb is_prompt (sources ps args)) eqn:NP; [reflexivity|].
  pose proof (bind_from_spec conv ps args [] NP) as S. unfold call, bind in C.
  destruct (forallb (bindable conv) (sources ps args)).
  - destruct S as (e & B & L). rewrite B in C. inversion C; subst o. cbn [o_body o_exit_zero o_vars Bool.eqb andb].
    apply vars_eqb_ext. intro p. apply L.
  - destruct S as (k & B & K). rewrite B in C.
    assert (C' : o = {| o_body := false; o_exit_zero := false; o_vars := [] |}).
    { destruct k as [|k]; [inversion C; reflexivity|].
      repeat (destruct k as [k|k|]; try (inversion C; reflexivity); try congruence). }
    subst o. reflexivity.
Qed.

Definition model_case (sig : list N) (expect : option (list param)) (args : list (list N))
           (tbl : list (list N * list N * option (list N))) : case :=
  {| c_sig := sig; c_expect := expect; c_parse := to_option (parse_sig sig); c_panic := false;
     c_args := args; c_conv := tbl; c_call := model_call (conv_of tbl) sig args |}.

Theorem model_meets_spec : forall sig expect args tbl,
  match expect with Some ps => wf_sig ps = true /\ sig = print_sig ps | None => True end ->
  conv_plain_ok tbl = true ->
  spec_ok (model_case sig expect args tbl) = true /\ agree (model_case sig expect args tbl) = true.
Proof.
  intros sig expect args tbl HE HC. unfold spec_ok, agree, model_case, spec_parse.
  cbn [c_sig c_expect c_parse c_panic c_args c_conv c_call negb andb]. rewrite HC.
  pose proof (parse_accepts_exactly sig) as X.
  assert (P1 : Bool.eqb match to_option (parse_sig sig) with Some _ => true | None => false end (doc_accepts sig) = true).
  { rewrite <- X. destruct (parse_sig sig); reflexivity. }
  rewrite P1.
  assert (P2 : match expect with Some ps => option_eqb params_eqb (to_option (parse_sig sig)) (Some ps) | None => true end = true).
  { destruct expect as [ps|]; [|reflexivity]. destruct HE as [W E]. subst sig.
    rewrite sig_print_parse by exact W. cbn. apply params_eqb_refl. }
  rewrite P2. cbn [andb].
  assert (P3 : option_eqb params_eqb (to_option (parse_sig sig)) (to_option (parse_sig sig)) = true).
  { destruct (parse_sig sig); cbn; auto. apply params_eqb_refl. }
  rewrite P3. cbn [andb].
  unfold model_call.
  destruct (parse_sig sig) as [ps|k| |]; cbn [to_option].
  - destruct (call (conv_of tbl) ps args) as [o|k| |] eqn:C; cbn [to_option]; auto.
    rewrite (spec_call_model _ _ _ _ C). split; [reflexivity|].
    cbn. unfold call_obs_eqb. rewrite !eqb_reflx, vars_eqb_refl. reflexivity.
  - split; reflexivity.
  - split; reflexivity.
  - split; reflexivity.
Qed.
