(* Proofs about the tokenizer / highlighter model (Model/Tokenizer.v):
   - the highlighter half never panics and writes exactly the typed runes, in
     order, with well-formed colour codes in between (C37, and the tokenizer
     half of C20);
   - hence removing the colour codes gives the typed line back. *)
From Coq Require Import Lia.
From Murex Require Import Base.Outcome Base.Bytes Gen.HlCodes Model.Tokenizer Check.C37.
Local Open Scope N_scope.

(* ---------- strip ---------- *)

Lemma strip_run_app s a b :
  strip_run s (a ++ b) =
  let '(o1, s1) := strip_run s a in
  let '(o2, s2) := strip_run s1 b in (o1 ++ o2, s2).
Proof.
  revert s; induction a as [|r a IH]; intro s; cbn [strip_run app].
  - destruct (strip_run s b); reflexivity.
  - destruct (strip_step s r) as [o s1]. rewrite IH.
    destruct (strip_run s1 a) as [o1 s2]. destruct (strip_run s2 b) as [o2 s3].
    rewrite app_assoc. reflexivity.
Qed.

(* a colour code: removed completely, leaving the remover in its normal state *)
Definition code_ok (c : code) : bool :=
  match strip_run SNormal c with
  | ([], SNormal) => true
  | _ => false
  end.

Lemma code_ok_run c : code_ok c = true -> strip_run SNormal c = ([], SNormal).
Proof.
  unfold code_ok. destruct (strip_run SNormal c) as [[|x o] [| |b]]; intro H;
    try discriminate; reflexivity.
Qed.

Definition seg_ok (s : seg) : bool := match s with Chr _ => true | Code c => code_ok c end.

Lemma strip_run_render l :
  Forall (fun s => seg_ok s = true) l ->
  Forall (fun r => enc r <> 27) (chars l) ->
  strip_run SNormal (render l) = (map enc (chars l), SNormal).
Proof.
  induction l as [|[r|c] l IH]; intros Hs Hc; cbn [render chars map].
  - reflexivity.
  - inversion Hs; subst. cbn [chars] in Hc. inversion Hc; subst.
    cbn [strip_run strip_step]. destruct (N.eqb_spec (enc r) 27) as [E|E]; [contradiction|].
    rewrite IH by assumption. reflexivity.
  - inversion Hs as [|? ? Hc1 Hs']; subst. cbn [seg_ok] in Hc1.
    rewrite strip_run_app, (code_ok_run _ Hc1), IH by assumption. reflexivity.
Qed.

Lemma strip_render l :
  Forall (fun s => seg_ok s = true) l ->
  Forall (fun r => enc r <> 27) (chars l) ->
  strip (render l) = map enc (chars l).
Proof.
  intros Hs Hc. unfold strip. rewrite strip_run_render by assumption.
  cbn [flush]. apply app_nil_r.
Qed.

Lemma chars_app a b : chars (a ++ b) = chars a ++ chars b.
Proof.
  induction a as [|[r|c] a IH]; cbn [chars app]; [reflexivity| |assumption].
  rewrite IH; reflexivity.
Qed.

(* ---------- the colour constants of the Go source ---------- *)

Definition all_codes : list code :=
  [code_reset; hl_function; hl_variable; hl_escaped; hl_single_quote; hl_double_quote;
   hl_brace_quote; hl_pipe; hl_comment; hl_error; hl_redirect] ++ hl_block.

(* evaluated by the kernel on the constants regenerated from the Go source *)
Lemma all_codes_ok : forallb code_ok all_codes = true.
Proof. vm_compute. reflexivity. Qed.

Lemma hl_block_nonempty : (length hl_block =? 0)%nat = false.
Proof. vm_compute. reflexivity. Qed.

Lemma in_all_ok c : In c all_codes -> code_ok c = true.
Proof. intro H. exact (proj1 (forallb_forall _ _) all_codes_ok c H). Qed.

Ltac code_const := apply in_all_ok; unfold all_codes; cbn [In app]; tauto.

Lemma ok_reset : code_ok code_reset = true. Proof. code_const. Qed.
Lemma ok_function : code_ok hl_function = true. Proof. code_const. Qed.
Lemma ok_variable : code_ok hl_variable = true. Proof. code_const. Qed.
Lemma ok_escaped : code_ok hl_escaped = true. Proof. code_const. Qed.
Lemma ok_single : code_ok hl_single_quote = true. Proof. code_const. Qed.
Lemma ok_double : code_ok hl_double_quote = true. Proof. code_const. Qed.
Lemma ok_brace : code_ok hl_brace_quote = true. Proof. code_const. Qed.
Lemma ok_pipe : code_ok hl_pipe = true. Proof. code_const. Qed.
Lemma ok_comment : code_ok hl_comment = true. Proof. code_const. Qed.
Lemma ok_error : code_ok hl_error = true. Proof. code_const. Qed.
Lemma ok_redirect : code_ok hl_redirect = true. Proof. code_const. Qed.

Lemma ok_block c : In c hl_block -> code_ok c = true.
Proof. intro H. apply in_all_ok. unfold all_codes. apply in_or_app. right. exact H. Qed.

(* ---------- the highlighter half ---------- *)

(* invariant of the highlighter state *)
Definition hl_inv (h : hl) : Prop :=
  h_reset h <> [] /\
  Forall (fun c => code_ok c = true) (h_reset h) /\
  Forall (fun s => seg_ok s = true) (h_out h).

(* the typed runes written so far, in order *)
Definition typed (h : hl) : list N := chars (rev (h_out h)).

(* the typed runes an action writes *)
Definition act_chars (a : act) : list N :=
  match a with
  | ARaw r => [r] | AColour _ r => [r] | AReset r => [r] | AChar _ rs => rs
  | _ => []
  end.
Definition acts_chars (l : list act) : list N := concat (map act_chars l).

(* side conditions on the constants an action carries *)
Definition act_ok (a : act) : Prop :=
  match a with
  | ACode c | AColour c _ | AChar c _ => code_ok c = true
  | ATrim p => p <> 65533
  | _ => True
  end.

Lemma pop_reset_inv r :
  r <> [] -> Forall (fun c => code_ok c = true) r ->
  pop_reset r <> [] /\ Forall (fun c => code_ok c = true) (pop_reset r).
Proof.
  intros Hne Hf. destruct r as [|a [|b r]]; cbn [pop_reset].
  - contradiction.
  - split; assumption.
  - inversion Hf; subst. split; [discriminate|assumption].
Qed.

Lemma typed_cons x h r o :
  h_out h = o -> typed (mk_hl r (x :: o)) = typed h ++ chars [x].
Proof. intro E. unfold typed. cbn [h_out rev]. rewrite chars_app, E. reflexivity. Qed.

Lemma enc_eq_small q p : enc q = p -> p <> 65533 -> q = p.
Proof. unfold enc. destruct (valid_rune q); intros E H; [assumption|congruence]. Qed.

Lemma emit_inv x h :
  hl_inv h -> Forall (fun s => seg_ok s = true) x ->
  hl_inv (emit x h) /\ typed (emit x h) = typed h ++ chars x.
Proof.
  intros (Hne & Hr & Ho) Hx. unfold emit, hl_inv, typed; cbn [h_reset h_out]. split.
  - split; [assumption|]. split; [assumption|].
    apply Forall_app; split; [apply Forall_rev; assumption|assumption].
  - rewrite rev_app_distr, rev_involutive, chars_app. reflexivity.
Qed.

Lemma chars_map_chr l : chars (map Chr l) = l.
Proof. induction l; cbn [map chars]; [reflexivity|f_equal; assumption]. Qed.

Lemma ok_map_chr l : Forall (fun s => seg_ok s = true) (map Chr l).
Proof. induction l; cbn [map]; constructor; [reflexivity|assumption]. Qed.

Lemma run_act_inv a h :
  hl_inv h -> act_ok a ->
  exists h', run_act a h = Ok h' /\ hl_inv h' /\ typed h' = typed h ++ act_chars a.
Proof.
  intros Hi Ha. pose proof Hi as (Hne & Hr & Ho).
  destruct a as [r|c|c r|r| |c l| | |n|p]; cbn [run_act act_chars].
  - (* ARaw *) eexists; split; [reflexivity|].
    apply emit_inv; [assumption|]. constructor; [reflexivity|constructor].
  - (* ACode *) cbn [act_ok] in Ha. eexists; split; [reflexivity|].
    destruct (emit_inv [Code c] h Hi) as [I1 T1]; [constructor; [exact Ha|constructor]|].
    split; [assumption|]. rewrite T1. reflexivity.
  - (* AColour *) cbn [act_ok] in Ha. eexists; split; [reflexivity|]. split.
    + repeat split; cbn [h_reset h_out].
      * discriminate.
      * constructor; assumption.
      * constructor; [reflexivity|]. constructor; [exact Ha|assumption].
    + unfold typed; cbn [h_out rev]. rewrite !chars_app. cbn [chars]. rewrite <- app_assoc. reflexivity.
  - (* AReset *)
    destruct (pop_reset_inv _ Hne Hr) as [Hne' Hr'].
    destruct (pop_reset (h_reset h)) as [|top rs'] eqn:E; [contradiction|]. cbn [top_then].
    eexists; split; [reflexivity|]. split.
    + repeat split; cbn [h_reset h_out]; try assumption.
      inversion Hr'; subst. constructor; [assumption|]. constructor; [reflexivity|assumption].
    + unfold typed; cbn [h_out rev]. rewrite !chars_app. cbn [chars]. rewrite <- app_assoc. reflexivity.
  - (* AResetNoChar *)
    destruct (pop_reset_inv _ Hne Hr) as [Hne' Hr'].
    destruct (pop_reset (h_reset h)) as [|top rs'] eqn:E; [contradiction|]. cbn [top_then].
    eexists; split; [reflexivity|]. split.
    + repeat split; cbn [h_reset h_out]; try assumption.
      inversion Hr'; subst. constructor; assumption.
    + unfold typed; cbn [h_out rev]. rewrite !chars_app. cbn [chars]. rewrite !app_nil_r. reflexivity.
  - (* AChar *) cbn [act_ok] in Ha.
    destruct (h_reset h) as [|top rs'] eqn:E; [contradiction|]. cbn [top_then].
    eexists; split; [reflexivity|].
    destruct (emit_inv ([Code c] ++ map Chr l ++ [Code top]) h Hi) as [I1 T1].
    + apply Forall_app; split; [constructor; [exact Ha|constructor]|].
      apply Forall_app; split; [apply ok_map_chr|].
      inversion Hr; subst. constructor; [assumption|constructor].
    + split; [assumption|]. rewrite T1, !chars_app, chars_map_chr. cbn [chars app].
      rewrite app_nil_r. reflexivity.
  - (* AStartFunc *)
    destruct (pop_reset_inv _ Hne Hr) as [Hne' Hr'].
    destruct (pop_reset (h_reset h)) as [|top rs'] eqn:E; [contradiction|]. cbn [top_then].
    eexists; split; [reflexivity|]. split.
    + repeat split; cbn [h_reset h_out]; try assumption.
      inversion Hr'; subst. constructor; [exact ok_function|]. constructor; assumption.
    + unfold typed; cbn [h_out rev]. rewrite !chars_app. cbn [chars]. rewrite !app_nil_r. reflexivity.
  - (* ATop *)
    destruct (h_reset h) as [|top rs'] eqn:E; [contradiction|]. cbn [top_then].
    eexists; split; [reflexivity|].
    destruct (emit_inv [Code top] h Hi) as [I1 T1].
    + inversion Hr; subst. constructor; [assumption|constructor].
    + split; [assumption|]. rewrite T1. reflexivity.
  - (* ABlock *)
    pose proof hl_block_nonempty as Hnz.
    destruct hl_block as [|b0 bl] eqn:Eb; [discriminate Hnz|]. rewrite <- Eb in *. clear Hnz.
    assert (Hlen : (0 < Z.of_nat (length hl_block))%Z) by (rewrite Eb; cbn [length]; lia).
    pose proof (Z.mod_pos_bound n _ Hlen) as Hb.
    destruct (nth_error hl_block (Z.to_nat (n mod Z.of_nat (length hl_block)))) as [c|] eqn:En.
    + eexists; split; [reflexivity|].
      destruct (emit_inv [Code c] h Hi) as [I1 T1].
      * constructor; [|constructor]. cbn [seg_ok]. apply ok_block. eapply nth_error_In; eassumption.
      * split; [assumption|]. rewrite T1. reflexivity.
    + exfalso. apply nth_error_None in En. lia.
  - (* ATrim *) cbn [act_ok] in Ha.
    destruct (h_out h) as [|[q|c] o'] eqn:Eo; rewrite ?Eo in Ho.
    + eexists; split; [reflexivity|]. split.
      * repeat split; cbn [h_reset h_out]; try discriminate.
        -- constructor; [exact ok_pipe|assumption].
        -- constructor; [exact ok_pipe|constructor].
      * unfold typed; rewrite Eo; cbn [h_out rev app chars]. reflexivity.
    + destruct (N.eqb_spec (enc q) p) as [E|E].
      * apply enc_eq_small in E; [|assumption]. subst q.
        eexists; split; [reflexivity|]. split.
        -- repeat split; cbn [h_reset h_out]; try discriminate.
           ++ constructor; [exact ok_pipe|assumption].
           ++ inversion Ho; subst. constructor; [reflexivity|]. constructor; [exact ok_pipe|assumption].
        -- unfold typed; rewrite Eo; cbn [h_out rev]. rewrite !chars_app. cbn [chars]. rewrite !app_nil_r.
           reflexivity.
      * eexists; split; [reflexivity|]. split.
        -- repeat split; cbn [h_reset h_out]; try discriminate.
           ++ constructor; [exact ok_pipe|assumption].
           ++ constructor; [exact ok_pipe|assumption].
        -- unfold typed; rewrite Eo; cbn [h_out rev]. rewrite !chars_app. cbn [chars]. rewrite !app_nil_r. reflexivity.
    + eexists; split; [reflexivity|]. split.
      * repeat split; cbn [h_reset h_out]; try discriminate.
        -- constructor; [exact ok_pipe|assumption].
        -- constructor; [exact ok_pipe|assumption].
      * unfold typed; rewrite Eo; cbn [h_out rev]. rewrite !chars_app. cbn [chars]. rewrite !app_nil_r. reflexivity.
Qed.

Lemma run_acts_inv l : forall h,
  hl_inv h -> Forall act_ok l ->
  exists h', run_acts l h = Ok h' /\ hl_inv h' /\ typed h' = typed h ++ acts_chars l.
Proof.
  induction l as [|a l IH]; intros h Hi Hf; cbn [run_acts].
  - exists h. unfold acts_chars; cbn [map concat]. rewrite app_nil_r. auto.
  - inversion Hf as [|? ? Ha Hl]; subst.
    destruct (run_act_inv a h Hi Ha) as (h1 & E1 & Hi1 & T1). rewrite E1. cbn [obind].
    destruct (IH h1 Hi1 Hl) as (h2 & E2 & Hi2 & T2).
    exists h2. split; [assumption|]. split; [assumption|].
    rewrite T2, T1. unfold acts_chars. cbn [map concat]. rewrite app_assoc. reflexivity.
Qed.

(* ---------- the token half: what each branch writes ---------- *)

Definition step_good (pos : Z) (c : N) (tl : list N) (r : sres) : Prop :=
  Forall act_ok (s_acts r) /\
  match s_kind r with
  | KCont k => (k <= 2)%nat /\ (k <= length tl)%nat /\ acts_chars (s_acts r) = c :: firstn k tl
  | KComment => acts_chars (s_acts r) = c :: tl
  | KEarly => pos <> 0%Z
  end.

Lemma early_nz pos t : early pos t = true -> pos <> 0%Z.
Proof.
  unfold early. destruct (Z.eqb_spec pos 0) as [E|E]; cbn [negb andb]; [discriminate|auto].
Qed.

Lemma acts_chars_raw l : acts_chars (map ARaw l) = l.
Proof. unfold acts_chars. induction l; cbn [map concat act_chars app]; [reflexivity|f_equal; assumption]. Qed.

Lemma acts_ok_raw l : Forall act_ok (map ARaw l).
Proof. induction l; cbn [map]; constructor; [exact I|assumption]. Qed.

Lemma comment_acts_good c tl :
  Forall act_ok ([ACode hl_comment] ++ map ARaw (c :: tl) ++ [ACode code_reset]) /\
  acts_chars ([ACode hl_comment] ++ map ARaw (c :: tl) ++ [ACode code_reset]) = c :: tl.
Proof.
  split.
  - apply Forall_app; split; [constructor; [exact ok_comment|constructor]|].
    apply Forall_app; split; [apply acts_ok_raw|constructor; [exact ok_reset|constructor]].
  - unfold acts_chars. rewrite !map_app, !concat_app. fold (acts_chars (map ARaw (c :: tl))).
    rewrite acts_chars_raw. cbn [map concat act_chars app]. rewrite app_nil_r. reflexivity.
Qed.

Ltac eqb_subst :=
  repeat match goal with
  | H : (_ && _) = true |- _ => apply andb_true_iff in H; destruct H
  | H : (_ =? _) = true |- _ => apply N.eqb_eq in H; subst
  end.

Ltac ok_code :=
  first [ exact I | exact ok_reset | exact ok_function | exact ok_variable | exact ok_escaped
        | exact ok_single | exact ok_double | exact ok_brace | exact ok_pipe | exact ok_comment
        | exact ok_error | exact ok_redirect | (cbn [act_ok]; discriminate) ].

Ltac leaf :=
  cbn [s_acts s_kind cont cont_skip escaped_ add_raw sigil block_open_acts
       next_is prev_is List.tl firstn length app];
  first
  [ (* early return *)
    match goal with H : early _ _ = true |- _ =>
      split; [constructor | exact (early_nz _ _ H)] end
  | (* comment *)
    apply comment_acts_good
  | split;
    [ repeat (first [apply Forall_nil | apply Forall_cons | apply Forall_app; split]); ok_code
    | split; [lia | split; [cbn [length]; lia | eqb_subst; reflexivity]] ] ].

Lemma switch_good pos prev i c tl t : step_good pos c tl (switch pos prev i c tl t).
Proof.
  unfold step_good.
  destruct tl as [|c1 [|c2 tl2]]; unfold switch, sigil, block_open_acts; cbv zeta;
    cbn [next_is List.tl]; rewrite ?Bool.andb_false_r, ?Bool.orb_false_r;
    repeat match goal with
    | |- context [if ?b then _ else _] => destruct b eqn:?
    end;
    try discriminate;
    leaf.
Qed.

Lemma step_good_ pos prev i c tl t : step_good pos c tl (step pos prev i c tl t).
Proof.
  unfold step. cbv zeta.
  destruct (negb (t_var_sigil (if t_escaped t then t else set_last_char c t) =? 0) &&
            t_var_brace (if t_escaped t then t else set_last_char c t)).
  - destruct (N.eqb_spec c 41) as [E|E]; unfold step_good; cbn [cont s_acts s_kind].
    + subst. split; [repeat constructor|]. split; [lia|]. split; [lia|reflexivity].
    + split; [repeat constructor|]. split; [lia|]. split; [lia|reflexivity].
  - destruct (negb (t_var_sigil (if t_escaped t then t else set_last_char c t) =? 0) &&
              negb (allowed_var_char c)).
    + pose proof (switch_good pos prev i c tl
                   (set_var_sigil 0 (if t_escaped t then t else set_last_char c t))) as [Ha Hk].
      unfold step_good. cbn [s_acts s_kind]. split; [constructor; [exact I|assumption]|].
      exact Hk.
    + apply switch_good.
Qed.

(* ---------- the loop ---------- *)

Definition result_good (h0 : hl) (l : list N) (pos : Z) (r : result) : Prop :=
  Forall (fun s => seg_ok s = true) (r_hl r) /\
  (r_early r = false -> chars (r_hl r) = typed h0 ++ l) /\
  (pos = 0%Z -> r_early r = false).

Lemma finish_good t h l : hl_inv h -> typed h = l ->
  Forall (fun s => seg_ok s = true) (r_hl (finish t h)) /\ chars (r_hl (finish t h)) = l.
Proof.
  intros (Hne & Hr & Ho) T. unfold finish; cbn [r_hl rev]. split.
  - apply Forall_app; split; [apply Forall_rev; assumption|]. constructor; [exact ok_reset|constructor].
  - rewrite chars_app. cbn [chars]. rewrite app_nil_r. exact T.
Qed.

Lemma tok_go_good n : forall l pos prev i t h,
  (length l <= n)%nat -> hl_inv h ->
  exists r, tok_go pos prev i t h l = Ok r /\ result_good h l pos r.
Proof.
  induction n as [|n IH]; intros l pos prev i t h Hlen Hi.
  - destruct l; [|cbn [length] in Hlen; lia]. cbn [tok_go].
    eexists; split; [reflexivity|]. destruct (finish_good t h (typed h) Hi eq_refl) as [F C].
    split; [exact F|]. split; [intros _; rewrite C, app_nil_r; reflexivity|reflexivity].
  - destruct l as [|c tl].
    + cbn [tok_go]. eexists; split; [reflexivity|].
      destruct (finish_good t h (typed h) Hi eq_refl) as [F C].
      split; [exact F|]. split; [intros _; rewrite C, app_nil_r; reflexivity|reflexivity].
    + cbn [tok_go]. cbv zeta. cbn [length] in Hlen.
      pose proof (step_good_ pos prev i c tl t) as [Ha Hk].
      destruct (run_acts_inv _ h Hi Ha) as (h1 & E1 & Hi1 & T1). rewrite E1. cbn [obind].
      destruct (s_kind (step pos prev i c tl t)) as [k| |].
      * destruct Hk as (Hk2 & Hkl & Hc). rewrite Hc in T1.
        destruct k as [|[|k]].
        -- (* no skip *)
           destruct (IH tl pos (Some c) (i + 1)%Z (s_tok (step pos prev i c tl t)) h1) as (r & Er & G1 & G2 & G3);
             [lia|assumption|].
           exists r. split; [exact Er|]. split; [exact G1|]. split; [|exact G3].
           intro Hne. rewrite (G2 Hne), T1. cbn [firstn]. rewrite <- app_assoc. reflexivity.
        -- (* skip 1 *)
           destruct tl as [|c1 tl1]; [cbn [length] in Hkl; lia|]. cbn [length] in Hlen.
           destruct (IH tl1 pos (Some c1) (i + 2)%Z (s_tok (step pos prev i c (c1 :: tl1) t)) h1) as (r & Er & G1 & G2 & G3);
             [lia|assumption|].
           exists r. split; [exact Er|]. split; [exact G1|]. split; [|exact G3].
           intro Hne. rewrite (G2 Hne), T1. cbn [firstn]. rewrite <- app_assoc. reflexivity.
        -- (* skip 2 *)
           assert (k = 0%nat) by lia. subst k.
           destruct tl as [|c1 [|c2 tl2]]; [cbn [length] in Hkl; lia|cbn [length] in Hkl; lia|].
           cbn [length] in Hlen.
           destruct (IH tl2 pos (Some c2) (i + 3)%Z (s_tok (step pos prev i c (c1 :: c2 :: tl2) t)) h1) as (r & Er & G1 & G2 & G3);
             [lia|assumption|].
           exists r. split; [exact Er|]. split; [exact G1|]. split; [|exact G3].
           intro Hne. rewrite (G2 Hne), T1. cbn [firstn]. rewrite <- app_assoc. reflexivity.
      * (* early return *)
        eexists; split; [reflexivity|]. split; [|split].
        -- cbn [r_hl]. apply Forall_rev. apply Hi1.
        -- cbn [r_early]. discriminate.
        -- intro E0. contradiction.
      * (* comment *)
        rewrite Hk in T1.
        eexists; split; [reflexivity|].
        destruct (finish_good (s_tok (step pos prev i c tl t)) h1 _ Hi1 T1) as [F C].
        split; [exact F|]. split; [intros _; exact C|reflexivity].
Qed.

Lemma init_hl_inv : hl_inv init_hl.
Proof.
  unfold hl_inv, init_hl; cbn [h_reset h_out]. split; [discriminate|]. split.
  - constructor; [exact ok_function|]. constructor; [exact ok_reset|constructor].
  - constructor; [exact ok_function|constructor].
Qed.

(* parser.Parse never panics, whatever the rune string and pos (tokenizer half of C20) *)
Lemma parse_total block pos : exists r, parse block pos = Ok r.
Proof.
  destruct (tok_go_good (length block) block pos None 0%Z init_tok init_hl (le_n _) init_hl_inv)
    as (r & E & _). exists r. exact E.
Qed.

(* with pos = 0 the typed runes come out in order, for every rune list *)
Lemma parse_keeps_runes block :
  exists r, parse block 0%Z = Ok r /\ r_early r = false /\ chars (r_hl r) = block /\
            Forall (fun s => seg_ok s = true) (r_hl r).
Proof.
  destruct (tok_go_good (length block) block 0%Z None 0%Z init_tok init_hl (le_n _) init_hl_inv)
    as (r & E & G1 & G2 & G3).
  exists r. split; [exact E|]. specialize (G3 eq_refl). split; [exact G3|]. split; [|exact G1].
  rewrite (G2 G3). reflexivity.
Qed.

Lemma typed_text_facts src : typed_text src = true ->
  map enc src = src /\ Forall (fun r => enc r <> 27) src.
Proof.
  unfold typed_text. intro H. apply andb_true_iff in H as [Hv He].
  apply negb_true_iff in He.
  induction src as [|r src IH]; cbn [map]; [split; [reflexivity|constructor]|].
  cbn [forallb] in Hv. apply andb_true_iff in Hv as [Hr Hv].
  cbn [existsb] in He. apply orb_false_iff in He as [H27 He].
  destruct (IH Hv He) as [IH1 IH2]. unfold enc at 1. rewrite Hr. split; [f_equal; assumption|].
  constructor; [|assumption]. unfold enc. rewrite Hr. intro E. subst. discriminate.
Qed.

Lemma highlight_preserves src : typed_text src = true ->
  exists h, highlight src = Ok h /\ strip h = src.
Proof.
  intro H. destruct (typed_text_facts src H) as [Hm Hf].
  destruct (parse_keeps_runes src) as (r & E & _ & C & F).
  unfold highlight. rewrite E. cbn [omap obind]. eexists; split; [reflexivity|].
  rewrite strip_render; [rewrite C; exact Hm | exact F | rewrite C; exact Hf].
Qed.

Lemma runes_eqb_refl a : runes_eqb a a = true.
Proof. induction a as [|x a IH]; cbn [runes_eqb]; [reflexivity|]. rewrite N.eqb_refl, IH. reflexivity. Qed.

Lemma runes_eqb_eq a b : runes_eqb a b = true -> a = b.
Proof.
  revert b; induction a as [|x a IH]; intros [|y b] H; cbn [runes_eqb] in H; try discriminate; [reflexivity|].
  apply andb_true_iff in H as [H1 H2]. apply N.eqb_eq in H1. apply IH in H2. subst. reflexivity.
Qed.

(* the model's output satisfies the predicate the check evaluates on the implementation *)
Lemma model_meets_spec src : typed_text src = true ->
  exists h, highlight src = Ok h /\
    spec_ok {| c_src := src; c_hl := h; c_stripped := strip h; c_panic := false |} = true.
Proof.
  intro H. destruct (highlight_preserves src H) as (h & E & S).
  exists h. split; [exact E|]. unfold spec_ok, spec_hl. cbn [c_src c_hl c_stripped c_panic].
  rewrite H, S, runes_eqb_refl. reflexivity.
Qed.

(* and conversely: an observation accepted by the predicate strips to the typed text *)
Lemma spec_ok_sound c : typed_text (c_src c) = true -> spec_ok c = true ->
  c_panic c = false /\ strip (c_hl c) = c_src c.
Proof.
  unfold spec_ok, spec_hl. intros H S. rewrite H in S.
  apply andb_true_iff in S as [S S3]. apply andb_true_iff in S as [S1 S2].
  split; [destruct (c_panic c); [discriminate|reflexivity]|]. apply runes_eqb_eq. exact S2.
Qed.
