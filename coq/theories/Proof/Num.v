(* C13 — proofs about Model/Num.v *)
From Coq Require Import Lia ZifyBool ZifyN ZifyNat.
From Murex Require Import Base.Outcome Base.Bytes Model.Num Check.C13.
Local Open Scope N_scope.

(* ---------- Itoa and the decimal parser are inverse ---------- *)
Lemma is_digit_of_digit d : d < 10 -> is_digit (48 + d) = true.
Proof. intro H. unfold is_digit. lia. Qed.

Lemma dec_digits_parse : forall fuel n acc,
  n < 2 ^ N.of_nat fuel ->
  parse_digits (dec_digits fuel n acc) 0 = parse_digits acc n.
Proof.
  induction fuel as [|f IH]; intros n acc H.
  - cbn in H. assert (n = 0) by lia. subst n. reflexivity.
  - cbn [dec_digits].
    assert (Hd : n mod 10 < 10) by (apply N.mod_lt; lia).
    pose proof (N.div_mod n 10 ltac:(lia)) as DM.
    destruct (N.eqb_spec (n / 10) 0) as [E|E].
    + cbn [parse_digits]. rewrite (is_digit_of_digit _ Hd).
      f_equal. lia.
    + rewrite IH.
      * cbn [parse_digits]. rewrite (is_digit_of_digit _ Hd). f_equal. lia.
      * rewrite Nat2N.inj_succ, N.pow_succ_r' in H.
        apply N.div_lt_upper_bound; lia.
Qed.

Lemma dec_of_N_parse n : parse_digits (dec_of_N n) 0 = Some n.
Proof.
  unfold dec_of_N. rewrite dec_digits_parse; [reflexivity|].
  rewrite Nat2N.inj_succ, N2Nat.id.
  destruct (N.eq_dec n 0) as [->|NZ]; [reflexivity|].
  apply N.log2_spec. lia.
Qed.

(* every byte Itoa writes is a digit, and there is at least one *)
Definition all_digits (s : bytes) : bool := forallb is_digit s.

Lemma dec_digits_all : forall fuel n acc, all_digits acc = true -> all_digits (dec_digits fuel n acc) = true.
Proof.
  induction fuel as [|f IH]; intros n acc H; [exact H|].
  cbn [dec_digits].
  assert (Hd : n mod 10 < 10) by (apply N.mod_lt; lia).
  assert (A : all_digits ((48 + n mod 10) :: acc) = true).
  { cbn [all_digits forallb]. rewrite (is_digit_of_digit _ Hd). exact H. }
  destruct (N.eqb (n / 10) 0); [exact A|apply IH, A].
Qed.

Lemma dec_digits_nonempty : forall fuel n acc, fuel <> O -> dec_digits fuel n acc <> [].
Proof.
  intros [|f] n acc H; [congruence|]. cbn [dec_digits].
  destruct (N.eqb (n / 10) 0); [discriminate|].
  revert n acc. clear H. induction f as [|f IH]; intros n acc; [discriminate|].
  cbn [dec_digits]. destruct (N.eqb (n / 10 / 10) 0); [discriminate|apply IH].
Qed.

Lemma dec_of_N_all n : all_digits (dec_of_N n) = true.
Proof. apply dec_digits_all. reflexivity. Qed.

Lemma dec_of_N_nonempty n : dec_of_N n <> [].
Proof. apply dec_digits_nonempty. discriminate. Qed.

Lemma parse_dec_int_itoa z : parse_dec_int (itoa z) = Some z.
Proof.
  unfold itoa. destruct (Z.ltb_spec z 0) as [Neg|Pos].
  - cbn [parse_dec_int]. rewrite N.eqb_refl.
    pose proof (dec_of_N_nonempty (Z.to_N (- z))) as NE.
    destruct (dec_of_N (Z.to_N (- z))) as [|c r] eqn:E; [congruence|].
    rewrite <- E, dec_of_N_parse. cbn [option_map]. f_equal. lia.
  - pose proof (dec_of_N_nonempty (Z.to_N z)) as NE.
    pose proof (dec_of_N_all (Z.to_N z)) as AD.
    pose proof (dec_of_N_parse (Z.to_N z)) as P.
    destruct (dec_of_N (Z.to_N z)) as [|c r] eqn:E; [congruence|].
    cbn [all_digits forallb] in AD. apply andb_true_iff in AD as [Dc _].
    unfold parse_dec_int.
    assert (N.eqb c 45 = false) by (unfold is_digit in Dc; lia).
    assert (N.eqb c 43 = false) by (unfold is_digit in Dc; lia).
    rewrite H, H0, P. cbn [option_map]. f_equal. lia.
Qed.

(* ---------- TrimSpace leaves Itoa's output alone ---------- *)
Definition no_space (s : bytes) : bool := forallb (fun c => negb (is_space c)) s.

Lemma trim_left_no_space s : no_space s = true -> trim_left s = s.
Proof.
  destruct s as [|c r]; [reflexivity|]. cbn [no_space forallb trim_left]. intro H.
  apply andb_true_iff in H as [H _]. destruct (is_space c); [discriminate|reflexivity].
Qed.

Lemma no_space_rev s : no_space s = true -> no_space (rev s) = true.
Proof.
  unfold no_space. rewrite !forallb_forall. intros H x Hx. apply H. apply in_rev. exact Hx.
Qed.

Lemma trim_space_no_space s : no_space s = true -> trim_space s = s.
Proof.
  intro H. unfold trim_space. rewrite (trim_left_no_space s H).
  rewrite (trim_left_no_space _ (no_space_rev s H)). apply rev_involutive.
Qed.

Lemma digit_no_space c : is_digit c = true -> is_space c = false.
Proof. unfold is_digit, is_space. lia. Qed.

Lemma all_digits_no_space s : all_digits s = true -> no_space s = true.
Proof.
  unfold all_digits, no_space. rewrite !forallb_forall. intros H x Hx.
  rewrite (digit_no_space x (H x Hx)). reflexivity.
Qed.

Lemma itoa_no_space z : no_space (itoa z) = true.
Proof.
  unfold itoa. destruct (Z.ltb z 0).
  - cbn [no_space forallb]. fold (no_space (dec_of_N (Z.to_N (- z)))).
    rewrite (all_digits_no_space _ (dec_of_N_all _)). reflexivity.
  - apply all_digits_no_space, dec_of_N_all.
Qed.

Lemma itoa_nonempty z : itoa z <> [].
Proof. unfold itoa. destruct (Z.ltb z 0); [discriminate|apply dec_of_N_nonempty]. Qed.

(* what the string -> int conversion sees for Itoa's output: exactly z *)
Lemma int_of_string_itoa z :
  int_of_string (itoa z) = (let f := round53 z in if float_overflow f then Err 1 else Ok (go_int_of_float f)).
Proof.
  unfold int_of_string. rewrite (trim_space_no_space _ (itoa_no_space z)).
  assert (D : default_zero (itoa z) = itoa z).
  { pose proof (itoa_nonempty z). destruct (itoa z); [congruence|reflexivity]. }
  rewrite D, parse_dec_int_itoa. reflexivity.
Qed.

(* ---------- rounding to binary64 is the identity up to 2^53 ---------- *)
Lemma round53_exact z : (Z.abs z <= 2 ^ 53)%Z -> round53 z = z.
Proof.
  intro H. unfold round53.
  assert (E : (Z.max 0 (Z.log2 (Z.abs z) - 52) = 0 \/ Z.abs z = 2 ^ 53)%Z).
  { destruct (Z.eq_dec (Z.abs z) (2 ^ 53)) as [->|NE]; [right; reflexivity|left].
    destruct (Z.eq_dec (Z.abs z) 0) as [->|NZ]; [reflexivity|].
    assert (Z.log2 (Z.abs z) < 53)%Z by (apply Z.log2_lt_pow2; lia). lia. }
  destruct E as [E|E].
  - rewrite E. change (2 ^ 0)%Z with 1%Z. rewrite Z.div_1_r, Z.mod_1_r.
    cbn [Z.mul Z.ltb Z.compare]. rewrite Z.mul_1_r. lia.
  - rewrite E. change (Z.log2 (2 ^ 53)) with 53%Z. cbn [Z.sub Z.max Z.compare Z.opp Z.add Z.pos_sub Pos.pred_double Z.succ_double Z.pred_double Z.double].
    change (Z.max 0 1) with 1%Z. change (2 ^ 1)%Z with 2%Z.
    change (2 ^ 53 / 2)%Z with (2 ^ 52)%Z. change (2 ^ 53 mod 2)%Z with 0%Z.
    cbn [Z.mul Z.ltb Z.compare]. change (2 ^ 52 * 2)%Z with (2 ^ 53)%Z. lia.
Qed.

Lemma pow53_small : (2 ^ 53 < 2 ^ 63)%Z /\ (2 ^ 53 < 2 ^ 1024)%Z.
Proof. split; reflexivity. Qed.

Lemma int_roundtrip z : (Z.abs z <= 2 ^ 53)%Z -> int_of_string (string_of_int z) = Ok z.
Proof.
  intro H. unfold string_of_int. rewrite int_of_string_itoa. cbn zeta.
  rewrite (round53_exact z H). destruct pow53_small as [P1 P2].
  assert (O : float_overflow z = false).
  { unfold float_overflow. destruct (Z.leb_spec (2 ^ 1024) (Z.abs z)); [lia|reflexivity]. }
  assert (I : in_int64 z = true).
  { unfold in_int64. apply andb_true_iff; split; [apply Z.leb_le|apply Z.ltb_lt]; lia. }
  rewrite O. unfold go_int_of_float. rewrite I. reflexivity.
Qed.

(* beyond int64 the conversion gives amd64's -2^63, e.g. for 2^63 itself and for 10^19 *)
Lemma int_beyond_int64 :
  int_of_string (string_of_int (2 ^ 63)) = Ok (- 2 ^ 63)%Z /\
  int_of_string (string_of_int (10 ^ 19)) = Ok (- 2 ^ 63)%Z /\
  int_of_string (string_of_int (- 2 ^ 63)) = Ok (- 2 ^ 63)%Z.
Proof. repeat split; vm_compute; reflexivity. Qed.

(* the bound is sharp: the next integer does not survive, in either direction *)
Lemma int_roundtrip_sharp :
  int_of_string (string_of_int (2 ^ 53 + 1)) = Ok (2 ^ 53)%Z /\
  int_of_string (string_of_int (- (2 ^ 53 + 1))) = Ok (- 2 ^ 53)%Z.
Proof. split; vm_compute; reflexivity. Qed.

(* ---------- booleans ---------- *)
Lemma bool_roundtrip b : bool_of_string (string_of_bool b) = b.
Proof. destruct b; reflexivity. Qed.

(* ---------- floats: murex's glue adds no loss ---------- *)
Section Floats.
  Variable format : fbits -> bytes.
  Variable parse : bytes -> option fbits.

  (* strconv's contract: shortest formatting parses back to the same float *)
  Hypothesis parse_format : forall f, is_finite f = true -> parse (format f) = Some f.
  (* FormatFloat writes at least one byte and no white space (it writes digits, '-', '.') *)
  Hypothesis format_shape : forall f, is_finite f = true -> format f <> [] /\ no_space (format f) = true.

  Lemma num_parse_arg_format f : is_finite f = true -> num_parse_arg (format f) = format f.
  Proof.
    intro F. destruct (format_shape f F) as [NE NS]. unfold num_parse_arg.
    rewrite (trim_space_no_space _ NS). destruct (format f); [congruence|reflexivity].
  Qed.

  Lemma float_roundtrip f : is_finite f = true ->
    num_of_string parse (string_of_num format f) = Ok f.
  Proof.
    intro F. unfold num_of_string, string_of_num.
    rewrite (num_parse_arg_format f F), (parse_format f F). reflexivity.
  Qed.
End Floats.

(* ---------- headline: the model's cases satisfy the check's predicate ---------- *)
Lemma oz_eqb_refl z : oz_eqb (Ok z) (Ok z) = true.
Proof. apply Z.eqb_refl. Qed.

Lemma model_int_meets_spec z :
  spec_ok (CInt z (string_of_int z) (int_of_string (string_of_int z))) = true.
Proof.
  cbn [spec_ok]. unfold below_2_53. destruct (Z.ltb_spec (Z.abs z) (2 ^ 53)) as [H|H]; [|reflexivity].
  rewrite int_roundtrip by lia. apply oz_eqb_refl.
Qed.

Lemma model_bool_meets_spec b :
  spec_ok (CBool b (string_of_bool b) (bool_of_string (string_of_bool b))) = true.
Proof. cbn [spec_ok]. rewrite bool_roundtrip. destruct b; reflexivity. Qed.

Lemma model_num_meets_spec format parse :
  (forall f, is_finite f = true -> parse (format f) = Some f) ->
  (forall f, is_finite f = true -> format f <> [] /\ no_space (format f) = true) ->
  forall f, spec_ok (CNum f (string_of_num format f) (num_of_string parse (string_of_num format f))
                          (format f) (num_parse_arg (format f)) (parse (num_parse_arg (format f)))) = true.
Proof.
  intros H1 H2 f. cbn [spec_ok]. destruct (is_finite f) eqn:F; [|reflexivity].
  rewrite (float_roundtrip format parse H1 H2 f F). cbn [on_eqb]. apply N.eqb_refl.
Qed.

(* through murex variables: the string form comes back unchanged (templates T0..T3) *)
Lemma ob_eqb_refl s : ob_eqb (Ok s) (Ok s) = true.
Proof. apply bytes_eqb_refl. Qed.

Lemma model_mx_int_meets_spec t z :
  spec_ok (CMxInt t z (itoa z) (mx_int t (itoa z))) = true.
Proof.
  cbn [spec_ok]. unfold below_2_53. destruct (Z.ltb_spec (Z.abs z) (2 ^ 53)) as [H|H]; [|reflexivity].
  unfold mx_int. fold (string_of_int z). rewrite int_roundtrip by lia.
  destruct t; try apply ob_eqb_refl.
  assert (L : (Z.abs z <=? 2 ^ 53)%Z = true) by lia. rewrite L, round53_exact by lia. apply ob_eqb_refl.
Qed.

Lemma model_mx_bool_meets_spec t b :
  spec_ok (CMxBool t b (string_of_bool b) (mx_bool t (string_of_bool b))) = true.
Proof. cbn [spec_ok]. unfold mx_bool. rewrite bool_roundtrip. apply ob_eqb_refl. Qed.
