(* C01 / C02 — proofs about the model of streams.Stdin (Model/Streams.v).
   Everything is by induction on an arbitrary schedule (list of thread numbers)
   for arbitrary thread programs: no bound on the number of threads, on the
   lengths of programs, payloads or schedules. *)
From Coq Require Import List NArith ZArith Bool Lia.
From Murex Require Import Base.Bytes Gen.StreamsTables Model.Streams.
Import ListNotations.
Open Scope N_scope.

(* ------------------------------------------------------------ lists and lengths *)

Lemma blen_app a b : blen (a ++ b) = blen a + blen b.
Proof. unfold blen. rewrite app_length. lia. Qed.

Lemma blen_nil : blen [] = 0.
Proof. reflexivity. Qed.

Lemma blen_cons x a : blen (x :: a) = 1 + blen a.
Proof. unfold blen. cbn [length]. lia. Qed.

Lemma is_nil_true b : is_nil b = true -> b = [].
Proof. destruct b; [reflexivity|discriminate]. Qed.

Lemma is_nil_false b : is_nil b = false -> b <> [].
Proof. destruct b; [discriminate|intros _ H; discriminate]. Qed.

Lemma splitN_app k l : fst (splitN k l) ++ snd (splitN k l) = l.
Proof.
  revert k; induction l as [|x l IH]; intro k; cbn [splitN]; [reflexivity|].
  destruct (N.eqb k 0); [reflexivity|].
  specialize (IH (N.pred k)). destruct (splitN (N.pred k) l) as [a b].
  cbn [fst snd] in *. rewrite <- app_comm_cons. f_equal. exact IH.
Qed.

Lemma splitN_len k l : blen (fst (splitN k l)) <= k.
Proof.
  revert k; induction l as [|x l IH]; intro k; cbn [splitN].
  - cbn [fst]. rewrite blen_nil. lia.
  - destruct (N.eqb_spec k 0) as [E|E].
    + cbn [fst]. rewrite blen_nil. lia.
    + specialize (IH (N.pred k)). destruct (splitN (N.pred k) l) as [a b].
      cbn [fst] in *. rewrite blen_cons. lia.
Qed.

(* a non-empty buffer and a non-empty destination: at least one byte is taken *)
Lemma splitN_progress k l : k <> 0 -> l <> [] -> fst (splitN k l) <> [].
Proof.
  intros Hk Hl. destruct l as [|x l]; [congruence|]. cbn [splitN].
  destruct (N.eqb_spec k 0) as [E|E]; [congruence|].
  destruct (splitN (N.pred k) l) as [a b]. cbn [fst]. discriminate.
Qed.

(* ------------------------------------------------------------ subsequences *)

Inductive Subseq : bytes -> bytes -> Prop :=
| SubNil l : Subseq [] l
| SubKeep x a b : Subseq a b -> Subseq (x :: a) (x :: b)
| SubSkip x a b : Subseq a b -> Subseq a (x :: b).

Lemma Subseq_refl a : Subseq a a.
Proof. induction a; constructor; assumption. Qed.

Lemma Subseq_tail x a b : Subseq (x :: a) b -> Subseq a b.
Proof.
  intro H. remember (x :: a) as xa eqn:E. revert x a E.
  induction H as [l|y a' b' H IH|y a' b' H IH]; intros x a E.
  - discriminate.
  - inversion E; subst. apply SubSkip. exact H.
  - apply SubSkip. eapply IH. exact E.
Qed.

Lemma Subseq_app_tail a b p : Subseq a b -> Subseq (a ++ p) (b ++ p).
Proof.
  intro H; induction H as [l|x a b H IH|x a b H IH].
  - cbn [app]. induction l as [|y l IHl]; cbn [app]; [apply Subseq_refl|apply SubSkip; exact IHl].
  - cbn [app]. apply SubKeep. exact IH.
  - cbn [app]. apply SubSkip. exact IH.
Qed.

Lemma Subseq_drop_tail a c b : Subseq (a ++ c) b -> Subseq a b.
Proof.
  revert b; induction a as [|x a IH]; intros b H; [constructor|].
  cbn [app] in H. remember (x :: a ++ c) as l eqn:E. revert E.
  induction H as [l'|y a' b' H IH'|y a' b' H IH']; intro E.
  - discriminate.
  - inversion E; subst. apply SubKeep. apply IH. exact H.
  - apply SubSkip. apply IH'. exact E.
Qed.

Lemma is_subseq_complete b : forall a, Subseq a b -> is_subseq a b = true.
Proof.
  induction b as [|y b IH]; intros a H.
  - inversion H; subst. reflexivity.
  - destruct a as [|x a]; [reflexivity|]. cbn [is_subseq].
    inversion H as [|x' a' b' H'|x' a' b' H']; subst.
    + rewrite N.eqb_refl. apply IH. exact H'.
    + destruct (N.eqb x y).
      * apply IH. eapply Subseq_tail. exact H'.
      * apply IH. exact H'.
Qed.

Lemma is_subseq_sound : forall b a, is_subseq a b = true -> Subseq a b.
Proof.
  induction b as [|y b IH]; intros a H.
  - destruct a; [constructor|discriminate].
  - destruct a as [|x a]; [constructor|]. cbn [is_subseq] in H.
    destruct (N.eqb_spec x y) as [E|E].
    + subst. apply SubKeep. apply IH. exact H.
    + apply SubSkip. apply IH. exact H.
Qed.

(* ------------------------------------------------------------ the state invariant *)

(* FIFO exactness: what readers got, followed by what is still buffered, is what
   was appended (unless a Write emptied the buffer after cancellation: then it is
   still a subsequence: nothing duplicated, nothing reordered); counters exact. *)
Definition inv (s : st) : Prop :=
  (g_drop s = false -> g_con s ++ buf s = g_app s) /\
  Subseq (g_con s ++ buf s) (g_app s) /\
  bW s = blen (g_app s) /\
  bR s = blen (g_con s).

Lemma inv_init max : inv (init_st max).
Proof. unfold inv, init_st; cbn. repeat split; try reflexivity. constructor. Qed.

(* what a step did to the ghost history, in terms of what it showed *)
Definition delta (s s' : st) (e : event) : Prop :=
  g_con s' = g_con s ++ ev_delivered e /\
  g_app s' = g_app s ++ ev_appended e /\
  (g_drop s' = true -> g_drop s = true \/ ev_closed e = true).

Definition good (s s' : st) (e : event) : Prop := (inv s -> inv s') /\ delta s s' e.

Lemma good_same s s' e :
  buf s' = buf s -> g_app s' = g_app s -> g_con s' = g_con s -> g_drop s' = g_drop s ->
  bW s' = bW s -> bR s' = bR s ->
  ev_delivered e = [] -> ev_appended e = [] -> good s s' e.
Proof.
  intros Hb Ha Hc Hd Hw Hr E1 E2. unfold good, delta, inv.
  rewrite Hb, Ha, Hc, Hd, Hw, Hr, E1, E2, !app_nil_r. split; [tauto|].
  repeat split; auto.
Qed.

Lemma good_append s p e :
  ev_delivered e = [] -> ev_appended e = p -> good s (do_append s p) e.
Proof.
  intros E1 E2. unfold good, delta, inv, do_append; cbn. rewrite E1, E2, app_nil_r.
  split; [|repeat split; auto].
  intros (H1 & H2 & H3 & H4). repeat split.
  - intro D. rewrite app_assoc, (H1 D). reflexivity.
  - rewrite app_assoc. apply Subseq_app_tail. exact H2.
  - rewrite blen_app, H3. reflexivity.
  - exact H4.
Qed.

Lemma good_drop s e :
  ev_delivered e = [] -> ev_appended e = [] -> ev_closed e = true -> good s (do_drop s) e.
Proof.
  intros E1 E2 E3. unfold good, delta, inv, do_drop; cbn. rewrite E1, E2, !app_nil_r.
  split; [|repeat split; auto].
  intros (H1 & H2 & H3 & H4). repeat split; auto.
  - discriminate.
  - eapply Subseq_drop_tail. exact H2.
Qed.

Lemma good_take s n e :
  ev_delivered e = snd (do_take s n) -> ev_appended e = [] -> good s (fst (do_take s n)) e.
Proof.
  unfold do_take. pose proof (splitN_app n (buf s)) as S.
  destruct (splitN n (buf s)) as [a b]. cbn [fst snd] in *.
  intros E1 E2. unfold good, delta, inv; cbn. rewrite E1, E2, app_nil_r.
  split; [|repeat split; auto].
  intros (H1 & H2 & H3 & H4). rewrite <- app_assoc, S. repeat split; auto.
  rewrite blen_app, H4. reflexivity.
Qed.

Lemma good_take_all s e :
  ev_delivered e = buf s -> ev_appended e = [] -> good s (fst (do_take_all s)) e.
Proof.
  intros E1 E2. unfold good, delta, inv, do_take_all; cbn. rewrite E1, E2, !app_nil_r.
  split; [|repeat split; auto].
  intros (H1 & H2 & H3 & H4). repeat split; auto.
  rewrite blen_app, H4. reflexivity.
Qed.

Ltac same := apply good_same; reflexivity.

Lemma step_pc_good s c :
  let '(s', _, e) := step_pc s c in good s s' e.
Proof.
  destruct c; cbn [step_pc].
  - same.
  - same.
  - same.
  - same.
  - same.
  - destruct (is_nil (sdt s)); same.
  - destruct (canc s); same.
  - destruct ((blen (buf s) <? smax s) || (smax s =? 0)); same.
  - destruct k; cbn [after_app].
    + apply good_append; [reflexivity|]. cbn. reflexivity.
    + apply good_append; reflexivity.
  - destruct k; cbn [after_drop]; apply good_drop; reflexivity.
  - destruct (canc s); same.
  - destruct (is_nil (buf s)); [destruct (closed s)|]; same.
  - pose proof (good_take s n (EvRead n (snd (do_take s n)) e_nil) eq_refl eq_refl) as G.
    destruct (do_take s n) as [s' a]. exact G.
  - same.
  - destruct (canc s); same.
  - destruct (closed s); same.
  - pose proof (good_take_all s (EvReadAll (buf s)) eq_refl eq_refl) as G.
    unfold do_take_all in *. cbn [fst] in G. exact G.
  - destruct (canc s); same.
  - destruct (is_nil (buf s)); [destruct (closed s)|]; same.
  - pose proof (good_take s writeto_chunk (EvChunk (snd (do_take s writeto_chunk))) eq_refl eq_refl) as G.
    destruct (do_take s writeto_chunk) as [s' a]. exact G.
  - same.
  - destruct (canc s); [same|]. destruct (is_nil rest); [same|].
    destruct (splitN readfrom_chunk rest). same.
  - destruct (canc s); same.
  - destruct (negb (is_nil (sdt s))); [same|]. destruct (closed s); same.
Qed.

Lemma begin_op_quiet o :
  let '(_, e) := begin_op o in ev_delivered e = [] /\ ev_appended e = [].
Proof.
  destruct o; cbn [begin_op]; try (split; reflexivity).
  - destruct p; cbn; split; reflexivity.
  - destruct (null_or_empty t); split; reflexivity.
Qed.

Lemma step_thread_good s t :
  let '(s', _, e) := step_thread s t in good s s' e.
Proof.
  destruct t as [prog c]. unfold step_thread.
  destruct c; try (pose proof (step_pc_good s) as G;
    match goal with |- context [step_pc s ?c] => specialize (G c); destruct (step_pc s c) as [[s' c'] e]; exact G end).
  destruct prog as [|o rest]; [same|].
  pose proof (begin_op_quiet o) as Q. destruct (begin_op o) as [c' e]. destruct Q as [Q1 Q2].
  apply good_same; auto.
Qed.

Lemma sys_step_good y i :
  let '(y', o) := sys_step y i in good (sh y) (sh y') (os_ev o) /\ os_sn o = snap_of (sh y').
Proof.
  unfold sys_step. destruct (nth_thread i (thr y)) as [t|].
  - pose proof (step_thread_good (sh y) t) as G.
    destruct (step_thread (sh y) t) as [[s' t'] e]. cbn. split; [exact G|reflexivity].
  - cbn. split; [same|reflexivity].
Qed.

(* ------------------------------------------------------------ whole schedules *)

Lemma exec_inv sched : forall y os yf,
  exec y sched = (os, yf) -> inv (sh y) ->
  inv (sh yf) /\
  g_con (sh yf) = g_con (sh y) ++ delivered os /\
  g_app (sh yf) = g_app (sh y) ++ appended os /\
  (g_drop (sh yf) = true -> g_drop (sh y) = true \/ closed_seen os = true).
Proof.
  induction sched as [|i rest IH]; intros y os yf E I; cbn [exec] in E.
  - inversion E; subst. cbn [delivered appended closed_seen]. rewrite !app_nil_r. tauto.
  - pose proof (sys_step_good y i) as G. destruct (sys_step y i) as [y' o].
    destruct (exec y' rest) as [os' yf'] eqn:E'. inversion E; subst. clear E.
    destruct G as [[GI (D1 & D2 & D3)] _].
    destruct (IH _ _ _ E' (GI I)) as (J & C1 & C2 & C3).
    cbn [delivered appended closed_seen]. split; [exact J|]. split; [|split].
    + rewrite C1, D1, app_assoc. reflexivity.
    + rewrite C2, D2, app_assoc. reflexivity.
    + intro H. destruct (C3 H) as [H'|H'].
      * destruct (D3 H') as [H''|H'']; [left; exact H''|right; rewrite H''; reflexivity].
      * right. rewrite H'. apply orb_true_r.
Qed.

(* Theorem 1 (FIFO exactness), for every program set, buffer limit and schedule. *)
Lemma fifo_exact max progs sched :
  let o := run_ctl max progs sched in
  (closed_seen (co_steps o) = false -> delivered (co_steps o) ++ co_buf o = appended (co_steps o)) /\
  Subseq (delivered (co_steps o) ++ co_buf o) (appended (co_steps o)).
Proof.
  unfold run_ctl. destruct (exec (init_sys max progs) sched) as [os yf] eqn:E.
  cbn [co_steps co_buf].
  destruct (exec_inv _ _ _ _ E (inv_init max)) as ((I1 & I2 & _) & C1 & C2 & C3).
  cbn in C1, C2, C3. rewrite C1, C2 in *. split; [|exact I2].
  intro H. apply I1. destruct (g_drop (sh yf)) eqn:D; [|reflexivity].
  destruct (C3 eq_refl) as [X|X]; [discriminate|congruence].
Qed.

(* Theorem 4 (counters): Stats = (bytes appended, bytes handed out), always. *)
Lemma counters_exact max progs sched os yf :
  exec (init_sys max progs) sched = (os, yf) ->
  bW (sh yf) = blen (appended os) /\ bR (sh yf) = blen (delivered os).
Proof.
  intro E. destruct (exec_inv _ _ _ _ E (inv_init max)) as ((_ & _ & I3 & I4) & C1 & C2 & _).
  cbn in C1, C2. rewrite I3, I4, C1, C2. split; reflexivity.
Qed.
