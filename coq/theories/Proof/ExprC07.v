(* C07 — truthiness table, uniformity of truthiness, and the logical operators. *)
From Coq Require Import List NArith ZArith Bool Lia Arith Floats.
From Murex Require Import Base.Outcome Base.Bytes Model.Expr Model.ExprSpec Check.C06 Check.C07
     Gen.Truthy Proof.ExprClimb Proof.Expr Proof.ExprC06.
Import ListNotations.

(* ---- the word list of IsTrueString, as regenerated from the Go source, is the property's ---- *)

Definition same_words (a b : list bytes) : bool :=
  forallb (fun w => existsb (bytes_eqb w) b) a && forallb (fun w => existsb (bytes_eqb w) a) b.

Lemma truthy_table_now : same_words false_words spec_false_words = true.
Proof. vm_compute. reflexivity. Qed.

Lemma existsb_bytes_In w l : existsb (bytes_eqb w) l = true <-> In w l.
Proof.
  rewrite existsb_exists. split.
  - intros (x & Hx & He). apply bytes_eqb_eq in He. subst. exact Hx.
  - intro H. exists w. split; [exact H|apply bytes_eqb_refl].
Qed.

Lemma same_words_existsb a b :
  same_words a b = true -> forall w, existsb (bytes_eqb w) a = existsb (bytes_eqb w) b.
Proof.
  unfold same_words. intro H. apply andb_true_iff in H as [Hab Hba].
  rewrite forallb_forall in Hab, Hba. intro w.
  apply eq_true_iff_eq. rewrite !existsb_bytes_In. split; intro Hin.
  - apply existsb_bytes_In. apply Hab. exact Hin.
  - apply existsb_bytes_In. apply Hba. exact Hin.
Qed.

(* IsTrueString(s, 0) is the property's truthiness of a string *)
Lemma is_true_string_spec s : is_true_string s 0 = spec_truthy_str s.
Proof.
  unfold is_true_string, spec_truthy_str. cbn [Z.ltb Z.compare].
  destruct (map lower (trim s)) as [|c w]; [reflexivity|].
  rewrite (same_words_existsb _ _ truthy_table_now). reflexivity.
Qed.

(* a non-zero exit number is false, whatever was printed *)
Lemma nonzero_exit_false s n : (0 < n)%Z -> is_true_string s n = false.
Proof. intro H. unfold is_true_string. apply Z.ltb_lt in H. rewrite H. reflexivity. Qed.

(* ---- the truthiness used by && || if ! is the property's, for every value ---- *)

Lemma truthy_logic_spec v : truthy_logic v = spec_truthy v.
Proof.
  destruct v as [f|b|s|]; cbn [truthy_logic spec_truthy].
  - destruct (is_pos_zero f); [rewrite is_true_string_spec; reflexivity|reflexivity].
  - rewrite is_true_string_spec. destruct b; reflexivity.
  - apply is_true_string_spec.
  - rewrite is_true_string_spec. reflexivity.
Qed.

(* ---- ?: agrees too, except on the number -0 ---- *)

Lemma Prim2SF_zero : Prim2SF 0%float = S754_zero false.
Proof. vm_compute. reflexivity. Qed.

Lemma eqb_zero_classify f :
  match PrimFloat.classify f with NZero => False | _ => True end ->
  PrimFloat.eqb f 0 = is_pos_zero f.
Proof.
  unfold is_pos_zero. rewrite FloatAxioms.eqb_spec, FloatAxioms.classify_spec, Prim2SF_zero.
  destruct (Prim2SF f) as [b|b| |b m e]; cbn.
  - destruct b; [intros []|reflexivity].
  - destruct b; reflexivity.
  - reflexivity.
  - intros _. destruct b;
      match goal with |- context [if ?c then _ else _] => destruct c end; reflexivity.
Qed.

Lemma truthy_elvis_spec v : is_neg_zero v = false -> truthy_elvis v = spec_truthy v.
Proof.
  destruct v as [f|b|s|]; cbn [truthy_elvis spec_truthy is_neg_zero]; intro H.
  - rewrite eqb_zero_classify; [reflexivity|]. destruct (PrimFloat.classify f); try exact I. discriminate.
  - reflexivity.
  - apply is_true_string_spec.
  - reflexivity.
Qed.

(* ---- the four operators, for all operand values ---- *)

Theorem and_spec orc a b : apply_go orc And a b = Some (VBool (spec_truthy a && spec_truthy b)).
Proof. cbn [apply_go]. rewrite !truthy_logic_spec. reflexivity. Qed.

Theorem or_spec orc a b : apply_go orc Or a b = Some (VBool (spec_truthy a || spec_truthy b)).
Proof. cbn [apply_go]. rewrite !truthy_logic_spec. reflexivity. Qed.

Theorem elvis_spec orc a b :
  is_neg_zero a = false -> apply_go orc Elvis a b = Some (if spec_truthy a then a else b).
Proof. intro H. cbn [apply_go]. rewrite (truthy_elvis_spec a H). reflexivity. Qed.

Theorem nullco_spec orc a b :
  apply_go orc NullCo a b = Some (match a with VNull => b | _ => a end).
Proof. reflexivity. Qed.

(* ---- the whole expression language ---- *)

Lemma apply_go_extends07 orc o a b v :
  (o = Elvis -> is_neg_zero a = false) ->
  spec_apply07 orc o a b = Some v -> apply_go orc o a b = Some v.
Proof.
  intros Hz H. destruct o; cbn [spec_apply07] in H;
    try (apply apply_go_extends; exact H).
  - rewrite and_spec. exact H.
  - rewrite or_spec. exact H.
  - rewrite elvis_spec by (apply Hz; reflexivity). exact H.
  - rewrite nullco_spec. exact H.
Qed.

Lemma eval_tree_extends07 orc t : forall v,
  negzero_elvis orc t = false ->
  eval_tree (spec_apply07 orc) t = Some v -> eval_tree (apply_go orc) t = Some v.
Proof.
  induction t as [w|o l IHl r IHr|t IH]; intros v Hz H; cbn [eval_tree negzero_elvis] in *.
  - exact H.
  - apply orb_false_iff in Hz as [Hz Hz3]. apply orb_false_iff in Hz as [Hz1 Hz2].
    destruct (eval_tree (spec_apply07 orc) l) as [a|] eqn:El; [|discriminate].
    destruct (eval_tree (spec_apply07 orc) r) as [b|] eqn:Er; [|discriminate].
    rewrite (IHl a Hz1 eq_refl), (IHr b Hz2 eq_refl). cbn [lift_ap] in *.
    apply apply_go_extends07; [|exact H].
    intro Ho. subst o. exact Hz3.
  - unfold group_val in *.
    destruct (eval_tree (spec_apply07 orc) t) as [w|] eqn:E; [|discriminate].
    rewrite (IH w Hz eq_refl). exact H.
Qed.

Lemma negzero_elvis_top orc t v :
  negzero_elvis orc t = false ->
  eval_top (spec_apply07 orc) t = Some v -> eval_top (apply_go orc) t = Some v.
Proof.
  unfold eval_top, group_val. intros Hz H.
  destruct (eval_tree (spec_apply07 orc) t) as [w|] eqn:E; [|discriminate].
  rewrite (eval_tree_extends07 orc t w Hz E). exact H.
Qed.

(* HEADLINE for C07 (expressions): outside known finding 1, the model returns
   the value the property prescribes for every expression over && || ?: ??,
   comparisons and arithmetic, any length and nesting. *)
Theorem model_meets_spec07 orc ts :
  classify (CaseExpr ts orc (obs_of (eval_expr orc ts))) = 0%N ->
  spec_ok (CaseExpr ts orc (obs_of (eval_expr orc ts))) = true.
Proof.
  cbn [classify spec_ok]. unfold reference07.
  destruct (parse_expr ts) as [t|] eqn:Ep; [|reflexivity].
  destruct (negzero_elvis orc t) eqn:Hz; [discriminate|]. intros _.
  destruct (eval_top (spec_apply07 orc) t) as [v|] eqn:E; [|reflexivity].
  rewrite (eval_expr_eq_tree orc ts t Ep). rewrite (negzero_elvis_top orc t v Hz E).
  apply obs_eqb_refl.
Qed.

(* HEADLINE for C07 (uniformity): the five places that test a value agree with
   the property's truthiness, for every value except the number -0 *)
Definition model_truth (v : value) : truth_obs :=
  {| t_ok := true; t_and := truthy_logic v; t_or := truthy_logic v;
     t_elvis := truthy_elvis v; t_if := truthy_logic v; t_not := truthy_logic v |}.

Theorem truthy_uniform v :
  is_neg_zero v = false -> spec_ok (CaseTruth v (model_truth v)) = true.
Proof.
  intro H. cbn [spec_ok]. unfold truth_all, model_truth. cbn.
  rewrite (truthy_elvis_spec v H), truthy_logic_spec.
  destruct (spec_truthy v); reflexivity.
Qed.

Lemma model_truth_agrees v : agree (CaseTruth v (model_truth v)) = true.
Proof.
  cbn. destruct (truthy_logic v), (truthy_elvis v); reflexivity.
Qed.

(* known finding 1 is real in the model: -0 is true for && but false for ?: *)
Theorem elvis_negzero_refuted :
  exists v, spec_ok (CaseTruth v (model_truth v)) = false.
Proof. exists (VNum neg_zero). vm_compute. reflexivity. Qed.

(* ---- statement-level builtins ---- *)

Lemma is_true_spec c : (0 <= cd_exit c)%Z -> is_true c = spec_true c.
Proof.
  intro H. unfold is_true, spec_true.
  destruct (0 <? cd_exit c)%Z eqn:E.
  - unfold is_true_string. rewrite E. reflexivity.
  - assert (cd_exit c = 0%Z) by (apply Z.ltb_ge in E; lia).
    rewrite H0. apply is_true_string_spec.
Qed.

Lemma decide_pos c neg : (0 <= cd_exit c)%Z ->
  ((is_true c && negb neg) || (negb (is_true c) && neg)) = holds neg c.
Proof. intro H. rewrite (is_true_spec c H). unfold holds. destruct (spec_true c), neg; reflexivity. Qed.

Lemma decide_neg c neg : (0 <= cd_exit c)%Z ->
  ((negb (is_true c) && negb neg) || (is_true c && neg)) = negb (holds neg c).
Proof. intro H. rewrite (is_true_spec c H). unfold holds. destruct (spec_true c), neg; reflexivity. Qed.

Lemma decide_while c neg : (0 <= cd_exit c)%Z ->
  ((negb neg && negb (is_true c)) || (neg && is_true c)) = negb (holds neg c).
Proof. intro H. rewrite (is_true_spec c H). unfold holds. destruct (spec_true c), neg; reflexivity. Qed.

Lemma in_domain_cons c cs : in_domain (c :: cs) = true -> (0 <= cd_exit c)%Z /\ in_domain cs = true.
Proof. unfold in_domain. cbn [forallb]. intro H. apply andb_true_iff in H as [H1 H2]. apply Z.leb_le in H1. tauto. Qed.

Lemma b_and_spec neg : forall cs n, in_domain cs = true ->
  b_and neg cs n =
  (if forallb (holds neg) cs then ((-1)%Z, (n + N.of_nat (length cs))%N)
   else (1%Z, (n + N.succ (prefix_len (holds neg) cs))%N)).
Proof.
  induction cs as [|c cs IH]; intros n Hd.
  - cbn. rewrite N.add_0_r. reflexivity.
  - apply in_domain_cons in Hd as [Hc Hd]. cbn [b_and forallb prefix_len length].
    rewrite (decide_neg c neg Hc). destruct (holds neg c); cbn [negb andb].
    + rewrite (IH (N.succ n) Hd). destruct (forallb (holds neg) cs); f_equal; lia.
    + f_equal. lia.
Qed.

Lemma b_or_spec neg : forall cs n, in_domain cs = true ->
  b_or neg cs n =
  (if existsb (holds neg) cs
   then ((-1)%Z, (n + N.succ (prefix_len (fun c => negb (holds neg c)) cs))%N)
   else (1%Z, (n + N.of_nat (length cs))%N)).
Proof.
  induction cs as [|c cs IH]; intros n Hd.
  - cbn. rewrite N.add_0_r. reflexivity.
  - apply in_domain_cons in Hd as [Hc Hd]. cbn [b_or existsb prefix_len length].
    rewrite (decide_pos c neg Hc). destruct (holds neg c); cbn [negb orb].
    + f_equal. lia.
    + rewrite (IH (N.succ n) Hd). destruct (existsb (holds neg) cs); f_equal; lia.
Qed.

Lemma b_while_spec neg : forall cs, in_domain cs = true ->
  b_while neg cs =
  (if forallb (holds neg) cs then None else Some (prefix_len (holds neg) cs)).
Proof.
  induction cs as [|c cs IH]; intro Hd; [reflexivity|].
  apply in_domain_cons in Hd as [Hc Hd]. cbn [b_while forallb prefix_len].
  rewrite (decide_while c neg Hc). destruct (holds neg c); cbn [negb andb]; [|reflexivity].
  rewrite (IH Hd). destruct (forallb (holds neg) cs); reflexivity.
Qed.

(* HEADLINE: if, !if, and, or, !and, !or, while, !while and ! each decide by the
   one truthiness of (stdout, exit number) of their condition block — for every
   list of condition results with non-negative exit numbers. *)
Theorem truthy_uniform_builtins b neg cs :
  in_domain cs = true -> run_builtin b neg cs = spec_builtin b neg cs.
Proof.
  intro Hd. destruct b; cbn [run_builtin spec_builtin].
  - destruct cs as [|c [|c2 cs]]; try reflexivity.
    apply in_domain_cons in Hd as [Hc _]. unfold b_if. rewrite (decide_pos c neg Hc). reflexivity.
  - rewrite (b_and_spec neg cs 0 Hd). destruct (forallb (holds neg) cs); reflexivity.
  - rewrite (b_or_spec neg cs 0 Hd). destruct (existsb (holds neg) cs); reflexivity.
  - rewrite (b_while_spec neg cs Hd). destruct (forallb (holds neg) cs); reflexivity.
  - destruct cs as [|c [|c2 cs]]; try reflexivity.
    apply in_domain_cons in Hd as [Hc _]. unfold b_not. rewrite (is_true_spec c Hc). reflexivity.
Qed.

Lemma bobs_eqb_refl o : bobs_eqb o o = true.
Proof.
  unfold bobs_eqb. rewrite !Bool.eqb_reflx, Z.eqb_refl, N.eqb_refl. reflexivity.
Qed.

Theorem builtins_meet_spec b neg cs :
  spec_ok (CaseBuiltin b neg cs (run_builtin b neg cs)) = true.
Proof.
  cbn [spec_ok]. destruct (in_domain cs) eqn:Hd; [|reflexivity].
  rewrite (truthy_uniform_builtins b neg cs Hd). apply bobs_eqb_refl.
Qed.

(* a positive exit number makes the condition false whatever it printed; a
   negative one (and/or's success marker) makes it true *)
Lemma positive_exit_false c : (0 < cd_exit c)%Z -> is_true c = false.
Proof. intro H. apply nonzero_exit_false. exact H. Qed.

Lemma negative_exit_true c : (cd_exit c < 0)%Z -> is_true c = true.
Proof.
  intro H. unfold is_true, is_true_string.
  assert (E1 : (0 <? cd_exit c)%Z = false) by (apply Z.ltb_ge; lia).
  assert (E2 : (cd_exit c <? 0)%Z = true) by (apply Z.ltb_lt; lia).
  rewrite E1, E2. reflexivity.
Qed.
