(* C01 — the model meets the property predicate of Check/C01.v on every
   controlled run; end-of-stream soundness; writer progress (enabledness). *)
From Coq Require Import List NArith ZArith Bool Lia.
From Murex Require Import Base.Bytes Gen.StreamsTables Model.Streams Check.C01 Proof.Streams.
Import ListNotations.
Open Scope N_scope.

(* ------------------------------------------------------------ counters after every step *)

Lemma exec_counters sched : forall y os yf cl,
  exec y sched = (os, yf) -> inv (sh y) -> (cl = false -> g_drop (sh y) = false) ->
  counters_ok (bW (sh y)) (bR (sh y)) cl os = true.
Proof.
  induction sched as [|i rest IH]; intros y os yf cl E I CL; cbn [exec] in E.
  - inversion E; subst. reflexivity.
  - pose proof (sys_step_good y i) as G. destruct (sys_step y i) as [y' o].
    destruct (exec y' rest) as [os' yf'] eqn:E'. inversion E; subst. clear E.
    destruct G as [[GI (D1 & D2 & D3)] SN].
    pose proof (GI I) as I'.
    assert (W : bW (sh y) + blen (ev_appended (os_ev o)) = bW (sh y')).
    { destruct I as (_ & _ & I3 & _). destruct I' as (_ & _ & I3' & _).
      rewrite I3, I3', D2, blen_app. reflexivity. }
    assert (R : bR (sh y) + blen (ev_delivered (os_ev o)) = bR (sh y')).
    { destruct I as (_ & _ & _ & I4). destruct I' as (_ & _ & _ & I4').
      rewrite I4, I4', D1, blen_app. reflexivity. }
    assert (CL' : (cl || ev_closed (os_ev o)) = false -> g_drop (sh y') = false).
    { intro H. apply orb_false_elim in H as [H1 H2].
      destruct (g_drop (sh y')) eqn:D; [|reflexivity].
      destruct (D3 eq_refl) as [X|X]; [rewrite (CL H1) in X; discriminate|congruence]. }
    cbn [counters_ok]. rewrite W, R, SN. cbn [sn_w sn_r sn_len snap_of].
    rewrite !N.eqb_refl. cbn [andb].
    rewrite (IH _ _ _ _ E' I' CL'). rewrite andb_true_r.
    destruct (cl || ev_closed (os_ev o)) eqn:C; [reflexivity|]. cbn [orb].
    apply N.eqb_eq. destruct I' as (I1 & _ & I3 & I4).
    rewrite I3, I4, <- (I1 (CL' eq_refl)), blen_app. lia.
Qed.

(* ------------------------------------------------------------ every single step is well formed *)

Lemma drained_canc s : canc s = true -> drained (snap_of s) = true.
Proof. intro H. unfold drained, snap_of; cbn. rewrite H. apply orb_true_r. Qed.

Lemma drained_empty s : is_nil (buf s) = true -> closed s = true -> drained (snap_of s) = true.
Proof.
  intros H1 H2. unfold drained, snap_of; cbn. apply is_nil_true in H1. rewrite H1.
  unfold closed in H2. rewrite H2. reflexivity.
Qed.

Lemma step_pc_ok s c pt :
  let '(s', _, e) := step_pc s c in step_ok (mkOStep pt e (snap_of s')) = true.
Proof.
  destruct c; cbn [step_pc].
  - (* PIdle *) reflexivity.
  - (* POpen *) reflexivity.
  - (* PClose *) reflexivity.
  - (* PForce *) reflexivity.
  - (* PStats *) unfold step_ok; cbn. rewrite !N.eqb_refl. reflexivity.
  - (* PSetDT *) destruct (is_nil (sdt s)); reflexivity.
  - (* PWSel *) destruct (canc s); reflexivity.
  - (* PWChk *) destruct ((blen (buf s) <? smax s) || (smax s =? 0)); reflexivity.
  - (* PWApp *) destruct k; cbn [after_app]; [|reflexivity].
    unfold step_ok; cbn. apply N.eqb_refl.
  - (* PWDrop *) destruct k; cbn [after_drop]; reflexivity.
  - (* PRSel *) destruct (canc s) eqn:C; [|reflexivity].
    unfold step_ok; cbn [os_ev os_sn]. cbn [N.eqb e_eof Pos.eqb is_nil andb]. apply drained_canc. exact C.
  - (* PRChk *) destruct (is_nil (buf s)) eqn:B; [|reflexivity]. destruct (closed s) eqn:D; [|reflexivity].
    unfold step_ok; cbn [os_ev os_sn]. cbn [N.eqb e_eof Pos.eqb is_nil andb]. apply drained_empty; assumption.
  - (* PRTake *) unfold do_take. pose proof (splitN_len n (buf s)) as L. destruct (splitN n (buf s)) as [a b].
    cbn [fst] in L. unfold step_ok; cbn [os_ev]. cbn [N.eqb e_eof e_nil Pos.eqb andb].
    apply N.leb_le. exact L.
  - (* PAMax *) reflexivity.
  - (* PASel *) destruct (canc s); reflexivity.
  - (* PAPoll *) destruct (closed s); reflexivity.
  - (* PATake *) reflexivity.
  - (* PTSel *) destruct (canc s) eqn:C; [|reflexivity].
    unfold step_ok; cbn [os_ev os_sn]. apply drained_canc. exact C.
  - (* PTChk *) destruct (is_nil (buf s)) eqn:B; [|reflexivity]. destruct (closed s) eqn:D; [|reflexivity].
    unfold step_ok; cbn [os_ev os_sn]. apply drained_empty; assumption.
  - (* PTTake *) unfold do_take. destruct (splitN writeto_chunk (buf s)) as [a b]. reflexivity.
  - (* PFMax *) reflexivity.
  - (* PFSel *) destruct (canc s); [reflexivity|]. destruct (is_nil rest); [reflexivity|].
    destruct (splitN readfrom_chunk rest). reflexivity.
  - (* PGSel *) destruct (canc s); reflexivity.
  - (* PGPoll *) destruct (negb (is_nil (sdt s))); [reflexivity|]. destruct (closed s); reflexivity.
Qed.

Lemma step_thread_ok s t pt :
  let '(s', _, e) := step_thread s t in step_ok (mkOStep pt e (snap_of s')) = true.
Proof.
  destruct t as [prog c]. unfold step_thread.
  destruct c; try (pose proof (step_pc_ok s) as G;
    match goal with |- context [step_pc s ?c] => specialize (G c pt); destruct (step_pc s c) as [[s' c'] e]; exact G end).
  destruct prog as [|o rest]; [reflexivity|].
  destruct o; cbn [begin_op]; try reflexivity.
  - destruct p; reflexivity.
  - destruct (null_or_empty t); reflexivity.
Qed.

Lemma exec_steps_ok sched : forall y os yf,
  exec y sched = (os, yf) -> forallb step_ok os = true.
Proof.
  induction sched as [|i rest IH]; intros y os yf E; cbn [exec] in E.
  - inversion E; reflexivity.
  - destruct (sys_step y i) as [y' o] eqn:S. destruct (exec y' rest) as [os' yf'] eqn:E'.
    inversion E; subst. clear E. cbn [forallb]. rewrite (IH _ _ _ E'), andb_true_r.
    unfold sys_step in S. destruct (nth_thread i (thr y)) as [t|].
    + pose proof (step_thread_ok (sh y) t (pc_code (snd t))) as G.
      destruct (step_thread (sh y) t) as [[s' t'] e]. inversion S; subst. exact G.
    + inversion S; subst. reflexivity.
Qed.

(* ------------------------------------------------------------ progress of a thread that saw its condition *)

Ltac no_exp :=
  let k := fresh "k" in let H := fresh "H" in
  intros k H; unfold enabled_next in H; cbn [os_pt pc_code N.eqb Pos.eqb] in H; discriminate.

Ltac split_ifs :=
  repeat match goal with
         | |- context [match ?k with KTop => _ | KRF _ _ => _ end] => destruct k
         | |- context [let '(_, _) := splitN ?a ?b in _] => destruct (splitN a b)
         | |- context [if ?b then _ else _] => destruct b eqn:?
         end.

Lemma step_pc_enabled s c :
  let '(s', c', e) := step_pc s c in
  forall k, enabled_next (mkOStep (pc_code c) e (snap_of s')) = Some k -> pc_code c' = k.
Proof.
  destruct c; cbn [step_pc]; unfold after_app, after_drop, do_take, do_take_all.
  - (* PIdle *) no_exp.
  - (* POpen *) no_exp.
  - (* PClose *) no_exp.
  - (* PForce *) no_exp.
  - (* PStats *) no_exp.
  - (* PSetDT *) split_ifs; no_exp.
  - (* PWSel *) split_ifs; no_exp.
  - (* PWChk *) destruct ((blen (buf s) <? smax s) || (smax s =? 0)) eqn:R; intros kk H;
      unfold enabled_next in H; cbn [os_pt os_sn snap_of sn_max sn_len pc_code N.eqb Pos.eqb] in H;
      rewrite orb_comm, R in H; [inversion H; reflexivity|discriminate].
  - (* PWApp *) split_ifs; no_exp.
  - (* PWDrop *) split_ifs; no_exp.
  - (* PRSel *) split_ifs; no_exp.
  - (* PRChk *) destruct (is_nil (buf s)) eqn:B.
    + apply is_nil_true in B. destruct (closed s); intros k H; unfold enabled_next in H;
        cbn [os_pt os_sn snap_of sn_len pc_code N.eqb Pos.eqb] in H; rewrite B in H; cbn in H; discriminate.
    + intros k H; unfold enabled_next in H; cbn [os_pt os_sn snap_of sn_len pc_code N.eqb Pos.eqb] in H.
      destruct (N.eqb (blen (buf s)) 0); inversion H; reflexivity.
  - (* PRTake *) split_ifs; no_exp.
  - (* PAMax *) no_exp.
  - (* PASel *) split_ifs; no_exp.
  - (* PAPoll *) unfold closed. destruct (deps s <? 1)%Z eqn:D; intros k H; unfold enabled_next in H;
      cbn [os_pt os_sn snap_of sn_deps pc_code N.eqb Pos.eqb] in H; rewrite D in H;
      [inversion H; reflexivity|discriminate].
  - (* PATake *) no_exp.
  - (* PTSel *) split_ifs; no_exp.
  - (* PTChk *) destruct (is_nil (buf s)) eqn:B.
    + apply is_nil_true in B. destruct (closed s); intros k H; unfold enabled_next in H;
        cbn [os_pt os_sn snap_of sn_len pc_code N.eqb Pos.eqb] in H; rewrite B in H; cbn in H; discriminate.
    + intros k H; unfold enabled_next in H; cbn [os_pt os_sn snap_of sn_len pc_code N.eqb Pos.eqb] in H.
      destruct (N.eqb (blen (buf s)) 0); inversion H; reflexivity.
  - (* PTTake *) split_ifs; no_exp.
  - (* PFMax *) no_exp.
  - (* PFSel *) split_ifs; no_exp.
  - (* PGSel *) split_ifs; no_exp.
  - (* PGPoll *) split_ifs; no_exp.
Qed.

Lemma step_thread_enabled s t :
  let '(s', t', e) := step_thread s t in
  forall k, enabled_next (mkOStep (pc_code (snd t)) e (snap_of s')) = Some k -> pc_code (snd t') = k.
Proof.
  destruct t as [prog c]. unfold step_thread. cbn [snd].
  destruct c; try (pose proof (step_pc_enabled s) as G;
    match goal with |- context [step_pc s ?c] => specialize (G c); destruct (step_pc s c) as [[s' c'] e]; exact G end).
  destruct prog as [|o r]; [no_exp|]. destruct (begin_op o). no_exp.
Qed.

Lemma nth_set_same l : forall i t t', nth_thread i l = Some t -> nth_thread i (set_thread i t' l) = Some t'.
Proof.
  induction l as [|x l IH]; intros i t t' H; [destruct i; discriminate|].
  destruct i; cbn [nth_thread set_thread] in *; [reflexivity|]. eapply IH. exact H.
Qed.

Lemma nth_set_other l : forall i j t', i <> j -> nth_thread j (set_thread i t' l) = nth_thread j l.
Proof.
  induction l as [|x l IH]; intros i j t' H; [destruct i; reflexivity|].
  destruct i, j; cbn [nth_thread set_thread]; try reflexivity; [congruence|]. apply IH. congruence.
Qed.

(* every expectation recorded so far is the yield point the thread is parked at *)
Definition exp_inv (exp : list (nat * option N)) (l : list thread) : Prop :=
  forall i k, lookup_exp i exp = Some k -> exists t, nth_thread i l = Some t /\ pc_code (snd t) = k.

Lemma exec_progress sched : forall y os yf exp,
  exec y sched = (os, yf) -> exp_inv exp (thr y) -> progress_ok exp sched os = true.
Proof.
  induction sched as [|i rest IH]; intros y os yf exp E X; cbn [exec] in E.
  - inversion E; reflexivity.
  - destruct (sys_step y i) as [y' o] eqn:S. destruct (exec y' rest) as [os' yf'] eqn:E'.
    inversion E; subst. clear E. cbn [progress_ok].
    unfold sys_step in S. destruct (nth_thread i (thr y)) as [t|] eqn:N.
    + pose proof (step_thread_enabled (sh y) t) as G.
      destruct (step_thread (sh y) t) as [[s' t'] e]. inversion S; subst. clear S.
      apply andb_true_iff; split.
      * destruct (lookup_exp i exp) as [k|] eqn:L; [|reflexivity].
        destruct (X _ _ L) as (t0 & N0 & K). rewrite N in N0. inversion N0; subst.
        cbn [os_pt]. apply N.eqb_refl.
      * apply (IH _ _ _ _ E'). cbn [thr]. intros j k L. cbn [lookup_exp] in L.
        destruct (Nat.eqb_spec j i) as [J|J].
        -- subst j. exists t'. split; [eapply nth_set_same; exact N|]. apply G. exact L.
        -- rewrite nth_set_other by congruence. apply X. exact L.
    + inversion S; subst. clear S. apply andb_true_iff; split.
      * destruct (lookup_exp i exp) as [k|] eqn:L; [|reflexivity].
        destruct (X _ _ L) as (t0 & N0 & _). rewrite N in N0. discriminate.
      * apply (IH _ _ _ _ E'). intros j k L. cbn [lookup_exp] in L.
        destruct (Nat.eqb_spec j i) as [J|J]; [cbn in L; discriminate|]. apply X. exact L.
Qed.

(* ------------------------------------------------------------ headline *)

(* For every buffer limit, every set of thread programs and every schedule, the
   model's run satisfies the predicate that the check evaluates on the
   implementation's observations. *)
Lemma model_meets_spec max progs sched :
  spec_ok (Ctl max progs sched (run_ctl max progs sched)) = true.
Proof.
  cbn [spec_ok]. unfold spec_ctl.
  pose proof (fifo_exact max progs sched) as F. cbn zeta in F.
  unfold fifo_ok. unfold run_ctl in *.
  destruct (exec (init_sys max progs) sched) as [os yf] eqn:E. cbn [co_steps co_buf] in *.
  destruct F as [F1 F2].
  apply andb_true_iff; split; [apply andb_true_iff; split; [apply andb_true_iff; split|]|].
  - destruct (closed_seen os).
    + apply is_subseq_complete. exact F2.
    + rewrite (F1 eq_refl). apply bytes_eqb_refl.
  - exact (exec_counters _ _ _ _ false E (inv_init max) (fun _ => eq_refl)).
  - eapply exec_steps_ok. exact E.
  - apply (exec_progress _ _ _ _ _ E). intros i k L. discriminate.
Qed.

(* ------------------------------------------------------------ end of stream *)

(* Theorem 2: Read reports end-of-stream only from a state in which the buffer is
   empty and no writer is open, or after the pipe was cancelled by its reader. *)
Lemma eof_sound_chk s n s' c' b :
  step_pc s (PRChk n) = (s', c', EvRead n b e_eof) -> buf s = [] /\ (deps s < 1)%Z /\ s' = s /\ b = [].
Proof.
  cbn [step_pc]. destruct (is_nil (buf s)) eqn:B.
  - destruct (closed s) eqn:D; intro H; inversion H; subst.
    repeat split; [apply is_nil_true; exact B | apply Z.ltb_lt; exact D].
  - intro H; inversion H.
Qed.

Lemma eof_sound_sel s n s' c' b :
  step_pc s (PRSel n) = (s', c', EvRead n b e_eof) -> canc s = true /\ s' = s /\ b = [].
Proof.
  cbn [step_pc]. destruct (canc s); intro H; inversion H; subst. repeat split.
Qed.

(* ... and it is the only way Read returns without data: with room in p and a
   non-empty buffer the take step hands out at least one byte *)
Lemma take_progress s n :
  n <> 0 -> buf s <> [] ->
  snd (do_take s n) <> [] /\ blen (buf (fst (do_take s n))) < blen (buf s).
Proof.
  intros Hn Hb. unfold do_take.
  pose proof (splitN_app n (buf s)) as A. pose proof (splitN_progress n (buf s) Hn Hb) as P.
  destruct (splitN n (buf s)) as [a b]. cbn [fst snd buf] in *. split; [exact P|].
  rewrite <- A, blen_app. destruct a as [|x a]; [congruence|]. rewrite blen_cons. lia.
Qed.

(* ------------------------------------------------------------ writer progress (enabledness) *)

(* Theorem 3: whenever the buffer is below the limit (or the limit is off) the
   check of any writer succeeds, and then its append cannot be refused; a blocked
   writer only spins (it never changes the state, it holds no lock). *)
Lemma writer_enabled s p k :
  smax s = 0 \/ blen (buf s) < smax s ->
  step_pc s (PWChk p k) = (s, PWApp p k, EvTau).
Proof.
  intro H. cbn [step_pc].
  replace ((blen (buf s) <? smax s) || (smax s =? 0)) with true; [reflexivity|].
  symmetry. apply orb_true_iff. destruct H as [H|H]; [right; apply N.eqb_eq; exact H|left; apply N.ltb_lt; exact H].
Qed.

Lemma writer_blocked s p k :
  smax s <> 0 -> smax s <= blen (buf s) ->
  step_pc s (PWChk p k) = (s, PWSel p k, EvTau).
Proof.
  intros H1 H2. cbn [step_pc].
  replace ((blen (buf s) <? smax s) || (smax s =? 0)) with false; [reflexivity|].
  symmetry. apply orb_false_iff. split; [apply N.ltb_ge; exact H2|apply N.eqb_neq; exact H1].
Qed.

(* a writer that is given three consecutive steps while there is room completes *)
Lemma writer_completes s p :
  canc s = false -> smax s = 0 \/ blen (buf s) < smax s ->
  exists s3,
    step_pc s (PWSel p KTop) = (s, PWChk p KTop, EvTau) /\
    step_pc s (PWChk p KTop) = (s, PWApp p KTop, EvTau) /\
    step_pc s (PWApp p KTop) = (s3, PIdle, EvWrite p (blen p) e_nil) /\
    buf s3 = buf s ++ p.
Proof.
  intros C H. exists (do_append s p). repeat split.
  - cbn [step_pc]. rewrite C. reflexivity.
  - apply writer_enabled. exact H.
Qed.

(* draining unblocks: after a reader took enough bytes the blocked writer's next check passes *)
Lemma drain_unblocks s n p k :
  blen (buf (fst (do_take s n))) < smax s ->
  let s' := fst (do_take s n) in step_pc s' (PWChk p k) = (s', PWApp p k, EvTau).
Proof.
  intros H s'. apply writer_enabled. right.
  unfold s', do_take in *. destruct (splitN n (buf s)). exact H.
Qed.

(* every thread that has not finished always has a step: nothing in the model blocks *)
Ltac crush_step :=
  repeat match goal with
         | |- context [match ?k with KTop => _ | KRF _ _ => _ end] => destruct k
         | |- context [if ?b then _ else _] => destruct b
         | |- context [let '(_, _) := ?x in _] => destruct x
         end; cbn; try discriminate.

Lemma step_pc_not_idle s c : c <> PIdle -> snd (step_pc s c) <> EvIdle.
Proof.
  destruct c; intro H; [congruence|..]; cbn [step_pc]; unfold after_app, after_drop; crush_step.
Qed.

Lemma never_stuck s prog c :
  (c <> PIdle \/ prog <> []) -> snd (step_thread s (prog, c)) <> EvIdle.
Proof.
  intro H. unfold step_thread.
  destruct c;
    try (match goal with |- context [step_pc s ?c] =>
           pose proof (step_pc_not_idle s c) as N; destruct (step_pc s c) as [[s' c'] e] end;
         cbn [snd] in *; apply N; discriminate).
  destruct H as [H|H]; [congruence|].
  destruct prog as [|o r]; [congruence|].
  destruct o; cbn [begin_op]; crush_step.
Qed.
