(* C09 -- proofs about the quote decoders of Model/StmtParse.v *)
From Coq Require Import Lia.
From Murex Require Import Base.Outcome Base.Bytes Model.StmtParse.
Open Scope N_scope.

Lemma cnt_ok {A} (v : A) n : cnt (Ok (v, n)) = Ok (v, S n).
Proof. reflexivity. Qed.

(* ---------------- single quotes ---------------- *)

Lemma dec_single_app s : forall acc rest,
  ~ In 39 s -> dec_single acc (s ++ 39 :: rest) = Ok (acc ++ s, S (length s)).
Proof.
  induction s as [|c s IH]; intros acc rest Hn.
  - cbn. rewrite app_nil_r. reflexivity.
  - cbn [List.app dec_single].
    destruct (c =? 39) eqn:E.
    + apply N.eqb_eq in E. subst. exfalso. apply Hn. left. reflexivity.
    + rewrite IH.
      * rewrite cnt_ok, <- app_assoc. reflexivity.
      * intro H. apply Hn. right. exact H.
Qed.

Lemma scan_single_app s : forall rest,
  ~ In 39 s -> scan_single (s ++ 39 :: rest) = Some (S (length s)).
Proof.
  induction s as [|c s IH]; intros rest Hn.
  - reflexivity.
  - cbn [List.app scan_single]. destruct (c =? 39) eqn:E.
    + apply N.eqb_eq in E. subst. exfalso. apply Hn. left. reflexivity.
    + rewrite IH. reflexivity. intro H. apply Hn. right. exact H.
Qed.

Theorem single_roundtrip cf e stmt s :
  ~ In 39 s -> lit_value cf e QSingle stmt (enc_single s) = Ok s.
Proof.
  intro Hn. unfold lit_value, enc_single. cbn [lit_body noexec_len dec_lit].
  rewrite scan_single_app by exact Hn.
  rewrite app_length. cbn [length]. rewrite Nat.add_1_r, Nat.eqb_refl.
  rewrite dec_single_app by exact Hn. rewrite Nat.eqb_refl. reflexivity.
Qed.

(* ---------------- double quotes ---------------- *)

Lemma unescape_id c : c <> 115 -> c <> 116 -> c <> 114 -> c <> 110 -> unescape c = c.
Proof.
  intros H1 H2 H3 H4. unfold unescape.
  repeat match goal with |- context [?a =? ?b] => destruct (N.eqb_spec a b); [congruence|] end.
  reflexivity.
Qed.

(* the only escapes: \s \t \r \n stand for blank, tab, CR, LF; \c is c *)
Theorem double_escapes_exact c :
  unescape c = (if c =? 115 then 32 else if c =? 116 then 9 else if c =? 114 then 13
                else if c =? 110 then 10 else c).
Proof. reflexivity. Qed.

Lemma dec_double_enc ws home s : forall acc rest,
  dec_double home false acc 0 (enc_double_body ws s ++ 34 :: rest)
  = Ok (acc ++ lits s, S (length (enc_double_body ws s))).
Proof.
  induction s as [|c s IH]; intros acc rest.
  - cbn. rewrite app_nil_r. reflexivity.
  - unfold enc_double_body in *. cbn [flat_map].
    rewrite <- app_assoc.
    assert (Hl : forall x : unit, acc ++ lits (c :: s) = (acc ++ [SLit c]) ++ lits s)
      by (intros _; cbn; rewrite <- app_assoc; reflexivity).
    unfold enc_double_char.
    destruct ((c =? 92) || (c =? 34) || (c =? 36) || (c =? 126)) eqn:Esp.
    + (* backslash pair *)
      cbn [List.app dec_double].
      change (92 =? 92) with true. cbn iota.
      rewrite IH, !cnt_ok.
      assert (unescape c = c) as ->.
      { apply unescape_id; intro; subst; discriminate. }
      cbn [length List.app]. rewrite (Hl tt). reflexivity.
    + apply orb_false_iff in Esp as [Esp E126].
      apply orb_false_iff in Esp as [Esp E36].
      apply orb_false_iff in Esp as [E92 E34].
      destruct ws; cbn [andb].
      * destruct (c =? 32) eqn:E32; [|destruct (c =? 9) eqn:E9; [|destruct (c =? 13) eqn:E13;
          [|destruct (c =? 10) eqn:E10]]];
        try (apply N.eqb_eq in E32; subst c);
        try (apply N.eqb_eq in E9; subst c);
        try (apply N.eqb_eq in E13; subst c);
        try (apply N.eqb_eq in E10; subst c).
        -- cbn [List.app dec_double]. change (92 =? 92) with true. cbn iota.
           rewrite IH, !cnt_ok. cbn [length List.app]. rewrite (Hl tt). reflexivity.
        -- cbn [List.app dec_double]. change (92 =? 92) with true. cbn iota.
           rewrite IH, !cnt_ok. cbn [length List.app]. rewrite (Hl tt). reflexivity.
        -- cbn [List.app dec_double]. change (92 =? 92) with true. cbn iota.
           rewrite IH, !cnt_ok. cbn [length List.app]. rewrite (Hl tt). reflexivity.
        -- cbn [List.app dec_double]. change (92 =? 92) with true. cbn iota.
           rewrite IH, !cnt_ok. cbn [length List.app]. rewrite (Hl tt). reflexivity.
        -- cbn [List.app dec_double]. rewrite E92, E36, E126, E34.
           rewrite IH, cnt_ok. cbn [length List.app]. rewrite (Hl tt). reflexivity.
      * cbn [List.app dec_double]. rewrite E92, E36, E126, E34.
        rewrite IH, cnt_ok. cbn [length List.app]. rewrite (Hl tt). reflexivity.
Qed.

Lemma scan_double_enc ws s : forall rest,
  scan_double false (enc_double_body ws s ++ 34 :: rest) = Some (S (length (enc_double_body ws s))).
Proof.
  induction s as [|c s IH]; intros rest.
  - reflexivity.
  - unfold enc_double_body in *. cbn [flat_map]. rewrite <- app_assoc.
    unfold enc_double_char.
    destruct ((c =? 92) || (c =? 34) || (c =? 36) || (c =? 126)) eqn:Esp.
    + cbn [List.app scan_double]. change (92 =? 92) with true. cbn iota.
      rewrite IH. reflexivity.
    + apply orb_false_iff in Esp as [Esp E126].
      apply orb_false_iff in Esp as [Esp E36].
      apply orb_false_iff in Esp as [E92 E34].
      destruct ws; cbn [andb].
      * destruct (c =? 32) eqn:E32; [|destruct (c =? 9) eqn:E9; [|destruct (c =? 13) eqn:E13;
          [|destruct (c =? 10) eqn:E10]]];
        try (cbn [List.app scan_double]; change (92 =? 92) with true; cbn iota;
             rewrite IH; reflexivity).
        cbn [List.app scan_double]. rewrite E92, E34. rewrite IH. reflexivity.
      * cbn [List.app scan_double]. rewrite E92, E34. rewrite IH. reflexivity.
Qed.

Lemma inst_lits e s : inst e (lits s) = Ok s.
Proof. induction s as [|c s IH]; cbn; [reflexivity|]. unfold lits in IH. rewrite IH. reflexivity. Qed.

Theorem double_roundtrip cf e stmt ws s :
  lit_value cf e QDouble stmt (enc_double ws s) = Ok s.
Proof.
  unfold lit_value, enc_double. cbn [lit_body noexec_len dec_lit].
  rewrite scan_double_enc.
  rewrite app_length. cbn [length]. rewrite Nat.add_1_r, Nat.eqb_refl.
  rewrite dec_double_enc. cbn [List.app]. rewrite inst_lits. cbn [obind].
  rewrite Nat.eqb_refl. reflexivity.
Qed.

(* ---------------- brace quotes ---------------- *)

Fixpoint cntn {A} (n : nat) (o : Outcome (A * nat)) : Outcome (A * nat) :=
  match n with O => o | S k => cnt (cntn k o) end.

Lemma cntn_ok {A} n (v : A) m : cntn n (Ok (v, m)) = Ok (v, (n + m)%nat).
Proof. induction n as [|n IH]; cbn; [reflexivity|]. rewrite IH. reflexivity. Qed.

Lemma cntn_cnt {A} n (o : Outcome (A * nat)) : cntn n (cnt o) = cnt (cntn n o).
Proof. induction n as [|n IH]; cbn; [reflexivity|]. rewrite IH. reflexivity. Qed.

Definition nolb (s : bytes) : Prop := ~ In 123 s.

Lemma ansi_matches_nolb s : nolb s -> ansi_matches 0 s = [].
Proof.
  induction s as [|c s IH]; intro H; [reflexivity|].
  cbn [ansi_matches]. destruct (c =? 123) eqn:E.
  - apply N.eqb_eq in E. subst. exfalso. apply H. left. reflexivity.
  - apply IH. intro H'. apply H. right. exact H'.
Qed.

Lemma expand_nolb tbl s : nolb s -> expand_consts tbl s = s.
Proof. intro H. unfold expand_consts. rewrite ansi_matches_nolb by exact H. reflexivity. Qed.

(* no known constant among the {NAME} tokens of s: nothing is expanded *)
Definition unknown_tokens (tbl : ansi_tbl) (s : bytes) : bool :=
  forallb (fun n => match assoc n tbl with Some _ => false | None => true end) (ansi_matches 0 s).

Lemma expand_unknown tbl s : unknown_tokens tbl s = true -> expand_consts tbl s = s.
Proof.
  unfold unknown_tokens, expand_consts. generalize (ansi_matches 0 s) as ms.
  intro ms. revert s. induction ms as [|m ms IH]; intros acc H; [reflexivity|].
  cbn [forallb] in H. apply andb_true_iff in H as [H1 H2].
  cbn [fold_left]. destruct (assoc m tbl); [discriminate|]. apply IH. exact H2.
Qed.

(* the pure effect of a stretch of text on (stack, current group) *)
Fixpoint push (tbl : ansi_tbl) (s : bytes) (st : list bytes) (cur : bytes) : option (list bytes * bytes) :=
  match s with
  | [] => Some (st, cur)
  | c :: r =>
    if c =? 40 then push tbl r (cur :: st) []
    else if c =? 41 then
      match st with
      | [] => None
      | p :: st' => push tbl r st' (p ++ [40] ++ expand_consts tbl cur ++ [41])
      end
    else push tbl r st (cur ++ [c])
  end.

Lemma dec_brace_push home tbl lk s : forall st cur st' cur' rest,
  forallb no_expansion_char s = true ->
  push tbl s st cur = Some (st', cur') ->
  dec_brace home tbl lk st cur 0 (s ++ rest)
  = cntn (length s) (dec_brace home tbl lk st' cur' 0 rest).
Proof.
  induction s as [|c s IH]; intros st cur st' cur' rest Hne Hp.
  - cbn in Hp. inversion Hp; subst. reflexivity.
  - cbn [forallb] in Hne. apply andb_true_iff in Hne as [Hc Hne].
    unfold no_expansion_char in Hc. apply negb_true_iff in Hc.
    apply orb_false_iff in Hc as [E36 E126].
    cbn [push] in Hp. cbn [List.app dec_brace length cntn]. rewrite E36, E126.
    destruct (c =? 40) eqn:E40.
    + rewrite (IH _ _ _ _ rest Hne Hp). reflexivity.
    + destruct (c =? 41) eqn:E41.
      * destruct st as [|p st0]; [discriminate|].
        f_equal. apply IH; assumption.
      * rewrite (IH _ _ _ _ rest Hne Hp). reflexivity.
Qed.

Fixpoint flatten (st : list bytes) (cur : bytes) : bytes :=
  match st with
  | [] => cur
  | p :: st' => flatten st' (p ++ [40] ++ cur)
  end.

Lemma flatten_app st : forall x y, flatten st (x ++ y) = flatten st x ++ y.
Proof.
  induction st as [|p st IH]; intros x y; cbn [flatten]; [reflexivity|].
  rewrite <- IH. f_equal. rewrite <- !app_assoc. reflexivity.
Qed.

Lemma nolb_app a b : nolb a -> nolb b -> nolb (a ++ b).
Proof. unfold nolb. intros Ha Hb H. apply in_app_or in H as [H|H]; auto. Qed.

Lemma push_balanced tbl s : forall st cur,
  nolb s -> Forall nolb st -> nolb cur ->
  balanced (length st) s = true ->
  push tbl s st cur = Some ([], flatten st cur ++ s).
Proof.
  induction s as [|c s IH]; intros st cur Hs Hst Hcur Hb.
  - cbn in Hb. apply Nat.eqb_eq in Hb. destruct st; [|discriminate].
    cbn. rewrite app_nil_r. reflexivity.
  - assert (Hs' : nolb s) by (intro H; apply Hs; right; exact H).
    assert (Hc : c <> 123) by (intro H; apply Hs; left; exact H).
    cbn [balanced] in Hb. cbn [push].
    destruct (c =? 40) eqn:E40.
    + apply N.eqb_eq in E40. subst c.
      rewrite (IH (cur :: st) []); try assumption.
      * cbn [flatten]. rewrite app_nil_r. rewrite flatten_app. rewrite <- app_assoc. reflexivity.
      * constructor; assumption.
      * intro H; exact H.
    + destruct (c =? 41) eqn:E41.
      * apply N.eqb_eq in E41. subst c.
        destruct st as [|p st0]; [discriminate|]. cbn [length] in Hb.
        inversion Hst as [|? ? Hp Hst0]; subst.
        rewrite expand_nolb by exact Hcur.
        rewrite IH; try assumption.
        -- cbn [flatten]. f_equal. f_equal.
           replace (p ++ [40] ++ cur ++ [41]) with ((p ++ [40] ++ cur) ++ [41])
             by (rewrite <- !app_assoc; reflexivity).
           rewrite flatten_app. rewrite <- app_assoc. reflexivity.
        -- apply nolb_app; [exact Hp|]. apply nolb_app; [intros [H|[]]; discriminate|].
           apply nolb_app; [exact Hcur|]. intros [H|[]]; discriminate.
      * rewrite IH; try assumption.
        -- rewrite flatten_app. rewrite <- app_assoc. reflexivity.
        -- apply nolb_app; [exact Hcur|]. intros [H|[]]. apply Hc. exact H.
Qed.

Lemma scan_brace_balanced s : forall d k rest,
  balanced d s = true ->
  scan_brace (k + d) (s ++ rest) = option_map (Nat.add (length s)) (scan_brace k rest).
Proof.
  induction s as [|c s IH]; intros d k rest Hb.
  - cbn in Hb. apply Nat.eqb_eq in Hb. subst d. rewrite Nat.add_0_r. cbn.
    destruct (scan_brace k rest); reflexivity.
  - cbn [balanced] in Hb. cbn [List.app scan_brace length].
    destruct (c =? 40) eqn:E40.
    + replace (S (k + d)) with (k + S d)%nat by lia. rewrite (IH _ _ _ Hb).
      destruct (scan_brace k rest); reflexivity.
    + destruct (c =? 41) eqn:E41.
      * destruct d as [|d']; [discriminate|].
        replace (k + S d')%nat with (S (k + d')) by lia. rewrite (IH _ _ _ Hb).
        destruct (scan_brace k rest); reflexivity.
      * rewrite (IH _ _ _ Hb). destruct (scan_brace k rest); reflexivity.
Qed.

Lemma brace_dom_split s : brace_dom s = true ->
  balanced 0 s = true /\ forallb no_expansion_char s = true.
Proof. unfold brace_dom. intro H. apply andb_true_iff in H. exact H. Qed.

(* decoded value of an encoded string, before the statement-level expansion *)
Lemma dec_brace_enc home tbl lk s :
  brace_dom s = true -> nolb s ->
  dec_brace home tbl lk [] [] 0 (s ++ [41]) = Ok (s, S (length s)).
Proof.
  intros Hd Hn. apply brace_dom_split in Hd as [Hb Hne].
  rewrite (dec_brace_push home tbl lk s [] [] [] s [41] Hne).
  - cbn [dec_brace]. change (41 =? 36) with false. change (41 =? 126) with false.
    change (41 =? 40) with false. change (41 =? 41) with true. cbn iota.
    rewrite cntn_ok. rewrite Nat.add_1_r. reflexivity.
  - rewrite (push_balanced tbl s [] []); try assumption.
    + reflexivity.
    + constructor.
    + intro H; exact H.
Qed.

(* flat strings: no parentheses at all *)
Definition flat_char (c : N) : bool := negb ((c =? 40) || (c =? 41)) && no_expansion_char c.

Lemma push_flat tbl s : forall st cur,
  forallb flat_char s = true -> push tbl s st cur = Some (st, cur ++ s).
Proof.
  induction s as [|c s IH]; intros st cur H.
  - cbn. rewrite app_nil_r. reflexivity.
  - cbn [forallb] in H. apply andb_true_iff in H as [Hc H].
    unfold flat_char in Hc. apply andb_true_iff in Hc as [Hp _].
    apply negb_true_iff in Hp. apply orb_false_iff in Hp as [E40 E41].
    cbn [push]. rewrite E40, E41. rewrite IH by exact H. rewrite <- app_assoc. reflexivity.
Qed.

Lemma flat_no_expansion s : forallb flat_char s = true -> forallb no_expansion_char s = true.
Proof.
  induction s as [|c s IH]; intro H; [reflexivity|].
  cbn [forallb] in *. apply andb_true_iff in H as [Hc H].
  unfold flat_char in Hc. apply andb_true_iff in Hc as [_ Hc]. rewrite Hc, IH by exact H. reflexivity.
Qed.

Lemma flat_balanced s : forall d, forallb flat_char s = true -> balanced d s = Nat.eqb d 0.
Proof.
  induction s as [|c s IH]; intros d H; [reflexivity|].
  cbn [forallb] in H. apply andb_true_iff in H as [Hc H].
  unfold flat_char in Hc. apply andb_true_iff in Hc as [Hp _].
  apply negb_true_iff in Hp. apply orb_false_iff in Hp as [E40 E41].
  cbn [balanced]. rewrite E40, E41. apply IH. exact H.
Qed.

Lemma dec_brace_flat home tbl lk s :
  forallb flat_char s = true ->
  dec_brace home tbl lk [] [] 0 (s ++ [41]) = Ok (s, S (length s)).
Proof.
  intro Hf.
  rewrite (dec_brace_push home tbl lk s [] [] [] s [41] (flat_no_expansion s Hf)).
  - cbn [dec_brace]. change (41 =? 36) with false. change (41 =? 126) with false.
    change (41 =? 40) with false. change (41 =? 41) with true. cbn iota.
    rewrite cntn_ok. rewrite Nat.add_1_r. reflexivity.
  - rewrite push_flat by exact Hf. reflexivity.
Qed.

Lemma noexec_brace s : balanced 0 s = true ->
  scan_brace 0 (s ++ [41]) = Some (S (length s)).
Proof.
  intro Hb. change 0%nat with (0 + 0)%nat at 1. rewrite (scan_brace_balanced s 0 0 [41] Hb). cbn. rewrite Nat.add_1_r. reflexivity.
Qed.

Lemma lit_value_brace cf e stmt s v :
  balanced 0 s = true ->
  dec_brace (c_home cf) (c_ansi cf) (scalar_lookup e) [] [] 0 (s ++ [41]) = Ok (v, S (length s)) ->
  lit_value cf e QBrace stmt (enc_brace s)
  = Ok (if stmt then expand_consts (c_ansi cf) v else v).
Proof.
  intros Hb Hd. unfold lit_value, enc_brace. cbn [lit_body noexec_len dec_lit].
  rewrite noexec_brace by exact Hb.
  rewrite app_length. cbn [length]. rewrite Nat.add_1_r, Nat.eqb_refl.
  rewrite Hd. rewrite Nat.eqb_refl. reflexivity.
Qed.

(* expression position, no parentheses: exact, whatever {TOKENS} it contains *)
Theorem brace_roundtrip_expr_flat cf e s :
  forallb flat_char s = true -> lit_value cf e QBrace false (enc_brace s) = Ok s.
Proof.
  intro Hf. rewrite (lit_value_brace cf e false s s).
  - reflexivity.
  - rewrite flat_balanced by exact Hf. reflexivity.
  - apply dec_brace_flat. exact Hf.
Qed.

(* statement position, no parentheses: the value is the ANSI expansion of s ... *)
Theorem brace_stmt_flat_is_expansion cf e s :
  forallb flat_char s = true ->
  lit_value cf e QBrace true (enc_brace s) = Ok (expand_consts (c_ansi cf) s).
Proof.
  intro Hf. rewrite (lit_value_brace cf e true s s).
  - reflexivity.
  - rewrite flat_balanced by exact Hf. reflexivity.
  - apply dec_brace_flat. exact Hf.
Qed.

(* ... hence exact when no {NAME} token names a known constant *)
Theorem brace_roundtrip_stmt_flat cf e s :
  forallb flat_char s = true -> unknown_tokens (c_ansi cf) s = true ->
  lit_value cf e QBrace true (enc_brace s) = Ok s.
Proof.
  intros Hf Hu. rewrite brace_stmt_flat_is_expansion by exact Hf.
  rewrite expand_unknown by exact Hu. reflexivity.
Qed.

(* any nesting depth, both positions, when the string has no open curly bracket *)
Theorem brace_roundtrip_nested cf e stmt s :
  brace_dom s = true -> nolb s -> lit_value cf e QBrace stmt (enc_brace s) = Ok s.
Proof.
  intros Hd Hn. rewrite (lit_value_brace cf e stmt s s).
  - rewrite expand_nolb by exact Hn. destruct stmt; reflexivity.
  - apply brace_dom_split in Hd. tauto.
  - apply dec_brace_enc; assumption.
Qed.

(* ---------------- connection with Check.C09 ---------------- *)
From Murex Require Import Check.C09.

Lemma existsb_39 s : existsb (N.eqb 39) s = false -> ~ In 39 s.
Proof.
  induction s as [|c s IH]; intros H [].
  - subst. cbn in H. discriminate.
  - cbn [existsb] in H. apply orb_false_iff in H as [_ H]. exact (IH H H0).
Qed.

Lemma params_eqb_refl s : params_eqb (Some [s]) (Some [s]) = true.
Proof. cbn. rewrite bytes_eqb_refl. reflexivity. Qed.
Lemma value_eqb_refl s : value_eqb (Some s) (Some s) = true.
Proof. cbn. apply bytes_eqb_refl. Qed.

Definition brace_guard (home : bytes) (nc : bool) (s : bytes) : Prop :=
  nolb s \/ (forallb flat_char s = true /\ unknown_tokens (c_ansi (mk_cfg home nc)) s = true).

Theorem model_meets_spec k ws s e home nc :
  match k with QBrace => brace_guard home nc s | _ => True end ->
  spec_ok (model_case k ws s e home nc) = true.
Proof.
  intro G. unfold spec_ok. cbn [k_encoded model_case k_kind k_str k_stmt k_expr andb].
  destruct (in_domain k s) eqn:D; [|reflexivity].
  destruct k; cbn [encode in_domain] in *.
  - apply negb_true_iff in D. apply existsb_39 in D.
    rewrite !single_roundtrip by exact D. cbn [to_params to_value].
    rewrite params_eqb_refl, value_eqb_refl. reflexivity.
  - rewrite !double_roundtrip. cbn [to_params to_value].
    rewrite params_eqb_refl, value_eqb_refl. reflexivity.
  - destruct G as [G|[Gf Gu]].
    + rewrite !brace_roundtrip_nested by assumption. cbn [to_params to_value].
      rewrite params_eqb_refl, value_eqb_refl. reflexivity.
    + rewrite brace_roundtrip_stmt_flat by assumption.
      rewrite brace_roundtrip_expr_flat by assumption. cbn [to_params to_value].
      rewrite params_eqb_refl, value_eqb_refl. reflexivity.
Qed.

(* F09: without the guard the model (= the code) violates the property *)
Definition f09_witness : bytes := [97; 123; 66; 76; 85; 69; 125; 98].   (* a{BLUE}b *)

Theorem brace_roundtrip_refuted :
  exists s, in_domain QBrace s = true /\
            spec_ok (model_case QBrace false s {| e_scalars := []; e_arrays := [] |} [] false) = false /\
            classify (model_case QBrace false s {| e_scalars := []; e_arrays := [] |} [] false) = 1.
Proof. exists f09_witness. vm_compute. repeat split. Qed.
