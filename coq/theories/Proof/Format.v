(* C14 — proofs about Model/Format.v *)
From Coq Require Import Lia.
From Murex Require Import Base.Outcome Base.Bytes Model.Alter Model.Format Check.C14 Proof.Alter.

(* ================= csv: reader after writer ================= *)

Definition nocr (cur : bytes) : Prop := match cur with 13%N :: _ => False | _ => True end.
Definition cell_ok (f : bytes) : Prop := ~ In 13%N f.

Lemma drop_cr_nocr cur : nocr cur -> drop_cr cur = cur.
Proof.
  destruct cur as [|c cur]; [reflexivity|]. cbn.
  destruct c as [|p]; [reflexivity|].
  do 4 (destruct p as [p|p|]; try reflexivity). intros [].
Qed.

Lemma nocr_cons c cur : c <> 13%N -> nocr (c :: cur).
Proof.
  intro H. cbn. destruct c as [|p]; [exact I|].
  do 4 (destruct p as [p|p|]; try exact I). apply H. reflexivity.
Qed.

Lemma existsb_false {A} (P : A -> bool) l :
  existsb P l = false -> Forall (fun x => P x = false) l.
Proof.
  induction l as [|x l IH]; cbn; intro H; constructor.
  - destruct (P x); [discriminate|reflexivity].
  - apply IH. destruct (P x); [discriminate|exact H].
Qed.

Lemma special_false c : special c = false ->
  (c =? 10)%N = false /\ (c =? 13)%N = false /\ (c =? 34)%N = false /\ (c =? 44)%N = false.
Proof.
  unfold special. intro H.
  destruct (c =? 10)%N, (c =? 13)%N, (c =? 34)%N, (c =? 44)%N; try discriminate; auto.
Qed.

(* inside quotes *)
Lemma rd_q_esc f : forall fs cur rest,
  cell_ok f -> nocr cur ->
  rd_q fs cur (esc f ++ 34%N :: rest) = rd_qq fs (rev f ++ cur) rest.
Proof.
  induction f as [|c f IH]; intros fs cur rest Hc Hn.
  - cbn. reflexivity.
  - assert (Hc' : cell_ok f) by (intro I; apply Hc; right; exact I).
    assert (H13 : c <> 13%N) by (intro E; apply Hc; left; exact E).
    cbn [esc]. destruct (N.eqb_spec c 34) as [E|E].
    + subst c. cbn [app rd_q]. cbn [N.eqb Pos.eqb]. cbn [rd_qq]. cbn [N.eqb Pos.eqb].
      rewrite IH; [|exact Hc'|apply nocr_cons; discriminate].
      cbn [rev]. rewrite <- app_assoc. reflexivity.
    + cbn [app rd_q]. destruct (N.eqb_spec c 34) as [E2|_]; [contradiction|].
      destruct (N.eqb_spec c 10) as [E3|E3].
      * subst c. rewrite (drop_cr_nocr _ Hn).
        rewrite IH; [|exact Hc'|apply nocr_cons; discriminate].
        cbn [rev]. rewrite <- app_assoc. reflexivity.
      * rewrite IH; [|exact Hc'|apply nocr_cons; exact H13].
        cbn [rev]. rewrite <- app_assoc. reflexivity.
Qed.

(* outside quotes *)
Lemma rd_u_plain f : forall fs cur rest,
  Forall (fun c => special c = false) f ->
  rd_u fs cur (f ++ 44%N :: rest) = rd_f false (rev (rev f ++ cur) :: fs) rest /\
  (nocr cur -> rd_u fs cur (f ++ 10%N :: rest) = fin fs (rev f ++ cur) :: rd_f true [] rest).
Proof.
  induction f as [|c f IH]; intros fs cur rest F.
  - cbn. split; [reflexivity|]. intro Hn. rewrite (drop_cr_nocr _ Hn). reflexivity.
  - inversion F as [|? ? Hs F']; subst.
    destruct (special_false _ Hs) as (E10 & E13 & E34 & E44).
    cbn [app rd_u]. rewrite E10, E44, E34.
    destruct (IH fs (c :: cur) rest F') as [IH1 IH2].
    split.
    + rewrite IH1. cbn [rev]. rewrite <- app_assoc. reflexivity.
    + intro Hn. rewrite IH2.
      * cbn [rev]. rewrite <- app_assoc. reflexivity.
      * apply nocr_cons. apply N.eqb_neq. exact E13.
Qed.

Lemma needs_quotes_false c f :
  needs_quotes (c :: f) = false ->
  is_space c = false /\ Forall (fun x => special x = false) (c :: f).
Proof.
  unfold needs_quotes. intro H.
  apply orb_false_iff in H. destruct H as [H H3].
  apply orb_false_iff in H. destruct H as [_ H2].
  split.
  - cbn in H3. apply orb_false_iff in H3. apply H3.
  - apply existsb_false. exact H2.
Qed.

Lemma fin_nil fs f : fin fs (rev f) = RRow (rev (f :: fs)).
Proof. unfold fin. rewrite rev_involutive. reflexivity. Qed.

(* one field, followed by a comma or by the end of the line *)
Lemma rd_field st fs f rest :
  cell_ok f -> (st = true -> starts_with 35 f = false) ->
  rd_f st fs (wfield f ++ 44%N :: rest) = rd_f false (f :: fs) rest /\
  ((st = true -> f <> []) ->
   rd_f st fs (wfield f ++ 10%N :: rest) = RRow (rev (f :: fs)) :: rd_f true [] rest).
Proof.
  intros Hc Hs. unfold wfield. destruct (needs_quotes f) eqn:Q.
  - (* quoted *)
    assert (S35 : (st && (34 =? 35)%N) = false) by (destruct st; reflexivity).
    split; [|intros _]; cbn [app rd_f]; rewrite S35;
      change (34 =? 10)%N with false; change (is_space 34) with false;
      change (34 =? 34)%N with true; cbv iota;
      rewrite <- app_assoc; cbn [app];
      (rewrite rd_q_esc; [|exact Hc|exact I]); rewrite app_nil_r; cbn [rd_qq].
    + change (44 =? 34)%N with false. change (44 =? 44)%N with true. cbv iota.
      rewrite rev_involutive. reflexivity.
    + change (10 =? 34)%N with false. change (10 =? 44)%N with false.
      change (10 =? 10)%N with true. cbv iota.
      rewrite fin_nil. reflexivity.
  - destruct f as [|c f].
    + (* empty field *)
      split.
      * cbn [app rd_f]. destruct st; reflexivity.
      * intro Hne. destruct st; [exfalso; apply Hne; reflexivity|]. cbn. reflexivity.
    + destruct (needs_quotes_false _ _ Q) as [Hsp F].
      inversion F as [|? ? Hsc F']; subst.
      destruct (special_false _ Hsc) as (E10 & E13 & E34 & E44).
      assert (S35 : (st && (c =? 35)%N) = false).
      { destruct st; [|reflexivity]. cbn. specialize (Hs eq_refl). cbn in Hs. exact Hs. }
      destruct (rd_u_plain f fs [c] rest F') as [U1 U2].
      split; [|intros _]; cbn [app rd_f]; rewrite S35, E10, Hsp, E34, E44.
      * rewrite U1. rewrite rev_app_distr, rev_involutive. reflexivity.
      * rewrite U2 by (apply nocr_cons; apply N.eqb_neq; exact E13).
        replace (rev f ++ [c]) with (rev (c :: f)) by reflexivity. apply f_equal2; [|reflexivity].
        apply fin_nil.
Qed.

Lemma wrow_cons f g r : wrow (f :: g :: r) = wfield f ++ 44%N :: wrow (g :: r).
Proof. reflexivity. Qed.

Lemma rd_row r : forall st fs rest,
  r <> [] -> Forall cell_ok r ->
  (st = true -> starts_with 35 (hd [] r) = false /\ r <> [[]]) ->
  rd_f st fs (wrow r ++ rest) = RRow (rev fs ++ r) :: rd_f true [] rest.
Proof.
  induction r as [|f r IH]; intros st fs rest Hne F Hst; [contradiction|].
  inversion F as [|? ? Hc F']; subst.
  destruct r as [|g r].
  - cbn [wrow]. rewrite <- app_assoc. cbn [app].
    destruct (rd_field st fs f rest Hc) as [_ H2].
    { intro E. apply (Hst E). }
    rewrite H2.
    + cbn [rev]. reflexivity.
    + intros E N. apply (proj2 (Hst E)). rewrite N. reflexivity.
  - rewrite wrow_cons. rewrite <- app_assoc. cbn [app].
    destruct (rd_field st fs f (wrow (g :: r) ++ rest) Hc) as [H1 _].
    { intro E. apply (Hst E). }
    rewrite H1. rewrite IH; [|discriminate|exact F'|discriminate].
    cbn [rev]. rewrite <- app_assoc. reflexivity.
Qed.

Definition row_ok (r : row) : Prop :=
  r <> [] /\ r <> [[]] /\ starts_with 35 (hd [] r) = false /\ Forall cell_ok r.

Lemma csv_roundtrip t : Forall row_ok t -> csv_read (wtable t) = map RRow t.
Proof.
  unfold csv_read, wtable. induction t as [|r t IH]; intro F; [reflexivity|].
  inversion F as [|? ? (H1 & H2 & H3 & H4) F']; subst.
  cbn [map concat]. rewrite rd_row; auto. cbn [rev app]. rewrite IH by exact F'. reflexivity.
Qed.

(* ================= table <-> list of maps ================= *)

Definition unstr (v : json) : bytes := match v with JStr s => s | _ => [] end.

Lemma obj_find_in o : NoDup (map fst o) ->
  forall k v, In (k, v) o -> obj_find k o = Some v.
Proof.
  induction o as [|[k' v'] o IH]; cbn; intros ND k v I; [contradiction|].
  inversion ND as [|? ? Hn Hd]; subst.
  destruct I as [E|I].
  - inversion E; subst. rewrite bytes_eqb_refl. reflexivity.
  - destruct (bytes_eqb k k') eqn:E.
    + apply bytes_eqb_eq in E. subst. exfalso. apply Hn. apply (in_map fst) in I. exact I.
    + apply IH; assumption.
Qed.

Lemma cells_suffix o o' :
  (forall k v, In (k, v) o' -> obj_find k o = Some v) ->
  forallb (fun kv => is_str (snd kv)) o' = true ->
  cells (map fst o') o = Some (map unstr (map snd o')).
Proof.
  induction o' as [|[k v] o' IH]; intros H S; [reflexivity|].
  cbn in S. apply andb_true_iff in S. destruct S as [Sv S].
  cbn [map fst snd cells]. rewrite (H k v) by (left; reflexivity).
  destruct v; try discriminate. cbn [cell_text scalar_text].
  rewrite IH; [reflexivity| |exact S].
  intros k' v' I. apply H. right. exact I.
Qed.

Lemma list_eqb_bytes a b : list_eqb bytes_eqb a b = true -> a = b.
Proof. apply list_eqb_eq. apply bytes_eqb_eq. Qed.

Lemma map_jstr_unstr l : forallb is_str l = true -> map JStr (map unstr l) = l.
Proof.
  induction l as [|v l IH]; cbn; intro H; [reflexivity|].
  apply andb_true_iff in H. destruct H as [Hv H]. destruct v; try discriminate.
  cbn. rewrite IH by exact H. reflexivity.
Qed.

Lemma forallb_snd (o : list (bytes * json)) :
  forallb (fun kv => is_str (snd kv)) o = forallb is_str (map snd o).
Proof. induction o as [|[k v] o IH]; cbn; [reflexivity|]. rewrite IH. reflexivity. Qed.

Lemma combine_fst_snd {A B} (o : list (A * B)) : combine (map fst o) (map snd o) = o.
Proof. induction o as [|[a b] o IH]; cbn; [reflexivity|]. rewrite IH. reflexivity. Qed.

Definition row_of (m : json) : row :=
  match m with JObj o => map unstr (map snd o) | _ => [] end.

Lemma rows_of_records hdr ms :
  NoDup hdr -> forallb (is_record hdr) ms = true ->
  rows_of hdr ms = Some (map row_of ms) /\
  t2m_rows hdr (map RRow (map row_of ms)) = Some ms.
Proof.
  intro ND. induction ms as [|m ms IH]; intro H; [split; reflexivity|].
  cbn in H. apply andb_true_iff in H. destruct H as [Hm H].
  destruct (IH H) as [IH1 IH2].
  destruct m as [| | | | |o]; try discriminate.
  cbn in Hm. apply andb_true_iff in Hm. destruct Hm as [Hk Hv].
  apply list_eqb_bytes in Hk. subst hdr.
  split.
  - cbn [rows_of]. rewrite map_length, Nat.eqb_refl.
    rewrite (cells_suffix o o); [|apply obj_find_in; exact ND|exact Hv].
    rewrite IH1. reflexivity.
  - cbn [map row_of t2m_rows]. rewrite !map_length, Nat.eqb_refl. rewrite IH2.
    rewrite map_jstr_unstr by (rewrite <- forallb_snd; exact Hv).
    rewrite combine_fst_snd. reflexivity.
Qed.

(* the table of a list of records and back *)
Lemma table_map_roundtrip o ms :
  NoDup (map fst o) -> is_table (JObj o :: ms) = true ->
  exists t, maps_to_table (JObj o :: ms) = Some (map fst o :: t) /\
            table_to_maps (map RRow (map fst o :: t)) = Ok (JArr (JObj o :: ms)).
Proof.
  intros ND T. unfold is_table in T. apply andb_true_iff in T. destruct T as [_ T].
  destruct (rows_of_records _ _ ND T) as [R1 R2].
  exists (map row_of (JObj o :: ms)). split.
  - unfold maps_to_table. rewrite R1. reflexivity.
  - cbn [map table_to_maps]. cbn [map] in R2. rewrite R2. reflexivity.
Qed.

(* ---------- csv: the whole pipeline ---------- *)
(* the guard: exactly what the known findings 1-3 exclude *)
Definition csv_guard (ms : list json) : Prop :=
  match maps_to_table ms with
  | Some t => Forall row_ok t
  | None => False
  end.

Lemma csv_format_roundtrip o ms :
  NoDup (map fst o) -> is_table (JObj o :: ms) = true -> csv_guard (JObj o :: ms) ->
  format_rt FCsv (JArr (JObj o :: ms)) = Ok (JArr (JObj o :: ms)).
Proof.
  intros ND T G. destruct (table_map_roundtrip _ _ ND T) as (t & M & B).
  unfold csv_guard in G. rewrite M in G.
  cbn [format_rt]. unfold csv_rt. rewrite M. rewrite csv_roundtrip by exact G. exact B.
Qed.

Lemma csv_empty_roundtrip : format_rt FCsv (JArr []) = Ok (JArr []).
Proof. reflexivity. Qed.

(* ================= jsonlines ================= *)
Definition rows_are_strings (es : list json) : Prop :=
  Forall (fun e => match e with JArr l => forallb is_str l = true | _ => True end)
         (fst (lead_rows es)).

Lemma map_sprint_str l : forallb is_str l = true -> map (fun x => JStr (sprint x)) l = l.
Proof.
  induction l as [|v l IH]; cbn [forallb map]; intro H; [reflexivity|].
  apply andb_true_iff in H. destruct H as [Hv H]. destruct v; try discriminate.
  rewrite IH by exact H. reflexivity.
Qed.

Lemma lead_rows_app es : fst (lead_rows es) ++ snd (lead_rows es) = es.
Proof.
  induction es as [|e es IH]; [reflexivity|]. cbn [lead_rows].
  destruct (is_arr e); [|reflexivity].
  destruct (lead_rows es) as [a b]. cbn in *. rewrite IH. reflexivity.
Qed.

Lemma jsonl_roundtrip es :
  es <> [] -> rows_are_strings es -> jsonl_rt es = Ok (JArr es).
Proof.
  intros Hne R. unfold jsonl_rt. destruct es as [|e es]; [contradiction|].
  set (l := e :: es) in *. pose proof (lead_rows_app l) as A.
  unfold rows_are_strings in R. destruct (lead_rows l) as [a b]. cbn [fst snd] in *.
  assert (M : map strow a = a).
  { clear A. induction a as [|x a IH]; [reflexivity|].
    inversion R as [|? ? Hx R']; subst. cbn [map]. rewrite IH by exact R'.
    destruct x; try reflexivity. cbn [strow]. rewrite map_sprint_str by exact Hx. reflexivity. }
  rewrite M, A. reflexivity.
Qed.

(* the text written for the elements splits back into one line per element *)
Section Lines.
  Variable pj : json -> bytes.
  Hypothesis pj_no_newline : forall v, ~ In 10%N (pj v).

  Lemma split_line_one b : forall cur rest, ~ In 10%N b ->
    split_lines cur (b ++ 10%N :: rest) = rev (rev b ++ cur) :: split_lines [] rest.
  Proof.
    induction b as [|c b IH]; intros cur rest H.
    - cbn. reflexivity.
    - cbn [app split_lines]. destruct (N.eqb_spec c 10) as [E|E].
      + exfalso. apply H. left. exact E.
      + rewrite IH by (intro I; apply H; right; exact I).
        cbn [rev]. rewrite <- app_assoc. reflexivity.
  Qed.

  Lemma jsonl_lines es : split_lines [] (jsonl_text pj es) = map pj es.
  Proof.
    unfold jsonl_text. induction es as [|e es IH]; [reflexivity|].
    cbn [map concat]. rewrite <- app_assoc. cbn [app].
    rewrite split_line_one by apply pj_no_newline.
    rewrite app_nil_r, rev_involutive, IH. reflexivity.
  Qed.
End Lines.

(* ================= yaml / toml: murex's glue only ================= *)
Section Glue.
  Variable enc : json -> option bytes.
  Variable dec : bytes -> option json.
  Variable dom : json -> Prop.
  (* the library round trip, as a hypothesis *)
  Hypothesis codec_roundtrip : forall v, dom v -> exists b, enc v = Some b /\ dec b = Some v.

  Lemma format_glue_preserves v : dom v -> format_via enc dec v = Ok v.
  Proof.
    intro D. destruct (codec_roundtrip v D) as (b & E & Dd).
    unfold format_via. rewrite E, Dd. reflexivity.
  Qed.
End Glue.

(* ================= the model's observation meets spec_ok ================= *)
Definition model_case (f : fmt) (doc : json) : case :=
  match format_rt f doc with
  | Ok v => {| c_fmt := f; c_doc := doc; c_kind := 0; c_mid_ok := true; c_mid := []; c_out := Some v |}
  | _ => {| c_fmt := f; c_doc := doc; c_kind := 1; c_mid_ok := false; c_mid := []; c_out := None |}
  end.

Lemma spec_of_roundtrip f doc :
  format_rt f doc = Ok doc -> spec_ok (model_case f doc) = true.
Proof.
  intro H. unfold model_case. rewrite H. unfold spec_ok. cbn [c_fmt c_doc c_kind c_out].
  destruct (representable f doc); [|reflexivity].
  cbn. apply json_eqb_refl.
Qed.

Lemma csv_meets_spec o ms :
  NoDup (map fst o) -> csv_guard (JObj o :: ms) ->
  spec_ok (model_case FCsv (JArr (JObj o :: ms))) = true.
Proof.
  intros ND G.
  destruct (is_table (JObj o :: ms)) eqn:T.
  - apply spec_of_roundtrip. apply csv_format_roundtrip; assumption.
  - unfold spec_ok, model_case.
    destruct (format_rt FCsv (JArr (JObj o :: ms))); cbn [c_fmt c_doc representable]; rewrite T; reflexivity.
Qed.

Lemma jsonl_meets_spec es :
  es <> [] -> rows_are_strings es -> spec_ok (model_case FJsonl (JArr es)) = true.
Proof. intros H R. apply spec_of_roundtrip. apply jsonl_roundtrip; assumption. Qed.

Lemma yaml_toml_meets_spec f doc :
  f = FYaml \/ f = FToml -> spec_ok (model_case f doc) = true.
Proof. intros [-> | ->]; apply spec_of_roundtrip; reflexivity. Qed.
