(* C29 — proofs about Model/History.v *)
From Coq Require Import Lia ZifyBool ZifyN ZifyNat.
From Murex Require Import Base.Bytes Model.History Check.C29.
Open Scope N_scope.

(* ------------------------------------------------------------------ *)
(* lines / load                                                        *)

Definition no_nl (l : bytes) : bool := forallb (fun c => negb (c =? 10)) l.

Lemma lines_cons c f :
  lines (c :: f) = if c =? 10 then [] :: lines f
                   else match lines f with [] => [[c]] | l :: ls => (c :: l) :: ls end.
Proof. reflexivity. Qed.

Lemma lines_nonempty c f : lines (c :: f) <> [].
Proof. cbn [lines]. destruct (c =? 10); [discriminate|]. destruct (lines f); discriminate. Qed.

Lemma lines_app_nl l f : no_nl l = true -> lines (l ++ 10 :: f) = l :: lines f.
Proof.
  induction l as [|c l IH]; intro H.
  - reflexivity.
  - cbn [no_nl forallb] in H. apply andb_true_iff in H as [Hc Hl].
    cbn [app lines]. destruct (c =? 10); [discriminate|].
    fold (no_nl l) in Hl. rewrite (IH Hl). reflexivity.
Qed.

Lemma lines_no_nl l : no_nl l = true -> l <> [] -> lines l = [l].
Proof.
  induction l as [|c l IH]; intros H Hne; [contradiction|].
  cbn [no_nl forallb] in H. apply andb_true_iff in H as [Hc Hl]. fold (no_nl l) in Hl.
  cbn [lines]. destruct (c =? 10); [discriminate|].
  destruct l as [|d l]; [reflexivity|].
  rewrite IH; [reflexivity|assumption|discriminate].
Qed.

Lemma ends_nl_cons c f : f <> [] -> ends_nl (c :: f) = ends_nl f.
Proof. intro Hne. destruct f as [|d f]; [contradiction|reflexivity]. Qed.

(* the central fact about the fixed writer: appending sep ++ l [++ newline] to ANY file adds
   exactly the line l and leaves every earlier line as it was *)
Lemma lines_snoc f l : no_nl l = true -> lines (f ++ sep f ++ l ++ [10]) = lines f ++ [l].
Proof.
  intro Hl. induction f as [|c f IH].
  - cbn [sep ends_nl app]. rewrite lines_app_nl by assumption. reflexivity.
  - destruct f as [|d f].
    + unfold sep. cbn [ends_nl app]. destruct (c =? 10) eqn:Ec.
      * cbn [app lines]. rewrite Ec. rewrite lines_app_nl by assumption. reflexivity.
      * cbn [app lines]. rewrite Ec. cbn [N.eqb]. rewrite lines_app_nl by assumption.
        reflexivity.
    + unfold sep in *. rewrite ends_nl_cons by discriminate.
      change ((c :: d :: f) ++ ?x) with (c :: ((d :: f) ++ x)).
      rewrite (lines_cons c (d :: f)), (lines_cons c ((d :: f) ++ _)). rewrite IH.
      destruct (c =? 10); [reflexivity|].
      destruct (lines (d :: f)) as [|x xs] eqn:E; [exfalso; eapply lines_nonempty; eassumption|].
      reflexivity.
Qed.

(* same without the final newline (a record whose newline did not reach the disk) *)
Lemma lines_snoc_open f l : no_nl l = true -> l <> [] -> lines (f ++ sep f ++ l) = lines f ++ [l].
Proof.
  intros Hl Hne. induction f as [|c f IH].
  - cbn [sep ends_nl app]. apply lines_no_nl; assumption.
  - destruct f as [|d f].
    + unfold sep. cbn [ends_nl app]. destruct (c =? 10) eqn:Ec.
      * cbn [app lines]. rewrite Ec. rewrite lines_no_nl by assumption. reflexivity.
      * cbn [app lines]. rewrite Ec. cbn [N.eqb]. rewrite lines_no_nl by assumption.
        reflexivity.
    + unfold sep in *. rewrite ends_nl_cons by discriminate.
      change ((c :: d :: f) ++ ?x) with (c :: ((d :: f) ++ x)).
      rewrite (lines_cons c (d :: f)), (lines_cons c ((d :: f) ++ _)). rewrite IH.
      destruct (c =? 10); [reflexivity|].
      destruct (lines (d :: f)) as [|x xs] eqn:E; [exfalso; eapply lines_nonempty; eassumption|].
      reflexivity.
Qed.

(* only the separator reached the disk *)
Lemma lines_sep f : lines (f ++ sep f) = lines f.
Proof.
  induction f as [|c f IH]; [reflexivity|].
  destruct f as [|d f].
  - unfold sep. cbn [ends_nl app]. destruct (c =? 10) eqn:Ec.
    + reflexivity.
    + cbn [app lines]. rewrite Ec. reflexivity.
  - unfold sep in *. rewrite ends_nl_cons by discriminate.
    change ((c :: d :: f) ++ ?x) with (c :: ((d :: f) ++ x)).
    rewrite (lines_cons c (d :: f)), (lines_cons c ((d :: f) ++ _)). rewrite IH. reflexivity.
Qed.

Lemma load_snoc f l : no_nl l = true -> load (f ++ sep f ++ l ++ [10]) = load f ++ dec_entry l.
Proof.
  intro H. unfold load. rewrite lines_snoc by assumption. rewrite flat_map_app. cbn [flat_map].
  rewrite app_nil_r. reflexivity.
Qed.

Lemma dec_entry_nil : dec_entry [] = [].
Proof. reflexivity. Qed.

Lemma load_snoc_open f l : no_nl l = true -> load (f ++ sep f ++ l) = load f ++ dec_entry l.
Proof.
  intro H. destruct l as [|c l].
  - rewrite app_nil_r. unfold load. rewrite lines_sep. rewrite dec_entry_nil, app_nil_r. reflexivity.
  - unfold load. rewrite lines_snoc_open by (assumption || discriminate).
    rewrite flat_map_app. cbn [flat_map]. rewrite app_nil_r. reflexivity.
Qed.

(* ------------------------------------------------------------------ *)
(* prefixes                                                            *)

Definition prefix (p l : bytes) : Prop := exists q, l = p ++ q.
Definition strict_prefix (p l : bytes) : Prop := exists q, q <> [] /\ l = p ++ q.

Lemma prefix_nil_inv p : prefix p [] -> p = [].
Proof. intros [q E]. symmetry in E. apply app_eq_nil in E. tauto. Qed.

Lemma prefix_cons_inv p c l : prefix p (c :: l) -> p = [] \/ exists p', p = c :: p' /\ prefix p' l.
Proof.
  intros [q E]. destruct p as [|x p]; [left; reflexivity|right].
  cbn in E. inversion E; subst. exists p. split; [reflexivity|exists q; reflexivity].
Qed.

(* a prefix of a ++ b is a strict prefix of a, or a followed by a prefix of b *)
Lemma prefix_app_cases p a b :
  prefix p (a ++ b) -> strict_prefix p a \/ exists p', p = a ++ p' /\ prefix p' b.
Proof.
  revert p. induction a as [|c a IH]; intros p H.
  - right. exists p. split; [reflexivity|exact H].
  - cbn [app] in H. apply prefix_cons_inv in H as [->|[p' [-> H]]].
    + left. exists (c :: a). split; [discriminate|reflexivity].
    + apply IH in H as [[q [Hq E]]|[p'' [-> H]]].
      * left. exists q. split; [assumption|]. cbn. rewrite E. reflexivity.
      * right. exists p''. split; [reflexivity|assumption].
Qed.

Lemma strict_prefix_is_prefix p l : strict_prefix p l -> prefix p l.
Proof. intros [q [_ E]]. exists q. exact E. Qed.

Lemma prefix_firstn k (l : bytes) : prefix (firstn k l) l.
Proof. exists (skipn k l). symmetry. apply firstn_skipn. Qed.

Lemma prefix_strict_or_eq p l : prefix p l -> strict_prefix p l \/ p = l.
Proof.
  intros [q E]. destruct q as [|c q].
  - right. rewrite app_nil_r in E. auto.
  - left. exists (c :: q). split; [discriminate|assumption].
Qed.

(* ------------------------------------------------------------------ *)
(* the string escaper, chunk by chunk                                  *)

Definition ge32 (l : bytes) : bool := forallb (fun c => 32 <=? c) l.
Definition high (l : bytes) : bool := forallb (fun c => 128 <=? c) l.

(* one step of esc: (emitted chunk, what the chunk decodes to, rest of the source) *)
Definition step (s : bytes) : bytes * bytes * bytes :=
  match s with
  | [] => ([], [], [])
  | b0 :: t =>
    if b0 <? 128 then (esc_ascii b0, [b0], t)
    else
      match utf8_len s, t with
      | 2%nat, b1 :: t2 => ([b0; b1], [b0; b1], t2)
      | 3%nat, b1 :: b2 :: t3 =>
        if is_ls_ps b0 b1 b2 then ([92; 117; 50; 48; 50; hexd (b2 - 160)], [b0; b1; b2], t3)
        else ([b0; b1; b2], [b0; b1; b2], t3)
      | 4%nat, b1 :: b2 :: b3 :: t4 => ([b0; b1; b2; b3], [b0; b1; b2; b3], t4)
      | _, _ => (esc_fffd, utf_fffd, t)
      end
  end.
Definition chunk s := fst (fst (step s)).
Definition dchunk s := snd (fst (step s)).
Definition rest s := snd (step s).

Lemma esc_step s : s <> [] ->
  esc s = chunk s ++ esc (rest s) /\ coerce s = dchunk s ++ coerce (rest s) /\
  (length (rest s) < length s)%nat.
Proof.
  intro Hne. destruct s as [|b0 t]; [contradiction|].
  unfold chunk, dchunk, rest. cbn [esc coerce step].
  destruct (b0 <? 128).
  - cbn [fst snd length app]. repeat split; lia.
  - destruct (utf8_len (b0 :: t)) as [|[|[|[|[|?]]]]];
      destruct t as [|b1 [|b2 [|b3 t4]]]; cbn [fst snd length app];
      try (repeat split; (reflexivity || lia));
      destruct (is_ls_ps b0 b1 b2); cbn [fst snd length app]; repeat split; (reflexivity || lia).
Qed.

Lemma esc_ind (P : bytes -> Prop) :
  P [] -> (forall s, s <> [] -> P (rest s) -> P s) -> forall s, P s.
Proof.
  intros H0 HS s. remember (length s) as n eqn:En.
  revert s En. induction n as [n IH] using lt_wf_ind. intros s En.
  destruct s as [|c s]; [exact H0|].
  apply HS; [discriminate|].
  eapply IH; [|reflexivity]. subst n.
  apply (esc_step (c :: s)). discriminate.
Qed.

(* what is needed of a chunk *)
Record chunk_good (ch d : bytes) : Prop := {
  cg_ne : ch <> [];
  cg_ge32 : ge32 ch = true;
  cg_dec : forall X, unquote (ch ++ X) = prepend d (unquote X);
  cg_pre : forall p, strict_prefix p ch -> unquote p = None
}.

Lemma prepend_prepend a b o : prepend a (prepend b o) = prepend (a ++ b) o.
Proof. destruct o as [[d r]|]; cbn; [rewrite app_assoc|]; reflexivity. Qed.

Lemma unquote_high1 c X : 128 <= c -> unquote (c :: X) = prepend [c] (unquote X).
Proof.
  intro H. cbn [unquote].
  replace (c =? 34) with false by lia. replace (c <? 32) with false by lia.
  replace (c =? 92) with false by lia. reflexivity.
Qed.

Lemma unquote_high ch X : high ch = true -> unquote (ch ++ X) = prepend ch (unquote X).
Proof.
  induction ch as [|c ch IH]; intro H.
  - cbn. destruct (unquote X) as [[d r]|]; reflexivity.
  - cbn [high forallb] in H. apply andb_true_iff in H as [Hc Hh]. fold (high ch) in Hh.
    cbn [app]. rewrite unquote_high1 by lia. rewrite IH by assumption.
    rewrite prepend_prepend. reflexivity.
Qed.

Lemma high_prefix p ch : prefix p ch -> high ch = true -> high p = true.
Proof.
  intros [q ->] H. unfold high in *. rewrite forallb_app in H. apply andb_true_iff in H. tauto.
Qed.

Lemma high_ge32 ch : high ch = true -> ge32 ch = true.
Proof.
  unfold high, ge32. intro H. rewrite forallb_forall in *. intros x Hx. specialize (H x Hx). lia.
Qed.

Lemma high_chunk_good ch : ch <> [] -> high ch = true -> chunk_good ch ch.
Proof.
  intros Hne Hh. constructor.
  - assumption.
  - apply high_ge32; assumption.
  - intro X. apply unquote_high; assumption.
  - intros p Hp. apply strict_prefix_is_prefix in Hp.
    rewrite <- (app_nil_r p). rewrite unquote_high by (eapply high_prefix; eassumption).
    reflexivity.
Qed.

(* strict prefixes of a concrete short chunk, by length *)
Lemma strict_prefix_firstn p ch : strict_prefix p ch ->
  exists k, (k < length ch)%nat /\ p = firstn k ch.
Proof.
  intros [q [Hq ->]]. exists (length p). split.
  - rewrite app_length. destruct q; [contradiction|cbn; lia].
  - rewrite firstn_app, Nat.sub_diag, firstn_all. cbn. rewrite app_nil_r. reflexivity.
Qed.

Ltac small_prefixes :=
  let p := fresh "p" in let Hp := fresh "Hp" in let k := fresh "k" in let Hk := fresh "Hk" in
  intros p Hp; apply strict_prefix_firstn in Hp as [k [Hk ->]];
  match type of Hk with (_ < ?n)%nat => let v := eval vm_compute in n in change n with v in Hk end;
  do 7 (destruct k as [|k]; [reflexivity|]); lia.

Lemma esc_fffd_good : chunk_good esc_fffd utf_fffd.
Proof.
  constructor; [discriminate|reflexivity|intro X; reflexivity|small_prefixes].
Qed.

Lemma ls_ps_good b2 : (b2 =? 168) || (b2 =? 169) = true ->
  chunk_good [92; 117; 50; 48; 50; hexd (b2 - 160)] [226; 128; b2].
Proof.
  intro H. assert (b2 = 168 \/ b2 = 169) as [->| ->] by lia;
    (constructor; [discriminate|reflexivity|intro X; reflexivity|small_prefixes]).
Qed.

Definition ascii_good (b : N) : Prop := chunk_good (esc_ascii b) [b].

Lemma ascii_table : Forall ascii_good (map N.of_nat (seq 0 128)).
Proof.
  set (l := map N.of_nat (seq 0 128)). vm_compute in l. subst l.
  repeat (apply Forall_cons;
          [constructor; [discriminate|reflexivity|intro X; reflexivity|small_prefixes]|]).
  apply Forall_nil.
Qed.

Lemma ascii_chunk_good b : b < 128 -> chunk_good (esc_ascii b) [b].
Proof.
  intro H. pose proof ascii_table as T. rewrite Forall_forall in T. apply T.
  replace b with (N.of_nat (N.to_nat b)) by lia. apply in_map. apply in_seq. lia.
Qed.
