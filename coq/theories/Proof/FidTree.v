(* Proofs about Model/FidTree.v: for every tree of forks (any nesting of blocks,
   each run under any of the schedulers) every id that is registered is released
   exactly once, and the table ends as it started. *)
From Coq Require Import Lia Permutation.
From Murex Require Import Base.Outcome Base.Bytes Model.RunMode Model.Fid Model.FidTree Proof.Fid.

(* ---- small facts --------------------------------------------------- *)
Lemma regs_of_app a b : regs_of (a ++ b) = regs_of a ++ regs_of b.
Proof. unfold regs_of. apply flat_map_app. Qed.
Lemma deregs_of_app a b : deregs_of (a ++ b) = deregs_of a ++ deregs_of b.
Proof. unfold deregs_of. apply flat_map_app. Qed.
Lemma regs_of_regs l : regs_of (map OReg l) = l.
Proof. induction l as [|x l IH]; [reflexivity|]. cbn. f_equal. exact IH. Qed.
Lemma regs_of_deregs l : regs_of (map ODereg l) = [].
Proof. induction l as [|x l IH]; [reflexivity|]. exact IH. Qed.
Lemma deregs_of_regs l : deregs_of (map OReg l) = [].
Proof. induction l as [|x l IH]; [reflexivity|]. exact IH. Qed.
Lemma deregs_of_deregs l : deregs_of (map ODereg l) = l.
Proof. induction l as [|x l IH]; [reflexivity|]. cbn. f_equal. exact IH. Qed.

Lemma in_open_after_regs hs : forall opn x,
  In x (open_after opn (map OReg hs)) <-> In x hs \/ In x opn.
Proof.
  intros opn x. rewrite open_after_regs. rewrite in_app_iff, <- in_rev. tauto.
Qed.

Lemma in_open_after_deregs hs : forall opn x,
  In x (open_after opn (map ODereg hs)) <-> In x opn /\ ~ In x hs.
Proof.
  induction hs as [|h hs IH]; intros opn x; cbn [map open_after]; [cbn; tauto|].
  rewrite IH. split.
  - intros [H1 H2]. apply in_remove in H1 as [H1 NE]. split; [exact H1|].
    intros [E|I]; [congruence|contradiction].
  - intros [H1 H2]. split.
    + apply in_in_remove; [|exact H1]. intro E. apply H2. left. congruence.
    + intro I. apply H2. right. exact I.
Qed.

Lemma fresh_regs_of_seq ops : forall h k seen,
  regs_of ops = seq h k -> (forall y, In y seen -> y < h) -> fresh_regs seen ops = true.
Proof.
  induction ops as [|o ops IH]; intros h k seen R S; [reflexivity|].
  destruct o as [x|x]; cbn [fresh_regs].
  - cbn in R. destruct k as [|k]; [discriminate|]. cbn in R. injection R as -> R.
    apply andb_true_iff; split.
    + apply negb_true_iff. apply not_true_is_false. intro E.
      apply existsb_exists in E as [y [H1 H2]]. apply Nat.eqb_eq in H2. subst y.
      specialize (S _ H1). lia.
    + apply (IH (Datatypes.S h) k); [exact R|]. intros y [E|I]; [lia|]. specialize (S _ I). lia.
  - apply (IH h k); assumption.
Qed.

(* ---- the invariant of a block of operations using handles h .. h'-1 - *)
Definition balanced (ops : list op) (h h' : nat) : Prop :=
  h <= h' /\
  regs_of ops = seq h (h' - h) /\
  Permutation (deregs_of ops) (seq h (h' - h)) /\
  (forall opn x, (forall y, In y opn -> y < h) -> (In x (open_after opn ops) <-> In x opn)).

Lemma balanced_nil h : balanced [] h h.
Proof.
  repeat split; try lia; rewrite ?Nat.sub_diag; cbn; auto.
Qed.

Lemma balanced_app a b h h1 h2 : balanced a h h1 -> balanced b h1 h2 -> balanced (a ++ b) h h2.
Proof.
  intros (A1 & A2 & A3 & A4) (B1 & B2 & B3 & B4).
  assert (E : h2 - h = (h1 - h) + (h2 - h1)) by lia.
  assert (E1 : h + (h1 - h) = h1) by lia.
  split; [lia|]. split; [|split].
  - rewrite regs_of_app, A2, B2, E, seq_app, E1. reflexivity.
  - rewrite deregs_of_app, E, seq_app, E1. apply Permutation_app; assumption.
  - intros opn x H0. rewrite open_after_app.
    assert (BB : forall y, In y (open_after opn a) -> y < h1).
    { intros y Hy. apply (A4 opn y) in Hy; [|assumption]. specialize (H0 _ Hy). lia. }
    rewrite (B4 (open_after opn a) x BB). apply A4. exact H0.
Qed.

(* one fork: [register the fork] register n processes; inner operations; dispose
   of the n processes; [deregister the fork] *)
Lemma balanced_node (reg : bool) n ko h h2 :
  let h1 := if reg then S h else h in
  balanced ko (h1 + n) h2 ->
  balanced ((if reg then [OReg h] else []) ++ map OReg (seq h1 n) ++ ko ++
            map ODereg (seq h1 n) ++ (if reg then [ODereg h] else [])) h h2.
Proof.
  intros h1 (K1 & K2 & K3 & K4).
  assert (HH : h1 = (if reg then 1 else 0) + h) by (subst h1; destruct reg; lia).
  assert (HL : h <= h1) by (unfold h1; destruct reg; lia).
  assert (HS : reg = true -> h1 = S h) by (unfold h1; intros ->; reflexivity).
  set (R := if reg then [h] else []).
  assert (RR : regs_of (if reg then [OReg h] else []) = R) by (destruct reg; reflexivity).
  assert (RD : deregs_of (if reg then [OReg h] else []) = []) by (destruct reg; reflexivity).
  assert (DR : regs_of (if reg then [ODereg h] else []) = []) by (destruct reg; reflexivity).
  assert (DD : deregs_of (if reg then [ODereg h] else []) = R) by (destruct reg; reflexivity).
  assert (SQ : seq h (h2 - h) = R ++ seq h1 n ++ seq (h1 + n) (h2 - (h1 + n))).
  { subst R. destruct reg.
    - replace (h2 - h) with (S (n + (h2 - (h1 + n)))) by lia. cbn [seq app]. f_equal.
      rewrite seq_app. subst h1. reflexivity.
    - replace (h2 - h) with (n + (h2 - (h1 + n))) by lia. rewrite seq_app. subst h1. reflexivity. }
  split; [lia|]. split; [|split].
  - rewrite !regs_of_app, RR, DR, regs_of_regs, regs_of_deregs, K2, SQ, !app_nil_r. reflexivity.
  - rewrite !deregs_of_app, RD, DD, deregs_of_regs, deregs_of_deregs, SQ. cbn [app].
    (* K ++ S ++ R  ~  R ++ S ++ K' *)
    eapply Permutation_trans; [apply Permutation_app_comm|]. rewrite <- !app_assoc.
    eapply Permutation_trans; [apply Permutation_app_swap_app|].
    apply Permutation_app_head. apply Permutation_app_head. exact K3.
  - intros opn x H0. rewrite !open_after_app.
    set (o1 := open_after opn (if reg then [OReg h] else [])).
    assert (O1 : forall y, In y o1 <-> In y R \/ In y opn).
    { subst o1 R. destruct reg; cbn; tauto. }
    set (o2 := open_after o1 (map OReg (seq h1 n))).
    assert (O2 : forall y, In y o2 <-> In y (seq h1 n) \/ In y o1) by (intro y; apply in_open_after_regs).
    assert (RB : forall y, In y R -> y = h /\ reg = true).
    { subst R. destruct reg; intros y Hy; [destruct Hy as [<-|[]]; auto|destruct Hy]. }
    assert (B2 : forall y, In y o2 -> y < h1 + n).
    { intros y Hy. apply O2 in Hy as [Hy|Hy]; [apply in_seq in Hy; lia|].
      apply O1 in Hy as [Hy|Hy]; [apply RB in Hy as [-> E]; specialize (HS E); lia|].
      specialize (H0 _ Hy). lia. }
    set (o3 := open_after o2 ko).
    assert (O3 : forall y, In y o3 <-> In y o2) by (intro y; apply K4; exact B2).
    set (o4 := open_after o3 (map ODereg (seq h1 n))).
    assert (O4 : forall y, In y o4 <-> In y o3 /\ ~ In y (seq h1 n)) by (intro y; apply in_open_after_deregs).
    assert (X4 : In x o4 <-> In x R \/ In x opn).
    { rewrite O4, O3, O2, O1. split.
      - intros [[I|I] NS]; [contradiction|exact I].
      - intro I. split; [right; exact I|]. intro S. apply in_seq in S.
        destruct I as [I|I]; [apply RB in I as [-> E]; specialize (HS E); lia|].
        specialize (H0 _ I). lia. }
    destruct reg; cbn [open_after].
    + split.
      * intro H. apply in_remove in H as [H NE]. apply X4 in H as [I|I]; [apply RB in I as [E _]; congruence|exact I].
      * intro H. apply in_in_remove; [|apply X4; right; exact H]. intro E. specialize (H0 _ H). lia.
    + rewrite X4. split; [intros [I|I]; [apply RB in I as [_ E]; discriminate|exact I]|intro I; right; exact I].
Qed.

(* ---- trees --------------------------------------------------------- *)
Fixpoint kids_ops (ran : list bool) (h : nat) (ks : list ftree) (ow : list nat) : list op * nat :=
  match ks with
  | [] => ([], h)
  | k :: ks' =>
      if nth (hd 0 ow) ran false
      then let '(o1, h') := tree_ops h k in
           let '(o2, h'') := kids_ops ran h' ks' (tl ow) in (o1 ++ o2, h'')
      else kids_ops ran h ks' (tl ow)
  end.

Lemma tree_ops_node h reg m ps kids owner :
  tree_ops h (FNode reg m ps kids owner) =
  let h1 := if reg then S h else h in
  let n := length ps in
  let '(ko, h2) := kids_ops (fst (execute m ps)) (h1 + n) kids owner in
  ((if reg then [OReg h] else []) ++ map OReg (seq h1 n) ++ ko ++
   map ODereg (seq h1 (length (disposals m ps))) ++ (if reg then [ODereg h] else []), h2).
Proof.
  cbn [tree_ops].
  set (ran := fst (execute m ps)).
  set (F := fix kids_ops (h0 : nat) (ks : list ftree) (ow : list nat) {struct ks} : list op * nat :=
         match ks with
         | [] => ([], h0)
         | k :: ks' =>
             if nth (hd 0 ow) ran false
             then let '(o1, h') := tree_ops h0 k in
                  let '(o2, h'') := kids_ops h' ks' (tl ow) in (o1 ++ o2, h'')
             else kids_ops h0 ks' (tl ow)
         end).
  assert (E : forall ks h0 ow, F h0 ks ow = kids_ops ran h0 ks ow).
  { induction ks as [|k ks IH]; intros h0 ow; [reflexivity|].
    cbn [kids_ops]. unfold F at 1. fold F. destruct (nth (hd 0 ow) ran false).
    - destruct (tree_ops h0 k) as [o1 h']. rewrite IH. reflexivity.
    - apply IH. }
  rewrite E. reflexivity.
Qed.

Definition tree_balanced (t : ftree) : Prop :=
  forall h, balanced (fst (tree_ops h t)) h (snd (tree_ops h t)).

Lemma kids_balanced ran ks : Forall tree_balanced ks ->
  forall h ow, balanced (fst (kids_ops ran h ks ow)) h (snd (kids_ops ran h ks ow)).
Proof.
  induction 1 as [|k ks Hk _ IH]; intros h ow; [apply balanced_nil|].
  cbn [kids_ops]. destruct (nth (hd 0 ow) ran false); [|apply IH].
  specialize (Hk h). destruct (tree_ops h k) as [o1 h'].
  specialize (IH h' (tl ow)). destruct (kids_ops ran h' ks (tl ow)) as [o2 h''].
  cbn [fst snd] in *. eapply balanced_app; eassumption.
Qed.

Lemma ftree_induction (P : ftree -> Prop) :
  (forall reg m ps kids owner, Forall P kids -> P (FNode reg m ps kids owner)) ->
  forall t, P t.
Proof.
  intro H. fix IH 1. intros [reg m ps kids owner]. apply H.
  induction kids as [|k kids IHk]; constructor; [apply IH|exact IHk].
Qed.

(* every tree of forks is balanced: the handles it registers are h .. h'-1, each
   exactly once, each is deregistered exactly once, and nothing stays open *)
Theorem tree_ops_balanced : forall t, tree_balanced t.
Proof.
  apply ftree_induction. intros reg m ps kids owner HK h.
  rewrite tree_ops_node. cbv zeta.
  pose proof (kids_balanced (fst (execute m ps)) kids HK
                ((if reg then S h else h) + length ps) owner) as KB.
  destruct (kids_ops (fst (execute m ps)) ((if reg then S h else h) + length ps) kids owner) as [ko h2].
  cbn [fst snd] in *. rewrite disposals_cover.
  apply (balanced_node reg (length ps) ko h h2). exact KB.
Qed.

Theorem tree_registered_once t h :
  let ops := fst (tree_ops h t) in let h' := snd (tree_ops h t) in
  regs_of ops = seq h (h' - h) /\ Permutation (deregs_of ops) (regs_of ops).
Proof.
  destruct (tree_ops_balanced t h) as (_ & R & D & _). cbv zeta. split; [exact R|].
  rewrite R. exact D.
Qed.

(* ... so running the whole tree leaves exactly the ids the table started with *)
Theorem tree_released t tab :
  (forall x, In x (live tab) -> (x <= latest tab)%N) ->
  forall x, In x (live (fst (run_ops (tab, []) (fst (tree_ops 0 t))))) <-> In x (live tab).
Proof.
  intro B. destruct (tree_ops_balanced t 0) as (_ & R & _ & O).
  apply balanced_schedule_clean; [exact B| |].
  - eapply fresh_regs_of_seq; [exact R|]. intros y [].
  - destruct (open_after [] (fst (tree_ops 0 t))) as [|a l] eqn:E; [reflexivity|].
    exfalso. apply (O [] a); [intros y []|]. rewrite E. left. reflexivity.
Qed.

(* the number of registrations is tree_count *)
Lemma kids_count ran ks : Forall (fun k => forall h, snd (tree_ops h k) - h = tree_count k /\ h <= snd (tree_ops h k)) ks ->
  forall h ow, h <= snd (kids_ops ran h ks ow) /\
    snd (kids_ops ran h ks ow) - h =
    (fix go (ks : list ftree) (ow : list nat) {struct ks} : nat :=
       match ks with
       | [] => 0
       | k :: ks' => (if nth (hd 0 ow) ran false then tree_count k else 0) + go ks' (tl ow)
       end) ks ow.
Proof.
  induction 1 as [|k ks Hk _ IH]; intros h ow; [cbn; lia|].
  cbn [kids_ops]. destruct (nth (hd 0 ow) ran false).
  - destruct (Hk h) as [C L]. destruct (tree_ops h k) as [o1 h']. cbn [snd] in *.
    destruct (IH h' (tl ow)) as [L2 C2]. destruct (kids_ops ran h' ks (tl ow)) as [o2 h'']. cbn [snd] in *.
    lia.
  - destruct (IH h (tl ow)) as [L2 C2]. lia.
Qed.

Theorem tree_ops_count : forall t h, snd (tree_ops h t) - h = tree_count t /\ h <= snd (tree_ops h t).
Proof.
  apply (ftree_induction (fun t => forall h, snd (tree_ops h t) - h = tree_count t /\ h <= snd (tree_ops h t))).
  intros reg m ps kids owner HK h. rewrite tree_ops_node. cbv zeta.
  destruct (kids_count (fst (execute m ps)) kids HK ((if reg then S h else h) + length ps) owner) as [L C].
  destruct (kids_ops (fst (execute m ps)) ((if reg then S h else h) + length ps) kids owner) as [ko h2].
  cbn [snd tree_count] in *. destruct reg; lia.
Qed.
