(* C06 / C07 — the fold-pass machine of Model/Expr.v equals evaluation of the
   precedence-climbing tree of Model/ExprSpec.v, for every token list, any
   nesting of parentheses, and any operator semantics `apply`. *)
From Coq Require Import List NArith ZArith Bool Lia Arith.
From Murex Require Import Base.Outcome Base.Bytes Model.Expr Model.ExprSpec Proof.ExprClimb.
Import ListNotations.

(* ---- structured view of an alternating node list ---- *)

Definition flat_rest (rest : list (sym * value)) : list node :=
  flat_map (fun ov => [NO (fst ov); NV (snd ov)]) rest.
Definition flat_pre (pre : list (value * sym)) : list node :=
  flat_map (fun vo => [NV (fst vo); NO (snd vo)]) pre.
Definition flatten (e : value * list (sym * value)) : list node :=
  NV (fst e) :: flat_rest (snd e).

Definition pred_of (order : N) (o : sym) : bool := (order <=? rank o)%N.
Definition preds (gs : list N) : list (sym -> bool) := map pred_of gs.

Section MachineProof.
  Variable apply : sym -> value -> value -> option value.

  (* one pass on the structured form, aborting on the first error like the machine *)
  Fixpoint apass (p : sym -> bool) (v0 : value) (rest : list (sym * value))
    : option (value * list (sym * value)) :=
    match rest with
    | [] => Some (v0, [])
    | (o, v) :: r =>
      if p o then
        match apply o v0 v with Some w => apass p w r | None => None end
      else
        match apass p v r with Some (v', r') => Some (v0, (o, v') :: r') | None => None end
    end.

  Fixpoint arun (ps : list (sym -> bool)) (e : value * list (sym * value))
    : option (value * list (sym * value)) :=
    match ps with
    | [] => Some e
    | p :: ps' => match apass p (fst e) (snd e) with Some e' => arun ps' e' | None => None end
    end.

  Definition skippable (order : N) (n : node) : Prop := node_ge order n = false.

  Lemma scan_skip order : forall l lrev r,
      Forall (skippable order) l ->
      scan order lrev (l ++ r) = scan order (rev l ++ lrev) r.
  Proof.
    induction l as [|n l IH]; intros lrev r HF; [reflexivity|].
    inversion HF as [|x y Hn Hl]; subst.
    cbn [app scan]. unfold skippable in Hn. rewrite Hn.
    rewrite IH by exact Hl. cbn [rev]. rewrite <- app_assoc. reflexivity.
  Qed.

  (* restarting the scan at position 1 after a fold = continuing after the folded node *)
  Lemma pass_restart f order l r x t :
      Forall (skippable order) l -> x :: t = l ++ r -> l <> [] ->
      pass_from apply f order [x] t = pass_from apply f order (rev l) r.
  Proof.
    intros HF Heq Hne. destruct l as [|y l']; [congruence|].
    cbn [app] in Heq. inversion Heq; subst.
    inversion HF as [|a b Hy Hl']; subst.
    destruct f; [reflexivity|]. cbn [pass_from].
    rewrite (scan_skip order l' [y] r Hl'). cbn [rev].
    destruct (scan order (rev l' ++ [y]) r); [|reflexivity].
    rewrite rev_app_distr, rev_involutive. reflexivity.
  Qed.

  Lemma flat_pre_skippable order pre :
      Forall (fun vo => pred_of order (snd vo) = false) pre ->
      Forall (skippable order) (flat_pre pre).
  Proof.
    induction pre as [|[v o] pre IH]; intro HF; [constructor|].
    inversion HF as [|x y Hx Hr]; subst. cbn [flat_pre flat_map app].
    constructor; [reflexivity|]. constructor; [exact Hx|]. apply IH. exact Hr.
  Qed.

  Lemma pass_from_step_skip f order lrev n r :
      node_ge order n = false ->
      pass_from apply (S f) order lrev (n :: r) = pass_from apply (S f) order (n :: lrev) r.
  Proof.
    intro H. cbn [pass_from scan]. rewrite H.
    destruct (scan order (n :: lrev) r); [|reflexivity].
    cbn [rev]. rewrite <- app_assoc. reflexivity.
  Qed.

  (* (2) the machine's pass on a flattened structured expression *)
  Lemma pass_struct order : forall rest f pre v0,
      Forall (fun vo => pred_of order (snd vo) = false) pre ->
      length rest < f ->
      pass_from apply f order (rev (flat_pre pre ++ [NV v0])) (flat_rest rest) =
      match apass (pred_of order) v0 rest with
      | Some (v', r') => Ok (flat_pre pre ++ NV v' :: flat_rest r')
      | None => Err 1
      end.
  Proof.
    induction rest as [|[o v] r IH]; intros f pre v0 Hpre Hf.
    - destruct f; [cbn in Hf; lia|]. cbn [flat_rest flat_map pass_from scan apass].
      rewrite rev_involutive, app_nil_r. reflexivity.
    - destruct f; [cbn in Hf; lia|]. cbn [length] in Hf.
      cbn [flat_rest flat_map app fst snd]. fold (flat_rest r).
      cbn [apass].
      destruct (pred_of order o) eqn:Epo.
      + (* fold here *)
        cbn [pass_from scan]. cbn [node_ge]. unfold pred_of in Epo. rewrite Epo.
        rewrite rev_app_distr. cbn [rev app].
        destruct (apply o v0 v) as [c|]; [|reflexivity].
        rewrite rev_involutive.
        destruct (flat_pre pre ++ NV c :: flat_rest r) as [|x t] eqn:El.
        { exfalso. eapply app_cons_not_nil. symmetry. exact El. }
        rewrite (pass_restart f order (flat_pre pre ++ [NV c]) (flat_rest r) x t).
        * apply IH; [exact Hpre|lia].
        * apply Forall_app. split; [apply flat_pre_skippable; exact Hpre|].
          constructor; [reflexivity|constructor].
        * rewrite <- app_assoc. cbn [app]. symmetry. exact El.
        * intro Hc. eapply app_cons_not_nil. symmetry. exact Hc.
      + (* skip the operator and the value after it *)
        rewrite pass_from_step_skip by (cbn [node_ge]; exact Epo).
        rewrite pass_from_step_skip by reflexivity.
        assert (Hl : NV v :: NO o :: rev (flat_pre pre ++ [NV v0]) =
                     rev (flat_pre (pre ++ [(v0, o)]) ++ [NV v])).
        { unfold flat_pre. rewrite flat_map_app. cbn [flat_map fst snd app].
          rewrite !rev_app_distr. cbn [rev app]. reflexivity. }
        rewrite Hl.
        rewrite IH; [|apply Forall_app; split; [exact Hpre|constructor; [exact Epo|constructor]]|lia].
        destruct (apass (pred_of order) v r) as [[v' r']|]; [|reflexivity].
        unfold flat_pre. rewrite flat_map_app. cbn [flat_map fst snd app flat_rest].
        rewrite <- app_assoc. reflexivity.
  Qed.

  Lemma flat_rest_length rest : length (flat_rest rest) = 2 * length rest.
  Proof. induction rest as [|[o v] r IH]; [reflexivity|]. cbn [flat_rest flat_map app length] in *. fold (flat_rest r). lia. Qed.

  Lemma pass_flat order e :
      pass apply order (flatten e) =
      match apass (pred_of order) (fst e) (snd e) with
      | Some e' => Ok (flatten e')
      | None => Err 1
      end.
  Proof.
    destruct e as [v0 rest]. unfold pass, flatten. cbn [fst snd].
    rewrite pass_from_step_skip by reflexivity.
    pose proof (pass_struct order rest (S (length (NV v0 :: flat_rest rest))) [] v0 (Forall_nil _)) as H.
    cbn [flat_pre flat_map app rev] in H. rewrite H.
    - destruct (apass (pred_of order) v0 rest) as [[v' r']|]; reflexivity.
    - cbn [length]. rewrite flat_rest_length. lia.
  Qed.

  Lemma run_passes_flat gs : forall e,
      run_passes apply gs (flatten e) =
      match arun (preds gs) e with
      | Some e' => Ok (flatten e')
      | None => Err 1
      end.
  Proof.
    induction gs as [|g gs IH]; intro e; [reflexivity|].
    cbn [run_passes preds map arun]. rewrite pass_flat.
    destruct (apass (pred_of g) (fst e) (snd e)) as [e'|]; [|reflexivity].
    cbn [obind]. apply IH.
  Qed.

  Lemma alternating_flat_rest rest : alternating false (flat_rest rest) = true.
  Proof. induction rest as [|[o v] r IH]; [reflexivity|]. cbn. exact IH. Qed.

  Definition lone (e : value * list (sym * value)) : bool :=
    match e with (VStr _, []) => true | _ => false end.

  Lemma lone_string_flatten e : lone_string (flatten e) = lone e.
  Proof.
    destruct e as [v0 [|[o v] r]]; cbn.
    - destruct v0; reflexivity.
    - destruct v0; reflexivity.
  Qed.

  Definition afinal (r : option (value * list (sym * value))) : option value :=
    match r with Some (v, []) => Some v | _ => None end.

  (* the machine on a flattened structured expression *)
  Lemma eval_nodes_flat gs e :
      eval_nodes apply gs (flatten e) =
      to_outcome (if lone e then None else afinal (arun (preds gs) e)).
  Proof.
    unfold eval_nodes, validate. rewrite lone_string_flatten.
    assert (Ha : alternating true (flatten e) = true).
    { destruct e as [v0 rest]. cbn. apply alternating_flat_rest. }
    rewrite Ha. cbn [andb].
    destruct (lone e); [reflexivity|]. cbn [negb].
    rewrite run_passes_flat.
    destruct (arun (preds gs) e) as [[v r]|]; [|reflexivity].
    cbn [obind afinal]. destruct r as [|[o w] r]; reflexivity.
  Qed.

  (* ---- (3) abort semantics = option-lifted (poisoning) semantics ---- *)

  Notation lap := (lift_ap apply).
  Notation drest_t := (list (sym * option value)).

  Definition lift_rest (rest : list (sym * value)) : drest_t :=
    map (fun ov => (fst ov, Some (snd ov))) rest.
  Definition lift_e (e : value * list (sym * value)) : option value * drest_t :=
    (Some (fst e), lift_rest (snd e)).

  Definition is_none {X} (d : option X) : bool := match d with None => true | _ => false end.
  Definition has_none (e : option value * drest_t) : bool :=
    is_none (fst e) || existsb (fun od => is_none (snd od)) (snd e).

  Lemma apass_lift p : forall rest v0 v' r',
      apass p v0 rest = Some (v', r') ->
      spass lap p (Some v0) (lift_rest rest) = (Some v', lift_rest r').
  Proof.
    induction rest as [|[o v] r IH]; intros v0 v' r' H; cbn [apass] in H.
    - inversion H; subst. reflexivity.
    - cbn [lift_rest map fst snd spass]. fold (lift_rest r).
      destruct (p o).
      + cbn [lift_ap]. destruct (apply o v0 v) as [w|]; [|discriminate].
        apply IH. exact H.
      + destruct (apass p v r) as [[v1 r1]|] eqn:E; [|discriminate].
        inversion H; subst. rewrite (IH v v1 r1 E). reflexivity.
  Qed.

  Lemma spass_poison p : forall (rest : drest_t) d,
      has_none (d, rest) = true -> has_none (spass lap p d rest) = true.
  Proof.
    induction rest as [|[o a] r IH]; intros d H; [exact H|].
    cbn [spass]. unfold has_none in H. cbn [fst snd existsb] in H.
    destruct (p o).
    - apply IH. unfold has_none. cbn [fst snd].
      destruct d as [x|]; [|reflexivity].
      destruct a as [y|]; [|reflexivity].
      cbn [is_none orb] in H. rewrite H. apply orb_true_r.
    - destruct (spass lap p a r) as [a' r'] eqn:E.
      unfold has_none. cbn [fst snd existsb].
      destruct d as [x|]; [|reflexivity]. cbn [is_none orb] in *.
      pose proof (IH a) as IHa. rewrite E in IHa. unfold has_none in IHa. cbn [fst snd] in IHa.
      apply IHa. exact H.
  Qed.

  Lemma apass_none p : forall rest v0,
      apass p v0 rest = None ->
      has_none (spass lap p (Some v0) (lift_rest rest)) = true.
  Proof.
    induction rest as [|[o v] r IH]; intros v0 H; cbn [apass] in H; [discriminate|].
    cbn [lift_rest map fst snd spass]. fold (lift_rest r).
    destruct (p o).
    - cbn [lift_ap]. destruct (apply o v0 v) as [w|].
      + apply IH. exact H.
      + apply spass_poison. reflexivity.
    - destruct (apass p v r) as [[v1 r1]|] eqn:E; [discriminate|].
      pose proof (IH v E) as IHv.
      destruct (spass lap p (Some v) (lift_rest r)) as [a' r'].
      unfold has_none in *. cbn [fst snd existsb is_none orb] in *. exact IHv.
  Qed.

  Lemma run_poison ps : forall e, has_none e = true -> has_none (run_spasses lap ps e) = true.
  Proof.
    induction ps as [|p ps IH]; intros e H; [exact H|].
    cbn [run_spasses]. apply IH. apply spass_poison. destruct e; exact H.
  Qed.

  Definition final_s (e : option value * drest_t) : option value :=
    match e with (Some v, []) => Some v | _ => None end.

  Lemma final_poison e : has_none e = true -> final_s e = None.
  Proof.
    destruct e as [[v|] [|[o a] r]]; cbn; intro H; try reflexivity. discriminate.
  Qed.

  Lemma arun_lift ps : forall e,
      afinal (arun ps e) = final_s (run_spasses lap ps (lift_e e)).
  Proof.
    induction ps as [|p ps IH]; intro e.
    - destruct e as [v [|[o w] r]]; reflexivity.
    - destruct e as [v0 rest]. cbn [arun run_spasses lift_e fst snd].
      destruct (apass p v0 rest) as [[v' r']|] eqn:E.
      + rewrite (apass_lift p _ _ _ _ E). apply (IH (v', r')).
      + cbn [afinal]. symmetry. apply final_poison. apply run_poison.
        apply apass_none. exact E.
  Qed.

  (* ---- with the core theorem: the machine = climbing on lifted values ---- *)

  Definition join_climb (prec : sym -> nat) (d0 : option value) (dr : drest_t) : option value :=
    match climb lap prec (length dr) d0 1 dr with
    | (d, []) => d
    | _ => None
    end.

  Lemma final_run_eq_climb ps d0 (dr : drest_t) :
      final_s (run_spasses lap ps (d0, dr)) = join_climb (prec_of ps) d0 dr.
  Proof.
    destruct (passes_eq_climb lap ps d0 dr) as [Hf Hs]. unfold join_climb.
    destruct (run_spasses lap ps (d0, dr)) as [x lo].
    destruct (climb lap (prec_of ps) (length dr) d0 1 dr) as [y lo'].
    cbn [fst snd] in *. subst y.
    destruct lo as [|a lo]; destruct lo' as [|b lo'].
    - destruct x; reflexivity.
    - exfalso. destruct Hs as [H1 _]. specialize (H1 eq_refl). discriminate.
    - exfalso. destruct Hs as [_ H2]. specialize (H2 eq_refl). discriminate.
    - destruct x; reflexivity.
  Qed.

  Theorem machine_eq_climb gs e :
      eval_nodes apply gs (flatten e) =
      to_outcome (if lone e then None
                  else join_climb (prec_of (preds gs)) (Some (fst e)) (lift_rest (snd e))).
  Proof.
    rewrite eval_nodes_flat. destruct (lone e); [reflexivity|].
    rewrite arun_lift. unfold lift_e. rewrite final_run_eq_climb. reflexivity.
  Qed.
End MachineProof.

(* ---- tokens with parentheses ---- *)

Fixpoint ptok_ind' (P : ptok -> Prop)
         (HV : forall v, P (PV v)) (HO : forall o, P (PO o))
         (HP : forall sub, Forall P sub -> P (PP sub)) (t : ptok) : P t :=
  match t with
  | PV v => HV v
  | PO o => HO o
  | PP sub =>
    HP sub ((fix go (l : list ptok) : Forall P l :=
               match l with
               | [] => Forall_nil P
               | x :: r => Forall_cons x (ptok_ind' P HV HO HP x) (go r)
               end) sub)
  end.

Lemma omapM_cons {A B} (f : A -> Outcome B) x r :
  omapM f (x :: r) = obind (f x) (fun y => omap (cons y) (omapM f r)).
Proof. reflexivity. Qed.

Lemma parse_operand_single t tr : parse_operand t = Some tr -> is_single tr = true.
Proof.
  destruct t as [v|o|sub]; cbn [parse_operand]; intro H.
  - inversion H; reflexivity.
  - discriminate.
  - destruct (structure parse_operand ptok_oper sub) as [[t0 rest]|]; [|discriminate].
    destruct (climb_all TNode spec_prec t0 rest); [|discriminate].
    inversion H; reflexivity.
Qed.

Lemma climb_from_node prec f : forall lhs m rest,
    is_single lhs = false -> is_single (fst (climb TNode prec f lhs m rest)) = false.
Proof.
  induction f as [|f IH]; intros lhs m rest H; [exact H|].
  cbn [climb]. destruct rest as [|[o a] r]; [exact H|].
  destruct (m <=? prec o); [|exact H].
  destruct (climb TNode prec f a (S (prec o)) r) as [rhs r1]. apply IH. reflexivity.
Qed.

Lemma climb_all_node prec t0 o a r tr :
    climb_all TNode prec t0 ((o, a) :: r) = Some tr -> is_single tr = false.
Proof.
  unfold climb_all. cbn [length climb].
  destruct (1 <=? prec o) eqn:E.
  - destruct (climb TNode prec (length r) a (S (prec o)) r) as [rhs r1].
    pose proof (climb_from_node prec (length r) (TNode o t0 rhs) 1 r1 eq_refl) as H.
    destruct (climb TNode prec (length r) (TNode o t0 rhs) 1 r1) as [t lo]. cbn [fst] in H.
    destruct lo; [|discriminate]. intro H1; inversion H1; subst. exact H.
  - discriminate.
Qed.

Section GroupProof.
  Variable apply : sym -> value -> value -> option value.
  Variable gs : list N.
  Hypothesis Hiso : forall o o',
      (prec_of (preds gs) o <? prec_of (preds gs) o') = (spec_prec o <? spec_prec o').
  Hypothesis Hpos : forall o, (1 <=? prec_of (preds gs) o) = (1 <=? spec_prec o).

  Notation lap := (lift_ap apply).
  Notation ev := (eval_tree apply).

  Definition ev_rest (rest : list (sym * tree)) : list (sym * option value) :=
    map (fun ot => (fst ot, ev (snd ot))) rest.

  Fixpoint seq_rest (dr : list (sym * option value)) : option (list (sym * value)) :=
    match dr with
    | [] => Some []
    | (o, Some v) :: r => option_map (cons (o, v)) (seq_rest r)
    | (_, None) :: _ => None
    end.

  Lemma seq_rest_some : forall dr rv, seq_rest dr = Some rv -> dr = lift_rest rv.
  Proof.
    induction dr as [|[o [v|]] r IH]; intros rv H; cbn [seq_rest] in H.
    - inversion H; reflexivity.
    - destruct (seq_rest r) as [rv'|]; [|discriminate]. inversion H; subst.
      cbn. rewrite (IH rv' eq_refl). reflexivity.
    - discriminate.
  Qed.

  Lemma seq_rest_none : forall dr, seq_rest dr = None ->
      existsb (fun od : sym * option value => is_none (snd od)) dr = true.
  Proof.
    induction dr as [|[o [v|]] r IH]; intro H; cbn [seq_rest] in H.
    - discriminate.
    - cbn. destruct (seq_rest r); [discriminate|]. apply IH. reflexivity.
    - reflexivity.
  Qed.

  Lemma join_climb_spec d0 dr :
      join_climb apply (prec_of (preds gs)) d0 dr = join_climb apply spec_prec d0 dr.
  Proof.
    unfold join_climb. rewrite (climb_iso lap (prec_of (preds gs)) spec_prec Hiso _ _ 1 1); [reflexivity|].
    apply Forall_forall. intros x _. apply Hpos.
  Qed.

  Lemma poisoned_climb d0 dr :
      has_none (d0, dr) = true -> join_climb apply spec_prec d0 dr = None.
  Proof.
    intro H. rewrite <- join_climb_spec. rewrite <- final_run_eq_climb.
    apply final_poison. apply run_poison. exact H.
  Qed.

  Lemma climb_tree_values t0 rest tr :
      climb_all TNode spec_prec t0 rest = Some tr ->
      join_climb apply spec_prec (ev t0) (ev_rest rest) = ev tr.
  Proof.
    unfold climb_all, join_climb, ev_rest. intro H. rewrite map_length.
    rewrite (climb_map TNode lap ev (fun o a b => eq_refl)).
    destruct (climb TNode spec_prec (length rest) t0 1 rest) as [t lo].
    destruct lo; [|discriminate]. inversion H; subst. reflexivity.
  Qed.

  Definition tok_ok (t : ptok) : Prop :=
    forall tr, parse_operand t = Some tr ->
               eval_tok apply gs t = omap NV (to_outcome (ev tr)).

  Lemma omapM_rest : forall rest l,
      Forall tok_ok l ->
      struct_rest parse_operand ptok_oper l = Some rest ->
      omapM (eval_tok apply gs) l =
      match seq_rest (ev_rest rest) with
      | Some rv => Ok (flat_rest rv)
      | None => Err 1
      end.
  Proof.
    induction rest as [|[o t] rest IH]; intros l HF Hs.
    - destruct l as [|xo [|xv r]]; cbn [struct_rest] in Hs; [reflexivity|discriminate|].
      destruct (ptok_oper xo); [|discriminate].
      destruct (parse_operand xv); [|discriminate].
      destruct (struct_rest parse_operand ptok_oper r); discriminate.
    - destruct l as [|xo [|xv r]]; cbn [struct_rest] in Hs; [discriminate|discriminate|].
      destruct (ptok_oper xo) as [o'|] eqn:Eo; [|discriminate].
      destruct (parse_operand xv) as [t'|] eqn:Ev; [|discriminate].
      destruct (struct_rest parse_operand ptok_oper r) as [rest'|] eqn:Er; [|discriminate].
      inversion Hs; subst o' t' rest'.
      destruct xo as [?|o1|?]; cbn [ptok_oper] in Eo; try discriminate. inversion Eo; subst o1.
      inversion HF as [|a b _ HF1]; subst. inversion HF1 as [|a b Hxv HFr]; subst.
      rewrite !omapM_cons. cbn [eval_tok obind].
      rewrite (Hxv t Ev). rewrite (IH r HFr Er).
      cbn [ev_rest map fst snd seq_rest]. fold (ev_rest rest).
      destruct (ev t) as [v|]; cbn [to_outcome omap obind]; [|reflexivity].
      destruct (seq_rest (ev_rest rest)) as [rv|]; reflexivity.
  Qed.

  Lemma group_ok : forall ts, Forall tok_ok ts ->
      forall t0 rest tr,
        structure parse_operand ptok_oper ts = Some (t0, rest) ->
        climb_all TNode spec_prec t0 rest = Some tr ->
        eval_group apply gs ts = to_outcome (eval_top apply tr).
  Proof.
    intros ts HF t0 rest tr Hs Hc.
    destruct ts as [|x r]; cbn [structure] in Hs; [discriminate|].
    destruct (parse_operand x) as [t0'|] eqn:Ex; [|discriminate].
    destruct (struct_rest parse_operand ptok_oper r) as [rest'|] eqn:Er; [|discriminate].
    inversion Hs; subst t0' rest'.
    inversion HF as [|a b Hx HFr]; subst.
    unfold eval_group. rewrite omapM_cons. rewrite (Hx t0 Ex). rewrite (omapM_rest rest r HFr Er).
    pose proof (climb_tree_values t0 rest tr Hc) as Hval.
    unfold eval_top.
    destruct (ev t0) as [v0|] eqn:E0.
    - cbn [to_outcome omap obind].
      destruct (seq_rest (ev_rest rest)) as [rv|] eqn:Esq.
      + cbn [omap obind].
        change (NV v0 :: flat_rest rv) with (flatten (v0, rv)).
        rewrite machine_eq_climb. cbn [fst snd].
        rewrite join_climb_spec. rewrite <- (seq_rest_some _ _ Esq). rewrite Hval.
        destruct rest as [|[o a] rest1].
        * (* a lone operand *)
          cbn in Esq. inversion Esq; subst rv.
          unfold climb_all in Hc. cbn in Hc. inversion Hc; subst tr.
          rewrite E0. pose proof (parse_operand_single x t0 Ex) as Hsg.
          unfold group_val. rewrite Hsg. destruct v0; reflexivity.
        * pose proof (climb_all_node _ _ _ _ _ _ Hc) as Hnode.
          assert (Hl : lone (v0, rv) = false).
          { destruct rv as [|x1 rv']; [|destruct v0; reflexivity]. exfalso.
            cbn [ev_rest map seq_rest fst snd] in Esq. fold (ev_rest rest1) in Esq.
            destruct (ev a); [|discriminate].
            destruct (seq_rest (ev_rest rest1)); cbn [option_map] in Esq; discriminate. }
          rewrite Hl. unfold group_val. rewrite Hnode.
          destruct (ev tr) as [[]|]; reflexivity.
      + cbn [omap obind].
        rewrite poisoned_climb in Hval.
        * rewrite <- Hval. reflexivity.
        * unfold has_none. cbn [fst snd is_none orb]. apply seq_rest_none. exact Esq.
    - cbn [to_outcome omap obind].
      rewrite poisoned_climb in Hval by reflexivity.
      rewrite <- Hval. reflexivity.
  Qed.

  Lemma all_tok_ok : forall t, tok_ok t.
  Proof.
    apply ptok_ind'.
    - intros v tr H. cbn in H. inversion H; subst. reflexivity.
    - intros o tr H. discriminate.
    - intros sub HF tr H. cbn [parse_operand] in H.
      destruct (structure parse_operand ptok_oper sub) as [[t0 rest]|] eqn:Es; [|discriminate].
      destruct (climb_all TNode spec_prec t0 rest) as [tr'|] eqn:Ec; [|discriminate].
      inversion H; subst tr.
      pose proof (group_ok sub HF t0 rest tr' Es Ec) as Hg.
      cbn [eval_tok eval_tree]. change (group_val tr' (eval_tree apply tr')) with (eval_top apply tr').
      unfold eval_group in Hg. rewrite <- Hg.
      destruct (omapM (eval_tok apply gs) sub) as [ns|k| |]; reflexivity.
  Qed.

  Theorem group_eq_tree ts tr :
      parse_expr ts = Some tr ->
      eval_group apply gs ts = to_outcome (eval_top apply tr).
  Proof.
    unfold parse_expr. intro H.
    destruct (structure parse_operand ptok_oper ts) as [[t0 rest]|] eqn:Es; [|discriminate].
    apply (group_ok ts) with (t0 := t0) (rest := rest); [|exact Es|exact H].
    apply Forall_forall. intros t _. apply all_tok_ok.
  Qed.
End GroupProof.

(* ---- the table obligation ---- *)

(* the thresholds must induce the textbook ORDER of levels on the operators
   (same pairs tighter / equal / looser) and fold every one of them; the level
   numbers themselves are free, so splitting or adding groups that do not
   separate or reorder these operators keeps the obligation true *)
Definition table_ok (gs : list N) : bool :=
  forallb (fun o =>
             forallb (fun o' => Bool.eqb (prec_of (preds gs) o <? prec_of (preds gs) o')
                                         (spec_prec o <? spec_prec o')) all_syms) all_syms &&
  forallb (fun o => 1 <=? prec_of (preds gs) o) all_syms.

(* value nodes are never executed: every key a value node can carry is below every threshold *)
Definition value_keys_ok (gs : list N) : bool :=
  forallb (fun k => forallb (fun g => (k <? g)%N) gs) value_keys.

Lemma in_all_syms o : In o all_syms.
Proof. destruct o; cbn; tauto. Qed.

Lemma table_ok_iso gs : table_ok gs = true -> forall o o',
    (prec_of (preds gs) o <? prec_of (preds gs) o') = (spec_prec o <? spec_prec o').
Proof.
  intros H o o'. unfold table_ok in H. apply andb_true_iff in H as [H _].
  rewrite forallb_forall in H. specialize (H o (in_all_syms o)).
  rewrite forallb_forall in H. specialize (H o' (in_all_syms o')).
  apply Bool.eqb_prop in H. exact H.
Qed.

Lemma table_ok_pos gs : table_ok gs = true -> forall o,
    (1 <=? prec_of (preds gs) o) = (1 <=? spec_prec o).
Proof.
  intros H o. unfold table_ok in H. apply andb_true_iff in H as [_ H].
  rewrite forallb_forall in H. rewrite (H o (in_all_syms o)). destruct o; reflexivity.
Qed.

(* HEADLINE (generic): for every operator semantics and every threshold list
   that induces the textbook levels, the fold-pass machine equals evaluation of
   the precedence-climbing tree — any length, any nesting. *)
Theorem flat_eq_tree apply gs :
  table_ok gs = true ->
  forall ts tr, parse_expr ts = Some tr ->
                eval_group apply gs ts = to_outcome (eval_top apply tr).
Proof. intros H ts tr. apply group_eq_tree; [apply table_ok_iso|apply table_ok_pos]; exact H. Qed.

Lemma table_ok_now : table_ok groups = true.
Proof. vm_compute. reflexivity. Qed.

Lemma value_keys_ok_now : value_keys_ok groups = true.
Proof. vm_compute. reflexivity. Qed.

Theorem eval_expr_eq_tree orc ts tr :
  parse_expr ts = Some tr -> eval_expr orc ts = to_outcome (eval_top (apply_go orc) tr).
Proof. apply flat_eq_tree. exact table_ok_now. Qed.
