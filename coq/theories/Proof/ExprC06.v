(* C06 — the model meets the property predicate of Check/C06.v for every
   token list; corollaries in the words of the property. *)
From Coq Require Import List NArith ZArith Bool Lia Arith Floats.
From Murex Require Import Base.Outcome Base.Bytes Model.Expr Model.ExprSpec Check.C06
     Proof.ExprClimb Proof.Expr.
Import ListNotations.

(* ---- comparing a float with itself by bit-pattern class ---- *)

Lemma SFcompare_refl s : s <> S754_nan -> SFcompare s s = Some Datatypes.Eq.
Proof.
  destruct s as [b|b| |b m e]; intro H; cbn; try congruence.
  - destruct b; reflexivity.
  - destruct b; rewrite Z.compare_refl; fold (Pos.compare m m); rewrite Pos.compare_refl; reflexivity.
Qed.

Lemma same_float_refl x : same_float x x = true.
Proof.
  unfold same_float. rewrite N.eqb_refl. cbn [andb].
  destruct (N.eqb (class_code x) 9) eqn:E; [reflexivity|]. cbn [orb].
  rewrite FloatAxioms.eqb_spec. unfold SFeqb. rewrite SFcompare_refl; [reflexivity|].
  intro Hn. unfold class_code in E. rewrite FloatAxioms.classify_spec in E. rewrite Hn in E.
  cbn in E. discriminate.
Qed.

Lemma value_eqb_refl v : value_eqb v v = true.
Proof.
  destruct v as [f|b|s|]; cbn [value_eqb].
  - apply same_float_refl.
  - apply Bool.eqb_reflx.
  - apply bytes_eqb_refl.
  - reflexivity.
Qed.

Lemma obs_eqb_refl o : obs_eqb o o = true.
Proof.
  unfold obs_eqb. rewrite N.eqb_refl, value_eqb_refl. cbn [andb]. apply orb_true_r.
Qed.

(* ---- the Go operator semantics extends the property's ---- *)

Lemma spec_pair_compare orc a b p : spec_pair orc a b = Some p -> compare_types orc a b = Some p.
Proof.
  destruct a as [x|x|s|], b as [y|y|t|]; cbn [spec_pair]; try discriminate;
    try (intro H; exact H).
Qed.

Lemma apply_go_extends orc o a b v : spec_apply orc o a b = Some v -> apply_go orc o a b = Some v.
Proof.
  destruct o; cbn [spec_apply apply_go]; try discriminate;
    try (destruct a, b; cbn [spec_arith arith]; (discriminate || (intro H; exact H)));
    unfold spec_cmp, spec_eq, order_values, equal_values;
    destruct (spec_pair orc a b) as [p|] eqn:Ep; try discriminate;
    rewrite (spec_pair_compare orc a b p Ep);
    destruct p; try discriminate; intro H; inversion H; subst; reflexivity.
Qed.

Lemma lift_ap_extends orc o a b v :
  lift_ap (spec_apply orc) o a b = Some v -> lift_ap (apply_go orc) o a b = Some v.
Proof. destruct a, b; cbn [lift_ap]; try discriminate. apply apply_go_extends. Qed.

Lemma eval_tree_extends orc t : forall v,
  eval_tree (spec_apply orc) t = Some v -> eval_tree (apply_go orc) t = Some v.
Proof.
  induction t as [w|o l IHl r IHr|t IH]; intros v H; cbn [eval_tree] in *.
  - exact H.
  - destruct (eval_tree (spec_apply orc) l) as [a|] eqn:El; [|discriminate].
    destruct (eval_tree (spec_apply orc) r) as [b|] eqn:Er; [|destruct a; discriminate].
    rewrite (IHl a eq_refl), (IHr b eq_refl). apply lift_ap_extends. exact H.
  - unfold group_val in *.
    destruct (eval_tree (spec_apply orc) t) as [w|] eqn:E; [|discriminate].
    rewrite (IH w eq_refl). exact H.
Qed.

Lemma eval_top_extends orc t v :
  eval_top (spec_apply orc) t = Some v -> eval_top (apply_go orc) t = Some v.
Proof.
  unfold eval_top, group_val. intro H.
  destruct (eval_tree (spec_apply orc) t) as [w|] eqn:E; [|discriminate].
  rewrite (eval_tree_extends orc t w E). exact H.
Qed.

(* HEADLINE for C06: whenever the property says what a token list evaluates to
   (textbook precedence, IEEE arithmetic, comparisons incl. the documented
   number/string/boolean conversions, with ParseFloat / FloatToString as observed
   tables), the model of the Go code returns exactly that value. *)
Theorem model_meets_reference orc ts v :
  reference orc ts = Some v -> eval_expr orc ts = Ok v.
Proof.
  unfold reference. destruct (parse_expr ts) as [t|] eqn:Ep; [|discriminate].
  intro H. rewrite (eval_expr_eq_tree orc ts t Ep). rewrite (eval_top_extends orc t v H). reflexivity.
Qed.

Theorem model_meets_spec orc src ts :
  spec_ok {| c_toks := ts; c_src := src; c_orc := orc; c_obs := obs_of (eval_expr orc ts) |} = true.
Proof.
  unfold spec_ok, spec_obs. cbn [c_toks c_obs c_orc].
  destruct (reference orc ts) as [v|] eqn:E; [|reflexivity].
  rewrite (model_meets_reference orc ts v E). apply obs_eqb_refl.
Qed.

(* the machine never runs out of fuel on a well-formed expression *)
Theorem fuel_sufficient orc ts tr : parse_expr ts = Some tr -> eval_expr orc ts <> OutOfFuel.
Proof.
  intros Hp H. rewrite (eval_expr_eq_tree orc ts tr Hp) in H.
  destruct (eval_top (apply_go orc) tr); discriminate.
Qed.

(* mixed comparisons, in the property's words *)
Lemma reference_binop orc o a b :
  reference orc [PV a; PO o; PV b] = spec_apply orc o a b.
Proof.
  unfold reference.
  assert (Hp : parse_expr [PV a; PO o; PV b] = Some (TNode o (TLeaf a) (TLeaf b)))
    by (destruct o; reflexivity).
  rewrite Hp. unfold eval_top. cbn [eval_tree lift_ap group_val is_single].
  destruct (spec_apply orc o a b) as [[]|]; reflexivity.
Qed.

Corollary num_vs_numeric_string orc x s y :
  lookup_parse (or_parse orc) s = Some (Some y) ->
  eval_expr orc [PV (VNum x); PO Eq; PV (VStr s)] = Ok (VBool (PrimFloat.eqb x y)) /\
  eval_expr orc [PV (VStr s); PO Lt; PV (VNum x)] = Ok (VBool (PrimFloat.ltb y x)).
Proof.
  intro H. split; apply model_meets_reference; rewrite reference_binop;
    cbn [spec_apply spec_pair]; rewrite H; reflexivity.
Qed.

Corollary num_vs_other_string orc x s t :
  lookup_parse (or_parse orc) s = Some None -> lookup_fmt (or_fmt orc) x = Some t ->
  eval_expr orc [PV (VNum x); PO Eq; PV (VStr s)] = Ok (VBool (bytes_eqb t s)) /\
  eval_expr orc [PV (VNum x); PO Lt; PV (VStr s)] = Ok (VBool (bytes_ltb t s)).
Proof.
  intros H1 H2. split; apply model_meets_reference; rewrite reference_binop;
    cbn [spec_apply spec_pair]; rewrite H1, H2; reflexivity.
Qed.

Corollary num_vs_bool orc x b :
  eval_expr orc [PV (VNum x); PO Eq; PV (VBool b)] =
  Ok (VBool (PrimFloat.eqb x (if b then 1 else 0)%float)).
Proof. apply model_meets_reference. rewrite reference_binop. reflexivity. Qed.

(* ---- corollaries in the property's words (a b c: any numbers) ---- *)

Notation num x := (PV (VNum x)).
Open Scope float_scope.

Corollary mul_before_add orc a b c :
  eval_expr orc [num a; PO Add; num b; PO Mul; num c] = Ok (VNum (a + b * c)) /\
  eval_expr orc [num a; PO Mul; num b; PO Add; num c] = Ok (VNum (a * b + c)).
Proof. split; apply model_meets_reference; reflexivity. Qed.

Corollary sub_left_assoc orc a b c :
  eval_expr orc [num a; PO Sub; num b; PO Sub; num c] = Ok (VNum (a - b - c)).
Proof. apply model_meets_reference; reflexivity. Qed.

Corollary div_left_assoc orc a b c :
  eval_expr orc [num a; PO Div; num b; PO Div; num c] = Ok (VNum (a / b / c)) /\
  eval_expr orc [num a; PO Div; num b; PO Mul; num c] = Ok (VNum (a / b * c)).
Proof. split; apply model_meets_reference; reflexivity. Qed.

Corollary add_before_compare orc a b c d :
  eval_expr orc [num a; PO Add; num b; PO Lt; num c; PO Mul; num d] = Ok (VBool (a + b <? c * d)).
Proof. apply model_meets_reference; reflexivity. Qed.

Corollary compare_before_equal orc a b c d :
  eval_expr orc [num a; PO Lt; num b; PO Eq; num c; PO Ge; num d] =
  Ok (VBool (Bool.eqb (a <? b) (d <=? c))).
Proof. apply model_meets_reference; reflexivity. Qed.

Corollary parens_override orc a b c :
  eval_expr orc [PP [num a; PO Add; num b]; PO Mul; num c] = Ok (VNum ((a + b) * c)).
Proof. apply model_meets_reference; reflexivity. Qed.

(* comparisons yield booleans *)
Corollary cmp_yields_bool orc o a b :
  In o [Gt; Ge; Lt; Le; Eq; Ne] ->
  exists r, eval_expr orc [num a; PO o; num b] = Ok (VBool r).
Proof.
  intro H. cbn in H.
  destruct H as [<-|[<-|[<-|[<-|[<-|[<-|[]]]]]]]; eexists; apply model_meets_reference; reflexivity.
Qed.

(* equal numbers compare equal however they are written: a literal is its float64 *)
Corollary num_eq_by_value orc a b :
  eval_expr orc [num a; PO Eq; num b] = Ok (VBool (a =? b)).
Proof. apply model_meets_reference; reflexivity. Qed.

(* strings compare in byte order *)
Corollary str_lt_is_bytewise orc s t :
  eval_expr orc [PV (VStr s); PO Lt; PV (VStr t)] = Ok (VBool (bytes_ltb s t)).
Proof. apply model_meets_reference; reflexivity. Qed.

Lemma bytes_ltb_spec : forall s t,
  bytes_ltb s t = true <->
  (exists p x y s' t', s = p ++ x :: s' /\ t = p ++ y :: t' /\ (x < y)%N) \/
  (exists y t', t = s ++ y :: t').
Proof.
  induction s as [|x s IH]; intros [|y t]; cbn [bytes_ltb].
  - split; [discriminate|]. intros [(p & a & b & s' & t' & H1 & _)|(y & t' & H)].
    + destruct p; discriminate.
    + discriminate.
  - split; [|reflexivity]. intros _. right. exists y, t. reflexivity.
  - split; [discriminate|]. intros [(p & a & b & s' & t' & _ & H2 & _)|(y & t' & H)].
    + destruct p; discriminate.
    + discriminate.
  - destruct (N.ltb_spec x y) as [Hlt|Hge].
    + split; [|reflexivity]. intros _. left. exists [], x, y, s, t. repeat split; assumption.
    + destruct (N.ltb_spec y x) as [Hlt2|Hge2].
      * split; [discriminate|]. intros [(p & a & b & s' & t' & H1 & H2 & H3)|(b & t' & H)].
        -- destruct p as [|c p]; cbn in H1, H2; inversion H1; inversion H2; subst; lia.
        -- cbn in H. inversion H; subst. lia.
      * assert (x = y) by lia. subst y. rewrite IH. split.
        -- intros [(p & a & b & s' & t' & H1 & H2 & H3)|(b & t' & H)].
           ++ left. exists (x :: p), a, b, s', t'. subst. repeat split; assumption.
           ++ right. exists b, t'. subst. reflexivity.
        -- intros [(p & a & b & s' & t' & H1 & H2 & H3)|(b & t' & H)].
           ++ destruct p as [|c p]; cbn in H1, H2; inversion H1; inversion H2; subst; [lia|].
              left. exists p, a, b, s', t'. repeat split; assumption.
           ++ cbn in H. inversion H; subst. right. exists b, t'. reflexivity.
Qed.
