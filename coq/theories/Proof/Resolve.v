(* C22 — proofs about the resolution loop of executeProcess. *)
From Coq Require Import Lia.
From Murex Require Import Base.Outcome Base.Bytes Model.Resolve Check.C22.

(* one pass of the switch, with the re-entry (goto executeProcess) abstracted *)
Definition pass (again : bool -> name -> list arg -> Outcome resolved)
           (t : tables) (c : ctx) (parsed : bool) (n : name) (args : list arg) : Outcome resolved :=
  let e := lookup t n in
  let rest :=
    if e_function e then Ok (KFunction, n, args)
    else if e_builtin e then Ok (KBuiltin, n, args)
    else if is_nil args && autocd c && e_isdir e then again parsed cd_name [dir_arg n]
    else if e_external e then Ok (KExternal, n, args)
    else Err not_found in
  if negb (shell_scope c) && e_private e then Ok (KPrivate, n, args)
  else match e_alias e with
       | Some (tn, targs) =>
           if negb (parent_alias c) && negb parsed
           then again true tn (targs ++ args)
           else rest
       | None => rest
       end.

Lemma resolve_S f t c parsed n args :
  resolve (S f) t c parsed n args = pass (resolve f t c) t c parsed n args.
Proof. reflexivity. Qed.

(* ---- a pass with parsedAlias already set never expands an alias ---- *)
Lemma resolve_parsed_is_first_match f t c n args :
  autocd c = false ->
  resolve (S f) t c true n args = first_match_noalias t c n args.
Proof.
  intro A. cbn [resolve]. unfold first_match_noalias. rewrite A.
  rewrite andb_false_r. cbn [andb negb].
  destruct (negb (shell_scope c) && e_private (lookup t n)); [reflexivity|].
  rewrite andb_false_r.
  destruct (e_alias (lookup t n)) as [[tn targs]|]; reflexivity.
Qed.

(* ---- resolution order; alias expanded exactly once ---- *)
Lemma resolve_is_spec t c n args :
  autocd c = false -> resolve_cmd t c n args = spec_resolve t c n args.
Proof.
  intro A. unfold resolve_cmd, spec_resolve.
  change (resolve 3 t c false n args) with
    (let e := lookup t n in
      let rest :=
        if e_function e then Ok (KFunction, n, args)
        else if e_builtin e then Ok (KBuiltin, n, args)
        else if is_nil args && autocd c && e_isdir e then resolve 2 t c false cd_name [dir_arg n]
        else if e_external e then Ok (KExternal, n, args)
        else Err not_found in
      if negb (shell_scope c) && e_private e then Ok (KPrivate, n, args)
      else match e_alias e with
           | Some (tn, targs) =>
               if negb (parent_alias c) && negb false
               then resolve 2 t c true tn (targs ++ args)
               else rest
           | None => rest
           end).
  cbv zeta. rewrite A. rewrite andb_false_r. cbn [andb negb].
  unfold first_match_noalias.
  destruct (negb (shell_scope c) && e_private (lookup t n)) eqn:P; [reflexivity|].
  destruct (e_alias (lookup t n)) as [[tn targs]|].
  - destruct (parent_alias c); cbn [negb andb].
    + reflexivity.
    + rewrite (resolve_parsed_is_first_match 1 t c tn (targs ++ args) A). reflexivity.
  - reflexivity.
Qed.

(* ---- termination on ANY tables ---- *)
Definition measure (parsed : bool) (args : list arg) : nat :=
  (if parsed then 0 else 1) + (if is_nil args then 1 else 0).

Lemma is_nil_app_false {A} (a b : list A) : is_nil b = false -> is_nil (a ++ b) = false.
Proof. destruct a; [trivial|reflexivity]. Qed.

Lemma resolve_terminates : forall fuel t c parsed n args,
  (measure parsed args < fuel)%nat -> resolve fuel t c parsed n args <> OutOfFuel.
Proof.
  induction fuel as [|f IH]; intros t c parsed n args M; [lia|].
  cbn [resolve].
  assert (REST :
    (if e_function (lookup t n) then Ok (KFunction, n, args)
     else if e_builtin (lookup t n) then Ok (KBuiltin, n, args)
     else if is_nil args && autocd c && e_isdir (lookup t n) then resolve f t c parsed cd_name [dir_arg n]
     else if e_external (lookup t n) then Ok (KExternal, n, args) else Err not_found) <> OutOfFuel).
  { destruct (e_function (lookup t n)); [discriminate|].
    destruct (e_builtin (lookup t n)); [discriminate|].
    destruct (is_nil args && autocd c && e_isdir (lookup t n)) eqn:D.
    - apply IH. apply andb_true_iff in D as [D _]. apply andb_true_iff in D as [D _].
      unfold measure in *. rewrite D in M. cbn [is_nil]. lia.
    - destruct (e_external (lookup t n)); discriminate. }
  destruct (negb (shell_scope c) && e_private (lookup t n)); [discriminate|].
  destruct (e_alias (lookup t n)) as [[tn targs]|]; [|exact REST].
  destruct (negb (parent_alias c) && negb parsed) eqn:D; [|exact REST].
  apply IH. apply andb_true_iff in D as [_ D]. apply negb_true_iff in D. subst parsed.
  unfold measure in *. destruct (is_nil args) eqn:E.
  - destruct (is_nil (targs ++ args)); lia.
  - rewrite (is_nil_app_false targs args E). lia.
Qed.

Lemma measure_le_2 parsed args : (measure parsed args <= 2)%nat.
Proof. unfold measure. destruct parsed; destruct (is_nil args); lia. Qed.

(* alias_once: three passes of the switch always suffice, so self- and
   mutually-referential aliases terminate; with auto-cd as well *)
Lemma fuel_3_suffices t c n args : resolve_cmd t c n args <> OutOfFuel.
Proof. apply resolve_terminates. pose proof (measure_le_2 false args). lia. Qed.

(* more fuel never changes the answer: the fuelled function is the unbounded goto loop *)
Lemma resolve_fuel_stable : forall fuel t c parsed n args,
  (measure parsed args < fuel)%nat ->
  resolve (S fuel) t c parsed n args = resolve fuel t c parsed n args.
Proof.
  induction fuel as [|f IH]; intros t c parsed n args M; [lia|].
  rewrite (resolve_S (S f) t c parsed n args), (resolve_S f t c parsed n args).
  unfold pass.
  destruct (negb (shell_scope c) && e_private (lookup t n)); [reflexivity|].
  assert (REST :
    (if e_function (lookup t n) then Ok (KFunction, n, args)
     else if e_builtin (lookup t n) then Ok (KBuiltin, n, args)
     else if is_nil args && autocd c && e_isdir (lookup t n) then resolve (S f) t c parsed cd_name [dir_arg n]
     else if e_external (lookup t n) then Ok (KExternal, n, args) else Err not_found) =
    (if e_function (lookup t n) then Ok (KFunction, n, args)
     else if e_builtin (lookup t n) then Ok (KBuiltin, n, args)
     else if is_nil args && autocd c && e_isdir (lookup t n) then resolve f t c parsed cd_name [dir_arg n]
     else if e_external (lookup t n) then Ok (KExternal, n, args) else Err not_found)).
  { destruct (e_function (lookup t n)); [reflexivity|].
    destruct (e_builtin (lookup t n)); [reflexivity|].
    destruct (is_nil args && autocd c && e_isdir (lookup t n)) eqn:D; [|reflexivity].
    apply IH. apply andb_true_iff in D as [D _]. apply andb_true_iff in D as [D _].
    unfold measure in *. rewrite D in M. cbn [is_nil]. lia. }
  destruct (e_alias (lookup t n)) as [[tn targs]|]; [|exact REST].
  destruct (negb (parent_alias c) && negb parsed) eqn:D; [|exact REST].
  apply IH. apply andb_true_iff in D as [_ D]. apply negb_true_iff in D. subst parsed.
  unfold measure in *. destruct (is_nil args) eqn:E.
  - destruct (is_nil (targs ++ args)); lia.
  - rewrite (is_nil_app_false targs args E). lia.
Qed.

Lemma any_fuel_above_3 k t c n args :
  resolve (3 + k) t c false n args = resolve_cmd t c n args.
Proof.
  induction k as [|k IH]; [reflexivity|].
  replace (3 + S k)%nat with (S (3 + k)) by lia.
  rewrite resolve_fuel_stable; [exact IH|].
  pose proof (measure_le_2 false args). lia.
Qed.

(* ---- the documented order, spelled out ---- *)
Lemma private_first t c n args :
  shell_scope c = false -> e_private (lookup t n) = true ->
  resolve_cmd t c n args = Ok (KPrivate, n, args).
Proof. intros S P. unfold resolve_cmd. cbn [resolve]. rewrite S, P. reflexivity. Qed.

Lemma alias_target_resolved_without_alias t c n args tn targs :
  autocd c = false -> parent_alias c = false ->
  negb (shell_scope c) && e_private (lookup t n) = false ->
  e_alias (lookup t n) = Some (tn, targs) ->
  resolve_cmd t c n args = first_match_noalias t c tn (targs ++ args).
Proof.
  intros A PA P AL. rewrite resolve_is_spec by exact A. unfold spec_resolve.
  rewrite P, AL, PA. reflexivity.
Qed.

(* an alias that names itself: the name is looked up once more with aliases ignored *)
Lemma self_alias_terminates t c n args targs :
  autocd c = false -> parent_alias c = false ->
  negb (shell_scope c) && e_private (lookup t n) = false ->
  e_alias (lookup t n) = Some (n, targs) ->
  resolve_cmd t c n args = first_match_noalias t c n (targs ++ args).
Proof. intros. eapply alias_target_resolved_without_alias; eassumption. Qed.

Lemma no_alias_order t c n args :
  autocd c = false -> e_alias (lookup t n) = None ->
  resolve_cmd t c n args = first_match_noalias t c n args.
Proof.
  intros A AL. rewrite resolve_is_spec by exact A. unfold spec_resolve, first_match_noalias.
  rewrite AL. destruct (negb (shell_scope c) && e_private (lookup t n)); reflexivity.
Qed.

(* ---- boolean equality ---- *)
Lemma args_eqb_refl (a : list arg) : list_eqb N.eqb a a = true.
Proof. induction a as [|x a IH]; [reflexivity|]. cbn [list_eqb]. rewrite N.eqb_refl, IH. reflexivity. Qed.

Lemma obs_eqb_refl o : obs_eqb o o = true.
Proof.
  destruct o as [k n a| | |]; try reflexivity.
  cbn [obs_eqb]. rewrite N.eqb_refl, args_eqb_refl. destruct k; reflexivity.
Qed.

Lemma model_meets_spec t c n args :
  spec_ok {| c_tables := t; c_ctx := c; c_name := n; c_args := args;
             c_obs := obs_of (resolve_cmd t c n args) |} = true.
Proof.
  unfold spec_ok. cbn [c_tables c_ctx c_name c_args c_obs].
  destruct (autocd c) eqn:A.
  - pose proof (fuel_3_suffices t c n args) as T.
    destruct (resolve_cmd t c n args) as [[[k m] a]| | |]; try reflexivity. contradiction.
  - rewrite resolve_is_spec by exact A. apply obs_eqb_refl.
Qed.
