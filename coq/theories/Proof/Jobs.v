From Murex Require Import Base.Outcome Model.Jobs Check.C27.
