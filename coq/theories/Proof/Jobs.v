(* C27 — proofs about the model of lang/jobs.go. *)
From Coq Require Import Lia List Arith ZArith.
From Murex Require Import Base.Outcome Model.Jobs Check.C27.

(* ------------------------------------------------------------------ *)
(* membership *)

Lemma mem_In p l : mem p l = true <-> In p l.
Proof.
  unfold mem. rewrite existsb_exists. split.
  - intros [x [Hin Hx]]. apply Nat.eqb_eq in Hx. subst. exact Hin.
  - intro H. exists p. split; [exact H|apply Nat.eqb_refl].
Qed.

Lemma mem_cons p q l : mem p (q :: l) = Nat.eqb p q || mem p l.
Proof. reflexivity. Qed.

(* ------------------------------------------------------------------ *)
(* the declarative reading of GarbageCollect: clear finished entries, then
   drop the trailing free slots *)

Fixpoint trim (l : list (option nat)) : list (option nat) :=
  match l with
  | [] => []
  | x :: r => match trim r, x with
              | [], None => []
              | r', _ => x :: r'
              end
  end.

Lemma trim_cons_some p r : trim (Some p :: r) = Some p :: trim r.
Proof. cbn [trim]. destruct (trim r); reflexivity. Qed.

Lemma trim_cons_none r : trim (None :: r) = match trim r with [] => [] | _ :: _ => None :: trim r end.
Proof. cbn [trim]. destruct (trim r); reflexivity. Qed.

Lemma trim_cons_ne x r : trim r <> [] -> trim (x :: r) = x :: trim r.
Proof. cbn [trim]. destruct (trim r); [congruence|]. destruct x; reflexivity. Qed.

Lemma trim_nones l : Forall (fun x => x = None) l -> trim l = [].
Proof.
  induction 1 as [|x l Hx _ IH]; [reflexivity|]. subst x. cbn [trim]. rewrite IH. reflexivity.
Qed.

Lemma trim_nth l : forall k p, nth_error l k = Some (Some p) -> nth_error (trim l) k = Some (Some p).
Proof.
  induction l as [|x r IH]; intros k p H.
  - destruct k; discriminate.
  - destruct k as [|k'].
    + cbn [nth_error] in H. injection H as ->. rewrite trim_cons_some. reflexivity.
    + cbn [nth_error] in H. pose proof (IH _ _ H) as H'.
      assert (trim r <> []) as Hne by (intro E; rewrite E in H'; destruct k'; discriminate).
      rewrite (trim_cons_ne _ _ Hne). exact H'.
Qed.

Lemma trim_prefix l : exists t, l = trim l ++ t /\ Forall (fun x => x = None) t.
Proof.
  induction l as [|x r [t [Ht Hn]]].
  - exists []. split; [reflexivity|constructor].
  - destruct x as [p|].
    + exists t. rewrite trim_cons_some. split; [cbn [app]; congruence|exact Hn].
    + rewrite trim_cons_none. destruct (trim r) as [|y r'] eqn:E.
      * exists (None :: t). cbn [app] in *. split; [congruence|constructor; auto].
      * exists t. cbn [app] in *. split; [congruence|exact Hn].
Qed.

Lemma trim_nth_inv l k x : nth_error (trim l) k = Some x -> nth_error l k = Some x.
Proof.
  intro H. destruct (trim_prefix l) as [t [Ht _]].
  assert (k < length (trim l)) as Hk by (apply nth_error_Some; congruence).
  rewrite Ht. rewrite nth_error_app1; [exact H|exact Hk].
Qed.

Lemma trim_length l : length (trim l) <= length l.
Proof.
  destruct (trim_prefix l) as [t [Ht _]]. rewrite Ht at 2. rewrite app_length. lia.
Qed.

(* the trimmed slice never ends with a free slot *)
Lemma trim_last l : match rev (trim l) with None :: _ => False | _ => True end.
Proof.
  induction l as [|x r IH]; [exact I|].
  destruct x as [p|].
  - rewrite trim_cons_some. cbn [rev]. destruct (rev (trim r)) as [|y ys]; [exact I|].
    cbn [app]. destruct y; [exact I|exact IH].
  - rewrite trim_cons_none. destruct (trim r) as [|y r'] eqn:E; [exact I|].
    change (rev (None :: y :: r')) with (rev (y :: r') ++ [None]).
    destruct (rev (y :: r')) as [|z zs] eqn:E2.
    + apply (f_equal (@length _)) in E2. rewrite rev_length in E2. discriminate.
    + cbn [app]. destruct z; [exact I|exact IH].
Qed.

(* the literal loop of GarbageCollect computes exactly that *)
Definition scan_inv (n : nat) (running : bool) (last : option nat) (acc : list (option nat)) : Prop :=
  if running then
    trim acc <> [] /\ match last with
                      | None => trim acc = acc
                      | Some k => n <= k /\ trim acc = firstn (k - n) acc
                      end
  else Forall (fun x => x = None) acc /\ last = match acc with [] => None | _ :: _ => Some n end.

Lemma scan_correct d rs : forall running last acc,
  scan_inv (length rs) running last acc ->
  (let '(sl, l') := gc_scan d rs (length rs - 1) running last acc in
   match l' with None => sl | Some k => firstn k sl end)
  = trim (rev (map (gc_clear d) rs) ++ acc).
Proof.
  induction rs as [|x rs' IH]; intros running last acc HG.
  - cbn [gc_scan length map rev app]. unfold scan_inv in HG. destruct running.
    + destruct HG as [_ HG]. destruct last as [k|].
      * destruct HG as [_ HG]. rewrite Nat.sub_0_r in HG. symmetry; exact HG.
      * symmetry; exact HG.
    + destruct HG as [Hn Hl]. rewrite (trim_nones _ Hn). subst last. destruct acc; reflexivity.
  - replace (length (x :: rs') - 1) with (length rs') by (cbn [length]; lia).
    cbn [gc_scan]. rewrite <- Nat.sub_1_r.
    cbn [map rev]. rewrite <- app_assoc. cbn [app].
    apply IH. cbn [length] in HG. unfold scan_inv in *.
    destruct (gc_clear d x) as [p|]; destruct running.
    + destruct HG as [Hne HG]. rewrite trim_cons_some. split; [discriminate|].
      destruct last as [k|].
      * destruct HG as [Hle Ht]. split; [lia|].
        replace (k - length rs') with (S (k - S (length rs'))) by lia.
        cbn [firstn]. rewrite Ht. reflexivity.
      * rewrite HG. reflexivity.
    + destruct HG as [Hn Hl]. rewrite trim_cons_some, (trim_nones _ Hn). split; [discriminate|].
      subst last. destruct acc as [|a acc'].
      * reflexivity.
      * split; [lia|]. replace (S (length rs') - length rs') with 1 by lia. reflexivity.
    + destruct HG as [Hne HG]. rewrite (trim_cons_ne _ _ Hne). split; [discriminate|].
      destruct last as [k|].
      * destruct HG as [Hle Ht]. split; [lia|].
        replace (k - length rs') with (S (k - S (length rs'))) by lia.
        cbn [firstn]. rewrite Ht. reflexivity.
      * rewrite HG. reflexivity.
    + destruct HG as [Hn Hl]. split; [constructor; auto|reflexivity].
Qed.

Lemma gc_slots_spec d l : gc_slots d l = trim (map (gc_clear d) l).
Proof.
  unfold gc_slots.
  assert (scan_inv (length (rev l)) false None []) as HG by (split; [constructor|reflexivity]).
  pose proof (scan_correct d (rev l) false None [] HG) as H.
  rewrite rev_length in H.
  destruct (gc_scan d (rev l) (length l - 1) false None []) as [sl last].
  rewrite H. rewrite map_rev, rev_involutive, app_nil_r. reflexivity.
Qed.

Lemma clear_some d x p : gc_clear d x = Some p -> x = Some p /\ mem p d = false.
Proof.
  destruct x as [q|]; cbn [gc_clear]; [|discriminate].
  destruct (mem q d) eqn:E; [discriminate|]. intro H; injection H as ->. auto.
Qed.

Lemma clear_keep d p : mem p d = false -> gc_clear d (Some p) = Some p.
Proof. cbn [gc_clear]. intros ->. reflexivity. Qed.

(* GarbageCollect trims exactly the trailing finished entries: the result is a
   prefix of the cleared table, what was cut off is all finished, no unfinished
   job is lost or moved, and the result does not end with a free slot. *)
Lemma gc_trims_exactly_trailing d l :
  exists cut,
    map (gc_clear d) l = gc_slots d l ++ cut /\
    Forall (fun x => x = None) cut /\
    (forall k p, nth_error l k = Some (Some p) -> mem p d = false ->
                 nth_error (gc_slots d l) k = Some (Some p)) /\
    match rev (gc_slots d l) with None :: _ => False | _ => True end.
Proof.
  rewrite gc_slots_spec.
  destruct (trim_prefix (map (gc_clear d) l)) as [t [Ht Hn]].
  exists t. split; [exact Ht|]. split; [exact Hn|]. split.
  - intros k p H Hd. apply trim_nth. rewrite (map_nth_error (gc_clear d) _ _ H).
    rewrite (clear_keep _ _ Hd). reflexivity.
  - apply trim_last.
Qed.

(* ------------------------------------------------------------------ *)
(* steps *)

Definition slot_is (s : st) (k p : nat) : Prop := nth_error (slots s) k = Some (Some p).

Lemma step_dead s o :
  dead (fst (step s o)) = match o with Terminate p => p :: dead s | _ => dead s end.
Proof. destruct o; reflexivity. Qed.

Lemma dead_mono_step s o p : mem p (dead s) = true -> mem p (dead (fst (step s o))) = true.
Proof.
  rewrite step_dead. destruct o; auto. intro H. rewrite mem_cons, H. apply orb_true_r.
Qed.

Lemma stable_step s o k p :
  slot_is s k p -> mem p (dead (fst (step s o))) = false -> slot_is (fst (step s o)) k p.
Proof.
  unfold slot_is. intros H Hd.
  assert (k < length (slots s)) as Hk by (apply nth_error_Some; congruence).
  destruct o; cbn [step fst slots dead] in *; try exact H.
  - rewrite nth_error_app1; [exact H|exact Hk].
  - rewrite nth_error_app1; [exact H|exact Hk].
  - rewrite gc_slots_spec. apply trim_nth. rewrite (map_nth_error (gc_clear (dead s)) _ _ H).
    rewrite (clear_keep _ _ Hd). reflexivity.
Qed.

(* where a slot's content can come from *)
Lemma slot_step_inv s o k p :
  slot_is (fst (step s o)) k p -> slot_is s k p \/ (o = Add p /\ k = length (slots s)).
Proof.
  unfold slot_is. intro H. destruct o; cbn [step fst slots] in H; try (left; exact H).
  - destruct (lt_dec k (length (slots s))) as [Hk|Hk].
    + rewrite nth_error_app1 in H by exact Hk. left; exact H.
    + rewrite nth_error_app2 in H by lia.
      destruct (k - length (slots s)) as [|j] eqn:E.
      * cbn [nth_error] in H. injection H as ->. right. split; [reflexivity|lia].
      * cbn [nth_error] in H. destruct j; discriminate.
  - destruct (lt_dec k (length (slots s))) as [Hk|Hk].
    + rewrite nth_error_app1 in H by exact Hk. left; exact H.
    + rewrite nth_error_app2 in H by lia.
      destruct (k - length (slots s)) as [|j] eqn:E.
      * cbn [nth_error] in H. discriminate.
      * cbn [nth_error] in H. destruct j; discriminate.
  - rewrite gc_slots_spec in H. apply trim_nth_inv in H. rewrite nth_error_map in H.
    destruct (nth_error (slots s) k) as [x|] eqn:E; [|discriminate].
    cbn [option_map] in H. injection H as H. apply clear_some in H. destruct H as [-> _].
    left; reflexivity.
Qed.

Lemma step_length s o : o <> GC -> length (slots s) <= length (slots (fst (step s o))).
Proof.
  intro H. destruct o; cbn [step fst slots]; try rewrite app_length; try lia. congruence.
Qed.

Lemma run_app s a b : run s (a ++ b) = run (run s a) b.
Proof. revert s; induction a as [|o a IH]; intro s; cbn [app run]; auto. Qed.

Lemma dead_mono_run ops : forall s p, mem p (dead s) = true -> mem p (dead (run s ops)) = true.
Proof.
  induction ops as [|o ops IH]; intros s p H; cbn [run]; [exact H|].
  apply IH. apply dead_mono_step. exact H.
Qed.

Lemma stable_run ops : forall s k p,
  slot_is s k p -> mem p (dead (run s ops)) = false -> slot_is (run s ops) k p.
Proof.
  induction ops as [|o ops IH]; intros s k p H Hd; cbn [run] in *; [exact H|].
  apply IH; [|exact Hd]. apply stable_step; [exact H|].
  destruct (mem p (dead (fst (step s o)))) eqn:E; [|reflexivity].
  rewrite (dead_mono_run ops _ _ E) in Hd. discriminate.
Qed.

(* ------------------------------------------------------------------ *)
(* T1: a running job's id never changes, whatever happens in between *)
Lemma id_stable_while_running s0 ops1 ops2 k p :
  slot_is (run s0 ops1) k p ->
  mem p (dead (run s0 (ops1 ++ ops2))) = false ->
  slot_is (run s0 (ops1 ++ ops2)) k p.
Proof. rewrite run_app. apply stable_run. Qed.

(* T4: an id is handed out again only after every job that held that id or a
   higher one has finished.  The id the next Add hands out is length+1; if some
   earlier state had job q at id k'+1 >= that, q is dead by now. *)
Lemma id_reuse_only_after_suffix_finished s0 ops0 ops1 k' q :
  slot_is (run s0 ops0) k' q ->
  length (slots (run s0 (ops0 ++ ops1))) <= k' ->
  mem q (dead (run s0 (ops0 ++ ops1))) = true.
Proof.
  intros H Hl. destruct (mem q (dead (run s0 (ops0 ++ ops1)))) eqn:E; [reflexivity|].
  pose proof (id_stable_while_running _ _ _ _ _ H E) as H'. unfold slot_is in H'.
  assert (k' < length (slots (run s0 (ops0 ++ ops1)))) by (apply nth_error_Some; congruence).
  lia.
Qed.

(* ------------------------------------------------------------------ *)
(* Get / GetLatest *)

Lemma get_ok s n p :
  get s n = Ok p ->
  (1 <= n)%Z /\ slot_is s (Z.to_nat (n - 1)) p /\ mem p (dead s) = false.
Proof.
  unfold get, slot_is. destruct (Z.ltb_spec n 1); [discriminate|].
  destruct (n >? Z.of_nat (length (slots s)))%Z; [discriminate|].
  destruct (nth_error (slots s) (Z.to_nat (n - 1))) as [x|] eqn:E; [|discriminate].
  destruct x as [q|]; cbn [finished]; [|discriminate].
  destruct (mem q (dead s)) eqn:Hd; [discriminate|]. intro Hp; injection Hp as ->. auto.
Qed.

Lemma get_complete s k q :
  1 <= k -> slot_is s (k - 1) q -> mem q (dead s) = false -> get s (Z.of_nat k) = Ok q.
Proof.
  unfold get, slot_is. intros Hk H Hd.
  assert (k - 1 < length (slots s)) as Hlt by (apply nth_error_Some; congruence).
  destruct (Z.ltb_spec (Z.of_nat k) 1); [lia|].
  rewrite Z.gtb_ltb. destruct (Z.ltb_spec (Z.of_nat (length (slots s))) (Z.of_nat k)); [lia|].
  replace (Z.to_nat (Z.of_nat k - 1)) with (k - 1) by lia.
  rewrite H. cbn [finished]. rewrite Hd. reflexivity.
Qed.

Lemma get_never_panics s n : get s n <> Panic /\ get s n <> OutOfFuel.
Proof.
  unfold get. destruct (Z.ltb_spec n 1); [split; discriminate|].
  rewrite Z.gtb_ltb. destruct (Z.ltb_spec (Z.of_nat (length (slots s))) n); [split; discriminate|].
  destruct (nth_error (slots s) (Z.to_nat (n - 1))) as [x|] eqn:E.
  - destruct x as [q|]; cbn [finished]; [destruct (mem q (dead s))|]; split; discriminate.
  - apply nth_error_None in E. lia.
Qed.

Lemma list_from_app d l1 : forall l2 i,
  list_from d i (l1 ++ l2) = list_from d i l1 ++ list_from d (i + length l1) l2.
Proof.
  induction l1 as [|a l1 IH]; intros l2 i; cbn [app list_from length].
  - rewrite Nat.add_0_r; reflexivity.
  - rewrite IH. replace (S i + length l1) with (i + S (length l1)) by lia.
    destruct (finished d a); [reflexivity|]. destruct a; reflexivity.
Qed.

Lemma list_from_In d l : forall i k p,
  In (k, p) (list_from d i l) <-> i <= k /\ nth_error l (k - i) = Some (Some p) /\ mem p d = false.
Proof.
  induction l as [|x l IH]; intros i k p.
  - cbn [list_from In]. split; [tauto|]. intros [_ [H _]]. destruct (k - i); discriminate.
  - cbn [list_from].
    assert (forall q, (S i <= k /\ nth_error l (k - S i) = Some (Some p) /\ mem p d = false)
                      \/ (k = i /\ x = Some q /\ q = p /\ mem p d = false)
                      <-> (i <= k /\ nth_error (x :: l) (k - i) = Some (Some p) /\ mem p d = false)
                          /\ (k = i -> x = Some q)) as Hsplit.
    { intro q. split.
      - intros [[H1 [H2 H3]]|[H1 [H2 [H3 H4]]]].
        + split; [|lia]. split; [lia|]. split; [|exact H3].
          replace (k - i) with (S (k - S i)) by lia. exact H2.
        + subst. split; [|auto]. split; [lia|]. rewrite Nat.sub_diag. auto.
      - intros [[H1 [H2 H3]] H4]. destruct (Nat.eq_dec k i) as [E|E].
        + right. subst k. rewrite Nat.sub_diag in H2. cbn [nth_error] in H2.
          specialize (H4 eq_refl). subst x. injection H2 as ->. auto.
        + left. split; [lia|]. split; [|exact H3].
          replace (k - i) with (S (k - S i)) in H2 by lia. exact H2. }
    destruct x as [q|]; cbn [finished].
    + destruct (mem q d) eqn:Hq.
      * rewrite IH. split.
        -- intro H. apply (Hsplit q). left; exact H.
        -- intros H. destruct (Nat.eq_dec k i) as [E|E].
           ++ subst k. destruct H as [_ [H2 H3]]. rewrite Nat.sub_diag in H2. cbn [nth_error] in H2.
              injection H2 as ->. congruence.
           ++ destruct H as [H1 [H2 H3]]. split; [lia|]. split; [|exact H3].
              replace (k - i) with (S (k - S i)) in H2 by lia. exact H2.
      * cbn [In]. rewrite IH. split.
        -- intros [H|H].
           ++ injection H as -> ->. split; [lia|]. rewrite Nat.sub_diag. auto.
           ++ destruct H as [H1 [H2 H3]]. split; [lia|]. split; [|exact H3].
              replace (k - i) with (S (k - S i)) by lia. exact H2.
        -- intros [H1 [H2 H3]]. destruct (Nat.eq_dec k i) as [E|E].
           ++ left. subst k. rewrite Nat.sub_diag in H2. cbn [nth_error] in H2.
              injection H2 as ->. reflexivity.
           ++ right. split; [lia|]. split; [|exact H3].
              replace (k - i) with (S (k - S i)) in H2 by lia. exact H2.
    + rewrite IH. split.
      * intros [H1 [H2 H3]]. split; [lia|]. split; [|exact H3].
        replace (k - i) with (S (k - S i)) by lia. exact H2.
      * intros [H1 [H2 H3]]. destruct (Nat.eq_dec k i) as [E|E].
        -- subst k. rewrite Nat.sub_diag in H2. discriminate.
        -- split; [lia|]. split; [|exact H3].
           replace (k - i) with (S (k - S i)) in H2 by lia. exact H2.
Qed.

(* T3a: List is exactly the unfinished slots, with id = index+1 *)
Lemma list_jobs_In s k p :
  In (k, p) (list_jobs s) <-> 1 <= k /\ slot_is s (k - 1) p /\ mem p (dead s) = false.
Proof. apply list_from_In. Qed.

Lemma list_from_ids d l : forall lo i, lo < i -> ids_increasing lo (map fst (list_from d i l)) = true.
Proof.
  induction l as [|x l IH]; intros lo i H; cbn [list_from]; [reflexivity|].
  destruct (finished d x); [apply IH; lia|].
  destruct x as [p|]; [|apply IH; lia].
  cbn [map fst ids_increasing]. apply andb_true_intro; split; [apply Nat.ltb_lt; exact H|apply IH; lia].
Qed.

Lemma latest_list d i l :
  match latest_scan d (rev l) with
  | Ok p => exists k, last_entry (list_from d i l) = Some (k, p)
  | Err _ => list_from d i l = []
  | _ => False
  end.
Proof.
  induction l as [|x l IH] using rev_ind; [reflexivity|].
  rewrite rev_unit. cbn [latest_scan]. rewrite list_from_app. cbn [list_from].
  destruct (finished d x) eqn:F.
  - rewrite app_nil_r. exact IH.
  - destruct x as [p|]; [|discriminate F]. exists (i + length l).
    unfold last_entry. rewrite rev_unit. reflexivity.
Qed.

(* T2: Get / GetLatest never return a finished job (and never panic) *)
Lemma get_never_returns_finished s n p :
  get s n = Ok p -> mem p (dead s) = false /\ In (Z.to_nat n, p) (list_jobs s).
Proof.
  intro H. apply get_ok in H. destruct H as [Hn [Hs Hd]]. split; [exact Hd|].
  apply list_jobs_In. split; [lia|]. split; [|exact Hd].
  replace (Z.to_nat n - 1) with (Z.to_nat (n - 1)) by lia. exact Hs.
Qed.

Lemma latest_never_returns_finished s p :
  latest s = Ok p -> mem p (dead s) = false /\ exists k, last_entry (list_jobs s) = Some (k, p).
Proof.
  unfold latest, list_jobs. intro H. pose proof (latest_list (dead s) 1 (slots s)) as L.
  rewrite H in L. destruct L as [k Hk]. split; [|exists k; exact Hk].
  assert (In (k, p) (list_from (dead s) 1 (slots s))) as Hin.
  { unfold last_entry in Hk. destruct (rev (list_from (dead s) 1 (slots s))) as [|e r] eqn:E; [discriminate|].
    injection Hk as ->. apply in_rev. rewrite E. left; reflexivity. }
  apply list_from_In in Hin. tauto.
Qed.

(* ------------------------------------------------------------------ *)
(* history-level: which processes are in the table *)

Fixpoint added_in (ops : list op) : list nat :=
  match ops with
  | [] => []
  | Add p :: r => p :: added_in r
  | _ :: r => added_in r
  end.
Fixpoint killed_in (ops : list op) : list nat :=
  match ops with
  | [] => []
  | Terminate p :: r => p :: killed_in r
  | _ :: r => killed_in r
  end.

Lemma added_in_In p ops : In p (added_in ops) <-> In (Add p) ops.
Proof.
  induction ops as [|o r IH]; [tauto|]. destruct o; cbn [added_in In]; rewrite ?IH;
    split; intro H; try (right; exact H); try (destruct H as [H|H]; [discriminate H|exact H]).
  - destruct H as [H|H]; [left; congruence|right; exact H].
  - destruct H as [H|H]; [left; congruence|right; exact H].
Qed.

Lemma killed_in_In p ops : In p (killed_in ops) <-> In (Terminate p) ops.
Proof.
  induction ops as [|o r IH]; [tauto|]. destruct o; cbn [killed_in In]; rewrite ?IH;
    split; intro H; try (right; exact H); try (destruct H as [H|H]; [discriminate H|exact H]).
  - destruct H as [H|H]; [left; congruence|right; exact H].
  - destruct H as [H|H]; [left; congruence|right; exact H].
Qed.

(* ------------------------------------------------------------------ *)
(* the invariant tying the model state to the history bookkeeping of spec_ok *)

Record Inv (s : st) (h : hist) : Prop := {
  inv_dead : dead s = h_dead h;
  inv_prev : list_jobs s = h_prev h;
  inv_added : forall k p, slot_is s k p -> In p (h_added h);
  inv_kept : forall p, In p (h_added h) -> mem p (dead s) = false -> exists k, slot_is s k p;
  inv_ever : forall k q, In (k, q) (h_ever h) ->
                         mem q (dead s) = true \/ (1 <= k /\ slot_is s (k - 1) q)
}.

Lemma inv0 : Inv st0 hist0.
Proof.
  split; try reflexivity.
  - intros k p H. unfold slot_is in H. destruct k; discriminate.
  - intros p [].
  - intros k q [].
Qed.

Definition obs_of (s' : st) (r : res) : step_obs :=
  {| so_res := r; so_list := list_jobs s'; so_raw := slots s' |}.

Lemma dead_after_eq s h o : dead s = h_dead h -> dead (fst (step s o)) = dead_after h o.
Proof. intro H. rewrite step_dead. unfold dead_after. destruct o; rewrite H; reflexivity. Qed.

Lemma inv_step s h o :
  Inv s h -> Inv (fst (step s o)) (hist_after h o (obs_of (fst (step s o)) (snd (step s o)))).
Proof.
  intros [Hd Hp Ha Hk He]. set (s' := fst (step s o)).
  assert (forall p, mem p (dead s') = false -> mem p (dead s) = false) as Hmono.
  { intros p H. destruct (mem p (dead s)) eqn:E; [|reflexivity].
    unfold s' in H. rewrite (dead_mono_step s o p E) in H. discriminate. }
  split; cbn [hist_after h_added h_dead h_prev h_ever obs_of so_list].
  - apply dead_after_eq. exact Hd.
  - reflexivity.
  - intros k p H. apply slot_step_inv in H. unfold added_after. destruct H as [H|[-> _]].
    + apply Ha in H. destruct o; try exact H. right; exact H.
    + left; reflexivity.
  - intros p Hin Hnd. unfold added_after in Hin.
    assert (In p (h_added h) -> exists k, slot_is s' k p) as Hold.
    { intro Hin'. destruct (Hk p Hin' (Hmono _ Hnd)) as [k Hs]. exists k.
      apply stable_step; assumption. }
    destruct o; try (apply Hold; exact Hin).
    destruct Hin as [->|Hin]; [|apply Hold; exact Hin].
    exists (length (slots s)). unfold slot_is, s'. cbn [step fst slots].
    rewrite nth_error_app2 by lia. rewrite Nat.sub_diag. reflexivity.
  - intros k q Hin. apply in_app_or in Hin. destruct Hin as [Hin|Hin].
    + apply list_jobs_In in Hin. right. tauto.
    + destruct (mem q (dead s')) eqn:E; [left; reflexivity|right].
      destruct (He k q Hin) as [Hq|[H1 H2]].
      * rewrite (Hmono _ E) in Hq. discriminate.
      * split; [exact H1|]. apply stable_step; assumption.
Qed.

(* every entry of the new List() was in the old one, or sits at the new top id *)
Lemma list_step_inv s o e :
  In e (list_jobs (fst (step s o))) ->
  In e (list_jobs s) \/ fst e = S (length (slots s)).
Proof.
  destruct e as [k p]. intro H. apply list_jobs_In in H. destruct H as [H1 [H2 H3]].
  apply slot_step_inv in H2. destruct H2 as [H2|[_ H2]].
  - left. apply list_jobs_In. split; [exact H1|]. split; [exact H2|].
    destruct (mem p (dead s)) eqn:E; [|reflexivity].
    rewrite (dead_mono_step s o p E) in H3. discriminate.
  - right. cbn [fst]. lia.
Qed.

Lemma pair_mem_In e l : pair_mem e l = true <-> In e l.
Proof.
  unfold pair_mem. rewrite existsb_exists. split.
  - intros [x [Hin Hx]]. unfold pair_eqb in Hx. apply andb_prop in Hx. destruct Hx as [H1 H2].
    apply Nat.eqb_eq in H1. apply Nat.eqb_eq in H2. destruct e, x. cbn [fst snd] in *. subst. exact Hin.
  - intro H. exists e. split; [exact H|]. unfold pair_eqb. rewrite !Nat.eqb_refl. reflexivity.
Qed.

Lemma res_ok_step s o :
  res_ok o (snd (step s o)) (list_jobs (fst (step s o))) = true.
Proof.
  destruct o; cbn [step fst snd res_ok]; try reflexivity.
  - (* Get *)
    destruct (get s n) as [p|e| |] eqn:G; cbn [res_of].
    + apply get_ok in G. destruct G as [Hn [Hs Hd]]. apply existsb_exists.
      exists (Z.to_nat n, p). split.
      * apply list_jobs_In. split; [lia|]. split; [|exact Hd].
        replace (Z.to_nat n - 1) with (Z.to_nat (n - 1)) by lia. exact Hs.
      * cbn [fst snd]. rewrite Nat.eqb_refl, andb_true_r. apply Z.eqb_eq. lia.
    + apply negb_true_iff. destruct (existsb _ (list_jobs s)) eqn:E; [|reflexivity].
      apply existsb_exists in E. destruct E as [[k q] [Hin Hk]]. cbn [fst] in Hk.
      apply Z.eqb_eq in Hk. apply list_jobs_In in Hin. destruct Hin as [H1 [H2 H3]].
      rewrite <- Hk, (get_complete _ _ _ H1 H2 H3) in G. discriminate.
    + destruct (get_never_panics s n) as [H _]. congruence.
    + destruct (get_never_panics s n) as [_ H]. congruence.
  - (* Latest *)
    unfold latest, list_jobs. pose proof (latest_list (dead s) 1 (slots s)) as L.
    destruct (latest_scan (dead s) (rev (slots s))) as [p|e| |]; cbn [res_of]; try contradiction.
    + destruct L as [k Hk]. rewrite Hk. cbn [snd]. apply Nat.eqb_refl.
    + rewrite L. reflexivity.
Qed.

Lemma gc_ok_step s : gc_ok (dead s) (gc_slots (dead s) (slots s)) = true.
Proof.
  unfold gc_ok. apply andb_true_intro. split.
  - apply forallb_forall. intros x Hin. destruct x as [p|]; [|reflexivity].
    apply In_nth_error in Hin. destruct Hin as [k Hk].
    rewrite gc_slots_spec in Hk. apply trim_nth_inv in Hk. rewrite nth_error_map in Hk.
    destruct (nth_error (slots s) k) as [y|]; [|discriminate]. cbn [option_map] in Hk.
    injection Hk as Hk. apply clear_some in Hk. destruct Hk as [_ Hk]. rewrite Hk. reflexivity.
  - rewrite gc_slots_spec. pose proof (trim_last (map (gc_clear (dead s)) (slots s))) as H.
    destruct (rev (trim (map (gc_clear (dead s)) (slots s)))) as [|y ys]; [reflexivity|].
    destruct y; [reflexivity|contradiction].
Qed.

Lemma step_ok_model s h o :
  Inv s h -> step_ok h o (obs_of (fst (step s o)) (snd (step s o))) = true.
Proof.
  intro HI. pose proof (inv_step s h o HI) as HI'. destruct HI as [Hd Hp Ha Hk He].
  destruct HI' as [Hd' _ Ha' Hk' _].
  cbn [hist_after h_added h_dead h_prev h_ever obs_of so_list] in *.
  set (s' := fst (step s o)) in *.
  unfold step_ok. cbn [obs_of so_list so_res so_raw]. fold s'.
  rewrite <- Hd'.
  repeat (apply andb_true_intro; split).
  - apply forallb_forall. intros [k p] Hin. cbn [snd]. apply list_jobs_In in Hin.
    destruct Hin as [_ [H2 H3]]. rewrite H3. rewrite andb_true_r. apply mem_In. eapply Ha'; exact H2.
  - apply forallb_forall. intros p Hin. destruct (mem p (dead s')) eqn:E; [reflexivity|].
    cbn [orb]. destruct (Hk' p Hin E) as [k Hs]. apply mem_In. apply in_map_iff.
    exists (S k, p). split; [reflexivity|]. apply list_jobs_In. split; [lia|].
    split; [|exact E]. replace (S k - 1) with k by lia. exact Hs.
  - apply list_from_ids. lia.
  - apply forallb_forall. intros [k p] Hin. cbn [snd]. rewrite <- Hp in Hin.
    destruct (mem p (dead s')) eqn:E; [reflexivity|]. cbn [orb]. apply pair_mem_In.
    apply list_jobs_In in Hin. destruct Hin as [H1 [H2 H3]]. apply list_jobs_In.
    split; [exact H1|]. split; [|exact E]. apply stable_step; assumption.
  - apply forallb_forall. intros e Hin. destruct (list_step_inv _ _ _ Hin) as [Hold|Hnew].
    + rewrite <- Hp. apply orb_true_iff. left. apply pair_mem_In. exact Hold.
    + apply orb_true_iff. right. apply forallb_forall. intros [k' q] Hin'. cbn [fst snd].
      destruct (mem q (dead s')) eqn:E; [apply orb_true_r|]. rewrite orb_false_r.
      apply Nat.ltb_lt. rewrite Hnew.
      destruct (He k' q Hin') as [Hq|[H1 H2]].
      * unfold s' in E. rewrite (dead_mono_step s o q Hq) in E. discriminate.
      * unfold slot_is in H2.
        assert (k' - 1 < length (slots s)) by (apply nth_error_Some; congruence). lia.
  - apply res_ok_step.
  - destruct o; try reflexivity. unfold s'. cbn [step fst slots dead]. apply gc_ok_step.
Qed.

Lemma trace_cons s o ops :
  trace s (o :: ops) = obs_of (fst (step s o)) (snd (step s o)) :: trace (fst (step s o)) ops.
Proof. cbn [trace]. destruct (step s o) as [s' r]. reflexivity. Qed.

Lemma trace_ok_model ops : forall s h, Inv s h -> trace_ok h ops (trace s ops) = true.
Proof.
  induction ops as [|o ops IH]; intros s h HI; [reflexivity|].
  rewrite trace_cons. cbn [trace_ok]. apply andb_true_intro. split.
  - apply step_ok_model. exact HI.
  - apply IH. apply inv_step. exact HI.
Qed.

(* Headline: for every history, what the model does satisfies the predicate the
   check evaluates on the implementation's observations. *)
Lemma model_meets_spec ops : spec_ok {| c_ops := ops; c_obs := trace st0 ops |} = true.
Proof. unfold spec_ok. cbn [c_ops c_obs]. apply trace_ok_model. exact inv0. Qed.

(* ------------------------------------------------------------------ *)
(* T3b: from the empty table, List shows exactly the processes that were added
   and not terminated *)

Fixpoint hist_of (h : hist) (s : st) (ops : list op) : hist :=
  match ops with
  | [] => h
  | o :: r => hist_of (hist_after h o (obs_of (fst (step s o)) (snd (step s o)))) (fst (step s o)) r
  end.

Lemma inv_run ops : forall s h, Inv s h -> Inv (run s ops) (hist_of h s ops).
Proof.
  induction ops as [|o ops IH]; intros s h HI; cbn [run hist_of]; [exact HI|].
  apply IH. apply inv_step. exact HI.
Qed.

Lemma hist_of_added ops : forall h s, h_added (hist_of h s ops) = rev (added_in ops) ++ h_added h.
Proof.
  induction ops as [|o ops IH]; intros h s; cbn [hist_of added_in]; [reflexivity|].
  rewrite IH. cbn [hist_after h_added]. unfold added_after.
  destruct o; try reflexivity. cbn [rev]. rewrite <- app_assoc. reflexivity.
Qed.

Lemma hist_of_dead ops : forall h s, h_dead (hist_of h s ops) = rev (killed_in ops) ++ h_dead h.
Proof.
  induction ops as [|o ops IH]; intros h s; cbn [hist_of killed_in]; [reflexivity|].
  rewrite IH. cbn [hist_after h_dead]. unfold dead_after.
  destruct o; try reflexivity. cbn [rev]. rewrite <- app_assoc. reflexivity.
Qed.

Lemma list_is_exactly_running ops p :
  In p (map snd (list_jobs (run st0 ops))) <-> In (Add p) ops /\ ~ In (Terminate p) ops.
Proof.
  pose proof (inv_run ops st0 hist0 inv0) as [Hd _ Ha Hk _].
  rewrite hist_of_added in Ha, Hk. rewrite hist_of_dead in Hd.
  cbn [hist0 h_added h_dead] in *. rewrite app_nil_r in *.
  assert (mem p (dead (run st0 ops)) = true <-> In (Terminate p) ops) as Hdead.
  { rewrite Hd, mem_In, <- in_rev. apply killed_in_In. }
  split.
  - intro H. apply in_map_iff in H. destruct H as [[k q] [E Hin]]. cbn [snd] in E. subst q.
    apply list_jobs_In in Hin. destruct Hin as [_ [H2 H3]]. split.
    + apply added_in_In. apply in_rev. eapply Ha; exact H2.
    + intro Ht. apply Hdead in Ht. congruence.
  - intros [H1 H2].
    assert (mem p (dead (run st0 ops)) = false) as E.
    { destruct (mem p (dead (run st0 ops))) eqn:E; [|reflexivity]. exfalso. apply H2. apply Hdead. reflexivity. }
    destruct (Hk p) as [k Hs]; [apply in_rev; rewrite rev_involutive; apply added_in_In; exact H1|exact E|].
    apply in_map_iff. exists (S k, p). split; [reflexivity|]. apply list_jobs_In.
    split; [lia|]. split; [|exact E]. replace (S k - 1) with k by lia. exact Hs.
Qed.

(* the model never panics *)
Lemma step_never_panics s o : snd (step s o) <> RPanic.
Proof.
  destruct o; cbn [step snd]; try discriminate.
  - destruct (get_never_panics s n) as [H1 H2]. destruct (get s n); cbn [res_of]; congruence.
  - unfold latest. pose proof (latest_list (dead s) 1 (slots s)) as L.
    destruct (latest_scan (dead s) (rev (slots s))); cbn [res_of]; try discriminate; contradiction.
Qed.
