(* C39 — proofs about Model/Control.v: the cancellation mechanism refines the signal semantics *)
From Murex Require Import Base.Outcome Base.Bytes Model.Control Check.C39.
Local Open Scope N_scope.

Scheme stmt_block_ind := Induction for stmt Sort Prop
  with block_stmt_ind := Induction for block Sort Prop.
Combined Scheme stmt_block_mutind from stmt_block_ind, block_stmt_ind.

Definition apply_sig (g : sig) (st : list frame) : list frame :=
  match g with
  | SNone => st
  | SBrk nm => brk_walk nm st
  | SBrkAny => kill_top st
  | SCont nm => cont_up nm st
  | SRet k => kill_all k st
  end.

Definition exit_sig (g : sig) (x : Z) : Z := match g with SRet k => k | _ => x end.

Definition all_live (st : list frame) : bool := forallb frame_live st.

Notation mk st o x := {| c_stack := st; c_out := o; c_exit := x |}.

(* leaving a block: what is left of a signal for the frames outside *)
Lemma pop_apply : forall g nm0 st,
  tl (apply_sig g (new_frame nm0 :: st)) = apply_sig (absorb nm0 g) st.
Proof.
  intros [|n| |n|k] nm0 st;
    cbn [apply_sig absorb brk_walk kill_top cont_up kill_all map tl new_frame f_name]; try reflexivity.
  - destruct (name_eqb nm0 n); reflexivity.
  - destruct (name_eqb nm0 n); [reflexivity|]. destruct st; reflexivity.
Qed.

(* ... and the exit number the walk left in the owner of the block *)
Lemma top_exit_apply : forall g nm0 st,
  top_exit (apply_sig g (new_frame nm0 :: st)) = sig_exit (absorb nm0 g).
Proof.
  intros [|n| |n|k] nm0 st;
    cbn [apply_sig absorb brk_walk kill_top cont_up kill_all map new_frame f_name top_exit sig_exit]; try reflexivity.
  - destruct (name_eqb nm0 n); reflexivity.
  - destruct (name_eqb nm0 n); [reflexivity|]. destruct st; reflexivity.
Qed.

Lemma exit_absorb : forall nm g x, exit_sig (absorb nm g) x = exit_sig g x.
Proof. intros nm [|n| |n|k] x; cbn; try reflexivity; destruct (name_eqb nm n); reflexivity. Qed.

(* a signal leaves the innermost frame dead, so the rest of its block is skipped *)
Lemma signal_kills_top : forall g st, st <> [] -> g <> SNone -> top_live (apply_sig g st) = false.
Proof.
  intros g [|f st] Hne Hg; [congruence|].
  destruct g as [|n| |n|k]; [congruence| | | |]; cbn [apply_sig brk_walk kill_top cont_up kill_all map].
  - destruct (name_eqb (f_name f) n); reflexivity.
  - reflexivity.
  - destruct (name_eqb (f_name f) n); cbn.
    + unfold frame_live. cbn. rewrite andb_false_r. reflexivity.
    + destruct st; cbn; [unfold frame_live; cbn; rewrite andb_false_r|]; reflexivity.
  - reflexivity.
Qed.

(* ... and leaves in it the exit number the cancelled statements of its block keep *)
Lemma signal_top_exit : forall g st, st <> [] -> all_live st = true -> g <> SNone ->
  top_exit (apply_sig g st) = sig_exit g.
Proof.
  intros g [|f st] Hne L Hg; [congruence|].
  cbn in L. apply andb_true_iff in L as [L _]. unfold frame_live in L.
  apply andb_true_iff in L as [_ L]. apply Z.eqb_eq in L.
  destruct g as [|n| |n|k]; [congruence| | | |]; cbn [apply_sig brk_walk kill_top cont_up kill_all map sig_exit].
  - destruct (name_eqb (f_name f) n); reflexivity.
  - reflexivity.
  - destruct (name_eqb (f_name f) n); cbn; [exact L|]. destruct st; cbn; [exact L|reflexivity].
  - reflexivity.
Qed.

Lemma all_live_top : forall st, st <> [] -> all_live st = true -> top_live st = true.
Proof. intros [|f st] H L; [congruence|]. cbn in *. apply andb_true_iff in L as [L _]. exact L. Qed.

Lemma skipped_block : forall b tm e c x, b <> BNil -> top_live (c_stack c) = false ->
  exec_block tm e b c x = (c, top_exit (c_stack c)).
Proof. intros [|s b] tm e c x N H; cbn [exec_block]; [congruence|]. rewrite H. reflexivity. Qed.

Lemma cancelled_loop : forall body sf k i c, top_cancelled (c_stack c) = true -> cancel_loop body sf k i c = c.
Proof. intros body sf [|k] i c H; cbn [cancel_loop]; [reflexivity|]. rewrite H. reflexivity. Qed.

(* ---- loops ---- *)
Section Loop.
  Variable nm : name.
  Variable encl : list name.
  Hypothesis encl_ne : encl <> [].
  Variable sf : bool.
  Variable body_c : N -> cstate -> cstate * Z.
  Variable body_r : N -> list tok * sig * Z.
  Hypothesis Hbody : forall i st o x, all_live st = true -> map f_name st = nm :: encl ->
    body_c i (mk st o x) =
      (mk (apply_sig (snd (fst (body_r i))) st) (o ++ fst (fst (body_r i))) (exit_sig (snd (fst (body_r i))) x),
       snd (body_r i)).

  Lemma loop_refines : forall k i F st o x,
    f_name F = nm -> f_cancelled F = false -> f_exit F = 0%Z -> all_live st = true -> map f_name st = encl ->
    let r := cancel_loop body_c sf k i (mk (F :: st) o x) in
    let g := snd (ref_loop body_r nm sf k i) in
    pop r = mk (apply_sig g st) (o ++ fst (ref_loop body_r nm sf k i)) (exit_sig g x) /\
    top_exit (c_stack r) = sig_exit g.
  Proof.
    induction k as [|k IH]; intros i F st o x HN HC HX HL HM; cbn [cancel_loop ref_loop].
    - cbn. rewrite app_nil_r. split; [reflexivity|exact HX].
    - cbn [c_stack top_cancelled]. rewrite HC. unfold renew_top. cbn [c_stack c_out c_exit].
      set (F' := fresh_iteration F).
      assert (HL' : all_live (F' :: st) = true).
      { cbn. unfold frame_live. cbn. rewrite HC, HX. cbn. exact HL. }
      assert (HM' : map f_name (F' :: st) = nm :: encl).
      { cbn. rewrite HN, HM. reflexivity. }
      rewrite (Hbody i (F' :: st) o x HL' HM').
      destruct (body_r i) as [[o1 g] xb]. cbn [fst snd].
      assert (HN' : f_name F' = nm) by exact HN.
      assert (HC' : f_cancelled F' = false) by exact HC.
      assert (HX' : f_exit F' = 0%Z) by exact HX.
      assert (NEXT : forall F2, f_name F2 = nm -> f_cancelled F2 = false -> f_exit F2 = 0%Z ->
        let r := cancel_loop body_c sf k (i + 1) (mk (F2 :: st) (o ++ o1) x) in
        let g2 := snd (let '(o2, g2) := ref_loop body_r nm sf k (i + 1) in (o1 ++ o2, g2)) in
        pop r = mk (apply_sig g2 st) (o ++ fst (let '(o2, g2) := ref_loop body_r nm sf k (i + 1) in (o1 ++ o2, g2)))
                   (exit_sig g2 x) /\ top_exit (c_stack r) = sig_exit g2).
      { intros F2 H1 H2 H3. destruct (IH (i + 1) F2 st (o ++ o1) x H1 H2 H3 HL HM) as [A B].
        destruct (ref_loop body_r nm sf k (i + 1)) as [o2 g2]. cbn [fst snd] in *.
        rewrite app_assoc. split; assumption. }
      destruct g as [|n| |n|r]; cbn [apply_sig exit_sig].
      + (* no signal *)
        destruct (sf && failed xb).
        * cbn. split; [reflexivity|exact HX].
        * apply NEXT; assumption.
      + (* break *)
        cbn [brk_walk]. rewrite HN'.
        destruct (sf && failed xb); destruct (name_eqb nm n);
          rewrite ?cancelled_loop by reflexivity; cbn; split; reflexivity.
      + (* break without a name *)
        cbn [kill_top].
        destruct (sf && failed xb); rewrite ?cancelled_loop by reflexivity; cbn; split; reflexivity.
      + (* continue *)
        cbn [cont_up]. rewrite HN'. destruct (name_eqb nm n).
        * destruct (sf && failed xb).
          -- cbn. split; [reflexivity|exact HX].
          -- apply (NEXT (kill_rest F')); assumption.
        * destruct st as [|G st']; [cbn in HM; congruence|].
          destruct (sf && failed xb); rewrite ?cancelled_loop by reflexivity; cbn; split; reflexivity.
      + (* return *)
        cbn [kill_all map].
        destruct (sf && failed xb); rewrite ?cancelled_loop by reflexivity; cbn; split; reflexivity.
  Qed.
End Loop.

(* ---- the refinement, for statements and blocks ---- *)
Definition names (encl : list (name * bool)) : list name := map fst encl.

Definition stmt_refines (s : stmt) : Prop :=
  forall tm e encl st o x, all_live st = true -> map f_name st = names encl -> encl <> [] ->
    wn_stmt encl s = true ->
    exec_stmt tm e s (mk st o x) =
      (mk (apply_sig (snd (fst (ref_stmt tm e s))) st) (o ++ fst (fst (ref_stmt tm e s)))
          (exit_sig (snd (fst (ref_stmt tm e s))) x),
       snd (ref_stmt tm e s)).

Definition block_refines (b : block) : Prop :=
  forall tm e encl st o x xp, all_live st = true -> map f_name st = names encl -> encl <> [] ->
    wn_block encl b = true ->
    exec_block tm e b (mk st o x) xp =
      (mk (apply_sig (snd (fst (ref_block tm e b xp))) st) (o ++ fst (fst (ref_block tm e b xp)))
          (exit_sig (snd (fst (ref_block tm e b xp))) x),
       snd (ref_block tm e b xp)).

Lemma nonempty_stack : forall (st : list frame) (encl : list (name * bool)),
  map f_name st = names encl -> encl <> [] -> st <> [].
Proof. intros [|f st] [|a encl] H N; try congruence; discriminate. Qed.

Lemma names_ne : forall encl : list (name * bool), encl <> [] -> names encl <> [].
Proof. intros [|a l] H; [congruence|discriminate]. Qed.

(* after a statement that raised a signal: the rest of the block is skipped *)
Lemma after_signal : forall g tm e b st o1 o x xs, st <> [] -> all_live st = true -> g <> SNone ->
  (if tm && failed xs && nonnil b then (mk (apply_sig g st) (o ++ o1) (exit_sig g x), xs)
   else exec_block tm e b (mk (apply_sig g st) (o ++ o1) (exit_sig g x)) xs) =
  (let r := if nonnil b && negb (tm && failed xs) then (o1, g, sig_exit g) else (o1, g, xs) in
   (mk (apply_sig (snd (fst r)) st) (o ++ fst (fst r)) (exit_sig (snd (fst r)) x), snd r)).
Proof.
  intros g tm e b st o1 o x xs NS L Hg. cbv zeta.
  destruct b as [|s b].
  - cbn [nonnil andb]. rewrite andb_false_r. reflexivity.
  - cbn [nonnil]. rewrite andb_true_r. cbn [andb]. destruct (tm && failed xs); cbn [negb fst snd].
    + reflexivity.
    + rewrite skipped_block; [| discriminate | cbn [c_stack]; apply signal_kills_top; assumption].
      cbn [c_stack]. rewrite signal_top_exit by assumption. reflexivity.
Qed.

Lemma refines_all : (forall s, stmt_refines s) /\ (forall b, block_refines b).
Proof.
  apply stmt_block_mutind; unfold stmt_refines, block_refines.
  - (* Out *) intros t tm e encl st o x L M NE W. reflexivity.
  - (* Branch *) intros k c b IHb d IHd tm e encl st o x L M NE W. cbn [exec_stmt ref_stmt wn_stmt] in *.
    apply andb_true_iff in W as [Wb Wd].
    set (blk := if eval e c then b else d).
    assert (IH : exec_block tm e blk (push (new_frame (branch_name k)) (mk st o x)) 0%Z =
      (mk (apply_sig (snd (fst (ref_block tm e blk 0%Z))) (new_frame (branch_name k) :: st))
          (o ++ fst (fst (ref_block tm e blk 0%Z))) (exit_sig (snd (fst (ref_block tm e blk 0%Z))) x),
       snd (ref_block tm e blk 0%Z))).
    { unfold blk, push. cbn [c_stack c_out c_exit]. destruct (eval e c).
      - apply (IHb tm e ((branch_name k, false) :: encl)); [cbn; exact L | cbn; rewrite M; reflexivity | discriminate | exact Wb].
      - apply (IHd tm e ((branch_name k, false) :: encl)); [cbn; exact L | cbn; rewrite M; reflexivity | discriminate | exact Wd]. }
    rewrite IH. destruct (ref_block tm e blk 0%Z) as [[o1 g] xb]. cbn [fst snd]. unfold pop. cbn [c_stack c_out c_exit].
    rewrite pop_apply, top_exit_apply, exit_absorb. reflexivity.
  - (* Loop *) intros k id n b IH tm e encl st o x L M NE W. cbn [exec_stmt ref_stmt wn_stmt] in *.
    unfold push. cbn [c_stack c_out c_exit].
    set (sf := match k with LWhile1 => tm | _ => false end).
    destruct (loop_refines (loop_name k) (names encl) (names_ne _ NE) sf
                (fun i c' => exec_block tm ((id, i) :: e) b c' 0%Z)
                (fun i => ref_block tm ((id, i) :: e) b 0%Z)) with
      (k := n) (i := 1) (F := new_frame (loop_name k)) (st := st) (o := o) (x := x) as [A B]; auto.
    { intros i st' o' x' L' M'.
      apply (IH tm ((id, i) :: e) ((loop_name k, match k with LWhile1 => true | _ => false end) :: encl)); auto.
      discriminate. }
    cbv zeta in A, B. rewrite A, B.
    destruct (ref_loop _ (loop_name k) sf n 1) as [o1 g]. reflexivity.
  - (* Try *) intros pipe b IH tm e encl st o x L M NE W. cbn [exec_stmt ref_stmt wn_stmt] in *.
    unfold push. cbn [c_stack c_out c_exit].
    rewrite (IH true e ((try_name pipe, false) :: encl) (new_frame (try_name pipe) :: st) o x 0%Z);
      [| cbn; exact L | cbn; rewrite M; reflexivity | discriminate | exact W].
    destruct (ref_block true e b 0%Z) as [[o1 g] xb]. cbn [fst snd]. unfold pop. cbn [c_stack c_out c_exit].
    rewrite pop_apply, exit_absorb. reflexivity.
  - (* Call *) intros f b IH tm e encl st o x L M NE W. cbn [exec_stmt ref_stmt wn_stmt] in *.
    apply andb_true_iff in W as [W _].
    rewrite (IH false [] [(NFunc f, false)] [new_frame (NFunc f)] [] 0%Z 0%Z); [| reflexivity | reflexivity | discriminate | exact W].
    destruct (ref_block false [] b 0%Z) as [[o1 g] xb]. cbn [fst snd c_stack c_out c_exit app].
    destruct (tm && failed xb); reflexivity.
  - (* Break *) intros nm tm e encl st o x L M NE W. cbn. rewrite app_nil_r. reflexivity.
  - (* BreakAny *) intros tm e encl st o x L M NE W. cbn. rewrite app_nil_r. reflexivity.
  - (* Continue *) intros nm tm e encl st o x L M NE W.
    cbn [exec_stmt ref_stmt wn_stmt fst snd apply_sig exit_sig c_stack c_out c_exit] in *.
    rewrite app_nil_r.
    destruct encl as [|[x0 w0] [|a1 encl]]; try discriminate.
    destruct st as [|F [|G st]]; cbn in M; try discriminate.
    inversion M as [[M1 M2 M3]]. apply andb_true_iff in W as [W _]. apply andb_true_iff in W as [W _]. apply negb_true_iff in W.
    unfold cont_walk. cbn [cont_up]. rewrite M1, W. reflexivity.
  - (* Return *) intros k tm e encl st o x L M NE W. cbn. rewrite app_nil_r. reflexivity.
  - (* BNil *) intros tm e encl st o x xp L M NE W. cbn. rewrite app_nil_r. reflexivity.
  - (* BCons *) intros s IHs b IHb tm e encl st o x xp L M NE W. cbn [exec_block ref_block wn_block c_stack] in *.
    apply andb_true_iff in W as [Ws Wb].
    pose proof (nonempty_stack st encl M NE) as NS.
    rewrite (all_live_top st NS L).
    rewrite (IHs tm e encl st o x L M NE Ws).
    destruct (ref_stmt tm e s) as [[o1 g] xs]. cbn [fst snd].
    destruct g as [|n| |n|k].
    + cbn [apply_sig exit_sig]. destruct (tm && failed xs && nonnil b).
      * reflexivity.
      * rewrite (IHb tm e encl st (o ++ o1) x xs L M NE Wb).
        destruct (ref_block tm e b xs) as [[o2 g2] x2]. cbn [fst snd]. rewrite app_assoc. reflexivity.
    + apply (after_signal (SBrk n)); auto; discriminate.
    + apply (after_signal SBrkAny); auto; discriminate.
    + apply (after_signal (SCont n)); auto; discriminate.
    + apply (after_signal (SRet k)); auto; discriminate.
Qed.

(* THE REFINEMENT *)
Theorem cancel_refines_signals : forall main, well_named main = true -> run_cancel main = run_ref main.
Proof.
  intros main W. unfold run_cancel, run_ref, well_named in *. apply andb_true_iff in W as [W _].
  destruct refines_all as [_ HB].
  rewrite (HB main false [] [(NFunc 0, false)] [new_frame (NFunc 0)] [] 0%Z 0%Z); [| reflexivity | reflexivity | discriminate | exact W].
  destruct (ref_block false [] main 0%Z) as [[o g] xb]. reflexivity.
Qed.

(* ---- corollaries ---- *)
Lemma name_eqb_refl : forall n, name_eqb n n = true.
Proof. intros []; cbn; auto. apply N.eqb_refl. Qed.

(* break: nothing after it in its block runs, and exactly the frames up to the named one die *)
Theorem break_stops_rest_of_block : forall tm e nm rest st o x xp, st <> [] -> all_live st = true ->
  fst (exec_block tm e (BCons (Break nm) rest) (mk st o x) xp) = mk (brk_walk nm st) o x.
Proof.
  intros tm e nm rest st o x xp NS L. cbn [exec_block c_stack]. rewrite (all_live_top st NS L).
  cbn [exec_stmt c_stack c_out c_exit]. change (failed 0) with false. rewrite andb_false_r. cbn [andb].
  destruct rest as [|s rest]; [reflexivity|].
  rewrite skipped_block; [reflexivity|discriminate|].
  cbn [c_stack]. apply (signal_kills_top (SBrk nm) st NS). discriminate.
Qed.

(* `break` without a name ends the innermost block only *)
Theorem nameless_break_ends_innermost : forall F st, kill_top (F :: st) = kill 0 F :: st.
Proof. reflexivity. Qed.

(* the frames outside the named block are not touched by break *)
Theorem break_outside_untouched : forall nm F inner outer,
  f_name F = nm -> (forall G, In G inner -> name_eqb (f_name G) nm = false) ->
  brk_walk nm (inner ++ F :: outer) = map (kill 0) inner ++ kill 0 F :: outer.
Proof.
  intros nm F inner outer HF. induction inner as [|G inner IH]; intro H; cbn [app map brk_walk].
  - rewrite HF, name_eqb_refl. reflexivity.
  - rewrite (H G (or_introl eq_refl)). f_equal. apply IH. intros G' HG'. apply H. right. exact HG'.
Qed.

(* continue: the named loop is not cancelled (it goes on to its next iteration), the rest of its
   current iteration is, every block inside it is cancelled, every frame outside is untouched *)
Theorem continue_next_iteration : forall nm F inner outer,
  f_name F = nm -> (forall G, In G inner -> name_eqb (f_name G) nm = false) ->
  cont_up nm (inner ++ F :: outer) = map (kill 0) inner ++ kill_rest F :: outer.
Proof.
  intros nm F inner outer HF. induction inner as [|G inner IH]; intro H; cbn [app map].
  - cbn [cont_up]. rewrite HF, name_eqb_refl. reflexivity.
  - change (cont_up nm (G :: inner ++ F :: outer)) with
      (if name_eqb (f_name G) nm then kill_rest G :: (inner ++ F :: outer)
       else match inner ++ F :: outer with [] => [kill_rest G] | _ => kill 0 G :: cont_up nm (inner ++ F :: outer) end).
    rewrite (H G (or_introl eq_refl)).
    assert (IH' := IH (fun G' HG' => H G' (or_intror HG'))).
    destruct (inner ++ F :: outer) eqn:E; [destruct inner; discriminate|].
    f_equal. exact IH'.
Qed.

(* ... and the reference loop does run its next iteration *)
Theorem continue_loop_goes_on : forall body nm k i o x,
  body i = (o, SCont nm, x) ->
  ref_loop body nm false (S k) i = (o ++ fst (ref_loop body nm false k (i + 1)), snd (ref_loop body nm false k (i + 1))).
Proof.
  intros body nm k i o x H. cbn [ref_loop]. rewrite H, name_eqb_refl. cbn [andb].
  destruct (ref_loop body nm false k (i + 1)); reflexivity.
Qed.

(* a block that ends by `return k` - written at any nesting depth, as the last statement or not,
   in any run mode - has exit number k *)
Lemma ret_exit_all :
  (forall s tm e o k x, ref_stmt tm e s = (o, SRet k, x) -> x = k) /\
  (forall b tm e xp o k x, ref_block tm e b xp = (o, SRet k, x) -> x = k).
Proof.
  apply stmt_block_mutind.
  - intros t tm e o k x H. discriminate.
  - intros kd c b IHb d IHd tm e o k x H. cbn [ref_stmt] in H.
    destruct (ref_block tm e (if eval e c then b else d) 0%Z) as [[o1 g] xb].
    injection H as H1 H2 H3. rewrite H2 in H3. cbn in H3. congruence.
  - intros kd id n b IH tm e o k x H. cbn [ref_stmt] in H.
    destruct (ref_loop _ _ _ n 1) as [o1 g]. injection H as H1 H2 H3. subst g. cbn in H3. congruence.
  - intros pipe b IH tm e o k x H. cbn [ref_stmt] in H.
    destruct (ref_block true e b 0%Z) as [[o1 g] xb] eqn:E. inversion H as [[H1 H2 H3]]. subst.
    destruct g as [|n| |n|k']; cbn [absorb] in H2; try discriminate;
      try (destruct (name_eqb (try_name pipe) n); discriminate).
    inversion H2; subst. eapply IH. exact E.
  - intros f b IH tm e o k x H. cbn [ref_stmt] in H.
    destruct (ref_block false [] b 0%Z) as [[o1 g] xb]. destruct (tm && failed xb); discriminate.
  - intros nm tm e o k x H. discriminate.
  - intros tm e o k x H. discriminate.
  - intros nm tm e o k x H. discriminate.
  - intros k0 tm e o k x H. inversion H. reflexivity.
  - intros tm e xp o k x H. discriminate.
  - intros s IHs b IHb tm e xp o k x H. cbn [ref_block] in H.
    destruct (ref_stmt tm e s) as [[o1 g] xs] eqn:E.
    destruct g as [|n| |n|k'].
    + destruct (tm && failed xs && nonnil b); [discriminate|].
      destruct (ref_block tm e b xs) as [[o2 g2] x2] eqn:E2. inversion H; subst. eapply IHb. exact E2.
    + destruct (nonnil b && negb (tm && failed xs)); discriminate.
    + destruct (nonnil b && negb (tm && failed xs)); discriminate.
    + destruct (nonnil b && negb (tm && failed xs)); discriminate.
    + pose proof (IHs tm e o1 k' xs E) as X. subst xs.
      destruct (nonnil b && negb (tm && failed k')); inversion H; reflexivity.
Qed.

(* return n: the program / the function call reports exit number n *)
Theorem return_sets_exit : forall main o k x, well_named main = true ->
  ref_block false [] main 0%Z = (o, SRet k, x) -> run_cancel main = (o, k).
Proof.
  intros main o k x W H. rewrite (cancel_refines_signals main W). unfold run_ref. rewrite H.
  destruct ret_exit_all as [_ R]. rewrite (R _ _ _ _ _ _ _ H). reflexivity.
Qed.

(* ... wherever the `return n` is written in the function: directly in its body or at any nesting
   depth, also when the block that holds it is the last statement of the function *)
Theorem return_sets_call_exit : forall e f b encl st o x o1 k xb,
  all_live st = true -> map f_name st = names encl -> encl <> [] ->
  wn_stmt encl (Call f b) = true ->
  ref_block false [] b 0%Z = (o1, SRet k, xb) ->
  exec_stmt false e (Call f b) (mk st o x) = (mk st (o ++ o1 ++ [TExit k]) x, 0%Z).
Proof.
  intros e f b encl st o x o1 k xb L M NE W H.
  destruct refines_all as [HS _]. destruct ret_exit_all as [_ R].
  rewrite (HS (Call f b) false e encl st o x L M NE W). cbn [ref_stmt]. rewrite H.
  rewrite (R _ _ _ _ _ _ _ H). reflexivity.
Qed.

(* code outside the named block carries on: a statement that ends without a signal for its
   surroundings (whatever was broken / continued / returned inside it, in whatever run mode)
   leaves every enclosing frame and the exit number as they were *)
Theorem outside_unaffected : forall tm e s encl st o x,
  all_live st = true -> map f_name st = names encl -> encl <> [] -> wn_stmt encl s = true ->
  snd (fst (ref_stmt tm e s)) = SNone ->
  fst (exec_stmt tm e s (mk st o x)) = mk st (o ++ fst (fst (ref_stmt tm e s))) x.
Proof.
  intros tm e s encl st o x L M NE W H. destruct refines_all as [HS _].
  rewrite (HS s tm e encl st o x L M NE W), H. reflexivity.
Qed.

(* try: a break that names a loop inside the try block ends that loop only - the try block is
   not left: the statements after the loop run, in try mode as before *)
Theorem break_inside_try_affects_only_named_block : forall pipe e k id n b rest,
  snd (fst (ref_stmt true e (Loop k id n b))) = SNone ->
  snd (ref_stmt true e (Loop k id n b)) = 0%Z /\
  ref_stmt false e (Try pipe (BCons (Loop k id n b) rest)) =
    (let '(o2, g2, x2) := ref_block true e rest 0%Z in
     (fst (fst (ref_stmt true e (Loop k id n b))) ++ o2, absorb (try_name pipe) g2, x2)).
Proof.
  intros pipe e k id n b rest H.
  assert (X : snd (ref_stmt true e (Loop k id n b)) = 0%Z).
  { cbn [ref_stmt] in *. destruct (ref_loop _ _ _ n 1) as [o g]. cbn [fst snd] in *. subst g. reflexivity. }
  split; [exact X|].
  cbn [ref_stmt ref_block]. change (ref_stmt true e (Loop k id n b)) with (ref_stmt true e (Loop k id n b)).
  destruct (ref_stmt true e (Loop k id n b)) as [[o1 g] x1] eqn:E. cbn [fst snd] in *. subst g x1.
  fold (ref_stmt true e (Loop k id n b)). cbn [ref_stmt] in E. rewrite E.
  change (failed 0) with false. rewrite andb_false_r. cbn [andb].
  destruct (ref_block true e rest 0%Z) as [[o2 g2] x2]. reflexivity.
Qed.

(* try: a call that returns a non-zero number ends the try block (as documented) - and only it *)
Theorem failed_call_ends_try_block : forall e f b rest o1 g k, (0 < k)%Z -> rest <> BNil ->
  ref_block false [] b 0%Z = (o1, g, k) ->
  ref_block true e (BCons (Call f b) rest) 0%Z = (o1, SNone, k).
Proof.
  intros e f b rest o1 g k K R H. cbn [ref_block ref_stmt]. rewrite H.
  assert (F : failed k = true) by (unfold failed; apply Z.ltb_lt; exact K).
  rewrite F. cbn [andb]. rewrite F. destruct rest; [congruence|reflexivity].
Qed.

Theorem model_meets_spec : forall main, well_named main = true ->
  spec_ok {| c_prog := main; c_obs_out := fst (run_cancel main); c_obs_exit := snd (run_cancel main) |} = true.
Proof.
  intros main W. unfold spec_ok, obs_eqb. cbn [c_prog c_obs_out c_obs_exit].
  rewrite (cancel_refines_signals main W). rewrite Z.eqb_refl, andb_true_r.
  generalize (fst (run_ref main)). induction l as [|[t|k] l IH]; cbn; auto.
  - rewrite N.eqb_refl. exact IH.
  - rewrite Z.eqb_refl. exact IH.
Qed.

(* ---- the function boundary ---- *)
Theorem break_does_not_cross_function : forall tm e f b st o x,
  c_stack (fst (exec_stmt tm e (Call f b) (mk st o x))) = st /\
  c_exit (fst (exec_stmt tm e (Call f b) (mk st o x))) = x /\
  snd (fst (ref_stmt tm e (Call f b))) = SNone.
Proof.
  intros tm e f b st o x. cbn [exec_stmt ref_stmt].
  destruct (ref_block false [] b 0%Z) as [[o1 g] xb].
  destruct (exec_block false [] b _ 0%Z) as [r k].
  destruct (tm && failed k); destruct (tm && failed xb); repeat split.
Qed.

Theorem unresolved_break_kills_function_only : forall nm st,
  (forall G, In G st -> name_eqb (f_name G) nm = false) -> brk_walk nm st = map (kill 0) st.
Proof.
  intros nm st. induction st as [|G st IH]; intro H; cbn [brk_walk map]; [reflexivity|].
  rewrite (H G (or_introl eq_refl)). f_equal. apply IH. intros G' HG'. apply H. right. exact HG'.
Qed.
