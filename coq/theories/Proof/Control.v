(* C39 — proofs about Model/Control.v: the cancellation mechanism refines the signal semantics *)
From Murex Require Import Base.Outcome Base.Bytes Model.Control Check.C39.
Local Open Scope N_scope.

Scheme stmt_block_ind := Induction for stmt Sort Prop
  with block_stmt_ind := Induction for block Sort Prop.
Combined Scheme stmt_block_mutind from stmt_block_ind, block_stmt_ind.

Definition apply_sig (g : sig) (st : list frame) : list frame :=
  match g with
  | SNone => st
  | SBrk nm => brk_walk nm st
  | SCont nm => cont_up nm st
  | SRet _ => kill_all st
  end.

Definition exit_sig (g : sig) (x : Z) : Z := match g with SRet k => k | _ => x end.

Definition all_live (st : list frame) : bool := forallb frame_live st.

Notation mk st o x := {| c_stack := st; c_out := o; c_exit := x |}.

(* leaving a block: what is left of a signal for the frames outside *)
Lemma pop_apply : forall g nm0 st,
  tl (apply_sig g (new_frame nm0 :: st)) = apply_sig (absorb nm0 g) st.
Proof.
  intros [|n|n|k] nm0 st; cbn [apply_sig absorb brk_walk cont_up kill_all map tl new_frame f_name]; try reflexivity.
  - destruct (name_eqb nm0 n); reflexivity.
  - destruct (name_eqb nm0 n); [reflexivity|]. destruct st; reflexivity.
Qed.

Lemma exit_absorb : forall nm g x, exit_sig (absorb nm g) x = exit_sig g x.
Proof. intros nm [|n|n|k] x; cbn; try reflexivity; destruct (name_eqb nm n); reflexivity. Qed.

(* a signal leaves the innermost frame dead, so the rest of its block is skipped *)
Lemma signal_kills_top : forall g st, st <> [] -> g <> SNone -> top_live (apply_sig g st) = false.
Proof.
  intros g [|f st] Hne Hg; [congruence|].
  destruct g as [|n|n|k]; [congruence| | |]; cbn [apply_sig brk_walk cont_up kill_all map].
  - destruct (name_eqb (f_name f) n); reflexivity.
  - destruct (name_eqb (f_name f) n); cbn; [apply andb_false_r|].
    destruct st; cbn; [apply andb_false_r|reflexivity].
  - reflexivity.
Qed.

Lemma all_live_top : forall st, st <> [] -> all_live st = true -> top_live st = true.
Proof. intros [|f st] H L; [congruence|]. cbn in *. apply andb_true_iff in L as [L _]. exact L. Qed.

Lemma skipped_block : forall b e c, top_live (c_stack c) = false -> exec_block e b c = c.
Proof. intros [|s b] e c H; cbn [exec_block]; [reflexivity|]. rewrite H. reflexivity. Qed.

Lemma cancelled_loop : forall body k i c, top_cancelled (c_stack c) = true -> cancel_loop body k i c = c.
Proof. intros body [|k] i c H; cbn [cancel_loop]; [reflexivity|]. rewrite H. reflexivity. Qed.

(* ---- loops ---- *)
Section Loop.
  Variable nm : name.
  Variable encl : list name.
  Hypothesis encl_ne : encl <> [].
  Variable body_c : N -> cstate -> cstate.
  Variable body_r : N -> list tok * sig.
  Hypothesis Hbody : forall i st o x, all_live st = true -> map f_name st = nm :: encl ->
    body_c i (mk st o x) =
      mk (apply_sig (snd (body_r i)) st) (o ++ fst (body_r i)) (exit_sig (snd (body_r i)) x).

  Lemma loop_refines : forall k i F st o x,
    f_name F = nm -> f_cancelled F = false -> all_live st = true -> map f_name st = encl ->
    pop (cancel_loop body_c k i (mk (F :: st) o x)) =
      mk (apply_sig (snd (ref_loop body_r nm k i)) st) (o ++ fst (ref_loop body_r nm k i))
         (exit_sig (snd (ref_loop body_r nm k i)) x).
  Proof.
    induction k as [|k IH]; intros i F st o x HN HC HL HM; cbn [cancel_loop ref_loop].
    - cbn. rewrite app_nil_r. reflexivity.
    - cbn [c_stack top_cancelled]. rewrite HC. unfold renew_top. cbn [c_stack c_out c_exit].
      set (F' := fresh_iteration F).
      assert (HL' : all_live (F' :: st) = true).
      { cbn. unfold frame_live. cbn. rewrite HC. cbn. exact HL. }
      assert (HM' : map f_name (F' :: st) = nm :: encl).
      { cbn. rewrite HN, HM. reflexivity. }
      rewrite (Hbody i (F' :: st) o x HL' HM').
      destruct (body_r i) as [o1 g]. cbn [fst snd].
      assert (HN' : f_name F' = nm) by exact HN.
      assert (HC' : f_cancelled F' = false) by exact HC.
      destruct g as [|n|n|r]; cbn [apply_sig exit_sig].
      + (* no signal: next iteration *)
        rewrite (IH (i + 1) F' st (o ++ o1) x HN' HC' HL HM).
        destruct (ref_loop body_r nm k (i + 1)) as [o2 g2]. cbn [fst snd]. rewrite app_assoc. reflexivity.
      + (* break *)
        cbn [brk_walk]. rewrite HN'. destruct (name_eqb nm n).
        * rewrite cancelled_loop by reflexivity. cbn. reflexivity.
        * rewrite cancelled_loop by reflexivity. cbn. reflexivity.
      + (* continue *)
        cbn [cont_up]. rewrite HN'. destruct (name_eqb nm n).
        * rewrite (IH (i + 1) (kill_rest F') st (o ++ o1) x HN' HC' HL HM).
          destruct (ref_loop body_r nm k (i + 1)) as [o2 g2]. cbn [fst snd]. rewrite app_assoc. reflexivity.
        * destruct st as [|G st']; [cbn in HM; congruence|].
          rewrite cancelled_loop by reflexivity. cbn. reflexivity.
      + (* return *)
        cbn [kill_all map]. rewrite cancelled_loop by reflexivity. cbn. reflexivity.
  Qed.
End Loop.

(* ---- the refinement, for statements and blocks ---- *)
Definition stmt_refines (s : stmt) : Prop :=
  forall e encl st o x, all_live st = true -> map f_name st = encl -> encl <> [] -> wn_stmt encl s = true ->
    exec_stmt e s (mk st o x) =
      mk (apply_sig (snd (ref_stmt e s)) st) (o ++ fst (ref_stmt e s)) (exit_sig (snd (ref_stmt e s)) x).

Definition block_refines (b : block) : Prop :=
  forall e encl st o x, all_live st = true -> map f_name st = encl -> encl <> [] -> wn_block encl b = true ->
    exec_block e b (mk st o x) =
      mk (apply_sig (snd (ref_block e b)) st) (o ++ fst (ref_block e b)) (exit_sig (snd (ref_block e b)) x).

Lemma nonempty_stack : forall (st : list frame) encl, map f_name st = encl -> encl <> [] -> st <> [].
Proof. intros [|f st] encl H N; [cbn in H; congruence|discriminate]. Qed.

Lemma refines_all : (forall s, stmt_refines s) /\ (forall b, block_refines b).
Proof.
  apply stmt_block_mutind; unfold stmt_refines, block_refines.
  - (* Out *) intros t e encl st o x L M NE W. reflexivity.
  - (* If *) intros c b IH e encl st o x L M NE W. cbn [exec_stmt ref_stmt wn_stmt] in *.
    destruct (eval e c).
    + unfold push. cbn [c_stack c_out c_exit].
      rewrite (IH e (NIf :: encl) (new_frame NIf :: st) o x); [| cbn; exact L | cbn; rewrite M; reflexivity | discriminate | exact W].
      destruct (ref_block e b) as [o1 g]. cbn [fst snd]. unfold pop. cbn [c_stack c_out c_exit].
      rewrite pop_apply, exit_absorb. reflexivity.
    + cbn. rewrite app_nil_r. reflexivity.
  - (* Foreach *) intros id n b IH e encl st o x L M NE W. cbn [exec_stmt ref_stmt wn_stmt] in *.
    unfold push. cbn [c_stack c_out c_exit].
    apply (loop_refines NForeach encl NE (fun i c' => exec_block ((id, i) :: e) b c') (fun i => ref_block ((id, i) :: e) b)); auto.
    intros i st' o' x' L' M'. apply (IH ((id, i) :: e) (NForeach :: encl)); auto. discriminate.
  - (* While *) intros id n b IH e encl st o x L M NE W. cbn [exec_stmt ref_stmt wn_stmt] in *.
    unfold push. cbn [c_stack c_out c_exit].
    apply (loop_refines NWhile encl NE (fun i c' => exec_block ((id, i) :: e) b c') (fun i => ref_block ((id, i) :: e) b)); auto.
    intros i st' o' x' L' M'. apply (IH ((id, i) :: e) (NWhile :: encl)); auto. discriminate.
  - (* Call *) intros f b IH e encl st o x L M NE W. cbn [exec_stmt ref_stmt wn_stmt] in *.
    rewrite (IH [] [NFunc f] [new_frame (NFunc f)] [] 0%Z); [| reflexivity | reflexivity | discriminate | exact W].
    destruct (ref_block [] b) as [o1 g]. cbn [fst snd c_stack c_out c_exit app apply_sig exit_sig].
    destruct g; reflexivity.
  - (* Break *) intros nm e encl st o x L M NE W. cbn. rewrite app_nil_r. reflexivity.
  - (* Continue *) intros nm e encl st o x L M NE W. cbn [exec_stmt ref_stmt wn_stmt fst snd apply_sig exit_sig c_stack c_out c_exit] in *.
    rewrite app_nil_r.
    destruct st as [|F [|G st]]; cbn in M; subst encl; try discriminate.
    apply negb_true_iff in W. unfold cont_walk. cbn [cont_up]. rewrite W. reflexivity.
  - (* Return *) intros k e encl st o x L M NE W. cbn. rewrite app_nil_r. reflexivity.
  - (* BNil *) intros e encl st o x L M NE W. cbn. rewrite app_nil_r. reflexivity.
  - (* BCons *) intros s IHs b IHb e encl st o x L M NE W. cbn [exec_block ref_block wn_block c_stack] in *.
    apply andb_true_iff in W as [Ws Wb].
    pose proof (nonempty_stack st encl M NE) as NS.
    rewrite (all_live_top st NS L).
    rewrite (IHs e encl st o x L M NE Ws).
    destruct (ref_stmt e s) as [o1 g]. cbn [fst snd].
    destruct g as [|n|n|k].
    + cbn [apply_sig exit_sig]. rewrite (IHb e encl st (o ++ o1) x L M NE Wb).
      destruct (ref_block e b) as [o2 g2]. cbn [fst snd]. rewrite app_assoc. reflexivity.
    + apply skipped_block. cbn [c_stack]. apply signal_kills_top; [exact NS|discriminate].
    + apply skipped_block. cbn [c_stack]. apply signal_kills_top; [exact NS|discriminate].
    + apply skipped_block. cbn [c_stack]. apply signal_kills_top; [exact NS|discriminate].
Qed.

(* THE REFINEMENT *)
Theorem cancel_refines_signals : forall main, well_named main = true -> run_cancel main = run_ref main.
Proof.
  intros main W. unfold run_cancel, run_ref, well_named in *.
  destruct refines_all as [_ HB].
  rewrite (HB main [] [NFunc 0] [new_frame (NFunc 0)] [] 0%Z); [| reflexivity | reflexivity | discriminate | exact W].
  destruct (ref_block [] main) as [o g]. cbn [fst snd c_out c_exit app exit_sig]. destruct g; reflexivity.
Qed.

(* ---- corollaries ---- *)
Lemma name_eqb_refl : forall n, name_eqb n n = true.
Proof. intros [| | |f]; cbn; auto. apply N.eqb_refl. Qed.

(* break: nothing after it in its block runs, and exactly the frames up to the named one die *)
Theorem break_stops_rest_of_block : forall e nm rest st o x, st <> [] -> all_live st = true ->
  exec_block e (BCons (Break nm) rest) (mk st o x) = mk (brk_walk nm st) o x.
Proof.
  intros e nm rest st o x NS L. cbn [exec_block c_stack]. rewrite (all_live_top st NS L).
  apply skipped_block. cbn [exec_stmt c_stack].
  apply (signal_kills_top (SBrk nm) st NS). discriminate.
Qed.

(* the frames outside the named block are not touched by break *)
Theorem break_outside_untouched : forall nm F inner outer,
  f_name F = nm -> (forall G, In G inner -> name_eqb (f_name G) nm = false) ->
  brk_walk nm (inner ++ F :: outer) = map kill inner ++ kill F :: outer.
Proof.
  intros nm F inner outer HF. induction inner as [|G inner IH]; intro H; cbn [app map brk_walk].
  - rewrite HF, name_eqb_refl. reflexivity.
  - rewrite (H G (or_introl eq_refl)). f_equal. apply IH. intros G' HG'. apply H. right. exact HG'.
Qed.

(* continue: the named loop is not cancelled (it goes on to its next iteration), the rest of its
   current iteration is, every block inside it is cancelled, every frame outside is untouched *)
Theorem continue_next_iteration : forall nm F inner outer,
  f_name F = nm -> (forall G, In G inner -> name_eqb (f_name G) nm = false) ->
  cont_up nm (inner ++ F :: outer) = map kill inner ++ kill_rest F :: outer.
Proof.
  intros nm F inner outer HF. induction inner as [|G inner IH]; intro H; cbn [app map].
  - cbn [cont_up]. rewrite HF, name_eqb_refl. reflexivity.
  - change (cont_up nm (G :: inner ++ F :: outer)) with
      (if name_eqb (f_name G) nm then kill_rest G :: (inner ++ F :: outer)
       else match inner ++ F :: outer with [] => [kill_rest G] | _ => kill G :: cont_up nm (inner ++ F :: outer) end).
    rewrite (H G (or_introl eq_refl)).
    assert (IH' := IH (fun G' HG' => H G' (or_intror HG'))).
    destruct (inner ++ F :: outer) eqn:E; [destruct inner; discriminate|].
    f_equal. exact IH'.
Qed.

(* ... and the reference loop does run its next iteration *)
Theorem continue_loop_goes_on : forall body nm k i o,
  body i = (o, SCont nm) ->
  ref_loop body nm (S k) i = (o ++ fst (ref_loop body nm k (i + 1)), snd (ref_loop body nm k (i + 1))).
Proof.
  intros body nm k i o H. cbn [ref_loop]. rewrite H, name_eqb_refl.
  destruct (ref_loop body nm k (i + 1)); reflexivity.
Qed.

(* return n: the program / the function call reports exit number n *)
Theorem return_sets_exit : forall main o k, well_named main = true ->
  ref_block [] main = (o, SRet k) -> run_cancel main = (o, k).
Proof.
  intros main o k W H. rewrite (cancel_refines_signals main W). unfold run_ref. rewrite H. reflexivity.
Qed.

Theorem return_sets_call_exit : forall e f b encl st o x o1 k,
  all_live st = true -> map f_name st = encl -> encl <> [] -> wn_block [NFunc f] b = true ->
  ref_block [] b = (o1, SRet k) ->
  exec_stmt e (Call f b) (mk st o x) = mk st (o ++ o1 ++ [TExit k]) x.
Proof.
  intros e f b encl st o x o1 k L M NE W H.
  destruct refines_all as [HS _].
  rewrite (HS (Call f b) e encl st o x L M NE W). cbn [ref_stmt]. rewrite H. reflexivity.
Qed.

(* code outside the named block carries on: a statement that ends without a signal for its
   surroundings (whatever was broken / continued / returned inside it) leaves every enclosing
   frame and the exit number as they were *)
Theorem outside_unaffected : forall e s encl st o x,
  all_live st = true -> map f_name st = encl -> encl <> [] -> wn_stmt encl s = true ->
  snd (ref_stmt e s) = SNone ->
  exec_stmt e s (mk st o x) = mk st (o ++ fst (ref_stmt e s)) x.
Proof.
  intros e s encl st o x L M NE W H. destruct refines_all as [HS _].
  rewrite (HS s e encl st o x L M NE W), H. reflexivity.
Qed.

Theorem model_meets_spec : forall main, well_named main = true ->
  spec_ok {| c_prog := main; c_obs_out := fst (run_cancel main); c_obs_exit := snd (run_cancel main) |} = true.
Proof.
  intros main W. unfold spec_ok, obs_eqb. cbn [c_prog c_obs_out c_obs_exit].
  rewrite (cancel_refines_signals main W). rewrite Z.eqb_refl, andb_true_r.
  generalize (fst (run_ref main)). induction l as [|[t|k] l IH]; cbn; auto.
  - rewrite N.eqb_refl. exact IH.
  - rewrite Z.eqb_refl. exact IH.
Qed.

(* ---- the function boundary ---- *)
(* Whatever a called function does - including a break / continue whose name only a block of the
   CALLER has - the caller's frames and exit number are untouched and the call is an ordinary
   statement for the caller: the jump ends (at most) the function it is written in. *)
Theorem break_does_not_cross_function : forall e f b st o x,
  c_stack (exec_stmt e (Call f b) (mk st o x)) = st /\
  c_exit (exec_stmt e (Call f b) (mk st o x)) = x /\
  snd (ref_stmt e (Call f b)) = SNone.
Proof.
  intros e f b st o x. cbn [exec_stmt ref_stmt c_stack c_exit]. repeat split.
  destruct (ref_block [] b); reflexivity.
Qed.

(* a break whose name no block of the function has abandons the function: every frame of the
   activation dies (and, the stack ending at the function, nothing else) *)
Theorem unresolved_break_kills_function_only : forall nm st,
  (forall G, In G st -> name_eqb (f_name G) nm = false) -> brk_walk nm st = map kill st.
Proof.
  intros nm st. induction st as [|G st IH]; intro H; cbn [brk_walk map]; [reflexivity|].
  rewrite (H G (or_introl eq_refl)). f_equal. apply IH. intros G' HG'. apply H. right. exact HG'.
Qed.
