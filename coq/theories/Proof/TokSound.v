(* C34 — soundness of the tokenizer's verdict on the command-line grammar of
   Model/CmdLine.v.
   stage 1: the token half of Model/Tokenizer.v refines the abstract machine
            CmdLine.astep (mode + names looked up in the safe list);
   stage 2: running the abstract machine over a rendered line, compositionally
            ("segments"): which names are looked up, which is still pending;
   stage 3: every command the block parser executes before the last separator is
            among the looked-up names (possibly with the `-` of `->` attached, which
            makes it unsafe for sure). *)
From Coq Require Import Lia.
From Murex Require Import Base.Outcome Base.Bytes Gen.SafeCmds Model.Tokenizer Model.CmdLine.
From Murex Require Import Check.C34 Proof.TokHighlight Proof.TokUnsafe.
Local Open Scope N_scope.

(* ---------- stage 1: the tokenizer refines the abstract machine ---------- *)

Definition base_ok (t : tok) : Prop :=
  t_escaped t = false /\ t_var_sigil t = 0 /\ t_qb t = 0%Z.

Definition in_mode (m : mode) (t : tok) : Prop :=
  base_ok t /\
  match m with
  | MCmd => t_qs t = false /\ t_qd t = false /\ t_expect_func t = true /\ t_read_func t = false /\ t_pop_func t = true
  | MName n => t_qs t = false /\ t_qd t = false /\ t_expect_func t = true /\ t_read_func t = true /\ t_pop_func t = true /\ t_func t = n
  | MArgs => t_qs t = false /\ t_qd t = false /\ t_expect_func t = false /\ t_read_func t = false
  | MSq => t_qs t = true /\ t_qd t = false /\ t_expect_func t = false /\ t_read_func t = false
  | MDq => t_qs t = false /\ t_qd t = true /\ t_expect_func t = false /\ t_read_func t = false
  end.

Lemma alpha_range c : is_alpha c = true -> 97 <= c <= 122.
Proof. unfold is_alpha. intro H. apply andb_true_iff in H as [H1 H2]. apply N.leb_le in H1, H2. lia. Qed.

Lemma alpha_enc c : is_alpha c = true -> enc c = c.
Proof.
  intro H. apply alpha_range in H. unfold enc, valid_rune.
  destruct (N.ltb_spec c 55296); [reflexivity|lia].
Qed.

Ltac kill_eqb c :=
  repeat match goal with
  | |- context [(c =? ?k)] =>
      replace (c =? k) with false by (symmetry; apply N.eqb_neq; lia)
  end.

(* for a letter the switch takes its default branch *)
Lemma switch_alpha pos prev i c tl t : is_alpha c = true ->
  switch pos prev i c tl t =
    if t_escaped t then
      let v := if c =? 114 then 13 else if c =? 110 then 10 else if c =? 115 then 32
               else if c =? 116 then 9 else c in
      cont (pop_set v (set_escaped false t)) [AReset c]
    else if t_read_func t then add_raw c t
    else if t_expect_func t then cont (set_read_func true (pop_set c t)) [ARaw c]
    else add_raw c (if t_expect_param t then expect_param_ t else t).
Proof.
  intro H. apply alpha_range in H. unfold switch.
  replace (c =? 35) with false by (symmetry; apply N.eqb_neq; lia).
  replace (c =? 92) with false by (symmetry; apply N.eqb_neq; lia).
  replace (c =? 39) with false by (symmetry; apply N.eqb_neq; lia).
  replace (c =? 34) with false by (symmetry; apply N.eqb_neq; lia).
  replace (c =? 40) with false by (symmetry; apply N.eqb_neq; lia).
  replace (c =? 41) with false by (symmetry; apply N.eqb_neq; lia).
  replace (c =? 32) with false by (symmetry; apply N.eqb_neq; lia).
  replace (c =? 61) with false by (symmetry; apply N.eqb_neq; lia).
  replace (c =? 58) with false by (symmetry; apply N.eqb_neq; lia).
  replace (c =? 62) with false by (symmetry; apply N.eqb_neq; lia).
  replace (c =? 124) with false by (symmetry; apply N.eqb_neq; lia).
  replace (c =? 38) with false by (symmetry; apply N.eqb_neq; lia).
  replace (c =? 59) with false by (symmetry; apply N.eqb_neq; lia).
  replace (c =? 10) with false by (symmetry; apply N.eqb_neq; lia).
  replace (c =? 63) with false by (symmetry; apply N.eqb_neq; lia).
  replace (c =? 123) with false by (symmetry; apply N.eqb_neq; lia).
  replace (c =? 125) with false by (symmetry; apply N.eqb_neq; lia).
  replace (c =? 91) with false by (symmetry; apply N.eqb_neq; lia).
  replace (c =? 93) with false by (symmetry; apply N.eqb_neq; lia).
  replace (c =? 36) with false by (symmetry; apply N.eqb_neq; lia).
  replace (c =? 64) with false by (symmetry; apply N.eqb_neq; lia).
  replace (c =? 60) with false by (symmetry; apply N.eqb_neq; lia).
  reflexivity.
Qed.

(* outside a $variable and not escaped, the loop body is the switch on the state
   with LastCharacter updated *)
Lemma step_plain pos prev i c tl t :
  t_escaped t = false -> t_var_sigil t = 0 ->
  step pos prev i c tl t = switch pos prev i c tl (set_last_char c t).
Proof.
  intros He Hv. unfold step. rewrite He. cbv zeta.
  destruct t; simpl in *; subst. reflexivity.
Qed.

Definition refines (m' : mode) (j : list (list N)) (k : nat) (t : tok) (r : sres) : Prop :=
  s_kind r = KCont k /\ in_mode m' (s_tok r) /\
  t_unsafe (s_tok r) = existsb is_cmd_unsafe j || t_unsafe t.

Ltac open_mode H :=
  destruct H as ((? & ? & ?) & H); simpl in H;
  repeat match type of H with _ /\ _ => let H1 := fresh in destruct H as [H1 H] end.

Ltac solve_ref :=
  unfold refines, in_mode, base_ok; simpl;
  repeat split; try reflexivity; try assumption;
  rewrite ?orb_false_r, ?orb_true_r; try reflexivity.

Lemma refine_step m prev i c tl t m' j k :
  in_mode m t -> astep m prev c tl = Some (m', j, k) ->
  refines m' j k t (step 0%Z prev i c tl t).
Proof.
  intros Hm Ha. pose proof Hm as ((He & Hv & Hq) & _).
  rewrite (step_plain 0%Z prev i c tl t He Hv).
  destruct (is_alpha c) eqn:Ealpha.
  - (* a letter *)
    rewrite (switch_alpha 0%Z prev i c tl _ Ealpha).
    pose proof (alpha_enc c Ealpha) as Henc.
    pose proof (alpha_range c Ealpha) as Hr.
    assert (Hq1 : is_qchar c = true) by (unfold is_qchar; rewrite Ealpha; reflexivity).
    assert (N39 : (c =? 39) = false) by (apply N.eqb_neq; lia).
    assert (N34 : (c =? 34) = false) by (apply N.eqb_neq; lia).
    destruct m; unfold astep in Ha; cbv zeta in Ha; rewrite ?Ealpha, ?N39, ?N34, ?Hq1 in Ha;
      inversion Ha; subst; clear Ha;
      open_mode Hm; destruct t; simpl in *; subst; simpl;
      unfold add_raw, pop_add, pop_set, cont, expect_param_; simpl; rewrite ?Henc.
    all: try (destruct t_expect_param; simpl); try (destruct t_pop_func; simpl); solve_ref.
  - (* not a letter: a concrete rune *)
    destruct m; unfold astep in Ha; cbv zeta in Ha; rewrite ?Ealpha in Ha;
      unfold is_qchar in Ha; rewrite ?Ealpha in Ha; cbn [orb] in Ha;
      repeat match type of Ha with
      | (if ?b then _ else _) = _ => destruct b eqn:?
      end; inversion Ha; subst; clear Ha;
      repeat match goal with
      | H : (_ && _) = true |- _ => apply andb_true_iff in H; destruct H
      | H : (_ || _) = true |- _ => apply orb_true_iff in H; destruct H
      | H : negb _ = true |- _ => apply negb_true_iff in H
      | H : (?x =? _) = true |- _ => is_var x; apply N.eqb_eq in H; subst x
      end; try discriminate;
      repeat match goal with
      | H : prev_is ?p _ = true |- _ => destruct p as [pp|]; simpl in H; [apply N.eqb_eq in H; subst pp|discriminate H]
      end;
      open_mode Hm; destruct t; simpl in *; subst;
      unfold switch, flow, end_func, inq, early, add_raw, pop_add, cont, cont_skip, expect_param_; simpl;
      repeat match goal with
      | H : next_is _ _ = _ |- _ => rewrite H
      | H : prev_is _ _ = _ |- _ => rewrite H
      end; simpl.
    all: repeat (match goal with |- context [if ?b then _ else _] => destruct b eqn:? end; simpl).
    all: solve_ref.
Qed.

(* the token half of tok_go is tgo *)
Lemma tok_go_unsafe n : forall l prev i t h r,
  (length l <= n)%nat -> tok_go 0%Z prev i t h l = Ok r ->
  t_unsafe (r_tok r) = t_unsafe (tgo prev i t l).
Proof.
  induction n as [|n IH]; intros l prev i t h r Hlen E.
  - destruct l; [|cbn [length] in Hlen; lia]. cbn [tok_go tgo] in *. inversion E; subst.
    unfold finish; cbn [r_tok]. destruct t; reflexivity.
  - destruct l as [|c tl].
    + cbn [tok_go tgo] in *. inversion E; subst. unfold finish; cbn [r_tok]. destruct t; reflexivity.
    + cbn [tok_go tgo] in *. cbv zeta in *. cbn [length] in Hlen.
      destruct (run_acts (s_acts (step 0%Z prev i c tl t)) h) as [h1| | |]; cbn [obind] in E; try discriminate.
      destruct (s_kind (step 0%Z prev i c tl t)) as [k| |].
      * destruct k as [|[|k]].
        -- eapply IH; [|exact E]. lia.
        -- destruct tl as [|c1 tl1]; [discriminate|]. cbn [length] in Hlen. eapply IH; [|exact E]. lia.
        -- destruct tl as [|c1 [|c2 tl2]]; try discriminate. cbn [length] in Hlen. eapply IH; [|exact E]. lia.
      * inversion E; subst. reflexivity.
      * inversion E; subst. unfold finish; cbn [r_tok]. destruct (s_tok (step 0%Z prev i c tl t)); reflexivity.
Qed.

Lemma existsb_app {A} (f : A -> bool) a b : existsb f (a ++ b) = existsb f a || existsb f b.
Proof. induction a as [|x a IH]; cbn [existsb app]; [reflexivity|]. rewrite IH, orb_assoc. reflexivity. Qed.

(* along a text of the sub-language the tokenizer's verdict is: some looked-up name
   is unsafe, or it was unsafe before *)
Lemma refine_run n : forall l m prev i t acc m' J,
  (length l <= n)%nat -> in_mode m t -> arun m prev l acc = Some (m', J) ->
  exists J', J = acc ++ J' /\ in_mode m' (tgo prev i t l) /\
             t_unsafe (tgo prev i t l) = existsb is_cmd_unsafe J' || t_unsafe t.
Proof.
  induction n as [|n IH]; intros l m prev i t acc m' J Hlen Hm E.
  - destruct l; [|cbn [length] in Hlen; lia]. cbn [arun tgo] in *. inversion E; subst.
    exists []. rewrite app_nil_r. split; [reflexivity|]. split; [assumption|reflexivity].
  - destruct l as [|c tl].
    + cbn [arun tgo] in *. inversion E; subst.
      exists []. rewrite app_nil_r. split; [reflexivity|]. split; [assumption|reflexivity].
    + cbn [arun tgo] in *. cbv zeta. cbn [length] in Hlen.
      destruct (astep m prev c tl) as [[[m1 j] k]|] eqn:Ea; [|discriminate].
      destruct (refine_step m prev i c tl t m1 j k Hm Ea) as (Hk & Hm1 & Hu).
      rewrite Hk. destruct k as [|k].
      * destruct (IH tl m1 (Some c) (i + 1)%Z _ (acc ++ j) m' J ltac:(lia) Hm1 E) as (J' & EJ & Hm' & Hu').
        exists (j ++ J'). rewrite app_assoc. split; [exact EJ|]. split; [exact Hm'|].
        rewrite Hu', Hu, existsb_app, orb_assoc. f_equal. apply orb_comm.
      * destruct tl as [|c1 tl1]; [discriminate|]. cbn [length] in Hlen.
        assert (k = 0%nat) as ->.
        { unfold astep in Ea. destruct m; cbv zeta in Ea;
            repeat match type of Ea with (if ?b then _ else _) = _ => destruct b end;
            inversion Ea; reflexivity. }
        destruct (IH tl1 m1 (Some c1) (i + 2)%Z _ (acc ++ j) m' J ltac:(lia) Hm1 E) as (J' & EJ & Hm' & Hu').
        exists (j ++ J'). rewrite app_assoc. split; [exact EJ|]. split; [exact Hm'|].
        rewrite Hu', Hu, existsb_app, orb_assoc. f_equal. apply orb_comm.
Qed.

(* ---------- stage 2: the abstract machine on rendered lines ---------- *)

Definition lastp (p : option N) (x : list N) : option N :=
  match x with [] => p | _ => Some (last x 0) end.

Lemma last_app_cons {A} (x : list A) b y d : last (x ++ b :: y) d = last (b :: y) d.
Proof.
  induction x as [|a x IH]; [reflexivity|]. cbn [app].
  destruct (x ++ b :: y) as [|z zs] eqn:E; [destruct x; discriminate|].
  change (last (a :: z :: zs) d) with (last (z :: zs) d). exact IH.
Qed.

Lemma lastp_app p x y : lastp (lastp p x) y = lastp p (x ++ y).
Proof.
  destruct y as [|b y]; [rewrite app_nil_r; reflexivity|].
  destruct x as [|a x]; [reflexivity|]. cbn [lastp app].
  destruct (x ++ b :: y) eqn:E; [destruct x; discriminate|]. rewrite <- E.
  f_equal. change (a :: x ++ b :: y) with ((a :: x) ++ b :: y). rewrite last_app_cons. reflexivity.
Qed.

Definition nostart (x : list N) : Prop := match x with [] => True | c :: _ => c <> 62 end.
Definition rest_ok (rest : list N) : Prop := next_is rest 62 = false.

Lemma rest_ok_app x rest : nostart x -> rest_ok rest -> rest_ok (x ++ rest).
Proof.
  destruct x as [|c x]; cbn [app]; intros Hn Hr; [exact Hr|].
  unfold rest_ok; cbn [next_is]. apply N.eqb_neq. exact Hn.
Qed.

(* running the text x from mode m leads to mode m' and looks up the names J *)
Definition segm (m : mode) (x : list N) (m' : mode) (J : list (list N)) : Prop :=
  forall p rest acc, rest_ok rest ->
    arun m p (x ++ rest) acc = arun m' (lastp p x) rest (acc ++ J).

Lemma seg_nil m : segm m [] m [].
Proof. intros p rest acc _. cbn [app lastp]. rewrite app_nil_r. reflexivity. Qed.

Lemma seg_app m x m1 J1 y m2 J2 :
  segm m x m1 J1 -> segm m1 y m2 J2 -> nostart y -> segm m (x ++ y) m2 (J1 ++ J2).
Proof.
  intros S1 S2 Hy p rest acc Hr.
  rewrite <- app_assoc, (S1 p (y ++ rest) acc (rest_ok_app y rest Hy Hr)), (S2 _ rest _ Hr).
  rewrite lastp_app, app_assoc. reflexivity.
Qed.

(* one rune that does not look ahead *)
Lemma seg_one m c m' J :
  (forall p tl, astep m p c tl = Some (m', J, 0%nat)) -> segm m [c] m' J.
Proof. intros H p rest acc _. cbn [app arun]. rewrite H. reflexivity. Qed.

Ltac one := apply seg_one; intros p tl; unfold astep; cbv zeta; reflexivity.

Lemma seg_sp_cmd : segm MCmd [32] MCmd []. Proof. one. Qed.
Lemma seg_sp_name n : segm (MName n) [32] MArgs [n]. Proof. one. Qed.
Lemma seg_sp_args : segm MArgs [32] MArgs []. Proof. one. Qed.
Lemma seg_semi_name n : segm (MName n) [59] MCmd [n]. Proof. one. Qed.
Lemma seg_semi_args : segm MArgs [59] MCmd []. Proof. one. Qed.
Lemma seg_dash_name n : segm (MName n) [45] (MName (n ++ [45])) []. Proof. one. Qed.
Lemma seg_dash_args : segm MArgs [45] MArgs []. Proof. one. Qed.
Lemma seg_open : segm MArgs [123] MCmd []. Proof. one. Qed.
Lemma seg_close_args : segm MArgs [125] MArgs []. Proof. one. Qed.
Lemma seg_close_name n : segm (MName n) [125] (MName n) []. Proof. one. Qed.
Lemma seg_sq_open : segm MArgs [39] MSq []. Proof. one. Qed.
Lemma seg_sq_close : segm MSq [39] MArgs []. Proof. one. Qed.
Lemma seg_dq_open : segm MArgs [34] MDq []. Proof. one. Qed.
Lemma seg_dq_close : segm MDq [34] MArgs []. Proof. one. Qed.

(* `|` looks ahead for `>` *)
Lemma seg_pipe m J : (m = MCmd /\ J = []) \/ (exists n, m = MName n /\ J = [n]) \/ (m = MArgs /\ J = []) ->
  segm m [124] MCmd J.
Proof.
  intros H p rest acc Hr. cbn [app arun]. unfold rest_ok in Hr.
  destruct H as [[-> ->]|[(n & -> & ->)|[-> ->]]]; unfold astep; cbv zeta; rewrite Hr; reflexivity.
Qed.

(* `->` : the `-` is taken as part of the word, the `>` ends the statement *)
Lemma seg_arrow_args : segm MArgs [45; 62] MCmd [].
Proof. intros p rest acc _. cbn [app arun]. unfold astep; cbv zeta. cbn. rewrite ?app_nil_r. reflexivity. Qed.
Lemma seg_arrow_name n : segm (MName n) [45; 62] MCmd [n ++ [45]].
Proof. intros p rest acc _. cbn [app arun]. unfold astep; cbv zeta. cbn. rewrite ?app_nil_r. reflexivity. Qed.

(* `&&` *)
Lemma seg_and_args : segm MArgs [38; 38] MCmd [].
Proof. intros p rest acc _. cbn [app arun]. unfold astep; cbv zeta. cbn. rewrite ?app_nil_r. reflexivity. Qed.
Lemma seg_and_name n : segm (MName n) [38; 38] MCmd [n].
Proof. intros p rest acc _. cbn [app arun]. unfold astep; cbv zeta. cbn. rewrite ?app_nil_r. reflexivity. Qed.

(* letters *)
Lemma seg_letters_name w : forall n, forallb is_alpha w = true -> segm (MName n) w (MName (n ++ w)) [].
Proof.
  induction w as [|c w IH]; intros n H.
  - rewrite app_nil_r. apply seg_nil.
  - cbn [forallb] in H. apply andb_true_iff in H as [Hc Hw].
    change (c :: w) with ([c] ++ w). replace (n ++ [c] ++ w) with ((n ++ [c]) ++ w) by (rewrite <- app_assoc; reflexivity).
    change (@nil (list N)) with (@nil (list N) ++ @nil (list N)).
    apply seg_app with (m1 := MName (n ++ [c])).
    + apply seg_one. intros p tl. unfold astep; cbv zeta. rewrite Hc. reflexivity.
    + apply IH. exact Hw.
    + destruct w as [|d w]; [exact I|]. cbn [forallb] in Hw. apply andb_true_iff in Hw as [Hd _].
      apply alpha_range in Hd. cbn [nostart]. lia.
Qed.

Lemma nostart_alpha w : forallb is_alpha w = true -> nostart w.
Proof.
  destruct w as [|d w]; [intros; exact I|]. cbn [forallb]. intro H. apply andb_true_iff in H as [Hd _].
  apply alpha_range in Hd. cbn [nostart]. lia.
Qed.

Lemma seg_word_cmd w : word_ok w = true -> segm MCmd w (MName w) [].
Proof.
  unfold word_ok. destruct w as [|c w]; [discriminate|]. cbn [negb andb forallb]. intro H.
  apply andb_true_iff in H as [Hc Hw].
  change (c :: w) with ([c] ++ w) at 1. change (c :: w) with ([c] ++ w).
  change (@nil (list N)) with (@nil (list N) ++ @nil (list N)).
  apply seg_app with (m1 := MName [c]).
  - apply seg_one. intros p tl. unfold astep; cbv zeta. rewrite Hc. reflexivity.
  - apply seg_letters_name. exact Hw.
  - apply nostart_alpha. exact Hw.
Qed.

Lemma seg_letters_args w : forallb is_alpha w = true -> segm MArgs w MArgs [].
Proof.
  induction w as [|c w IH]; intro H; [apply seg_nil|].
  cbn [forallb] in H. apply andb_true_iff in H as [Hc Hw].
  change (c :: w) with ([c] ++ w). change (@nil (list N)) with (@nil (list N) ++ @nil (list N)).
  apply seg_app with (m1 := MArgs).
  - apply seg_one. intros p tl. unfold astep; cbv zeta. rewrite Hc. reflexivity.
  - apply IH. exact Hw.
  - apply nostart_alpha. exact Hw.
Qed.

Lemma qchar_not_gt c : is_qchar c = true -> c <> 62.
Proof.
  unfold is_qchar. intro H. intro E. subst. cbn in H. discriminate.
Qed.

Lemma nostart_qtext w : forallb is_qchar w = true -> nostart w.
Proof.
  destruct w as [|d w]; [intros; exact I|]. cbn [forallb]. intro H. apply andb_true_iff in H as [Hd _].
  cbn [nostart]. apply qchar_not_gt. exact Hd.
Qed.

Lemma seg_qtext_sq w : forallb is_qchar w = true -> segm MSq w MSq [].
Proof.
  induction w as [|c w IH]; intro H; [apply seg_nil|].
  cbn [forallb] in H. apply andb_true_iff in H as [Hc Hw].
  change (c :: w) with ([c] ++ w). change (@nil (list N)) with (@nil (list N) ++ @nil (list N)).
  apply seg_app with (m1 := MSq).
  - apply seg_one. intros p tl. unfold astep; cbv zeta. rewrite Hc.
    destruct (N.eqb_spec c 39) as [E|E]; [subst; cbn in Hc; discriminate|reflexivity].
  - apply IH. exact Hw.
  - apply nostart_qtext. exact Hw.
Qed.

Lemma seg_qtext_dq w : forallb is_qchar w = true -> segm MDq w MDq [].
Proof.
  induction w as [|c w IH]; intro H; [apply seg_nil|].
  cbn [forallb] in H. apply andb_true_iff in H as [Hc Hw].
  change (c :: w) with ([c] ++ w). change (@nil (list N)) with (@nil (list N) ++ @nil (list N)).
  apply seg_app with (m1 := MDq).
  - apply seg_one. intros p tl. unfold astep; cbv zeta. rewrite Hc.
    destruct (N.eqb_spec c 34) as [E|E]; [subst; cbn in Hc; discriminate|reflexivity].
  - apply IH. exact Hw.
  - apply nostart_qtext. exact Hw.
Qed.

(* ---- which names are looked up while a rendered construct is read, and whether a
        name is still pending (read but not yet followed by a boundary) ---- *)
Definition pend := option (list N).
Definition mode_of (pd : pend) : mode := match pd with Some n => MName n | None => MArgs end.
Definition flush_sp (pd : pend) : list (list N) := match pd with Some n => [n] | None => [] end.
Definition flush_sep (pd : pend) (s : sep) : list (list N) :=
  match pd with
  | None => []
  | Some n => [if s_before s then n else match s_k s with SArrow => n ++ [45] | _ => n end]
  end.

Definition ss_pend (s : sstmt) : pend := match ss_args s with [] => Some (ss_name s) | _ => None end.
Definition ss_j (s : sstmt) : list (list N) := match ss_args s with [] => [] | _ => [ss_name s] end.

Fixpoint tail_j {A} (pendf : A -> pend) (jf : A -> list (list N)) (pd : pend) (l : list (sep * A))
  : list (list N) * pend :=
  match l with
  | [] => ([], pd)
  | (s, x) :: l' => let '(j, pd') := tail_j pendf jf (pendf x) l' in (flush_sep pd s ++ jf x ++ j, pd')
  end.

Definition sline_j (l : sline) : list (list N) * pend :=
  let '(j, pd) := tail_j ss_pend ss_j (ss_pend (fst l)) (snd l) in (ss_j (fst l) ++ j, pd).

Definition item_j (it : item) : list (list N) * pend :=
  match it with
  | IArg _ => ([], None)
  | IBlock pad body => let '(j, pd) := sline_j body in if pad then (j ++ flush_sp pd, None) else (j, pd)
  end.

Fixpoint items_j (pd : pend) (its : list item) : list (list N) * pend :=
  match its with
  | [] => ([], pd)
  | it :: r => let '(j1, pd1) := item_j it in
               let '(j2, pd2) := items_j pd1 r in (flush_sp pd ++ j1 ++ j2, pd2)
  end.

Definition st_j (s : stmt) : list (list N) * pend := items_j (Some (st_name s)) (st_items s).
Definition st_pend (s : stmt) : pend := snd (st_j s).
Definition st_jj (s : stmt) : list (list N) := fst (st_j s).

Definition line_j (l : line) : list (list N) * pend :=
  let '(j, pd) := tail_j st_pend st_jj (st_pend (fst l)) (snd l) in (st_jj (fst l) ++ j, pd).

(* ---- composite segments ---- *)

Lemma name_word w : name_ok w = true -> word_ok w = true.
Proof. unfold name_ok. intro H. apply andb_true_iff in H as [H _]. exact H. Qed.

Lemma word_alpha w : word_ok w = true -> forallb is_alpha w = true.
Proof. unfold word_ok. intro H. apply andb_true_iff in H as [_ H]. exact H. Qed.

Lemma nostart_word w : word_ok w = true -> nostart w.
Proof. intro H. apply nostart_alpha, word_alpha, H. Qed.

Lemma seg_arg a : arg_ok a = true -> segm MArgs (render_arg a) MArgs [].
Proof.
  unfold arg_ok, render_arg. destruct (a_quote a); intro H.
  - apply seg_letters_args, word_alpha, H.
  - change (39 :: a_text a ++ [39]) with ([39] ++ (a_text a ++ [39])).
    change (@nil (list N)) with (@nil (list N) ++ (@nil (list N) ++ @nil (list N))).
    apply seg_app with (m1 := MSq); [apply seg_sq_open| |].
    + apply seg_app with (m1 := MSq); [apply seg_qtext_sq, H|apply seg_sq_close|cbn; lia].
    + destruct (a_text a) as [|c w] eqn:E; cbn [app nostart]; [lia|].
      cbn [forallb] in H. apply andb_true_iff in H as [Hc _]. apply qchar_not_gt, Hc.
  - change (34 :: a_text a ++ [34]) with ([34] ++ (a_text a ++ [34])).
    change (@nil (list N)) with (@nil (list N) ++ (@nil (list N) ++ @nil (list N))).
    apply seg_app with (m1 := MDq); [apply seg_dq_open| |].
    + apply seg_app with (m1 := MDq); [apply seg_qtext_dq, H|apply seg_dq_close|cbn; lia].
    + destruct (a_text a) as [|c w] eqn:E; cbn [app nostart]; [lia|].
      cbn [forallb] in H. apply andb_true_iff in H as [Hc _]. apply qchar_not_gt, Hc.
Qed.

Lemma nostart_arg a : arg_ok a = true -> nostart (render_arg a).
Proof.
  unfold arg_ok, render_arg. destruct (a_quote a); intro H; [apply nostart_word, H|cbn; lia|cbn; lia].
Qed.

Definition render_args (l : list arg) : list N := concat (map (fun a => 32 :: render_arg a) l).

Lemma nostart_args l : nostart (render_args l).
Proof. destruct l; cbn; [exact I|lia]. Qed.

Lemma seg_args l : forallb arg_ok l = true -> segm MArgs (render_args l) MArgs [].
Proof.
  induction l as [|a l IH]; intro H; [apply seg_nil|].
  cbn [forallb] in H. apply andb_true_iff in H as [Ha Hl].
  unfold render_args. cbn [map concat]. fold (render_args l).
  change ((32 :: render_arg a) ++ render_args l) with ([32] ++ (render_arg a ++ render_args l)).
  change (@nil (list N)) with (@nil (list N) ++ (@nil (list N) ++ @nil (list N))).
  apply seg_app with (m1 := MArgs); [apply seg_sp_args| |].
  - apply seg_app with (m1 := MArgs); [apply seg_arg, Ha|apply IH, Hl|apply nostart_args].
  - destruct (render_arg a ++ render_args l) eqn:E; [exact I|].
    pose proof (nostart_arg a Ha) as Hn. destruct (render_arg a) as [|c r] eqn:Er.
    + cbn [app] in E. pose proof (nostart_args l) as Hn2. rewrite E in Hn2. exact Hn2.
    + cbn [app] in E. inversion E; subst. exact Hn.
Qed.

Lemma seg_sstmt s : sstmt_ok s = true ->
  segm MCmd (render_sstmt s) (mode_of (ss_pend s)) (ss_j s).
Proof.
  unfold sstmt_ok, render_sstmt, ss_pend, ss_j. intro H. apply andb_true_iff in H as [Hn Ha].
  fold (render_args (ss_args s)). destruct (ss_args s) as [|a l] eqn:E.
  - unfold render_args; cbn [map concat]. rewrite app_nil_r. apply seg_word_cmd, name_word, Hn.
  - change (@cons (list N) (ss_name s) nil) with (@nil (list N) ++ [ss_name s]).
    apply seg_app with (m1 := MName (ss_name s)); [apply seg_word_cmd, name_word, Hn| |apply nostart_args].
    unfold render_args. cbn [map concat]. fold (render_args l).
    change ((32 :: render_arg a) ++ render_args l) with ([32] ++ (render_arg a ++ render_args l)).
    change [ss_name s] with ([ss_name s] ++ (@nil (list N) ++ @nil (list N))).
    cbn [forallb] in Ha. apply andb_true_iff in Ha as [Ha Hl].
    apply seg_app with (m1 := MArgs); [apply seg_sp_name| |].
    + apply seg_app with (m1 := MArgs); [apply seg_arg, Ha|apply seg_args, Hl|apply nostart_args].
    + destruct (render_arg a ++ render_args l) eqn:E2; [exact I|].
      pose proof (nostart_arg a Ha) as Hn1. destruct (render_arg a) as [|c r] eqn:Er.
      * cbn [app] in E2. pose proof (nostart_args l) as Hn2. rewrite E2 in Hn2. exact Hn2.
      * cbn [app] in E2. inversion E2; subst. exact Hn1.
Qed.

Lemma nostart_sstmt s : sstmt_ok s = true -> nostart (render_sstmt s).
Proof.
  unfold sstmt_ok, render_sstmt. intro H. apply andb_true_iff in H as [Hn _].
  apply name_word in Hn. pose proof (nostart_word _ Hn) as Hs.
  destruct (ss_name s); [discriminate Hn|exact Hs].
Qed.

(* a separator, from a pending name or from the parameters *)
Lemma seg_token pd k :
  segm (mode_of pd) (sep_token k) MCmd
      (match pd with None => [] | Some n => [match k with SArrow => n ++ [45] | _ => n end] end).
Proof.
  destruct pd as [n|], k; cbn [mode_of sep_token].
  - apply seg_semi_name.
  - apply seg_pipe. right; left. exists n. split; reflexivity.
  - apply seg_arrow_name.
  - apply seg_and_name.
  - change [124; 124] with ([124] ++ [124]). change [n] with ([n] ++ @nil (list N)).
    apply seg_app with (m1 := MCmd); [apply seg_pipe; right; left; exists n; split; reflexivity
                                      |apply seg_pipe; left; split; reflexivity|cbn; lia].
  - apply seg_semi_args.
  - apply seg_pipe. right; right. split; reflexivity.
  - apply seg_arrow_args.
  - apply seg_and_args.
  - change [124; 124] with ([124] ++ [124]). change (@nil (list N)) with (@nil (list N) ++ @nil (list N)).
    apply seg_app with (m1 := MCmd); [apply seg_pipe; right; right; split; reflexivity
                                      |apply seg_pipe; left; split; reflexivity|cbn; lia].
Qed.

Lemma nostart_token k : nostart (sep_token k).
Proof. destruct k; cbn; lia. Qed.

Lemma seg_sep pd s : segm (mode_of pd) (render_sep s) MCmd (flush_sep pd s).
Proof.
  unfold render_sep, flush_sep. destruct s as [k b a]; cbn [s_k s_before s_after].
  assert (Hafter : segm MCmd (sp a) MCmd []) by (destruct a; [apply seg_sp_cmd|apply seg_nil]).
  assert (Hna : nostart (sp a)) by (destruct a; cbn; [lia|exact I]).
  assert (Hnt : nostart (sep_token k ++ sp a)) by (destruct k; cbn; lia).
  destruct b; cbn [sp].
  - (* a space first: it flushes the pending name *)
    destruct pd as [n|]; cbn [mode_of].
    + change [n] with ([n] ++ (@nil (list N) ++ @nil (list N))).
      apply seg_app with (m1 := MArgs); [apply seg_sp_name| |exact Hnt].
      apply seg_app with (m1 := MCmd); [apply (seg_token None k)|exact Hafter|exact Hna].
    + change (@nil (list N)) with (@nil (list N) ++ (@nil (list N) ++ @nil (list N))).
      apply seg_app with (m1 := MArgs); [apply seg_sp_args| |exact Hnt].
      apply seg_app with (m1 := MCmd); [apply (seg_token None k)|exact Hafter|exact Hna].
  - cbn [app].
    pose proof (seg_token pd k) as Ht.
    destruct pd as [n|]; cbn [mode_of] in *.
    + replace [match k with SArrow => n ++ [45] | _ => n end]
        with ([match k with SArrow => n ++ [45] | _ => n end] ++ @nil (list N)) by apply app_nil_r.
      apply seg_app with (m1 := MCmd); [exact Ht|exact Hafter|exact Hna].
    + change (@nil (list N)) with (@nil (list N) ++ @nil (list N)).
      apply seg_app with (m1 := MCmd); [exact Ht|exact Hafter|exact Hna].
Qed.

Lemma nostart_sep s : nostart (render_sep s).
Proof. destruct s as [k [|] a]; cbn; [lia|]. destruct k; cbn; lia. Qed.

Lemma nostart_app x y : nostart x -> (x = [] -> nostart y) -> nostart (x ++ y).
Proof. destruct x; cbn [app]; intros H1 H2; [apply H2; reflexivity|exact H1]. Qed.

(* a separated tail of constructs *)
Lemma seg_tail {A} (f : A -> list N) (ok : A -> bool) (pendf : A -> pend) (jf : A -> list (list N)) :
  (forall x, ok x = true -> segm MCmd (f x) (mode_of (pendf x)) (jf x)) ->
  (forall x, ok x = true -> nostart (f x)) ->
  forall l pd, forallb (fun p => ok (snd p)) l = true ->
    segm (mode_of pd) (render_tail f l) (mode_of (snd (tail_j pendf jf pd l))) (fst (tail_j pendf jf pd l)).
Proof.
  intros Hf Hn. induction l as [|[s x] l IH]; intros pd H.
  - cbn [render_tail tail_j fst snd]. apply seg_nil.
  - cbn [forallb snd] in H. apply andb_true_iff in H as [Hx Hl].
    cbn [render_tail tail_j]. specialize (IH (pendf x) Hl).
    destruct (tail_j pendf jf (pendf x) l) as [j pd'] eqn:E. cbn [fst snd] in *.
    apply seg_app with (m1 := MCmd); [apply seg_sep| |].
    + apply seg_app with (m1 := mode_of (pendf x)); [apply Hf, Hx|exact IH|].
      destruct l as [|[s2 x2] l2]; cbn [render_tail]; [exact I|].
      apply nostart_app; [apply nostart_sep|]. intro E0. destruct s2 as [k [|] a]; [discriminate|]. destruct k; discriminate.
    + apply nostart_app; [apply Hn, Hx|]. intro E0. pose proof (Hn x Hx).
      destruct l as [|[s2 x2] l2]; cbn [render_tail]; [exact I|].
      apply nostart_app; [apply nostart_sep|]. intro E1. destruct s2 as [k [|] a]; [discriminate|]. destruct k; discriminate.
Qed.

Lemma nostart_tail {A} (f : A -> list N) l : nostart (render_tail f l).
Proof.
  destruct l as [|[s x] l]; cbn [render_tail]; [exact I|].
  apply nostart_app; [apply nostart_sep|]. intro E. destruct s as [k [|] a]; [discriminate|]. destruct k; discriminate.
Qed.

Lemma seg_sline l : sline_ok l = true ->
  segm MCmd (render_sline l) (mode_of (snd (sline_j l))) (fst (sline_j l)).
Proof.
  unfold sline_ok, render_sline, sline_j. intro H. apply andb_true_iff in H as [H0 Ht].
  pose proof (seg_tail render_sstmt sstmt_ok ss_pend ss_j seg_sstmt nostart_sstmt (snd l) (ss_pend (fst l)) Ht) as S.
  destruct (tail_j ss_pend ss_j (ss_pend (fst l)) (snd l)) as [j pd]. cbn [fst snd] in *.
  apply seg_app with (m1 := mode_of (ss_pend (fst l))); [apply seg_sstmt, H0|exact S|apply nostart_tail].
Qed.

Lemma seg_sp_pend pd : segm (mode_of pd) [32] MArgs (flush_sp pd).
Proof. destruct pd; cbn [mode_of flush_sp]; [apply seg_sp_name|apply seg_sp_args]. Qed.

Lemma seg_close_pend pd : segm (mode_of pd) [125] (mode_of pd) [].
Proof. destruct pd; cbn [mode_of]; [apply seg_close_name|apply seg_close_args]. Qed.

Lemma nostart_sline l : sline_ok l = true -> nostart (render_sline l).
Proof.
  unfold sline_ok, render_sline. intro H. apply andb_true_iff in H as [H0 _].
  pose proof (nostart_sstmt _ H0) as Hn. destruct (render_sstmt (fst l)) eqn:E; [|exact Hn].
  exfalso. unfold sstmt_ok in H0. apply andb_true_iff in H0 as [Hw _]. apply name_word in Hw.
  unfold render_sstmt in E. destruct (ss_name (fst l)); [discriminate Hw|discriminate E].
Qed.

Lemma seg_item it : item_ok it = true ->
  segm MArgs (render_item it) (mode_of (snd (item_j it))) (fst (item_j it)).
Proof.
  destruct it as [a|pad body]; cbn [item_ok render_item item_j]; intro H.
  - cbn [fst snd mode_of]. apply seg_arg, H.
  - pose proof (seg_sline body H) as Sb. pose proof (nostart_sline body H) as Nb.
    destruct (sline_j body) as [jb pdb]. cbn [fst snd] in Sb.
    change (123 :: sp pad ++ render_sline body ++ sp pad ++ [125])
      with ([123] ++ (sp pad ++ (render_sline body ++ (sp pad ++ [125])))).
    destruct pad; cbn [sp fst snd mode_of].
    + replace (jb ++ flush_sp pdb) with ([] ++ ([] ++ (jb ++ (flush_sp pdb ++ [])))) by (cbn; rewrite app_nil_r; reflexivity).
      apply seg_app with (m1 := MCmd); [apply seg_open| |cbn; lia].
      apply seg_app with (m1 := MCmd); [apply seg_sp_cmd| |apply nostart_app; [exact Nb|intros _; cbn; lia]].
      apply seg_app with (m1 := mode_of pdb); [exact Sb| |cbn; lia].
      change ([32] ++ [125]) with ([32] ++ [125]).
      apply seg_app with (m1 := MArgs); [apply seg_sp_pend|apply seg_close_args|cbn; lia].
    + change ([123] ++ ([] ++ (render_sline body ++ ([] ++ [125])))) with ([123] ++ (render_sline body ++ [125])).
      replace jb with ([] ++ (jb ++ [])) by (cbn; apply app_nil_r).
      apply seg_app with (m1 := MCmd); [apply seg_open| |apply nostart_app; [exact Nb|intros _; cbn; lia]].
      apply seg_app with (m1 := mode_of pdb); [exact Sb|apply seg_close_pend|cbn; lia].
Qed.

Definition render_items (its : list item) : list N := concat (map (fun it => 32 :: render_item it) its).

Lemma nostart_items its : nostart (render_items its).
Proof. destruct its; cbn; [exact I|lia]. Qed.

Lemma nostart_item it : item_ok it = true -> nostart (render_item it).
Proof. destruct it as [a|pad body]; cbn [item_ok render_item]; intro H; [apply nostart_arg, H|cbn; lia]. Qed.

Lemma seg_items its : forall pd, forallb item_ok its = true ->
  segm (mode_of pd) (render_items its) (mode_of (snd (items_j pd its))) (fst (items_j pd its)).
Proof.
  induction its as [|it r IH]; intros pd H.
  - cbn [items_j fst snd]. apply seg_nil.
  - cbn [forallb] in H. apply andb_true_iff in H as [Hi Hr].
    unfold render_items. cbn [map concat]. fold (render_items r).
    cbn [items_j]. pose proof (seg_item it Hi) as Si.
    destruct (item_j it) as [j1 pd1]. cbn [fst snd] in Si.
    specialize (IH pd1 Hr). destruct (items_j pd1 r) as [j2 pd2]. cbn [fst snd] in *.
    change ((32 :: render_item it) ++ render_items r) with ([32] ++ (render_item it ++ render_items r)).
    apply seg_app with (m1 := MArgs); [apply seg_sp_pend| |].
    + apply seg_app with (m1 := mode_of pd1); [exact Si|exact IH|apply nostart_items].
    + apply nostart_app; [apply nostart_item, Hi|intros _; apply nostart_items].
Qed.

Lemma seg_stmt s : stmt_ok s = true -> segm MCmd (render_stmt s) (mode_of (st_pend s)) (st_jj s).
Proof.
  unfold stmt_ok, render_stmt, st_pend, st_jj, st_j. intro H. apply andb_true_iff in H as [Hn Hi].
  fold (render_items (st_items s)).
  pose proof (seg_items (st_items s) (Some (st_name s)) Hi) as S. cbn [mode_of] in S.
  replace (fst (items_j (Some (st_name s)) (st_items s)))
    with ([] ++ fst (items_j (Some (st_name s)) (st_items s))) by reflexivity.
  apply seg_app with (m1 := MName (st_name s)); [apply seg_word_cmd, name_word, Hn|exact S|apply nostart_items].
Qed.

Lemma nostart_stmt s : stmt_ok s = true -> nostart (render_stmt s).
Proof.
  unfold stmt_ok, render_stmt. intro H. apply andb_true_iff in H as [Hn _].
  apply name_word in Hn. pose proof (nostart_word _ Hn) as Hs.
  destruct (st_name s); [discriminate Hn|exact Hs].
Qed.

Lemma seg_line l : line_ok l = true ->
  segm MCmd (render_line l) (mode_of (snd (line_j l))) (fst (line_j l)).
Proof.
  unfold line_ok, render_line, line_j. intro H. apply andb_true_iff in H as [H0 Ht].
  pose proof (seg_tail render_stmt stmt_ok st_pend st_jj seg_stmt nostart_stmt (snd l) (st_pend (fst l)) Ht) as S.
  destruct (tail_j st_pend st_jj (st_pend (fst l)) (snd l)) as [j pd]. cbn [fst snd] in *.
  apply seg_app with (m1 := mode_of (st_pend (fst l))); [apply seg_stmt, H0|exact S|apply nostart_tail].
Qed.

(* the whole rendered line, from the initial state *)
Lemma arun_line l : line_ok l = true ->
  arun MCmd None (render_line l) [] = Some (mode_of (snd (line_j l)), fst (line_j l)).
Proof.
  intro H. pose proof (seg_line l H None [] [] eq_refl) as S.
  rewrite app_nil_r in S. rewrite S. cbn [arun app]. reflexivity.
Qed.

(* ---------- stage 3: every executed command of the prefix is looked up ---------- *)

(* n was looked up, possibly with the `-` of a following `->` attached *)
Definition covered (J : list (list N)) (n : list N) : Prop := In n J \/ In (n ++ [45]) J.

Lemma covered_l J K n : covered J n -> covered (J ++ K) n.
Proof. intros [H|H]; [left|right]; apply in_or_app; left; exact H. Qed.
Lemma covered_r J K n : covered K n -> covered (J ++ K) n.
Proof. intros [H|H]; [left|right]; apply in_or_app; right; exact H. Qed.

Lemma covered_flush_sp n : covered (flush_sp (Some n)) n.
Proof. left. cbn. left. reflexivity. Qed.

Lemma covered_flush_sep n s : covered (flush_sep (Some n) s) n.
Proof.
  unfold flush_sep. destruct (s_before s); [left; cbn; left; reflexivity|].
  destruct (s_k s); try (left; cbn; left; reflexivity). right. cbn. left. reflexivity.
Qed.

Section Tail.
  Context {A : Type} (pendf : A -> pend) (jf : A -> list (list N)) (cmds : A -> list (list N)).
  Hypothesis elem : forall x n, In n (cmds x) -> covered (jf x) n \/ pendf x = Some n.

  Definition tail_cmds (l : list (sep * A)) : list (list N) := concat (map (fun p => cmds (snd p)) l).

  Lemma tail_all l : forall pd n,
    pd = Some n \/ In n (tail_cmds l) ->
    covered (fst (tail_j pendf jf pd l)) n \/ snd (tail_j pendf jf pd l) = Some n.
  Proof.
    induction l as [|[s x] l IH]; intros pd n H.
    - cbn [tail_j fst snd]. destruct H as [H|H]; [right; exact H|destruct H].
    - cbn [tail_j]. specialize (IH (pendf x) n).
      destruct (tail_j pendf jf (pendf x) l) as [j pd'] eqn:E. cbn [fst snd] in *.
      destruct H as [H|H].
      + subst pd. left. apply covered_l. apply covered_flush_sep.
      + unfold tail_cmds in H. cbn [map concat snd] in H. apply in_app_or in H as [H|H].
        * destruct (elem x n H) as [C|P].
          -- left. apply covered_r, covered_l. exact C.
          -- destruct (IH (or_introl P)) as [C|P']; [left; apply covered_r, covered_r; exact C|right; exact P'].
        * destruct (IH (or_intror H)) as [C|P']; [left; apply covered_r, covered_r; exact C|right; exact P'].
  Qed.

  (* what is followed by a separator is looked up for sure *)
  Lemma tail_prefix l : forall pd n,
    (l <> [] /\ pd = Some n) \/ In n (concat (map cmds (removelast (map snd l)))) ->
    covered (fst (tail_j pendf jf pd l)) n.
  Proof.
    induction l as [|[s x] l IH]; intros pd n H.
    - destruct H as [[H _]|H]; [contradiction|destruct H].
    - cbn [tail_j]. specialize (IH (pendf x) n).
      destruct (tail_j pendf jf (pendf x) l) as [j pd'] eqn:E. cbn [fst snd] in *.
      destruct H as [[_ H]|H].
      + subst pd. apply covered_l. apply covered_flush_sep.
      + cbn [map snd] in H. destruct l as [|[s2 x2] l2].
        * cbn in H. destruct H.
        * change (removelast (x :: map snd ((s2, x2) :: l2))) with (x :: removelast (map snd ((s2, x2) :: l2))) in H.
          cbn [map concat] in H. apply in_app_or in H as [H|H].
          -- destruct (elem x n H) as [C|P].
             ++ apply covered_r, covered_l. exact C.
             ++ apply covered_r, covered_r. apply IH. left. split; [discriminate|exact P].
          -- apply covered_r, covered_r. apply IH. right. exact H.
  Qed.
End Tail.

Lemma ss_elem x n : In n [ss_name x] -> covered (ss_j x) n \/ ss_pend x = Some n.
Proof.
  intros [<-|[]]. unfold ss_j, ss_pend. destruct (ss_args x); [right; reflexivity|left; left; cbn; left; reflexivity].
Qed.

Lemma sline_elem l n : In n (sline_cmds l) ->
  covered (fst (sline_j l)) n \/ snd (sline_j l) = Some n.
Proof.
  unfold sline_cmds, sline_j. intro H.
  pose proof (tail_all ss_pend ss_j (fun x => [ss_name x]) ss_elem (snd l) (ss_pend (fst l)) n) as T.
  destruct (tail_j ss_pend ss_j (ss_pend (fst l)) (snd l)) as [j pd]. cbn [fst snd] in *.
  destruct H as [<-|H].
  - destruct (ss_elem (fst l) (ss_name (fst l)) (or_introl eq_refl)) as [C|P].
    + left. apply covered_l. exact C.
    + destruct (T (or_introl P)) as [C|P']; [left; apply covered_r; exact C|right; exact P'].
  - assert (H' : In n (tail_cmds (fun x => [ss_name x]) (snd l))).
    { unfold tail_cmds. clear -H. induction (snd l) as [|p r IH]; cbn [map concat] in *; [exact H|].
      destruct H as [<-|H]; [left; reflexivity|right; apply IH; exact H]. }
    destruct (T (or_intror H')) as [C|P']; [left; apply covered_r; exact C|right; exact P'].
Qed.

Lemma item_elem it n : In n (item_cmds it) ->
  covered (fst (item_j it)) n \/ snd (item_j it) = Some n.
Proof.
  destruct it as [a|pad body]; cbn [item_cmds item_j]; intro H; [destruct H|].
  pose proof (sline_elem body n H) as E. destruct (sline_j body) as [j pd]. cbn [fst snd] in *.
  destruct pad; cbn [fst snd]; [|exact E].
  left. destruct E as [C|P]; [apply covered_l; exact C|subst pd; apply covered_r, covered_flush_sp].
Qed.

Lemma items_elem its : forall pd n,
  pd = Some n \/ In n (concat (map item_cmds its)) ->
  covered (fst (items_j pd its)) n \/ snd (items_j pd its) = Some n.
Proof.
  induction its as [|it r IH]; intros pd n H.
  - cbn [items_j fst snd]. destruct H as [H|H]; [right; exact H|destruct H].
  - cbn [items_j]. pose proof (item_elem it n) as Ei.
    destruct (item_j it) as [j1 pd1]. cbn [fst snd] in Ei.
    specialize (IH pd1 n). destruct (items_j pd1 r) as [j2 pd2]. cbn [fst snd] in *.
    destruct H as [H|H].
    + subst pd. left. apply covered_l, covered_flush_sp.
    + cbn [map concat] in H. apply in_app_or in H as [H|H].
      * destruct (Ei H) as [C|P].
        -- left. apply covered_r, covered_l. exact C.
        -- destruct (IH (or_introl P)) as [C|P']; [left; apply covered_r, covered_r; exact C|right; exact P'].
      * destruct (IH (or_intror H)) as [C|P']; [left; apply covered_r, covered_r; exact C|right; exact P'].
Qed.

Lemma stmt_elem s n : In n (stmt_cmds s) -> covered (st_jj s) n \/ st_pend s = Some n.
Proof.
  unfold stmt_cmds, st_jj, st_pend, st_j. intro H. apply items_elem.
  destruct H as [<-|H]; [left; reflexivity|right; exact H].
Qed.

Lemma prefix_covered l n :
  In n (commands_of (prefix_to_last_flow l)) -> covered (fst (line_j l)) n.
Proof.
  unfold prefix_to_last_flow, commands_of, stmts, line_j. destruct l as [s0 tl]. cbn [fst snd].
  intro H.
  pose proof (tail_prefix st_pend st_jj stmt_cmds stmt_elem tl (st_pend s0) n) as T.
  destruct (tail_j st_pend st_jj (st_pend s0) tl) as [j pd]. cbn [fst snd] in *.
  destruct tl as [|[s x] tl']; [cbn in H; destruct H|].
  change (removelast (s0 :: map snd ((s, x) :: tl'))) with (s0 :: removelast (map snd ((s, x) :: tl'))) in H.
  cbn [map concat] in H. apply in_app_or in H as [H|H].
  - destruct (stmt_elem s0 n H) as [C|P]; [apply covered_l; exact C|].
    apply covered_r, T. left. split; [discriminate|exact P].
  - apply covered_r, T. right. exact H.
Qed.

(* no safe command name ends in `-` (evaluated on the list regenerated from safe.go) *)
Lemma safe_no_dash : forallb (fun s => negb (last s 0 =? 45)) safe_cmds = true.
Proof. vm_compute. reflexivity. Qed.

Lemma dash_unsafe n : is_cmd_unsafe (n ++ [45]) = true.
Proof.
  unfold is_cmd_unsafe. apply negb_true_iff. destruct (existsb (runes_eqb (n ++ [45])) safe_cmds) eqn:E; [|reflexivity].
  apply existsb_exists in E as (s & Hin & Heq). apply runes_eqb_eq in Heq. subst s.
  pose proof (proj1 (forallb_forall _ _) safe_no_dash _ Hin) as H. cbv beta in H.
  rewrite last_last in H. discriminate H.
Qed.

Lemma init_in_mode : in_mode MCmd init_tok.
Proof. unfold in_mode, base_ok, init_tok; simpl. repeat split. Qed.

(* the verdict of the model on a rendered line: some looked-up name is unsafe *)
Lemma verdict_line l : line_ok l = true ->
  tok_unsafe (render_line l) = existsb is_cmd_unsafe (fst (line_j l)).
Proof.
  intro H. unfold tok_unsafe, tok_fields.
  destruct (parse_total (render_line l) 0%Z) as [r E]. rewrite E.
  unfold parse in E.
  rewrite (tok_go_unsafe (length (render_line l)) (render_line l) None 0%Z init_tok init_hl r (le_n _) E).
  destruct (refine_run (length (render_line l)) (render_line l) MCmd None 0%Z init_tok [] _ _ (le_n _) init_in_mode (arun_line l H))
    as (J' & EJ & _ & Hu).
  cbn [app] in EJ. subst J'. rewrite Hu. cbn. apply orb_false_r.
Qed.

Theorem safe_verdict_sound_sublang l : line_ok l = true ->
  tok_unsafe (render_line l) = false ->
  Forall (fun n => safe_name n = true) (commands_of (prefix_to_last_flow l)).
Proof.
  intros Hok Hv. rewrite (verdict_line l Hok) in Hv.
  apply Forall_forall. intros n Hn.
  assert (Hs : forall x, In x (fst (line_j l)) -> is_cmd_unsafe x = false).
  { intros x Hx. destruct (is_cmd_unsafe x) eqn:E; [|reflexivity].
    assert (existsb is_cmd_unsafe (fst (line_j l)) = true) by (apply existsb_exists; exists x; split; assumption).
    congruence. }
  destruct (prefix_covered l n Hn) as [H|H].
  - apply Hs in H. unfold is_cmd_unsafe in H. apply negb_false_iff in H. exact H.
  - apply Hs in H. rewrite dash_unsafe in H. discriminate H.
Qed.

(* conversely the verdict is exact on this sub-language: it is unsafe exactly when
   one of the looked-up names is *)
Definition looked_up (l : line) : list (list N) := fst (line_j l).
