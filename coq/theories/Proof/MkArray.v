(* C18 — proofs about Model/MkArray.v. *)
From Coq Require Import Lia ZifyBool.
From Murex Require Import Base.Outcome Base.Bytes Model.Decimal Model.MkArray Check.C18.
Open Scope Z_scope.

(* ---------- integer ranges ---------- *)

Lemma zrange_length m n : length (zrange m n) = Z.to_nat (Z.abs (m - n) + 1).
Proof.
  unfold zrange. destruct (m <=? n) eqn:E; rewrite map_length, seq_length; lia.
Qed.

Lemma zrange_nth m n k d :
  (k < length (zrange m n))%nat ->
  nth k (zrange m n) d = if m <=? n then m + Z.of_nat k else m - Z.of_nat k.
Proof.
  intros H. rewrite zrange_length in H. unfold zrange. destruct (m <=? n) eqn:E.
  - rewrite (nth_indep _ d (m + Z.of_nat 0)) by (rewrite map_length, seq_length; lia).
    rewrite (map_nth (fun k => m + Z.of_nat k)). rewrite seq_nth by lia. reflexivity.
  - rewrite (nth_indep _ d (m - Z.of_nat 0)) by (rewrite map_length, seq_length; lia).
    rewrite (map_nth (fun k => m - Z.of_nat k)). rewrite seq_nth by lia. reflexivity.
Qed.

Lemma zrange_bounds m n z : In z (zrange m n) -> Z.min m n <= z <= Z.max m n.
Proof.
  unfold zrange. destruct (m <=? n) eqn:E; intros H; apply in_map_iff in H as [k [<- Hk]];
    apply in_seq in Hk; lia.
Qed.

Lemma zrange_nonempty m n : zrange m n <> [].
Proof. intros H. pose proof (zrange_length m n) as L. rewrite H in L. cbn in L. lia. Qed.

(* [m..n] is every integer from m to n, in order, written by fmtnum keyed on the
   text of the lower bound *)
Theorem int_range_exact : forall s0 s1 m n,
  atoi s0 = Some m -> atoi s1 = Some n ->
  int_range s0 s1 = Ok (map (fmtnum (if m <? n then s0 else s1)) (zrange m n)).
Proof.
  intros s0 s1 m n H0 H1. unfold int_range, zrange. rewrite H0, H1.
  destruct (m <? n) eqn:E1.
  - replace (m <=? n) with true by lia. rewrite map_map. reflexivity.
  - destruct (n <? m) eqn:E2.
    + replace (m <=? n) with false by lia. rewrite map_map. reflexivity.
    + replace (m <=? n) with true by lia. replace (n - m + 1) with 1 by lia.
      change (Z.to_nat 1) with 1%nat. cbn [seq map Z.of_nat]. rewrite Z.add_0_r. reflexivity.
Qed.

Lemma n_to_dec_fuel_length f n acc : (length acc <= length (n_to_dec_fuel f n acc))%nat.
Proof.
  revert n acc. induction f as [|f IH]; intros n acc; cbn [n_to_dec_fuel]; [apply Nat.le_refl|].
  destruct (n / 10 =? 0)%N; [cbn [length]; apply Nat.le_succ_diag_r|].
  specialize (IH (n / 10)%N ((48 + n mod 10)%N :: acc)). cbn [length] in IH.
  apply (Nat.le_trans _ (S (length acc))); [apply Nat.le_succ_diag_r|exact IH].
Qed.

Lemma itoa_length_pos z : (1 <= length (itoa z))%nat.
Proof.
  destruct z; cbn [itoa]; [cbn; lia| |cbn [length]; lia].
  unfold n_to_dec. cbn [n_to_dec_fuel].
  destruct (N.pos p / 10 =? 0)%N; [cbn [length]; lia|].
  pose proof (n_to_dec_fuel_length (N.size_nat (N.pos p)) (N.pos p / 10)%N [(48 + N.pos p mod 10)%N]) as H.
  cbn [length] in H. lia.
Qed.

(* the padding rule: a number at least as wide as the bound is printed as is,
   a narrower one gets exactly the missing zeros in front *)
Theorem padding_rule : forall w z, 0 <= z ->
  pad w z = zeros (w - length (itoa z)) ++ itoa z /\
  length (pad w z) = Nat.max w (length (itoa z)).
Proof.
  intros w z Hz. destruct z; try lia; cbn [pad]; split; try reflexivity;
    rewrite app_length; unfold zeros; rewrite repeat_length; lia.
Qed.

Lemma pad1_nonneg z : 0 <= z -> pad 1 z = itoa z.
Proof.
  intros Hz. destruct (padding_rule 1 z Hz) as [-> _].
  pose proof (itoa_length_pos z). replace (1 - length (itoa z))%nat with 0%nat by lia. reflexivity.
Qed.

Lemma fmtnum_not48 b0 r z : b0 <> 48%N -> fmtnum (b0 :: r) z = itoa z.
Proof.
  intros H. unfold fmtnum. destruct b0 as [|p]; [reflexivity|].
  repeat (destruct p as [p|p|]; try reflexivity). exfalso; apply H; reflexivity.
Qed.

Lemma zp_not48 b0 t : b0 <> 48%N -> zero_padded (b0 :: t) = false.
Proof.
  intros H. unfold zero_padded. destruct b0 as [|p]; [reflexivity|].
  repeat (destruct p as [p|p|]; try reflexivity). exfalso; apply H; reflexivity.
Qed.

Lemma fmtnum_padded key z : zero_padded key = true -> fmtnum key z = pad (length key) z.
Proof.
  destruct key as [|b0 t]; [discriminate|]. intros H.
  destruct (N.eq_dec b0 48) as [->|Hb]; [reflexivity|].
  rewrite (zp_not48 _ _ Hb) in H. discriminate.
Qed.

Lemma fmtnum_plain key v z :
  zero_padded key = false -> atoi key = Some v -> (v <= z) -> fmtnum key z = itoa z.
Proof.
  intros Hz Ha Hv. destruct key as [|b0 r]; [discriminate|].
  destruct (N.eq_dec b0 48) as [->|Hb].
  - destruct r; [|discriminate]. cbn in Ha. inversion Ha; subst.
    change (fmtnum [48%N] z) with (pad 1 z). apply pad1_nonneg. lia.
  - apply fmtnum_not48. exact Hb.
Qed.

Lemma spec_range_is_model lo hi l : spec_range lo hi = Some l -> int_range lo hi = Ok l.
Proof.
  unfold spec_range. destruct (atoi lo) as [m|] eqn:Hm; [|discriminate].
  destruct (atoi hi) as [n|] eqn:Hn; [|discriminate].
  rewrite (int_range_exact lo hi m n Hm Hn).
  destruct (zero_padded (if m <? n then lo else hi)) eqn:Zl.
  - intros H; inversion H; subst. f_equal. apply map_ext. intros z. apply fmtnum_padded. exact Zl.
  - destruct (zero_padded (if m <? n then hi else lo)); [discriminate|].
    intros H; inversion H; subst. f_equal. apply map_ext_in. intros z Hz.
    apply zrange_bounds in Hz.
    destruct (m <? n) eqn:E.
    + apply (fmtnum_plain lo m); [assumption|assumption|lia].
    + apply (fmtnum_plain hi n); [assumption|assumption|lia].
Qed.

Lemma int_range_nonempty s0 s1 l : int_range s0 s1 = Ok l -> l <> [].
Proof.
  unfold int_range. destruct (atoi s0) as [m|]; [|discriminate]. destruct (atoi s1) as [n|]; [|discriminate].
  destruct (m <? n) eqn:E1; [|destruct (n <? m) eqn:E2].
  - intros H; inversion H; subst. intros C. apply map_eq_nil in C.
    assert (L : length (seq 0 (Z.to_nat (n - m + 1))) = 0%nat) by (rewrite C; reflexivity).
    rewrite seq_length in L. lia.
  - intros H; inversion H; subst. intros C. apply map_eq_nil in C.
    assert (L : length (seq 0 (Z.to_nat (m - n + 1))) = 0%nat) by (rewrite C; reflexivity).
    rewrite seq_length in L. lia.
  - intros H; inversion H; discriminate.
Qed.

(* ---------- the odometer ---------- *)

Definition zeros_c (ls : list nat) : list nat := map (fun _ => O) ls.

(* all counters in lexicographic order, the last position fastest *)
Fixpoint cart (ls : list nat) : list (list nat) :=
  match ls with
  | [] => [[]]
  | l :: r => flat_map (fun x => map (cons x) (cart r)) (seq 0 l)
  end.

(* the cartesian product of the blocks' values, last block fastest *)
Fixpoint product (t : list tseg) : list bytes :=
  match t with
  | [] => [[]]
  | TLit s :: r => map (app s) (product r)
  | TVar vals :: r => flat_map (fun v => map (app v) (product r)) vals
  end.

Fixpoint is_chain (lens : list nat) (L : list (list nat)) (e : option (list nat)) : Prop :=
  match L with
  | [] => False
  | x :: t => match t with
              | [] => incr lens x = e
              | y :: _ => incr lens x = Some y /\ is_chain lens t e
              end
  end.

Lemma chain_app lens L1 y L2 e :
  is_chain lens L1 (Some y) -> is_chain lens (y :: L2) e -> is_chain lens (L1 ++ y :: L2) e.
Proof.
  induction L1 as [|x t IH]; [intros []|].
  intros H1 H2. destruct t as [|z t'].
  - cbn [app]. cbn [is_chain] in H1. cbn [is_chain]. split; [exact H1|exact H2].
  - cbn [is_chain] in H1. destruct H1 as [Hx Ht].
    change ((x :: z :: t') ++ y :: L2) with (x :: (z :: t') ++ y :: L2).
    cbn [is_chain app]. split; [exact Hx|]. apply IH; assumption.
Qed.

Lemma map_const_len (c ls : list nat) : length c = length ls -> map (fun _ => O) c = zeros_c ls.
Proof.
  revert ls. induction c as [|a c IH]; intros [|l ls] H; try discriminate; [reflexivity|].
  cbn. f_equal. apply IH. cbn in H. lia.
Qed.

Lemma chain_map_cons l ls x C :
  is_chain ls C None -> Forall (fun c => length c = length ls) C ->
  is_chain (l :: ls) (map (cons x) C)
           (if (S x <? l)%nat then Some (S x :: zeros_c ls) else None).
Proof.
  induction C as [|c t IH]; [intros []|]. intros H HF.
  inversion HF as [|? ? Hc Ht]; subst. destruct t as [|y t'].
  - cbn [map is_chain] in *. cbn [incr]. rewrite H. rewrite (map_const_len _ _ Hc). reflexivity.
  - cbn [is_chain] in H. destruct H as [Hx Hr].
    change (map (cons x) (c :: y :: t')) with ((x :: c) :: map (cons x) (y :: t')).
    cbn [is_chain]. change (map (cons x) (y :: t')) with ((x :: y) :: map (cons x) t') at 1.
    split; [cbn [incr]; rewrite Hx; reflexivity|]. apply IH; assumption.
Qed.

Lemma cart_chain : forall ls, Forall (fun l => (0 < l)%nat) ls ->
  is_chain ls (cart ls) None /\
  (exists t, cart ls = zeros_c ls :: t) /\
  Forall (fun c => length c = length ls) (cart ls).
Proof.
  induction ls as [|l ls IH]; intros HF.
  - cbn. repeat split; [exists []; reflexivity|repeat constructor].
  - inversion HF as [|? ? Hl Hls]; subst. destruct (IH Hls) as [Hc [[t Ht] Hlen]].
    assert (B : forall k x0, (x0 + k = l)%nat -> (0 < k)%nat ->
              is_chain (l :: ls) (flat_map (fun x => map (cons x) (cart ls)) (seq x0 k)) None /\
              exists t', flat_map (fun x => map (cons x) (cart ls)) (seq x0 k) = (x0 :: zeros_c ls) :: t').
    { induction k as [|k IHk]; intros x0 Hk Hpos; [lia|].
      cbn [seq flat_map]. destruct k as [|k'].
      - cbn [seq flat_map]. rewrite app_nil_r. split.
        + pose proof (chain_map_cons l ls x0 _ Hc Hlen) as H.
          replace (S x0 <? l)%nat with false in H by lia. exact H.
        + rewrite Ht. eexists; reflexivity.
      - destruct (IHk (S x0)) as [Hch [t' Ht']]; [lia|lia|]. split.
        + rewrite Ht'. apply chain_app.
          * pose proof (chain_map_cons l ls x0 _ Hc Hlen) as H.
            replace (S x0 <? l)%nat with true in H by lia. exact H.
          * rewrite <- Ht'. exact Hch.
        + rewrite Ht. cbn [map app]. eexists; reflexivity. }
    destruct (B l 0%nat) as [Hch [t' Ht']]; [lia|lia|].
    cbn [cart]. repeat split.
    + exact Hch.
    + exists t'. exact Ht'.
    + apply Forall_forall. intros c Hin. apply in_flat_map in Hin as [x [_ Hin]].
      apply in_map_iff in Hin as [c' [<- Hc']]. cbn [length]. f_equal.
      rewrite Forall_forall in Hlen. apply Hlen. exact Hc'.
Qed.

(* rendering a list of counters *)
Fixpoint render_all (t : list tseg) (L : list (list nat)) : Outcome (list bytes) :=
  match L with
  | [] => Ok []
  | c :: r => obind (render t c) (fun s => obind (render_all t r) (fun rs => Ok (s :: rs)))
  end.

Lemma odo_chain t lens : forall L c fuel,
  is_chain lens (c :: L) None -> (length (c :: L) <= fuel)%nat ->
  odo fuel t lens c = render_all t (c :: L).
Proof.
  induction L as [|y L IH]; intros c fuel H Hf; (destruct fuel as [|f]; [cbn in Hf; lia|]).
  - cbn [is_chain] in H. cbn [odo render_all]. rewrite H.
    destruct (render t c); reflexivity.
  - cbn [is_chain] in H. destruct H as [Hx Hr]. cbn [odo]. rewrite Hx.
    rewrite (IH y f Hr) by (cbn in *; lia).
    change (render_all t (c :: y :: L)) with
      (obind (render t c) (fun s => obind (render_all t (y :: L)) (fun rs => Ok (s :: rs)))).
    reflexivity.
Qed.

Lemma render_all_app t L1 L2 :
  render_all t (L1 ++ L2) =
  obind (render_all t L1) (fun a => obind (render_all t L2) (fun b => Ok (a ++ b))).
Proof.
  induction L1 as [|c r IH]; cbn [app render_all obind].
  - destruct (render_all t L2); reflexivity.
  - destruct (render t c); cbn [obind]; try reflexivity. rewrite IH.
    destruct (render_all t r); cbn [obind]; try reflexivity.
    destruct (render_all t L2); reflexivity.
Qed.

Lemma render_all_lit s r L P :
  render_all r L = Ok P -> render_all (TLit s :: r) L = Ok (map (app s) P).
Proof.
  revert P. induction L as [|c t IH]; intros P H; cbn [render_all] in *.
  - inversion H; reflexivity.
  - cbn [render]. destruct (render r c) as [x| | |]; cbn [obind] in *; try discriminate.
    destruct (render_all r t) as [xs| | |]; cbn [obind] in *; try discriminate.
    inversion H; subst. rewrite (IH xs eq_refl). reflexivity.
Qed.

Lemma render_all_var vals r x v C P :
  nth_error vals x = Some v -> render_all r C = Ok P ->
  render_all (TVar vals :: r) (map (cons x) C) = Ok (map (app v) P).
Proof.
  intros Hv. revert P. induction C as [|c t IH]; intros P H; cbn [map render_all] in *.
  - inversion H; reflexivity.
  - cbn [render]. unfold slice_nth. rewrite Hv. cbn [obind].
    destruct (render r c) as [y| | |]; cbn [obind] in *; try discriminate.
    destruct (render_all r t) as [ys| | |]; cbn [obind] in *; try discriminate.
    inversion H; subst. rewrite (IH ys eq_refl). reflexivity.
Qed.

Lemma render_blocks r C P : render_all r C = Ok P ->
  forall vals' pre,
  render_all (TVar (pre ++ vals') :: r)
             (flat_map (fun x => map (cons x) C) (seq (length pre) (length vals')))
  = Ok (flat_map (fun v => map (app v) P) vals').
Proof.
  intros HP. induction vals' as [|v vs IH]; intros pre; [reflexivity|].
  cbn [length seq flat_map]. rewrite render_all_app.
  rewrite (render_all_var (pre ++ v :: vs) r (length pre) v C P); [|
    rewrite nth_error_app2 by lia; rewrite Nat.sub_diag; reflexivity | exact HP].
  cbn [obind].
  replace (pre ++ v :: vs) with ((pre ++ [v]) ++ vs) by (rewrite <- app_assoc; reflexivity).
  replace (S (length pre)) with (length (pre ++ [v])) by (rewrite app_length; cbn; lia).
  rewrite IH. reflexivity.
Qed.

Lemma render_cart : forall t, render_all t (cart (var_lens t)) = Ok (product t).
Proof.
  induction t as [|[s|vals] r IH]; cbn [var_lens cart product].
  - reflexivity.
  - apply render_all_lit. exact IH.
  - apply (render_blocks r _ _ IH vals []).
Qed.

Definition vars_nonempty (t : list tseg) : Prop :=
  Forall (fun s => match s with TVar [] => False | _ => True end) t.

Lemma vars_nonempty_lens t : vars_nonempty t -> Forall (fun l => (0 < l)%nat) (var_lens t).
Proof.
  induction t as [|[s|vals] r IH]; intros H; inversion H; subst; cbn [var_lens]; auto.
  constructor; [destruct vals; [contradiction|cbn; lia]|auto].
Qed.

Lemma cart_length ls : length (cart ls) = fold_right Nat.mul 1%nat ls.
Proof.
  induction ls as [|l ls IH]; [reflexivity|]. cbn [cart fold_right].
  remember (fold_right Nat.mul 1%nat ls) as P eqn:HP. clear HP.
  generalize 0%nat. induction l as [|l IHl]; intros x0; [reflexivity|].
  cbn [seq flat_map]. rewrite app_length, map_length, IH, IHl. reflexivity.
Qed.

(* Several blocks in one parameter give the cartesian product in odometer
   order, the last block fastest — for any number of blocks of any sizes. *)
Theorem odometer_is_product : forall t,
  vars_nonempty t -> expand_template t = Ok (product t).
Proof.
  intros t H. unfold expand_template.
  destruct (cart_chain (var_lens t) (vars_nonempty_lens t H)) as [Hc [[tl Ht] _]].
  fold (zeros_c (var_lens t)).
  rewrite Ht in Hc.
  rewrite (odo_chain t (var_lens t) tl (zeros_c (var_lens t)) _ Hc).
  - rewrite <- Ht. apply render_cart.
  - rewrite <- Ht, cart_length. lia.
Qed.

(* ---------- the model satisfies the predicate the check evaluates ---------- *)

Lemma spec_block_is_model es vals : spec_block es = Some vals -> block_values es = Ok vals.
Proof.
  revert vals. induction es as [|[s|lo hi|d] r IH]; intros vals H; cbn [spec_block block_values] in *.
  - inversion H; reflexivity.
  - destruct (spec_block r) as [vs|]; [|discriminate]. inversion H; subst.
    rewrite (IH vs eq_refl). reflexivity.
  - destruct (spec_range lo hi) as [a|] eqn:Hr; [|discriminate].
    destruct (spec_block r) as [vs|]; [|discriminate]. inversion H; subst.
    rewrite (spec_range_is_model _ _ _ Hr). cbn [obind]. rewrite (IH vs eq_refl). reflexivity.
  - discriminate.
Qed.

Lemma block_values_nonempty es vals : es <> [] -> block_values es = Ok vals -> vals <> [].
Proof.
  destruct es as [|[s|lo hi|d] r]; [contradiction| | |]; intros _; cbn [block_values].
  - destruct (block_values r); cbn [obind]; try discriminate. intros H; inversion H; discriminate.
  - destruct (int_range lo hi) as [a| | |] eqn:Hr; cbn [obind]; try discriminate.
    destruct (block_values r); cbn [obind]; try discriminate. intros H; inversion H; subst.
    apply int_range_nonempty in Hr. destruct a; [contradiction|discriminate].
  - discriminate.
Qed.

Lemma spec_group_is_model g l : spec_group g = Some l ->
  exists t, eval_group g = Ok t /\ vars_nonempty t /\ product t = l.
Proof.
  revert l. induction g as [|[s|es] r IH]; intros l H; cbn [spec_group eval_group] in *.
  - inversion H; subst. exists []. repeat split. constructor.
  - destruct (spec_group r) as [rest|]; [|discriminate]. inversion H; subst.
    destruct (IH rest eq_refl) as [t [Ht [Hn Hp]]]. exists (TLit s :: t). rewrite Ht.
    repeat split; [constructor; [exact I|exact Hn]|cbn [product]; rewrite Hp; reflexivity].
  - destruct es as [|e0 es']; [discriminate|].
    destruct (spec_block (e0 :: es')) as [vals|] eqn:Hb; [|discriminate].
    destruct (spec_group r) as [rest|]; [|discriminate]. inversion H; subst.
    destruct (IH rest eq_refl) as [t [Ht [Hn Hp]]]. exists (TVar vals :: t).
    pose proof (spec_block_is_model _ _ Hb) as Hbv. rewrite Hbv. cbn [obind]. rewrite Ht.
    repeat split.
    + constructor; [|exact Hn].
      pose proof (block_values_nonempty (e0 :: es') vals ltac:(discriminate) Hbv).
      destruct vals; [contradiction|exact I].
    + cbn [product]. rewrite Hp. reflexivity.
Qed.

Theorem spec_is_model : forall e l, spec_expr e = Some l -> expand e = Ok l.
Proof.
  induction e as [|g r IH]; intros l H; cbn [spec_expr expand] in *.
  - inversion H; reflexivity.
  - destruct (spec_group g) as [a|] eqn:Hg; [|discriminate].
    destruct (spec_expr r) as [b0|]; [|discriminate]. inversion H; subst.
    destruct (spec_group_is_model _ _ Hg) as [t [Ht [Hn Hp]]].
    unfold expand_group. rewrite Ht. cbn [obind]. rewrite (odometer_is_product t Hn).
    cbn [obind]. rewrite (IH b0 eq_refl). cbn [obind]. rewrite Hp. reflexivity.
Qed.

Lemma items_eqb_refl l : items_eqb l l = true.
Proof. apply (list_eqb_eq bytes_eqb bytes_eqb_eq). reflexivity. Qed.

(* expansion never panics and never runs out of fuel when every block has an element *)
Definition wf_expr (e : expr) : Prop :=
  Forall (Forall (fun s => match s with SBlock [] => False | _ => True end)) e.

Lemma eval_group_nonempty g t :
  Forall (fun s => match s with SBlock [] => False | _ => True end) g ->
  eval_group g = Ok t -> vars_nonempty t.
Proof.
  revert t. induction g as [|[s|es] r IH]; intros t HF H; cbn [eval_group] in H.
  - inversion H; constructor.
  - inversion HF; subst. destruct (eval_group r) as [t'| | |]; cbn [obind] in H; try discriminate.
    inversion H; subst. constructor; [exact I|apply IH; auto].
  - inversion HF as [|? ? Hes Hr]; subst.
    destruct (block_values es) as [vals| | |] eqn:Hb; cbn [obind] in H; try discriminate.
    destruct (eval_group r) as [t'| | |]; cbn [obind] in H; try discriminate.
    inversion H; subst. constructor; [|apply IH; auto].
    assert (es <> []) by (destruct es; [contradiction|discriminate]).
    pose proof (block_values_nonempty es vals H0 Hb). destruct vals; [contradiction|exact I].
Qed.

Definition clean {A} (o : Outcome A) : Prop := o <> Panic /\ o <> OutOfFuel.

Lemma int_range_clean a b0 : clean (int_range a b0).
Proof. unfold int_range. destruct (atoi a); [destruct (atoi b0)|]; try (split; discriminate).
  destruct (_ <? _); [split; discriminate|]. destruct (_ <? _); split; discriminate. Qed.

Lemma block_values_clean es : clean (block_values es).
Proof.
  induction es as [|[s|lo hi|d] r IH]; cbn [block_values]; [split; discriminate| | |].
  - destruct IH as [H1 H2]. destruct (block_values r); cbn [obind]; try contradiction; split; discriminate.
  - destruct (int_range_clean lo hi) as [A1 A2]. destruct (int_range lo hi); cbn [obind]; try contradiction; try (split; discriminate).
    destruct IH as [H1 H2]. destruct (block_values r); cbn [obind]; try contradiction; split; discriminate.
  - split; discriminate.
Qed.

Lemma eval_group_clean g : clean (eval_group g).
Proof.
  induction g as [|[s|es] r IH]; cbn [eval_group]; [split; discriminate| |].
  - destruct IH as [H1 H2]. destruct (eval_group r); cbn [obind]; try contradiction; split; discriminate.
  - destruct (block_values_clean es) as [A1 A2]. destruct (block_values es); cbn [obind]; try contradiction; try (split; discriminate).
    destruct IH as [H1 H2]. destruct (eval_group r); cbn [obind]; try contradiction; split; discriminate.
Qed.

Theorem expand_total : forall e, wf_expr e -> clean (expand e).
Proof.
  induction e as [|g r IH]; intros H; cbn [expand]; [split; discriminate|].
  inversion H as [|? ? Hg Hr]; subst. unfold expand_group.
  destruct (eval_group_clean g) as [A1 A2].
  destruct (eval_group g) as [t| | |] eqn:Ht; cbn [obind]; try contradiction; try (split; discriminate).
  rewrite (odometer_is_product t (eval_group_nonempty g t Hg Ht)). cbn [obind].
  destruct (IH Hr) as [H1 H2]. destruct (expand r); cbn [obind]; try contradiction; split; discriminate.
Qed.

