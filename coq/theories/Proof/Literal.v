(* C36 — proofs about Model/Literal.v. *)
From Coq Require Import Lia ZifyBool ZifyN ZifyNat.
From Murex Require Import Base.Outcome Base.Bytes Model.ByteStr Model.Literal Check.C36 Proof.ByteStr.

Local Open Scope N_scope.

(* induction principle for the nested type *)
Section JsonInd.
  Variable P : json -> Prop.
  Hypothesis Hn : P JNull.
  Hypothesis Hb : forall b, P (JBool b).
  Hypothesis Hnum : forall t, P (JNum t).
  Hypothesis Hs : forall s, P (JStr s).
  Hypothesis Ha : forall l, Forall P l -> P (JArr l).
  Hypothesis Ho : forall kvs, Forall (fun kv => P (snd kv)) kvs -> P (JObj kvs).
  Fixpoint json_ind' (j : json) : P j :=
    match j with
    | JNull => Hn
    | JBool b => Hb b
    | JNum t => Hnum t
    | JStr s => Hs s
    | JArr l => Ha l ((fix go (l : list json) : Forall P l :=
                         match l with [] => Forall_nil _ | x :: r => Forall_cons _ (json_ind' x) (go r) end) l)
    | JObj kvs => Ho kvs ((fix go (l : list (bytes * json)) : Forall (fun kv => P (snd kv)) l :=
                             match l with [] => Forall_nil _ | kv :: r => Forall_cons _ (json_ind' (snd kv)) (go r) end) kvs)
    end.
End JsonInd.

(* ------------------------------------------------------------ the grammar *)
(* characters of a JSON number *)
Definition num_char (c : N) : bool := is_digit c || mem c [43; 45; 46; 101; 69].

(* no ".." and no trailing "." (JSON numbers have digits after the point) *)
Fixpoint dots_ok (tok : bytes) : bool :=
  match tok with
  | [] => true
  | c :: r => if c =? 46 then match r with [] => false | d :: _ => negb (d =? 46) && dots_ok r end else dots_ok r
  end.

Definition num_ok (tok : bytes) : bool :=
  match tok with [] => false | _ => true end && forallb num_char tok && dots_ok tok &&
  bytes_eqb (trim_space tok) tok && go_float_syntax tok.

(* strings of the property: no double quote, backslash, $ or ~ (parentheses are
   harmless inside double quotes; the property excludes them as well) *)
Definition str_ok (s : bytes) : bool := forallb (fun c => negb (mem c [34; 92; 36; 126])) s.

(* inline white space of the spacing variants *)
Definition ws_ok (w : bytes) : bool := forallb (fun c => mem c [32; 9; 13]) w.

Record style := { s_open : bytes; s_cb : bytes; s_ca : bytes; s_colb : bytes; s_cola : bytes; s_close : bytes }.
Definition style_ok (st : style) : bool :=
  ws_ok (s_open st) && ws_ok (s_cb st) && ws_ok (s_ca st) && ws_ok (s_colb st) && ws_ok (s_cola st) && ws_ok (s_close st).

(* documents: atoms, arrays and objects nested to any depth *)
Fixpoint restricted (j : json) : bool :=
  match j with
  | JNull | JBool _ => true
  | JNum tok => num_ok tok
  | JStr s => str_ok s
  | JArr l => forallb restricted l
  | JObj kvs => forallb (fun kv => str_ok (fst kv) && restricted (snd kv)) kvs
  end.

(* the value a document denotes: object members in key order, a repeated key
   keeping its last value (what encoding/json builds as a map as well) *)
Fixpoint canon (j : json) : json :=
  match j with
  | JArr l => JArr (map canon l)
  | JObj kvs => JObj (fold_left (fun o kv => obj_set (fst kv) (canon (snd kv)) o) kvs [])
  | _ => j
  end.

Section Print.
  Variable st : style.
  Fixpoint print (j : json) : bytes :=
    match j with
    | JNull => [110; 117; 108; 108]
    | JBool true => [116; 114; 117; 101]
    | JBool false => [102; 97; 108; 115; 101]
    | JNum tok => tok
    | JStr s => 34 :: s ++ [34]
    | JArr l =>
      91 :: s_open st ++
      (fix items (l : list json) : bytes :=
         match l with
         | [] => []
         | [x] => print x
         | x :: r => print x ++ s_cb st ++ 44 :: s_ca st ++ items r
         end) l ++ s_close st ++ [93]
    | JObj kvs =>
      123 :: s_open st ++
      (fix pairs (l : list (bytes * json)) : bytes :=
         match l with
         | [] => []
         | [kv] => 34 :: fst kv ++ 34 :: s_colb st ++ 58 :: s_cola st ++ print (snd kv)
         | kv :: r => (34 :: fst kv ++ 34 :: s_colb st ++ 58 :: s_cola st ++ print (snd kv)) ++
                      s_cb st ++ 44 :: s_ca st ++ pairs r
         end) kvs ++ s_close st ++ [125]
    end.
  Fixpoint items (l : list json) : bytes :=
    match l with
    | [] => []
    | [x] => print x
    | x :: r => print x ++ s_cb st ++ 44 :: s_ca st ++ items r
    end.
  Lemma print_arr l : print (JArr l) = 91 :: s_open st ++ items l ++ s_close st ++ [93].
  Proof. reflexivity. Qed.
  Definition pair (kv : bytes * json) : bytes :=
    34 :: fst kv ++ 34 :: s_colb st ++ 58 :: s_cola st ++ print (snd kv).
  Fixpoint pairs (l : list (bytes * json)) : bytes :=
    match l with
    | [] => []
    | [kv] => pair kv
    | kv :: r => pair kv ++ s_cb st ++ 44 :: s_ca st ++ pairs r
    end.
  Lemma print_obj kvs : print (JObj kvs) = 123 :: s_open st ++ pairs kvs ++ s_close st ++ [125].
  Proof. reflexivity. Qed.
End Print.

(* ------------------------------------------------------------ characters *)
Lemma num_char_plain c : num_char c = true ->
  mem c [44; 32; 9; 13; 10] = false /\ (c =? 93) = false /\ (c =? 34) = false /\ (c =? 91) = false /\
  (c =? 123) = false /\ unmodelled c = false /\ is_term c = false /\ (c =? 47) = false /\
  mem c [39; 34; 40; 123; 37] = false.
Proof. unfold num_char, is_digit, unmodelled, is_term, mem. cbn [existsb]. lia. Qed.

(* ------------------------------------------------------------ barewords *)
Lemma bare_rest_num tok rest : forallb num_char tok = true ->
  match rest with c :: _ => is_term c = true | [] => True end ->
  bare_rest (tok ++ rest) = (tok, rest).
Proof.
  intros H T. induction tok as [|c tok IH].
  - destruct rest as [|c r]; [reflexivity|]. cbn [app bare_rest]. rewrite T. reflexivity.
  - cbn [forallb] in H. apply andb_true_iff in H as [H1 H2].
    destruct (num_char_plain c H1) as (_ & _ & _ & _ & _ & _ & T1 & S & _).
    cbn [app bare_rest]. rewrite T1, S. cbn [andb]. rewrite (IH H2). reflexivity.
Qed.

Lemma bareword_num tok : num_ok tok = true -> bareword_value tok = JNum tok.
Proof.
  unfold num_ok. intro H. repeat (apply andb_true_iff in H as [H ?]).
  unfold bareword_value. match goal with E : bytes_eqb (trim_space tok) tok = true |- _ => apply bytes_eqb_eq in E; rewrite E end.
  match goal with E : go_float_syntax tok = true |- _ => rewrite E end. reflexivity.
Qed.

(* ------------------------------------------------------------ strings *)
Lemma p_string_ok s acc rest : str_ok s = true -> p_string acc (s ++ 34 :: rest) = Ok (rev acc ++ s, rest).
Proof.
  revert acc. induction s as [|c s IH]; intros acc H.
  - cbn. rewrite app_nil_r. reflexivity.
  - unfold str_ok in H. cbn [forallb] in H. apply andb_true_iff in H as [H1 H2].
    cbn [app p_string].
    assert ((c =? 34) = false /\ mem c [92; 36; 126] = false) as [E1 E2]
      by (unfold mem in *; cbn [existsb] in *; lia).
    rewrite E1, E2. rewrite (IH (c :: acc) H2). cbn [rev]. rewrite <- app_assoc. reflexivity.
Qed.

(* ------------------------------------------------------------ array maker *)
(* scanning a printed document never sets the range flag: the scan either
   stops early (quote, third bracket) or leaves the document with the bracket
   count and the flag unchanged *)
Section Maker.
  Variable st : style.
  Hypothesis ST : style_ok st = true.

  Lemma maker_ws w rest b mk : ws_ok w = true -> maker_scan (w ++ rest) b mk = maker_scan rest b mk.
  Proof.
    induction w as [|c w IH]; intro H; [reflexivity|].
    unfold ws_ok in H. cbn [forallb] in H. apply andb_true_iff in H as [H1 H2].
    cbn [app maker_scan].
    assert (mem c [39; 34; 40; 123; 37] = false /\ (c =? 46) = false /\ (c =? 91) = false /\ (c =? 93) = false)
      as (E1 & E2 & E3 & E4) by (unfold mem in *; cbn [existsb] in *; lia).
    rewrite E1, E2, E3, E4. apply IH. exact H2.
  Qed.

  Lemma maker_num tok rest b mk : forallb num_char tok = true -> dots_ok tok = true ->
    maker_scan (tok ++ rest) b mk = maker_scan rest b mk.
  Proof.
    revert rest. induction tok as [|c tok IH]; intros rest H D; [reflexivity|].
    cbn [forallb] in H. apply andb_true_iff in H as [H1 H2].
    destruct (num_char_plain c H1) as (_ & E93 & _ & E91 & _ & _ & _ & _ & EQ).
    cbn [app maker_scan]. rewrite EQ. cbn [dots_ok] in D.
    destruct (N.eqb_spec c 46) as [->|NE].
    - destruct tok as [|d tok]; [discriminate|]. apply andb_true_iff in D as [D1 D2].
      cbn [app]. destruct (N.eqb_spec d 46) as [->|ND]; [discriminate|].
      assert (match d :: tok ++ rest with 46 :: r'' => maker_scan r'' b true | _ => maker_scan (d :: tok ++ rest) b mk end
              = maker_scan (d :: tok ++ rest) b mk) as ->.
      { destruct d as [|p]; [reflexivity|]. repeat (destruct p as [p|p|]; try reflexivity). congruence. }
      apply (IH rest H2 D2).
    - rewrite E91, E93. apply IH; assumption.
  Qed.

  Lemma ws_parts : ws_ok (s_open st) = true /\ ws_ok (s_cb st) = true /\ ws_ok (s_ca st) = true /\
                   ws_ok (s_colb st) = true /\ ws_ok (s_cola st) = true /\ ws_ok (s_close st) = true.
  Proof. unfold style_ok in ST. repeat (apply andb_true_iff in ST as [ST ?]). auto 10. Qed.

  Definition passes (t : bytes) : Prop := forall rest b, (1 <= b)%nat ->
    maker_scan (t ++ rest) b false = MkEarly \/ maker_scan (t ++ rest) b false = maker_scan rest b false.

  Lemma passes_app t u : passes t -> passes u -> passes (t ++ u).
  Proof.
    intros A B rest b Hb. rewrite <- app_assoc. destruct (A (u ++ rest) b Hb) as [E|E]; [left; exact E|].
    rewrite E. apply B; exact Hb.
  Qed.

  Lemma passes_ws w : ws_ok w = true -> passes w.
  Proof. intros H rest b _. right. apply maker_ws; exact H. Qed.

  Lemma passes_comma : passes [44].
  Proof. intros rest b _. right. reflexivity. Qed.

  Lemma passes_items l : Forall (fun j => passes (print st j)) l -> passes (items st l).
  Proof.
    destruct ws_parts as (_ & Wcb & Wca & _).
    induction 1 as [|x l Hx Hl IH]; [intros rest b _; right; reflexivity|].
    destruct l as [|y l']; [exact Hx|].
    change (items st (x :: y :: l')) with (print st x ++ s_cb st ++ 44 :: s_ca st ++ items st (y :: l')).
    apply passes_app; [exact Hx|]. apply passes_app; [apply passes_ws; exact Wcb|].
    change (44 :: s_ca st ++ items st (y :: l')) with ([44] ++ s_ca st ++ items st (y :: l')).
    apply passes_app; [apply passes_comma|]. apply passes_app; [apply passes_ws; exact Wca|exact IH].
  Qed.

  Lemma maker_doc j : restricted j = true -> passes (print st j).
  Proof.
    destruct ws_parts as (Wo & _ & _ & _ & _ & Wc).
    induction j as [|b0|tok|s|l IH|kvs IH] using json_ind'; intros R; cbn [restricted] in R;
      [| | | | |intros rest b _; left; reflexivity].
    - intros rest b _. right. reflexivity.
    - intros rest b _. right. destruct b0; reflexivity.
    - intros rest b _. right. unfold num_ok in R. repeat (apply andb_true_iff in R as [R ?]).
      cbn [print]. apply maker_num; assumption.
    - intros rest b _. left. reflexivity.
    - (* array *)
      assert (PI : passes (items st l)).
      { apply passes_items. rewrite Forall_forall in IH |- *. intros x I. apply IH; [exact I|].
        rewrite forallb_forall in R. apply R; exact I. }
      intros rest b Hb. rewrite print_arr.
      destruct b as [|[|b']]; [lia| |left; reflexivity].
      (* b = 1: the bracket opens level 2 and the matching one closes it *)
      change ((91 :: s_open st ++ items st l ++ s_close st ++ [93]) ++ rest)
        with (91 :: (s_open st ++ items st l ++ s_close st ++ [93]) ++ rest).
      cbn [maker_scan mem existsb N.eqb Pos.eqb orb].
      assert (PB : passes (s_open st ++ items st l ++ s_close st)).
      { apply passes_app; [apply passes_ws; exact Wo|]. apply passes_app; [exact PI|apply passes_ws; exact Wc]. }
      replace ((s_open st ++ items st l ++ s_close st ++ [93]) ++ rest)
        with ((s_open st ++ items st l ++ s_close st) ++ 93 :: rest)
        by (rewrite <- !app_assoc; reflexivity).
      destruct (PB (93 :: rest) 2%nat ltac:(lia)) as [E|E]; [left; exact E|].
      right. rewrite E. reflexivity.
  Qed.

  (* parseArrayMaker never takes a JSON array for a `..` range *)
  Theorem arraymaker_never_fires l rest : restricted (JArr l) = true ->
    match print st (JArr l) ++ rest with
    | _ :: r => maker_scan r 1 false = MkEarly \/ maker_scan r 1 false = MkEnd false
    | [] => False
    end.
  Proof.
    intro R. destruct ws_parts as (Wo & _ & _ & _ & _ & Wc).
    rewrite print_arr. cbn [app].
    assert (PI : passes (items st l)).
    { apply passes_items. apply Forall_forall. intros x I. apply maker_doc.
      cbn [restricted] in R. rewrite forallb_forall in R. apply R; exact I. }
    assert (PB : passes (s_open st ++ items st l ++ s_close st)).
    { apply passes_app; [apply passes_ws; exact Wo|]. apply passes_app; [exact PI|apply passes_ws; exact Wc]. }
    replace ((s_open st ++ items st l ++ s_close st ++ [93]) ++ rest)
      with ((s_open st ++ items st l ++ s_close st) ++ 93 :: rest)
      by (rewrite <- !app_assoc; reflexivity).
    destruct (PB (93 :: rest) 1%nat ltac:(lia)) as [E|E]; [left; exact E|].
    right. rewrite E. reflexivity.
  Qed.
End Maker.

(* ------------------------------------------------------------ parseArray / parseObject *)
Definition plain_char (c : N) : bool := negb (is_term c) && negb (c =? 47).

Lemma bare_rest_plain tok rest : forallb plain_char tok = true ->
  match rest with c :: _ => is_term c = true | [] => True end ->
  bare_rest (tok ++ rest) = (tok, rest).
Proof.
  intros H T. induction tok as [|c tok IH].
  - destruct rest as [|c r]; [reflexivity|]. cbn [app bare_rest]. rewrite T. reflexivity.
  - cbn [forallb] in H. apply andb_true_iff in H as [H1 H2]. unfold plain_char in H1.
    apply andb_true_iff in H1 as [T1 S]. apply negb_true_iff in T1, S.
    cbn [app bare_rest]. rewrite T1, S. cbn [andb]. rewrite (IH H2). reflexivity.
Qed.

Lemma num_plain tok : forallb num_char tok = true -> forallb plain_char tok = true.
Proof.
  intro H. apply forallb_forall. intros c I. rewrite forallb_forall in H. specialize (H c I).
  destruct (num_char_plain c H) as (_ & _ & _ & _ & _ & _ & T1 & S & _). unfold plain_char. rewrite T1, S. reflexivity.
Qed.

Definition term_start (rest : bytes) : Prop := match rest with c :: _ => is_term c = true | [] => False end.

Lemma term_start_weak rest : term_start rest -> match rest with c :: _ => is_term c = true | [] => True end.
Proof. destruct rest; [contradiction|auto]. Qed.

Lemma term_start_ws w c rest : ws_ok w = true -> is_term c = true -> term_start (w ++ c :: rest).
Proof.
  intros H T. destruct w as [|d w]; [exact T|].
  unfold ws_ok in H. cbn [forallb] in H. apply andb_true_iff in H as [H _].
  cbn [app term_start]. unfold is_term, mem in *. cbn [existsb] in *. lia.
Qed.

Lemma p_array_step f acc c r : p_array (S f) acc (c :: r) =
  if mem c [44; 32; 9; 13; 10] then p_array f acc r
  else if c =? 93 then Ok (JArr (rev acc), r)
  else if c =? 34 then obind (p_string [] r) (fun '(s, r') => p_array f (JStr s :: acc) r')
  else if c =? 91 then
    match maker_scan r 1 false with
    | MkMissing => Err 1
    | MkEnd true => Err 8
    | _ => obind (p_array f [] r) (fun '(v, r') => p_array f (v :: acc) r')
    end
  else if c =? 123 then obind (p_object f os_empty r) (fun '(v, r') => p_array f (v :: acc) r')
  else if unmodelled c then Err 9
  else let '(t, r') := bare_rest r in p_array f (bareword_value (c :: t) :: acc) r'.
Proof. reflexivity. Qed.

Lemma p_object_step f st c r : p_object (S f) st (c :: r) =
  if mem c [32; 9; 13] then p_object f st r
  else if (c =? 44) || (c =? 10) then obind (os_write st) (fun st' => p_object f st' r)
  else if c =? 125 then obind (os_write st) (fun st' => Ok (JObj (os_obj st'), r))
  else if c =? 58 then
    if os_stage st then Err 3
    else p_object f {| os_key := os_key st; os_val := os_val st; os_stage := true; os_obj := os_obj st |} r
  else if c =? 34 then
    obind (p_string [] r) (fun '(s, r') => obind (os_update st (JStr s)) (fun st' => p_object f st' r'))
  else if c =? 91 then
    if negb (os_stage st) then Err 6
    else match maker_scan r 1 false with
         | MkMissing => Err 1
         | MkEnd true => Err 8
         | _ => obind (p_array f [] r) (fun '(v, r') => obind (os_update st v) (fun st' => p_object f st' r'))
         end
  else if c =? 123 then
    if negb (os_stage st) then Err 6
    else obind (p_object f os_empty r) (fun '(v, r') => obind (os_update st v) (fun st' => p_object f st' r'))
  else if unmodelled c then Err 9
  else let '(t, r') := bare_rest r in
       obind (os_update st (bareword_value (c :: t))) (fun st' => p_object f st' r').
Proof. reflexivity. Qed.

Definition set_val (st : ostate) (v : json) : ostate :=
  {| os_key := os_key st; os_val := Some v; os_stage := true; os_obj := os_obj st |}.

Lemma os_update_val st v : os_stage st = true -> os_val st = None -> os_update st v = Ok (set_val st v).
Proof. intros S V. unfold os_update. rewrite S, V. reflexivity. Qed.

(* one element of an array / one member value of an object, followed by a
   terminator, is consumed and recorded *)
Definition elem_ok (st : style) (j : json) : Prop := forall f acc rest,
  (length (print st j ++ rest) < f)%nat -> term_start rest ->
  exists f', (length rest < f')%nat /\ p_array f acc (print st j ++ rest) = p_array f' (canon j :: acc) rest.

Definition val_ok (st : style) (j : json) : Prop := forall f os rest,
  os_stage os = true -> os_val os = None ->
  (length (print st j ++ rest) < f)%nat -> term_start rest ->
  exists f', (length rest < f')%nat /\ p_object f os (print st j ++ rest) = p_object f' (set_val os (canon j)) rest.

Lemma p_array_ws w : ws_ok w = true -> forall f acc tail, (length (w ++ tail) < f)%nat ->
  exists f', (length tail < f')%nat /\ p_array f acc (w ++ tail) = p_array f' acc tail.
Proof.
  induction w as [|c w IH]; intros H f acc tail L.
  - exists f. split; [exact L|reflexivity].
  - unfold ws_ok in H. cbn [forallb] in H. apply andb_true_iff in H as [H1 H2].
    destruct f as [|f]; [cbn in L; lia|]. cbn [app]. rewrite p_array_step.
    assert (mem c [44; 32; 9; 13; 10] = true) as -> by (unfold mem in *; cbn [existsb] in *; lia).
    apply IH; [exact H2|]. cbn [app length] in L. lia.
Qed.

Lemma p_object_ws w : ws_ok w = true -> forall f os tail, (length (w ++ tail) < f)%nat ->
  exists f', (length tail < f')%nat /\ p_object f os (w ++ tail) = p_object f' os tail.
Proof.
  induction w as [|c w IH]; intros H f os tail L.
  - exists f. split; [exact L|reflexivity].
  - unfold ws_ok in H. cbn [forallb] in H. apply andb_true_iff in H as [H1 H2].
    destruct f as [|f]; [cbn in L; lia|]. cbn [app]. rewrite p_object_step. rewrite H1.
    apply IH; [exact H2|]. cbn [app length] in L. lia.
Qed.

Lemma bareword_atom (tok : bytes) (v : json) c t f acc rest :
  tok = c :: t -> forallb plain_char tok = true ->
  mem c [44; 32; 9; 13; 10] = false -> (c =? 93) = false -> (c =? 34) = false -> (c =? 91) = false ->
  (c =? 123) = false -> unmodelled c = false ->
  bareword_value tok = v ->
  (length (tok ++ rest) < f)%nat -> term_start rest ->
  exists f', (length rest < f')%nat /\ p_array f acc (tok ++ rest) = p_array f' (v :: acc) rest.
Proof.
  intros -> P E1 E2 E3 E4 E5 E6 V L T.
  destruct f as [|f]; [cbn in L; lia|]. exists f. split; [cbn [app length] in L; rewrite app_length in L; lia|].
  cbn [app]. rewrite p_array_step, E1, E2, E3, E4, E5, E6.
  cbn [forallb] in P. apply andb_true_iff in P as [_ P].
  rewrite (bare_rest_plain t rest P (term_start_weak rest T)). rewrite V. reflexivity.
Qed.

Lemma bareword_atom_obj (tok : bytes) (v : json) c t f os rest :
  tok = c :: t -> forallb plain_char tok = true ->
  mem c [32; 9; 13] = false -> ((c =? 44) || (c =? 10)) = false -> (c =? 125) = false -> (c =? 58) = false ->
  (c =? 34) = false -> (c =? 91) = false -> (c =? 123) = false -> unmodelled c = false ->
  bareword_value tok = v -> os_stage os = true -> os_val os = None ->
  (length (tok ++ rest) < f)%nat -> term_start rest ->
  exists f', (length rest < f')%nat /\ p_object f os (tok ++ rest) = p_object f' (set_val os v) rest.
Proof.
  intros -> P E1 E2 E3 E4 E5 E6 E7 E8 V S1 S2 L T.
  destruct f as [|f]; [cbn in L; lia|]. exists f. split; [cbn [app length] in L; rewrite app_length in L; lia|].
  cbn [app]. rewrite p_object_step, E1, E2, E3, E4, E5, E6, E7, E8.
  cbn [forallb] in P. apply andb_true_iff in P as [_ P].
  rewrite (bare_rest_plain t rest P (term_start_weak rest T)). rewrite V, (os_update_val os v S1 S2). reflexivity.
Qed.

Lemma num_char_obj c : num_char c = true ->
  mem c [32; 9; 13] = false /\ ((c =? 44) || (c =? 10)) = false /\ (c =? 125) = false /\ (c =? 58) = false.
Proof. unfold num_char, is_digit, mem. cbn [existsb]. lia. Qed.

Section Docs.
  Variable st : style.
  Hypothesis ST : style_ok st = true.

  Lemma items_ok l : Forall (elem_ok st) l -> forall f acc tail,
    (length (items st l ++ tail) < f)%nat -> term_start tail ->
    exists f', (length tail < f')%nat /\
      p_array f acc (items st l ++ tail) = p_array f' (rev (map canon l) ++ acc) tail.
  Proof.
    destruct (ws_parts st ST) as (_ & Wcb & Wca & _).
    induction 1 as [|x l Hx Hl IH]; intros f acc tail L T.
    - exists f. split; [exact L|reflexivity].
    - destruct l as [|y l'].
      + cbn [items map rev app]. apply Hx; assumption.
      + change (items st (x :: y :: l')) with (print st x ++ s_cb st ++ 44 :: s_ca st ++ items st (y :: l')) in *.
        rewrite <- !app_assoc in *. cbn [app] in *. rewrite <- ?app_assoc in *.
        destruct (Hx f acc (s_cb st ++ 44 :: s_ca st ++ items st (y :: l') ++ tail) L) as (f1 & L1 & E1).
        { apply term_start_ws; [exact Wcb|reflexivity]. }
        rewrite E1.
        destruct (p_array_ws (s_cb st) Wcb f1 (canon x :: acc) _ L1) as (f2 & L2 & E2). rewrite E2.
        destruct f2 as [|f2]; [cbn in L2; lia|]. rewrite p_array_step. cbn [mem existsb N.eqb Pos.eqb orb].
        assert (L3 : (length (s_ca st ++ items st (y :: l') ++ tail) < f2)%nat) by (cbn [length] in L2; lia).
        destruct (p_array_ws (s_ca st) Wca f2 (canon x :: acc) _ L3) as (f3 & L4 & E3). rewrite E3.
        destruct (IH f3 (canon x :: acc) tail L4 T) as (f4 & L5 & E4). rewrite E4.
        exists f4. split; [exact L5|]. f_equal. cbn [map rev]. rewrite <- !app_assoc. reflexivity.
  Qed.

  (* the inside of an array, after its opening bracket *)
  Lemma inner_arr l : Forall (elem_ok st) l -> forall f rest,
    (length (s_open st ++ items st l ++ s_close st ++ 93%N :: rest) < f)%nat ->
    p_array f [] (s_open st ++ items st l ++ s_close st ++ 93 :: rest) = Ok (JArr (map canon l), rest).
  Proof.
    destruct (ws_parts st ST) as (Wo & _ & _ & _ & _ & Wc). intros EL f rest LB.
    destruct (p_array_ws (s_open st) Wo f [] _ LB) as (f1 & L1 & E1). rewrite E1.
    destruct (items_ok l EL f1 [] (s_close st ++ 93 :: rest) L1) as (f2 & L2 & E2).
    { apply term_start_ws; [exact Wc|reflexivity]. }
    rewrite E2.
    destruct (p_array_ws (s_close st) Wc f2 (rev (map canon l) ++ []) _ L2) as (f3 & L3 & E3). rewrite E3.
    destruct f3 as [|f3]; [cbn in L3; lia|]. rewrite p_array_step. cbn [mem existsb N.eqb Pos.eqb orb].
    rewrite app_nil_r, rev_involutive. reflexivity.
  Qed.

  Definition kv_ok (kv : bytes * json) : Prop := str_ok (fst kv) = true /\ val_ok st (snd kv).
  Definition fold_obj (kvs : list (bytes * json)) (o : list (bytes * json)) :=
    fold_left (fun o kv => obj_set (fst kv) (canon (snd kv)) o) kvs o.
  Definition fresh (o : list (bytes * json)) : ostate :=
    {| os_key := None; os_val := None; os_stage := false; os_obj := o |}.

  (* one member  "key" : value  from a fresh state *)
  Lemma pair_ok kv : kv_ok kv -> forall f o rest,
    (length (pair st kv ++ rest) < f)%nat -> term_start rest ->
    exists f', (length rest < f')%nat /\
      p_object f (fresh o) (pair st kv ++ rest) =
      p_object f' {| os_key := Some (JStr (fst kv)); os_val := Some (canon (snd kv)); os_stage := true; os_obj := o |} rest.
  Proof.
    destruct (ws_parts st ST) as (_ & _ & _ & Wcolb & Wcola & _).
    intros [K V] f o rest L T. destruct kv as [k v]. cbn [fst snd] in *.
    unfold pair in *. cbn [fst snd app] in *.
    repeat progress (rewrite <- ?app_assoc in *; cbn [app] in *).
    destruct f as [|f]; [cbn in L; lia|]. rewrite p_object_step. cbn [mem existsb N.eqb Pos.eqb orb].
    rewrite (p_string_ok k [] _ K). cbn [obind rev app os_update fresh os_stage os_key].
    assert (L1 : (length (s_colb st ++ 58%N :: s_cola st ++ print st v ++ rest) < f)%nat).
    { cbn [length] in L. rewrite app_length in L. cbn [length] in L. lia. }
    match goal with |- context [p_object f ?os0 (s_colb st ++ ?tl0)] =>
        destruct (p_object_ws (s_colb st) Wcolb f os0 tl0 L1) as (f2 & L2 & E2) end. rewrite E2.
    destruct f2 as [|f2]; [cbn in L2; lia|]. rewrite p_object_step. cbn [mem existsb N.eqb Pos.eqb orb os_stage].
    assert (L3 : (length (s_cola st ++ print st v ++ rest) < f2)%nat) by (cbn [length] in L2; lia).
    match goal with |- context [p_object f2 ?os0 (s_cola st ++ ?tl0)] =>
        destruct (p_object_ws (s_cola st) Wcola f2 os0 tl0 L3) as (f3 & L4 & E3) end. rewrite E3.
    cbn [os_key os_val os_stage os_obj fresh].
    match goal with |- context [p_object f3 ?os0 (print st v ++ rest)] =>
      destruct (V f3 os0 rest eq_refl eq_refl L4 T) as (f4 & L5 & E4) end. rewrite E4.
    exists f4. split; [exact L5|reflexivity].
  Qed.

  Lemma os_write_full k v o :
    os_write {| os_key := Some (JStr k); os_val := Some v; os_stage := true; os_obj := o |} = Ok (fresh (obj_set k v o)).
  Proof. reflexivity. Qed.

  Lemma pairs_ok kvs : Forall kv_ok kvs -> kvs <> [] -> forall f o tail,
    (length (pairs st kvs ++ tail) < f)%nat -> term_start tail ->
    exists f' k v o', (length tail < f')%nat /\
      p_object f (fresh o) (pairs st kvs ++ tail) =
      p_object f' {| os_key := Some (JStr k); os_val := Some v; os_stage := true; os_obj := o' |} tail /\
      obj_set k v o' = fold_obj kvs o.
  Proof.
    destruct (ws_parts st ST) as (_ & Wcb & Wca & _).
    induction 1 as [|kv l Hkv Hl IH]; intros NE f o tail L T; [congruence|].
    destruct l as [|kv2 l'].
    - cbn [pairs] in *. destruct (pair_ok kv Hkv f o tail L T) as (f1 & L1 & E1).
      exists f1, (fst kv), (canon (snd kv)), o. split; [exact L1|]. split; [exact E1|reflexivity].
    - change (pairs st (kv :: kv2 :: l')) with (pair st kv ++ s_cb st ++ 44 :: s_ca st ++ pairs st (kv2 :: l')) in *.
      repeat progress (rewrite <- ?app_assoc in *; cbn [app] in *).
      destruct (pair_ok kv Hkv f o (s_cb st ++ 44 :: s_ca st ++ pairs st (kv2 :: l') ++ tail) L) as (f1 & L1 & E1).
      { apply term_start_ws; [exact Wcb|reflexivity]. }
      rewrite E1.
      match goal with |- context [p_object f1 ?os0 (s_cb st ++ ?tl0)] =>
        destruct (p_object_ws (s_cb st) Wcb f1 os0 tl0 L1) as (f2 & L2 & E2) end. rewrite E2.
      destruct f2 as [|f2]; [cbn in L2; lia|]. rewrite p_object_step. cbn [mem existsb N.eqb Pos.eqb orb].
      rewrite os_write_full. cbn [obind].
      assert (L3 : (length (s_ca st ++ pairs st (kv2 :: l') ++ tail) < f2)%nat) by (cbn [length] in L2; lia).
      match goal with |- context [p_object f2 ?os0 (s_ca st ++ ?tl0)] =>
        destruct (p_object_ws (s_ca st) Wca f2 os0 tl0 L3) as (f3 & L4 & E3) end. rewrite E3.
      destruct (IH ltac:(discriminate) f3 (obj_set (fst kv) (canon (snd kv)) o) tail L4 T) as (f4 & k & v & o' & L5 & E4 & F).
      rewrite E4. exists f4, k, v, o'. split; [exact L5|]. split; [reflexivity|exact F].
  Qed.

  (* the inside of an object, after its opening brace *)
  Lemma inner_obj kvs : Forall kv_ok kvs -> forall f rest,
    (length (s_open st ++ pairs st kvs ++ s_close st ++ 125%N :: rest) < f)%nat ->
    p_object f os_empty (s_open st ++ pairs st kvs ++ s_close st ++ 125 :: rest) = Ok (JObj (fold_obj kvs []), rest).
  Proof.
    destruct (ws_parts st ST) as (Wo & _ & _ & _ & _ & Wc). intros KV f rest LB.
    destruct (p_object_ws (s_open st) Wo f os_empty _ LB) as (f1 & L1 & E1). rewrite E1.
    destruct kvs as [|kv kvs'].
    - cbn [pairs app] in *.
      destruct (p_object_ws (s_close st) Wc f1 os_empty _ L1) as (f2 & L2 & E2). rewrite E2.
      destruct f2 as [|f2]; [cbn in L2; lia|]. rewrite p_object_step. reflexivity.
    - destruct (pairs_ok (kv :: kvs') KV ltac:(discriminate) f1 [] (s_close st ++ 125 :: rest) L1)
        as (f2 & k & v & o' & L2 & E2 & F).
      { apply term_start_ws; [exact Wc|reflexivity]. }
      change os_empty with (fresh []). rewrite E2.
      match goal with |- context [p_object f2 ?os0 (s_close st ++ ?tl0)] =>
        destruct (p_object_ws (s_close st) Wc f2 os0 tl0 L2) as (f3 & L3 & E3) end. rewrite E3.
      destruct f3 as [|f3]; [cbn in L3; lia|]. rewrite p_object_step. cbn [mem existsb N.eqb Pos.eqb orb].
      rewrite os_write_full. cbn [obind fresh os_obj]. rewrite F. reflexivity.
  Qed.

  Lemma nofire_branch {A} (r : mk_res) (x : Outcome A) :
    (r = MkEarly \/ r = MkEnd false) ->
    match r with MkMissing => Err 1 | MkEnd true => Err 8 | _ => x end = x.
  Proof. intros [->| ->]; reflexivity. Qed.

  Lemma both j : restricted j = true -> elem_ok st j /\ val_ok st j.
  Proof.
    induction j as [|b0|tok|s|l IH|kvs IH] using json_ind'; intros R; cbn [restricted] in R.
    - split.
      + intros f acc rest L T. eapply (bareword_atom [110; 117; 108; 108] JNull); try reflexivity; assumption.
      + intros f os rest S1 S2 L T. eapply (bareword_atom_obj [110; 117; 108; 108] JNull); try reflexivity; assumption.
    - split.
      + intros f acc rest L T. destruct b0.
        * eapply (bareword_atom [116; 114; 117; 101] (JBool true)); try reflexivity; assumption.
        * eapply (bareword_atom [102; 97; 108; 115; 101] (JBool false)); try reflexivity; assumption.
      + intros f os rest S1 S2 L T. destruct b0.
        * eapply (bareword_atom_obj [116; 114; 117; 101] (JBool true)); try reflexivity; assumption.
        * eapply (bareword_atom_obj [102; 97; 108; 115; 101] (JBool false)); try reflexivity; assumption.
    - (* number *)
      pose proof R as R0. unfold num_ok in R. repeat (apply andb_true_iff in R as [R ?]).
      destruct tok as [|c t]; [discriminate|].
      match goal with H : forallb num_char (c :: t) = true |- _ => pose proof H as NC; cbn [forallb] in H;
        apply andb_true_iff in H as [Hc _] end.
      destruct (num_char_plain c Hc) as (E1 & E2 & E3 & E4 & E5 & E6 & _).
      destruct (num_char_obj c Hc) as (O1 & O2 & O3 & O4).
      split.
      + intros f acc rest L T.
        eapply (bareword_atom (c :: t) (JNum (c :: t))); try reflexivity; try assumption.
        * apply num_plain; exact NC.
        * apply bareword_num; exact R0.
      + intros f os rest S1 S2 L T.
        eapply (bareword_atom_obj (c :: t) (JNum (c :: t))); try reflexivity; try assumption.
        * apply num_plain; exact NC.
        * apply bareword_num; exact R0.
    - (* string *)
      split.
      + intros f acc rest L T. cbn [print app canon] in *. destruct f as [|f]; [cbn in L; lia|].
        rewrite p_array_step. cbn [mem existsb N.eqb Pos.eqb orb].
        rewrite <- app_assoc. cbn [app]. rewrite (p_string_ok s [] rest R). cbn [obind rev app].
        exists f. split; [|reflexivity]. cbn [length] in L. rewrite !app_length in L. cbn [length] in L. lia.
      + intros f os rest S1 S2 L T. cbn [print app canon] in *. destruct f as [|f]; [cbn in L; lia|].
        rewrite p_object_step. cbn [mem existsb N.eqb Pos.eqb orb].
        rewrite <- app_assoc. cbn [app]. rewrite (p_string_ok s [] rest R). cbn [obind rev app].
        rewrite (os_update_val os (JStr s) S1 S2). cbn [obind].
        exists f. split; [|reflexivity]. cbn [length] in L. rewrite !app_length in L. cbn [length] in L. lia.
    - (* array *)
      assert (RA : restricted (JArr l) = true) by exact R.
      assert (EL : Forall (elem_ok st) l).
      { rewrite Forall_forall in IH |- *. intros x I. apply IH; [exact I|]. rewrite forallb_forall in R. apply R; exact I. }
      assert (BODY : forall rest, (s_open st ++ items st l ++ s_close st ++ [93]) ++ rest
                                  = s_open st ++ items st l ++ s_close st ++ 93 :: rest)
        by (intro rest; rewrite <- !app_assoc; reflexivity).
      split.
      + intros f acc rest L T. pose proof (arraymaker_never_fires st ST l rest RA) as MK.
        rewrite print_arr in *. cbn [app canon] in *. rewrite BODY in *.
        destruct f as [|f]; [cbn in L; lia|]. rewrite p_array_step. cbn [mem existsb N.eqb Pos.eqb orb].
        rewrite (nofire_branch _ _ MK).
        rewrite (inner_arr l EL f rest) by (cbn [length] in L; lia). cbn [obind].
        exists f. split; [|reflexivity]. cbn [length] in L. rewrite !app_length in L. cbn [length] in L. lia.
      + intros f os rest S1 S2 L T. pose proof (arraymaker_never_fires st ST l rest RA) as MK.
        rewrite print_arr in *. cbn [app canon] in *. rewrite BODY in *.
        destruct f as [|f]; [cbn in L; lia|]. rewrite p_object_step. cbn [mem existsb N.eqb Pos.eqb orb].
        rewrite S1. cbn [negb]. rewrite (nofire_branch _ _ MK).
        rewrite (inner_arr l EL f rest) by (cbn [length] in L; lia). cbn [obind].
        rewrite (os_update_val os _ S1 S2). cbn [obind].
        exists f. split; [|reflexivity]. cbn [length] in L. rewrite !app_length in L. cbn [length] in L. lia.
    - (* object *)
      assert (KV : Forall kv_ok kvs).
      { rewrite Forall_forall in IH |- *. intros kv I. rewrite forallb_forall in R. specialize (R kv I).
        apply andb_true_iff in R as [K V]. split; [exact K|]. apply IH; assumption. }
      assert (BODY : forall rest, (s_open st ++ pairs st kvs ++ s_close st ++ [125]) ++ rest
                                  = s_open st ++ pairs st kvs ++ s_close st ++ 125 :: rest)
        by (intro rest; rewrite <- !app_assoc; reflexivity).
      split.
      + intros f acc rest L T. rewrite print_obj in *. cbn [app] in *. rewrite BODY in *.
        destruct f as [|f]; [cbn in L; lia|]. rewrite p_array_step. cbn [mem existsb N.eqb Pos.eqb orb].
        rewrite (inner_obj kvs KV f rest) by (cbn [length] in L; lia). cbn [obind].
        exists f. split; [|reflexivity]. cbn [length] in L. rewrite !app_length in L. cbn [length] in L. lia.
      + intros f os rest S1 S2 L T. rewrite print_obj in *. cbn [app] in *. rewrite BODY in *.
        destruct f as [|f]; [cbn in L; lia|]. rewrite p_object_step. cbn [mem existsb N.eqb Pos.eqb orb].
        rewrite S1. cbn [negb].
        rewrite (inner_obj kvs KV f rest) by (cbn [length] in L; lia). cbn [obind].
        rewrite (os_update_val os _ S1 S2). cbn [obind].
        exists f. split; [|reflexivity]. cbn [length] in L. rewrite !app_length in L. cbn [length] in L. lia.
  Qed.

  (* Headline: a literal written as a JSON array or object of the restricted
     grammar, nested to any depth and in any of the inline spacing variants,
     evaluates to exactly the value the document denotes. *)
  Theorem literal_eq_json j : restricted j = true ->
    match j with JArr _ | JObj _ => True | _ => False end ->
    lit_parse (37 :: print st j) = Ok (canon j).
  Proof.
    intros R TOP. destruct j as [| | | |l|kvs]; try contradiction.
    - assert (EL : Forall (elem_ok st) l).
      { apply Forall_forall. intros x I. apply both. cbn [restricted] in R. rewrite forallb_forall in R. apply R; exact I. }
      pose proof (arraymaker_never_fires st ST l [] R) as MK.
      rewrite print_arr in *. cbn [app] in MK. rewrite app_nil_r in MK.
      unfold lit_parse. rewrite (nofire_branch _ _ MK).
      replace (s_open st ++ items st l ++ s_close st ++ [93]) with (s_open st ++ items st l ++ s_close st ++ 93 :: []) by reflexivity.
      rewrite inner_arr; [reflexivity|exact EL|lia].
    - assert (KV : Forall kv_ok kvs).
      { apply Forall_forall. intros kv I. cbn [restricted] in R. rewrite forallb_forall in R. specialize (R kv I).
        apply andb_true_iff in R as [K V]. split; [exact K|]. apply both; exact V. }
      rewrite print_obj. unfold lit_parse.
      replace (s_open st ++ pairs st kvs ++ s_close st ++ [125]) with (s_open st ++ pairs st kvs ++ s_close st ++ 125 :: []) by reflexivity.
      rewrite inner_obj; [reflexivity|exact KV|lia].
  Qed.
End Docs.
