(* C36 — proofs about Model/Literal.v. *)
From Coq Require Import Lia ZifyBool ZifyN ZifyNat.
From Murex Require Import Base.Outcome Base.Bytes Model.ByteStr Model.Literal Check.C36 Proof.ByteStr.

Local Open Scope N_scope.

(* induction principle for the nested type *)
Section JsonInd.
  Variable P : json -> Prop.
  Hypothesis Hn : P JNull.
  Hypothesis Hb : forall b, P (JBool b).
  Hypothesis Hnum : forall t, P (JNum t).
  Hypothesis Hs : forall s, P (JStr s).
  Hypothesis Ha : forall l, Forall P l -> P (JArr l).
  Hypothesis Ho : forall kvs, Forall (fun kv => P (snd kv)) kvs -> P (JObj kvs).
  Fixpoint json_ind' (j : json) : P j :=
    match j with
    | JNull => Hn
    | JBool b => Hb b
    | JNum t => Hnum t
    | JStr s => Hs s
    | JArr l => Ha l ((fix go (l : list json) : Forall P l :=
                         match l with [] => Forall_nil _ | x :: r => Forall_cons _ (json_ind' x) (go r) end) l)
    | JObj kvs => Ho kvs ((fix go (l : list (bytes * json)) : Forall (fun kv => P (snd kv)) l :=
                             match l with [] => Forall_nil _ | kv :: r => Forall_cons _ (json_ind' (snd kv)) (go r) end) kvs)
    end.
End JsonInd.

(* ------------------------------------------------------------ the grammar *)
(* characters of a JSON number *)
Definition num_char (c : N) : bool := is_digit c || mem c [43; 45; 46; 101; 69].

(* no ".." and no trailing "." (JSON numbers have digits after the point) *)
Fixpoint dots_ok (tok : bytes) : bool :=
  match tok with
  | [] => true
  | c :: r => if c =? 46 then match r with [] => false | d :: _ => negb (d =? 46) && dots_ok r end else dots_ok r
  end.

(* JSON numbers (the conjuncts after the first are consequences of the JSON
   number syntax; they are kept as decidable side conditions) *)
Definition num_ok (tok : bytes) : bool :=
  json_num_syntax tok &&
  match tok with [] => false | _ => true end && forallb num_char tok && dots_ok tok &&
  bytes_eqb (trim_space tok) tok && go_float_syntax tok.

(* strings of the property: printable, no double quote, backslash, $ or ~ *)
Definition str_ok (s : bytes) : bool := forallb (fun c => negb (mem c [34; 92; 36; 126]) && (32 <=? c)) s.

(* white space of the renderings: inline (space, tab, \r) and line-breaking *)
Definition ws_ok (w : bytes) : bool := forallb (fun c => mem c [32; 9; 13]) w.
Definition wsn_ok (w : bytes) : bool := forallb (fun c => mem c [32; 9; 13; 10]) w.

(* a rendering style: the white space written at each position, as a function of
   the nesting depth (indentation).  Line breaks are allowed after an opening
   bracket, after a comma and before a closing bracket — not before a comma and
   not around a colon (a line break between a colon and its value is known
   finding 1). *)
Record style := { s_open : nat -> bytes; s_cb : nat -> bytes; s_ca : nat -> bytes; s_colb : nat -> bytes;
                  s_cola : nat -> bytes; s_close : nat -> bytes; s_empty : nat -> bytes }.
Definition style_ok (st : style) : Prop := forall d,
  wsn_ok (s_open st d) = true /\ ws_ok (s_cb st d) = true /\ wsn_ok (s_ca st d) = true /\
  ws_ok (s_colb st d) = true /\ ws_ok (s_cola st d) = true /\ wsn_ok (s_close st d) = true /\
  wsn_ok (s_empty st d) = true.

Fixpoint restricted (j : json) : bool :=
  match j with
  | JNull | JBool _ => true
  | JNum tok => num_ok tok
  | JStr s => str_ok s
  | JArr l => forallb restricted l
  | JObj kvs => forallb (fun kv => str_ok (fst kv) && restricted (snd kv)) kvs
  end.

(* the value a document denotes: object members in key order, a repeated key
   keeping its last value (what encoding/json builds as a map as well) *)
Fixpoint canon (j : json) : json :=
  match j with
  | JArr l => JArr (map canon l)
  | JObj kvs => JObj (fold_left (fun o kv => obj_set (fst kv) (canon (snd kv)) o) kvs [])
  | _ => j
  end.

Section Print.
  Variable st : style.
  Fixpoint print (d : nat) (j : json) : bytes :=
    match j with
    | JNull => [110; 117; 108; 108]
    | JBool true => [116; 114; 117; 101]
    | JBool false => [102; 97; 108; 115; 101]
    | JNum tok => tok
    | JStr s => 34 :: s ++ [34]
    | JArr l =>
      91 :: match l with
            | [] => s_empty st d
            | _ => s_open st d ++
              (fix items (l : list json) : bytes :=
                 match l with
                 | [] => []
                 | [x] => print (S d) x
                 | x :: r => print (S d) x ++ s_cb st d ++ 44 :: s_ca st d ++ items r
                 end) l ++ s_close st d
            end ++ [93]
    | JObj kvs =>
      123 :: match kvs with
             | [] => s_empty st d
             | _ => s_open st d ++
               (fix pairs (l : list (bytes * json)) : bytes :=
                  match l with
                  | [] => []
                  | [kv] => 34 :: fst kv ++ 34 :: s_colb st d ++ 58 :: s_cola st d ++ print (S d) (snd kv)
                  | kv :: r => (34 :: fst kv ++ 34 :: s_colb st d ++ 58 :: s_cola st d ++ print (S d) (snd kv)) ++
                               s_cb st d ++ 44 :: s_ca st d ++ pairs r
                  end) kvs ++ s_close st d
             end ++ [125]
    end.
  Definition items (d : nat) : list json -> bytes :=
    fix items (l : list json) : bytes :=
      match l with
      | [] => []
      | [x] => print (S d) x
      | x :: r => print (S d) x ++ s_cb st d ++ 44 :: s_ca st d ++ items r
      end.
  Definition pair (d : nat) (kv : bytes * json) : bytes :=
    34 :: fst kv ++ 34 :: s_colb st d ++ 58 :: s_cola st d ++ print (S d) (snd kv).
  Definition pairs (d : nat) : list (bytes * json) -> bytes :=
    fix pairs (l : list (bytes * json)) : bytes :=
      match l with
      | [] => []
      | [kv] => pair d kv
      | kv :: r => pair d kv ++ s_cb st d ++ 44 :: s_ca st d ++ pairs r
      end.
  Definition arr_body (d : nat) (l : list json) : bytes :=
    match l with [] => s_empty st d | _ => s_open st d ++ items d l ++ s_close st d end.
  Definition obj_body (d : nat) (kvs : list (bytes * json)) : bytes :=
    match kvs with [] => s_empty st d | _ => s_open st d ++ pairs d kvs ++ s_close st d end.
  Lemma print_arr d l : print d (JArr l) = 91 :: arr_body d l ++ [93].
  Proof. destruct l; reflexivity. Qed.
  Lemma print_obj d kvs : print d (JObj kvs) = 123 :: obj_body d kvs ++ [125].
  Proof. destruct kvs; reflexivity. Qed.
End Print.

(* ------------------------------------------------------------ characters *)
Lemma num_char_plain c : num_char c = true ->
  mem c [44; 32; 9; 13; 10] = false /\ (c =? 93) = false /\ (c =? 34) = false /\ (c =? 91) = false /\
  (c =? 123) = false /\ unmodelled c = false /\ is_term c = false /\ (c =? 47) = false /\
  mem c [39; 34; 40; 123; 37] = false.
Proof. unfold num_char, is_digit, unmodelled, is_term, mem. cbn [existsb]. lia. Qed.

Lemma wsn_char c : mem c [32; 9; 13; 10] = true ->
  mem c [44; 32; 9; 13; 10] = true /\ is_term c = true /\ mem c [39; 34; 40; 123; 37] = false /\
  (c =? 46) = false /\ (c =? 91) = false /\ (c =? 93) = false.
Proof. unfold is_term, mem. cbn [existsb]. lia. Qed.

Lemma ws_wsn w : ws_ok w = true -> wsn_ok w = true.
Proof.
  unfold ws_ok, wsn_ok. intro H. apply forallb_forall. intros c I. rewrite forallb_forall in H.
  specialize (H c I). unfold mem in *. cbn [existsb] in *. lia.
Qed.

(* ------------------------------------------------------------ barewords, strings *)
Definition plain_char (c : N) : bool := negb (is_term c) && negb (c =? 47).

Lemma bare_rest_plain tok rest : forallb plain_char tok = true ->
  match rest with c :: _ => is_term c = true | [] => True end ->
  bare_rest (tok ++ rest) = (tok, rest).
Proof.
  intros H T. induction tok as [|c tok IH].
  - destruct rest as [|c r]; [reflexivity|]. cbn [app bare_rest]. rewrite T. reflexivity.
  - cbn [forallb] in H. apply andb_true_iff in H as [H1 H2]. unfold plain_char in H1.
    apply andb_true_iff in H1 as [T1 S]. apply negb_true_iff in T1, S.
    cbn [app bare_rest]. rewrite T1, S. cbn [andb]. rewrite (IH H2). reflexivity.
Qed.

Lemma num_plain tok : forallb num_char tok = true -> forallb plain_char tok = true.
Proof.
  intro H. apply forallb_forall. intros c I. rewrite forallb_forall in H. specialize (H c I).
  destruct (num_char_plain c H) as (_ & _ & _ & _ & _ & _ & T1 & S & _). unfold plain_char. rewrite T1, S. reflexivity.
Qed.

Lemma num_ok_parts tok : num_ok tok = true ->
  json_num_syntax tok = true /\ tok <> [] /\ forallb num_char tok = true /\ dots_ok tok = true /\
  trim_space tok = tok /\ go_float_syntax tok = true.
Proof.
  unfold num_ok. intro H. repeat (apply andb_true_iff in H as [H ?]).
  repeat split; try assumption; [destruct tok; [discriminate|discriminate]|apply bytes_eqb_eq; assumption].
Qed.

Lemma bareword_num tok : num_ok tok = true -> bareword_value tok = JNum tok.
Proof.
  intro H. destruct (num_ok_parts tok H) as (_ & _ & _ & _ & T & G).
  unfold bareword_value. rewrite T, G. reflexivity.
Qed.

Lemma p_string_ok s acc rest : str_ok s = true -> p_string acc (s ++ 34 :: rest) = Ok (rev acc ++ s, rest).
Proof.
  revert acc. induction s as [|c s IH]; intros acc H.
  - cbn. rewrite app_nil_r. reflexivity.
  - unfold str_ok in H. cbn [forallb] in H. apply andb_true_iff in H as [H1 H2].
    cbn [app p_string].
    assert ((c =? 34) = false /\ mem c [92; 36; 126] = false) as [E1 E2]
      by (unfold mem in *; cbn [existsb] in *; lia).
    rewrite E1, E2. rewrite (IH (c :: acc) H2). cbn [rev]. rewrite <- app_assoc. reflexivity.
Qed.

(* what follows a value in a rendering: white space, a comma or a closing bracket *)
Definition delim_start (rest : bytes) : Prop :=
  match rest with c :: _ => mem c [44; 32; 9; 13; 10; 93; 125] = true | [] => False end.

Lemma delim_term rest : delim_start rest -> match rest with c :: _ => is_term c = true | [] => True end.
Proof. destruct rest as [|c r]; [auto|]. unfold delim_start, is_term, mem. cbn [existsb]. lia. Qed.

Lemma delim_start_ws w c rest : wsn_ok w = true -> mem c [44; 93; 125] = true -> delim_start (w ++ c :: rest).
Proof.
  intros H T. destruct w as [|d w]; [cbn [app delim_start]; unfold mem in *; cbn [existsb] in *; lia|].
  unfold wsn_ok in H. cbn [forallb] in H. apply andb_true_iff in H as [H _].
  cbn [app delim_start]. unfold mem in *. cbn [existsb] in *. lia.
Qed.

(* ------------------------------------------------------------ array maker *)
Section Maker.
  Variable st : style.
  Hypothesis ST : style_ok st.

  Lemma maker_ws w rest b mk : wsn_ok w = true -> maker_scan (w ++ rest) b mk = maker_scan rest b mk.
  Proof.
    induction w as [|c w IH]; intro H; [reflexivity|].
    unfold wsn_ok in H. cbn [forallb] in H. apply andb_true_iff in H as [H1 H2].
    cbn [app maker_scan]. destruct (wsn_char c H1) as (_ & _ & E1 & E2 & E3 & E4).
    rewrite E1, E2, E3, E4. apply IH. exact H2.
  Qed.

  Lemma maker_num tok rest b mk : forallb num_char tok = true -> dots_ok tok = true ->
    maker_scan (tok ++ rest) b mk = maker_scan rest b mk.
  Proof.
    revert rest. induction tok as [|c tok IH]; intros rest H D; [reflexivity|].
    cbn [forallb] in H. apply andb_true_iff in H as [H1 H2].
    destruct (num_char_plain c H1) as (_ & E93 & _ & E91 & _ & _ & _ & _ & EQ).
    cbn [app maker_scan]. rewrite EQ. cbn [dots_ok] in D.
    destruct (N.eqb_spec c 46) as [->|NE].
    - destruct tok as [|d tok]; [discriminate|]. apply andb_true_iff in D as [D1 D2].
      cbn [app]. destruct (N.eqb_spec d 46) as [->|ND]; [discriminate|].
      assert (match d :: tok ++ rest with 46 :: r'' => maker_scan r'' b true | _ => maker_scan (d :: tok ++ rest) b mk end
              = maker_scan (d :: tok ++ rest) b mk) as ->.
      { destruct d as [|p]; [reflexivity|]. repeat (destruct p as [p|p|]; try reflexivity). congruence. }
      apply (IH rest H2 D2).
    - rewrite E91, E93. apply IH; assumption.
  Qed.

  Definition passes (t : bytes) : Prop := forall rest b, (1 <= b)%nat ->
    maker_scan (t ++ rest) b false = MkEarly \/ maker_scan (t ++ rest) b false = maker_scan rest b false.

  Lemma passes_app t u : passes t -> passes u -> passes (t ++ u).
  Proof.
    intros A B rest b Hb. rewrite <- app_assoc. destruct (A (u ++ rest) b Hb) as [E|E]; [left; exact E|].
    rewrite E. apply B; exact Hb.
  Qed.

  Lemma passes_ws w : wsn_ok w = true -> passes w.
  Proof. intros H rest b _. right. apply maker_ws; exact H. Qed.

  Lemma passes_comma : passes [44].
  Proof. intros rest b _. right. reflexivity. Qed.

  Lemma passes_items d l : Forall (fun j => passes (print st (S d) j)) l -> passes (items st d l).
  Proof.
    destruct (ST d) as (_ & Wcb & Wca & _).
    induction 1 as [|x l Hx Hl IH]; [intros rest b _; right; reflexivity|].
    destruct l as [|y l']; [exact Hx|].
    change (items st d (x :: y :: l')) with (print st (S d) x ++ s_cb st d ++ 44 :: s_ca st d ++ items st d (y :: l')).
    apply passes_app; [exact Hx|]. apply passes_app; [apply passes_ws, ws_wsn; exact Wcb|].
    change (44 :: s_ca st d ++ items st d (y :: l')) with ([44] ++ s_ca st d ++ items st d (y :: l')).
    apply passes_app; [apply passes_comma|]. apply passes_app; [apply passes_ws; exact Wca|exact IH].
  Qed.

  Lemma passes_arr_body d l : Forall (fun j => passes (print st (S d) j)) l -> passes (arr_body st d l).
  Proof.
    destruct (ST d) as (Wo & _ & _ & _ & _ & Wc & We). intro F. unfold arr_body.
    destruct l as [|x l']; [apply passes_ws; exact We|].
    apply passes_app; [apply passes_ws; exact Wo|]. apply passes_app; [apply passes_items; exact F|apply passes_ws; exact Wc].
  Qed.

  Lemma maker_doc j : forall d, restricted j = true -> passes (print st d j).
  Proof.
    induction j as [|b0|tok|s|l IH|kvs IH] using json_ind'; intros d R; cbn [restricted] in R;
      [| | | | |intros rest b _; left; rewrite print_obj; reflexivity].
    - intros rest b _. right. reflexivity.
    - intros rest b _. right. destruct b0; reflexivity.
    - intros rest b _. right. destruct (num_ok_parts tok R) as (_ & _ & NC & D & _).
      cbn [print]. apply maker_num; assumption.
    - intros rest b _. left. reflexivity.
    - (* array *)
      assert (PB : passes (arr_body st d l)).
      { apply passes_arr_body. rewrite Forall_forall in IH |- *. intros x I. apply IH; [exact I|].
        rewrite forallb_forall in R. apply R; exact I. }
      intros rest b Hb. rewrite print_arr.
      destruct b as [|[|b']]; [lia| |left; reflexivity].
      change ((91 :: arr_body st d l ++ [93]) ++ rest) with (91 :: (arr_body st d l ++ [93]) ++ rest).
      cbn [maker_scan mem existsb N.eqb Pos.eqb orb].
      rewrite <- app_assoc. cbn [app].
      destruct (PB (93 :: rest) 2%nat ltac:(lia)) as [E|E]; [left; exact E|].
      right. rewrite E. reflexivity.
  Qed.

  (* parseArrayMaker never takes a JSON array for a `..` range *)
  Theorem arraymaker_never_fires d l rest : restricted (JArr l) = true ->
    match print st d (JArr l) ++ rest with
    | _ :: r => maker_scan r 1 false = MkEarly \/ maker_scan r 1 false = MkEnd false
    | [] => False
    end.
  Proof.
    intro R. rewrite print_arr. cbn [app]. rewrite <- app_assoc. cbn [app].
    assert (PB : passes (arr_body st d l)).
    { apply passes_arr_body. apply Forall_forall. intros x I. apply maker_doc.
      cbn [restricted] in R. rewrite forallb_forall in R. apply R; exact I. }
    destruct (PB (93 :: rest) 1%nat ltac:(lia)) as [E|E]; [left; exact E|].
    right. rewrite E. reflexivity.
  Qed.
End Maker.

(* ------------------------------------------------------------ parseArray / parseObject *)
Lemma p_array_step f acc c r : p_array (S f) acc (c :: r) =
  if mem c [44; 32; 9; 13; 10] then p_array f acc r
  else if c =? 93 then Ok (JArr (rev acc), r)
  else if c =? 34 then obind (p_string [] r) (fun '(s, r') => p_array f (JStr s :: acc) r')
  else if c =? 91 then
    match maker_scan r 1 false with
    | MkMissing => Err 1
    | MkEnd true => Err 8
    | _ => obind (p_array f [] r) (fun '(v, r') => p_array f (v :: acc) r')
    end
  else if c =? 123 then obind (p_object f os_empty r) (fun '(v, r') => p_array f (v :: acc) r')
  else if unmodelled c then Err 9
  else let '(t, r') := bare_rest r in p_array f (bareword_value (c :: t) :: acc) r'.
Proof. reflexivity. Qed.

Lemma p_object_step f st c r : p_object (S f) st (c :: r) =
  if mem c [32; 9; 13] then p_object f st r
  else if (c =? 44) || (c =? 10) then obind (os_write st) (fun st' => p_object f st' r)
  else if c =? 125 then obind (os_write st) (fun st' => Ok (JObj (os_obj st'), r))
  else if c =? 58 then
    if os_stage st then Err 3
    else p_object f {| os_key := os_key st; os_val := os_val st; os_stage := true; os_obj := os_obj st |} r
  else if c =? 34 then
    obind (p_string [] r) (fun '(s, r') => obind (os_update st (JStr s)) (fun st' => p_object f st' r'))
  else if c =? 91 then
    if negb (os_stage st) then Err 6
    else match maker_scan r 1 false with
         | MkMissing => Err 1
         | MkEnd true => Err 8
         | _ => obind (p_array f [] r) (fun '(v, r') => obind (os_update st v) (fun st' => p_object f st' r'))
         end
  else if c =? 123 then
    if negb (os_stage st) then Err 6
    else obind (p_object f os_empty r) (fun '(v, r') => obind (os_update st v) (fun st' => p_object f st' r'))
  else if unmodelled c then Err 9
  else let '(t, r') := bare_rest r in
       obind (os_update st (bareword_value (c :: t))) (fun st' => p_object f st' r').
Proof. reflexivity. Qed.

Definition set_val (st : ostate) (v : json) : ostate :=
  {| os_key := os_key st; os_val := Some v; os_stage := true; os_obj := os_obj st |}.
Definition fresh (o : list (bytes * json)) : ostate :=
  {| os_key := None; os_val := None; os_stage := false; os_obj := o |}.
Definition full (k : bytes) (v : json) (o : list (bytes * json)) : ostate :=
  {| os_key := Some (JStr k); os_val := Some v; os_stage := true; os_obj := o |}.

Lemma os_update_val st v : os_stage st = true -> os_val st = None -> os_update st v = Ok (set_val st v).
Proof. intros S V. unfold os_update. rewrite S, V. reflexivity. Qed.

Definition elem_ok (st : style) (d : nat) (j : json) : Prop := forall f acc rest,
  (length (print st d j ++ rest) < f)%nat -> delim_start rest ->
  exists f', (length rest < f')%nat /\ p_array f acc (print st d j ++ rest) = p_array f' (canon j :: acc) rest.

Definition val_ok (st : style) (d : nat) (j : json) : Prop := forall f os rest,
  os_stage os = true -> os_val os = None ->
  (length (print st d j ++ rest) < f)%nat -> delim_start rest ->
  exists f', (length rest < f')%nat /\ p_object f os (print st d j ++ rest) = p_object f' (set_val os (canon j)) rest.

(* the array loop skips white space of either kind *)
Lemma p_array_ws w : wsn_ok w = true -> forall f acc tail, (length (w ++ tail) < f)%nat ->
  exists f', (length tail < f')%nat /\ p_array f acc (w ++ tail) = p_array f' acc tail.
Proof.
  induction w as [|c w IH]; intros H f acc tail L.
  - exists f. split; [exact L|reflexivity].
  - unfold wsn_ok in H. cbn [forallb] in H. apply andb_true_iff in H as [H1 H2].
    destruct f as [|f]; [cbn in L; lia|]. cbn [app]. rewrite p_array_step.
    destruct (wsn_char c H1) as (E & _). rewrite E.
    apply IH; [exact H2|]. cbn [app length] in L. lia.
Qed.

(* the object loop skips inline white space in any state ... *)
Lemma p_object_ws w : ws_ok w = true -> forall f os tail, (length (w ++ tail) < f)%nat ->
  exists f', (length tail < f')%nat /\ p_object f os (w ++ tail) = p_object f' os tail.
Proof.
  induction w as [|c w IH]; intros H f os tail L.
  - exists f. split; [exact L|reflexivity].
  - unfold ws_ok in H. cbn [forallb] in H. apply andb_true_iff in H as [H1 H2].
    destruct f as [|f]; [cbn in L; lia|]. cbn [app]. rewrite p_object_step. rewrite H1.
    apply IH; [exact H2|]. cbn [app length] in L. lia.
Qed.

(* ... and line breaks where no member is pending: a newline ends the (empty) pair *)
Lemma p_object_wsn_fresh w : wsn_ok w = true -> forall f o tail, (length (w ++ tail) < f)%nat ->
  exists f', (length tail < f')%nat /\ p_object f (fresh o) (w ++ tail) = p_object f' (fresh o) tail.
Proof.
  induction w as [|c w IH]; intros H f o tail L.
  - exists f. split; [exact L|reflexivity].
  - unfold wsn_ok in H. cbn [forallb] in H. apply andb_true_iff in H as [H1 H2].
    destruct f as [|f]; [cbn in L; lia|]. cbn [app]. rewrite p_object_step.
    assert (L' : (length (w ++ tail) < f)%nat) by (cbn [app length] in L; lia).
    destruct (mem c [32; 9; 13]) eqn:E; [apply IH; assumption|].
    assert (c = 10) as -> by (unfold mem in *; cbn [existsb] in *; lia).
    cbn [N.eqb Pos.eqb orb]. cbn [os_write fresh os_key os_val obind]. apply IH; assumption.
Qed.

Lemma os_write_full k v o : os_write (full k v o) = Ok (fresh (obj_set k v o)).
Proof. reflexivity. Qed.
Lemma os_write_fresh o : os_write (fresh o) = Ok (fresh o).
Proof. reflexivity. Qed.

(* closing an object: white space (line breaks included) and `}` after the last
   member, or after nothing *)
Lemma p_object_close w : wsn_ok w = true -> forall f os o' rest,
  (os = fresh o' \/ exists k v o, os = full k v o /\ o' = obj_set k v o) ->
  (length (w ++ 125%N :: rest) < f)%nat ->
  p_object f os (w ++ 125 :: rest) = Ok (JObj o', rest).
Proof.
  induction w as [|c w IH]; intros H f os o' rest C L.
  - destruct f as [|f]; [cbn in L; lia|]. cbn [app]. rewrite p_object_step. cbn [mem existsb N.eqb Pos.eqb orb].
    destruct C as [->|(k & v & o & -> & ->)]; [rewrite os_write_fresh|rewrite os_write_full]; reflexivity.
  - unfold wsn_ok in H. cbn [forallb] in H. apply andb_true_iff in H as [H1 H2].
    destruct f as [|f]; [cbn in L; lia|]. cbn [app]. rewrite p_object_step.
    assert (L' : (length (w ++ 125%N :: rest) < f)%nat) by (cbn [app length] in L; lia).
    destruct (mem c [32; 9; 13]) eqn:E; [apply IH; assumption|].
    assert (c = 10) as -> by (unfold mem in *; cbn [existsb] in *; lia).
    cbn [N.eqb Pos.eqb orb].
    destruct C as [->|(k & v & o & -> & ->)].
    + rewrite os_write_fresh. cbn [obind]. apply IH; [exact H2|left; reflexivity|exact L'].
    + rewrite os_write_full. cbn [obind]. apply IH; [exact H2|left; reflexivity|exact L'].
Qed.

Lemma bareword_atom (tok : bytes) (v : json) c t f acc rest :
  tok = c :: t -> forallb plain_char tok = true ->
  mem c [44; 32; 9; 13; 10] = false -> (c =? 93) = false -> (c =? 34) = false -> (c =? 91) = false ->
  (c =? 123) = false -> unmodelled c = false ->
  bareword_value tok = v ->
  (length (tok ++ rest) < f)%nat -> delim_start rest ->
  exists f', (length rest < f')%nat /\ p_array f acc (tok ++ rest) = p_array f' (v :: acc) rest.
Proof.
  intros -> P E1 E2 E3 E4 E5 E6 V L T.
  destruct f as [|f]; [cbn in L; lia|]. exists f. split; [cbn [app length] in L; rewrite app_length in L; lia|].
  cbn [app]. rewrite p_array_step, E1, E2, E3, E4, E5, E6.
  cbn [forallb] in P. apply andb_true_iff in P as [_ P].
  rewrite (bare_rest_plain t rest P (delim_term rest T)). rewrite V. reflexivity.
Qed.

Lemma bareword_atom_obj (tok : bytes) (v : json) c t f os rest :
  tok = c :: t -> forallb plain_char tok = true ->
  mem c [32; 9; 13] = false -> ((c =? 44) || (c =? 10)) = false -> (c =? 125) = false -> (c =? 58) = false ->
  (c =? 34) = false -> (c =? 91) = false -> (c =? 123) = false -> unmodelled c = false ->
  bareword_value tok = v -> os_stage os = true -> os_val os = None ->
  (length (tok ++ rest) < f)%nat -> delim_start rest ->
  exists f', (length rest < f')%nat /\ p_object f os (tok ++ rest) = p_object f' (set_val os v) rest.
Proof.
  intros -> P E1 E2 E3 E4 E5 E6 E7 E8 V S1 S2 L T.
  destruct f as [|f]; [cbn in L; lia|]. exists f. split; [cbn [app length] in L; rewrite app_length in L; lia|].
  cbn [app]. rewrite p_object_step, E1, E2, E3, E4, E5, E6, E7, E8.
  cbn [forallb] in P. apply andb_true_iff in P as [_ P].
  rewrite (bare_rest_plain t rest P (delim_term rest T)). rewrite V, (os_update_val os v S1 S2). reflexivity.
Qed.

Lemma num_char_obj c : num_char c = true ->
  mem c [32; 9; 13] = false /\ ((c =? 44) || (c =? 10)) = false /\ (c =? 125) = false /\ (c =? 58) = false.
Proof. unfold num_char, is_digit, mem. cbn [existsb]. lia. Qed.

Lemma nofire_branch {A} (r : mk_res) (x : Outcome A) :
  (r = MkEarly \/ r = MkEnd false) ->
  match r with MkMissing => Err 1 | MkEnd true => Err 8 | _ => x end = x.
Proof. intros [->| ->]; reflexivity. Qed.

Ltac norm_app := repeat progress (rewrite <- ?app_assoc in *; cbn [app] in *).
Ltac len_lia := repeat progress (rewrite ?app_length in *; cbn [length] in *); lia.

Section Docs.
  Variable st : style.
  Hypothesis ST : style_ok st.

  Lemma items_ok d l : Forall (elem_ok st (S d)) l -> forall f acc tail,
    (length (items st d l ++ tail) < f)%nat -> delim_start tail ->
    exists f', (length tail < f')%nat /\
      p_array f acc (items st d l ++ tail) = p_array f' (rev (map canon l) ++ acc) tail.
  Proof.
    destruct (ST d) as (_ & Wcb & Wca & _).
    induction 1 as [|x l Hx Hl IH]; intros f acc tail L T.
    - exists f. split; [exact L|reflexivity].
    - destruct l as [|y l'].
      + change (items st d [x]) with (print st (S d) x) in *. cbn [map rev app]. apply Hx; assumption.
      + change (items st d (x :: y :: l')) with (print st (S d) x ++ s_cb st d ++ 44 :: s_ca st d ++ items st d (y :: l')) in *.
        norm_app.
        destruct (Hx f acc (s_cb st d ++ 44 :: s_ca st d ++ items st d (y :: l') ++ tail) L) as (f1 & L1 & E1).
        { apply delim_start_ws; [apply ws_wsn; exact Wcb|reflexivity]. }
        rewrite E1.
        destruct (p_array_ws (s_cb st d) (ws_wsn _ Wcb) f1 (canon x :: acc) _ L1) as (f2 & L2 & E2). rewrite E2.
        destruct f2 as [|f2]; [cbn in L2; lia|]. rewrite p_array_step. cbn [mem existsb N.eqb Pos.eqb orb].
        assert (L3 : (length (s_ca st d ++ items st d (y :: l') ++ tail) < f2)%nat) by (cbn [length] in L2; lia).
        destruct (p_array_ws (s_ca st d) Wca f2 (canon x :: acc) _ L3) as (f3 & L4 & E3). rewrite E3.
        destruct (IH f3 (canon x :: acc) tail L4 T) as (f4 & L5 & E4). rewrite E4.
        exists f4. split; [exact L5|]. f_equal. cbn [map rev]. rewrite <- !app_assoc. reflexivity.
  Qed.

  (* the inside of an array, after its opening bracket *)
  Lemma inner_arr d l : Forall (elem_ok st (S d)) l -> forall f rest,
    (length (arr_body st d l ++ 93%N :: rest) < f)%nat ->
    p_array f [] (arr_body st d l ++ 93 :: rest) = Ok (JArr (map canon l), rest).
  Proof.
    destruct (ST d) as (Wo & _ & _ & _ & _ & Wc & We). intros EL f rest LB. unfold arr_body in *.
    destruct l as [|x l'].
    - destruct (p_array_ws (s_empty st d) We f [] _ LB) as (f1 & L1 & E1). rewrite E1.
      destruct f1 as [|f1]; [cbn in L1; lia|]. rewrite p_array_step. reflexivity.
    - norm_app.
      destruct (p_array_ws (s_open st d) Wo f [] _ LB) as (f1 & L1 & E1). rewrite E1.
      destruct (items_ok d (x :: l') EL f1 [] (s_close st d ++ 93 :: rest) L1) as (f2 & L2 & E2).
      { apply delim_start_ws; [exact Wc|reflexivity]. }
      rewrite E2.
      destruct (p_array_ws (s_close st d) Wc f2 (rev (map canon (x :: l')) ++ []) _ L2) as (f3 & L3 & E3). rewrite E3.
      destruct f3 as [|f3]; [cbn in L3; lia|]. rewrite p_array_step. cbn [mem existsb N.eqb Pos.eqb orb].
      rewrite app_nil_r, rev_involutive. reflexivity.
  Qed.

  Definition kv_ok (d : nat) (kv : bytes * json) : Prop := str_ok (fst kv) = true /\ val_ok st (S d) (snd kv).
  Definition fold_obj (kvs : list (bytes * json)) (o : list (bytes * json)) :=
    fold_left (fun o kv => obj_set (fst kv) (canon (snd kv)) o) kvs o.

  (* one member  "key" : value  from a fresh state *)
  Lemma pair_ok d kv : kv_ok d kv -> forall f o rest,
    (length (pair st d kv ++ rest) < f)%nat -> delim_start rest ->
    exists f', (length rest < f')%nat /\
      p_object f (fresh o) (pair st d kv ++ rest) = p_object f' (full (fst kv) (canon (snd kv)) o) rest.
  Proof.
    destruct (ST d) as (_ & _ & _ & Wcolb & Wcola & _).
    intros [K V] f o rest L T. destruct kv as [k v]. cbn [fst snd] in *.
    unfold pair in *. cbn [fst snd app] in *. norm_app.
    destruct f as [|f]; [cbn in L; lia|]. rewrite p_object_step. cbn [mem existsb N.eqb Pos.eqb orb].
    rewrite (p_string_ok k [] _ K). cbn [obind rev app os_update fresh os_stage os_key].
    assert (L1 : (length (s_colb st d ++ 58%N :: s_cola st d ++ print st (S d) v ++ rest) < f)%nat).
    { cbn [length] in L. rewrite app_length in L. cbn [length] in L. lia. }
    match goal with |- context [p_object f ?os0 (s_colb st d ++ ?tl0)] =>
      destruct (p_object_ws (s_colb st d) Wcolb f os0 tl0 L1) as (f2 & L2 & E2) end. rewrite E2.
    destruct f2 as [|f2]; [cbn in L2; lia|]. rewrite p_object_step. cbn [mem existsb N.eqb Pos.eqb orb os_stage].
    assert (L3 : (length (s_cola st d ++ print st (S d) v ++ rest) < f2)%nat) by (cbn [length] in L2; lia).
    match goal with |- context [p_object f2 ?os0 (s_cola st d ++ ?tl0)] =>
      destruct (p_object_ws (s_cola st d) Wcola f2 os0 tl0 L3) as (f3 & L4 & E3) end. rewrite E3.
    cbn [os_key os_val os_stage os_obj fresh].
    match goal with |- context [p_object f3 ?os0 (print st (S d) v ++ rest)] =>
      destruct (V f3 os0 rest eq_refl eq_refl L4 T) as (f4 & L5 & E4) end. rewrite E4.
    exists f4. split; [exact L5|reflexivity].
  Qed.

  Lemma pairs_ok d kvs : Forall (kv_ok d) kvs -> kvs <> [] -> forall f o tail,
    (length (pairs st d kvs ++ tail) < f)%nat -> delim_start tail ->
    exists f' k v o', (length tail < f')%nat /\
      p_object f (fresh o) (pairs st d kvs ++ tail) = p_object f' (full k v o') tail /\
      obj_set k v o' = fold_obj kvs o.
  Proof.
    destruct (ST d) as (_ & Wcb & Wca & _).
    induction 1 as [|kv l Hkv Hl IH]; intros NE f o tail L T; [congruence|].
    destruct l as [|kv2 l'].
    - change (pairs st d [kv]) with (pair st d kv) in *.
      destruct (pair_ok d kv Hkv f o tail L T) as (f1 & L1 & E1).
      exists f1, (fst kv), (canon (snd kv)), o. split; [exact L1|]. split; [exact E1|reflexivity].
    - change (pairs st d (kv :: kv2 :: l')) with (pair st d kv ++ s_cb st d ++ 44 :: s_ca st d ++ pairs st d (kv2 :: l')) in *.
      norm_app.
      destruct (pair_ok d kv Hkv f o (s_cb st d ++ 44 :: s_ca st d ++ pairs st d (kv2 :: l') ++ tail) L) as (f1 & L1 & E1).
      { apply delim_start_ws; [apply ws_wsn; exact Wcb|reflexivity]. }
      rewrite E1.
      destruct (p_object_ws (s_cb st d) Wcb f1 (full (fst kv) (canon (snd kv)) o) _ L1) as (f2 & L2 & E2). rewrite E2.
      destruct f2 as [|f2]; [cbn in L2; lia|]. rewrite p_object_step. cbn [mem existsb N.eqb Pos.eqb orb].
      rewrite os_write_full. cbn [obind].
      assert (L3 : (length (s_ca st d ++ pairs st d (kv2 :: l') ++ tail) < f2)%nat) by (cbn [length] in L2; lia).
      destruct (p_object_wsn_fresh (s_ca st d) Wca f2 (obj_set (fst kv) (canon (snd kv)) o) _ L3) as (f3 & L4 & E3). rewrite E3.
      destruct (IH ltac:(discriminate) f3 (obj_set (fst kv) (canon (snd kv)) o) tail L4 T) as (f4 & k & v & o' & L5 & E4 & F).
      rewrite E4. exists f4, k, v, o'. split; [exact L5|]. split; [reflexivity|exact F].
  Qed.

  (* the inside of an object, after its opening brace *)
  Lemma inner_obj d kvs : Forall (kv_ok d) kvs -> forall f rest,
    (length (obj_body st d kvs ++ 125%N :: rest) < f)%nat ->
    p_object f os_empty (obj_body st d kvs ++ 125 :: rest) = Ok (JObj (fold_obj kvs []), rest).
  Proof.
    destruct (ST d) as (Wo & _ & _ & _ & _ & Wc & We). intros KV f rest LB. unfold obj_body in *.
    change os_empty with (fresh []).
    destruct kvs as [|kv kvs'].
    - apply p_object_close; [exact We|left; reflexivity|exact LB].
    - norm_app.
      destruct (p_object_wsn_fresh (s_open st d) Wo f [] _ LB) as (f1 & L1 & E1). rewrite E1.
      destruct (pairs_ok d (kv :: kvs') KV ltac:(discriminate) f1 [] (s_close st d ++ 125 :: rest) L1)
        as (f2 & k & v & o' & L2 & E2 & F).
      { apply delim_start_ws; [exact Wc|reflexivity]. }
      rewrite E2. rewrite <- F.
      apply p_object_close; [exact Wc|right; exists k, v, o'; split; reflexivity|exact L2].
  Qed.

  Lemma both j : forall d, restricted j = true -> elem_ok st d j /\ val_ok st d j.
  Proof.
    induction j as [|b0|tok|s|l IH|kvs IH] using json_ind'; intros d R; cbn [restricted] in R.
    - split.
      + intros f acc rest L T. eapply (bareword_atom [110; 117; 108; 108] JNull); try reflexivity; assumption.
      + intros f os rest S1 S2 L T. eapply (bareword_atom_obj [110; 117; 108; 108] JNull); try reflexivity; assumption.
    - split.
      + intros f acc rest L T. destruct b0.
        * eapply (bareword_atom [116; 114; 117; 101] (JBool true)); try reflexivity; assumption.
        * eapply (bareword_atom [102; 97; 108; 115; 101] (JBool false)); try reflexivity; assumption.
      + intros f os rest S1 S2 L T. destruct b0.
        * eapply (bareword_atom_obj [116; 114; 117; 101] (JBool true)); try reflexivity; assumption.
        * eapply (bareword_atom_obj [102; 97; 108; 115; 101] (JBool false)); try reflexivity; assumption.
    - (* number *)
      destruct (num_ok_parts tok R) as (_ & NE & NC & _).
      destruct tok as [|c t]; [congruence|].
      pose proof NC as NC'. cbn [forallb] in NC'. apply andb_true_iff in NC' as [Hc _].
      destruct (num_char_plain c Hc) as (E1 & E2 & E3 & E4 & E5 & E6 & _).
      destruct (num_char_obj c Hc) as (O1 & O2 & O3 & O4).
      split.
      + intros f acc rest L T.
        eapply (bareword_atom (c :: t) (JNum (c :: t))); try reflexivity; try assumption.
        * apply num_plain; exact NC.
        * apply bareword_num; exact R.
      + intros f os rest S1 S2 L T.
        eapply (bareword_atom_obj (c :: t) (JNum (c :: t))); try reflexivity; try assumption.
        * apply num_plain; exact NC.
        * apply bareword_num; exact R.
    - (* string *)
      split.
      + intros f acc rest L T. cbn [print app canon] in *. destruct f as [|f]; [cbn in L; lia|].
        rewrite p_array_step. cbn [mem existsb N.eqb Pos.eqb orb].
        rewrite <- app_assoc. cbn [app]. rewrite (p_string_ok s [] rest R). cbn [obind rev app].
        exists f. split; [|reflexivity]. cbn [length] in L. rewrite !app_length in L. cbn [length] in L. lia.
      + intros f os rest S1 S2 L T. cbn [print app canon] in *. destruct f as [|f]; [cbn in L; lia|].
        rewrite p_object_step. cbn [mem existsb N.eqb Pos.eqb orb].
        rewrite <- app_assoc. cbn [app]. rewrite (p_string_ok s [] rest R). cbn [obind rev app].
        rewrite (os_update_val os (JStr s) S1 S2). cbn [obind].
        exists f. split; [|reflexivity]. cbn [length] in L. rewrite !app_length in L. cbn [length] in L. lia.
    - (* array *)
      assert (RA : restricted (JArr l) = true) by exact R.
      assert (EL : Forall (elem_ok st (S d)) l).
      { rewrite Forall_forall in IH |- *. intros x I. apply IH; [exact I|]. rewrite forallb_forall in R. apply R; exact I. }
      split.
      + intros f acc rest L T. pose proof (arraymaker_never_fires st ST d l rest RA) as MK.
        rewrite print_arr in *. cbn [app canon] in *. rewrite <- app_assoc in *. cbn [app] in *.
        destruct f as [|f]; [cbn in L; lia|]. rewrite p_array_step. cbn [mem existsb N.eqb Pos.eqb orb].
        rewrite (nofire_branch _ _ MK).
        rewrite (inner_arr d l EL f rest) by (cbn [length] in L; lia). cbn [obind].
        exists f. split; [|reflexivity]. cbn [length] in L. rewrite !app_length in L. cbn [length] in L. lia.
      + intros f os rest S1 S2 L T. pose proof (arraymaker_never_fires st ST d l rest RA) as MK.
        rewrite print_arr in *. cbn [app canon] in *. rewrite <- app_assoc in *. cbn [app] in *.
        destruct f as [|f]; [cbn in L; lia|]. rewrite p_object_step. cbn [mem existsb N.eqb Pos.eqb orb].
        rewrite S1. cbn [negb]. rewrite (nofire_branch _ _ MK).
        rewrite (inner_arr d l EL f rest) by (cbn [length] in L; lia). cbn [obind].
        rewrite (os_update_val os _ S1 S2). cbn [obind].
        exists f. split; [|reflexivity]. cbn [length] in L. rewrite !app_length in L. cbn [length] in L. lia.
    - (* object *)
      assert (KV : Forall (kv_ok d) kvs).
      { rewrite Forall_forall in IH |- *. intros kv I. rewrite forallb_forall in R. specialize (R kv I).
        apply andb_true_iff in R as [K V]. split; [exact K|]. apply IH; assumption. }
      split.
      + intros f acc rest L T. rewrite print_obj in *. cbn [app] in *. rewrite <- app_assoc in *. cbn [app] in *.
        destruct f as [|f]; [cbn in L; lia|]. rewrite p_array_step. cbn [mem existsb N.eqb Pos.eqb orb].
        rewrite (inner_obj d kvs KV f rest) by (cbn [length] in L; lia). cbn [obind].
        exists f. split; [|reflexivity]. cbn [length] in L. rewrite !app_length in L. cbn [length] in L. lia.
      + intros f os rest S1 S2 L T. rewrite print_obj in *. cbn [app] in *. rewrite <- app_assoc in *. cbn [app] in *.
        destruct f as [|f]; [cbn in L; lia|]. rewrite p_object_step. cbn [mem existsb N.eqb Pos.eqb orb].
        rewrite S1. cbn [negb].
        rewrite (inner_obj d kvs KV f rest) by (cbn [length] in L; lia). cbn [obind].
        rewrite (os_update_val os _ S1 S2). cbn [obind].
        exists f. split; [|reflexivity]. cbn [length] in L. rewrite !app_length in L. cbn [length] in L. lia.
  Qed.

  Definition top (j : json) : Prop := match j with JArr _ | JObj _ => True | _ => False end.

  (* a literal written as a JSON array or object of the restricted grammar, nested
     to any depth, in any rendering style (single-line or indented over several
     lines), evaluates to exactly the value the document denotes *)
  Theorem literal_value j : restricted j = true -> top j ->
    lit_parse (37 :: print st 0 j) = Ok (canon j).
  Proof.
    intros R TOP. destruct j as [| | | |l|kvs]; try contradiction.
    - assert (EL : Forall (elem_ok st 1) l).
      { apply Forall_forall. intros x I. apply both. cbn [restricted] in R. rewrite forallb_forall in R. apply R; exact I. }
      pose proof (arraymaker_never_fires st ST 0 l [] R) as MK.
      rewrite print_arr in *. cbn [app] in MK. rewrite app_nil_r in MK.
      unfold lit_parse. rewrite (nofire_branch _ _ MK).
      rewrite inner_arr; [reflexivity|exact EL|lia].
    - assert (KV : Forall (kv_ok 0) kvs).
      { apply Forall_forall. intros kv I. cbn [restricted] in R. rewrite forallb_forall in R. specialize (R kv I).
        apply andb_true_iff in R as [K V]. split; [exact K|]. apply both; exact V. }
      rewrite print_obj. unfold lit_parse.
      rewrite inner_obj; [reflexivity|exact KV|lia].
  Qed.
End Docs.

(* ------------------------------------------------------------ the plain JSON parser *)
Lemma skip_ws_app w tail : wsn_ok w = true -> skip_ws (w ++ tail) = skip_ws tail.
Proof.
  induction w as [|c w IH]; intro H; [reflexivity|].
  unfold wsn_ok in H. cbn [forallb] in H. apply andb_true_iff in H as [H1 H2].
  cbn [app skip_ws]. assert (mem c [32; 9; 10; 13] = true) as -> by (unfold mem in *; cbn [existsb] in *; lia).
  apply IH; exact H2.
Qed.

Lemma skip_ws_head c r : mem c [32; 9; 10; 13] = false -> skip_ws (c :: r) = c :: r.
Proof. intro H. cbn [skip_ws]. rewrite H. reflexivity. Qed.

Lemma j_string_ok s acc rest : str_ok s = true -> j_string acc (s ++ 34 :: rest) = Ok (rev acc ++ s, rest).
Proof.
  revert acc. induction s as [|c s IH]; intros acc H.
  - cbn. rewrite app_nil_r. reflexivity.
  - unfold str_ok in H. cbn [forallb] in H. apply andb_true_iff in H as [H1 H2].
    cbn [app j_string].
    assert ((c =? 34) = false /\ (c =? 92) = false /\ (c <? 32) = false) as (E1 & E2 & E3)
      by (unfold mem in *; cbn [existsb] in *; lia).
    rewrite E1, E2, E3. rewrite (IH (c :: acc) H2). cbn [rev]. rewrite <- app_assoc. reflexivity.
Qed.

Lemma j_token_ok tok rest : forallb (fun c => negb (j_delim c)) tok = true ->
  match rest with c :: _ => j_delim c = true | [] => True end ->
  j_token (tok ++ rest) = (tok, rest).
Proof.
  intros H T. induction tok as [|c tok IH].
  - destruct rest as [|c r]; [reflexivity|]. cbn [app j_token]. rewrite T. reflexivity.
  - cbn [forallb] in H. apply andb_true_iff in H as [H1 H2]. apply negb_true_iff in H1.
    cbn [app j_token]. rewrite H1, (IH H2). reflexivity.
Qed.

Lemma delim_jdelim rest : delim_start rest -> match rest with c :: _ => j_delim c = true | [] => True end.
Proof. destruct rest as [|c r]; [auto|]. unfold delim_start, j_delim, mem. cbn [existsb]. lia. Qed.

Lemma num_char_json c : num_char c = true ->
  j_delim c = false /\ mem c [32; 9; 10; 13] = false /\ (c =? 34) = false /\ (c =? 91) = false /\ (c =? 123) = false.
Proof. unfold num_char, is_digit, j_delim, mem. cbn [existsb]. lia. Qed.

Lemma num_token tok : forallb num_char tok = true -> forallb (fun c => negb (j_delim c)) tok = true.
Proof.
  intro H. apply forallb_forall. intros c I. rewrite forallb_forall in H. specialize (H c I).
  destruct (num_char_json c H) as (E & _). rewrite E. reflexivity.
Qed.

Lemma j_scalar_num tok : num_ok tok = true -> j_scalar tok = Ok (JNum tok).
Proof.
  intro H. destruct (num_ok_parts tok H) as (J & NE & NC & _). unfold j_scalar. rewrite J.
  destruct tok as [|c t]; [congruence|]. cbn [forallb] in NC. apply andb_true_iff in NC as [Hc _].
  assert (c <> 110 /\ c <> 116 /\ c <> 102) as (A & B & C) by (unfold num_char, is_digit, mem in Hc; cbn [existsb] in Hc; lia).
  assert (forall t', bytes_eqb (c :: t) (110 :: t') = false) as E1
    by (intro t'; cbn [bytes_eqb]; destruct (N.eqb_spec c 110); [congruence|reflexivity]).
  assert (forall t', bytes_eqb (c :: t) (116 :: t') = false) as E2
    by (intro t'; cbn [bytes_eqb]; destruct (N.eqb_spec c 116); [congruence|reflexivity]).
  assert (forall t', bytes_eqb (c :: t) (102 :: t') = false) as E3
    by (intro t'; cbn [bytes_eqb]; destruct (N.eqb_spec c 102); [congruence|reflexivity]).
  rewrite E1, E2, E3. reflexivity.
Qed.

Lemma j_value_step f inp : j_value (S f) inp =
  match skip_ws inp with
  | [] => Err 1
  | c :: r =>
    if c =? 34 then obind (j_string [] r) (fun '(s, r') => Ok (JStr s, r'))
    else if c =? 91 then match skip_ws r with 93 :: r' => Ok (JArr [], r') | _ => j_items f [] r end
    else if c =? 123 then match skip_ws r with 125 :: r' => Ok (JObj [], r') | _ => j_members f [] r end
    else let '(t, r') := j_token (c :: r) in
         match t with [] => Err 1 | _ => obind (j_scalar t) (fun v => Ok (v, r')) end
  end.
Proof. reflexivity. Qed.

Lemma j_items_step f acc inp : j_items (S f) acc inp =
  obind (j_value f inp) (fun '(v, r) =>
    match skip_ws r with
    | 44 :: r' => j_items f (v :: acc) r'
    | 93 :: r' => Ok (JArr (rev (v :: acc)), r')
    | _ => Err 1
    end).
Proof. reflexivity. Qed.

Lemma j_members_step f o inp : j_members (S f) o inp =
  match skip_ws inp with
  | 34 :: r =>
    obind (j_string [] r) (fun '(k, r1) =>
      match skip_ws r1 with
      | 58 :: r2 =>
        obind (j_value f r2) (fun '(v, r3) =>
          match skip_ws r3 with
          | 44 :: r4 => j_members f (obj_set k v o) r4
          | 125 :: r4 => Ok (JObj (obj_set k v o), r4)
          | _ => Err 1
          end)
      | _ => Err 1
      end)
  | _ => Err 1
  end.
Proof. reflexivity. Qed.

(* a value, possibly after white space, followed by a delimiter *)
Definition jval_ok (st : style) (d : nat) (j : json) : Prop := forall w f rest,
  wsn_ok w = true -> (2 * length (w ++ print st d j ++ rest) < f)%nat -> delim_start rest ->
  j_value f (w ++ print st d j ++ rest) = Ok (canon j, rest).

Section JsonDocs.
  Variable st : style.
  Hypothesis ST : style_ok st.

  (* a rendered value starts with a character that is neither white space nor a
     closing bracket nor a comma *)
  Lemma head_ok j d : restricted j = true ->
    exists c t, print st d j = c :: t /\ mem c [32; 9; 10; 13; 93; 125; 44] = false.
  Proof.
    intro R. destruct j as [|[|]|tok|s|l|kvs]; try (eexists; eexists; split; [reflexivity|reflexivity]).
    - cbn [restricted] in R. destruct (num_ok_parts tok R) as (_ & NE & NC & _).
      destruct tok as [|c t]; [congruence|]. exists c, t. split; [reflexivity|].
      cbn [forallb] in NC. apply andb_true_iff in NC as [Hc _].
      unfold num_char, is_digit, mem in *. cbn [existsb] in *. lia.
  Qed.

  Lemma j_items_ok d l : l <> [] -> Forall (jval_ok st (S d)) l -> Forall (fun j => restricted j = true) l ->
    forall w f acc rest, wsn_ok w = true ->
    (2 * length (w ++ items st d l ++ s_close st d ++ 93%N :: rest) + 1 < f)%nat ->
    j_items f acc (w ++ items st d l ++ s_close st d ++ 93 :: rest) = Ok (JArr (rev acc ++ map canon l), rest).
  Proof.
    destruct (ST d) as (_ & Wcb & Wca & _ & _ & Wc & _).
    intros NE F. revert NE. induction F as [|x l Hx Hl IH]; intros NE RS w f acc rest W L; [congruence|].
    inversion RS as [|? ? Rx Rl]; subst.
    destruct f as [|f]; [lia|]. rewrite j_items_step.
    destruct l as [|y l'].
    - change (items st d [x]) with (print st (S d) x) in *.
      rewrite (Hx w f (s_close st d ++ 93 :: rest) W); [|lia|apply delim_start_ws; [exact Wc|reflexivity]].
      cbn [obind]. rewrite (skip_ws_app _ _ Wc). cbn [skip_ws mem existsb N.eqb Pos.eqb orb].
      cbn [map rev]. reflexivity.
    - change (items st d (x :: y :: l')) with (print st (S d) x ++ s_cb st d ++ 44 :: s_ca st d ++ items st d (y :: l')) in *.
      norm_app.
      rewrite (Hx w f _ W); [|lia|apply delim_start_ws; [apply ws_wsn; exact Wcb|reflexivity]].
      cbn [obind]. rewrite (skip_ws_app _ _ (ws_wsn _ Wcb)). cbn [skip_ws mem existsb N.eqb Pos.eqb orb].
      rewrite (IH ltac:(discriminate) Rl (s_ca st d) f (canon x :: acc) rest Wca).
      + cbn [map rev]. rewrite <- app_assoc. reflexivity.
      + len_lia.
  Qed.

  Lemma jarr_inner d l : Forall (jval_ok st (S d)) l -> Forall (fun j => restricted j = true) l ->
    forall f rest, (2 * length (arr_body st d l ++ 93%N :: rest) + 1 < f)%nat ->
    match skip_ws (arr_body st d l ++ 93 :: rest) with
    | 93 :: r' => Ok (JArr [], r')
    | _ => j_items f [] (arr_body st d l ++ 93 :: rest)
    end = Ok (JArr (map canon l), rest).
  Proof.
    destruct (ST d) as (Wo & _ & _ & _ & _ & Wc & We). intros F RS f rest L. unfold arr_body in *.
    destruct l as [|x l'].
    - rewrite (skip_ws_app _ _ We). reflexivity.
    - norm_app. rewrite (skip_ws_app _ _ Wo).
      inversion RS as [|? ? Rx Rl]; subst.
      destruct (head_ok x (S d) Rx) as (c & t & E & HC).
      assert (HD : exists tl, items st d (x :: l') ++ s_close st d ++ 93 :: rest = c :: tl).
      { destruct l' as [|y l''].
        - change (items st d [x]) with (print st (S d) x). rewrite E. eexists. reflexivity.
        - change (items st d (x :: y :: l'')) with (print st (S d) x ++ s_cb st d ++ 44 :: s_ca st d ++ items st d (y :: l'')).
          rewrite E. eexists. reflexivity. }
      destruct HD as (tl & HD). rewrite HD.
      rewrite skip_ws_head by (unfold mem in *; cbn [existsb] in *; lia).
      assert (c <> 93) by (unfold mem in HC; cbn [existsb] in HC; lia).
      assert ((match c :: tl with 93 :: r' => Ok (JArr [], r') | _ => j_items f [] (s_open st d ++ c :: tl) end)
              = j_items f [] (s_open st d ++ c :: tl)) as ->.
      { destruct c as [|p]; [reflexivity|]. repeat (destruct p as [p|p|]; try reflexivity). congruence. }
      rewrite <- HD. rewrite (j_items_ok d (x :: l') ltac:(discriminate) F RS (s_open st d) f [] rest Wo L). reflexivity.
  Qed.

  Definition jkv_ok (d : nat) (kv : bytes * json) : Prop :=
    str_ok (fst kv) = true /\ jval_ok st (S d) (snd kv).

  Lemma j_members_ok d kvs : kvs <> [] -> Forall (jkv_ok d) kvs ->
    forall w f o rest, wsn_ok w = true ->
    (2 * length (w ++ pairs st d kvs ++ s_close st d ++ 125%N :: rest) + 1 < f)%nat ->
    j_members f o (w ++ pairs st d kvs ++ s_close st d ++ 125 :: rest) =
      Ok (JObj (fold_left (fun o kv => obj_set (fst kv) (canon (snd kv)) o) kvs o), rest).
  Proof.
    destruct (ST d) as (_ & Wcb & Wca & Wcolb & Wcola & Wc & _).
    intros NE F. revert NE. induction F as [|kv l Hkv Hl IH]; intros NE w f o rest W L; [congruence|].
    destruct Hkv as [K V]. destruct kv as [k v]. cbn [fst snd] in *.
    destruct f as [|f]; [lia|]. rewrite j_members_step.
    destruct l as [|kv2 l'].
    - change (pairs st d [(k, v)]) with (pair st d (k, v)) in *. unfold pair in *. cbn [fst snd] in *. norm_app.
      rewrite (skip_ws_app _ _ W). cbn [skip_ws mem existsb N.eqb Pos.eqb orb].
      rewrite (j_string_ok k [] _ K). cbn [obind rev app].
      rewrite (skip_ws_app _ _ (ws_wsn _ Wcolb)). cbn [skip_ws mem existsb N.eqb Pos.eqb orb].
      rewrite (V (s_cola st d) f (s_close st d ++ 125 :: rest) (ws_wsn _ Wcola));
        [|len_lia
         |apply delim_start_ws; [exact Wc|reflexivity]].
      cbn [obind]. rewrite (skip_ws_app _ _ Wc). cbn [skip_ws mem existsb N.eqb Pos.eqb orb fold_left fst snd]. reflexivity.
    - change (pairs st d ((k, v) :: kv2 :: l')) with (pair st d (k, v) ++ s_cb st d ++ 44 :: s_ca st d ++ pairs st d (kv2 :: l')) in *.
      unfold pair in *. cbn [fst snd] in *. norm_app.
      rewrite (skip_ws_app _ _ W). cbn [skip_ws mem existsb N.eqb Pos.eqb orb].
      rewrite (j_string_ok k [] _ K). cbn [obind rev app].
      rewrite (skip_ws_app _ _ (ws_wsn _ Wcolb)). cbn [skip_ws mem existsb N.eqb Pos.eqb orb].
      rewrite (V (s_cola st d) f _ (ws_wsn _ Wcola));
        [|len_lia
         |apply delim_start_ws; [apply ws_wsn; exact Wcb|reflexivity]].
      cbn [obind]. rewrite (skip_ws_app _ _ (ws_wsn _ Wcb)). cbn [skip_ws mem existsb N.eqb Pos.eqb orb].
      rewrite (IH ltac:(discriminate) (s_ca st d) f (obj_set k (canon v) o) rest Wca); [reflexivity|].
      len_lia.
  Qed.

  Lemma jobj_inner d kvs : Forall (jkv_ok d) kvs ->
    forall f rest, (2 * length (obj_body st d kvs ++ 125%N :: rest) + 1 < f)%nat ->
    match skip_ws (obj_body st d kvs ++ 125 :: rest) with
    | 125 :: r' => Ok (JObj [], r')
    | _ => j_members f [] (obj_body st d kvs ++ 125 :: rest)
    end = Ok (JObj (fold_left (fun o kv => obj_set (fst kv) (canon (snd kv)) o) kvs []), rest).
  Proof.
    destruct (ST d) as (Wo & _ & _ & _ & _ & Wc & We). intros F f rest L. unfold obj_body in *.
    destruct kvs as [|kv l'].
    - rewrite (skip_ws_app _ _ We). reflexivity.
    - norm_app. rewrite (skip_ws_app _ _ Wo).
      assert (HD : exists tl, pairs st d (kv :: l') ++ s_close st d ++ 125 :: rest = 34 :: tl).
      { destruct l' as [|kv2 l'']; [change (pairs st d [kv]) with (pair st d kv)
          |change (pairs st d (kv :: kv2 :: l'')) with (pair st d kv ++ s_cb st d ++ 44 :: s_ca st d ++ pairs st d (kv2 :: l''))];
          unfold pair; eexists; reflexivity. }
      destruct HD as (tl & HD). rewrite HD. cbn [skip_ws mem existsb N.eqb Pos.eqb orb].
      rewrite <- HD. apply (j_members_ok d (kv :: l') ltac:(discriminate) F (s_open st d) f [] rest Wo L).
  Qed.

  Lemma jboth j : forall d, restricted j = true -> jval_ok st d j.
  Proof.
    induction j as [|b0|tok|s|l IH|kvs IH] using json_ind'; intros d R w f rest W L T.
    - (* null *)
      destruct f as [|f]; [lia|]. rewrite j_value_step, (skip_ws_app _ _ W). cbn [print app skip_ws mem existsb N.eqb Pos.eqb orb].
      change (110 :: 117 :: 108 :: 108 :: rest) with ([110; 117; 108; 108] ++ rest).
      rewrite (j_token_ok [110; 117; 108; 108] rest eq_refl (delim_jdelim rest T)). reflexivity.
    - destruct f as [|f]; [lia|]. rewrite j_value_step, (skip_ws_app _ _ W). destruct b0.
      + cbn [print app skip_ws mem existsb N.eqb Pos.eqb orb].
        change (116 :: 114 :: 117 :: 101 :: rest) with ([116; 114; 117; 101] ++ rest).
        rewrite (j_token_ok [116; 114; 117; 101] rest eq_refl (delim_jdelim rest T)). reflexivity.
      + cbn [print app skip_ws mem existsb N.eqb Pos.eqb orb].
        change (102 :: 97 :: 108 :: 115 :: 101 :: rest) with ([102; 97; 108; 115; 101] ++ rest).
        rewrite (j_token_ok [102; 97; 108; 115; 101] rest eq_refl (delim_jdelim rest T)). reflexivity.
    - (* number *)
      cbn [restricted] in R. destruct (num_ok_parts tok R) as (_ & NE & NC & _).
      destruct f as [|f]; [lia|]. rewrite j_value_step, (skip_ws_app _ _ W). cbn [print canon].
      destruct tok as [|c t]; [congruence|].
      pose proof NC as NC'. cbn [forallb] in NC'. apply andb_true_iff in NC' as [Hc _].
      destruct (num_char_json c Hc) as (_ & E0 & E1 & E2 & E3).
      cbn [app]. rewrite (skip_ws_head _ _ E0), E1, E2, E3.
      change (c :: t ++ rest) with ((c :: t) ++ rest).
      rewrite (j_token_ok (c :: t) rest (num_token _ NC) (delim_jdelim rest T)).
      rewrite (j_scalar_num (c :: t) R). reflexivity.
    - (* string *)
      cbn [restricted] in R. destruct f as [|f]; [lia|]. rewrite j_value_step, (skip_ws_app _ _ W).
      cbn [print app canon skip_ws mem existsb N.eqb Pos.eqb orb]. rewrite <- app_assoc. cbn [app].
      rewrite (j_string_ok s [] rest R). reflexivity.
    - (* array *)
      cbn [restricted] in R.
      assert (EL : Forall (jval_ok st (S d)) l).
      { rewrite Forall_forall in IH |- *. intros x I. apply IH; [exact I|]. rewrite forallb_forall in R. apply R; exact I. }
      assert (RS : Forall (fun j => restricted j = true) l) by (apply Forall_forall; rewrite forallb_forall in R; exact R).
      destruct f as [|f]; [lia|]. rewrite j_value_step, (skip_ws_app _ _ W).
      rewrite print_arr in *. cbn [app canon skip_ws mem existsb N.eqb Pos.eqb orb]. rewrite <- app_assoc in *. cbn [app] in *.
      apply jarr_inner; [exact EL|exact RS|]. len_lia.
    - (* object *)
      cbn [restricted] in R.
      assert (KV : Forall (jkv_ok d) kvs).
      { rewrite Forall_forall in IH |- *. intros kv I. rewrite forallb_forall in R. specialize (R kv I).
        apply andb_true_iff in R as [K V]. split; [exact K|]. apply IH; assumption. }
      destruct f as [|f]; [lia|]. rewrite j_value_step, (skip_ws_app _ _ W).
      rewrite print_obj in *. cbn [app canon skip_ws mem existsb N.eqb Pos.eqb orb]. rewrite <- app_assoc in *. cbn [app] in *.
      apply jobj_inner; [exact KV|]. len_lia.
  Qed.

  (* print / json_parse round trip: the reference parser reads every rendering
     back as the value the document denotes *)
  Theorem json_parse_print j : restricted j = true -> top j ->
    json_parse (print st 0 j) = Ok (canon j).
  Proof.
    intros R TOP. unfold json_parse. destruct j as [| | | |l|kvs]; try contradiction.
    - cbn [restricted] in R.
      assert (EL : Forall (jval_ok st 1) l).
      { apply Forall_forall. intros x I. apply jboth. rewrite forallb_forall in R. apply R; exact I. }
      assert (RS : Forall (fun j => restricted j = true) l) by (apply Forall_forall; rewrite forallb_forall in R; exact R).
      rewrite print_arr. set (n := length (91 :: arr_body st 0 l ++ [93])).
      replace (2 * n + 2)%nat with (S (2 * n + 1)) by lia. rewrite j_value_step.
      cbn [skip_ws mem existsb N.eqb Pos.eqb orb].
      rewrite (jarr_inner 0 l EL RS (2 * n + 1) []); [reflexivity|unfold n; cbn [length]; lia].
    - cbn [restricted] in R.
      assert (KV : Forall (jkv_ok 0) kvs).
      { apply Forall_forall. intros kv I. rewrite forallb_forall in R. specialize (R kv I).
        apply andb_true_iff in R as [K V]. split; [exact K|]. apply jboth; exact V. }
      rewrite print_obj. set (n := length (123 :: obj_body st 0 kvs ++ [125])).
      replace (2 * n + 2)%nat with (S (2 * n + 1)) by lia. rewrite j_value_step.
      cbn [skip_ws mem existsb N.eqb Pos.eqb orb].
      rewrite (jobj_inner 0 kvs KV (2 * n + 1) []); [reflexivity|unfold n; cbn [length]; lia].
  Qed.
End JsonDocs.

(* ------------------------------------------------------------ literal = JSON *)
(* txt is a rendering of a restricted array or object document *)
Definition rendering (txt : bytes) : Prop :=
  exists st j, style_ok st /\ restricted j = true /\ top j /\ txt = print st 0 j.

Theorem literal_eq_json txt : rendering txt -> lit_parse (37 :: txt) = json_parse txt.
Proof.
  intros (st & j & ST & R & T & ->).
  rewrite (literal_value st ST j R T), (json_parse_print st ST j R T). reflexivity.
Qed.

(* ------------------------------------------------------------ the styles of the generator *)
Lemma wsn_indent n : wsn_ok (10 :: repeat 32 n) = true.
Proof. unfold wsn_ok. cbn [forallb]. induction n as [|n IH]; [reflexivity|]. cbn [repeat forallb] in *. exact IH. Qed.

(* encoding/json.MarshalIndent(v, "", ind): a line break and depth+1 (depth)
   copies of the indentation after an opening bracket or comma (before a closing
   bracket), `: ` after a key, nothing inside empty containers *)
Definition indent_style (k : nat) : style :=
  {| s_open := fun d => 10 :: repeat 32 (k * S d); s_cb := fun _ => []; s_ca := fun d => 10 :: repeat 32 (k * S d);
     s_colb := fun _ => []; s_cola := fun _ => [32]; s_close := fun d => 10 :: repeat 32 (k * d);
     s_empty := fun _ => [] |}.
Lemma indent_style_ok k : style_ok (indent_style k).
Proof. intro d. cbn [indent_style s_open s_cb s_ca s_colb s_cola s_close s_empty]. repeat split; try reflexivity; apply wsn_indent. Qed.

Definition const_style (o cb ca colb cola cl e : bytes) : style :=
  {| s_open := fun _ => o; s_cb := fun _ => cb; s_ca := fun _ => ca; s_colb := fun _ => colb;
     s_cola := fun _ => cola; s_close := fun _ => cl; s_empty := fun _ => e |}.
Lemma const_style_ok o cb ca colb cola cl e :
  wsn_ok o = true -> ws_ok cb = true -> wsn_ok ca = true -> ws_ok colb = true -> ws_ok cola = true ->
  wsn_ok cl = true -> wsn_ok e = true -> style_ok (const_style o cb ca colb cola cl e).
Proof. intros. intro d. cbn. auto 10. Qed.

(* any layout made of a line-break string and an indentation unit repeated once
   per level (tabs, CRLF line ends, ...) *)
Lemma wsn_app a b : wsn_ok a = true -> wsn_ok b = true -> wsn_ok (a ++ b) = true.
Proof. unfold wsn_ok. intros A B. rewrite forallb_app, A, B. reflexivity. Qed.
Lemma wsn_repeat u n : wsn_ok u = true -> wsn_ok (concat (repeat u n)) = true.
Proof. intro U. induction n as [|n IH]; [reflexivity|]. cbn [repeat concat]. apply wsn_app; assumption. Qed.

Definition layout_style (nl unit cola : bytes) : style :=
  {| s_open := fun d => nl ++ concat (repeat unit (S d)); s_cb := fun _ => [];
     s_ca := fun d => nl ++ concat (repeat unit (S d)); s_colb := fun _ => []; s_cola := fun _ => cola;
     s_close := fun d => nl ++ concat (repeat unit d); s_empty := fun _ => [] |}.
Lemma layout_style_ok nl unit cola : wsn_ok nl = true -> wsn_ok unit = true -> ws_ok cola = true ->
  style_ok (layout_style nl unit cola).
Proof.
  intros N U C d. cbn [layout_style s_open s_cb s_ca s_colb s_cola s_close s_empty].
  repeat split; try reflexivity; try exact C; apply wsn_app; try exact N; apply wsn_repeat; exact U.
Qed.
