(* C24 — proofs about the model of ParseFlags / args. *)
From Coq Require Import Lia List Arith.
From Murex Require Import Base.Outcome Base.Bytes Model.Flags Check.C24.

(* ------------------------------------------------------------------ *)
(* unfolding lemmas (scan and ref_chase recurse on the fuel) *)

Definition set_ignore (s : pstate) : pstate :=
  {| prev := prev s; flags := flags s; additional := additional s; ignore := true |}.

(* what the loop body does with a flag once its aliases are resolved *)
Definition flag_action (a : argspec) (conv : conv_t) (s : pstate) (q : bytes) : sres :=
  if allow_additional a && bytes_eqb q dd then Cont (set_ignore s)
  else if bytes_eqb (lookup (table a) q) ty_bool then
    Cont {| prev := prev s; flags := set_flag (flags s) q v_true;
            additional := additional s; ignore := ignore s |}
  else if nonempty (lookup (table a) q) then
    Cont {| prev := Some q; flags := flags s; additional := additional s; ignore := ignore s |}
  else match prev s with
       | Some pr => give_value a conv s pr q
       | None => if ignore_invalid a && allow_additional a then Cont (push_additional s q)
                 else Fail 2
       end.

Definition plain_action (a : argspec) (conv : conv_t) (s : pstate) (p : bytes) : sres :=
  match prev s with
  | Some pr => give_value a conv s pr p
  | None => if allow_additional a then
              Cont {| prev := None; flags := flags s; additional := additional s ++ [p];
                      ignore := strict_placement a |}
            else Fail 3
  end.

(* does the alias chase take a hop at p? *)
Definition hops (a : argspec) (p : bytes) : bool :=
  negb (allow_additional a && bytes_eqb p dd) && dash (lookup (table a) p).

Lemma ref_chase_eq a fuel p :
  ref_chase a fuel p =
  if hops a p then match fuel with O => None | S f => ref_chase a f (lookup (table a) p) end
  else Some p.
Proof.
  unfold hops. destruct fuel; cbn [ref_chase];
    destruct (allow_additional a && bytes_eqb p dd); cbn [negb andb];
    destruct (dash (lookup (table a) p)); reflexivity.
Qed.

Lemma scan_ignore a conv fuel s p : ignore s = true -> scan a conv fuel s p = Cont (push_additional s p).
Proof. intro H. destruct fuel; cbn [scan]; rewrite H; reflexivity. Qed.

Lemma scan_plain a conv fuel s p :
  ignore s = false -> dash p = false -> scan a conv fuel s p = plain_action a conv s p.
Proof. intros H1 H2. destruct fuel; cbn [scan]; rewrite H1, H2; reflexivity. Qed.

Lemma scan_chase a conv fuel : forall s p,
  ignore s = false -> dash p = true ->
  scan a conv fuel s p = match ref_chase a fuel p with
                         | None => Fail 5
                         | Some q => flag_action a conv s q
                         end.
Proof.
  induction fuel as [|f IH]; intros s p Hi Hd; destruct s as [pv fl ad ig];
    cbn [ignore] in Hi; subst ig; rewrite ref_chase_eq; unfold hops;
    cbn [scan ignore]; unfold flag_action, set_ignore; rewrite Hd.
  - destruct (allow_additional a && bytes_eqb p dd) eqn:C1; cbn [negb andb].
    + rewrite C1. reflexivity.
    + destruct (dash (lookup (table a) p)) eqn:C2; [reflexivity|]. rewrite C1. reflexivity.
  - destruct (allow_additional a && bytes_eqb p dd) eqn:C1; cbn [negb andb].
    + rewrite C1. reflexivity.
    + destruct (dash (lookup (table a) p)) eqn:C2.
      * rewrite (IH {| prev := pv; flags := fl; additional := ad; ignore := false |} _ eq_refl C2). reflexivity.
      * rewrite C1. reflexivity.
Qed.

(* ------------------------------------------------------------------ *)
(* the model is the reference parser *)

Definition oproj {A} (o : Outcome A) : option A := match o with Ok x => Some x | _ => None end.

(* once ignoreFlags is set everything else is appended verbatim *)
Lemma parse_ignore a conv : forall args s,
  ignore s = true ->
  parse_loop a conv s args = match prev s with
                             | Some _ => Err 4
                             | None => Ok (flags s, additional s ++ args)
                             end.
Proof.
  induction args as [|p rest IH]; intros s Hi; cbn [parse_loop].
  - rewrite app_nil_r. reflexivity.
  - rewrite (scan_ignore _ _ _ _ _ Hi). rewrite IH by exact Hi.
    cbn [push_additional prev flags additional]. rewrite <- app_assoc. reflexivity.
Qed.

Lemma refines_loop a conv : forall args s,
  ignore s = false ->
  oproj (parse_loop a conv s args) = ref_go a conv (prev s) (flags s) (additional s) args.
Proof.
  induction args as [|p rest IH]; intros s Hi.
  - cbn [parse_loop ref_go]. destruct (prev s); reflexivity.
  - cbn [parse_loop ref_go]. unfold classify_tok, ref_resolve.
    destruct (dash p) eqn:Hd.
    + rewrite (scan_chase _ _ _ _ _ Hi Hd).
      destruct (ref_chase a (length (table a)) p) as [q|]; [|reflexivity].
      unfold flag_action.
      destruct (allow_additional a && bytes_eqb q dd) eqn:C1.
      * rewrite parse_ignore by reflexivity. cbn [set_ignore prev flags additional].
        destruct (prev s); reflexivity.
      * destruct (bytes_eqb (lookup (table a) q) ty_bool) eqn:C2.
        { rewrite IH by exact Hi. reflexivity. }
        destruct (nonempty (lookup (table a) q)) eqn:C3.
        { rewrite IH by exact Hi. reflexivity. }
        destruct (prev s) as [pr|] eqn:Hp.
        { unfold give_value. destruct (conv (lookup (table a) pr) q) as [v|]; [|reflexivity].
          rewrite IH by exact Hi. reflexivity. }
        destruct (ignore_invalid a && allow_additional a); [|reflexivity].
        rewrite IH by exact Hi. cbn [push_additional prev flags additional]. rewrite Hp. reflexivity.
    + rewrite (scan_plain _ _ _ _ _ Hi Hd). unfold plain_action.
      destruct (prev s) as [pr|] eqn:Hp.
      * unfold give_value. destruct (conv (lookup (table a) pr) p) as [v|]; [|reflexivity].
        rewrite IH by exact Hi. reflexivity.
      * destruct (allow_additional a); [|reflexivity].
        destruct (strict_placement a) eqn:Hs.
        -- rewrite parse_ignore by reflexivity. cbn [prev flags additional oproj].
           rewrite <- app_assoc. reflexivity.
        -- rewrite IH by reflexivity. reflexivity.
Qed.

(* T1: for every table, switch setting, conversion function and argument list *)
Lemma flags_refines_reference a conv args :
  oproj (parse_flags a conv args) = ref_parse a conv args.
Proof. unfold parse_flags, ref_parse. apply (refines_loop a conv args st_init). reflexivity. Qed.

(* T2: errors are clean — the loop never panics and never runs out of fuel *)
Lemma parse_loop_clean a conv : forall args s,
  parse_loop a conv s args <> Panic /\ parse_loop a conv s args <> OutOfFuel.
Proof.
  induction args as [|p rest IH]; intro s; cbn [parse_loop].
  - destruct (prev s); split; discriminate.
  - destruct (scan a conv (length (table a)) s p); [apply IH|split; discriminate].
Qed.

Lemma error_is_clean a conv args :
  parse_flags a conv args <> Panic /\ parse_flags a conv args <> OutOfFuel.
Proof. apply parse_loop_clean. Qed.

(* T3: `--` makes the rest additional, verbatim, whatever it contains *)
Lemma double_dash_rest_additional a conv s rest :
  allow_additional a = true -> ignore s = false ->
  parse_loop a conv s (dd :: rest) =
  match prev s with
  | Some _ => Err 4                                  (* a value flag was still waiting *)
  | None => Ok (flags s, additional s ++ rest)
  end.
Proof.
  intros Ha Hi. cbn [parse_loop].
  assert (dash dd = true) as Hdd by reflexivity.
  rewrite (scan_chase _ _ _ _ dd Hi Hdd). rewrite ref_chase_eq. unfold hops.
  rewrite Ha. cbn [bytes_eqb dd N.eqb Pos.eqb andb negb].
  unfold flag_action. rewrite Ha. cbn [bytes_eqb dd N.eqb Pos.eqb andb].
  rewrite parse_ignore by reflexivity. reflexivity.
Qed.

(* ------------------------------------------------------------------ *)
(* alias chains: the bound of len(Flags) hops is exact *)

(* chain l p q: following aliases from p visits the flags l (in order) and ends at q *)
Inductive chain (a : argspec) : list bytes -> bytes -> bytes -> Prop :=
| chain_stop p : hops a p = false -> chain a [] p p
| chain_hop p l q : hops a p = true -> chain a l (lookup (table a) p) q -> chain a (p :: l) p q.

Lemma chase_chain a : forall fuel p q,
  ref_chase a fuel p = Some q -> exists l, chain a l p q /\ length l <= fuel.
Proof.
  induction fuel as [|f IH]; intros p q H; rewrite ref_chase_eq in H;
    destruct (hops a p) eqn:Hh; try discriminate.
  - injection H as <-. exists []. split; [constructor; exact Hh|cbn; lia].
  - apply IH in H. destruct H as [l [Hc Hl]]. exists (p :: l). split; [constructor; assumption|cbn; lia].
  - injection H as <-. exists []. split; [constructor; exact Hh|cbn; lia].
Qed.

Lemma chain_chase a l p q : chain a l p q -> forall fuel, length l <= fuel -> ref_chase a fuel p = Some q.
Proof.
  induction 1 as [p Hh|p l q Hh Hc IH]; intros fuel Hl; rewrite ref_chase_eq, Hh; [reflexivity|].
  destruct fuel as [|f]; [cbn in Hl; lia|]. apply IH. cbn in Hl. lia.
Qed.

Lemma chain_det a l p q : chain a l p q -> forall l' q', chain a l' p q' -> l = l' /\ q = q'.
Proof.
  induction 1 as [p Hh|p l q Hh Hc IH]; intros l' q' H';
    inversion H' as [p0 Hh0|p0 l0 q0 Hh0 Hc0]; subst; try congruence.
  - auto.
  - destruct (IH _ _ Hc0) as [-> ->]. auto.
Qed.

Lemma chain_suffix a : forall l1 x l2 p q, chain a (l1 ++ x :: l2) p q -> chain a (x :: l2) x q.
Proof.
  induction l1 as [|y l1 IH]; intros x l2 p q H; cbn [app] in H.
  - inversion H; subst. exact H.
  - inversion H; subst. eapply IH. eassumption.
Qed.

Lemma chain_nodup a l p q : chain a l p q -> NoDup l.
Proof.
  induction 1 as [p Hh|p l q Hh Hc IH]; constructor; [|exact IH].
  intro Hin. apply in_split in Hin. destruct Hin as [l1 [l2 ->]].
  pose proof (chain_suffix _ _ _ _ _ _ Hc) as Hs.
  assert (chain a (p :: l1 ++ p :: l2) p q) as Hfull by (constructor; assumption).
  destruct (chain_det _ _ _ _ Hs _ _ Hfull) as [E _].
  apply (f_equal (@length _)) in E. cbn [length] in E. rewrite app_length in E. cbn [length] in E. lia.
Qed.

Lemma lookup_in t p : lookup t p <> [] -> In p (map fst t).
Proof.
  induction t as [|[k v] r IH]; cbn [lookup map fst In]; [congruence|].
  destruct (bytes_eqb k p) eqn:E.
  - intros _. left. apply bytes_eqb_eq. exact E.
  - intro H. right. apply IH. exact H.
Qed.

Lemma hops_key a p : hops a p = true -> In p (map fst (table a)).
Proof.
  unfold hops. intro H. apply andb_prop in H. destruct H as [_ H]. apply lookup_in.
  intro E. rewrite E in H. discriminate.
Qed.

Lemma chain_keys a l p q : chain a l p q -> incl l (map fst (table a)).
Proof.
  induction 1 as [p Hh|p l q Hh Hc IH]; intros x Hin; [contradiction|].
  destruct Hin as [<-|Hin]; [apply hops_key; exact Hh|apply IH; exact Hin].
Qed.

Lemma chain_length a l p q : chain a l p q -> length l <= length (table a).
Proof.
  intro H. rewrite <- (map_length fst (table a)).
  apply NoDup_incl_length; [eapply chain_nodup; eassumption|eapply chain_keys; eassumption].
Qed.

(* T4a: the bound never rejects a loop-free chain *)
Lemma alias_bound_sufficient a l p q : chain a l p q -> ref_resolve a p = Some q.
Proof. intro H. unfold ref_resolve. eapply chain_chase; [exact H|eapply chain_length; exact H]. Qed.

(* T4b: the chase fails (a clean error) exactly when the aliases from p loop *)
Lemma alias_loop_iff_no_chain a p :
  ref_resolve a p = None <-> ~ exists l q, chain a l p q.
Proof.
  split.
  - intros H [l [q Hc]]. rewrite (alias_bound_sufficient _ _ _ _ Hc) in H. discriminate.
  - intro H. destruct (ref_resolve a p) as [q|] eqn:E; [|reflexivity].
    exfalso. apply H. unfold ref_resolve in E. apply chase_chain in E.
    destruct E as [l [Hc _]]. exists l, q. exact Hc.
Qed.

(* T4c: any larger bound gives the same answer: the result does not depend on the bound *)
Lemma alias_bound_irrelevant a p fuel :
  length (table a) <= fuel -> ref_chase a fuel p = ref_resolve a p.
Proof.
  intro Hf. destruct (ref_chase a fuel p) as [q|] eqn:E.
  - apply chase_chain in E. destruct E as [l [Hc _]]. symmetry. eapply alias_bound_sufficient; exact Hc.
  - destruct (ref_resolve a p) as [q|] eqn:E2; [|reflexivity].
    unfold ref_resolve in E2. apply chase_chain in E2. destruct E2 as [l [Hc Hl]].
    rewrite (chain_chase _ _ _ _ Hc fuel) in E by lia. discriminate.
Qed.

Lemma chase_result_stops a : forall fuel p q, ref_chase a fuel p = Some q -> hops a q = false.
Proof.
  induction fuel as [|f IH]; intros p q H; rewrite ref_chase_eq in H;
    destruct (hops a p) eqn:Hh; try discriminate.
  - injection H as <-. exact Hh.
  - eapply IH. exact H.
  - injection H as <-. exact Hh.
Qed.

(* ------------------------------------------------------------------ *)
(* the `args` builtin *)

Lemma args_never_panics a conv args :
  args_builtin a conv args <> Panic /\ args_builtin a conv args <> OutOfFuel.
Proof.
  unfold args_builtin. destruct (error_is_clean a conv args) as [H1 H2].
  destruct (parse_flags a conv args) as [[f ad]|k| |]; try congruence; split; discriminate.
Qed.

Lemma args_exposes_result a conv args :
  match parse_flags a conv args with
  | Ok (f, ad) => args_builtin a conv args =
                  Ok {| ao_flags := map (fun kv => (fst kv, json_kind (snd kv))) f;
                        ao_additional := ad; ao_error := false; ao_exit := 0 |}
  | _ => args_builtin a conv args =
         Ok {| ao_flags := []; ao_additional := []; ao_error := true; ao_exit := 1 |}
  end.
Proof.
  destruct (error_is_clean a conv args) as [H1 H2]. unfold args_builtin.
  destruct (parse_flags a conv args) as [[f ad]|k| |]; try reflexivity; congruence.
Qed.

(* ------------------------------------------------------------------ *)
(* reported values have the declared type, given that the conversion does *)

Section Typed.
  Variable a : argspec.
  Variable conv : conv_t.
  Hypothesis conv_typed : forall ty raw v,
    bytes_eqb ty ty_bool = false -> nonempty ty = true -> dash ty = false ->
    conv ty raw = Some v -> vt ty v = true.

  Definition prev_ok (s : pstate) : Prop :=
    forall pr, prev s = Some pr ->
      bytes_eqb (lookup (table a) pr) ty_bool = false /\ nonempty (lookup (table a) pr) = true
      /\ dash (lookup (table a) pr) = false.

  Definition typed_state (s : pstate) : Prop :=
    Forall (fun kv => value_typed a kv = true) (flags s) /\ prev_ok s.

  Lemma set_flag_forall (P : bytes * fval -> Prop) m k v :
    Forall P m -> P (k, v) -> Forall P (set_flag m k v).
  Proof.
    intros Hm Hk. induction Hm as [|[k' v'] r Hx Hr IH]; cbn [set_flag].
    - constructor; [exact Hk|constructor].
    - destruct (bytes_eqb k' k); [constructor; assumption|].
      destruct (bytes_ltb k k'); constructor; try assumption. constructor; assumption.
  Qed.

  Lemma give_value_typed s pr p s' :
    typed_state s -> prev s = Some pr -> give_value a conv s pr p = Cont s' -> typed_state s'.
  Proof.
    intros [Hf Hp] Hpr H. unfold give_value in H.
    destruct (conv (lookup (table a) pr) p) as [v|] eqn:E; [|discriminate].
    injection H as <-. destruct (Hp _ Hpr) as [H1 [H2 H3]]. split; cbn [flags prev].
    - apply set_flag_forall; [exact Hf|]. unfold value_typed. cbn [fst snd].
      eapply conv_typed; eassumption.
    - intros x Hx. discriminate.
  Qed.

  Lemma scan_typed s p s' :
    typed_state s -> scan a conv (length (table a)) s p = Cont s' -> typed_state s'.
  Proof.
    intros Ht H. destruct (ignore s) eqn:Hi.
    - rewrite scan_ignore in H by exact Hi. injection H as <-. exact Ht.
    - destruct (dash p) eqn:Hd.
      + rewrite (scan_chase _ _ _ _ _ Hi Hd) in H.
        destruct (ref_chase a (length (table a)) p) as [q|] eqn:E; [|discriminate].
        apply chase_result_stops in E. unfold hops in E. unfold flag_action in H.
        destruct (allow_additional a && bytes_eqb q dd) eqn:C1.
        { injection H as <-. exact Ht. }
        cbn [negb andb] in E.
        destruct (bytes_eqb (lookup (table a) q) ty_bool) eqn:C2.
        { injection H as <-. destruct Ht as [Hf Hp]. split; [|exact Hp]. cbn [flags].
          apply set_flag_forall; [exact Hf|]. unfold value_typed, vt. cbn [fst snd]. rewrite C2.
          cbn [v_true fv_kind fv_text]. rewrite bytes_eqb_refl. reflexivity. }
        destruct (nonempty (lookup (table a) q)) eqn:C3.
        { injection H as <-. destruct Ht as [Hf Hp]. split; [exact Hf|].
          intros pr Hpr. cbn [prev] in Hpr. injection Hpr as <-. auto. }
        destruct (prev s) as [pr|] eqn:Hp.
        { eapply give_value_typed; eassumption. }
        destruct (ignore_invalid a && allow_additional a); [|discriminate].
        injection H as <-. destruct Ht as [Hf Hp']. split; [exact Hf|].
        intros pr Hpr. cbn [push_additional prev] in Hpr. congruence.
      + rewrite (scan_plain _ _ _ _ _ Hi Hd) in H. unfold plain_action in H.
        destruct (prev s) as [pr|] eqn:Hp.
        { eapply give_value_typed; eassumption. }
        destruct (allow_additional a); [|discriminate].
        injection H as <-. destruct Ht as [Hf _]. split; [exact Hf|]. intros pr Hpr. discriminate.
  Qed.

  Lemma parse_loop_typed : forall args s f ad,
    typed_state s -> parse_loop a conv s args = Ok (f, ad) ->
    Forall (fun kv => value_typed a kv = true) f.
  Proof.
    induction args as [|p rest IH]; intros s f ad Ht H; cbn [parse_loop] in H.
    - destruct (prev s); [discriminate|]. injection H as <- _. apply Ht.
    - destruct (scan a conv (length (table a)) s p) as [s'|k] eqn:E; [|discriminate].
      eapply IH; [eapply scan_typed; eassumption|exact H].
  Qed.

  Lemma values_have_declared_type args f ad :
    parse_flags a conv args = Ok (f, ad) -> forallb (value_typed a) f = true.
  Proof.
    intro H. apply forallb_forall. apply Forall_forall.
    eapply parse_loop_typed; [|exact H]. split; [constructor|]. intros pr Hpr. discriminate.
  Qed.
End Typed.

(* ------------------------------------------------------------------ *)
(* headline *)

Lemma fval_eqb_refl v : fval_eqb v v = true.
Proof. unfold fval_eqb. rewrite N.eqb_refl, bytes_eqb_refl. reflexivity. Qed.

Lemma flags_eqb_refl f : flags_eqb f f = true.
Proof.
  induction f as [|kv r IH]; [reflexivity|]. unfold flags_eqb in *. cbn [list_eqb].
  unfold flag_eqb at 1. rewrite bytes_eqb_refl, fval_eqb_refl, IH. reflexivity.
Qed.

Lemma strs_eqb_refl l : strs_eqb l l = true.
Proof.
  induction l as [|x r IH]; [reflexivity|]. unfold strs_eqb in *. cbn [list_eqb].
  rewrite bytes_eqb_refl, IH. reflexivity.
Qed.

Lemma model_meets_spec a args oracle :
  (forall ty raw v, bytes_eqb ty ty_bool = false -> nonempty ty = true -> dash ty = false ->
                    oracle_fn oracle ty raw = Some v -> vt ty v = true) ->
  spec_ok {| c_spec := a; c_args := args; c_oracle := oracle;
             c_pf := pf_of (parse_flags a (oracle_fn oracle) args);
             c_ab := ab_of (args_builtin a (oracle_fn oracle) args) |} = true.
Proof.
  intro Hc. unfold spec_ok. cbn [c_spec c_args c_oracle c_pf c_ab].
  pose proof (flags_refines_reference a (oracle_fn oracle) args) as Href.
  pose proof (error_is_clean a (oracle_fn oracle) args) as [Hp Ho].
  pose proof (args_exposes_result a (oracle_fn oracle) args) as Hx.
  pose proof (values_have_declared_type a (oracle_fn oracle) Hc args) as Ht.
  destruct (parse_flags a (oracle_fn oracle) args) as [[f ad]|k| |]; try congruence.
  - cbn [oproj] in Href. rewrite <- Href, Hx. cbn [pf_of ab_of].
    rewrite (Ht f ad eq_refl). cbn [ao_error ao_exit ao_flags ao_additional negb].
    rewrite !flags_eqb_refl, !strs_eqb_refl. reflexivity.
  - cbn [oproj] in Href. rewrite <- Href, Hx. reflexivity.
Qed.
