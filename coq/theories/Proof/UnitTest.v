(* C31 — proofs about Model/UnitTest.v *)
From Murex Require Import Base.Bytes Model.UnitTest Check.C31.

Section P.
  Variable rx : bytes -> bytes -> rx_result.
  Variable unmarshal : bytes -> bytes -> shape.

  Lemma if_passed (c passed : bool) : (if c then passed else false) = passed && c.
  Proof. destruct c, passed; reflexivity. Qed.

  Lemma aux_block_and code r passed :
    aux_block code r passed = passed && (is_empty code || blk_silent_ok r).
  Proof.
    unfold aux_block. destruct (is_empty code); cbn [orb].
    - destruct passed; reflexivity.
    - destruct r as [|n [|]]; destruct passed; reflexivity.
  Qed.

  Lemma check_block_and code r passed :
    check_block code r passed = passed && (is_empty code || blk_ok r).
  Proof.
    unfold check_block. destruct (is_empty code); cbn [orb].
    - destruct passed; reflexivity.
    - destruct r as [|n [|]]; cbn [blk_ok]; try destruct (Z.eqb n 0); destruct passed; reflexivity.
  Qed.

  Lemma check_regex_and pat subj passed :
    check_regex rx pat subj passed = passed && (is_empty pat || rx_is_match (rx pat subj)).
  Proof.
    unfold check_regex. destruct (is_empty pat); cbn [orb].
    - destruct passed; reflexivity.
    - destruct (rx pat subj); destruct passed; reflexivity.
  Qed.

  Lemma check_type_and want got passed :
    check_type want got passed = passed && (is_empty want || bytes_eqb got want).
  Proof.
    unfold check_type. destruct (is_empty want); cbn [orb].
    - destruct passed; reflexivity.
    - destruct (bytes_eqb got want); destruct passed; reflexivity.
  Qed.

  Lemma bytes_eqb_nil s : bytes_eqb s [] = is_empty s.
  Proof. destruct s; reflexivity. Qed.

  Lemma stderr_match_and (stderr m r : bytes) (passed : bool) :
    (if bytes_eqb stderr m then passed
     else if negb (is_empty m) || is_empty r then false else passed)
    = passed && (if negb (is_empty m) then bytes_eqb stderr m
                 else if negb (is_empty r) then true else is_empty stderr).
  Proof.
    destruct m as [|x m].
    - rewrite bytes_eqb_nil. cbn [is_empty negb orb].
      destruct (is_empty stderr), (is_empty r), passed; reflexivity.
    - cbn [is_empty negb orb]. destruct (bytes_eqb stderr (x :: m)), passed; reflexivity.
  Qed.

  Lemma if_assert (c t passed : bool) :
    (if c then (if t then passed else false) else passed) = passed && (negb c || t).
  Proof. destruct c, t, passed; reflexivity. Qed.

  Lemma if_match (m : bytes) (e passed : bool) :
    (if is_empty m then passed else if e then passed else false) = passed && (is_empty m || e).
  Proof. destruct (is_empty m), e, passed; reflexivity. Qed.

  (* both sides are conjunctions of the same atoms in different order: split on one atom at
     a time; when it is false both sides collapse to false *)
  Ltac kill_atom :=
    match goal with
    | |- context [andb _ ?x] =>
      destruct x;
      [ cbn [andb]; rewrite ?Bool.andb_true_r
      | repeat (progress (cbn [andb]; rewrite ?Bool.andb_false_r)); reflexivity ]
    end.

  (* the verdict computed the way the code computes it = the conjunction of the assertions *)
  Lemma verdict_all_hold p a : verdict rx unmarshal p a = all_hold rx unmarshal p a.
  Proof.
    unfold verdict, all_hold, assertions. cbn [forallb].
    rewrite !check_type_and, !check_block_and, !check_regex_and, stderr_match_and,
            !if_assert, !if_match, !aux_block_and, if_passed.
    unfold test_is_array, test_is_map, test_gte.
    fold (sh_is_array (unmarshal (a_stdout a) (a_out_type a))).
    fold (sh_is_map (unmarshal (a_stdout a) (a_out_type a))).
    fold (sh_len_ge (unmarshal (a_stdout a) (a_out_type a)) (p_out_gt p)).
    fold (sh_is_array (unmarshal (a_stderr a) (a_err_type a))).
    fold (sh_is_map (unmarshal (a_stderr a) (a_err_type a))).
    destruct (a_fn_ran a); cbn [negb andb]; [|reflexivity].
    repeat kill_atom. reflexivity.
  Qed.

  Lemma verdict_iff p a :
    verdict rx unmarshal p a = true <-> Forall (fun b => b = true) (assertions rx unmarshal p a).
  Proof.
    rewrite verdict_all_hold. unfold all_hold. rewrite forallb_forall, Forall_forall. tauto.
  Qed.

  (* no assertion is ignored: whichever one does not hold, the verdict is "failed" *)
  Lemma any_failing_assertion_fails p a i :
    nth i (assertions rx unmarshal p a) true = false -> verdict rx unmarshal p a = false.
  Proof.
    intro H. destruct (verdict rx unmarshal p a) eqn:V; [|reflexivity].
    apply verdict_iff in V. rewrite Forall_forall in V.
    destruct (Nat.lt_ge_cases i (length (assertions rx unmarshal p a))) as [L|L].
    - rewrite (V _ (nth_In _ true L)) in H. discriminate.
    - rewrite nth_overflow in H by exact L. discriminate.
  Qed.

  Lemma run_exit_zero_iff p a : run_exit rx unmarshal p a = 0%Z <-> verdict rx unmarshal p a = true.
  Proof. unfold run_exit. destruct (verdict rx unmarshal p a); split; congruence. Qed.
End P.

(* the functions a case carries answer exactly the case's recorded oracle values *)
Lemma model_meets_spec p a ro re so se : spec_ok (mk_case p a ro re so se) = true.
Proof.
  unfold spec_ok, mk_case. cbn [c_obs_passed c_obs_exit c_plan c_actual].
  set (c0 := {| c_plan := p; c_actual := a; c_rx_out := ro; c_rx_err := re; c_sh_out := so;
                c_sh_err := se; c_obs_passed := false; c_obs_exit := 0%Z |}).
  set (c1 := {| c_plan := p |}).
  assert (rx_of c1 = rx_of c0) as -> by reflexivity.
  assert (um_of c1 = um_of c0) as -> by reflexivity.
  rewrite verdict_all_hold, Bool.eqb_reflx. unfold run_exit. rewrite verdict_all_hold.
  destruct (all_hold _ _ p a); reflexivity.
Qed.
