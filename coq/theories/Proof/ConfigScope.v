(* C25 — proofs: the config stack machine (Model/ConfigScope.v) refines the
   stack-free reference semantics (Check/C25.v) for op trees of any depth, on
   every state whose local tables hold only non-global declared options (an
   invariant of every reachable state), and the scoping laws follow. *)
From Coq Require Import Lia.
From Murex Require Import Base.Outcome Base.Bytes Model.Scope Model.ConfigScope Check.C25.
From Murex Require Import Proof.Scope.   (* t_get_set_same, t_get_set_other *)

Section CopInd.
  Variable P : cop -> Prop.
  Hypothesis HSet : forall t k v, P (CSet t k v).
  Hypothesis HDefault : forall t k, P (CDefault t k).
  Hypothesis HGet : forall t k, P (CGet t k).
  Hypothesis HCall : forall body, Forall P body -> P (CCall body).
  Hypothesis HBlock : forall body, Forall P body -> P (CBlock body).

  Fixpoint cop_tree_ind (o : cop) : P o :=
    let all := fix all (l : list cop) : Forall P l :=
      match l with
      | [] => Forall_nil P
      | a :: l' => Forall_cons a (cop_tree_ind a) (all l')
      end in
    match o with
    | CSet t k v => HSet t k v
    | CDefault t k => HDefault t k
    | CGet t k => HGet t k
    | CCall body => HCall body (all body)
    | CBlock body => HBlock body (all body)
    end.
End CopInd.

(* invariant: a local table holds only declared, non-global options *)
Definition lok (ds : decls) (l : table) : Prop :=
  forall k, t_get l k <> None -> exists d, d_get ds k = Some d /\ d_global d = false.
Definition hok (ds : decls) (h : option table) : Prop :=
  match h with Some l => lok ds l | None => True end.

Lemma lok_empty ds : lok ds t_empty.
Proof. intros k H. exfalso. apply H. reflexivity. Qed.

Lemma lok_set ds l k v d :
  lok ds l -> d_get ds k = Some d -> d_global d = false -> lok ds (t_set l k v).
Proof.
  intros L D G k' H. destruct (N.eq_dec k' k) as [->|NE].
  - exists d. split; assumption.
  - rewrite t_get_set_other in H by exact NE. apply L. exact H.
Qed.

Lemma cget_is_spec ds s h c k :
  hok ds h -> cget ds (cmk s h c) k = spec_cget ds (s, h) k.
Proof.
  intro H. unfold cget, spec_cget, session_value, cmk. cbn [here sess fst snd].
  destruct h as [l|].
  - destruct (t_get l k) as [v|] eqn:E.
    + assert (N : t_get l k <> None) by (rewrite E; discriminate).
      destruct (H k N) as [d [D G]]. rewrite D, G. reflexivity.
    + destruct (d_get ds k) as [d|]; [|reflexivity].
      destruct (d_global d); destruct (t_get s k); reflexivity.
  - destruct (d_get ds k) as [d|]; [|reflexivity].
    destruct (d_global d); destruct (t_get s k); reflexivity.
Qed.

Definition lift (c : list (option table)) (r : option sc) : option cstate :=
  match r with Some (s, h) => Some (cmk s h c) | None => None end.

Lemma cset_is_spec ds s h c k v :
  cset ds (cmk s h c) k v = lift c (spec_cset ds (s, h) k v).
Proof.
  unfold cset, spec_cset, cmk. cbn [here sess outer fst snd].
  destruct h as [l|]; destruct (d_get ds k) as [d|]; try reflexivity.
  destruct (d_global d); reflexivity.
Qed.

Lemma spec_cset_hok ds s h k v s' h' :
  hok ds h -> spec_cset ds (s, h) k v = Some (s', h') -> hok ds h'.
Proof.
  unfold spec_cset. cbn [fst snd]. intros H E.
  destruct (d_get ds k) as [d|] eqn:D; [|discriminate].
  destruct h as [l|].
  - destruct (d_global d) eqn:G; inversion E; subst.
    + exact H.
    + cbn [hok]. eapply lok_set; eassumption.
  - inversion E; subst. exact I.
Qed.

Definition cinj (c : list (option table)) (r : sc * trace) : cstate * trace :=
  (cmk (fst (fst r)) (snd (fst r)) c, snd r).

Lemma event_is_spec tag c r s h :
  ok_event tag (lift c r) (cmk s h c) = cinj c (spec_event tag r (s, h)).
Proof. destruct r as [[s' h']|]; reflexivity. Qed.

Lemma spec_event_hok ds tag r s h :
  hok ds h -> (forall s' h', r = Some (s', h') -> hok ds h') ->
  hok ds (snd (fst (spec_event tag r (s, h)))).
Proof.
  intros H K. destruct r as [[s' h']|]; cbn [spec_event fst snd]; [eapply K; reflexivity|exact H].
Qed.

Definition crefines (ds : decls) (o : cop) : Prop :=
  forall s h c, hok ds h ->
    cstep ds o (cmk s h c) = cinj c (cspec ds o (s, h)) /\
    hok ds (snd (fst (cspec ds o (s, h)))).

Lemma cseq_refines ds body :
  Forall (crefines ds) body ->
  forall s h c, hok ds h ->
    cseq (cstep ds) body (cmk s h c) = cinj c (cseq (cspec ds) body (s, h)) /\
    hok ds (snd (fst (cseq (cspec ds) body (s, h)))).
Proof.
  intro F. induction F as [|o body Ho Hb IH]; intros s h c H.
  - split; [reflexivity|exact H].
  - cbn [cseq]. destruct (Ho s h c H) as [E1 K1]. rewrite E1. unfold cinj at 1.
    destruct (cspec ds o (s, h)) as [[s1 h1] t1]. cbn [fst snd] in *.
    destruct (IH s1 h1 c K1) as [E2 K2]. rewrite E2. unfold cinj.
    destruct (cseq (cspec ds) body (s1, h1)) as [[s2 h2] t2]. cbn [fst snd] in *.
    split; [reflexivity|exact K2].
Qed.

Lemma cinj_pop c (h : option table) (r : sc * trace) :
  (let '(s', tr) := cinj (h :: c) r in (cpop s', tr)) =
  cinj c (let '(s', tr) := r in ((fst s', h), tr)).
Proof. destruct r as [[s1 h1] t1]. reflexivity. Qed.

Lemma cstep_refines ds : forall o, crefines ds o.
Proof.
  induction o as [t k v|t k|t k|body IH|body IH] using cop_tree_ind; intros s h c H.
  - cbn [cstep cspec]. rewrite cset_is_spec. split; [apply event_is_spec|].
    apply spec_event_hok; [exact H|]. intros s' h' E. eapply spec_cset_hok; eassumption.
  - cbn [cstep cspec]. unfold cdefault.
    destruct (d_get ds k) as [d|] eqn:D.
    + rewrite cset_is_spec. split; [apply event_is_spec|].
      apply spec_event_hok; [exact H|]. intros s' h' E. eapply spec_cset_hok; eassumption.
    + split; [reflexivity|exact H].
  - cbn [cstep cspec]. rewrite cget_is_spec by exact H. split; [reflexivity|exact H].
  - cbn [cstep cspec fst snd]. change (cpush (cmk s h c)) with (cmk s (Some t_empty) (h :: c)).
    destruct (cseq_refines ds body IH s (Some t_empty) (h :: c) (lok_empty ds)) as [E K].
    rewrite E. split; [apply cinj_pop|].
    destruct (cseq (cspec ds) body (s, Some t_empty)) as [[s1 h1] t1]. exact H.
  - cbn [cstep cspec]. apply cseq_refines; assumption.
Qed.

Lemma call_refine ds body : Forall (crefines ds) body.
Proof. induction body; constructor; [apply cstep_refines|assumption]. Qed.

(* Full refinement, any caller stack, any depth; the invariant is kept. *)
Theorem crun_state_refines ds ops s h c :
  hok ds h ->
  crun_state ds ops (cmk s h c) = cinj c (cseq (cspec ds) ops (s, h)) /\
  hok ds (snd (fst (cseq (cspec ds) ops (s, h)))).
Proof. intro H. apply cseq_refines; [apply call_refine|exact H]. Qed.

Lemma crun_is_spec ds ops : crun ds ops = cspec_trace ds ops.
Proof.
  unfold crun, cspec_trace, cinit.
  destruct (crun_state_refines ds ops (session_of ds) None [] I) as [E _].
  rewrite E. reflexivity.
Qed.

Lemma cevent_eqb_refl e : event_eqb e e = true.
Proof.
  destruct e as [t [v|]]; unfold event_eqb; cbn [fst snd option_eqb];
    rewrite ?N.eqb_refl; reflexivity.
Qed.

Lemma ctrace_eqb_refl t : trace_eqb t t = true.
Proof.
  induction t as [|e t IH]; [reflexivity|].
  unfold trace_eqb in *. cbn [list_eqb]. rewrite cevent_eqb_refl, IH. reflexivity.
Qed.

Lemma cmodel_meets_spec ds ops :
  spec_ok {| c_decls := ds; c_ops := ops; c_status := 0; c_obs := crun ds ops |} = true.
Proof.
  unfold spec_ok. cbn [c_status c_decls c_ops c_obs]. rewrite crun_is_spec, ctrace_eqb_refl.
  reflexivity.
Qed.

(* ---- scoping laws (on the machine) ---- *)

(* The caller's own overrides and all outer scopes are as they were after a call. *)
Lemma call_keeps_caller ds body s :
  here (fst (cstep ds (CCall body) s)) = here s /\ outer (fst (cstep ds (CCall body) s)) = outer s.
Proof.
  destruct s as [s h c]. cbn [cstep].
  assert (K : forall b st, outer (fst (cseq (cstep ds) b st)) = outer st).
  { assert (ST : forall o, forall st, outer (fst (cstep ds o st)) = outer st).
    { induction o as [t k v|t k|t k|b IH|b IH] using cop_tree_ind; intro st.
      - cbn [cstep]. unfold cset. destruct (here st); destruct (d_get ds k) as [d|]; try reflexivity.
        destruct (d_global d); reflexivity.
      - cbn [cstep]. unfold cdefault, cset. destruct (d_get ds k) as [d|]; [|reflexivity].
        destruct (here st); [destruct (d_global d)|]; reflexivity.
      - reflexivity.
      - cbn [cstep].
        assert (Q : forall st0, outer (fst (cseq (cstep ds) b st0)) = outer st0).
        { induction IH as [|o b Ho Hb IHb]; intro st0; [reflexivity|].
          cbn [cseq]. specialize (Ho st0). destruct (cstep ds o st0) as [s1 t1]. cbn [fst] in Ho.
          specialize (IHb s1). destruct (cseq (cstep ds) b s1) as [s2 t2]. cbn [fst] in *. congruence. }
        specialize (Q (cpush st)). destruct (cseq (cstep ds) b (cpush st)) as [s1 t1]. cbn [fst] in *.
        unfold cpop. rewrite Q. unfold cpush. cbn [outer cmk]. reflexivity.
      - cbn [cstep].
        induction IH as [|o b Ho Hb IHb] in st |- *; [reflexivity|].
        cbn [cseq]. specialize (Ho st). destruct (cstep ds o st) as [s1 t1]. cbn [fst] in Ho.
        specialize (IHb s1). destruct (cseq (cstep ds) b s1) as [s2 t2]. cbn [fst] in *. congruence. }
    induction b as [|o b IHb]; intro st; [reflexivity|].
    cbn [cseq]. specialize (ST o st). destruct (cstep ds o st) as [s1 t1]. cbn [fst] in ST.
    specialize (IHb s1). destruct (cseq (cstep ds) b s1) as [s2 t2]. cbn [fst] in *. congruence. }
  specialize (K body (cpush {| sess := s; here := h; outer := c |})).
  destruct (cseq (cstep ds) body _) as [s1 t1]. cbn [fst] in *.
  unfold cpop. rewrite K. unfold cpush. cbn [outer here cmk]. split; reflexivity.
Qed.

(* ops that touch only non-global declared options, at any depth *)
Fixpoint local_only (ds : decls) (o : cop) : bool :=
  match o with
  | CSet _ k _ | CDefault _ k =>
      match d_get ds k with Some d => negb (d_global d) | None => true end
  | CGet _ _ => true
  | CCall body | CBlock body => forallb (local_only ds) body
  end.

Lemma local_only_keeps_session ds : forall o, local_only ds o = true ->
  forall s h, h <> None -> fst (fst (cspec ds o (s, h))) = s /\ snd (fst (cspec ds o (s, h))) <> None.
Proof.
  assert (SEQ : forall body,
            Forall (fun o => local_only ds o = true -> forall s h, h <> None ->
                     fst (fst (cspec ds o (s, h))) = s /\ snd (fst (cspec ds o (s, h))) <> None) body ->
            forallb (local_only ds) body = true -> forall s h, h <> None ->
            fst (fst (cseq (cspec ds) body (s, h))) = s /\ snd (fst (cseq (cspec ds) body (s, h))) <> None).
  { intros body F. induction F as [|o body Ho Hb IH]; intros L s h N; [split; [reflexivity|exact N]|].
    cbn [forallb] in L. apply andb_true_iff in L as [L1 L2]. cbn [cseq].
    destruct (Ho L1 s h N) as [E1 N1]. destruct (cspec ds o (s, h)) as [[s1 h1] t1]. cbn [fst snd] in *. subst s1.
    destruct (IH L2 s h1 N1) as [E2 N2]. destruct (cseq (cspec ds) body (s, h1)) as [[s2 h2] t2].
    cbn [fst snd] in *. split; assumption. }
  induction o as [t k v|t k|t k|body IH|body IH] using cop_tree_ind; intros L s h N; cbn [local_only] in L.
  - cbn [cspec]. unfold spec_cset. cbn [fst snd]. destruct (d_get ds k) as [d|]; [|split; [reflexivity|exact N]].
    destruct h as [l|]; [|contradiction]. destruct (d_global d); [discriminate|].
    cbn [spec_event fst snd]. split; [reflexivity|discriminate].
  - cbn [cspec]. unfold spec_cset. cbn [fst snd]. destruct (d_get ds k) as [d|]; [|split; [reflexivity|exact N]].
    destruct h as [l|]; [|contradiction]. destruct (d_global d); [discriminate|].
    cbn [spec_event fst snd]. split; [reflexivity|discriminate].
  - split; [reflexivity|exact N].
  - cbn [cspec fst snd].
    assert (NE : Some t_empty <> None) by discriminate.
    destruct (SEQ body IH L s (Some t_empty) NE) as [E _].
    destruct (cseq (cspec ds) body (s, Some t_empty)) as [[s1 h1] t1]. cbn [fst snd] in *.
    split; assumption.
  - cbn [cspec]. apply SEQ; assumption.
Qed.

(* local_set_is_call_local: a call that (at any depth) sets/defaults only
   non-global options leaves the whole configuration state as it was *)
Lemma local_set_is_call_local ds body s h c :
  hok ds h -> forallb (local_only ds) body = true ->
  fst (cstep ds (CCall body) (cmk s h c)) = cmk s h c.
Proof.
  intros H L. destruct (cstep_refines ds (CCall body) s h c H) as [E _]. rewrite E.
  assert (NE : Some t_empty <> None) by discriminate.
  assert (K := local_only_keeps_session ds (CCall body) L s (Some t_empty) NE).
  cbn [cspec fst snd] in *. destruct (cseq (cspec ds) body (s, Some t_empty)) as [[s1 h1] t1].
  cbn [fst snd] in *. destruct K as [-> _]. reflexivity.
Qed.

Fixpoint cnest (n : nat) (ops : list cop) : list cop :=
  match n with O => ops | S n' => [CCall (cnest n' ops)] end.

Lemma cnest_get_sees_session ds n t k : forall s h c,
  snd (crun_state ds (cnest (S n) [CGet t k]) (cmk s h c)) =
  [(t, spec_cget ds (s, Some t_empty) k)].
Proof.
  induction n as [|n IH]; intros s h c.
  - unfold crun_state. cbn [cnest cseq cstep]. unfold cpush. cbn [sess here outer cmk snd app].
    change {| sess := s; here := Some t_empty; outer := h :: c |} with (cmk s (Some t_empty) (h :: c)).
    rewrite cget_is_spec by apply lok_empty. reflexivity.
  - change (cnest (S (S n)) [CGet t k]) with [CCall (cnest (S n) [CGet t k])].
    unfold crun_state in *. cbn [cseq cstep]. unfold cpush. cbn [sess here outer cmk].
    specialize (IH s (Some t_empty) (h :: c)). unfold cmk in IH.
    destruct (cseq (cstep ds) (cnest (S n) [CGet t k]) _) as [s1 t1]. cbn [snd] in *.
    rewrite IH. reflexivity.
Qed.

(* other_calls_see_session_value: at any call depth below, a get yields the
   session value (or default), whatever overrides the caller holds *)
Lemma other_calls_see_session_value ds n t k d s h c :
  d_get ds k = Some d ->
  snd (crun_state ds (cnest (S n) [CGet t k]) (cmk s h c)) =
  [(t, Some (match t_get s k with Some v => v | None => d_default d end))].
Proof.
  intro D. rewrite cnest_get_sees_session. unfold spec_cget, session_value. rewrite D. cbn [fst snd].
  destruct (d_global d); reflexivity.
Qed.

(* a caller's override of a non-global option is not inherited by callees *)
Lemma override_not_inherited ds n t1 t2 k v d s l c :
  d_get ds k = Some d -> d_global d = false ->
  snd (crun_state ds (cnest (S n) [CGet t2 k]) (fst (cstep ds (CSet t1 k v) (cmk s (Some l) c)))) =
  [(t2, Some (match t_get s k with Some v0 => v0 | None => d_default d end))].
Proof.
  intros D G. cbn [cstep]. unfold cset. cbn [here sess outer cmk]. rewrite D, G. cbn [ok_event fst].
  apply other_calls_see_session_value. exact D.
Qed.

(* global_option_seen_everywhere: setting a global option in ANY scope is seen
   in the same scope and at every call depth below *)
Lemma global_option_seen_everywhere ds n t1 t2 k v d s h c :
  hok ds h -> d_get ds k = Some d -> d_global d = true ->
  let st := fst (cstep ds (CSet t1 k v) (cmk s h c)) in
  cget ds st k = Some v /\
  snd (crun_state ds (cnest (S n) [CGet t2 k]) st) = [(t2, Some v)].
Proof.
  intros H D G.
  assert (ST : fst (cstep ds (CSet t1 k v) (cmk s h c)) = cmk (t_set s k v) h c).
  { cbn [cstep]. unfold cset. cbn [here sess outer cmk]. rewrite D.
    destruct h as [l|]; [rewrite G|]; reflexivity. }
  cbn zeta. rewrite ST.
  split.
  - rewrite cget_is_spec by exact H. unfold spec_cget, session_value. rewrite D, G. cbn [fst].
    rewrite t_get_set_same. reflexivity.
  - rewrite (other_calls_see_session_value ds n t2 k d _ _ _ D). rewrite t_get_set_same. reflexivity.
Qed.

(* session_set_seen_everywhere: a setting made at session level is seen at
   session level and at every call depth below, for global and non-global options *)
Lemma session_set_seen_everywhere ds n t1 t2 k v d s c :
  d_get ds k = Some d ->
  let st := fst (cstep ds (CSet t1 k v) (cmk s None c)) in
  cget ds st k = Some v /\
  snd (crun_state ds (cnest (S n) [CGet t2 k]) st) = [(t2, Some v)].
Proof.
  intro D. cbn [cstep]. unfold cset. cbn [here sess outer cmk]. rewrite D. cbn [ok_event fst]. split.
  - unfold cget. cbn [here sess cmk]. rewrite D, t_get_set_same. reflexivity.
  - rewrite (other_calls_see_session_value ds n t2 k d _ _ _ D). rewrite t_get_set_same. reflexivity.
Qed.

(* default_restores_in_scope: after `config default`, a get in the same scope
   yields the declared default; for a non-global option inside a call the
   session table is untouched *)
Lemma default_restores_in_scope ds t k d s h c :
  hok ds h -> d_get ds k = Some d ->
  let st := fst (cstep ds (CDefault t k) (cmk s h c)) in
  cget ds st k = Some (d_default d) /\
  (d_global d = false -> h <> None -> sess st = s).
Proof.
  intros H D. cbn [cstep]. unfold cdefault. rewrite D. unfold cset. cbn [here sess outer cmk]. rewrite D.
  destruct h as [l|].
  - destruct (d_global d) eqn:G; cbn [ok_event fst]; split.
    + rewrite cget_is_spec by exact H. unfold spec_cget, session_value. rewrite D, G. cbn [fst].
      rewrite t_get_set_same. reflexivity.
    + intros; discriminate.
    + unfold cget. cbn [here cmk]. rewrite t_get_set_same. reflexivity.
    + intros; reflexivity.
  - cbn [ok_event fst]. split.
    + unfold cget. cbn [here sess cmk]. rewrite D, t_get_set_same. reflexivity.
    + intros _ N. contradiction.
Qed.

(* undefined options: get, set and default all fail and change nothing *)
Lemma undefined_option_errors ds t k v s :
  d_get ds k = None -> (match here s with Some l => t_get l k = None | None => True end) ->
  cstep ds (CGet t k) s = (s, [(t, None)]) /\
  cstep ds (CSet t k v) s = (s, [(t, None)]) /\
  cstep ds (CDefault t k) s = (s, [(t, None)]).
Proof.
  intros D L. cbn [cstep]. unfold cget, cset, cdefault. rewrite D.
  destruct (here s) as [l|]; [rewrite L|]; repeat split; reflexivity.
Qed.
