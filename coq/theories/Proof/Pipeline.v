(* C03 — proofs about Model/Pipeline.v: steps of different stages commute
   (Kahn determinacy), so the final sinks and exit number do not depend on the
   schedule; programs are sequential compositions of their pipelines. *)
From Coq Require Import List Arith Lia Bool ZArith NArith.
Import ListNotations.
From Murex Require Import Base.Outcome Base.Bytes Model.Pipeline Proof.Confluence.

(* ---------- lists with point updates ---------- *)

Lemma length_upd {A} (l : list A) i f : length (upd l i f) = length l.
Proof. revert i; induction l as [|x l IH]; intros [|i]; simpl; auto. Qed.

Lemma nth_error_upd {A} (l : list A) i f k :
  nth_error (upd l i f) k = if Nat.eqb i k then option_map f (nth_error l k) else nth_error l k.
Proof.
  revert i k; induction l as [|x l IH]; intros [|i] [|k]; simpl;
    try (destruct (Nat.eqb _ _); reflexivity); try reflexivity.
  apply IH.
Qed.

Lemma nth_error_ext' {A} (l l' : list A) :
  (forall k, nth_error l k = nth_error l' k) -> l = l'.
Proof.
  revert l'; induction l as [|x l IH]; intros [|y l'] H.
  - reflexivity.
  - specialize (H 0). discriminate.
  - specialize (H 0). discriminate.
  - f_equal.
    + specialize (H 0). simpl in H. congruence.
    + apply IH. intro k. exact (H (S k)).
Qed.

Lemma nth_error_Some_lt {A} (l : list A) k x : nth_error l k = Some x -> k < length l.
Proof. intro H. apply nth_error_Some. congruence. Qed.

Lemma nth_error_lt_Some {A} (l : list A) k : k < length l -> exists x, nth_error l k = Some x.
Proof.
  intro H. destruct (nth_error l k) eqn:E; [eauto|].
  apply nth_error_None in E. lia.
Qed.

Lemma nth_nth_error {A} (l : list A) k d :
  nth k l d = match nth_error l k with Some x => x | None => d end.
Proof. revert k; induction l as [|x l IH]; intros [|k]; simpl; auto. Qed.

Ltac eqb_cases :=
  repeat match goal with
  | |- context [Nat.eqb ?a ?b] => destruct (Nat.eqb_spec a b)
  | H : context [Nat.eqb ?a ?b] |- _ => destruct (Nat.eqb_spec a b)
  end.

Section PipelineProofs.
  Variable St : Type.
  Variable step : St -> action St.
  (* quiet s: the stage can never write to stderr again *)
  Variable quiet : St -> bool.
  Hypothesis quiet_ok : forall s, quiet s = true ->
    match step s with
    | ARead k => forall o, quiet (k o) = true
    | AOut _ s' => quiet s' = true
    | AErr _ _ => False
    | AExit _ => True
    end.

  Notation config := (config St).
  Notation fire := (fire St step).
  Notation effect_of := (effect_of St step).
  Notation apply_effect := (apply_effect St).

  (* at most one stage of the pipeline is not quiet *)
  Definition pairwise_quiet (l : list St) : Prop :=
    forall i j si sj, i <> j -> nth_error l i = Some si -> nth_error l j = Some sj ->
      quiet si = true \/ quiet sj = true.

  Definition wf (c : config) : Prop :=
    length (exs c) = length (sts c) /\ length (bufs c) = S (length (sts c)).

  Definition Inv (c : config) : Prop := wf c /\ pairwise_quiet (sts c).

  (* ---- facts about one effect ---- *)

  Lemma effect_of_inv j c e : effect_of j c = Some e ->
    exists s buf, nth_error (sts c) j = Some s /\ nth_error (exs c) j = Some None /\
                  nth_error (bufs c) j = Some buf /\
                  (e_pop St e = true -> buf <> []) /\
                  (quiet s = true -> e_err St e = [] /\ quiet (e_st St e) = true).
  Proof.
    unfold Pipeline.effect_of. intro H.
    destruct (nth_error (sts c) j) as [s|] eqn:Es; [|discriminate].
    destruct (nth_error (exs c) j) as [[z|]|] eqn:Ee; try discriminate.
    destruct (nth_error (bufs c) j) as [buf|] eqn:Eb; [|discriminate].
    exists s, buf. repeat split; auto.
    - intro Hp. destruct (step s); try (inversion H; subst; simpl in Hp; discriminate).
      destruct buf; [|discriminate].
      destruct (upstream_closed St j c); inversion H; subst; simpl in Hp; discriminate.
    - pose proof (quiet_ok s H0) as Q.
      destruct (step s); try (inversion H; subst; reflexivity); try contradiction.
      destruct buf; [destruct (upstream_closed St j c)|]; inversion H; subst; reflexivity.
    - pose proof (quiet_ok s H0) as Q.
      destruct (step s); try (inversion H; subst; simpl; auto; fail); try contradiction.
      destruct buf; [destruct (upstream_closed St j c)|]; inversion H; subst; simpl; auto.
  Qed.

  Lemma fire_inv j c c' : fire j c = Some c' ->
    exists e, effect_of j c = Some e /\ c' = apply_effect j e c.
  Proof.
    unfold Pipeline.fire. destruct (effect_of j c) as [e|]; [|discriminate].
    intro H; inversion H; eauto.
  Qed.

  Lemma wf_apply j e c : wf c -> wf (apply_effect j e c).
  Proof. unfold wf; simpl. rewrite !length_upd. auto. Qed.

  Lemma inv_step j c c' : Inv c -> fire j c = Some c' -> Inv c'.
  Proof.
    intros [Hw Hq] Hf. destruct (fire_inv _ _ _ Hf) as [e [He ->]].
    split; [apply wf_apply; assumption|].
    destruct (effect_of_inv _ _ _ He) as [s [buf [Hs [_ [_ [_ Hqs]]]]]].
    intros a b sa sb Hab Ha Hb. simpl in Ha, Hb. rewrite nth_error_upd in Ha, Hb.
    destruct (Nat.eqb_spec j a) as [Eja|Nja]; destruct (Nat.eqb_spec j b) as [Ejb|Njb].
    - exfalso. apply Hab. congruence.
    - rewrite <- Eja in Ha, Hab. rewrite Hs in Ha. simpl in Ha. inversion Ha; subst sa.
      destruct (Hq j b s sb Hab Hs Hb) as [Q|Q]; [left; apply Hqs; assumption|right; assumption].
    - rewrite <- Ejb in Hb, Hab. rewrite Hs in Hb. simpl in Hb. inversion Hb; subst sb.
      destruct (Hq a j sa s Hab Ha Hs) as [Q|Q]; [left; assumption|right; apply Hqs; assumption].
    - exact (Hq a b sa sb Hab Ha Hb).
  Qed.

  (* a step of stage i does not change what stage j <> i is about to do *)
  Lemma effect_stable i j c ei ej : i <> j ->
    effect_of i c = Some ei -> effect_of j c = Some ej ->
    effect_of j (apply_effect i ei c) = Some ej.
  Proof.
    intros Hne Hi Hj.
    destruct (effect_of_inv _ _ _ Hi) as [si [bi [Hsi [Hxi [Hbi _]]]]].
    unfold Pipeline.effect_of in Hj |- *. simpl.
    rewrite !nth_error_upd.
    destruct (Nat.eqb_spec i j) as [|_]; [contradiction|].
    destruct (nth_error (sts c) j) as [s|] eqn:Es; [|discriminate].
    destruct (nth_error (exs c) j) as [[z|]|] eqn:Ee; try discriminate.
    destruct (nth_error (bufs c) j) as [buf|] eqn:Eb; [|discriminate].
    assert (Hup : upstream_closed St j (apply_effect i ei c) = true -> buf = [] ->
                  S i <> j -> upstream_closed St j c = true).
    { destruct j as [|j']; [reflexivity|]. unfold upstream_closed, exited. simpl.
      rewrite nth_error_upd. intros H _ Hn. destruct (Nat.eqb_spec i j'); [lia|assumption]. }
    destruct (Nat.eqb_spec (S i) j) as [Hsij|Hsij].
    - (* i feeds j *)
      simpl. destruct (step s) as [k|b s'|b s'|n]; try assumption.
      destruct buf as [|x buf'].
      + (* j read at EOF although i has not exited: impossible *)
        exfalso. subst j. unfold upstream_closed, exited in Hj. rewrite Hxi in Hj. discriminate.
      + simpl. assumption.
    - destruct (step s) as [k|b s'|b s'|n]; try assumption.
      destruct buf as [|x buf']; [|assumption].
      assert (Hsame : upstream_closed St j (apply_effect i ei c) = upstream_closed St j c).
      { destruct j as [|j']; [reflexivity|]. unfold upstream_closed, exited. simpl.
        rewrite nth_error_upd. destruct (Nat.eqb_spec i j'); [lia|reflexivity]. }
      rewrite Hsame. assumption.
  Qed.

  (* the two steps commute *)
  Lemma apply_commute i j c ei ej : Inv c -> i <> j ->
    effect_of i c = Some ei -> effect_of j c = Some ej ->
    apply_effect j ej (apply_effect i ei c) = apply_effect i ei (apply_effect j ej c).
  Proof.
    intros [Hw Hq] Hne Hi Hj.
    destruct (effect_of_inv _ _ _ Hi) as [si [bi [Hsi [Hxi [Hbi [Hpi Hqi]]]]]].
    destruct (effect_of_inv _ _ _ Hj) as [sj [bj [Hsj [Hxj [Hbj [Hpj Hqj]]]]]].
    unfold Pipeline.apply_effect. simpl. f_equal.
    - apply nth_error_ext'. intro k. rewrite !nth_error_upd. eqb_cases; subst; try lia; reflexivity.
    - apply nth_error_ext'. intro k. rewrite !nth_error_upd. eqb_cases; subst; try lia; reflexivity.
    - apply nth_error_ext'. intro k. rewrite !nth_error_upd.
      eqb_cases; subst; try lia; try reflexivity.
      (* k = j = S i (i pushes to j's input while j pops it), or k = i = S j *)
      all: (rewrite Hbi || rewrite Hbj); simpl; f_equal;
        first [ destruct (e_pop St ei) eqn:Ep; [|reflexivity];
                destruct bi; [exfalso; apply (Hpi eq_refl); reflexivity|reflexivity]
              | destruct (e_pop St ej) eqn:Ep; [|reflexivity];
                destruct bj; [exfalso; apply (Hpj eq_refl); reflexivity|reflexivity] ].
    - destruct (Hq i j si sj Hne Hsi Hsj) as [Q|Q].
      + destruct (Hqi Q) as [-> _]. rewrite !app_nil_r. reflexivity.
      + destruct (Hqj Q) as [-> _]. rewrite !app_nil_r. reflexivity.
  Qed.

  Lemma diamond i j c c1 c2 : Inv c -> i <> j ->
    fire i c = Some c1 -> fire j c = Some c2 ->
    exists c3, fire j c1 = Some c3 /\ fire i c2 = Some c3.
  Proof.
    intros HI Hne H1 H2.
    destruct (fire_inv _ _ _ H1) as [ei [Hi ->]]. destruct (fire_inv _ _ _ H2) as [ej [Hj ->]].
    exists (apply_effect j ej (apply_effect i ei c)). split.
    - unfold Pipeline.fire. rewrite (effect_stable i j c ei ej Hne Hi Hj). reflexivity.
    - unfold Pipeline.fire. rewrite (effect_stable j i c ej ei (not_eq_sym Hne) Hj Hi).
      rewrite (apply_commute i j c ei ej HI Hne Hi Hj). reflexivity.
  Qed.

  (* ---- finished = terminal; progress ---- *)

  Lemma finished_terminal c : finished c = true -> terminal _ fire c.
  Proof.
    unfold finished. intros H j. unfold Pipeline.fire, Pipeline.effect_of.
    destruct (nth_error (sts c) j); [|reflexivity].
    destruct (nth_error (exs c) j) as [[z|]|] eqn:E; try reflexivity.
    rewrite forallb_forall in H. apply nth_error_In in E. apply H in E. discriminate.
  Qed.

  Lemma first_unfinished (l : list (option Z)) : forallb is_some l = false ->
    exists j, nth_error l j = Some None /\
              forall i, i < j -> exists z, nth_error l i = Some (Some z).
  Proof.
    induction l as [|x l IH]; simpl; [discriminate|].
    destruct x as [z|]; simpl.
    - intro H. destruct (IH H) as [j [Hj Hlt]]. exists (S j). split; [assumption|].
      intros [|i] Hi; simpl; [eauto|]. apply Hlt. lia.
    - intros _. exists 0. split; [reflexivity|]. intros i Hi. lia.
  Qed.

  (* deadlock freedom: an unfinished pipeline always has a stage that can move *)
  Lemma progress c : wf c -> finished c = false -> exists j c', fire j c = Some c'.
  Proof.
    intros [Hl1 Hl2] Hf. destruct (first_unfinished _ Hf) as [j [Hj Hlt]].
    pose proof (nth_error_Some_lt _ _ _ Hj) as Hjl.
    destruct (nth_error_lt_Some (sts c) j ltac:(lia)) as [s Hs].
    destruct (nth_error_lt_Some (bufs c) j ltac:(lia)) as [buf Hb].
    assert (Hup : upstream_closed St j c = true).
    { destruct j as [|j']; [reflexivity|]. unfold upstream_closed, exited.
      destruct (Hlt j' ltac:(lia)) as [z ->]. reflexivity. }
    exists j. unfold Pipeline.fire, Pipeline.effect_of. rewrite Hs, Hj, Hb.
    destruct (step s); try (eexists; reflexivity).
    destruct buf; [rewrite Hup|]; eexists; reflexivity.
  Qed.

  Lemma fire_unfinished j c c' : fire j c = Some c' -> finished c = false.
  Proof.
    intro H. destruct (finished c) eqn:E; [|reflexivity].
    rewrite (finished_terminal c E j) in H. discriminate.
  Qed.

  Lemma run_runs sched c : run St step sched c = runs _ fire sched c.
  Proof. revert c; induction sched as [|j s IH]; intro c; simpl; [reflexivity|apply IH]. Qed.

  (* ---- the canonical scheduler ---- *)

  Lemma first_fire_some k : forall j c c', first_fire St step k j c = Some c' ->
    exists i, fire i c = Some c'.
  Proof.
    induction k as [|k IH]; intros j c c' H; simpl in H; [discriminate|].
    destruct (fire j c) eqn:E; [inversion H; subst; eauto|eapply IH; eassumption].
  Qed.

  Lemma exec_steps fuel : forall c t, exec St step fuel c = Ok t ->
    exists n, steps _ fire n c t /\ finished t = true.
  Proof.
    induction fuel as [|f IH]; intros c t H; simpl in H.
    - destruct (finished c) eqn:E; [|discriminate]. inversion H; subst.
      exists 0. split; [constructor|assumption].
    - destruct (finished c) eqn:E.
      + inversion H; subst. exists 0. split; [constructor|assumption].
      + destruct (first_fire St step (nstages c) 0 c) as [c1|] eqn:F; [|discriminate].
        destruct (first_fire_some _ _ _ _ F) as [i Hi].
        destruct (IH c1 t H) as [n [Hs Hfin]].
        exists (S n). split; [econstructor; eassumption|assumption].
  Qed.

  (* ---- pipeline-level theorems ---- *)

  (* Kahn determinacy: any two complete schedules end in the same configuration,
     hence the same bytes on stdout and stderr and the same exit number *)
  Theorem pipeline_confluent c s1 s2 : Inv c ->
    finished (run St step s1 c) = true -> finished (run St step s2 c) = true ->
    run St step s1 c = run St step s2 c.
  Proof.
    intros HI H1 H2. rewrite !run_runs in *.
    apply (schedules_agree _ fire Inv inv_step diamond s1 s2 c HI);
      apply finished_terminal; assumption.
  Qed.

  (* the canonical scheduler's answer is every complete schedule's answer *)
  Theorem pipeline_predict fuel c t s : Inv c -> exec St step fuel c = Ok t ->
    finished (run St step s c) = true -> run St step s c = t.
  Proof.
    intros HI He Hf. destruct (exec_steps _ _ _ He) as [n [Hn Ht]].
    rewrite run_runs in *.
    destruct (runs_steps _ fire s c) as [m [_ Hm]].
    destruct (confluence _ fire Inv inv_step diamond n m c t _ HI Hn
                (finished_terminal _ Ht) Hm (finished_terminal _ Hf)) as [_ Heq].
    symmetry. exact Heq.
  Qed.

  (* ... and no schedule can hang: whatever has been scheduled so far, the run
     completes after a bounded number of further steps, in the same configuration *)
  Theorem pipeline_no_hang fuel c t s : Inv c -> exec St step fuel c = Ok t ->
    exists n k, steps _ fire n c t /\ k <= n /\ steps _ fire k (run St step s c) t.
  Proof.
    intros HI He. destruct (exec_steps _ _ _ He) as [n [Hn Ht]].
    destruct (no_schedule_hangs _ fire Inv inv_step diamond n c t s HI Hn
                (finished_terminal _ Ht)) as [k [Hk Hs]].
    exists n, k. rewrite run_runs. auto.
  Qed.

  (* ---- prefix independence of the sinks ---- *)

  Definition pre (o e : bytes) (c : config) : config :=
    mkc (sts c) (exs c) (upd (bufs c) (nstages c) (fun q => o ++ q)) (e ++ serr c).

  Lemma effect_pre j o e c : effect_of j (pre o e c) = effect_of j c.
  Proof.
    unfold Pipeline.effect_of, pre. simpl.
    destruct (nth_error (sts c) j) as [s|] eqn:Es; [|reflexivity].
    pose proof (nth_error_Some_lt _ _ _ Es) as Hlt.
    rewrite nth_error_upd. unfold nstages.
    destruct (Nat.eqb_spec (length (sts c)) j); [lia|].
    destruct (nth_error (exs c) j) as [[z|]|]; reflexivity.
  Qed.

  Lemma apply_pre j ef o e c : j < nstages c ->
    apply_effect j ef (pre o e c) = pre o e (apply_effect j ef c).
  Proof.
    intro Hlt. unfold Pipeline.apply_effect, pre, nstages in *. simpl. rewrite length_upd. f_equal.
    - apply nth_error_ext'. intro k. rewrite !nth_error_upd.
      eqb_cases; subst; try lia; try reflexivity.
      destruct (nth_error (bufs c) (S j)); simpl; [|reflexivity]. rewrite app_assoc. reflexivity.
    - rewrite app_assoc. reflexivity.
  Qed.

  Lemma fire_pre j o e c : fire j (pre o e c) = option_map (pre o e) (fire j c).
  Proof.
    unfold Pipeline.fire. rewrite effect_pre.
    destruct (effect_of j c) as [ef|] eqn:E; [|reflexivity]. simpl. f_equal.
    apply apply_pre. destruct (effect_of_inv _ _ _ E) as [s [_ [Hs _]]].
    apply (nth_error_Some_lt _ _ _ Hs).
  Qed.

  Lemma steps_pre o e n c t : steps _ fire n c t -> steps _ fire n (pre o e c) (pre o e t).
  Proof.
    intro H. induction H as [|n j c c1 t Hf Hs IH]; [constructor|].
    econstructor; [|exact IH]. rewrite fire_pre, Hf. reflexivity.
  Qed.

  Lemma upd_app_last {A} (l : list A) x f : upd (l ++ [x]) (length l) f = l ++ [f x].
  Proof. induction l as [|y l IH]; simpl; [reflexivity|f_equal; assumption]. Qed.

  Lemma init_pre (inits : list St) o e : init_config inits o e = pre o e (init_config inits [] []).
  Proof.
    unfold pre, init_config, nstages. simpl.
    replace (length inits) with (length (map (fun _ : St => @nil N) inits)) by apply map_length.
    rewrite upd_app_last. rewrite !app_nil_r. reflexivity.
  Qed.

  Lemma nth_app_last {A} (l : list A) x d : nth (length l) (l ++ [x]) d = x.
  Proof. induction l as [|y l IH]; simpl; auto. Qed.

  Lemma sout_pre o e c : wf c -> sout (pre o e c) = o ++ sout c.
  Proof.
    intros [_ Hl]. unfold sout, pre, nstages. simpl. rewrite !nth_nth_error, nth_error_upd.
    rewrite Nat.eqb_refl.
    destruct (nth_error_lt_Some (bufs c) (length (sts c)) ltac:(lia)) as [x ->]. reflexivity.
  Qed.

  Lemma wf_init (inits : list St) o e : wf (init_config inits o e).
  Proof. unfold wf, init_config; simpl. rewrite app_length, !map_length. simpl. lia. Qed.

  Lemma sout_init (inits : list St) o e : sout (init_config inits o e) = o.
  Proof.
    unfold sout, init_config, nstages. simpl.
    replace (length inits) with (length (map (fun _ : St => @nil N) inits)) by apply map_length.
    apply nth_app_last.
  Qed.

  Lemma steps_wf n c t : wf c -> steps _ fire n c t -> wf t.
  Proof.
    intros Hw H. induction H as [|n j c c1 t Hf Hs IH]; [assumption|].
    apply IH. destruct (fire_inv _ _ _ Hf) as [ef [_ ->]]. apply wf_apply. assumption.
  Qed.

  (* ---- programs ---- *)

  Notation gconfig := (gconfig St).
  Notation gfire := (gfire St step).
  Notation advance := (advance St).

  Definition item_ok (it : item St) : Prop :=
    forall sk prev, pairwise_quiet (load_inits sk prev it).

  Definition GInv (g : gconfig) : Prop := Inv (g_cur g) /\ Forall item_ok (g_rest g).

  Lemma advance_unfinished c sk rest : finished c = false -> advance c sk rest = mkg c sk rest.
  Proof. intro H. destruct rest; simpl; rewrite H; reflexivity. Qed.

  Lemma ginv_advance rest : forall c sk, Inv c -> Forall item_ok rest -> GInv (advance c sk rest).
  Proof.
    induction rest as [|it rest IH]; intros c sk HI HF; simpl.
    - destruct (finished c); split; assumption.
    - destruct (finished c); [|split; assumption].
      inversion HF; subst. apply IH; [|assumption].
      split; [apply wf_init|]. simpl. apply H1.
  Qed.

  Lemma ginv_step j g g' : GInv g -> gfire j g = Some g' -> GInv g'.
  Proof.
    intros [HI HF] H. unfold Pipeline.gfire in H.
    destruct (fire j (g_cur g)) as [c'|] eqn:E; [|discriminate]. inversion H; subst.
    apply ginv_advance; [eapply inv_step; eassumption|assumption].
  Qed.

  Lemma gdiamond i j g g1 g2 : GInv g -> i <> j ->
    gfire i g = Some g1 -> gfire j g = Some g2 ->
    exists g3, gfire j g1 = Some g3 /\ gfire i g2 = Some g3.
  Proof.
    intros [HI HF] Hne H1 H2. unfold Pipeline.gfire in *.
    destruct (fire i (g_cur g)) as [c1|] eqn:E1; [|discriminate].
    destruct (fire j (g_cur g)) as [c2|] eqn:E2; [|discriminate].
    inversion H1; inversion H2; subst.
    destruct (diamond i j _ c1 c2 HI Hne E1 E2) as [c3 [H13 H23]].
    rewrite (advance_unfinished c1 _ _ (fire_unfinished _ _ _ H13)).
    rewrite (advance_unfinished c2 _ _ (fire_unfinished _ _ _ H23)). simpl.
    rewrite H13, H23. eauto.
  Qed.

  Lemma gfinished_terminal g : gfinished g = true -> terminal _ gfire g.
  Proof.
    unfold gfinished. intros H j. apply andb_true_iff in H as [H _].
    unfold Pipeline.gfire. rewrite (finished_terminal _ H j). reflexivity.
  Qed.

  Lemma grun_runs sched g : grun St step sched g = runs _ gfire sched g.
  Proof. revert g; induction sched as [|j s IH]; intro g; simpl; [reflexivity|apply IH]. Qed.

  (* steps of the running pipeline are steps of the program *)
  Lemma lift_steps n c t sk rest : steps _ fire n c t ->
    steps _ gfire n (advance c sk rest) (advance t sk rest).
  Proof.
    intro H. induction H as [|n j c c1 t Hf Hs IH]; [constructor|].
    econstructor; [|exact IH].
    rewrite (advance_unfinished c _ _ (fire_unfinished _ _ _ Hf)).
    unfold Pipeline.gfire. simpl. rewrite Hf. reflexivity.
  Qed.

  Lemma last_exit_pre o e c : last_exit (pre o e c) = last_exit c.
  Proof. reflexivity. Qed.

  Lemma finished_pre o e c : finished (pre o e c) = finished c.
  Proof. reflexivity. Qed.

  (* the sequential prediction is reached by the sequential schedule *)
  Lemma predict_steps fuel prog : forall sk c o e x,
    wf c -> finished c = true ->
    predict St step fuel sk (last_exit c) prog = Ok (o, e, x) ->
    exists n t, steps _ gfire n (advance c sk prog) t /\ gfinished t = true /\
                gresult t = (sout c ++ o, serr c ++ e, x).
  Proof.
    induction prog as [|it rest IH]; intros sk c o e x Hw Hf Hp; simpl in Hp.
    - inversion Hp; subst. exists 0, (mkg c sk []). simpl. rewrite Hf. split; [constructor|].
      split; [unfold gfinished; simpl; rewrite Hf; reflexivity|].
      unfold gresult. simpl. rewrite !app_nil_r. reflexivity.
    - destruct (exec St step fuel (init_config (load_inits sk (last_exit c) it) [] [])) as [c1| | |] eqn:Ex;
        try discriminate.
      destruct (predict St step fuel (load_skip sk (last_exit c) it) (last_exit c1) rest)
        as [[[o' e'] x']| | |] eqn:Ep; try discriminate.
      inversion Hp; subst.
      destruct (exec_steps _ _ _ Ex) as [n [Hs Hfin]].
      pose proof (steps_wf _ _ _ (wf_init _ _ _) Hs) as Hw1.
      pose proof (steps_pre (sout c) (serr c) _ _ _ Hs) as Hs'.
      rewrite <- init_pre in Hs'.
      set (c1' := pre (sout c) (serr c) c1) in *.
      assert (Hw1' : wf c1') by (unfold wf, c1', pre in *; simpl; rewrite length_upd; exact Hw1).
      destruct (IH (load_skip sk (last_exit c) it) c1' o' e' x Hw1' Hfin Ep) as [m [t [Hm [Hgt Hr]]]].
      exists (n + m), t. split.
      + simpl. rewrite Hf.
        eapply steps_trans; [apply lift_steps; exact Hs'|exact Hm].
      + split; [assumption|]. rewrite Hr. unfold c1'. rewrite sout_pre by assumption.
        simpl. rewrite !app_assoc. reflexivity.
  Qed.

  (* A program's result under ANY complete schedule is the concatenation, in
     program order, of what its pipelines produce when run alone. *)
  Theorem program_sequential fuel prog r s :
    Forall item_ok prog ->
    predict St step fuel false 0%Z prog = Ok r ->
    gfinished (grun St step s (ginit St prog)) = true ->
    gresult (grun St step s (ginit St prog)) = r.
  Proof.
    intros HF Hp Hfin. destruct r as [[o e] x].
    assert (Hw0 : wf (init_config (@nil St) [] [])) by apply wf_init.
    destruct (predict_steps fuel prog false (init_config [] [] []) o e x Hw0 eq_refl Hp)
      as [n [t [Hn [Hgt Hr]]]].
    assert (HG : GInv (ginit St prog)).
    { apply ginv_advance; [|assumption]. split; [assumption|].
      intros i j si sj _ Hi. destruct i; discriminate. }
    rewrite grun_runs in *.
    destruct (runs_steps _ gfire s (ginit St prog)) as [m [_ Hm]].
    destruct (confluence _ gfire GInv ginv_step gdiamond n m _ t _ HG Hn
                (gfinished_terminal _ Hgt) Hm (gfinished_terminal _ Hfin)) as [_ Heq].
    rewrite <- Heq, Hr. reflexivity.
  Qed.

  (* two complete schedules of a program agree *)
  Theorem program_confluent prog s1 s2 :
    Forall item_ok prog ->
    gfinished (grun St step s1 (ginit St prog)) = true ->
    gfinished (grun St step s2 (ginit St prog)) = true ->
    grun St step s1 (ginit St prog) = grun St step s2 (ginit St prog).
  Proof.
    intros HF H1 H2.
    assert (HG : GInv (ginit St prog)).
    { apply ginv_advance; [|assumption]. split; [apply wf_init|].
      intros i j si sj _ Hi. destruct i; discriminate. }
    rewrite !grun_runs in *.
    apply (schedules_agree _ gfire GInv ginv_step gdiamond s1 s2 _ HG);
      apply gfinished_terminal; assumption.
  Qed.

  (* no schedule of a program hangs, once the sequential prediction exists *)
  Theorem program_no_hang fuel prog r s :
    Forall item_ok prog ->
    predict St step fuel false 0%Z prog = Ok r ->
    exists k t, steps _ gfire k (grun St step s (ginit St prog)) t /\
                gfinished t = true /\ gresult t = r.
  Proof.
    intros HF Hp. destruct r as [[o e] x].
    assert (Hw0 : wf (init_config (@nil St) [] [])) by apply wf_init.
    destruct (predict_steps fuel prog false (init_config [] [] []) o e x Hw0 eq_refl Hp)
      as [n [t [Hn [Hgt Hr]]]].
    assert (HG : GInv (ginit St prog)).
    { apply ginv_advance; [|assumption]. split; [assumption|].
      intros i j si sj _ Hi. destruct i; discriminate. }
    destruct (no_schedule_hangs _ gfire GInv ginv_step gdiamond n _ t s HG Hn
                (gfinished_terminal _ Hgt)) as [k [_ Hk]].
    exists k, t. rewrite grun_runs. auto.
  Qed.
End PipelineProofs.
