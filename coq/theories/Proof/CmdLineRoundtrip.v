(* C10 -- the headline: an escaped command line parses back to the argv.
   Generic in the escape table (conditions checked by computation on the
   regenerated table), induction over argv and over the bytes of an argument. *)
From Coq Require Import Lia.
From Murex Require Import Base.Outcome Base.Bytes Model.StmtParse Gen.EscapeTable Gen.NoTokenise Check.C10 Proof.CmdLine.
Open Scope N_scope.

(* ---------- the conditions on the table ---------- *)

Definition is_key (tbl : esc_tbl) (c : N) : bool := existsb (fun kr => bytes_eqb (fst kr) [c]) tbl.

(* bytes the statement parser treats specially and that MUST be escaped *)
Definition covered : list N := [35; 92; 32; 9; 13; 10; 42; 63; 124; 60; 62; 40; 39; 34; 36; 64].
(* special bytes the table does not cover: the known finding (has_meta) *)
Definition meta : list N := [59; 126; 123; 125; 96].

Definition keys_not_bare (tbl : esc_tbl) : bool :=
  forallb (fun kr => match fst kr with [k] => negb (is_bare k) | _ => false end) tbl.

Definition tbl_ok (tbl : esc_tbl) : bool :=
  single_keys tbl && forallb (key_image_ok tbl) tbl && forallb (is_key tbl) covered && keys_not_bare tbl.

Lemma tbl_ok_now : tbl_ok escape_pairs = true.
Proof. vm_compute. reflexivity. Qed.

Section Table.
  Variable tbl : esc_tbl.
  Hypothesis Hok : tbl_ok tbl = true.

  Let Hsingle : single_keys tbl = true.
  Proof. unfold tbl_ok in Hok. repeat (apply andb_true_iff in Hok as [Hok ?]). assumption. Qed.
  Let Himg : forallb (key_image_ok tbl) tbl = true.
  Proof. unfold tbl_ok in Hok. repeat (apply andb_true_iff in Hok as [Hok ?]). assumption. Qed.
  Let Hcov : forallb (is_key tbl) covered = true.
  Proof. unfold tbl_ok in Hok. repeat (apply andb_true_iff in Hok as [Hok ?]). assumption. Qed.
  Let Hnb : keys_not_bare tbl = true.
  Proof. unfold tbl_ok in Hok. repeat (apply andb_true_iff in Hok as [Hok ?]). assumption. Qed.

  Lemma bytes_eqb_single k c : bytes_eqb k [c] = true -> k = [c].
  Proof. apply bytes_eqb_eq. Qed.

  (* the image of a byte: backslash + x with unescape x = c, or the byte itself *)
  Lemma image_cases c :
    (is_key tbl c = true /\ exists x, char_image tbl c = [92; x] /\ unescape x = c /\ x <> 10 /\ x <> 13) \/
    (is_key tbl c = false /\ char_image tbl c = [c]).
  Proof.
    destruct (is_key tbl c) eqn:K; [left|right]; split; try reflexivity.
    - unfold is_key in K. apply existsb_exists in K as (kr & Hin & Hk).
      apply bytes_eqb_single in Hk.
      pose proof (proj1 (forallb_forall _ _) Himg kr Hin) as Hi.
      unfold key_image_ok in Hi. rewrite Hk in Hi.
      destruct (char_image tbl c) as [|b [|x [|? ?]]]; try discriminate.
      apply andb_true_iff in Hi as [Hi H13]. apply andb_true_iff in Hi as [Hi H10].
      apply andb_true_iff in Hi as [B Hu]. apply N.eqb_eq in B. subst b.
      exists x. repeat split.
      * apply N.eqb_eq. exact Hu.
      * apply negb_true_iff, N.eqb_neq in H10. exact H10.
      * apply negb_true_iff, N.eqb_neq in H13. exact H13.
    - apply char_image_other; [exact Hsingle|].
      unfold is_key in K. clear - K. induction tbl as [|kr t IH]; [reflexivity|].
      cbn [existsb forallb] in *. apply orb_false_iff in K as [K1 K2]. rewrite K1, (IH K2). reflexivity.
  Qed.

  Lemma covered_is_key k : In k covered -> is_key tbl k = true.
  Proof. intro H. exact (proj1 (forallb_forall _ _) Hcov k H). Qed.

  Lemma bare_not_key c : is_bare c = true -> is_key tbl c = false.
  Proof.
    intro Hb. destruct (is_key tbl c) eqn:K; [|reflexivity]. exfalso.
    unfold is_key in K. apply existsb_exists in K as (kr & Hin & Hk). apply bytes_eqb_single in Hk.
    pose proof (proj1 (forallb_forall _ _) Hnb kr Hin) as Hn. destruct kr as [k r]. cbn [fst] in *.
    subst k. rewrite Hb in Hn. discriminate.
  Qed.

  Definition enc (a : bytes) : bytes := flat_map (char_image tbl) a.

  Lemma enc_is_escape a : escape_arg tbl a = enc a.
  Proof. apply escape_arg_bytewise. exact Hsingle. Qed.

  Lemma enc_bare w : forallb is_bare w = true -> enc w = w.
  Proof.
    induction w as [|c w IH]; intro H; [reflexivity|].
    cbn [forallb] in H. apply andb_true_iff in H as [Hc H].
    unfold enc in *. cbn [flat_map]. rewrite (IH H).
    destruct (image_cases c) as [(K & _)|(_ & ->)].
    - rewrite (bare_not_key c Hc) in K. discriminate.
    - reflexivity.
  Qed.

  (* what can follow in the text after the image of a byte *)
  Lemma next_cases r rest : rest = [] \/ hd0 rest = 32 ->
    let nx := hd0 (enc r ++ rest) in
    nx = 0 \/ nx = 32 \/ nx = 92 \/ (nx = hd0 r /\ is_key tbl nx = false).
  Proof.
    intros Hr nx. subst nx. destruct r as [|d r'].
    - cbn. destruct Hr as [->|H]; [left; reflexivity|right; left; exact H].
    - unfold enc. cbn [flat_map]. destruct (image_cases d) as [(_ & x & -> & _)|(K & ->)].
      + right. right. left. reflexivity.
      + right. right. right. cbn. split; [reflexivity|exact K].
  Qed.
End Table.

(* ---------- single steps of the concrete parser ---------- *)

Notation cpst := (pst bytes (list bytes)).
Notation crun e := (run bytes (list bytes) [] (c_app e) c_empty (lookup_scalar e)
                        (fun p t => p ++ [t]) (c_arr e)).
Notation cstep e := (step bytes (list bytes) [] (c_app e) c_empty (lookup_scalar e)
                          (fun p t => p ++ [t]) (c_arr e)).

(* a state at which no quote / variable / glob has been seen in the current word *)
Definition mk (cmd : bytes) (ps : list bytes) (tmp : bytes) (esc : bool) : cpst :=
  {| p_cmd := cmd; p_params := ps; p_tmp := tmp; p_zl := false; p_glob := false; p_esc := esc |}.

Lemma run_nil cf e s :
  crun e cf s 0 0 [] = crun e cf s 0 0 [].
Proof. reflexivity. Qed.

Lemma run_cons cf e s prev c tl :
  crun e cf s 0 prev (c :: tl) =
  match cstep e cf s prev c tl with
  | Ok (Cont s' k) => crun e cf s' k c tl
  | Ok (Stop s') => Ok (mk_result bytes (list bytes) s' (length (c :: tl)))
  | Err k => Err k | Panic => Panic | OutOfFuel => OutOfFuel
  end.
Proof. reflexivity. Qed.

(* backslash: enter escape mode *)
Lemma step_backslash cf e cmd ps tmp prev tl :
  cstep e cf (mk cmd ps tmp false) prev 92 tl = Ok (Cont (mk cmd ps tmp true) 0).
Proof. reflexivity. Qed.

(* escaped byte: appended after unescaping *)
Lemma step_escaped cf e cmd ps tmp prev x tl :
  x <> 10 -> x <> 13 -> (is_ws x = true -> hd0 tl <> 35) ->
  cstep e cf (mk cmd ps tmp true) prev x tl = Ok (Cont (mk cmd ps (tmp ++ [unescape x]) false) 0).
Proof.
  intros H10 H13 Hws. unfold step. cbn [p_esc mk].
  apply N.eqb_neq in H10. apply N.eqb_neq in H13. rewrite H10, H13.
  destruct (is_ws x) eqn:W.
  - specialize (Hws eq_refl). apply N.eqb_neq in Hws. rewrite Hws.
    unfold is_ws in W. apply orb_true_iff in W as [W|W]; apply N.eqb_eq in W; subst x; reflexivity.
  - reflexivity.
Qed.

(* unescaped bytes that are appended verbatim *)
Definition hard_specials : list N := covered ++ meta.

Definition cond_ok (c nx : N) : bool :=
  if c =? 47 then negb (nx =? 35)
  else if c =? 38 then negb (nx =? 38)
  else if c =? 61 then negb (nx =? 62)
  else if c =? 45 then negb (nx =? 62)
  else if c =? 37 then negb ((nx =? 91) || (nx =? 123) || (nx =? 40))
  else if (c =? 58) || (c =? 91) then true
  else negb (existsb (N.eqb c) hard_specials).

Lemma step_raw cf e x l ps tmp prev c tl :
  cond_ok c (hd0 tl) = true ->
  cstep e cf (mk (x :: l) ps tmp false) prev c tl = Ok (Cont (mk (x :: l) ps (tmp ++ [c]) false) 0).
Proof.
  unfold cond_ok. intro H.
  destruct (c =? 47) eqn:E47.
  { apply N.eqb_eq in E47. subst c. apply negb_true_iff in H. unfold step. cbn. rewrite H. reflexivity. }
  destruct (c =? 38) eqn:E38.
  { apply N.eqb_eq in E38. subst c. apply negb_true_iff in H. unfold step. cbn. rewrite H. reflexivity. }
  destruct (c =? 61) eqn:E61.
  { apply N.eqb_eq in E61. subst c. apply negb_true_iff in H. unfold step. cbn. rewrite H. reflexivity. }
  destruct (c =? 45) eqn:E45.
  { apply N.eqb_eq in E45. subst c. apply negb_true_iff in H. unfold step. cbn. rewrite H. reflexivity. }
  destruct (c =? 37) eqn:E37.
  { apply N.eqb_eq in E37. subst c. apply negb_true_iff in H.
    apply orb_false_iff in H as [H H40]. apply orb_false_iff in H as [H91 H123].
    unfold step. cbn. rewrite H91, H123, H40. reflexivity. }
  destruct ((c =? 58) || (c =? 91)) eqn:E5891.
  { apply orb_true_iff in E5891 as [E|E]; apply N.eqb_eq in E; subst c; reflexivity. }
  apply orb_false_iff in E5891 as [E58 E91].
  apply negb_true_iff in H. unfold hard_specials, covered, meta in H. cbn [List.app existsb] in H.
  repeat (apply orb_false_iff in H as [? H]).
  unfold step. cbn [p_esc mk].
  repeat match goal with Hx : (c =? _) = false |- _ => rewrite Hx; clear Hx end.
  reflexivity.
Qed.

(* bare-word bytes need no condition at all (also while the command is still empty) *)
Lemma bare_not_special c : is_bare c = true -> forall k, In k (hard_specials ++ [47; 38; 61; 45; 37; 58; 91]) -> (c =? k) = false.
Proof.
  intros Hb k Hin. destruct (c =? k) eqn:E; [|reflexivity]. apply N.eqb_eq in E. subst c.
  unfold hard_specials, covered, meta in Hin. cbn in Hin.
  repeat (destruct Hin as [<-|Hin]; [discriminate Hb|]). contradiction.
Qed.

Lemma step_bare cf e cmd ps tmp prev c tl :
  is_bare c = true ->
  cstep e cf (mk cmd ps tmp false) prev c tl = Ok (Cont (mk cmd ps (tmp ++ [c]) false) 0).
Proof.
  intro Hb. pose proof (bare_not_special c Hb) as Hn.
  unfold step. cbn [p_esc mk].
  repeat match goal with
         | |- context [c =? ?k] =>
           rewrite (Hn k) by (unfold hard_specials, covered, meta; cbn; tauto)
         end.
  reflexivity.
Qed.

(* blank between words: nextParameter *)
Lemma step_blank_first cf e w prev tl : w <> [] ->
  cstep e cf (mk [] [] w false) prev 32 tl = Ok (Cont (mk w [] [] false) 0).
Proof. intro H. destruct w; [contradiction|]. reflexivity. Qed.

Lemma step_blank cf e x l ps w prev tl : w <> [] ->
  cstep e cf (mk (x :: l) ps w false) prev 32 tl = Ok (Cont (mk (x :: l) (ps ++ [w]) [] false) 0).
Proof. intro H. destruct w; [contradiction|]. reflexivity. Qed.

(* ---------- one argument, then the argument list ---------- *)

Section Roundtrip.
  Variable tbl : esc_tbl.
  Hypothesis Hok : tbl_ok tbl = true.
  Variable cf : cfg.
  Variable e : env.

  Notation enc := (enc tbl).

  Lemma has_meta_cons c r : has_meta (c :: r) = false ->
    (c =? 59) = false /\ (c =? 123) = false /\ (c =? 125) = false /\ (c =? 126) = false /\ (c =? 96) = false /\
    ((c =? 38) && (hd0 r =? 38)) = false /\
    ((c =? 37) && ((hd0 r =? 91) || (hd0 r =? 123))) = false /\ has_meta r = false.
  Proof.
    cbn [has_meta]. intro H. repeat (apply orb_false_iff in H as [H ?]). repeat split; assumption.
  Qed.

  Lemma nx_ne r rest k : rest = [] \/ hd0 rest = 32 ->
    In k covered -> k <> 32 -> k <> 92 -> hd0 (enc r ++ rest) <> k.
  Proof.
    intros Hr Hin H32 H92 Heq.
    destruct (next_cases tbl Hok r rest Hr) as [E|[E|[E|[E K]]]].
    - rewrite E in Heq. subst k. unfold covered in Hin. cbn in Hin.
      repeat (destruct Hin as [Hin|Hin]; [discriminate|]). contradiction.
    - rewrite E in Heq. subst k. contradiction.
    - rewrite E in Heq. subst k. contradiction.
    - rewrite Heq in K. rewrite (covered_is_key tbl Hok k Hin) in K. discriminate.
  Qed.

  Lemma raw_cond c r rest :
    is_key tbl c = false -> has_meta (c :: r) = false -> rest = [] \/ hd0 rest = 32 ->
    cond_ok c (hd0 (enc r ++ rest)) = true.
  Proof.
    intros K Hm Hr.
    destruct (has_meta_cons _ _ Hm) as (H59 & H123 & H125 & H126 & H96 & H38 & H37 & _).
    pose proof (next_cases tbl Hok r rest Hr) as Hn. cbv zeta in Hn.
    assert (Hcov : forall k, In k covered -> k <> 32 -> k <> 92 -> (hd0 (enc r ++ rest) =? k) = false).
    { intros k Hin A B. apply N.eqb_neq. apply nx_ne; assumption. }
    unfold cond_ok.
    destruct (c =? 47) eqn:E47.
    { rewrite (Hcov 35) by (unfold covered; cbn; intuition discriminate). reflexivity. }
    destruct (c =? 38) eqn:E38.
    { cbn [andb] in H38. apply negb_true_iff.
      destruct Hn as [->|[->|[->|[-> _]]]]; try reflexivity. exact H38. }
    destruct (c =? 61) eqn:E61.
    { rewrite (Hcov 62) by (unfold covered; cbn; intuition discriminate). reflexivity. }
    destruct (c =? 45) eqn:E45.
    { rewrite (Hcov 62) by (unfold covered; cbn; intuition discriminate). reflexivity. }
    destruct (c =? 37) eqn:E37.
    { cbn [andb] in H37. apply orb_false_iff in H37 as [H91 H123'].
      rewrite (Hcov 40) by (unfold covered; cbn; intuition discriminate). rewrite orb_false_r. apply negb_true_iff.
      destruct Hn as [->|[->|[->|[-> _]]]]; try reflexivity. rewrite H91, H123'. reflexivity. }
    destruct ((c =? 58) || (c =? 91)); [reflexivity|].
    apply negb_true_iff. apply not_true_iff_false. intro Hex.
    apply existsb_exists in Hex as (k & Hin & Hk). apply N.eqb_eq in Hk. subst k.
    unfold hard_specials in Hin. apply in_app_or in Hin as [Hin|Hin].
    - rewrite (covered_is_key tbl Hok c Hin) in K. discriminate.
    - unfold meta in Hin. cbn in Hin.
      repeat (destruct Hin as [<-|Hin]; [discriminate|]). contradiction.
  Qed.

  (* the bytes of one argument: every escaped byte decodes to itself, every
     unescaped safe byte is appended verbatim *)
  Lemma run_word x l ps : forall a tmp prev rest,
    has_meta a = false -> rest = [] \/ hd0 rest = 32 ->
    exists prev',
      crun e cf (mk (x :: l) ps tmp false) 0 prev (enc a ++ rest)
      = crun e cf (mk (x :: l) ps (tmp ++ a) false) 0 prev' rest.
  Proof.
    induction a as [|c r IH]; intros tmp prev rest Hm Hr.
    - exists prev. cbn. rewrite app_nil_r. reflexivity.
    - destruct (has_meta_cons _ _ Hm) as (_ & _ & _ & _ & _ & _ & _ & Hmr).
      unfold CmdLineRoundtrip.enc. cbn [flat_map]. fold (enc r).
      destruct (image_cases tbl Hok c) as [(K & y & -> & Hu & H10 & H13)|(K & ->)].
      + cbn [List.app]. rewrite run_cons, step_backslash. rewrite run_cons.
        rewrite step_escaped; try assumption.
        * rewrite Hu. destruct (IH (tmp ++ [c]) y rest Hmr Hr) as (p' & Hp).
          exists p'. rewrite Hp. rewrite <- app_assoc. reflexivity.
        * intros _. apply nx_ne; try assumption; unfold covered; cbn; intuition discriminate.
      + cbn [List.app]. rewrite run_cons. rewrite step_raw by (apply raw_cond; assumption).
        destruct (IH (tmp ++ [c]) c rest Hmr Hr) as (p' & Hp).
        exists p'. rewrite Hp. rewrite <- app_assoc. reflexivity.
  Qed.
End Roundtrip.

Definition safe_arg (a : bytes) : bool := negb (is_nil a) && negb (has_meta a).

Section Line.
  Variable tbl : esc_tbl.
  Hypothesis Hok : tbl_ok tbl = true.
  Variable cf : cfg.
  Variable e : env.

  Notation enc := (enc tbl).

  Definition chunks (args : list bytes) : bytes := flat_map (fun a => 32 :: enc a) args.

  Lemma hd_chunks args : chunks args = [] \/ hd0 (chunks args) = 32.
  Proof. destruct args; [left|right]; reflexivity. Qed.

  Lemma safe_arg_inv a : safe_arg a = true -> a <> [] /\ has_meta a = false.
  Proof.
    unfold safe_arg. intro H. apply andb_true_iff in H as [H1 H2].
    apply negb_true_iff in H2. split; [|exact H2]. destruct a; [discriminate|discriminate].
  Qed.

  (* invariant: after k arguments the parser holds exactly those k parameters
     and the (k+1)-th word is pending in paramTemp *)
  Lemma run_args x l : forall args ps w prev,
    w <> [] -> forallb safe_arg args = true ->
    crun e cf (mk (x :: l) ps w false) 0 prev (chunks args)
    = Ok {| r_cmd := x :: l; r_params := ps ++ w :: args; r_rest := 0 |}.
  Proof.
    induction args as [|a args IH]; intros ps w prev Hw Hs.
    - destruct w; [contradiction|]. reflexivity.
    - cbn [forallb] in Hs. apply andb_true_iff in Hs as [Ha Hs].
      destruct (safe_arg_inv a Ha) as [Hne Hm].
      unfold chunks. cbn [flat_map]. fold (chunks args). cbn [List.app].
      rewrite run_cons, step_blank by exact Hw.
      destruct (run_word tbl Hok cf e x l (ps ++ [w]) a [] 32 (chunks args) Hm (hd_chunks args)) as (p' & ->).
      cbn [List.app]. rewrite (IH (ps ++ [w]) a p' Hne Hs). rewrite <- app_assoc. reflexivity.
  Qed.

  Lemma run_cmd_word w : forall tmp prev rest,
    forallb is_bare w = true ->
    exists prev', crun e cf (mk [] [] tmp false) 0 prev (w ++ rest)
                  = crun e cf (mk [] [] (tmp ++ w) false) 0 prev' rest.
  Proof.
    induction w as [|c w IH]; intros tmp prev rest H.
    - exists prev. cbn. rewrite app_nil_r. reflexivity.
    - cbn [forallb] in H. apply andb_true_iff in H as [Hc H].
      cbn [List.app]. rewrite run_cons, step_bare by exact Hc.
      destruct (IH (tmp ++ [c]) c rest H) as (p' & ->). exists p'. rewrite <- app_assoc. reflexivity.
  Qed.

  Lemma plain_cmd_inv cmd : plain_cmd cmd = true -> cmd <> [] /\ forallb is_bare cmd = true.
  Proof.
    unfold plain_cmd. destruct cmd as [|c w]; [discriminate|]. intro H.
    apply andb_true_iff in H as [H _]. apply andb_true_iff in H as [_ H]. split; [discriminate|exact H].
  Qed.

  Lemma run_line cmd args :
    plain_cmd cmd = true -> forallb safe_arg args = true ->
    parse_stmt_raw cf e (cmd ++ chunks args) = Ok {| r_cmd := cmd; r_params := args; r_rest := 0 |}.
  Proof.
    intros Hp Hs. destruct (plain_cmd_inv cmd Hp) as [Hne Hb].
    unfold parse_stmt_raw. change (pst0 bytes (list bytes) [] []) with (mk [] [] [] false).
    destruct (run_cmd_word cmd [] 0 (chunks args) Hb) as (p & ->). cbn [List.app].
    destruct args as [|a args].
    - destruct cmd; [contradiction|]. reflexivity.
    - cbn [forallb] in Hs. apply andb_true_iff in Hs as [Ha Hs].
      destruct (safe_arg_inv a Ha) as [Hane Hm].
      unfold chunks. cbn [flat_map]. fold (chunks args). cbn [List.app].
      rewrite run_cons, step_blank_first by exact Hne.
      destruct cmd as [|x l]; [contradiction|].
      destruct (run_word tbl Hok cf e x l [] a [] 32 (chunks args) Hm (hd_chunks args)) as (p' & ->).
      cbn [List.app]. rewrite (run_args x l args [] a p' Hane Hs). reflexivity.
  Qed.

  (* ---- the text of the command line ---- *)
  Lemma join_cons (sep y : bytes) ys : join sep (y :: ys) = y ++ flat_map (fun z => sep ++ z) ys.
  Proof.
    revert y. induction ys as [|z ys IH]; intro y.
    - cbn. rewrite app_nil_r. reflexivity.
    - change (join sep (y :: z :: ys)) with (y ++ sep ++ join sep (z :: ys)).
      rewrite IH. cbn [flat_map]. rewrite <- !app_assoc. reflexivity.
  Qed.

  Lemma escape_join_text cmd args :
    forallb is_bare cmd = true ->
    escape_join tbl [32] (cmd :: args) = cmd ++ chunks args.
  Proof.
    intro Hb. unfold escape_join. cbn [map]. rewrite join_cons.
    rewrite (enc_is_escape tbl Hok), (enc_bare tbl Hok cmd Hb). f_equal.
    unfold chunks. induction args as [|a args IH]; [reflexivity|].
    cbn [map flat_map]. rewrite IH, (enc_is_escape tbl Hok). reflexivity.
  Qed.

  (* ---- the pre-parser takes the line as a statement ---- *)
  Lemma span_bare w : forall rest,
    forallb is_bare w = true -> rest = [] \/ is_bare (hd0 rest) = false ->
    span is_bare (w ++ rest) = (w, rest).
  Proof.
    induction w as [|c w IH]; intros rest H Hr.
    - cbn. destruct rest as [|d rest']; [reflexivity|]. destruct Hr as [Hr|Hr]; [discriminate|].
      cbn in Hr. cbn. rewrite Hr. reflexivity.
    - cbn [forallb] in H. apply andb_true_iff in H as [Hc H].
      cbn [List.app span]. rewrite Hc, (IH rest H Hr). reflexivity.
  Qed.

  Lemma assign_start_app x rest : x <> [] -> rest = [] \/ hd0 rest = 32 ->
    assign_start (x ++ rest) = assign_start x.
  Proof.
    intros Hx Hr. destruct x as [|c1 [|c2 x']]; [contradiction| |reflexivity].
    destruct Hr as [->|Hr]; [reflexivity|].
    unfold assign_start. cbn [List.app hd0]. destruct rest as [|d rest']; [reflexivity|].
    cbn [hd0] in *. subst d. cbn. rewrite !andb_false_r. reflexivity.
  Qed.

  Lemma enc_nonempty a : a <> [] -> enc a <> [].
  Proof.
    destruct a as [|c r]; [contradiction|]. intros _. unfold CmdLineRoundtrip.enc. cbn [flat_map].
    destruct (image_cases tbl Hok c) as [(_ & y & -> & _)|(_ & ->)]; discriminate.
  Qed.

  Lemma skip_ws_enc a rest : a <> [] -> skip_ws (enc a ++ rest) = enc a ++ rest.
  Proof.
    destruct a as [|c r]; [contradiction|]. intros _. unfold CmdLineRoundtrip.enc. cbn [flat_map].
    destruct (image_cases tbl Hok c) as [(_ & y & -> & _)|(K & ->)]; [reflexivity|].
    cbn [List.app skip_ws].
    assert (H : forall k, In k covered -> (c =? k) = false).
    { intros k Hin. apply N.eqb_neq. intros ->. rewrite (covered_is_key tbl Hok k Hin) in K. discriminate. }
    rewrite (H 32), (H 9), (H 13) by (unfold covered; cbn; tauto). reflexivity.
  Qed.

  Definition first_arg_ok (args : list bytes) : bool :=
    match args with a :: _ => negb (assign_start (escape_arg tbl a)) | [] => true end.

  Lemma line_is_statement cmd args :
    plain_cmd cmd = true -> forallb safe_arg args = true -> first_arg_ok args = true ->
    expr_rejected (cmd ++ chunks args) = true.
  Proof.
    intros Hp Hs Hf. destruct (plain_cmd_inv cmd Hp) as [Hne Hb].
    unfold expr_rejected. rewrite (span_bare cmd (chunks args) Hb).
    - rewrite Hp. cbn [andb]. destruct args as [|a args]; [reflexivity|].
      cbn [forallb] in Hs. apply andb_true_iff in Hs as [Ha _].
      destruct (safe_arg_inv a Ha) as [Hane _].
      unfold chunks. cbn [flat_map]. fold (chunks args). cbn [List.app skip_ws].
      change ((32 =? 32) || (32 =? 9) || (32 =? 13)) with true. cbn iota.
      rewrite (skip_ws_enc a _ Hane).
      rewrite (assign_start_app _ _ (enc_nonempty a Hane) (hd_chunks args)).
      cbn [first_arg_ok] in Hf. rewrite (enc_is_escape tbl Hok) in Hf. exact Hf.
    - destruct args; [left; reflexivity|right; reflexivity].
  Qed.

  Theorem roundtrip_generic cmd args :
    plain_cmd cmd = true -> in_list cmd (c_notok cf) = false ->
    forallb safe_arg args = true -> first_arg_ok args = true ->
    block_first cf e (escape_join tbl [32] (cmd :: args))
    = Ok {| r_cmd := cmd; r_params := args; r_rest := 0 |}.
  Proof.
    intros Hp Hn Hs Hf. destruct (plain_cmd_inv cmd Hp) as [_ Hb].
    match goal with |- block_first _ _ ?X = _ =>
      assert (Ht : X = cmd ++ chunks args) by exact (escape_join_text cmd args Hb); rewrite Ht; clear Ht
    end. unfold block_first.
    rewrite (line_is_statement cmd args Hp Hs Hf). unfold parse_stmt.
    rewrite (run_line cmd args Hp Hs). cbn [obind r_cmd]. rewrite Hn. reflexivity.
  Qed.
End Line.

(* ---------- the table the code has now, and Check.C10 ---------- *)

Theorem cmdline_roundtrip cf e cmd args :
  plain_cmd cmd = true -> in_list cmd (c_notok cf) = false ->
  forallb safe_arg args = true -> first_arg_ok escape_pairs args = true ->
  block_first cf e (cmdline (cmd :: args))
  = Ok {| r_cmd := cmd; r_params := args; r_rest := 0 |}.
Proof.
  intros Hp Hn Hs Hf. unfold cmdline.
  destruct escape_pairs_now as (_ & -> & _ & _).
  apply (roundtrip_generic escape_pairs tbl_ok_now); assumption.
Qed.

(* single argument case, spelled out *)
Corollary cmdline_roundtrip_single cf e cmd a :
  plain_cmd cmd = true -> in_list cmd (c_notok cf) = false ->
  safe_arg a = true -> assign_start (escape_arg escape_pairs a) = false ->
  block_first cf e (cmdline [cmd; a]) = Ok {| r_cmd := cmd; r_params := [a]; r_rest := 0 |}.
Proof.
  intros Hp Hn Hs Hf. apply cmdline_roundtrip; try assumption.
  - cbn [forallb]. rewrite Hs. reflexivity.
  - unfold first_arg_ok. rewrite Hf. reflexivity.
Qed.

(* the guards are exactly "not one of the known-finding classes" *)
Lemma safe_args_iff args :
  forallb safe_arg args = true <-> existsb has_meta args = false /\ existsb is_nil args = false.
Proof.
  induction args as [|a args IH]; [cbn; tauto|].
  cbn [forallb existsb]. unfold safe_arg at 1.
  rewrite andb_true_iff, andb_true_iff, !orb_false_iff, !negb_true_iff, IH. tauto.
Qed.

Theorem guards_iff_unclassified cmd args home nc :
  classify (model_case (cmd :: args) home nc) = 0 <->
  forallb safe_arg args = true /\ first_arg_ok escape_pairs args = true.
Proof.
  unfold classify, model_case. cbn [k_argv]. rewrite safe_args_iff.
  destruct (existsb has_meta args); [split; [discriminate|intros [[? _] _]; discriminate]|].
  destruct (existsb is_nil args); [split; [discriminate|intros [[_ ?] _]; discriminate]|].
  destruct args as [|a args']; cbn [first_arg_ok]; [tauto|].
  destruct (assign_start (escape_arg escape_pairs a)); cbn [negb]; split; try tauto; try discriminate.
  intros [_ H]. discriminate.
Qed.

Lemma params_eqb_refl' l : params_eqb l l = true.
Proof. apply list_eqb_eq; [apply bytes_eqb_eq|reflexivity]. Qed.

(* headline: for every argv outside the known-finding classes the model's
   observation satisfies the predicate the check evaluates on the implementation *)
Theorem model_meets_spec cmd args home nc :
  plain_cmd cmd = true -> in_list cmd no_tokenise_cmds = false ->
  classify (model_case (cmd :: args) home nc) = 0 ->
  spec_ok (model_case (cmd :: args) home nc) = true.
Proof.
  intros Hp Hn Hc. apply guards_iff_unclassified in Hc as [Hs Hf].
  unfold spec_ok, model_case, model_obs. cbn [k_argv k_obs].
  rewrite (cmdline_roundtrip (mk_cfg home nc) no_env cmd args Hp Hn Hs Hf).
  cbn [o_kind o_nfuncs o_rawlen o_cmdline o_cmd o_params o_e2e o_same r_rest r_cmd r_params Nat.eqb].
  rewrite N.sub_0_r, !N.eqb_refl, bytes_eqb_refl, params_eqb_refl'. reflexivity.
Qed.
