From Coq Require Import Lia ZifyBool ZifyN ZifyNat.
From Murex Require Import Base.Bytes Model.History Check.C29 Proof.HistoryChunks.
Open Scope N_scope.

Ltac crush_in H :=
  repeat (first
    [ match type of H with
      | context [if ?c then _ else _] => let E := fresh "E" in destruct c eqn:E
      end
    | match type of H with
      | context [match ?t with [] => _ | _ :: _ => _ end] => is_var t; destruct t
      end ]).

Lemma utf8_len_high2 b0 b1 t : utf8_len (b0 :: b1 :: t) = 2%nat -> 128 <= b0 -> high [b0; b1] = true.
Proof.
  intros H H0. unfold utf8_len, in_rng, is_cont in H.
  crush_in H; try discriminate; unfold high, forallb, in_rng in *; lia.
Qed.

Lemma utf8_len_high3 b0 b1 b2 t : utf8_len (b0 :: b1 :: b2 :: t) = 3%nat -> 128 <= b0 -> high [b0; b1; b2] = true.
Proof.
  intros H H0. unfold utf8_len, in_rng, is_cont in H.
  destruct (b0 =? 224) eqn:E224; destruct (b0 =? 237) eqn:E237;
  crush_in H; try discriminate; unfold high, forallb, in_rng in *; lia.
Qed.

Lemma utf8_len_high4 b0 b1 b2 b3 t : utf8_len (b0 :: b1 :: b2 :: b3 :: t) = 4%nat -> 128 <= b0 -> high [b0; b1; b2; b3] = true.
Proof.
  intros H H0. unfold utf8_len, in_rng, is_cont in H.
  destruct (b0 =? 240) eqn:E240; destruct (b0 =? 244) eqn:E244;
  crush_in H; try discriminate; unfold high, forallb, in_rng in *; lia.
Qed.

Lemma step_good s : s <> [] -> chunk_good (chunk s) (dchunk s).
Proof.
  intro Hne. destruct s as [|b0 t]; [contradiction|].
  unfold chunk, dchunk. cbn [step].
  destruct (b0 <? 128) eqn:E0.
  - cbn [fst snd]. apply ascii_chunk_good. lia.
  - assert (128 <= b0) as H0 by lia.
    destruct (utf8_len (b0 :: t)) as [|[|[|[|[|?]]]]] eqn:EL;
      destruct t as [|b1 [|b2 [|b3 t4]]]; cbn [fst snd]; try exact esc_fffd_good.
    + apply high_chunk_good; [discriminate|]. eapply utf8_len_high2; eassumption.
    + apply high_chunk_good; [discriminate|]. eapply utf8_len_high2; eassumption.
    + apply high_chunk_good; [discriminate|]. eapply utf8_len_high2; eassumption.
    + destruct (is_ls_ps b0 b1 b2) eqn:EP; cbn [fst snd].
      * unfold is_ls_ps in EP. assert (b0 = 226 /\ b1 = 128) as [-> ->] by lia.
        apply ls_ps_good. lia.
      * apply high_chunk_good; [discriminate|]. eapply utf8_len_high3; eassumption.
    + destruct (is_ls_ps b0 b1 b2) eqn:EP; cbn [fst snd].
      * unfold is_ls_ps in EP. assert (b0 = 226 /\ b1 = 128) as [-> ->] by lia.
        apply ls_ps_good. lia.
      * apply high_chunk_good; [discriminate|]. eapply utf8_len_high3; eassumption.
    + apply high_chunk_good; [discriminate|]. eapply utf8_len_high4; eassumption.
Qed.

(* ------------------------------------------------------------------ *)
(* the escaper as a whole                                              *)

Lemma ge32_app a b : ge32 (a ++ b) = ge32 a && ge32 b.
Proof. apply forallb_app. Qed.

Lemma esc_ge32 s : ge32 (esc s) = true.
Proof.
  induction s as [|s Hne IH] using esc_ind; [reflexivity|].
  destruct (esc_step s Hne) as [E _]. rewrite E, ge32_app, IH.
  rewrite (cg_ge32 _ _ (step_good s Hne)). reflexivity.
Qed.

Lemma unquote_esc s X : unquote (esc s ++ 34 :: X) = Some (coerce s, X).
Proof.
  induction s as [|s Hne IH] using esc_ind; [reflexivity|].
  destruct (esc_step s Hne) as [E [C _]]. rewrite E, C, <- app_assoc.
  rewrite (cg_dec _ _ (step_good s Hne)). rewrite IH. reflexivity.
Qed.

Lemma unquote_esc_prefix s p : prefix p (esc s) -> unquote p = None.
Proof.
  revert p. induction s as [|s Hne IH] using esc_ind; intros p Hp.
  - apply prefix_nil_inv in Hp. subst. reflexivity.
  - destruct (esc_step s Hne) as [E _]. rewrite E in Hp.
    apply prefix_app_cases in Hp as [Hp|[p' [-> Hp]]].
    + apply (cg_pre _ _ (step_good s Hne)). assumption.
    + rewrite (cg_dec _ _ (step_good s Hne)). rewrite (IH _ Hp). reflexivity.
Qed.

Lemma valid_step s : s <> [] -> utf8_valid s = true ->
  s = dchunk s ++ rest s /\ utf8_valid (rest s) = true.
Proof.
  intros Hne. destruct s as [|b0 t]; [contradiction|].
  unfold dchunk, rest. cbn [utf8_valid step].
  destruct (b0 <? 128).
  - cbn [fst snd app]. auto.
  - destruct (utf8_len (b0 :: t)) as [|[|[|[|[|?]]]]];
      destruct t as [|b1 [|b2 [|b3 t4]]]; cbn [fst snd app]; try discriminate; auto;
      destruct (is_ls_ps b0 b1 b2); cbn [fst snd app]; auto.
Qed.

Lemma coerce_valid s : utf8_valid s = true -> coerce s = s.
Proof.
  induction s as [|s Hne IH] using esc_ind; intro V; [reflexivity|].
  destruct (esc_step s Hne) as [_ [C _]]. destruct (valid_step s Hne V) as [E V'].
  rewrite C, (IH V'). symmetry. exact E.
Qed.

Lemma coerce_nil_iff s : coerce s = [] <-> s = [].
Proof.
  split; [|intros ->; reflexivity].
  destruct s as [|b0 t]; [reflexivity|]. cbn [coerce].
  destruct (b0 <? 128); [discriminate|].
  destruct (utf8_len (b0 :: t)) as [|[|[|[|[|?]]]]];
    destruct t as [|b1 [|b2 [|b3 t4]]]; discriminate.
Qed.

(* ------------------------------------------------------------------ *)
(* the frame                                                           *)

Lemma strip_prefix_app a X : strip_prefix a (a ++ X) = Some X.
Proof. induction a as [|c a IH]; [reflexivity|]. cbn. rewrite N.eqb_refl. exact IH. Qed.

Lemma strip_prefix_strict a p : strict_prefix p a -> strip_prefix a p = None.
Proof.
  revert p. induction a as [|c a IH]; intros p [q [Hq E]].
  - symmetry in E. apply app_eq_nil in E as [_ ->]. contradiction.
  - destruct p as [|x p]; [reflexivity|]. cbn in E. inversion E; subst.
    cbn. rewrite N.eqb_refl. apply IH. exists q. auto.
Qed.

Lemma span_ts_app ts X : ts_ok ts = true -> span_ts (ts ++ 34 :: X) = Some (ts, X).
Proof.
  induction ts as [|c ts IH]; intro H; [reflexivity|].
  cbn [ts_ok forallb] in H. apply andb_true_iff in H as [Hc Ht]. fold (ts_ok ts) in Ht.
  cbn [app span_ts]. rewrite Hc, (IH Ht).
  replace (c =? 34) with false by (unfold ts_byte in Hc; lia). reflexivity.
Qed.

Lemma span_ts_prefix ts p : ts_ok ts = true -> prefix p ts -> span_ts p = None.
Proof.
  revert p. induction ts as [|c ts IH]; intros p H Hp.
  - apply prefix_nil_inv in Hp. subst. reflexivity.
  - cbn [ts_ok forallb] in H. apply andb_true_iff in H as [Hc Ht]. fold (ts_ok ts) in Ht.
    apply prefix_cons_inv in Hp as [->|[p' [-> Hp]]]; [reflexivity|].
    cbn [span_ts]. rewrite Hc, (IH _ Ht Hp).
    replace (c =? 34) with false by (unfold ts_byte in Hc; lia). reflexivity.
Qed.

Definition finish (o : option (bytes * bytes)) : option bytes :=
  match o with
  | Some (blk, c :: r) => if (c =? 125) && forallb json_ws r then Some blk else None
  | _ => None
  end.

Lemma decode_frame ts Y : ts_ok ts = true ->
  decode_line (rec_pre ++ ts ++ 34 :: rec_mid ++ Y) = finish (unquote Y).
Proof.
  intro H. unfold decode_line. rewrite strip_prefix_app, (span_ts_app _ _ H), strip_prefix_app.
  reflexivity.
Qed.

Lemma decode_encode ts blk : ts_ok ts = true -> decode_line (encode_record ts blk) = Some (coerce blk).
Proof.
  intro H. unfold encode_record. rewrite (decode_frame _ _ H).
  change [34; 125] with (34 :: [125]). rewrite unquote_esc. reflexivity.
Qed.

Lemma app_strict_self_absurd (a q : bytes) : q <> [] -> a = a ++ q -> False.
Proof.
  intros Hq E. apply (f_equal (@length N)) in E. rewrite app_length in E.
  destruct q; [contradiction|cbn in E; lia].
Qed.

(* no strict prefix of a record decodes *)
Lemma decode_strict_prefix ts blk p : ts_ok ts = true ->
  strict_prefix p (encode_record ts blk) -> decode_line p = None.
Proof.
  intros H SP. pose proof (strict_prefix_is_prefix _ _ SP) as Hp. unfold encode_record in Hp.
  apply prefix_app_cases in Hp as [Hp|[p1 [-> Hp]]].
  { unfold decode_line. rewrite (strip_prefix_strict _ _ Hp). reflexivity. }
  apply prefix_app_cases in Hp as [Hp|[p2 [-> Hp]]].
  { unfold decode_line. rewrite strip_prefix_app.
    rewrite (span_ts_prefix _ _ H (strict_prefix_is_prefix _ _ Hp)). reflexivity. }
  apply prefix_cons_inv in Hp as [->|[p3 [-> Hp]]].
  { unfold decode_line. rewrite strip_prefix_app, app_nil_r.
    rewrite (span_ts_prefix ts ts H) by (exists []; rewrite app_nil_r; reflexivity). reflexivity. }
  apply prefix_app_cases in Hp as [Hp|[p4 [-> Hp]]].
  { unfold decode_line. rewrite strip_prefix_app, (span_ts_app _ _ H).
    rewrite (strip_prefix_strict _ _ Hp). reflexivity. }
  rewrite (decode_frame _ _ H).
  apply prefix_app_cases in Hp as [Hp|[p5 [-> Hp]]].
  { rewrite (unquote_esc_prefix _ _ (strict_prefix_is_prefix _ _ Hp)). reflexivity. }
  apply prefix_cons_inv in Hp as [->|[p6 [-> Hp]]].
  { rewrite app_nil_r. rewrite (unquote_esc_prefix blk (esc blk)) by (exists []; rewrite app_nil_r; reflexivity).
    reflexivity. }
  apply prefix_cons_inv in Hp as [->|[p7 [-> Hp]]].
  { rewrite unquote_esc. reflexivity. }
  apply prefix_nil_inv in Hp. subst p7.
  exfalso. destruct SP as [q [Hq E]]. unfold encode_record in E.
  eapply app_strict_self_absurd; eassumption.
Qed.

Lemma ge32_no_nl l : ge32 l = true -> no_nl l = true.
Proof.
  unfold ge32, no_nl. intro H. rewrite forallb_forall in *. intros x Hx. specialize (H x Hx). lia.
Qed.

Lemma ts_ok_ge32 ts : ts_ok ts = true -> ge32 ts = true.
Proof.
  unfold ts_ok, ge32. intro H. rewrite forallb_forall in *. intros x Hx. specialize (H x Hx).
  unfold ts_byte in H. lia.
Qed.

Lemma record_ge32 ts blk : ts_ok ts = true -> ge32 (encode_record ts blk) = true.
Proof.
  intro H. unfold encode_record. change (34 :: rec_mid ++ esc blk ++ [34; 125]) with ((34 :: rec_mid) ++ esc blk ++ [34; 125]).
  rewrite !ge32_app, esc_ge32, (ts_ok_ge32 _ H). reflexivity.
Qed.

Lemma record_no_nl ts blk : ts_ok ts = true -> no_nl (encode_record ts blk) = true.
Proof. intro H. apply ge32_no_nl, record_ge32, H. Qed.

Lemma no_nl_prefix p l : prefix p l -> no_nl l = true -> no_nl p = true.
Proof.
  intros [q ->] H. unfold no_nl in *. rewrite forallb_app in H. apply andb_true_iff in H. tauto.
Qed.

(* ------------------------------------------------------------------ *)
(* writes                                                              *)

Definition wr_ok (w : wr) : bool := ts_ok (w_ts w).

Lemma dec_entry_record w : wr_ok w = true -> dec_entry (record_of w) = entry_of w.
Proof.
  intro H. unfold dec_entry, record_of, entry_of. rewrite (decode_encode _ _ H). reflexivity.
Qed.

Lemma load_write1 f w : wr_ok w = true -> load (write1 f w) = load f ++ entry_of w.
Proof.
  intro H. unfold write1, delta. rewrite load_snoc by (apply record_no_nl; exact H).
  rewrite (dec_entry_record _ H). reflexivity.
Qed.

Lemma load_writes ws : forall f, forallb wr_ok ws = true ->
  load (fold_left write1 ws f) = load f ++ entries ws.
Proof.
  induction ws as [|w ws IH]; intros f H.
  - cbn. rewrite app_nil_r. reflexivity.
  - cbn [forallb] in H. apply andb_true_iff in H as [Hw Hws].
    cbn [fold_left]. rewrite (IH _ Hws), (load_write1 _ _ Hw).
    unfold entries. cbn [flat_map]. rewrite app_assoc. reflexivity.
Qed.

Lemma sep_prefix_nil f q : strict_prefix q (sep f) -> q = [].
Proof.
  intros [r [Hr E]]. unfold sep in E. destruct (ends_nl f).
  - symmetry in E. apply app_eq_nil in E. tauto.
  - destruct q as [|c q]; [reflexivity|]. cbn in E. inversion E as [[Ec Eq]].
    symmetry in Eq. apply app_eq_nil in Eq as [_ ->]. contradiction.
Qed.

(* A crash during a write: whatever prefix q of the appended bytes reached the file,
   the entries already in the file are untouched, and the entry being written is present
   exactly when its whole record (with or without the final newline) arrived. *)
Lemma crash_lost f w q : wr_ok w = true ->
  strict_prefix q (sep f ++ record_of w) -> load (f ++ q) = load f.
Proof.
  intros H SP. pose proof (strict_prefix_is_prefix _ _ SP) as Hp.
  apply prefix_app_cases in Hp as [Hp|[q1 [-> Hp]]].
  - apply sep_prefix_nil in Hp. subst. rewrite app_nil_r. reflexivity.
  - rewrite load_snoc_open by (eapply no_nl_prefix; [eassumption|apply record_no_nl; exact H]).
    assert (strict_prefix q1 (record_of w)) as SP1.
    { destruct SP as [r [Hr E]]. exists r. split; [assumption|].
      rewrite <- app_assoc in E. apply app_inv_head in E. exact E. }
    unfold dec_entry. unfold record_of in SP1. rewrite (decode_strict_prefix _ _ _ H SP1).
    apply app_nil_r.
Qed.

Lemma crash_kept f w q : wr_ok w = true ->
  prefix q (delta f w) -> prefix (sep f ++ record_of w) q -> load (f ++ q) = load f ++ entry_of w.
Proof.
  intros H Hq [r ->]. unfold delta in Hq. destruct Hq as [r' E].
  rewrite <- !app_assoc in E. apply app_inv_head in E. apply app_inv_head in E.
  destruct r as [|c r].
  - rewrite app_nil_r. rewrite load_snoc_open by (apply record_no_nl; exact H).
    rewrite (dec_entry_record _ H). reflexivity.
  - cbn in E. inversion E as [[Ec Er]]. symmetry in Er. apply app_eq_nil in Er as [-> _].
    rewrite <- app_assoc. rewrite load_snoc by (apply record_no_nl; exact H).
    rewrite (dec_entry_record _ H). reflexivity.
Qed.

Lemma prefix_total_cases (q a : bytes) b : prefix q (a ++ b) -> strict_prefix q a \/ prefix a q.
Proof.
  intro Hp. apply prefix_app_cases in Hp as [Hp|[p' [-> _]]]; [left; assumption|right].
  exists p'. reflexivity.
Qed.

Lemma crash_either f w q : wr_ok w = true -> prefix q (delta f w) ->
  load (f ++ q) = load f \/ load (f ++ q) = load f ++ entry_of w.
Proof.
  intros H Hq. pose proof Hq as Hq'. unfold delta in Hq'. rewrite app_assoc in Hq'.
  apply prefix_total_cases in Hq' as [SP|P].
  - left. eapply crash_lost; eassumption.
  - right. apply crash_kept; assumption.
Qed.

(* ------------------------------------------------------------------ *)
(* sessions and the property predicate                                 *)

Definition session_ok (s : session) : bool :=
  forallb wr_ok (s_writes s) &&
  match s_torn s with Some (w, _) => wr_ok w | None => true end.

Definition sessions_ok (ss : list csession) : bool := forallb session_ok (map session_of ss).

Lemma session_load f s : session_ok s = true ->
  exists e, In e (expected s) /\ load (session_file f s) = load f ++ e.
Proof.
  intro H. unfold session_ok in H. apply andb_true_iff in H as [Hws Ht].
  unfold session_file, expected. destruct (s_torn s) as [[w k]|].
  - destruct (crash_either (fold_left write1 (s_writes s) f) w
                (firstn (N.to_nat k) (delta (fold_left write1 (s_writes s) f) w)) Ht
                (prefix_firstn _ _)) as [E|E]; rewrite E, (load_writes _ _ Hws).
    + exists (entries (s_writes s)). split; [left; reflexivity|reflexivity].
    + exists (entries (s_writes s) ++ entry_of w). split; [right; left; reflexivity|].
      rewrite app_assoc. reflexivity.
  - exists (entries (s_writes s)). split; [left; reflexivity|]. apply load_writes; assumption.
Qed.

Lemma run_sessions_fst s ss f :
  fst (run_sessions f (s :: ss)) = fst (run_sessions (session_file f s) ss).
Proof. cbn [run_sessions]. destruct (run_sessions (session_file f s) ss). reflexivity. Qed.

Lemma sessions_load ss : forall f, forallb session_ok ss = true ->
  exists c, In c (cands ss) /\ load (fst (run_sessions f ss)) = load f ++ c.
Proof.
  induction ss as [|s ss IH]; intros f H.
  - exists []. split; [left; reflexivity|]. cbn. rewrite app_nil_r. reflexivity.
  - cbn [forallb] in H. apply andb_true_iff in H as [Hs Hss].
    destruct (session_load f s Hs) as [e [He Ee]].
    destruct (IH (session_file f s) Hss) as [c [Hc Ec]].
    exists (e ++ c). split.
    + cbn [cands]. apply in_flat_map. exists e. split; [assumption|]. apply in_map. assumption.
    + rewrite run_sessions_fst, Ec, Ee, app_assoc. reflexivity.
Qed.

Lemma ostr_eqb_refl a : ostr_eqb a a = true.
Proof. destruct a; cbn; [apply bytes_eqb_refl|rewrite !N.eqb_refl; reflexivity]. Qed.

Lemma ostr_list_eqb_refl l : list_eqb ostr_eqb l l = true.
Proof. induction l as [|x l IH]; [reflexivity|]. cbn. rewrite ostr_eqb_refl, IH. reflexivity. Qed.

Lemma model_meets_spec ss : sessions_ok ss = true -> spec_ok (model_case ss) = true.
Proof.
  intro H. unfold spec_ok, model_case, mk_case, spec_load. cbn [c_sessions c_obs_load].
  destruct (sessions_load (map session_of ss) [] H) as [c [Hc Ec]].
  apply existsb_exists. exists c. split; [assumption|].
  change (load []) with (@nil bytes) in Ec. cbn [app] in Ec. rewrite Ec.
  apply ostr_list_eqb_refl.
Qed.

(* crash theorem in terms of writes: a write on any file f is torn after any prefix q of
   its bytes; any later writes ws' (in any number of later sessions: a session only adds
   writes) follow.  Reload gives the entries of f, then possibly the torn entry, then ws'. *)
Lemma crash_then_writes f w q ws' : wr_ok w = true -> forallb wr_ok ws' = true ->
  prefix q (delta f w) ->
  (strict_prefix q (sep f ++ record_of w) ->
     load (fold_left write1 ws' (f ++ q)) = load f ++ entries ws') /\
  (prefix (sep f ++ record_of w) q ->
     load (fold_left write1 ws' (f ++ q)) = load f ++ entry_of w ++ entries ws').
Proof.
  intros Hw Hws Hq. split; intro Hc; rewrite (load_writes _ _ Hws).
  - rewrite (crash_lost _ _ _ Hw Hc). reflexivity.
  - rewrite (crash_kept _ _ _ Hw Hq Hc), app_assoc. reflexivity.
Qed.

Lemma record_has_no_newline ts blk : ts_ok ts = true -> ~ In 10 (encode_record ts blk).
Proof.
  intros H Hin. pose proof (record_no_nl ts blk H) as Hn. unfold no_nl in Hn.
  rewrite forallb_forall in Hn. specialize (Hn _ Hin). discriminate.
Qed.

Lemma decode_encode_valid ts blk : ts_ok ts = true -> utf8_valid blk = true ->
  decode_line (encode_record ts blk) = Some blk.
Proof. intros H V. rewrite (decode_encode _ _ H), (coerce_valid _ V). reflexivity. Qed.

Lemma reload_exact ws : forallb wr_ok ws = true -> load (fold_left write1 ws []) = entries ws.
Proof. intro H. rewrite (load_writes _ _ H). reflexivity. Qed.

(* the writer before fix F29b glued the record onto a torn tail: it and the model above
   differ exactly there, and the old behaviour loses the NEXT entry *)
Definition write1_old (f : bytes) (w : wr) : bytes := f ++ record_of w ++ [10].

Lemma old_writer_refuted :
  exists f w, wr_ok w = true /\ load (write1_old f w) = load f /\ entry_of w <> [].
Proof.
  exists (firstn 20 (record_of {| w_ts := [50]; w_cmd := [97] |})), {| w_ts := [50]; w_cmd := [98] |}.
  vm_compute. repeat split; discriminate.
Qed.
