(* C17 — proofs about the generalised range machine of Model/Range.v: number,
   string and regexp matchers, the inverse form `![ .. ]`, the 8 / b / t flags. *)
From Coq Require Import Lia ZifyBool.
From Murex Require Import Base.Outcome Base.Bytes Model.Decimal Model.Range Check.C17 Proof.Range.
Open Scope Z_scope.

(* ---------- the index matcher without `![` is the machine of Proof/Range.v ---------- *)

Lemma gstep_index_step {A} p rf st (b : A) :
  gstep (index_matcher rf) (rp_excl p) (negb (is_empty (rp_end p))) false st b = step p rf st.
Proof.
  unfold gstep, step, index_matcher. cbn [m_start m_end].
  destruct (st_started st).
  - cbn [negb]. destruct (negb (is_empty (rp_end p))); cbn [andb]; [|reflexivity].
    destruct (-1 <? rf_end rf); [|reflexivity]. destruct (rf_end rf <? st_i st + 1); reflexivity.
  - destruct (rf_start rf <? st_i st + 1); [|reflexivity].
    destruct (rp_excl p); cbn [negb]; [reflexivity|].
    destruct (negb (is_empty (rp_end p))); cbn [andb]; [|reflexivity].
    destruct (-1 <? rf_end rf); [|reflexivity]. destruct (rf_end rf <? st_i st + 1 + 1); reflexivity.
Qed.

Lemma gfeed_index_feed {A} p rf : forall (xs : list A) st,
  gfeed (index_matcher rf) (rp_excl p) (negb (is_empty (rp_end p))) false st xs = feed p rf st xs.
Proof.
  induction xs as [|b r IH]; intros st; [reflexivity|]. cbn [gfeed feed].
  destruct (st_done st); [reflexivity|]. rewrite gstep_index_step.
  destruct (step p rf st) as [st' w]. rewrite IH. reflexivity.
Qed.

Lemma prep_no_flags xs : prep no_flags xs = xs.
Proof. unfold prep, no_flags. cbn. apply map_id. Qed.

Theorem range_filter2_index : forall rx p xs,
  range_filter2 rx KIndex no_flags p xs = range_filter p xs.
Proof.
  intros rx p xs. unfold range_filter2, range_filter, matcher_of. rewrite prep_no_flags.
  destruct (new_index p) as [[rf0 buffer]| | |]; cbn [obind]; try reflexivity.
  cbn [f_not no_flags]. rewrite gfeed_index_feed. reflexivity.
Qed.

(* ---------- generic phases ---------- *)

Section Phases.
  Context {A : Type}.
  Variable m : matcher A.
  Variables excl eg isnot : bool.

  Lemma gfeed_done i s (xs : list A) :
    gfeed m excl eg isnot {| st_started := s; st_i := i; st_done := true |} xs = [].
  Proof. destruct xs; reflexivity. Qed.
End Phases.

(* ---------- predicate matchers: `s` (string) and `r` (regexp) ---------- *)

Fixpoint from_first {A} (p : A -> bool) (xs : list A) : list A :=
  match xs with
  | [] => []
  | b :: r => if p b then xs else from_first p r
  end.

(* what is written once the range has started *)
Fixpoint body {A} (pe : A -> bool) (excl eg isnot : bool) (ys : list A) : list A :=
  match ys with
  | [] => []
  | b :: r => if eg && pe b then (if excl then [] else [b])
              else if isnot then body pe excl eg isnot r else b :: body pe excl eg isnot r
  end.

  Lemma gfeed_pred_started {A} (ps pe : A -> bool) excl eg isnot : forall ys i,
    gfeed (pred_matcher ps pe) excl eg isnot (st_run i) ys = body pe excl eg isnot ys.
  Proof.
    induction ys as [|b r IH]; intros i; [reflexivity|].
    cbn [gfeed st_run st_done]. unfold gstep, st_run. cbn [st_started st_i negb pred_matcher m_end].
    destruct eg; cbn [andb body].
    - destruct (pe b).
      + destruct excl; cbn [negb]; rewrite gfeed_done; reflexivity.
      + change {| st_started := true; st_i := i; st_done := false |} with (st_run i).
        destruct isnot; cbn [negb]; rewrite IH; reflexivity.
    - change {| st_started := true; st_i := i; st_done := false |} with (st_run i).
      destruct isnot; cbn [negb]; rewrite IH; reflexivity.
  Qed.

  Lemma gfeed_pred_waiting {A} (ps pe : A -> bool) excl eg isnot : forall xs i,
    gfeed (pred_matcher ps pe) excl eg isnot (st_wait i) xs =
    body pe excl eg isnot (if excl then tl (from_first ps xs) else from_first ps xs).
  Proof.
    induction xs as [|b r IH]; intros i; [destruct excl; reflexivity|].
    cbn [gfeed st_wait st_done from_first]. unfold gstep at 1, st_wait. cbn [st_started st_i pred_matcher m_start].
    destruct (ps b) eqn:Hp.
    - destruct excl; cbn [negb tl].
      + change {| st_started := true; st_i := i; st_done := false |} with (st_run i).
        apply gfeed_pred_started.
      + (* the start item goes through the End test like any item of a started range *)
        rewrite <- (gfeed_pred_started ps pe false eg isnot (b :: r) i).
        cbn [gfeed st_run st_done]. unfold gstep, st_run. cbn [st_started st_i negb]. reflexivity.
    - cbn [negb]. change {| st_started := false; st_i := i; st_done := false |} with (st_wait i).
      apply IH.
  Qed.

(* readable closed forms of [body] *)
Fixpoint upto_incl {A} (p : A -> bool) (ys : list A) : list A :=
  match ys with [] => [] | b :: r => if p b then [b] else b :: upto_incl p r end.
Fixpoint upto_excl {A} (p : A -> bool) (ys : list A) : list A :=
  match ys with [] => [] | b :: r => if p b then [] else b :: upto_excl p r end.

Lemma body_plain {A} (pe : A -> bool) excl ys :
  body pe excl true false ys = if excl then upto_excl pe ys else upto_incl pe ys.
Proof.
  induction ys as [|b r IH]; [destruct excl; reflexivity|]. cbn [body andb upto_incl upto_excl].
  destruct (pe b); destruct excl; try reflexivity; rewrite IH; reflexivity.
Qed.

Lemma body_open {A} (pe : A -> bool) excl ys : body pe excl false false ys = ys.
Proof. induction ys as [|b r IH]; [reflexivity|]. cbn [body andb]. rewrite IH. reflexivity. Qed.

(* `![ .. ]`: only the item that ends the range is written (and not even that with `e`) *)
Lemma body_not {A} (pe : A -> bool) excl eg ys :
  body pe excl eg true ys = if eg && negb excl then firstn 1 (from_first pe ys) else [].
Proof.
  induction ys as [|b r IH]; [destruct (eg && negb excl); reflexivity|]. cbn [body from_first].
  destruct eg; cbn [andb] in *.
  - destruct (pe b); [destruct excl; reflexivity|exact IH].
  - exact IH.
Qed.

(* ---------- the whole filter for `s` and `r` ---------- *)

Definition pred_closed {A} (ps pe : A -> bool) (p : rparams) (isnot : bool) (ys : list A) : list A :=
  body pe (rp_excl p) (negb (is_empty (rp_end p))) isnot
       (if is_empty (rp_start p) then ys
        else if rp_excl p then tl (from_first ps ys) else from_first ps ys).

Theorem range_string_closed : forall rx f p xs,
  range_filter2 rx KString f p xs =
  Ok (pred_closed (bytes_eqb (rp_start p)) (bytes_eqb (rp_end p)) p (f_not f) (prep f xs)).
Proof.
  intros rx f p xs. unfold range_filter2, matcher_of, pred_closed. cbn [obind]. f_equal.
  destruct (is_empty (rp_start p)).
  - apply (gfeed_pred_started _ _ _ _ _ (prep f xs) 0).
  - apply (gfeed_pred_waiting _ _ _ _ _ (prep f xs) 0).
Qed.

Theorem range_regexp_closed : forall rx f p xs,
  range_filter2 rx KRegexp f p xs =
  Ok (pred_closed (rx (rp_start p)) (rx (rp_end p)) p (f_not f) (prep f xs)).
Proof.
  intros rx f p xs. unfold range_filter2, matcher_of, pred_closed. cbn [obind]. f_equal.
  destruct (is_empty (rp_start p)).
  - apply (gfeed_pred_started _ _ _ _ _ (prep f xs) 0).
  - apply (gfeed_pred_waiting _ _ _ _ _ (prep f xs) 0).
Qed.

(* [a..b]s with both bounds given: from the first item equal to a through the
   first item equal to b at or after it *)
Theorem range_string_a_b : forall rx a b xs, a <> [] -> b <> [] ->
  range_filter2 rx KString no_flags (mkp a b false) xs =
  Ok (upto_incl (bytes_eqb b) (from_first (bytes_eqb a) xs)).
Proof.
  intros rx a b xs Ha Hb. rewrite range_string_closed, prep_no_flags. unfold pred_closed.
  cbn [rp_start rp_end rp_excl mkp f_not no_flags].
  destruct a; [contradiction|]. destruct b; [contradiction|]. cbn [is_empty negb].
  rewrite body_plain. reflexivity.
Qed.

(* ---------- the index / number matcher with `![` ---------- *)

  Lemma gfeed_index_waiting {A} rf excl eg isnot : forall (xs : list A) i,
    gfeed (index_matcher rf) excl eg isnot (st_wait i) xs =
    gfeed (index_matcher rf) excl eg isnot (st_run (i + Z.max 0 (rf_start rf - i) + 1))
          (skipn (Z.to_nat (rf_start rf - i) + (if excl then 1 else 0)) xs).
  Proof.
    induction xs as [|b rest IH]; intros i.
    - rewrite skipn_nil. reflexivity.
    - cbn [gfeed st_wait st_done]. unfold gstep at 1, st_wait. cbn [st_started st_i index_matcher m_start].
      destruct (rf_start rf <? i + 1) eqn:Hlt.
      + replace (Z.to_nat (rf_start rf - i)) with 0%nat by lia.
        replace (i + Z.max 0 (rf_start rf - i) + 1) with (i + 1) by lia.
        destruct excl; cbn [negb Nat.add skipn].
        * reflexivity.
        * cbn [gfeed st_run st_done]. unfold gstep, st_run. cbn [st_started st_i negb]. reflexivity.
      + cbn [negb]. change {| st_started := false; st_i := i + 1; st_done := false |} with (st_wait (i + 1)).
        rewrite IH.
        replace (i + 1 + Z.max 0 (rf_start rf - (i + 1)) + 1) with (i + Z.max 0 (rf_start rf - i) + 1) by lia.
        replace (Z.to_nat (rf_start rf - i)) with (S (Z.to_nat (rf_start rf - (i + 1)))) by lia.
        reflexivity.
  Qed.

(* started, `![`: nothing until the end item, which is written unless `e` *)
Lemma gfeed_index_started_not {A} rf excl eg : forall (ys : list A) i,
  gfeed (index_matcher rf) excl eg true (st_run i) ys =
  if eg && (-1 <? rf_end rf) && negb excl
  then firstn 1 (skipn (Z.to_nat (Z.max 1 (rf_end rf - i + 1)) - 1) ys) else [].
Proof.
  induction ys as [|b r IH]; intros i.
  - destruct (eg && (-1 <? rf_end rf) && negb excl); [rewrite skipn_nil|]; reflexivity.
  - cbn [gfeed st_run st_done]. unfold gstep, st_run. cbn [st_started st_i negb index_matcher m_end].
    destruct eg; cbn [andb].
    + destruct (-1 <? rf_end rf) eqn:He; cbn [andb].
      * destruct (rf_end rf <? i + 1) eqn:Hlt.
        -- rewrite gfeed_done. replace (Z.to_nat (Z.max 1 (rf_end rf - i + 1)) - 1)%nat with 0%nat by lia.
           destruct excl; reflexivity.
        -- change {| st_started := true; st_i := i + 1; st_done := false |} with (st_run (i + 1)).
           rewrite IH. rewrite ?He. cbn [andb].
           replace (Z.to_nat (Z.max 1 (rf_end rf - i + 1)) - 1)%nat
             with (S (Z.to_nat (Z.max 1 (rf_end rf - (i + 1) + 1)) - 1)) by lia.
           reflexivity.
      * change {| st_started := true; st_i := i; st_done := false |} with (st_run i).
        rewrite IH. rewrite ?He. reflexivity.
    + change {| st_started := true; st_i := i; st_done := false |} with (st_run i).
      rewrite IH. reflexivity.
Qed.

Lemma skipn_skipn' {A} : forall (b a : nat) (l : list A), skipn a (skipn b l) = skipn (b + a) l.
Proof.
  induction b as [|b IH]; intros a l; [reflexivity|].
  destruct l as [|x l]; [rewrite !skipn_nil; reflexivity|]. cbn [skipn Nat.add]. apply IH.
Qed.

(* `![ s..e ]`, 1 <= s <= e: item e alone (if the list is that long) *)
Theorem range_not_s_e : forall rx (xs : list bytes) ps pe s e,
  atoi ps = Some s -> atoi pe = Some e -> 1 <= s <= e ->
  range_filter2 rx KIndex {| f_not := true; f_rmbs := false; f_blank := false; f_trim := false |}
                (mkp ps pe false) xs
  = Ok (firstn 1 (skipn (Z.to_nat (e - 1)) xs)).
Proof.
  intros rx xs ps pe s e Hs He H. unfold range_filter2, matcher_of.
  assert (Hn : new_index (mkp ps pe false) = Ok ({| rf_start := s - 1; rf_end := e |}, false)).
  { unfold new_index. cbn [rp_start rp_end rp_excl mkp].
    rewrite (nonempty_not_empty _ _ Hs), (nonempty_not_empty _ _ He), Hs, He.
    replace (s <? 0) with false by lia. replace (0 <? s) with true by lia. cbn [andb negb].
    repeat f_equal. lia. }
  rewrite Hn. cbn [obind]. f_equal.
  replace (prep _ xs) with xs by (unfold prep; cbn; symmetry; apply map_id).
  cbn [rp_start rp_end rp_excl mkp f_not].
  rewrite (nonempty_not_empty _ _ Hs), (nonempty_not_empty _ _ He). cbn [negb].
  change {| st_started := false; st_i := 0; st_done := false |} with (st_wait 0).
  rewrite gfeed_index_waiting. rewrite gfeed_index_started_not.
  cbn [rf_start rf_end]. replace (-1 <? e) with true by lia. cbn [andb negb].
  rewrite Nat.add_0_r. rewrite skipn_skipn'. f_equal. f_equal. lia.
Qed.

(* `[s..e]n` / `@[s..e]`, 1 <= s <= e: the same slice counted from zero *)
Theorem range_number_s_e : forall rx (xs : list bytes) ps pe s e,
  atoi ps = Some s -> atoi pe = Some e -> 1 <= s <= e ->
  range_filter2 rx KNumber no_flags (mkp ps pe false) xs = Ok (slice1 (s + 1) (e + 1) xs).
Proof.
  intros rx xs ps pe s e Hs He H. unfold range_filter2, matcher_of, new_number.
  assert (Hn : new_index (mkp ps pe false) = Ok ({| rf_start := s - 1; rf_end := e |}, false)).
  { unfold new_index. cbn [rp_start rp_end rp_excl mkp].
    rewrite (nonempty_not_empty _ _ Hs), (nonempty_not_empty _ _ He), Hs, He.
    replace (s <? 0) with false by lia. replace (0 <? s) with true by lia. cbn [andb negb].
    repeat f_equal. lia. }
  rewrite Hn. cbn [obind rf_start rf_end]. f_equal. rewrite prep_no_flags.
  cbn [f_not no_flags].
  set (p' := mkp ps pe false).
  change false with (rp_excl p') at 1.
  rewrite (gfeed_index_feed p' {| rf_start := s - 1 + 1; rf_end := e + 1 |}).
  unfold p'. cbn [rp_start mkp]. rewrite (nonempty_not_empty _ _ Hs).
  change {| st_started := false; st_i := 0; st_done := false |} with (st_wait 0).
  rewrite feed_waiting, feed_started. unfold phaseB, has_end.
  cbn [rp_start rp_end rp_excl mkp rf_start rf_end]. rewrite (nonempty_not_empty _ _ He).
  replace (-1 <? e + 1) with true by lia. cbn [negb andb].
  unfold slice1, zfirstn, zskipn. rewrite Nat.add_0_r. f_equal; [lia|f_equal; lia].
Qed.

(* ---------- flags: 8 / b / t only preprocess the items ---------- *)

Theorem flags_are_preprocessing : forall rx k f p xs,
  matcher_of rx k p (Z.of_nat (length xs)) = matcher_of rx k p (Z.of_nat (length (prep f xs))) ->
  range_filter2 rx k f p xs =
  range_filter2 rx k {| f_not := f_not f; f_rmbs := false; f_blank := false; f_trim := false |} p (prep f xs).
Proof.
  intros rx k f p xs H. unfold range_filter2. rewrite H. cbn [f_not].
  replace (prep {| f_not := f_not f; f_rmbs := false; f_blank := false; f_trim := false |} (prep f xs))
    with (prep f xs) by (unfold prep at 1; cbn; symmetry; apply map_id).
  reflexivity.
Qed.

(* ---------- totality and order for every matcher, flag and parameter ---------- *)

Lemma matcher_of_clean rx k p n : clean (matcher_of rx k p n).
Proof.
  unfold matcher_of, new_number, new_index. destruct k; try (split; discriminate).
  all: destruct (atoi _); [|split; discriminate]; destruct (atoi _); split; discriminate.
Qed.

Theorem run_range2_total : forall rx fm k f p xs, clean (run_range2 rx fm k f p xs).
Proof.
  intros rx fm k f p xs. unfold run_range2, range_filter2.
  destruct (matcher_of_clean rx k p (Z.of_nat (length xs))) as [H1 H2].
  destruct (matcher_of rx k p (Z.of_nat (length xs))); cbn [obind]; try contradiction; try (split; discriminate).
  destruct (gfeed _ _ _ _ _ _); [destruct fm|]; split; discriminate.
Qed.

Lemma gfeed_subseq {A} (m : matcher A) excl eg isnot : forall xs st,
  subseq (gfeed m excl eg isnot st xs) xs.
Proof.
  induction xs as [|b rest IH]; intros st; cbn [gfeed]; [constructor|].
  destruct (st_done st).
  - clear. generalize (b :: rest). induction l; constructor; assumption.
  - destruct (gstep m excl eg isnot st b) as [st' w]. destruct w; constructor; apply IH.
Qed.

Lemma subseq_refl {A} (l : list A) : subseq l l.
Proof. induction l; constructor; assumption. Qed.

Lemma subseq_trans {A} : forall (c b a : list A), subseq a b -> subseq b c -> subseq a c.
Proof.
  induction c as [|z c IH]; intros b a Hab Hbc.
  - inversion Hbc; subst. exact Hab.
  - inversion Hbc; subst.
    + constructor. apply (IH b a Hab H1).
    + inversion Hab; subst.
      * apply sub_skip. apply (IH l1 a H2 H1).
      * apply sub_keep. apply (IH l1 l0 H2 H1).
Qed.

Lemma filter_subseq {A} (p : A -> bool) (l : list A) : subseq (filter p l) l.
Proof. induction l as [|x l IH]; cbn [filter]; [constructor|]. destruct (p x); constructor; exact IH. Qed.

Lemma prep_subseq f xs : f_rmbs f = false -> f_trim f = false -> subseq (prep f xs) xs.
Proof.
  intros H1 H2. unfold prep. rewrite H1, H2.
  replace (map _ xs) with xs by (symmetry; apply map_id).
  destruct (f_blank f); [apply filter_subseq|apply subseq_refl].
Qed.

(* whatever the matcher, `![` or not, with or without `b`: the output order is the input order *)
Theorem range2_order : forall rx k f p xs out,
  f_rmbs f = false -> f_trim f = false ->
  range_filter2 rx k f p xs = Ok out -> subseq out xs.
Proof.
  intros rx k f p xs out H1 H2. unfold range_filter2.
  destruct (matcher_of rx k p (Z.of_nat (length xs))); cbn [obind]; try discriminate.
  intros E; inversion E; subst.
  apply (subseq_trans xs (prep f xs)); [apply gfeed_subseq|apply prep_subseq; assumption].
Qed.

(* ---------- the model satisfies the predicate the check evaluates (all cases) ---------- *)

Definition mk2 (fm : rfmt) (k : mkind) (f : rflags) (s e : bytes) (x : bool) (xs : list bytes) : case :=
  {| c_fmt := fm; c_kind := k; c_flags := f; c_start := s; c_end := e; c_excl := x; c_items := xs;
     c_obs := obs_of (run_range2 simple_rx fm k f (mkp s e x) xs) |}.

Lemma mk2_plain fm s e x xs : mk2 fm KIndex no_flags s e x xs = mk fm s e x xs.
Proof.
  unfold mk2, mk. f_equal. unfold run_range2, run_range. rewrite range_filter2_index. reflexivity.
Qed.

Theorem model_meets_spec2 : forall fm k f s e x xs,
  classify (mk2 fm k f s e x xs) = 0%N -> spec_ok (mk2 fm k f s e x xs) = true.
Proof.
  intros fm k f s e x xs Hc.
  destruct (plain_case (mk2 fm k f s e x xs)) eqn:Hp.
  - (* index matcher, no flag: the theorem of Proof/Range.v *)
    assert (k = KIndex /\ f = no_flags) as [-> ->].
    { unfold plain_case, mk2 in Hp. cbn [c_kind c_flags] in Hp.
      destruct k; try discriminate. destruct f as [a b c d]. cbn in Hp.
      destruct a, b, c, d; try discriminate. split; reflexivity. }
    rewrite mk2_plain in *. apply model_meets_spec. exact Hc.
  - unfold spec_ok. rewrite Hp. unfold mk2. cbn [c_obs c_flags c_items].
    pose proof (run_range2_total simple_rx fm k f (mkp s e x) xs) as [T1 T2].
    unfold run_range2 in *.
    destruct (range_filter2 simple_rx k f (mkp s e x) xs) as [l| | |] eqn:Er; try contradiction.
    + destruct (f_rmbs f || f_trim f) eqn:Hf.
      * destruct l as [|y l']; [destruct fm|]; cbn [obs_of no_panic o_class o_items N.eqb orb negb andb];
          rewrite ?andb_false_r; reflexivity.
      * pose proof Hf as Hf'. apply orb_false_iff in Hf' as [F1 F2].
        pose proof (range2_order _ _ _ _ _ _ F1 F2 Er) as Hs. apply subseq_is_subseq in Hs.
        destruct l as [|y l']; [destruct fm|]; cbn [obs_of no_panic o_class o_items N.eqb orb negb andb];
          try reflexivity; try (destruct xs; reflexivity); rewrite Hs; reflexivity.
    + reflexivity.
Qed.
