(* C26 — proofs about the LTS model of the named-pipe registry. *)
From Coq Require Import Lia List NArith Bool.
From Murex Require Import Base.Outcome Model.NamedPipes Check.C26.

(* ------------------------------------------------------------------ *)
(* the sorted association list *)

Lemma has_insert x n t r : has x (insert n t r) = N.eqb n x || has x r.
Proof.
  induction r as [|[k v] r IH]; cbn [insert has]; [reflexivity|].
  destruct (N.ltb n k); cbn [has]; [reflexivity|].
  rewrite IH. destruct (N.eqb n x), (N.eqb k x); reflexivity.
Qed.

Lemma has_remove x n r : has x (remove n r) = negb (N.eqb n x) && has x r.
Proof.
  induction r as [|[k v] r IH]; cbn [remove has]; [rewrite andb_false_r; reflexivity|].
  destruct (N.eqb_spec k n) as [->|Hkn]; cbn [has]; rewrite IH.
  - destruct (N.eqb n x); reflexivity.
  - destruct (N.eqb_spec n x) as [->|Hnx]; cbn [negb andb]; [|reflexivity].
    destruct (N.eqb_spec k x); [congruence|reflexivity].
Qed.

Lemma has_In x r : has x r = true <-> In x (map fst r).
Proof.
  induction r as [|[k v] r IH]; cbn [has map fst In]; [split; [discriminate|tauto]|].
  rewrite orb_true_iff, IH, N.eqb_eq. tauto.
Qed.

Lemma has_false_notin x r : has x r = false -> ~ In x (map fst r).
Proof. intros H Hin. apply has_In in Hin. congruence. Qed.

Lemma nodup_insert n t r :
  has n r = false -> NoDup (map fst r) -> NoDup (map fst (insert n t r)).
Proof.
  induction r as [|[k v] r IH]; intros Hn Hd; cbn [insert].
  - cbn. constructor; [tauto|constructor].
  - destruct (N.ltb n k).
    + cbn [map fst]. constructor; [exact (has_false_notin _ _ Hn)|exact Hd].
    + cbn [has] in Hn. apply orb_false_iff in Hn. destruct Hn as [Hkn Hn].
      cbn [map fst] in *. inversion Hd as [|? ? Hk Hd']; subst. constructor.
      * intro Hin. apply has_In in Hin. rewrite has_insert in Hin.
        apply orb_true_iff in Hin. destruct Hin as [Hin|Hin].
        -- rewrite N.eqb_sym in Hin. congruence.
        -- apply Hk. apply has_In. exact Hin.
      * apply IH; assumption.
Qed.

Lemma nodup_remove n r : NoDup (map fst r) -> NoDup (map fst (remove n r)).
Proof.
  induction r as [|[k v] r IH]; intro Hd; cbn [remove]; [constructor|].
  cbn [map fst] in Hd. inversion Hd as [|? ? Hk Hd']; subst.
  destruct (N.eqb k n); [apply IH; exact Hd'|].
  cbn [map fst]. constructor; [|apply IH; exact Hd'].
  intro Hin. apply has_In in Hin. rewrite has_remove in Hin. apply andb_prop in Hin.
  apply Hk. apply has_In. tauto.
Qed.

Lemma in_insert p n t r : In p r -> In p (insert n t r).
Proof.
  induction r as [|[k v] r IH]; intro H; cbn [insert]; [contradiction|].
  destruct (N.ltb n k); [right; exact H|].
  destruct H as [H|H]; [left; exact H|right; apply IH; exact H].
Qed.

Lemma in_remove k v n r : In (k, v) r -> k <> n -> In (k, v) (remove n r).
Proof.
  induction r as [|[k' v'] r IH]; intros H Hn; cbn [remove]; [contradiction|].
  destruct H as [H|H].
  - injection H as -> ->. destruct (N.eqb_spec k n); [congruence|left; reflexivity].
  - destruct (N.eqb k' n); [apply IH; assumption|right; apply IH; assumption].
Qed.

(* ------------------------------------------------------------------ *)
(* the multiset of pending closes *)

Lemma take_in n l l' : take n l = Some l' -> In n l /\ incl l' l.
Proof.
  revert l'. induction l as [|x l IH]; intros l' H; cbn [take] in H; [discriminate|].
  destruct (N.eqb_spec x n) as [->|Hx].
  - injection H as <-. split; [left; reflexivity|intros y Hy; right; exact Hy].
  - destruct (take n l) as [l''|]; [|discriminate]. injection H as <-.
    destruct (IH _ eq_refl) as [H1 H2]. split; [right; exact H1|].
    intros y [Hy|Hy]; [left; exact Hy|right; apply H2; exact Hy].
Qed.

Lemma take_some n l : In n l -> exists l', take n l = Some l'.
Proof.
  induction l as [|x l IH]; intro H; [contradiction|]. cbn [take].
  destruct (N.eqb_spec x n) as [->|Hx]; [eexists; reflexivity|].
  destruct H as [H|H]; [congruence|]. destruct (IH H) as [l' ->]. eexists; reflexivity.
Qed.

Lemma take_other n x l l' : take n l = Some l' -> In x l -> x <> n -> In x l'.
Proof.
  revert l'. induction l as [|y l IH]; intros l' H Hin Hx; [contradiction|]. cbn [take] in H.
  destruct (N.eqb_spec y n) as [->|Hy].
  - injection H as <-. destruct Hin as [Hin|Hin]; [congruence|exact Hin].
  - destruct (take n l) as [l''|]; [|discriminate]. injection H as <-.
    destruct Hin as [Hin|Hin]; [left; exact Hin|right; apply (IH _ eq_refl); assumption].
Qed.

(* ------------------------------------------------------------------ *)
(* invariant of every reachable state, for every interleaving *)

Record Inv (s : st) : Prop := {
  inv_nodup : NoDup (map fst (reg s));
  inv_null : In (0, 0)%N (reg s);
  inv_pend : ~ In 0%N (pend s)
}.

Lemma inv0 : Inv st0.
Proof.
  split; cbn.
  - constructor; [tauto|constructor].
  - left; reflexivity.
  - tauto.
Qed.

Lemma inv_step s o : Inv s -> Inv (fst (step s o)).
Proof.
  intros [Hd Hn Hp]. destruct o as [n|n|n|n|n| |n]; cbn [step].
  - destruct (has n (reg s)) eqn:E; cbn [fst]; [split; assumption|].
    split; cbn [reg pend]; [apply nodup_insert; assumption|apply in_insert; exact Hn|exact Hp].
  - destruct (has n (reg s)) eqn:E; cbn [fst]; [split; assumption|].
    split; cbn [reg pend]; [apply nodup_insert; assumption|apply in_insert; exact Hn|exact Hp].
  - destruct (negb (has n (reg s))); cbn [fst]; [split; assumption|].
    destruct (N.eqb_spec n 0) as [->|Hn0]; cbn [fst]; [split; assumption|].
    split; cbn [reg pend]; [exact Hd|exact Hn|]. intros [H|H]; [congruence|exact (Hp H)].
  - destruct (negb (has n (reg s))); cbn [fst]; [split; assumption|].
    destruct (N.eqb_spec n 0) as [->|Hn0]; cbn [fst]; [split; assumption|].
    split; cbn [reg pend]; [apply nodup_remove; exact Hd| |exact Hp].
    apply in_remove; [exact Hn|congruence].
  - split; assumption.
  - split; assumption.
  - destruct (take n (pend s)) as [p'|] eqn:E; cbn [fst]; [|split; assumption].
    apply take_in in E. destruct E as [Hin Hincl].
    split; cbn [reg pend]; [apply nodup_remove; exact Hd| |].
    + apply in_remove; [exact Hn|]. intro E0. apply Hp. rewrite E0. exact Hin.
    + intro H. apply Hp. apply Hincl. exact H.
Qed.

Lemma inv_run ops : forall s, Inv s -> Inv (run s ops).
Proof.
  induction ops as [|o ops IH]; intros s H; cbn [run]; [exact H|]. apply IH. apply inv_step. exact H.
Qed.

(* T1: names are unique among live pipes, in every reachable state *)
Lemma names_unique ops : NoDup (map fst (reg (run st0 ops))).
Proof. apply (inv_run ops st0 inv0). Qed.

(* T2: the null pipe is never closed, deleted or replaced *)
Lemma null_pipe_protected ops :
  In (0, 0)%N (reg (run st0 ops)) /\
  (forall t, In (0%N, t) (reg (run st0 ops)) -> t = 0%N) /\
  ~ In 0%N (pend (run st0 ops)).
Proof.
  destruct (inv_run ops st0 inv0) as [Hd Hn Hp]. split; [exact Hn|]. split; [|exact Hp].
  intros t Ht. revert Hd Hn Ht. generalize (reg (run st0 ops)) as r.
  induction r as [|[k v] r IH]; intros Hd Hn Ht; [contradiction|].
  cbn [map fst] in Hd. inversion Hd as [|? ? Hk Hd']; subst.
  destruct Hn as [Hn|Hn], Ht as [Ht|Ht].
  - congruence.
  - injection Hn as -> ->. exfalso. apply Hk. apply in_map_iff. exists (0%N, t). auto.
  - injection Ht as -> ->. exfalso. apply Hk. apply in_map_iff. exists (0%N, 0%N). auto.
  - apply IH; assumption.
Qed.

(* T3: an operation on a missing pipe returns an error and changes nothing *)
Lemma missing_pipe_errors s n :
  has n (reg s) = false ->
  step s (Close n) = (s, RErr) /\ step s (Delete n) = (s, RErr) /\ step s (Get n) = (s, RErr).
Proof. intro H. cbn [step]. rewrite H. cbn [negb]. auto. Qed.

(* T4: a closed pipe disappears after its grace period.  A successful Close
   leaves a pending Fire; it stays pending whatever else happens; and when it
   runs the name is gone. *)
Lemma close_leaves_pending s n :
  snd (step s (Close n)) = ROk -> In n (pend (fst (step s (Close n)))).
Proof.
  cbn [step]. destruct (negb (has n (reg s))); [discriminate|].
  destruct (N.eqb n 0); [discriminate|]. intros _. left; reflexivity.
Qed.

Lemma pending_persists s o n :
  In n (pend s) -> o <> Fire n -> In n (pend (fst (step s o))).
Proof.
  intros H Ho. destruct o as [m|m|m|m|m| |m]; cbn [step].
  - destruct (has m (reg s)); exact H.
  - destruct (has m (reg s)); exact H.
  - destruct (negb (has m (reg s))); [exact H|]. destruct (N.eqb m 0); [exact H|right; exact H].
  - destruct (negb (has m (reg s))); [exact H|]. destruct (N.eqb m 0); exact H.
  - exact H.
  - exact H.
  - destruct (take m (pend s)) as [p'|] eqn:E; [|exact H]. cbn [fst pend].
    eapply take_other; [exact E|exact H|]. intro E'. apply Ho. rewrite E'. reflexivity.
Qed.

Lemma closed_pipe_disappears s n :
  In n (pend s) -> has n (reg (fst (step s (Fire n)))) = false.
Proof.
  intro H. cbn [step]. destruct (take_some _ _ H) as [p' ->]. cbn [fst reg].
  rewrite has_remove, N.eqb_refl. reflexivity.
Qed.

(* T5: no step of the registry panics, for every interleaving of API calls and Fires *)
Lemma step_never_panics s o : snd (step s o) <> RPanic.
Proof.
  destruct o as [n|n|n|n|n| |n]; cbn [step].
  - destruct (has n (reg s)); discriminate.
  - destruct (has n (reg s)); discriminate.
  - destruct (negb (has n (reg s))); [discriminate|]. destruct (N.eqb n 0); discriminate.
  - destruct (negb (has n (reg s))); [discriminate|]. destruct (N.eqb n 0); discriminate.
  - cbn [snd]. destruct (has n (reg s)); discriminate.
  - discriminate.
  - destruct (take n (pend s)); discriminate.
Qed.

Lemma registry_never_panics ops : forall s, ~ In RPanic (results s ops).
Proof.
  induction ops as [|o ops IH]; intros s H; cbn [results] in H; [contradiction|].
  destruct H as [H|H]; [exact (step_never_panics s o H)|exact (IH _ H)].
Qed.

(* ------------------------------------------------------------------ *)
(* the predicate of the check holds on the model, for every list of phases *)

Definition api (o : op) : Prop := match o with Fire _ => False | _ => True end.

Lemma inb_In n l : inb n l = true <-> In n l.
Proof.
  unfold inb. rewrite existsb_exists. split.
  - intros [x [Hx E]]. apply N.eqb_eq in E. subst. exact Hx.
  - intro H. exists n. split; [exact H|apply N.eqb_refl].
Qed.

Lemma inb_filter x f l : inb x (filter f l) = inb x l && f x.
Proof.
  induction l as [|a l IH]; [reflexivity|]. cbn [filter].
  change (inb x (a :: l)) with (N.eqb x a || inb x l).
  destruct (f a) eqn:Fa.
  - change (inb x (a :: filter f l)) with (N.eqb x a || inb x (filter f l)). rewrite IH.
    destruct (N.eqb_spec x a) as [->|Hx]; [rewrite Fa; reflexivity|reflexivity].
  - rewrite IH. destruct (N.eqb_spec x a) as [->|Hx]; [rewrite Fa, !andb_false_r; reflexivity|reflexivity].
Qed.

Lemma nodupb_NoDup l : NoDup l -> nodupb l = true.
Proof.
  induction 1 as [|x l Hx Hd IH]; [reflexivity|]. cbn [nodupb]. rewrite IH, andb_true_r.
  apply negb_true_iff. destruct (inb x l) eqn:E; [|reflexivity]. apply inb_In in E. contradiction.
Qed.

(* the bookkeeping relation between a model state and (L, C) of spec_ok *)
Record Rel (s : st) (L C : list N) : Prop := {
  rel_names : forall n, has n (reg s) = inb n L;
  rel_pend : pend s = C;
  rel_inv : Inv s
}.

Lemma names_match_ok s L C : Rel s L C -> names_match L (reg s) = true.
Proof.
  intros [Hn _ [Hd H0 _]]. unfold names_match. repeat (apply andb_true_intro; split).
  - apply nodupb_NoDup. exact Hd.
  - apply forallb_forall. intros n Hin. apply inb_In. apply has_In. rewrite Hn. apply inb_In. exact Hin.
  - apply forallb_forall. intros n Hin. rewrite <- Hn. apply has_In. exact Hin.
  - apply existsb_exists. exists (0, 0)%N. split; [exact H0|reflexivity].
Qed.

Lemma ops_ok_model ops : forall s L C,
  Rel s L C -> Forall api ops ->
  exists L' C', ops_ok L C ops (results s ops) = Some (L', C') /\ Rel (run s ops) L' C'.
Proof.
  induction ops as [|o ops IH]; intros s L C HR Hapi.
  - exists L, C. split; [reflexivity|exact HR].
  - inversion Hapi as [|? ? Ho Hapi']; subst.
    pose proof (inv_step s o (rel_inv _ _ _ HR)) as HI'.
    destruct HR as [Hn Hp HI]. cbn [results run ops_ok].
    destruct o as [n|n|n|n|n| |n]; cbn [step] in *; try contradiction.
    + (* Create *)
      rewrite <- Hn. destruct (has n (reg s)) eqn:E; cbn [fst snd] in *.
      * apply IH; [split; assumption|exact Hapi'].
      * apply IH; [|exact Hapi']. split; cbn [reg pend]; [|exact Hp|exact HI'].
        intro x. rewrite has_insert. change (inb x (n :: L)) with (N.eqb x n || inb x L).
        rewrite Hn, (N.eqb_sym n x). reflexivity.
    + (* Expose *)
      rewrite <- Hn. destruct (has n (reg s)) eqn:E; cbn [fst snd] in *.
      * apply IH; [split; assumption|exact Hapi'].
      * apply IH; [|exact Hapi']. split; cbn [reg pend]; [|exact Hp|exact HI'].
        intro x. rewrite has_insert. change (inb x (n :: L)) with (N.eqb x n || inb x L).
        rewrite Hn, (N.eqb_sym n x). reflexivity.
    + (* Close *)
      unfold usable. rewrite <- Hn. destruct (has n (reg s)) eqn:E; cbn [negb andb fst snd] in *.
      * destruct (N.eqb n 0) eqn:E0; cbn [negb fst snd] in *.
        -- apply IH; [split; assumption|exact Hapi'].
        -- apply IH; [|exact Hapi']. split; cbn [reg pend]; [exact Hn|rewrite Hp; reflexivity|exact HI'].
      * apply IH; [split; assumption|exact Hapi'].
    + (* Delete *)
      unfold usable. rewrite <- Hn. destruct (has n (reg s)) eqn:E; cbn [negb andb fst snd] in *.
      * destruct (N.eqb n 0) eqn:E0; cbn [negb fst snd] in *.
        -- apply IH; [split; assumption|exact Hapi'].
        -- apply IH; [|exact Hapi']. split; cbn [reg pend]; [|exact Hp|exact HI'].
           intro x. rewrite has_remove. unfold dropb. rewrite inb_filter, Hn, (N.eqb_sym n x).
           apply andb_comm.
      * apply IH; [split; assumption|exact Hapi'].
    + (* Get *)
      rewrite <- Hn. cbn [fst snd]. destruct (has n (reg s)) eqn:E;
        (apply IH; [split; assumption|exact Hapi']).
    + (* Dump *)
      cbn [fst snd]. rewrite (names_match_ok s L C) by (split; assumption).
      apply IH; [split; assumption|exact Hapi'].
Qed.

(* waiting out the grace period: every pending close fires, head first *)
Lemma fire_all_run l : forall r,
  run {| reg := r; pend := l |} (map Fire l)
  = {| reg := fold_left (fun r x => remove x r) l r; pend := [] |}.
Proof.
  induction l as [|x l IH]; intro r; cbn [map run fold_left]; [reflexivity|].
  cbn [step pend take]. rewrite N.eqb_refl. cbn [fst reg]. apply IH.
Qed.

Lemma has_fold_remove x l : forall r,
  has x (fold_left (fun r y => remove y r) l r) = has x r && negb (inb x l).
Proof.
  induction l as [|y l IH]; intro r; cbn [fold_left]; [cbn; rewrite andb_true_r; reflexivity|].
  rewrite IH, has_remove. change (inb x (y :: l)) with (N.eqb x y || inb x l).
  rewrite (N.eqb_sym y x). destruct (N.eqb x y), (has x r), (inb x l); reflexivity.
Qed.

Lemma fire_all_rel s L C :
  Rel s L C -> Rel (fire_all s) (filter (fun n => negb (inb n C)) L) [].
Proof.
  intros [Hn Hp HI]. unfold fire_all.
  assert (Inv (run s (map Fire (pend s)))) as HI' by (apply inv_run; exact HI).
  destruct s as [r p]. cbn [reg pend] in *. rewrite fire_all_run in *. subst p.
  split; cbn [reg pend]; [|reflexivity|exact HI'].
  intro x. rewrite has_fold_remove, inb_filter, Hn. reflexivity.
Qed.

Lemma phases_ok_model phases : forall s L,
  Rel s L [] -> Forall (Forall api) phases ->
  phases_ok L phases (run_phases s phases) = true.
Proof.
  induction phases as [|ops ps IH]; intros s L HR Hapi; [reflexivity|].
  inversion Hapi as [|? ? Ha Hapi']; subst. cbn [run_phases phases_ok po_res po_dump].
  destruct (ops_ok_model ops s L [] HR Ha) as [L1 [C [E HR1]]]. rewrite E.
  pose proof (fire_all_rel _ _ _ HR1) as HR2.
  rewrite (names_match_ok _ _ _ HR2). cbn [andb]. apply IH; assumption.
Qed.

Lemma rel0 : Rel st0 [0%N] [].
Proof.
  split; [|reflexivity|exact inv0]. intro n. cbn [st0 reg has inb existsb].
  rewrite (N.eqb_sym n 0). reflexivity.
Qed.

(* Headline: for every list of phases of API calls *)
Lemma model_meets_spec phases :
  Forall (Forall api) phases ->
  run_ok {| r_phases := phases; r_obs := Survived (run_phases st0 phases) |} = true.
Proof. intro H. unfold run_ok. cbn [r_obs r_phases]. apply phases_ok_model; [exact rel0|exact H]. Qed.

Lemma model_meets_spec_batch batch storms :
  Forall (Forall (Forall api)) batch ->
  spec_ok {| c_runs := map (fun phases => {| r_phases := phases;
                                             r_obs := Survived (run_phases st0 phases) |}) batch;
             c_storms := map (fun kwr => {| s_pipes := fst (fst kwr); s_workers := snd (fst kwr);
                                            s_races := snd kwr;
                                            s_obs := StormSurvived false 0 (reg st0) |}) storms |} = true.
Proof.
  intro H. unfold spec_ok. cbn [c_runs c_storms]. apply andb_true_intro. split.
  - apply forallb_forall. intros r Hr.
    apply in_map_iff in Hr. destruct Hr as [phases [<- Hin]].
    apply model_meets_spec. rewrite Forall_forall in H. apply H. exact Hin.
  - apply forallb_forall. intros r Hr. apply in_map_iff in Hr. destruct Hr as [kw [<- _]]. reflexivity.
Qed.

(* the rounds of a storm: on a name that is not registered, create/get/dump/delete
   and create/get/close/fire both give the registry back as it was *)
Lemma remove_absent n r : has n r = false -> remove n r = r.
Proof.
  induction r as [|[k v] r IH]; intro H; cbn [remove]; [reflexivity|].
  cbn [has] in H. apply orb_false_iff in H. destruct H as [Hk Hr].
  rewrite Hk. rewrite IH by exact Hr. reflexivity.
Qed.

Lemma remove_insert n t r : has n r = false -> remove n (insert n t r) = r.
Proof.
  induction r as [|[k v] r IH]; intro H; cbn [insert].
  - cbn [remove]. rewrite N.eqb_refl. reflexivity.
  - pose proof H as H'. cbn [has] in H'. apply orb_false_iff in H'. destruct H' as [Hk Hr].
    destruct (N.ltb n k).
    + cbn [remove]. rewrite N.eqb_refl, Hk. rewrite (remove_absent _ _ Hr). reflexivity.
    + cbn [remove]. rewrite Hk. rewrite IH by exact Hr. reflexivity.
Qed.

Lemma storm_round_restores s n :
  has n (reg s) = false -> n <> 0%N ->
  reg (run s [Create n; Get n; Dump; Delete n]) = reg s /\
  reg (run s [Create n; Get n; Close n; Fire n]) = reg s /\
  results s [Create n; Get n; Dump] = [ROk; ROk; RNames (insert n 1 (reg s))].
Proof.
  intros H Hn.
  assert (has n (insert n 1 (reg s)) = true) as Hin by (rewrite has_insert, N.eqb_refl; reflexivity).
  assert (N.eqb n 0 = false) as Hn0 by (apply N.eqb_neq; exact Hn).
  split; [|split].
  - cbn [run step]. rewrite H. cbn [fst reg pend]. rewrite Hin. cbn [negb fst].
    rewrite Hn0. cbn [fst reg]. apply remove_insert. exact H.
  - cbn [run step]. rewrite H. cbn [fst reg pend]. rewrite Hin. cbn [negb fst].
    rewrite Hn0. cbn [fst reg pend take]. rewrite N.eqb_refl. cbn [fst reg]. apply remove_insert. exact H.
  - cbn [results step]. rewrite H. cbn [fst snd reg]. rewrite Hin. reflexivity.
Qed.

(* racing rounds: of any number of Create n steps on a free name, taken in any
   order (they are the same step), exactly the first succeeds; the others are
   refused and change nothing; afterwards n is registered once *)
Lemma create_refused s n : has n (reg s) = true -> step s (Create n) = (s, RErr).
Proof. intro H. cbn [step]. rewrite H. reflexivity. Qed.

Lemma create_race_one_winner s n k :
  has n (reg s) = false ->
  results s (repeat (Create n) (S k)) = ROk :: repeat RErr k /\
  reg (run s (repeat (Create n) (S k))) = insert n 1 (reg s).
Proof.
  intro H. cbn [repeat results run step]. rewrite H. cbn [fst snd].
  set (s1 := {| reg := insert n 1 (reg s); pend := pend s |}).
  assert (has n (reg s1) = true) as H1 by (cbn [s1 reg]; rewrite has_insert, N.eqb_refl; reflexivity).
  assert (forall j, results s1 (repeat (Create n) j) = repeat RErr j /\ run s1 (repeat (Create n) j) = s1) as Hj.
  { induction j as [|j [IH1 IH2]]; [split; reflexivity|].
    cbn [repeat results run]. rewrite (create_refused _ _ H1). cbn [fst snd]. rewrite IH1, IH2. split; reflexivity. }
  destruct (Hj k) as [E1 E2]. rewrite E1, E2. split; reflexivity.
Qed.
