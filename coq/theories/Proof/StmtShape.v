(* C08 -- non-interference of the statement parser: the structure of the
   parameter list is a function of the source text alone. *)
From Coq Require Import Lia.
From Murex Require Import Base.Outcome Base.Bytes Model.StmtParse.
Open Scope N_scope.

Notation spst := (pst (list slot) (list pshape)).
Notation cpst := (pst bytes (list bytes)).

(* ---------- instantiation lemmas ---------- *)

Lemma inst_app e a : forall b,
  inst e (a ++ b) = obind (inst e a) (fun x => obind (inst e b) (fun y => Ok (x ++ y))).
Proof.
  induction a as [|[c|n] a IH]; intro b; cbn [List.app inst].
  - cbn. destruct (inst e b); reflexivity.
  - rewrite IH. destruct (inst e a); cbn; try reflexivity. destruct (inst e b); reflexivity.
  - destruct (lookup_scalar e n); cbn; try reflexivity. rewrite IH.
    destruct (inst e a); cbn; try reflexivity. destruct (inst e b); cbn; try reflexivity.
    rewrite app_assoc. reflexivity.
Qed.

Lemma inst_params_app e a : forall b,
  inst_params e (a ++ b)
  = obind (inst_params e a) (fun x => obind (inst_params e b) (fun y => Ok (x ++ y))).
Proof.
  induction a as [|[sl|n] a IH]; intro b; cbn [List.app inst_params].
  - cbn. destruct (inst_params e b); reflexivity.
  - destruct (inst e sl); cbn; try reflexivity. rewrite IH.
    destruct (inst_params e a); cbn; try reflexivity. destruct (inst_params e b); reflexivity.
  - destruct (c_arr e [] n); cbn; try reflexivity. rewrite IH.
    destruct (inst_params e a); cbn; try reflexivity. destruct (inst_params e b); cbn; try reflexivity.
    rewrite app_assoc. reflexivity.
Qed.

Lemma c_arr_prefix e p n : c_arr e p n = obind (c_arr e [] n) (fun els => Ok (p ++ els)).
Proof.
  unfold c_arr. destruct (assoc n (e_arrays e)) as [[|x els]|].
  - reflexivity.
  - reflexivity.
  - destruct (assoc n (e_scalars e)); reflexivity.
Qed.

Lemma inst_has_lit e t : existsb is_slit t = true -> forall v, inst e t = Ok v -> v <> [].
Proof.
  induction t as [|[c|n] t IH]; intros H v Hv; cbn in H; [discriminate| |].
  - cbn in Hv. destruct (inst e t); cbn in Hv; inversion Hv. discriminate.
  - cbn [inst] in Hv. destruct (lookup_scalar e n) as [x| | |]; cbn in Hv; try discriminate.
    destruct (inst e t) as [w| | |] eqn:E; cbn in Hv; try discriminate. inversion Hv; subst.
    intro Hnil. apply app_eq_nil in Hnil as [_ Hw]. exact (IH H w eq_refl Hw).
Qed.

(* the emptiness test: when the shape parser can decide, it decides right *)
Lemma empty_sim e t v b :
  inst e t = Ok v -> s_empty t = Ok b -> c_empty v = Ok b.
Proof.
  intros Hv Hb. unfold s_empty in Hb. destruct t as [|x t].
  - cbn in Hv. inversion Hv; subst. inversion Hb; subst. reflexivity.
  - destruct (existsb is_slit (x :: t)) eqn:E; [|discriminate].
    inversion Hb; subst. unfold c_empty. pose proof (inst_has_lit e _ E v Hv) as Hne.
    destruct v; [contradiction|reflexivity].
Qed.

(* ---------- the simulation relation ---------- *)

Definition inst_pst (e : env) (s : spst) : Outcome cpst :=
  obind (inst e (p_cmd _ _ s)) (fun c =>
  obind (inst_params e (p_params _ _ s)) (fun ps =>
  obind (inst e (p_tmp _ _ s)) (fun t =>
  Ok {| p_cmd := c; p_params := ps; p_tmp := t; p_zl := p_zl _ _ s;
        p_glob := p_glob _ _ s; p_esc := p_esc _ _ s |}))).

Definition R (e : env) (s : spst) (c : cpst) : Prop := inst_pst e s = Ok c.

Lemma R_inv e s c : R e s c ->
  inst e (p_cmd _ _ s) = Ok (p_cmd _ _ c) /\
  inst_params e (p_params _ _ s) = Ok (p_params _ _ c) /\
  inst e (p_tmp _ _ s) = Ok (p_tmp _ _ c) /\
  p_zl _ _ s = p_zl _ _ c /\ p_glob _ _ s = p_glob _ _ c /\ p_esc _ _ s = p_esc _ _ c.
Proof.
  unfold R, inst_pst. intro H.
  destruct (inst e (p_cmd _ _ s)); cbn in H; try discriminate.
  destruct (inst_params e (p_params _ _ s)); cbn in H; try discriminate.
  destruct (inst e (p_tmp _ _ s)); cbn in H; try discriminate.
  inversion H; subst; cbn. repeat split; reflexivity.
Qed.

Lemma R_intro e s c :
  inst e (p_cmd _ _ s) = Ok (p_cmd _ _ c) ->
  inst_params e (p_params _ _ s) = Ok (p_params _ _ c) ->
  inst e (p_tmp _ _ s) = Ok (p_tmp _ _ c) ->
  p_zl _ _ s = p_zl _ _ c -> p_glob _ _ s = p_glob _ _ c -> p_esc _ _ s = p_esc _ _ c ->
  R e s c.
Proof.
  intros H1 H2 H3 H4 H5 H6. unfold R, inst_pst. rewrite H1, H2, H3. cbn.
  rewrite H4, H5, H6. destruct c; reflexivity.
Qed.

Notation snext := (next_param (list slot) (list pshape) [] s_empty (fun p t => p ++ [POne t])).
Notation cnext := (next_param bytes (list bytes) [] c_empty (fun p t => p ++ [t])).

Lemma inst_params_snoc e ps t a b :
  inst_params e ps = Ok a -> inst e t = Ok b -> inst_params e (ps ++ [POne t]) = Ok (a ++ [b]).
Proof.
  intros Ha Hb. rewrite inst_params_app, Ha. cbn. rewrite Hb. reflexivity.
Qed.

Lemma next_sim e s c s' :
  R e s c -> snext s = Ok s' -> exists c', cnext c = Ok c' /\ R e s' c'.
Proof.
  intros HR Hs. destruct (R_inv _ _ _ HR) as (Hc & Hp & Ht & Hz & Hg & He).
  unfold next_param in *.
  destruct (s_empty (p_cmd _ _ s)) as [ce| | |] eqn:Ece; cbn [obind] in Hs; try discriminate.
  rewrite (empty_sim _ _ _ _ Hc Ece). cbn [obind].
  destruct ce.
  - inversion Hs; subst. eexists. split; [reflexivity|].
    apply R_intro; cbn; try assumption; reflexivity.
  - rewrite <- Hg, <- Hz.
    destruct (p_glob _ _ s).
    + inversion Hs; subst. eexists. split; [reflexivity|].
      apply R_intro; cbn; try assumption; try reflexivity.
      apply inst_params_snoc; assumption.
    + destruct (p_zl _ _ s).
      * inversion Hs; subst. eexists. split; [reflexivity|].
        apply R_intro; cbn; try assumption; try reflexivity.
        apply inst_params_snoc; assumption.
      * destruct (s_empty (p_tmp _ _ s)) as [te| | |] eqn:Ete; cbn [obind] in Hs; try discriminate.
        rewrite (empty_sim _ _ _ _ Ht Ete). cbn [obind].
        destruct te.
        -- inversion Hs; subst. eexists. split; [reflexivity|]. exact HR.
        -- inversion Hs; subst. eexists. split; [reflexivity|].
           apply R_intro; cbn; try assumption; try reflexivity.
           apply inst_params_snoc; assumption.
Qed.

(* ---------- one step ---------- *)

Notation saction := (action (list slot) (list pshape)).
Notation caction := (action bytes (list bytes)).

Definition Ract (e : env) (a : saction) (b : caction) : Prop :=
  match a, b with
  | Cont s k, Cont c k' => k = k' /\ R e s c
  | Stop s, Stop c => R e s c
  | _, _ => False
  end.

Lemma R_set_esc e s c b : R e s c -> R e (set_esc _ _ s b) (set_esc _ _ c b).
Proof.
  intro HR. destruct (R_inv _ _ _ HR) as (Hc & Hp & Ht & Hz & Hg & He).
  apply R_intro; cbn; assumption || reflexivity.
Qed.
Lemma R_set_glob e s c : R e s c -> R e (set_glob _ _ s) (set_glob _ _ c).
Proof.
  intro HR. destruct (R_inv _ _ _ HR) as (Hc & Hp & Ht & Hz & Hg & He).
  apply R_intro; cbn; assumption || reflexivity.
Qed.

Notation sapp := (app (list slot) (list pshape) s_app).
Notation sapp_zl := (app_zl (list slot) (list pshape) s_app).

Lemma app_sim e s c sl k a b :
  R e s c -> app (list slot) (list pshape) s_app s sl k = Ok a -> app bytes (list bytes) (c_app e) c sl k = Ok b -> Ract e a b.
Proof.
  intros HR Ha Hb. destruct (R_inv _ _ _ HR) as (Hc & Hp & Ht & Hz & Hg & He).
  unfold app, s_app, c_app in *. cbn [obind] in Ha. inversion Ha; subst; clear Ha.
  destruct (inst e sl) as [v| | |] eqn:Ev; cbn [obind] in Hb; try discriminate.
  inversion Hb; subst; clear Hb. cbn. split; [reflexivity|].
  apply R_intro; cbn; try assumption. rewrite inst_app, Ht. cbn. rewrite Ev. reflexivity.
Qed.

Lemma app_zl_sim e s c sl k a b :
  R e s c -> app_zl (list slot) (list pshape) s_app s sl k = Ok a -> app_zl bytes (list bytes) (c_app e) c sl k = Ok b -> Ract e a b.
Proof.
  intros HR Ha Hb. destruct (R_inv _ _ _ HR) as (Hc & Hp & Ht & Hz & Hg & He).
  unfold app_zl, s_app, c_app in *. cbn [obind] in Ha. inversion Ha; subst; clear Ha.
  destruct (inst e sl) as [v| | |] eqn:Ev; cbn [obind] in Hb; try discriminate.
  inversion Hb; subst; clear Hb. cbn. split; [reflexivity|].
  apply R_intro; cbn; try assumption; try reflexivity.
  rewrite inst_app, Ht. cbn. rewrite Ev. reflexivity.
Qed.

Lemma lit1_sim e s c ch a b :
  R e s c -> lit1 (list slot) (list pshape) s_app s ch = Ok a -> lit1 bytes (list bytes) (c_app e) c ch = Ok b -> Ract e a b.
Proof. unfold lit1. apply app_sim. Qed.

Lemma flush_cont_sim e s c a b :
  R e s c ->
  flush_cont (list slot) (list pshape) [] s_empty (fun p t => p ++ [POne t]) s = Ok a ->
  flush_cont bytes (list bytes) [] c_empty (fun p t => p ++ [t]) c = Ok b -> Ract e a b.
Proof.
  intros HR Ha Hb. unfold flush_cont in *.
  destruct (snext s) as [s'| | |] eqn:Es; cbn [obind] in Ha; try discriminate.
  destruct (next_sim _ _ _ _ HR Es) as (c' & Ec & HR').
  rewrite Ec in Hb. cbn [obind] in Hb. inversion Ha; inversion Hb; subst. cbn. auto.
Qed.

Lemma flush_stop_sim e s c a b :
  R e s c ->
  flush_stop (list slot) (list pshape) [] s_empty (fun p t => p ++ [POne t]) s = Ok a ->
  flush_stop bytes (list bytes) [] c_empty (fun p t => p ++ [t]) c = Ok b -> Ract e a b.
Proof.
  intros HR Ha Hb. unfold flush_stop in *.
  destruct (snext s) as [s'| | |] eqn:Es; cbn [obind] in Ha; try discriminate.
  destruct (next_sim _ _ _ _ HR Es) as (c' & Ec & HR').
  rewrite Ec in Hb. cbn [obind] in Hb. inversion Ha; inversion Hb; subst. cbn. auto.
Qed.

(* a brace quote the shape parser accepts never consults a variable *)
Lemma dec_brace_no_lookup home tbl lk l : forall st cur k r,
  dec_brace home tbl (fun _ => Err 98) st cur k l = Ok r ->
  dec_brace home tbl lk st cur k l = Ok r.
Proof.
  induction l as [|ch l IH]; intros st cur k r H; [discriminate|].
  cbn [dec_brace] in *.
  assert (Hcnt : forall st cur k r,
            cnt (dec_brace home tbl (fun _ => Err 98) st cur k l) = Ok r ->
            cnt (dec_brace home tbl lk st cur k l) = Ok r).
  { intros st0 cur0 k0 r0 H0.
    destruct (dec_brace home tbl (fun _ => Err 98) st0 cur0 k0 l) as [[v n]| | |] eqn:E;
      cbn in H0; try discriminate.
    rewrite (IH _ _ _ _ E). exact H0. }
  destruct k as [|k]; [|apply Hcnt; exact H].
  destruct (ch =? 36).
  - destruct (scan_scalar l); try discriminate; try (apply Hcnt; exact H).
  - destruct (ch =? 126).
    + destruct (scan_tilde l); [apply Hcnt; exact H|discriminate].
    + destruct (ch =? 40); [apply Hcnt; exact H|].
      destruct (ch =? 41).
      * destruct st; [exact H|apply Hcnt; exact H].
      * apply Hcnt; exact H.
Qed.

Lemma arr_sim e ps pc n p' :
  inst_params e ps = Ok pc -> c_arr e pc n = Ok p' -> inst_params e (ps ++ [PArr n]) = Ok p'.
Proof.
  intros Hp Ha. rewrite c_arr_prefix in Ha.
  rewrite inst_params_app, Hp. cbn [obind inst_params].
  destruct (c_arr e [] n) as [els| | |]; cbn [obind] in *; try discriminate.
  inversion Ha; subst. rewrite app_nil_r. reflexivity.
Qed.

Notation sstep := (step (list slot) (list pshape) [] s_app s_empty (fun _ => Err 98)
                        (fun p t => p ++ [POne t]) s_arr).
Notation cstep e := (step bytes (list bytes) [] (c_app e) c_empty (lookup_scalar e)
                          (fun p t => p ++ [t]) (c_arr e)).

Ltac use_empty Hc :=
  match goal with
  | Hs : context [obind (s_empty ?t) _], Hi : inst ?e ?t = Ok ?v |- _ =>
    let b := fresh "b" in let E := fresh "E" in
    destruct (s_empty t) as [b| | |] eqn:E; cbn [obind] in Hs; try discriminate;
    rewrite (empty_sim _ _ _ _ Hi E) in Hc; cbn [obind] in Hc
  end.

Ltac leaf :=
  first
    [ discriminate
    | solve [eapply lit1_sim; [|eassumption|eassumption]; auto using R_set_esc, R_set_glob]
    | solve [eapply app_sim; [|eassumption|eassumption]; auto using R_set_esc, R_set_glob]
    | solve [eapply app_zl_sim; [|eassumption|eassumption]; auto using R_set_esc, R_set_glob]
    | solve [eapply flush_cont_sim; [|eassumption|eassumption]; auto using R_set_esc, R_set_glob]
    | solve [eapply flush_stop_sim; [|eassumption|eassumption]; auto using R_set_esc, R_set_glob]
    | solve [match goal with
             | Ha : Ok _ = Ok ?a, Hb : Ok _ = Ok ?b |- _ =>
               inversion Ha; inversion Hb; subst; cbn; auto using R_set_esc
             end] ].

Lemma step_sim cf e s c prev ch tl a b :
  R e s c -> sstep cf s prev ch tl = Ok a -> cstep e cf c prev ch tl = Ok b -> Ract e a b.
Proof.
  intros HR Hs Hc. destruct (R_inv _ _ _ HR) as (Hcmd & Hp & Ht & Hz & Hg & He).
  unfold step in Hs, Hc. rewrite <- He in Hc.
  destruct (p_esc _ _ s).
  { repeat match type of Hs with
           | context [if ?x then _ else _] => destruct x
           end; leaf. }
  repeat match type of Hs with
         | (if ?x then _ else _) = _ => destruct x eqn:?
         end; try leaf.
  all: try (repeat first [ use_empty Hc
                         | match type of Hs with
                           | context [if ?x then _ else _] => destruct x
                           end ]; leaf).
  all: try solve [destruct (scan_tilde tl); leaf].
  all: try solve [
    destruct (dec_brace (c_home cf) (c_ansi cf) (fun _ => Err 98) [] [] 0 (List.tl tl))
      as [[v n]| | |] eqn:Eb; try discriminate;
    rewrite (dec_brace_no_lookup _ _ (lookup_scalar e) _ _ _ _ _ Eb) in Hc; leaf].
  all: try solve [destruct (dec_single [] tl) as [[v n]| | |]; leaf].
  all: try solve [destruct (dec_double (c_home cf) false [] 0 tl) as [[v n]| | |]; leaf].
  all: try solve [destruct (scan_scalar tl); leaf].
  (* at *)
  destruct (span is_bare tl) as [name after].
    destruct (negb (name_ok name)); [discriminate|].
    assert (Harr :
      obind (snext s) (fun s1 => obind (s_empty (p_cmd _ _ s1)) (fun ce =>
        if ce then Err 98 else obind (s_arr (p_params _ _ s1) name) (fun p' =>
          Ok (Cont (set_params _ _ s1 p') (length name))))) = Ok a ->
      obind (cnext c) (fun s1 => obind (c_empty (p_cmd _ _ s1)) (fun ce =>
        if ce then Err 98 else obind (c_arr e (p_params _ _ s1) name) (fun p' =>
          Ok (Cont (set_params _ _ s1 p') (length name))))) = Ok b -> Ract e a b).
    { clear Hs Hc. intros Hs Hc.
      destruct (snext s) as [s1| | |] eqn:Es; cbn [obind] in Hs; try discriminate.
      destruct (next_sim _ _ _ _ HR Es) as (c1 & Ec & HR1). rewrite Ec in Hc. cbn [obind] in Hc.
      destruct (R_inv _ _ _ HR1) as (Hcmd1 & Hp1 & Ht1 & Hz1 & Hg1 & He1).
      destruct (s_empty (p_cmd _ _ s1)) as [ce| | |] eqn:Ece; cbn [obind] in Hs; try discriminate.
      rewrite (empty_sim _ _ _ _ Hcmd1 Ece) in Hc. cbn [obind] in Hc.
      destruct ce; [discriminate|]. unfold s_arr in Hs. cbn [obind] in Hs.
      destruct (c_arr e (p_params _ _ c1) name) as [p'| | |] eqn:Ea; cbn [obind] in Hc; try discriminate.
      inversion Hs; inversion Hc; subst. cbn. split; [reflexivity|].
      apply R_intro; cbn; try assumption. eapply arr_sim; eassumption. }
    destruct after as [|x after]; [exact (Harr Hs Hc)|].
    destruct (x =? 91) eqn:E91.
    + apply N.eqb_eq in E91. subst x. discriminate.
    + assert (forall A (u v : A), match x with 91 => u | _ => v end = v) as Hx.
      { intros A u v. destruct x as [|p]; [reflexivity|].
        repeat (destruct p as [p|p|]; try reflexivity). discriminate. }
      rewrite Hx in Hs, Hc. exact (Harr Hs Hc).
Qed.

(* ---------- the whole run ---------- *)

Notation srun := (run (list slot) (list pshape) [] s_app s_empty (fun _ => Err 98)
                      (fun p t => p ++ [POne t]) s_arr).
Notation crun e := (run bytes (list bytes) [] (c_app e) c_empty (lookup_scalar e)
                        (fun p t => p ++ [t]) (c_arr e)).

Lemma result_sim e s c n :
  R e s c ->
  instantiate e (mk_result (list slot) (list pshape) s n) = Ok (mk_result bytes (list bytes) c n).
Proof.
  intro HR. destruct (R_inv _ _ _ HR) as (Hcmd & Hp & Ht & Hz & Hg & He).
  unfold instantiate, mk_result. cbn. rewrite Hcmd, Hp. reflexivity.
Qed.

Lemma run_sim cf e src : forall s c k prev sh r,
  R e s c -> srun cf s k prev src = Ok sh -> crun e cf c k prev src = Ok r ->
  instantiate e sh = Ok r.
Proof.
  induction src as [|ch tl IH]; intros s c k prev sh r HR Hs Hc.
  - cbn [run] in Hs, Hc.
    destruct (snext s) as [s'| | |] eqn:Es; cbn [obind] in Hs; try discriminate.
    destruct (next_sim _ _ _ _ HR Es) as (c' & Ec & HR'). rewrite Ec in Hc. cbn [obind] in Hc.
    inversion Hs; inversion Hc; subst. apply result_sim. exact HR'.
  - cbn [run] in Hs, Hc. destruct k as [|k].
    + destruct (sstep cf s prev ch tl) as [a| | |] eqn:Ea; try discriminate.
      destruct (cstep e cf c prev ch tl) as [b| | |] eqn:Eb; try discriminate.
      pose proof (step_sim _ _ _ _ _ _ _ _ _ HR Ea Eb) as HA.
      destruct a as [s' k'|s']; destruct b as [c' k''|c']; cbn in HA; try contradiction.
      * destruct HA as [-> HR']. eapply IH; eassumption.
      * inversion Hs; inversion Hc; subst. apply result_sim. exact HA.
    + eapply IH; eassumption.
Qed.

Lemma R0 e : R e (pst0 (list slot) (list pshape) [] []) (pst0 bytes (list bytes) [] []).
Proof. reflexivity. Qed.

(* NON-INTERFERENCE: whenever the shape of a source text exists (it is computed
   without any value) and murex parses the statement, the command, the
   parameter list and the stop position are exactly the shape with the values
   filled in. *)
Theorem params_are_shape_instantiated cf e src sh r :
  parse_shape cf src = Ok sh -> parse_stmt_raw cf e src = Ok r -> instantiate e sh = Ok r.
Proof. unfold parse_shape, parse_stmt_raw. intros Hs Hc. eapply run_sim; [apply R0|eassumption|eassumption]. Qed.

(* never a new command: where the statement ends does not depend on the values *)
Theorem no_new_command cf e1 e2 src sh r1 r2 :
  parse_shape cf src = Ok sh ->
  parse_stmt_raw cf e1 src = Ok r1 -> parse_stmt_raw cf e2 src = Ok r2 ->
  r_rest r1 = r_rest sh /\ r_rest r2 = r_rest sh /\
  ((forall n, ~ In (PArr n) (r_params sh)) -> length (r_params r1) = length (r_params r2)).
Proof.
  intros Hs H1 H2.
  pose proof (params_are_shape_instantiated _ _ _ _ _ Hs H1) as I1.
  pose proof (params_are_shape_instantiated _ _ _ _ _ Hs H2) as I2.
  unfold instantiate in I1, I2.
  destruct (inst e1 (r_cmd sh)); cbn in I1; try discriminate.
  destruct (inst_params e1 (r_params sh)) as [p1| | |] eqn:P1; cbn in I1; try discriminate.
  destruct (inst e2 (r_cmd sh)); cbn in I2; try discriminate.
  destruct (inst_params e2 (r_params sh)) as [p2| | |] eqn:P2; cbn in I2; try discriminate.
  inversion I1; inversion I2; subst; cbn. repeat split.
  intros Hn. clear - P1 P2 Hn. revert p1 p2 P1 P2.
  induction (r_params sh) as [|[sl|m] ps IH]; intros p1 p2 P1 P2.
  - cbn in *. inversion P1; inversion P2; reflexivity.
  - cbn [inst_params] in P1, P2.
    destruct (inst e1 sl); cbn in P1; try discriminate.
    destruct (inst e2 sl); cbn in P2; try discriminate.
    destruct (inst_params e1 ps) eqn:E1; cbn in P1; try discriminate.
    destruct (inst_params e2 ps) eqn:E2; cbn in P2; try discriminate.
    inversion P1; inversion P2; subst. cbn. f_equal. apply IH; try reflexivity.
    intros n H. apply (Hn n). right. exact H.
  - exfalso. apply (Hn m). left. reflexivity.
Qed.

(* ---------- the property's own terms, for EVERY value ---------- *)

Definition src_scalar : bytes := [102; 32; 36; 120].            (* f $x *)
Definition src_scalar_paren : bytes := [102; 32; 36; 40; 120; 41].  (* f $(x) *)
Definition src_array : bytes := [102; 32; 64; 97].             (* f @a *)
Definition env_x (v : bytes) (more : list (bytes * bytes)) (arrs : list (bytes * list bytes)) : env :=
  {| e_scalars := ([120], v) :: more; e_arrays := arrs |}.
Definition env_a (els : list bytes) (sc : list (bytes * bytes)) (more : list (bytes * list bytes)) : env :=
  {| e_scalars := sc; e_arrays := ([97], els) :: more |}.

Theorem scalar_is_one_param cf v more arrs :
  parse_stmt_raw cf (env_x v more arrs) src_scalar
  = Ok {| r_cmd := [102]; r_params := [crlf_trim v]; r_rest := 0 |} /\
  parse_stmt_raw cf (env_x v more arrs) src_scalar_paren
  = Ok {| r_cmd := [102]; r_params := [crlf_trim v]; r_rest := 0 |}.
Proof.
  split; unfold parse_stmt_raw, src_scalar, src_scalar_paren, env_x; cbn;
    rewrite app_nil_r; reflexivity.
Qed.

Lemma filter_nonempty els : Forall (fun x => x <> []) els -> filter nonempty els = els.
Proof.
  induction 1 as [|x l Hx _ IH]; [reflexivity|]. cbn. destruct x; [contradiction|].
  cbn. rewrite IH. reflexivity.
Qed.

Theorem array_one_param_per_element cf els sc more :
  els <> [] -> Forall (fun x => x <> []) els ->
  parse_stmt_raw cf (env_a els sc more) src_array
  = Ok {| r_cmd := [102]; r_params := els; r_rest := 0 |}.
Proof.
  intros Hne Hall. unfold parse_stmt_raw, src_array, env_a. cbn.
  destruct els as [|x els]; [contradiction|].
  cbn [obind]. rewrite (filter_nonempty _ Hall). reflexivity.
Qed.

(* F08: without the guard an empty element disappears *)
Theorem array_one_param_per_element_refuted :
  exists cf els, els <> [] /\
    parse_stmt_raw cf (env_a els [] []) src_array
    <> Ok {| r_cmd := [102]; r_params := els; r_rest := 0 |}.
Proof.
  exists {| c_home := []; c_ansi := []; c_notok := [] |}, [[120]; []; [121]].
  split; [discriminate|]. vm_compute. discriminate.
Qed.

(* crlf_trim removes at most one LF then at most one CR, nothing else *)
Theorem crlf_trim_spec v :
  exists t, v = crlf_trim v ++ t /\ (t = [] \/ t = [10] \/ t = [13] \/ t = [13; 10]).
Proof.
  assert (Hv : v = rev (rev v)) by (symmetry; apply rev_involutive).
  unfold crlf_trim. destruct (rev v) as [|a r].
  - exists []. rewrite app_nil_r. auto.
  - cbn [rev] in Hv. subst v.
    destruct (N.eq_dec a 10) as [->|Ha10].
    + destruct r as [|b r'].
      * exists [10]. cbn. auto.
      * destruct (N.eq_dec b 13) as [->|Hb].
        -- exists [13; 10]. cbn [rev]. rewrite <- app_assoc. cbn. auto.
        -- exists [10]. split; [|auto]. f_equal.
           destruct b as [|p]; [reflexivity|].
           repeat (destruct p as [p|p|]; try reflexivity). contradiction.
    + destruct (N.eq_dec a 13) as [->|Ha13].
      * exists [13]. cbn. auto.
      * exists []. rewrite app_nil_r. split; [|auto].
        destruct a as [|p]; [reflexivity|].
        repeat (destruct p as [p|p|]; try reflexivity); contradiction.
Qed.

(* ---------- connection with Check.C08 ---------- *)
From Murex Require Import Check.C08.

Lemma spec_trim_is_crlf_trim v : spec_trim v = crlf_trim v.
Proof.
  assert (Hv : v = rev (rev v)) by (symmetry; apply rev_involutive).
  unfold spec_trim, drop_last_if, crlf_trim. destruct (rev v) as [|a r] eqn:E.
  - rewrite E. reflexivity.
  - destruct (a =? 10) eqn:E10.
    + apply N.eqb_eq in E10. subst a. rewrite rev_involutive.
      destruct r as [|b r']; [reflexivity|].
      destruct (b =? 13) eqn:E13.
      * apply N.eqb_eq in E13. subst b. reflexivity.
      * destruct b as [|p]; [reflexivity|].
        repeat (destruct p as [p|p|]; try reflexivity). discriminate.
    + rewrite E. destruct (a =? 13) eqn:E13.
      * apply N.eqb_eq in E13. subst a. reflexivity.
      * destruct a as [|p]; [reflexivity|].
        repeat (destruct p as [p|p|]; try reflexivity); discriminate.
Qed.

Lemma params_eqb_refl l : params_eqb l l = true.
Proof. apply list_eqb_eq; [apply bytes_eqb_eq|reflexivity]. Qed.

(* for EVERY value of x: the model's observation of `f $x` / `f $(x)` satisfies the
   predicate the check evaluates on the implementation *)
Theorem scalar_meets_spec v more arrs home nc :
  spec_ok (model_case src_scalar (env_x v more arrs) home nc (Some [POne [SVar [120]]])) = true /\
  spec_ok (model_case src_scalar_paren (env_x v more arrs) home nc (Some [POne [SVar [120]]])) = true.
Proof.
  destruct (scalar_is_one_param (mk_cfg home nc) v more arrs) as [H1 H2].
  split; unfold spec_ok, model_case, model_obs, block_first, parse_stmt; cbn [k_tmpl k_obs k_src k_env].
  - change (expr_rejected src_scalar) with true. cbn iota. rewrite H1. cbn [obind r_cmd].
    change (in_list [102] (c_notok (mk_cfg home nc))) with false. cbn iota.
    cbn [o_kind o_nfuncs o_rawlen o_cmd o_params o_e2e r_rest r_cmd r_params expected fill value_of env_x e_scalars assoc].
    change (bytes_eqb [120] [120]) with true. cbn iota.
    rewrite spec_trim_is_crlf_trim, app_nil_r, params_eqb_refl. reflexivity.
  - change (expr_rejected src_scalar_paren) with true. cbn iota. rewrite H2. cbn [obind r_cmd].
    change (in_list [102] (c_notok (mk_cfg home nc))) with false. cbn iota.
    cbn [o_kind o_nfuncs o_rawlen o_cmd o_params o_e2e r_rest r_cmd r_params expected fill value_of env_x e_scalars assoc].
    change (bytes_eqb [120] [120]) with true. cbn iota.
    rewrite spec_trim_is_crlf_trim, app_nil_r, params_eqb_refl. reflexivity.
Qed.

(* for every array without an empty element *)
Theorem array_meets_spec els sc more home nc :
  els <> [] -> Forall (fun x => x <> []) els ->
  spec_ok (model_case src_array (env_a els sc more) home nc (Some [PArr [97]])) = true.
Proof.
  intros Hne Hall.
  pose proof (array_one_param_per_element (mk_cfg home nc) els sc more Hne Hall) as H.
  unfold spec_ok, model_case, model_obs, block_first, parse_stmt; cbn [k_tmpl k_obs k_src k_env].
  change (expr_rejected src_array) with true. cbn iota. rewrite H. cbn [obind r_cmd].
  change (in_list [102] (c_notok (mk_cfg home nc))) with false. cbn iota.
  cbn [o_kind o_nfuncs o_rawlen o_cmd o_params o_e2e r_rest r_cmd r_params expected elements_of env_a e_arrays assoc].
  change (bytes_eqb [97] [97]) with true. cbn iota.
  rewrite app_nil_r, params_eqb_refl. reflexivity.
Qed.

Theorem array_spec_refuted :
  exists els, els <> [] /\
    spec_ok (model_case src_array (env_a els [] []) [] false (Some [PArr [97]])) = false /\
    classify (model_case src_array (env_a els [] []) [] false (Some [PArr [97]])) = 1.
Proof. exists [[120]; []; [121]]. split; [discriminate|]. vm_compute. split; reflexivity. Qed.
