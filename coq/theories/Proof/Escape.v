(* C35 — proofs about Model/Escape.v *)
From Coq Require Import Lia ZifyBool ZifyN ZifyNat.
From Murex Require Import Base.Outcome Base.Bytes Model.Escape Check.C35.
Local Open Scope N_scope.

(* ------------------------------------------------------------------ *)
(* url                                                                   *)

Lemma lt16_cases d : d < 16 ->
  d = 0 \/ d = 1 \/ d = 2 \/ d = 3 \/ d = 4 \/ d = 5 \/ d = 6 \/ d = 7 \/
  d = 8 \/ d = 9 \/ d = 10 \/ d = 11 \/ d = 12 \/ d = 13 \/ d = 14 \/ d = 15.
Proof. lia. Qed.

Lemma upperhex_ishex d : d < 16 -> ishex (upperhex d) = true.
Proof.
  intro H. apply lt16_cases in H.
  repeat (destruct H as [H|H]; [subst d; reflexivity|]). subst d; reflexivity.
Qed.

Lemma unhex_upperhex d : d < 16 -> unhex (upperhex d) = d.
Proof.
  intro H. apply lt16_cases in H.
  repeat (destruct H as [H|H]; [subst d; reflexivity|]). subst d; reflexivity.
Qed.

Lemma should_escape_percent c : should_escape c = false -> N.eqb c 37 = false.
Proof.
  intro H. destruct (N.eqb_spec c 37) as [E|E]; [|reflexivity].
  subst c. vm_compute in H. discriminate.
Qed.

Lemma url_roundtrip s : wf_bytes s = true -> url_unescape (url_escape s) = Ok s.
Proof.
  induction s as [|c s IH]; intro W; [reflexivity|].
  cbn [wf_bytes forallb] in W. apply andb_true_iff in W as [Wc Ws].
  fold (wf_bytes s) in Ws. specialize (IH Ws).
  cbn [url_escape]. destruct (should_escape c) eqn:SE.
  - cbn [url_unescape]. rewrite N.eqb_refl.
    assert (Hhi : c / 16 < 16) by (apply N.div_lt_upper_bound; lia).
    assert (Hlo : c mod 16 < 16) by (apply N.mod_lt; lia).
    rewrite (upperhex_ishex _ Hhi), (upperhex_ishex _ Hlo). cbn [andb].
    rewrite (unhex_upperhex _ Hhi), (unhex_upperhex _ Hlo), IH. cbn [omap obind].
    f_equal. f_equal. pose proof (N.div_mod c 16). lia.
  - cbn [url_unescape]. rewrite (should_escape_percent _ SE), IH. reflexivity.
Qed.

(* the bound c < 256 on bytes is what the model needs: 256 does not survive *)
Lemma url_roundtrip_needs_bytes : url_unescape (url_escape [256]) <> Ok [256].
Proof. vm_compute. discriminate. Qed.

(* ------------------------------------------------------------------ *)
(* html                                                                  *)

(* what the round trip needs from html/entity.go *)
Definition ent_ok (ent : bytes -> option bytes) : Prop :=
  ent [97;109;112;59] = Some [38] /\ ent [108;116;59] = Some [60] /\ ent [103;116;59] = Some [62].

Lemma ent_small_ok : ent_ok ent_small.
Proof. repeat split. Qed.

Lemma ent_full_ok : ent_ok ent_full.
Proof. repeat split; vm_compute; reflexivity. Qed.

Lemma entity_amp ent t : ent_ok ent -> unescape_entity ent (38 :: 97 :: 109 :: 112 :: 59 :: t) = ([38], t).
Proof. intros (Ha & _ & _). unfold unescape_entity. cbn. rewrite Ha. reflexivity. Qed.

Lemma entity_lt ent t : ent_ok ent -> unescape_entity ent (38 :: 108 :: 116 :: 59 :: t) = ([60], t).
Proof. intros (_ & Hl & _). unfold unescape_entity. cbn. rewrite Hl. reflexivity. Qed.

Lemma entity_gt ent t : ent_ok ent -> unescape_entity ent (38 :: 103 :: 116 :: 59 :: t) = ([62], t).
Proof. intros (_ & _ & Hg). unfold unescape_entity. cbn. rewrite Hg. reflexivity. Qed.

Lemma entity_39 ent t : unescape_entity ent (38 :: 35 :: 51 :: 57 :: 59 :: t) = ([39], t).
Proof. unfold unescape_entity. cbn. reflexivity. Qed.

Lemma entity_34 ent t : unescape_entity ent (38 :: 35 :: 51 :: 52 :: 59 :: t) = ([34], t).
Proof. unfold unescape_entity. cbn. reflexivity. Qed.

Lemma html_step ent c t f : ent_ok ent ->
  html_unesc ent (S f) (html_rep c ++ t) = omap (cons c) (html_unesc ent f t).
Proof.
  intro E. unfold html_rep.
  destruct (N.eqb_spec c 38) as [->|N38].
  { cbn [app html_unesc N.eqb Pos.eqb]. rewrite (entity_amp _ _ E). reflexivity. }
  destruct (N.eqb_spec c 39) as [->|N39].
  { cbn [app html_unesc N.eqb Pos.eqb]. rewrite entity_39. reflexivity. }
  destruct (N.eqb_spec c 60) as [->|N60].
  { cbn [app html_unesc N.eqb Pos.eqb]. rewrite (entity_lt _ _ E). reflexivity. }
  destruct (N.eqb_spec c 62) as [->|N62].
  { cbn [app html_unesc N.eqb Pos.eqb]. rewrite (entity_gt _ _ E). reflexivity. }
  destruct (N.eqb_spec c 34) as [->|N34].
  { cbn [app html_unesc N.eqb Pos.eqb]. rewrite entity_34. reflexivity. }
  cbn [app html_unesc]. destruct (N.eqb_spec c 38) as [->|_]; [congruence|reflexivity].
Qed.

Lemma html_rep_nonempty c : (1 <= length (html_rep c))%nat.
Proof.
  unfold html_rep.
  repeat match goal with |- context [if ?b then _ else _] => destruct b end; cbn; lia.
Qed.

Lemma html_roundtrip_fuel ent s : ent_ok ent ->
  forall f, (length (html_escape s) < f)%nat -> html_unesc ent f (html_escape s) = Ok s.
Proof.
  intro E. induction s as [|c s IH]; intros f L.
  - destruct f; [cbn in L; lia|reflexivity].
  - cbn [html_escape] in *. rewrite app_length in L. pose proof (html_rep_nonempty c).
    destruct f as [|f]; [lia|]. rewrite (html_step _ _ _ _ E), IH by lia. reflexivity.
Qed.

Lemma html_roundtrip ent s : ent_ok ent -> html_unescape ent (html_escape s) = Ok s.
Proof. intro E. unfold html_unescape. apply html_roundtrip_fuel; [exact E|lia]. Qed.

(* fuel sufficiency on every input: unescapeEntity always consumes at least one byte *)
Lemma scan_num_len hex s x n :
  (length (snd (scan_num hex s x n)) <= length s)%nat.
Proof.
  revert x n; induction s as [|c r IH]; intros x n; cbn [scan_num]; [cbn; lia|].
  destruct (is_digit c); [etransitivity; [apply IH|cbn; lia]|].
  destruct (hex && is_lower_hex c); [etransitivity; [apply IH|cbn; lia]|].
  destruct (hex && is_upper_hex c); [etransitivity; [apply IH|cbn; lia]|].
  cbn; lia.
Qed.

Lemma unescape_entity_consumes ent s : s <> [] ->
  (length (snd (unescape_entity ent s)) < length s)%nat.
Proof.
  intro NE. destruct s as [|c0 [|c1 r]]; [congruence|cbn; lia|].
  unfold unescape_entity. cbn [tl].
  destruct (N.eqb c1 35).
  - destruct (Nat.leb (length (c0 :: c1 :: r)) 3); [cbn; lia|].
    set (h := match r with
              | [] => (false, r, 2%nat)
              | c :: r' => if N.eqb c 120 || N.eqb c 88 then (true, r', 3%nat) else (false, r, 2%nat)
              end).
    assert (Hh : (length (snd (fst h)) <= length r)%nat).
    { subst h. destruct r as [|c r']; [cbn; lia|]. destruct (N.eqb c 120 || N.eqb c 88); cbn; lia. }
    destruct h as [[hex r1] i0]. cbn [fst snd] in Hh.
    pose proof (scan_num_len hex r1 0%Z O) as Hs.
    destruct (scan_num hex r1 0%Z O) as [[x ndig] r2]. cbn [snd] in Hs.
    set (g := match r2 with
              | [] => (0%nat, r2)
              | c :: r' => if N.eqb c 59 then (1%nat, r') else (0%nat, r2)
              end).
    assert (Hg : (length (snd g) <= length r2)%nat).
    { subst g. destruct r2 as [|c r']; [cbn; lia|]. destruct (N.eqb c 59); cbn; lia. }
    destruct g as [semi r3]. cbn [snd] in Hg.
    destruct (Nat.leb (i0 + ndig + semi) 3); cbn [snd length]; lia.
  - set (body := c1 :: r).
    set (n := scan_name body).
    set (semi := match skipn n body with [] => 0%nat | c :: _ => if N.eqb c 59 then 1%nat else 0%nat end).
    assert (Hb : (length body = S (length r))%nat) by reflexivity.
    destruct (n + semi)%nat as [|len'] eqn:EL; [cbn; lia|].
    destruct (ent (firstn (S len') body)).
    + cbn [snd]. rewrite skipn_length. cbn [length]. lia.
    + destruct (prefix_lookup ent (firstn (S len') body) (Nat.min (S len' - 1) longest_entity_without_semicolon))
        as [[o j]|]; cbn [snd]; rewrite skipn_length; cbn [length]; lia.
Qed.

Lemma html_unesc_fuel ent : forall f s, (length s < f)%nat -> html_unesc ent f s <> OutOfFuel.
Proof.
  induction f as [|f IH]; intros s L; [lia|].
  cbn [html_unesc]. destruct s as [|c r]; [discriminate|].
  destruct (N.eqb c 38).
  - pose proof (unescape_entity_consumes ent (c :: r) ltac:(discriminate)) as Hc.
    destruct (unescape_entity ent (c :: r)) as [o rest]. cbn [snd] in Hc.
    specialize (IH rest ltac:(cbn [length] in *; lia)).
    destruct (html_unesc ent f rest); cbn; congruence.
  - specialize (IH r ltac:(cbn [length] in *; lia)).
    destruct (html_unesc ent f r); cbn; congruence.
Qed.

Lemma html_unescape_terminates ent s : html_unescape ent s <> OutOfFuel.
Proof. unfold html_unescape. apply html_unesc_fuel. lia. Qed.

(* html.UnescapeString has no error return: the model never yields Err or Panic either *)
Lemma html_unesc_ok_or_oof ent : forall f s, is_ok (html_unesc ent f s) = true \/ html_unesc ent f s = OutOfFuel.
Proof.
  induction f as [|f IH]; intro s; [right; reflexivity|].
  cbn [html_unesc]. destruct s as [|c r]; [left; reflexivity|].
  destruct (N.eqb c 38).
  - destruct (unescape_entity ent (c :: r)) as [o rest].
    destruct (IH rest) as [H|H]; [left|right].
    + destruct (html_unesc ent f rest); try discriminate; reflexivity.
    + rewrite H; reflexivity.
  - destruct (IH r) as [H|H]; [left|right].
    + destruct (html_unesc ent f r); try discriminate; reflexivity.
    + rewrite H; reflexivity.
Qed.

Lemma html_unescape_total ent s : is_ok (html_unescape ent s) = true.
Proof.
  destruct (html_unesc_ok_or_oof ent (S (length s)) s) as [H|H]; [exact H|].
  exfalso. exact (html_unescape_terminates ent s H).
Qed.

(* ------------------------------------------------------------------ *)
(* the builtins                                                          *)

Section Builtins.
  Variable quote : bytes -> bytes.
  Variable unquote : bytes -> option bytes.
  Variable ent : bytes -> option bytes.

  (* the builtin writes exactly the transform of exactly the bytes it read *)
  Lemma method_is_bytewise isnot s :
    cmd quote unquote ent KHtml isnot s = (if isnot then html_unescape ent s else Ok (html_escape s)) /\
    cmd quote unquote ent KUrl isnot s = (if isnot then url_unescape s else Ok (url_escape s)) /\
    cmd quote unquote ent KEscape false s = Ok (quote s) /\
    (forall u, unquote s = Some u -> cmd quote unquote ent KEscape true s = Ok u).
  Proof.
    repeat split. intros u H. cbn [cmd cmd_escape]. rewrite H. reflexivity.
  Qed.

  Lemma pipeline_html s : ent_ok ent -> pipeline quote unquote ent KHtml s = Ok s.
  Proof. intro E. unfold pipeline. cbn [cmd cmd_html obind]. apply html_roundtrip, E. Qed.

  Lemma pipeline_url s : wf_bytes s = true -> pipeline quote unquote ent KUrl s = Ok s.
  Proof. intro W. unfold pipeline. cbn [cmd cmd_url obind]. apply url_roundtrip, W. Qed.

  (* strconv's documented contract, as a hypothesis *)
  Hypothesis unquote_quote : forall s, unquote (quote s) = Some s.

  Lemma pipeline_escape s : pipeline quote unquote ent KEscape s = Ok s.
  Proof. unfold pipeline. cbn [cmd cmd_escape obind]. rewrite unquote_quote. reflexivity. Qed.
End Builtins.

Lemma out_eqb_refl s : out_eqb (Ok s) (Ok s) = true.
Proof. apply bytes_eqb_refl. Qed.

Lemma model_meets_spec quote unquote :
  (forall s, unquote (quote s) = Some s) ->
  forall k s, wf_bytes s = true -> spec_ok (model_case quote unquote k s) = true.
Proof.
  intros H k s W. unfold spec_ok, model_case. cbn [c_mode c_enc c_dec c_pipe c_in].
  destruct k.
  - rewrite (pipeline_escape quote unquote ent_full H).
    cbn [cmd cmd_escape obind is_ok]. rewrite H, out_eqb_refl. reflexivity.
  - rewrite (pipeline_html quote unquote ent_full s ent_full_ok).
    cbn [cmd cmd_html obind is_ok]. rewrite (html_roundtrip _ _ ent_full_ok), out_eqb_refl. reflexivity.
  - rewrite (pipeline_url quote unquote ent_full s W).
    cbn [cmd cmd_url obind is_ok]. rewrite (url_roundtrip _ W), out_eqb_refl. reflexivity.
Qed.

(* html and url need no hypothesis about strconv *)
Lemma model_meets_spec_html_url quote unquote k s :
  k <> KEscape -> wf_bytes s = true -> spec_ok (model_case quote unquote k s) = true.
Proof.
  intros NK W. unfold spec_ok, model_case. cbn [c_mode c_enc c_dec c_pipe c_in].
  destruct k; [congruence| |].
  - rewrite (pipeline_html quote unquote ent_full s ent_full_ok).
    cbn [cmd cmd_html obind is_ok]. rewrite (html_roundtrip _ _ ent_full_ok), out_eqb_refl. reflexivity.
  - rewrite (pipeline_url quote unquote ent_full s W).
    cbn [cmd cmd_url obind is_ok]. rewrite (url_roundtrip _ W), out_eqb_refl. reflexivity.
Qed.
