(* C06 — the '-' rule of the expression reader (Model/ExprLex.v). *)
From Coq Require Import List NArith ZArith Bool.
From Murex Require Import Base.Outcome Base.Bytes Model.Expr Model.ExprLex.
Import ListNotations.
Open Scope N_scope.

(* after a value (number, string, boolean, null, group) a '-' directly followed
   by a digit is the subtraction operator, whatever the spacing before it *)
Lemma minus_after_value f acc sub d r1 :
  is_digit d = true -> sign_position acc = false ->
  lex (S f) (45 :: d :: r1) acc sub = lex f (d :: r1) (LOp Sub :: acc) sub.
Proof. intros Hd Hs. cbn -[span_while lex]. cbn [lex]. rewrite Hd, Hs. reflexivity. Qed.

(* at the start of an expression or group, or after an operator, it is the sign of a literal *)
Lemma minus_is_sign f acc sub d r1 :
  is_digit d = true -> sign_position acc = true ->
  lex (S f) (45 :: d :: r1) acc sub =
  (let '(t, r') := span_while num_char r1 in lex f r' (LNum (45 :: d :: t) :: acc) sub).
Proof. intros Hd Hs. cbn -[span_while lex]. cbn [lex]. rewrite Hd, Hs. reflexivity. Qed.

(* a '-' followed by a blank is always the operator *)
Lemma minus_then_blank f acc sub r1 :
  lex (S f) (45 :: 32 :: r1) acc sub = lex f (32 :: r1) (LOp Sub :: acc) sub.
Proof. reflexivity. Qed.

Lemma blank_skipped f acc sub r : lex (S f) (32 :: r) acc sub = lex f r acc sub.
Proof. reflexivity. Qed.

(* the spellings of the design notes *)
Example minus_examples :
  lex_expr [49;32;45;51] = Some [LNum [49]; LOp Sub; LNum [51]] /\            (* 1 -3   *)
  lex_expr [49;45;51] = Some [LNum [49]; LOp Sub; LNum [51]] /\               (* 1-3    *)
  lex_expr [49;32;45;32;51] = Some [LNum [49]; LOp Sub; LNum [51]] /\         (* 1 - 3  *)
  lex_expr [49;32;45;32;45;51] = Some [LNum [49]; LOp Sub; LNum [45;51]] /\   (* 1 - -3 *)
  lex_expr [49;45;45;51] = Some [LNum [49]; LOp Sub; LNum [45;51]] /\         (* 1--3   *)
  lex_expr [49;42;45;51] = Some [LNum [49]; LOp Mul; LNum [45;51]] /\         (* 1*-3   *)
  lex_expr [45;51;43;49] = Some [LNum [45;51]; LOp Add; LNum [49]] /\         (* -3+1   *)
  lex_expr [40;45;51;41;45;51] = Some [LGroup [LNum [45;51]]; LOp Sub; LNum [51]].  (* (-3)-3 *)
Proof. repeat split; vm_compute; reflexivity. Qed.
