(* Proofs about the Unsafe verdict of the tokenizer model (C34). *)
From Coq Require Import Lia.
From Murex Require Import Base.Outcome Base.Bytes Model.Tokenizer Check.C34.
Local Open Scope N_scope.

Ltac tree_split :=
  repeat match goal with
  | |- context [if ?b then _ else _] => destruct b eqn:?
  end.

(* every branch of the loop body either leaves Unsafe alone or sets it *)
Lemma switch_sticky pos prev i c tl t :
  t_unsafe t = true -> t_unsafe (s_tok (switch pos prev i c tl t)) = true.
Proof.
  intro H. destruct t. simpl in H. subst.
  unfold switch, sigil, escaped_, add_raw, flow, end_func, pop_add, pop_set, expect_param_, cont, cont_skip, inq, early.
  cbv zeta. cbn -[N.eqb Z.eqb Z.ltb Z.leb is_cmd_unsafe valid_rune enc next_is prev_is app].
  tree_split; cbn -[N.eqb Z.eqb Z.ltb Z.leb is_cmd_unsafe enc next_is prev_is app];
    rewrite ?orb_true_r; reflexivity.
Qed.

Lemma step_sticky pos prev i c tl t :
  t_unsafe t = true -> t_unsafe (s_tok (step pos prev i c tl t)) = true.
Proof.
  intro H. unfold step. cbv zeta.
  assert (H1 : t_unsafe (if t_escaped t then t else set_last_char c t) = true)
    by (destruct (t_escaped t); [exact H|destruct t; exact H]).
  set (t1 := if t_escaped t then t else set_last_char c t) in *. clearbody t1.
  destruct (negb (t_var_sigil t1 =? 0) && t_var_brace t1).
  - destruct (c =? 41); unfold cont, pop_add; cbn [s_tok];
      destruct (t_pop_func t1); destruct t1; exact H1.
  - destruct (negb (t_var_sigil t1 =? 0) && negb (allowed_var_char c)).
    + cbn [s_tok]. apply switch_sticky. destruct t1; exact H1.
    + apply switch_sticky. exact H1.
Qed.

(* once Unsafe is set, no continuation of the line clears it *)
Lemma go_sticky n : forall l pos prev i t h r,
  (length l <= n)%nat -> t_unsafe t = true ->
  tok_go pos prev i t h l = Ok r -> t_unsafe (r_tok r) = true.
Proof.
  induction n as [|n IH]; intros l pos prev i t h r Hlen Hu E.
  - destruct l; [|cbn [length] in Hlen; lia]. cbn [tok_go] in E. inversion E; subst.
    unfold finish; cbn [r_tok]. destruct t; exact Hu.
  - destruct l as [|c tl].
    + cbn [tok_go] in E. inversion E; subst. unfold finish; cbn [r_tok]. destruct t; exact Hu.
    + cbn [tok_go] in E. cbv zeta in E. cbn [length] in Hlen.
      pose proof (step_sticky pos prev i c tl t Hu) as Hs.
      destruct (run_acts (s_acts (step pos prev i c tl t)) h) as [h1| | |]; cbn [obind] in E; try discriminate.
      destruct (s_kind (step pos prev i c tl t)) as [k| |].
      * destruct k as [|[|k]].
        -- eapply IH; [|exact Hs|exact E]. lia.
        -- destruct tl as [|c1 tl1]; [discriminate|]. cbn [length] in Hlen.
           eapply IH; [|exact Hs|exact E]. lia.
        -- destruct tl as [|c1 [|c2 tl2]]; try discriminate. cbn [length] in Hlen.
           eapply IH; [|exact Hs|exact E]. lia.
      * inversion E; subst. cbn [r_tok]. exact Hs.
      * inversion E; subst. unfold finish; cbn [r_tok].
        destruct (s_tok (step pos prev i c tl t)); exact Hs.
Qed.

Lemma unsafe_is_sticky l pos prev i t h r :
  t_unsafe t = true -> tok_go pos prev i t h l = Ok r -> t_unsafe (r_tok r) = true.
Proof. intros Hu E. exact (go_sticky (length l) l pos prev i t h r (le_n _) Hu E). Qed.

(* ---- where the verdict is computed ---- *)

(* a state in which a command name is being read: not escaped, not in quotes,
   not inside a $variable *)
Definition reading_name (t : tok) : Prop :=
  t_escaped t = false /\ t_qs t = false /\ t_qd t = false /\ (t_qb t <=? 0)%Z = true /\
  t_var_sigil t = 0 /\ t_read_func t = true.

Ltac open_state t H :=
  destruct H as (? & ? & ? & ? & ? & ?); destruct t; simpl in *; subst.

(* white space, ':' , ';' , '|' , line feed and '{' end the name: it is looked up *)
Lemma name_judged_at_boundary pos prev i tl t c :
  reading_name t -> pos = 0%Z ->
  In c [32; 59; 124; 10; 123] ->
  t_unsafe (s_tok (step pos prev i c tl t)) =
    (is_cmd_unsafe (t_func t) || t_unsafe t) || (c =? 10) || ((c =? 124) && next_is tl 62).
Proof.
  intros R P Hc. open_state t R.
  assert (Hq : (0 <? t_qb)%Z = false) by lia.
  cbn [In] in Hc. destruct Hc as [<-|[<-|[<-|[<-|[<-|[]]]]]];
    unfold step, switch, flow, end_func, inq, early; cbn -[is_cmd_unsafe]; rewrite ?Hq; cbn -[is_cmd_unsafe].
  - rewrite !orb_false_r. reflexivity.
  - rewrite !orb_false_r. reflexivity.
  - destruct (next_is tl 62); [destruct (next_is (List.tl tl) 62)|]; unfold pop_add; cbn -[is_cmd_unsafe];
      rewrite ?orb_false_r, ?orb_true_r; reflexivity.
  - rewrite !orb_true_r. reflexivity.
  - rewrite !orb_false_r. reflexivity.
Qed.

(* the sigils, the < redirection and the line feed always make the line unsafe *)
Lemma variable_and_redirect_unsafe pos prev i tl t :
  t_escaped t = false -> t_var_sigil t = 0 -> pos = 0%Z ->
  (t_qs t = false -> t_unsafe (s_tok (step pos prev i 36 tl t)) = true) /\
  (t_qs t = false -> next_is tl 32 = false -> next_is tl 9 = false ->
     t_unsafe (s_tok (step pos prev i 64 tl t)) = true) /\
  (t_read_func t = false -> t_expect_func t = false ->
     t_unsafe (s_tok (step pos prev i 60 tl t)) = true) /\
  (inq t = false -> t_unsafe (s_tok (step pos prev i 10 tl t)) = true).
Proof.
  intros He Hv P. destruct t; simpl in *; subst.
  repeat split; intros; subst; unfold step, switch, sigil, flow, end_func, early, inq in *; simpl in *.
  - destruct t_expect_param; unfold expect_param_, pop_add; simpl;
      destruct t_pop_func; simpl; destruct (next_is tl 40); reflexivity.
  - rewrite H0, H1. simpl. destruct t_expect_param; unfold expect_param_, pop_add; simpl;
      destruct t_pop_func; simpl; destruct (next_is tl 40); reflexivity.
  - unfold pop_add; simpl. destruct t_pop_func; reflexivity.
  - rewrite H. simpl. destruct t_read_func; simpl; rewrite ?orb_true_r; reflexivity.
Qed.
