(* Proofs about the ParseBlock dispatcher model (Model/BlockParse.v): under the
   stop-set contract on the sub-parsers the loop never reaches a blk.panic site
   and ends within length + 1 iterations. *)
From Coq Require Import Lia.
From Murex Require Import Base.Outcome Base.Bytes Model.BlockParse.
Local Open Scope Z_scope.

Definition returns {A} (o : Outcome A) : Prop :=
  match o with Ok _ | Err _ => True | _ => False end.

Lemma nth_skipn_ {A} m : forall k (l : list A) d, nth k (skipn m l) d = nth (m + k) l d.
Proof.
  induction m as [|m IH]; intros k l d; [reflexivity|].
  destruct l as [|x l]; cbn [skipn plus nth]; [destruct k; reflexivity|apply IH].
Qed.

Lemma find_nl_ge l : forall i, i <= find_nl l i.
Proof.
  induction l as [|c l IH]; intro i; cbn [find_nl]; [lia|].
  destruct (c =? 10)%N; [lia|]. specialize (IH (i + 1)). lia.
Qed.

Lemma find_nl_spec l : forall i,
  find_nl l i = i + Z.of_nat (length l) \/
  (find_nl l i < i + Z.of_nat (length l) /\ nth (Z.to_nat (find_nl l i - i)) l 0%N = 10%N).
Proof.
  induction l as [|c l IH]; intro i; cbn [find_nl length].
  - left; lia.
  - destruct (N.eqb_spec c 10) as [E|E].
    + right. split; [lia|]. replace (i - i) with 0 by lia. cbn. exact E.
    + destruct (IH (i + 1)) as [H|[H1 H2]].
      * left. lia.
      * right. split; [lia|]. pose proof (find_nl_ge l (i + 1)).
        replace (Z.to_nat (find_nl l (i + 1) - i)) with (S (Z.to_nat (find_nl l (i + 1) - (i + 1)))) by lia.
        cbn [nth]. exact H2.
Qed.

Lemma comment_end_spec src p : 0 <= p ->
  p + 1 <= comment_end src p /\
  (Z.of_nat (length src) <= comment_end src p \/ rune_at src (comment_end src p) = 10%N).
Proof.
  intro Hp. unfold comment_end, drop. split; [apply find_nl_ge|].
  pose proof (find_nl_ge (skipn (Z.to_nat (p + 1)) src) (p + 1)) as Hge.
  destruct (find_nl_spec (skipn (Z.to_nat (p + 1)) src) (p + 1)) as [H|[H1 H2]].
  - left. rewrite H, skipn_length. lia.
  - right. rewrite nth_skipn_ in H2. unfold rune_at.
    destruct (Z.ltb_spec (find_nl (skipn (Z.to_nat (p + 1)) src) (p + 1)) 0); [lia|].
    rewrite <- H2. f_equal. lia.
Qed.

Lemma find_close_ge l : forall i j, find_close l i = Some j -> i <= j.
Proof.
  induction l as [|c l IH]; intros i j H; cbn [find_close] in H; [discriminate|].
  destruct ((c =? 35)%N && match l with x :: _ => (x =? 47)%N | [] => false end).
  - inversion H; lia.
  - apply IH in H. lia.
Qed.

Lemma in_positions n : forall from p, from <= p < from + Z.of_nat n -> In p (positions n from).
Proof.
  induction n as [|n IH]; intros from p H; [lia|]. cbn [positions In].
  destruct (Z.eq_dec from p); [left; assumption|right]. apply IH. lia.
Qed.

Lemma contract_at src orc p :
  contract_b src orc = true -> 0 <= p < Z.of_nat (length src) ->
  (callable src p = true -> ores_good src p (ores_at (o_pre orc) p) = true) /\
  (known_site src p = true -> ores_good src p (ores_at (o_known orc) p) = true).
Proof.
  intros C Hp. unfold contract_b in C.
  pose proof (proj1 (forallb_forall _ _) C p (in_positions (length src) 0 p ltac:(lia))) as H.
  cbv beta in H. apply andb_true_iff in H as [H1 H2]. split; intro E; rewrite E in *; assumption.
Qed.

(* the loop invariant *)
Definition inv (src : list N) (s : bst) : Prop :=
  0 <= b_pos s /\ (b_tree s = true -> at_stop src (b_pos s) = true).

(* what one iteration guarantees *)
Definition step_ok (src : list N) (s : bst) (o : Outcome bst) : Prop :=
  match o with
  | Ok s1 => b_pos s <= b_pos s1 /\ (b_tree s1 = true -> at_stop src (b_pos s1 + 1) = true)
  | Err _ => True
  | _ => False
  end.

Lemma append_returns tree nf s : exists o, append_ tree nf s = o /\
  match o with Ok s1 => b_pos s1 = b_pos s /\ b_tree s1 = b_tree s | Err _ => True | _ => False end.
Proof.
  unfold append_. eexists; split; [reflexivity|].
  destruct (negb tree && b_follow s); [exact I|].
  destruct ((0 <? b_nfn s)%N && negb tree && nf); [exact I|]. cbn. split; reflexivity.
Qed.

Lemma flush_ok src s0 nf s : b_pos s0 <= b_pos s -> step_ok src s0 (flush_tree nf s).
Proof.
  intro H. unfold flush_tree. destruct (append_returns (b_tree s) nf s) as (o & E & P). rewrite E.
  destruct o as [s1| | |]; cbn [omap obind step_ok]; try exact I; try contradiction.
  destruct P as [P1 P2]. cbn [set_tree b_pos b_tree]. split; [lia|discriminate].
Qed.

Lemma use_oracle_ok src s0 p r s :
  b_pos s = p -> b_pos s0 = p -> ores_good src p r = true -> step_ok src s0 (use_oracle r s).
Proof.
  intros Hp H0 G. destruct r as [n| | | |]; cbn [ores_good] in G; try discriminate; cbn [use_oracle step_ok]; [|exact I].
  apply andb_true_iff in G as [G1 G2]. cbn [b_pos b_tree]. split; [lia|]. intros _. rewrite Hp. exact G2.
Qed.

Lemma arrow_ok src s0 s : b_pos s0 <= b_pos s ->
  step_ok src s0 (obind (flush_tree true s) (fun s1 => append_ true true s1)).
Proof.
  intro H. unfold flush_tree. destruct (append_returns (b_tree s) true s) as (o & E & P). rewrite E.
  destruct o as [s1| | |]; cbn [omap obind step_ok]; try exact I; try contradiction.
  destruct P as [P1 P2].
  destruct (append_returns true true (set_tree false s1)) as (o2 & E2 & Q). rewrite E2.
  destruct o2 as [s2| | |]; cbn [step_ok]; try exact I; try contradiction.
  destruct Q as [Q1 Q2]. cbn [set_tree b_pos b_tree] in *. split; [lia|]. rewrite Q2. discriminate.
Qed.

Lemma known_ok src s r tree :
  ores_good src (b_pos s) r = true ->
  step_ok src s (obind (append_ tree true s) (fun s1 => use_oracle r s1)).
Proof.
  intro G. destruct (append_returns tree true s) as (o & E & P). rewrite E.
  destruct o as [s1| | |]; cbn [obind step_ok]; try exact I; try contradiction.
  destruct P as [P1 P2]. eapply use_oracle_ok; [exact P1|reflexivity|exact G].
Qed.

Lemma at_stop_nl src q :
  Z.of_nat (length src) <= q \/ rune_at src q = 10%N -> at_stop src q = true.
Proof.
  intros [H|H]; unfold at_stop.
  - destruct (Z.leb_spec (Z.of_nat (length src)) q); [reflexivity|lia].
  - rewrite H. cbn. apply orb_true_r.
Qed.

Ltac norm_bools :=
  repeat match goal with
  | H : (_ || _) = true |- _ => apply orb_true_iff in H; destruct H
  | H : (_ || _) = false |- _ => apply orb_false_iff in H; destruct H
  | H : (_ && _) = true |- _ => apply andb_true_iff in H; destruct H
  | H : (?x =? _)%N = true |- _ => is_var x; apply N.eqb_eq in H; subst x
  end.

Ltac use_false :=
  repeat match goal with
  | H : (_ =? _)%N = false |- _ => try rewrite H in *; clear H
  end.

Local Arguments append_ : simpl never.
Local Arguments flush_tree : simpl never.
Local Arguments use_oracle : simpl never.

Lemma dispatch_ok src orc s :
  contract_b src orc = true -> inv src s -> b_pos s < Z.of_nat (length src) ->
  step_ok src s (dispatch src orc s).
Proof.
  intros C [Hp Ht] Hlt.
  destruct (contract_at src orc (b_pos s) C ltac:(lia)) as [Cpre Cknown].
  pose proof (comment_end_spec src (b_pos s) Hp) as [Hce1 Hce2].
  apply at_stop_nl in Hce2.
  unfold dispatch, pre_parse. cbv zeta.
  unfold callable, known_site in Cpre, Cknown. unfold at_stop in Ht. cbv zeta in *.
  destruct (Z.leb_spec (Z.of_nat (length src)) (b_pos s)) as [Hle|_]; [lia|]. cbn [orb] in Ht.
  set (r := rune_at src (b_pos s)) in *. set (nx := rune_at src (b_pos s + 1)) in *.
  clearbody r nx.
  destruct (b_tree s) eqn:Etree; [specialize (Ht eq_refl)|clear Ht]; cbn [negb];
  repeat match goal with
  | |- context [if ?b then _ else _] => destruct b eqn:?
  end;
  norm_bools; try discriminate; cbn in *; try discriminate; use_false; cbn in *; try discriminate;
  norm_bools; try discriminate; cbn in *; try discriminate.
  all: try (apply flush_ok; unfold set_pos; cbn [b_pos]; lia).
  all: try (apply arrow_ok; unfold set_pos; cbn [b_pos]; lia).
  all: try (apply known_ok; apply Cknown; reflexivity).
  all: try (eapply use_oracle_ok; [reflexivity|reflexivity|apply Cpre; reflexivity]).
  all: try (split; [unfold set_pos; cbn [b_pos]; lia|unfold set_pos; cbn [b_tree b_pos]; try (rewrite Etree; discriminate)]).
  all: try (intros _; replace (comment_end src (b_pos s) - 1 + 1) with (comment_end src (b_pos s)) by lia; exact Hce2).
  all: try (destruct (find_close (drop (b_pos s + 2) src) (b_pos s + 2)) as [j|] eqn:Ef; [|exact I];
            apply find_close_ge in Ef; split; [unfold set_pos; cbn [b_pos]; lia|unfold set_pos; cbn [b_tree]; rewrite Etree; discriminate]).
Qed.

Lemma init_inv src : inv src init_bst.
Proof. split; cbn; [lia|discriminate]. Qed.

Lemma blk_go_safe src orc : contract_b src orc = true -> forall fuel s,
  inv src s -> Z.max 0 (Z.of_nat (length src) - b_pos s) < Z.of_nat fuel ->
  returns (blk_go fuel src orc s).
Proof.
  intros C fuel. induction fuel as [|f IH]; intros s Hi F; [lia|].
  cbn [blk_go]. destruct (Z.leb_spec (Z.of_nat (length src)) (b_pos s)) as [Hle|Hlt].
  - destruct (append_returns (b_tree s) false s) as (o & E & P). rewrite E.
    destruct o; cbn in *; auto.
  - pose proof (dispatch_ok src orc s C Hi Hlt) as D.
    destruct (dispatch src orc s) as [s1| | |]; cbn [obind step_ok returns] in *; try exact I; try contradiction.
    destruct D as [D1 D2]. apply IH.
    + split; unfold set_pos; cbn [b_pos b_tree]; [destruct Hi; lia|exact D2].
    + unfold set_pos; cbn [b_pos]. lia.
Qed.

(* length + 1 iterations are enough, and no blk.panic site is reached *)
Lemma block_safe_min src orc : contract_b src orc = true ->
  returns (blk_go (length src + 1) src orc init_bst).
Proof.
  intro C. apply blk_go_safe; [exact C|apply init_inv|]. cbn [init_bst b_pos]. lia.
Qed.

Lemma block_safe src orc : contract_b src orc = true -> returns (parse_block src orc).
Proof.
  intro C. unfold parse_block. apply blk_go_safe; [exact C|apply init_inv|]. cbn [init_bst b_pos]. lia.
Qed.
