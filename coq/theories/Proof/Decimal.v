(* Decimal text: strconv.Atoi (strconv.Itoa z) = z for every int64 z.
   Shared by C16, C17 and C18: their theorems quantify over parameter texts with
   `atoi key = Some k`; this file shows that every integer has such a text. *)
From Coq Require Import Lia ZifyBool ZifyN.
From Murex Require Import Base.Outcome Base.Bytes Model.Decimal.
Open Scope N_scope.

Lemma digits_val_acc_app : forall a b acc,
  digits_val_acc acc (a ++ b) =
  match digits_val_acc acc a with Some v => digits_val_acc v b | None => None end.
Proof.
  induction a as [|x a IH]; intros b acc; [reflexivity|]. cbn [app digits_val_acc].
  destruct (is_digit x); [apply IH|reflexivity].
Qed.

Lemma digit_of_mod n : is_digit (48 + n mod 10) = true /\ digit_val (48 + n mod 10) = n mod 10.
Proof.
  assert (H : n mod 10 < 10) by (apply N.mod_lt; discriminate).
  unfold is_digit, digit_val. split; lia.
Qed.

(* the digits produced for n (fuel large enough) read back as n *)
Lemma n_to_dec_fuel_spec : forall f n acc, n < 10 ^ N.of_nat f -> (0 < f)%nat ->
  exists ds, n_to_dec_fuel f n acc = ds ++ acc /\ ds <> [] /\ forallb is_digit ds = true /\
             (forall a, digits_val_acc a ds = Some (a * 10 ^ N.of_nat (length ds) + n)) /\
             (n <> 0 -> forall b r, ds = b :: r -> b <> 48).
Proof.
  induction f as [|f IH]; intros n acc Hn Hf; [lia|].
  cbn [n_to_dec_fuel]. destruct (digit_of_mod n) as [Hd Hv].
  destruct (n / 10 =? 0) eqn:Hq.
  - assert (Hq0 : n / 10 = 0) by lia.
    assert (Hdm0 : n = 10 * (n / 10) + n mod 10) by (apply N.div_mod; discriminate).
    exists [48 + n mod 10]. split; [reflexivity|]. split; [discriminate|]. split; [|split].
    + cbn [forallb]. rewrite Hd. reflexivity.
    + intros a. cbn [digits_val_acc length]. rewrite Hd, Hv. f_equal.
      change (N.of_nat 1) with 1. rewrite N.pow_1_r. lia.
    + intros Hn0 b r E. apply (f_equal (hd 0)) in E. cbn [hd] in E. rewrite <- E.
      assert (Hm : n mod 10 = n) by (rewrite Hq0 in Hdm0; lia). rewrite Hm. lia.
  - assert (Hq' : n / 10 <> 0) by lia.
    assert (Hdm : n = 10 * (n / 10) + n mod 10) by (apply N.div_mod; discriminate).
    assert (Hlt : n / 10 < 10 ^ N.of_nat f).
    { rewrite Nat2N.inj_succ, N.pow_succ_r' in Hn. apply N.div_lt_upper_bound; [discriminate|exact Hn]. }
    assert (Hf' : (0 < f)%nat).
    { destruct f; [|lia]. cbn in Hlt. lia. }
    destruct (IH (n / 10) ((48 + n mod 10) :: acc) Hlt Hf') as [ds [He [Hne [Hall [Hval Hlead]]]]].
    exists (ds ++ [48 + n mod 10]). split; [|split; [|split; [|split]]].
    + rewrite He, <- app_assoc. reflexivity.
    + destruct ds; discriminate.
    + rewrite forallb_app, Hall. cbn [forallb]. rewrite Hd. reflexivity.
    + intros a. rewrite digits_val_acc_app, Hval. cbn [digits_val_acc]. rewrite Hd, Hv. f_equal.
      rewrite app_length. cbn [length]. rewrite Nat.add_1_r, Nat2N.inj_succ, N.pow_succ_r'. lia.
    + intros _ b r E. destruct ds as [|b' r']; [contradiction|]. cbn [app] in E.
      apply (f_equal (hd 0)) in E. cbn [hd] in E. rewrite <- E. apply (Hlead Hq' b' r' eq_refl).
Qed.

Lemma pos_lt_pow2_size p : N.pos p < 2 ^ N.of_nat (Pos.size_nat p).
Proof.
  induction p as [p IH|p IH|]; cbn [Pos.size_nat]; rewrite ?Nat2N.inj_succ, ?N.pow_succ_r'.
  - assert (E : N.pos p~1 = 2 * N.pos p + 1) by reflexivity. rewrite E. lia.
  - assert (E : N.pos p~0 = 2 * N.pos p) by reflexivity. rewrite E. lia.
  - cbn. lia.
Qed.

Lemma n_lt_pow10_fuel n : n < 10 ^ N.of_nat (S (N.size_nat n)).
Proof.
  destruct n as [|p]; [cbn; lia|]. cbn [N.size_nat].
  pose proof (pos_lt_pow2_size p) as H.
  assert (H2 : 2 ^ N.of_nat (Pos.size_nat p) <= 10 ^ N.of_nat (Pos.size_nat p)) by (apply N.pow_le_mono_l; lia).
  rewrite Nat2N.inj_succ, N.pow_succ_r'. lia.
Qed.

Lemma n_to_dec_spec n :
  n_to_dec n <> [] /\ forallb is_digit (n_to_dec n) = true /\ digits_val (n_to_dec n) = Some n.
Proof.
  unfold n_to_dec.
  destruct (n_to_dec_fuel_spec (S (N.size_nat n)) n [] (n_lt_pow10_fuel n) ltac:(lia)) as [ds [He [Hne [Hall [Hval _]]]]].
  rewrite He, app_nil_r. repeat split; [exact Hne|exact Hall|].
  unfold digits_val. destruct ds; [contradiction|]. rewrite Hval. f_equal; lia.
Qed.

(* no leading zero *)
Lemma n_to_dec_lead_nonzero n : n <> 0 -> forall b r, n_to_dec n = b :: r -> b <> 48.
Proof.
  intros Hn b r E. unfold n_to_dec in E.
  destruct (n_to_dec_fuel_spec (S (N.size_nat n)) n [] (n_lt_pow10_fuel n) ltac:(lia)) as [ds [He [_ [_ [_ Hl]]]]].
  rewrite He, app_nil_r in E. apply (Hl Hn b r E).
Qed.

Open Scope Z_scope.

(* strconv.Atoi (strconv.Itoa z) = z on the whole int64 range *)
Theorem atoi_itoa : forall z, int_min <= z <= int_max -> atoi (itoa z) = Some z.
Proof.
  intros z Hz. destruct z as [|p|p]; cbn [itoa].
  - reflexivity.
  - destruct (n_to_dec_spec (N.pos p)) as [Hne [Hall Hv]].
    unfold atoi. destruct (n_to_dec (N.pos p)) as [|b r] eqn:E; [contradiction|].
    cbn [forallb] in Hall. apply andb_true_iff in Hall as [Hb _].
    assert (b <> 45%N /\ b <> 43%N) as [N1 N2] by (unfold is_digit in Hb; lia).
    destruct (N.eq_dec b 45); [contradiction|]. destruct (N.eq_dec b 43); [contradiction|].
    replace (match b with 45%N => _ | 43%N => _ | _ => _ end)
      with (match digits_val (b :: r) with
            | Some n => let z := Z.of_N n in if z <=? int_max then Some z else None
            | None => None end).
    + rewrite Hv. cbn zeta. replace (Z.of_N (N.pos p) <=? int_max) with true by (unfold int_max in *; lia). reflexivity.
    + destruct b as [|q]; [reflexivity|]. repeat (destruct q as [q|q|]; try reflexivity); contradiction.
  - destruct (n_to_dec_spec (N.pos p)) as [Hne [Hall Hv]].
    unfold atoi. rewrite Hv. cbn zeta.
    replace (int_min <=? - Z.of_N (N.pos p)) with true by (unfold int_min in *; lia). reflexivity.
Qed.

Lemma itoa_nonempty z : itoa z <> [].
Proof.
  destruct z; cbn [itoa]; try discriminate. destruct (n_to_dec_spec (N.pos p)) as [H _]. exact H.
Qed.
