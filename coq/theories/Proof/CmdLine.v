(* C10 -- what escape.CommandLine does to a string, byte by byte *)
From Coq Require Import Lia.
From Murex Require Import Base.Outcome Base.Bytes Model.StmtParse Gen.EscapeTable Check.C10.
Open Scope N_scope.

(* replacing a one-byte key is a byte-wise substitution *)
Definition sub1 (k : N) (r : bytes) (c : N) : bytes := if c =? k then r else [c].

Lemma replace_all_single k r s : replace_all [k] r 0 s = flat_map (sub1 k r) s.
Proof.
  induction s as [|c s IH]; [reflexivity|].
  cbn [replace_all prefix_of flat_map length pred]. unfold sub1 at 1.
  rewrite N.eqb_sym. destruct (c =? k); cbn [andb]; rewrite IH; reflexivity.
Qed.

Definition single_keys (tbl : esc_tbl) : bool :=
  forallb (fun kr => match fst kr with [_] => true | _ => false end) tbl.

(* image of one byte under the whole table *)
Definition char_image (tbl : esc_tbl) (c : N) : bytes := escape_arg tbl [c].

Lemma flat_map_app' {A B} (f : A -> list B) l1 l2 : flat_map f (l1 ++ l2) = flat_map f l1 ++ flat_map f l2.
Proof. induction l1 as [|x l1 IH]; cbn; [reflexivity|]. rewrite IH, app_assoc. reflexivity. Qed.

Lemma escape_arg_app tbl : single_keys tbl = true ->
  forall a b, escape_arg tbl (a ++ b) = escape_arg tbl a ++ escape_arg tbl b.
Proof.
  unfold escape_arg. induction tbl as [|[k r] tbl IH]; intros Hk a b; [reflexivity|].
  cbn [single_keys forallb fst] in Hk. apply andb_true_iff in Hk as [Hk1 Hk].
  destruct k as [|k0 [|? ?]]; try discriminate.
  cbn [fold_left fst snd]. rewrite !replace_all_single, flat_map_app'. apply IH. exact Hk.
Qed.

(* escape.CommandLine is a byte-wise encoding (for any table of one-byte keys) *)
Theorem escape_arg_bytewise tbl : single_keys tbl = true ->
  forall s, escape_arg tbl s = flat_map (char_image tbl) s.
Proof.
  intros Hk s. induction s as [|c s IH].
  - unfold escape_arg. clear. induction tbl as [|[k r] tbl IH]; [reflexivity|]. cbn. exact IH.
  - change (c :: s) with ([c] ++ s). rewrite (escape_arg_app tbl Hk). rewrite IH. reflexivity.
Qed.

(* a byte that is not a key of the table is left alone *)
Lemma char_image_other tbl c :
  single_keys tbl = true -> forallb (fun kr => negb (bytes_eqb (fst kr) [c])) tbl = true ->
  char_image tbl c = [c].
Proof.
  unfold char_image, escape_arg. induction tbl as [|[k r] tbl IH]; intros Hk Hn; [reflexivity|].
  cbn [single_keys forallb fst] in Hk, Hn.
  apply andb_true_iff in Hk as [Hk1 Hk]. apply andb_true_iff in Hn as [Hn1 Hn].
  destruct k as [|k0 [|? ?]]; try discriminate.
  cbn [fold_left fst snd]. rewrite replace_all_single. cbn [flat_map]. unfold sub1.
  cbn [bytes_eqb] in Hn1. rewrite andb_true_r in Hn1. apply negb_true_iff in Hn1.
  rewrite N.eqb_sym, Hn1. cbn [List.app]. apply IH; assumption.
Qed.

(* the table the code has NOW: every key is one byte, and its image is a
   backslash followed by a byte that the statement parser's escape rule maps back *)
Definition key_image_ok (tbl : esc_tbl) (kr : bytes * bytes) : bool :=
  match fst kr with
  | [k] => match char_image tbl k with
           | [b; x] => (b =? 92) && (unescape x =? k) && negb (x =? 10) && negb (x =? 13)
           | _ => false
           end
  | _ => false
  end.

Theorem escape_pairs_now :
  argv_shape_ok = true /\ cmdline_sep = [32] /\ single_keys escape_pairs = true /\
  forallb (key_image_ok escape_pairs) escape_pairs = true.
Proof. vm_compute. repeat split. Qed.

Theorem cmdline_bytewise argv :
  cmdline argv = join [32] (map (flat_map (char_image escape_pairs)) argv).
Proof.
  unfold cmdline, escape_join. destruct escape_pairs_now as (_ & -> & Hk & _).
  f_equal. apply map_ext. intro s. apply escape_arg_bytewise. exact Hk.
Qed.

(* F10: the model (= the code) does not round-trip these argv *)
Definition cf0 : cfg := mk_cfg [47] false.
Definition w (l : list bytes) := spec_ok (model_case l [47] false).

Theorem cmdline_roundtrip_refuted :
  w [[101;99;104;111]; [97;59;98]] = false /\          (* echo a;b   *)
  w [[101;99;104;111]; [126]] = false /\               (* echo ~     *)
  w [[101;99;104;111]; [123]] = false /\               (* echo {     *)
  w [[101;99;104;111]; [96]] = false /\                (* echo `     *)
  w [[101;99;104;111]; [37;91;49;93]] = false /\       (* echo %[1]  *)
  w [[101;99;104;111]; [97;38;38;98]] = false /\       (* echo a&&b  *)
  w [[101;99;104;111]; []; [98]] = false /\            (* echo "" b  *)
  w [[101;99;104;111]; [61]; [98]] = false.            (* echo = b   *)
Proof. vm_compute. repeat split. Qed.

(* a concrete argv with every escaped character class does round-trip *)
Theorem cmdline_roundtrip_instance :
  w [[101;99;104;111]; [97;32;98]; [36;72;79;77;69]; [105;116;39;115]; [113;34;114]; [35;99]; [42]; [63];
     [97;124;98]; [64;120]; [97;58;98]; [45;120]; [97;61;62;98]; [91;122;93]; [97;92;98]; [97;10;98]; [9];
     [40;120;41]; [60;121;62]; [97;38;98]; [49;48;48;37]; [61;61]; [13]; [195;169]] = true.
Proof. vm_compute. reflexivity. Qed.
