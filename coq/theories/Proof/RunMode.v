(* Proofs about Model/RunMode.v: the three schedulers, run on the processes the
   block parser produces for a program, compute exactly what the reference
   interpreters of properties C04 / C05 compute on the program. *)
From Coq Require Import Lia ZifyBool.
From Murex Require Import Base.Outcome Base.Bytes Model.RunMode.

Definition trues {A} (l : list A) : list bool := map (fun _ => true) l.

Definition head_nonmethod (ps : list proc) : Prop :=
  match ps with [] => True | q :: _ => p_method q = false end.

Lemma flatten_rest_head_nonmethod rest : head_nonmethod (flatten_rest rest).
Proof. destruct rest as [|[j [h cs]] rest]; simpl; auto. Qed.

(* (stdout, exit number) of a scheduler result *)
Definition oe (carry : bytes) (ps : list proc) (r : list bool * Z) : bytes * Z :=
  (stdout_of carry ps (fst r), snd r).

Lemma oe_cons_method carry p q ps b r e :
  p_method q = true ->
  oe carry (p :: q :: ps) (b :: r, e) = oe (produced p b carry) (q :: ps) (r, e).
Proof. intro H. unfold oe. cbn [fst snd stdout_of]. rewrite H. reflexivity. Qed.

Lemma oe_cons_nonmethod carry p ps b r e :
  head_nonmethod ps ->
  oe carry (p :: ps) (b :: r, e) =
  (produced p b carry ++ fst (oe [] ps (r, e)), e).
Proof.
  intro H. unfold oe. cbn [fst snd stdout_of]. destruct ps as [|q ps].
  - destruct r; cbn; rewrite app_nil_r; reflexivity.
  - cbn in H. rewrite H. reflexivity.
Qed.

Lemma stdout_of_falses carry ps : stdout_of carry ps (falses ps) = [].
Proof.
  revert carry; induction ps as [|p ps IH]; intro carry; [reflexivity|].
  cbn [falses map stdout_of produced]. destruct ps as [|q ps]; [reflexivity|].
  destruct (p_method q); [apply IH|]. cbn [app]. apply (IH []).
Qed.

Lemma last_stage_exit cs h j :
  pexit (last (map stage_proc cs) (head_proc j h)) = c_exit (last cs h).
Proof.
  assert (G : forall cs p c, pexit p = c_exit c ->
              pexit (last (map stage_proc cs) p) = c_exit (last cs c)).
  { clear. induction cs as [|c cs IH]; intros p c0 H; [exact H|].
    destruct cs as [|c' cs]; [reflexivity|].
    change (pexit (last (map stage_proc (c' :: cs)) p) = c_exit (last (c' :: cs) c0)).
    apply IH. exact H. }
  apply G. reflexivity.
Qed.

(* ------------------------------------------------------------------ *)
(* normal mode *)

(* the stages of a skipped pipeline are skipped *)
Lemma normal_skipped_stages cs : forall carry p prev tail,
  head_nonmethod tail ->
  oe carry (p :: map stage_proc cs ++ tail)
     (let '(r, e) := normal_loop true prev true (map stage_proc cs ++ tail) in (false :: r, e))
  = oe [] tail (normal_loop true prev true tail).
Proof.
  induction cs as [|c cs IH]; intros carry p prev tail HT.
  - cbn [map app]. destruct (normal_loop true prev true tail) as [r e] eqn:E.
    rewrite oe_cons_nonmethod by exact HT. cbn [produced app]. unfold oe; reflexivity.
  - cbn [map app normal_loop].
    assert (S : normal_skips true prev true (stage_proc c) = true).
    { unfold normal_skips. cbn. destruct (Z.eqb prev 0); reflexivity. }
    rewrite S.
    specialize (IH [] (stage_proc c) prev tail HT).
    destruct (normal_loop true prev true (map stage_proc cs ++ tail)) as [r e] eqn:E.
    rewrite oe_cons_method by reflexivity. cbn [produced]. exact IH.
Qed.

(* the stages of a pipeline that runs all run; the exit number carried on is
   that of the last stage *)
Lemma normal_run_stages cs : forall carry p tail,
  head_nonmethod tail ->
  oe carry (p :: map stage_proc cs ++ tail)
     (let '(r, e) := normal_loop true (pexit p) false (map stage_proc cs ++ tail) in (true :: r, e))
  = (fold_left stage_out cs (produced p true carry) ++
       fst (oe [] tail (normal_loop true (pexit (last (map stage_proc cs) p)) false tail)),
     snd (normal_loop true (pexit (last (map stage_proc cs) p)) false tail)).
Proof.
  induction cs as [|c cs IH]; intros carry p tail HT.
  - cbn [map app fold_left last]. destruct (normal_loop true (pexit p) false tail) as [r e] eqn:E.
    rewrite oe_cons_nonmethod by exact HT. reflexivity.
  - cbn [map app normal_loop].
    assert (S : normal_skips true (pexit p) false (stage_proc c) = false) by reflexivity.
    rewrite S.
    specialize (IH (produced p true carry) (stage_proc c) tail HT).
    destruct (normal_loop true (pexit (stage_proc c)) false (map stage_proc cs ++ tail)) as [r e] eqn:E.
    rewrite oe_cons_method by reflexivity. rewrite IH. clear IH E.
    cbn [fold_left].
    replace (last (stage_proc c :: map stage_proc cs) p) with (last (map stage_proc cs) (stage_proc c)).
    2:{ clear. generalize (stage_proc c) as d. generalize (map stage_proc cs) as l.
        induction l as [|x l IHl]; intro d; [reflexivity|].
        destruct l as [|y l]; [reflexivity|].
        change (last (y :: l) d = last (d :: x :: y :: l) p).
        rewrite (IHl d). cbn. reflexivity. }
    reflexivity.
Qed.

Lemma normal_go rest : forall prev skip,
  oe [] (flatten_rest rest) (normal_loop true prev skip (flatten_rest rest))
  = spec_normal_go prev skip rest.
Proof.
  induction rest as [|[j [h cs]] rest IH]; intros prev skip; [reflexivity|].
  cbn [flatten_rest flatten_pl fst snd app normal_loop spec_normal_go].
  pose proof (flatten_rest_head_nonmethod rest) as HT.
  assert (S : normal_skips true prev skip (head_proc j h) =
              negb match j with
                   | JSemi => true
                   | JAnd => negb skip && Z.eqb prev 0
                   | JOr => negb skip && negb (Z.eqb prev 0)
                   end).
  { unfold normal_skips. cbn. destruct j, skip, (Z.eqb prev 0); reflexivity. }
  rewrite S. clear S.
  destruct (match j with
            | JSemi => true
            | JAnd => negb skip && Z.eqb prev 0
            | JOr => negb skip && negb (Z.eqb prev 0)
            end); cbn [negb].
  - (* runs *)
    rewrite (normal_run_stages cs [] (head_proc j h) (flatten_rest rest) HT).
    rewrite last_stage_exit.
    specialize (IH (c_exit (last cs h)) false).
    unfold pl_exit, pl_out. cbn [fst snd].
    destruct (spec_normal_go (c_exit (last cs h)) false rest) as [o e] eqn:E.
    unfold oe in IH |- *. injection IH as I1 I2. cbn [fst snd]. rewrite I1, I2.
    unfold produced. cbn [head_proc p_cmd].
    destruct (c_fwd h); reflexivity.
  - (* skipped *)
    rewrite (normal_skipped_stages cs [] (head_proc j h) prev (flatten_rest rest) HT).
    apply IH.
Qed.

Theorem normal_refines_spec prog : run_program RmNormal prog = spec_normal prog.
Proof.
  unfold run_program, observe, execute, spec_normal.
  destruct prog as [|[j [h cs]] rest]; [reflexivity|].
  cbn [flatten flatten_pl fst snd app sched_of].
  unfold run_normal, run_normal_gen.
  pose proof (flatten_rest_head_nonmethod rest) as HT.
  pose proof (normal_run_stages cs [] (head_proc JSemi h) (flatten_rest rest) HT) as R.
  rewrite last_stage_exit in R.
  pose proof (normal_go rest (c_exit (last cs h)) false) as G.
  unfold oe in R, G.
  set (X := let '(r, e) := normal_loop true (pexit (head_proc JSemi h)) false
                             (map stage_proc cs ++ flatten_rest rest) in (true :: r, e)) in *.
  assert (R1 := f_equal fst R). assert (R2 := f_equal snd R). cbn [fst snd] in R1, R2.
  rewrite R1, R2.
  unfold pl_exit, pl_out. cbn [fst snd].
  destruct (spec_normal_go (c_exit (last cs h)) false rest) as [o e'].
  assert (G1 := f_equal fst G). assert (G2 := f_equal snd G). cbn [fst snd] in G1, G2.
  rewrite G1, G2.
  unfold produced. cbn [head_proc p_cmd].
  destruct (c_fwd h); reflexivity.
Qed.

(* ------------------------------------------------------------------ *)
(* consequences for C04 *)

Lemma obs_eqb_refl o : obs_eqb o o = true.
Proof. unfold obs_eqb. rewrite bytes_eqb_refl, Z.eqb_refl. reflexivity. Qed.

Lemma obs_eqb_eq a b : obs_eqb a b = true <-> a = b.
Proof.
  unfold obs_eqb. destruct a as [ao ae], b as [bo be]; cbn [o_out o_exit]. split.
  - intro H. apply andb_true_iff in H as [H1 H2]. apply bytes_eqb_eq in H1. apply Z.eqb_eq in H2.
    subst; reflexivity.
  - intro H; injection H as -> ->. rewrite bytes_eqb_refl, Z.eqb_refl. reflexivity.
Qed.

(* the processes of a flattened program are what the parser can produce: a
   method never carries && / ||, and the first process is not a method *)
Lemma flatten_rest_methods_unflagged rest :
  Forall (fun p => p_method p = true -> p_and p = false /\ p_or p = false) (flatten_rest rest).
Proof.
  induction rest as [|[j [h cs]] rest IH]; [constructor|].
  cbn [flatten_rest flatten_pl fst snd app]. constructor; [discriminate|].
  apply Forall_app; split; [|exact IH].
  apply Forall_forall. intros p Hp. apply in_map_iff in Hp as [c [<- _]]. auto.
Qed.

Lemma flatten_methods_unflagged prog :
  Forall (fun p => p_method p = true -> p_and p = false /\ p_or p = false) (flatten prog).
Proof.
  destruct prog as [|[j pl] rest]; [constructor|].
  exact (flatten_rest_methods_unflagged ((JSemi, pl) :: rest)).
Qed.

(* `;` / newline: the command after it always runs, whatever came before, and
   the block's exit number is then that command's *)
Lemma spec_normal_go_app_semi rest : forall prev skip pl,
  spec_normal_go prev skip (rest ++ [(JSemi, pl)]) =
  (fst (spec_normal_go prev skip rest) ++ pl_out pl, pl_exit pl).
Proof.
  induction rest as [|[j q] rest IH]; intros prev skip pl.
  - cbn. rewrite app_nil_r. reflexivity.
  - cbn [app spec_normal_go].
    destruct (match j with
              | JSemi => true
              | JAnd => negb skip && Z.eqb prev 0
              | JOr => negb skip && negb (Z.eqb prev 0)
              end).
    + rewrite IH. destruct (spec_normal_go (pl_exit q) false rest) as [o e].
      cbn [fst]. rewrite app_assoc. reflexivity.
    + apply IH.
Qed.

Theorem semicolon_always_runs prog pl :
  prog <> [] ->
  run_program RmNormal (prog ++ [(JSemi, pl)]) =
  {| o_out := o_out (run_program RmNormal prog) ++ pl_out pl; o_exit := pl_exit pl |}.
Proof.
  intro NE. rewrite !normal_refines_spec.
  destruct prog as [|[j q] rest]; [congruence|].
  cbn [app spec_normal]. rewrite spec_normal_go_app_semi.
  destruct (spec_normal_go (pl_exit q) false rest) as [o e]. cbn [fst o_out].
  rewrite app_assoc. reflexivity.
Qed.

(* a && b : b runs iff a succeeded; otherwise the block keeps a's exit number *)
Theorem and_runs_iff_prev_ok a b :
  run_program RmNormal [(JSemi, a); (JAnd, b)] =
  if Z.eqb (pl_exit a) 0
  then {| o_out := pl_out a ++ pl_out b; o_exit := pl_exit b |}
  else {| o_out := pl_out a; o_exit := pl_exit a |}.
Proof.
  rewrite normal_refines_spec. cbn. destruct (Z.eqb (pl_exit a) 0); cbn;
    rewrite ?app_nil_r; reflexivity.
Qed.

(* a || b : b runs iff a failed *)
Theorem or_runs_iff_prev_failed a b :
  run_program RmNormal [(JSemi, a); (JOr, b)] =
  if Z.eqb (pl_exit a) 0
  then {| o_out := pl_out a; o_exit := pl_exit a |}
  else {| o_out := pl_out a ++ pl_out b; o_exit := pl_exit b |}.
Proof.
  rewrite normal_refines_spec. cbn. destruct (Z.eqb (pl_exit a) 0); cbn;
    rewrite ?app_nil_r; reflexivity.
Qed.

(* once a command of a chain is skipped the rest of the chain is skipped too and
   inherits the exit number: in `a && b || c` with a failing, c does not run
   although "the command before it" has a failing exit number; in `a || b && c`
   with a succeeding, c does not run *)
Theorem skip_propagates a b c j1 j2 :
  j1 <> JSemi -> j2 <> JSemi ->
  (if is_and j1 then negb (Z.eqb (pl_exit a) 0) else Z.eqb (pl_exit a) 0) = true ->
  run_program RmNormal [(JSemi, a); (j1, b); (j2, c)] =
  {| o_out := pl_out a; o_exit := pl_exit a |}.
Proof.
  intros H1 H2 H. rewrite normal_refines_spec.
  destruct j1; [congruence| |]; destruct j2; try congruence; cbn in H |- *;
    destruct (Z.eqb (pl_exit a) 0); try discriminate; cbn; rewrite ?app_nil_r; reflexivity.
Qed.

(* ... and a `;` ends the chain: the command after it runs again *)
Theorem semicolon_ends_skipping a b c j1 :
  j1 <> JSemi ->
  (if is_and j1 then negb (Z.eqb (pl_exit a) 0) else Z.eqb (pl_exit a) 0) = true ->
  run_program RmNormal [(JSemi, a); (j1, b); (JSemi, c)] =
  {| o_out := pl_out a ++ pl_out c; o_exit := pl_exit c |}.
Proof.
  intros H1 H. rewrite normal_refines_spec.
  destruct j1; [congruence| |]; cbn in H |- *;
    destruct (Z.eqb (pl_exit a) 0); try discriminate; cbn; rewrite ?app_nil_r; reflexivity.
Qed.

(* the scheduler as it was before the repair ran the later stages of a skipped
   pipeline on an empty stdin: `false && out a | g` printed g and returned g's
   exit number *)
Definition w_false : cmd := {| c_exit := 1; c_tok := []; c_fwd := false; c_err := [] |}.
Definition w_true : cmd := {| c_exit := 0; c_tok := []; c_fwd := false; c_err := [] |}.
Definition w_out (t : N) : cmd := {| c_exit := 0; c_tok := [t; 10%N]; c_fwd := false; c_err := [] |}.
Definition w_g (t : N) (e : Z) : cmd := {| c_exit := e; c_tok := [t; 10%N]; c_fwd := true; c_err := [] |}.

Definition witness_skipped_pipeline : program :=
  [(JSemi, (w_false, [])); (JAnd, (w_out 97, [w_g 103 0]))].

Lemma old_normal_refuted :
  run_program_old RmNormal witness_skipped_pipeline = {| o_out := [103%N; 10%N]; o_exit := 0 |} /\
  spec_normal witness_skipped_pipeline = {| o_out := []; o_exit := 1 |}.
Proof. split; reflexivity. Qed.
