(* C16 — proofs about Model/Index.v. *)
From Coq Require Import Lia ZifyBool.
From Murex Require Import Base.Outcome Base.Bytes Model.Decimal Model.Index Check.C16.
Open Scope Z_scope.

(* ---------- equality on values ---------- *)

Lemma jval_eqb_refl : forall v, jval_eqb v v = true.
Proof.
  fix IH 1. intros [ | b | z | s | l | kv]; simpl.
  - reflexivity.
  - apply eqb_reflx.
  - apply Z.eqb_refl.
  - apply bytes_eqb_refl.
  - induction l as [|a l IHl]; [reflexivity|]. rewrite IH, IHl. reflexivity.
  - induction kv as [|[k a] kv IHkv]; [reflexivity|].
    rewrite bytes_eqb_refl, IH, IHkv. reflexivity.
Qed.

(* ---------- slice access ---------- *)

Lemma zlen_nonneg {A} (xs : list A) : 0 <= zlen xs.
Proof. unfold zlen. lia. Qed.

Lemma slice_get_in_range {A} (xs : list A) i :
  0 <= i < zlen xs -> exists v, slice_get xs i = Ok v /\ nth_error xs (Z.to_nat i) = Some v.
Proof.
  intros H. unfold slice_get.
  replace ((i <? 0) || (zlen xs <=? i)) with false by lia.
  destruct (nth_error xs (Z.to_nat i)) as [v|] eqn:E.
  - exists v; split; reflexivity.
  - apply nth_error_None in E. unfold zlen in H. lia.
Qed.

Lemma slice_get_not_fuel {A} (xs : list A) i : slice_get xs i <> OutOfFuel.
Proof.
  unfold slice_get. destruct ((i <? 0) || (zlen xs <=? i)); [discriminate|].
  destruct (nth_error xs (Z.to_nat i)); discriminate.
Qed.

(* "in range" as the property states it *)
Definition in_range (n k : Z) : Prop := - n <= k < n.

Lemma spec_pick_in_range xs k :
  in_range (zlen xs) k -> exists v, spec_pick xs k = Some v.
Proof.
  intros H. unfold in_range in H. unfold spec_pick.
  replace ((- zlen xs <=? k) && (k <? zlen xs)) with true by lia.
  destruct (slice_get_in_range xs (if k <? 0 then k + zlen xs else k)) as [v [_ Hn]].
  { destruct (k <? 0) eqn:E; lia. }
  exists v; exact Hn.
Qed.

Lemma spec_pick_out_of_range xs k :
  ~ in_range (zlen xs) k -> spec_pick xs k = None.
Proof.
  intros H. unfold in_range in H. unfold spec_pick.
  replace ((- zlen xs <=? k) && (k <? zlen xs)) with false by lia. reflexivity.
Qed.

(* ---------- itoIndexArray ---------- *)

Lemma array_pos_in_range key k n :
  atoi key = Some k -> in_range n k ->
  array_pos key n = Ok (if k <? 0 then k + n else k).
Proof.
  intros Ha H. unfold in_range in H. unfold array_pos. rewrite Ha. cbv zeta.
  destruct (k <? 0) eqn:E.
  - replace ((k + n <? 0) || (n <=? k + n)) with false by lia. reflexivity.
  - replace ((k <? 0) || (n <=? k)) with false by lia. reflexivity.
Qed.

Lemma array_pos_out_of_range key k n :
  atoi key = Some k -> ~ in_range n k -> array_pos key n = Err E_RANGE.
Proof.
  intros Ha H. unfold in_range in H. unfold array_pos. rewrite Ha. cbv zeta.
  destruct (k <? 0) eqn:E.
  - replace ((k + n <? 0) || (n <=? k + n)) with true by lia. reflexivity.
  - replace ((k <? 0) || (n <=? k)) with true by lia. reflexivity.
Qed.

Lemma array_pos_bounds key n i : array_pos key n = Ok i -> 0 <= i < n.
Proof.
  unfold array_pos. destruct (atoi key) as [k|]; [|discriminate]. cbv zeta.
  destruct ((_ <? 0) || (n <=? _)) eqn:E; [discriminate|].
  intros H; inversion H; subst. lia.
Qed.

Lemma array_pos_clean key n : array_pos key n <> Panic /\ array_pos key n <> OutOfFuel.
Proof.
  unfold array_pos. destruct (atoi key); [|split; discriminate]. cbv zeta.
  destruct ((_ <? 0) || (n <=? _)); split; discriminate.
Qed.

(* one key: the value selected is the property's element k *)
Lemma array_get_in_range xs key k :
  atoi key = Some k -> in_range (zlen xs) k ->
  exists v, spec_pick xs k = Some v /\
            obind (array_pos key (zlen xs)) (slice_get xs) = Ok v.
Proof.
  intros Ha H. rewrite (array_pos_in_range _ _ _ Ha H). cbn [obind].
  unfold in_range in H. unfold spec_pick.
  replace ((- zlen xs <=? k) && (k <? zlen xs)) with true by lia.
  destruct (slice_get_in_range xs (if k <? 0 then k + zlen xs else k)) as [v [Hs Hn]].
  { destruct (k <? 0) eqn:E; lia. }
  exists v. split; assumption.
Qed.

Theorem index_in_range : forall xs key k,
  atoi key = Some k -> in_range (zlen xs) k ->
  exists v, spec_pick xs k = Some v /\ ito_index_array [key] xs = Ok (render_index v).
Proof.
  intros xs key k Ha H. destruct (array_get_in_range xs key k Ha H) as [v [Hp Hg]].
  exists v. split; [exact Hp|]. unfold ito_index_array.
  destruct (array_pos key (zlen xs)) as [i| | |]; cbn [obind] in *; try discriminate.
  rewrite Hg. reflexivity.
Qed.

Theorem index_out_of_range_errs : forall xs key k,
  atoi key = Some k -> ~ in_range (zlen xs) k ->
  ito_index_array [key] xs = Err E_RANGE.
Proof.
  intros xs key k Ha H. unfold ito_index_array.
  rewrite (array_pos_out_of_range _ _ _ Ha H). reflexivity.
Qed.

Theorem index_not_integer_errs : forall xs key,
  atoi key = None -> ito_index_array [key] xs = Err E_ATOI.
Proof. intros xs key Ha. unfold ito_index_array, array_pos. rewrite Ha. reflexivity. Qed.

Definition clean {A} (o : Outcome A) : Prop := o <> Panic /\ o <> OutOfFuel.

Lemma clean_ok {A} (a : A) : clean (Ok a).
Proof. split; discriminate. Qed.
Lemma clean_err {A} k : clean (@Err A k).
Proof. split; discriminate. Qed.

Lemma clean_obind {A B} (o : Outcome A) (f : A -> Outcome B) :
  clean o -> (forall a, o = Ok a -> clean (f a)) -> clean (obind o f).
Proof.
  intros [H1 H2] Hf. destruct o; cbn [obind].
  - apply Hf; reflexivity.
  - apply clean_err.
  - contradiction.
  - contradiction.
Qed.

Lemma array_get_clean (xs : list jval) key : clean (obind (array_pos key (zlen xs)) (slice_get xs)).
Proof.
  apply clean_obind; [apply array_pos_clean|].
  intros i Hi. apply array_pos_bounds in Hi.
  destruct (slice_get_in_range xs i Hi) as [v [Hs _]]. rewrite Hs. apply clean_ok.
Qed.

Lemma array_collect_clean params xs : clean (array_collect params xs).
Proof.
  induction params as [|key rest IH]; cbn [array_collect]; [apply clean_ok|].
  apply clean_obind; [apply array_pos_clean|]. intros i Hi.
  apply array_pos_bounds in Hi.
  destruct (slice_get_in_range xs i Hi) as [v [Hs _]]. rewrite Hs. cbn [obind].
  apply clean_obind; [exact IH|]. intros; apply clean_ok.
Qed.

Theorem index_never_panics : forall params xs, clean (ito_index_array params xs).
Proof.
  intros params xs. unfold ito_index_array.
  destruct params as [|key [|k2 rest]].
  - apply clean_ok.
  - apply clean_obind; [apply array_pos_clean|]. intros i Hi.
    apply array_pos_bounds in Hi.
    destruct (slice_get_in_range xs i Hi) as [v [Hs _]]. rewrite Hs. apply clean_ok.
  - apply clean_obind; [apply array_collect_clean|]. intros; apply clean_ok.
Qed.

(* several indexes: every one in range gives the elements in parameter order;
   the first one out of range makes the whole lookup a clean error *)
Theorem index_multi_in_range : forall xs params ks,
  Forall2 (fun key k => atoi key = Some k /\ in_range (zlen xs) k) params ks ->
  exists vs, Forall2 (fun k v => spec_pick xs k = Some v) ks vs /\
             array_collect params xs = Ok vs.
Proof.
  intros xs params ks H. induction H as [|key k params ks [Ha Hr] _ IH].
  - exists []. split; [constructor|reflexivity].
  - destruct IH as [vs [Hvs Hc]].
    destruct (array_get_in_range xs key k Ha Hr) as [v [Hp Hg]].
    exists (v :: vs). split; [constructor; assumption|].
    cbn [array_collect].
    destruct (array_pos key (zlen xs)) as [i| | |]; cbn [obind] in *; try discriminate.
    rewrite Hg. cbn [obind]. rewrite Hc. reflexivity.
Qed.

Theorem index_multi_out_of_range : forall xs params key k,
  In key params -> atoi key = Some k -> ~ in_range (zlen xs) k ->
  exists e, array_collect params xs = Err e.
Proof.
  intros xs params key k Hin Ha Hr. induction params as [|p rest IH]; [destruct Hin|].
  cbn [array_collect].
  destruct (array_pos p (zlen xs)) as [i|e| |] eqn:Ep; cbn [obind].
  - pose proof (array_pos_bounds _ _ _ Ep) as Hb.
    destruct (slice_get_in_range xs i Hb) as [v [Hs _]]. rewrite Hs. cbn [obind].
    destruct Hin as [->|Hin].
    + rewrite (array_pos_out_of_range _ _ _ Ha Hr) in Ep. discriminate.
    + destruct (IH Hin) as [e He]. rewrite He. exists e. reflexivity.
  - exists e; reflexivity.
  - exfalso. apply (proj1 (array_pos_clean p (zlen xs))). exact Ep.
  - exfalso. apply (proj2 (array_pos_clean p (zlen xs))). exact Ep.
Qed.

(* ---------- ElementLookup ---------- *)

Lemma elem_index_in_range key k n :
  atoi key = Some k -> in_range n k ->
  is_valid_element_index key n = Ok (if k <? 0 then k + n else k).
Proof.
  intros Ha H. unfold in_range in H. unfold is_valid_element_index. rewrite Ha.
  destruct (k <? 0) eqn:E.
  - cbv zeta. replace (k + n <? 0) with false by lia. reflexivity.
  - replace (n <=? k) with false by lia. reflexivity.
Qed.

Lemma elem_index_out_of_range key k n :
  atoi key = Some k -> ~ in_range n k -> is_valid_element_index key n = Err E_RANGE.
Proof.
  intros Ha H. unfold in_range in H. unfold is_valid_element_index. rewrite Ha.
  destruct (k <? 0) eqn:E.
  - cbv zeta. replace (k + n <? 0) with true by lia. reflexivity.
  - replace (n <=? k) with true by lia. reflexivity.
Qed.

Lemma elem_index_bounds key n i :
  0 <= n -> is_valid_element_index key n = Ok i -> 0 <= i < n.
Proof.
  intros Hn. unfold is_valid_element_index. destruct (atoi key) as [k|]; [|discriminate].
  destruct (k <? 0) eqn:E.
  - cbv zeta. destruct (k + n <? 0) eqn:E2; [discriminate|]. intros H; inversion H; lia.
  - destruct (n <=? k) eqn:E2; [discriminate|]. intros H; inversion H; lia.
Qed.

Lemma elem_index_clean key n : clean (is_valid_element_index key n).
Proof.
  unfold is_valid_element_index. destruct (atoi key) as [k|]; [|apply clean_err].
  destruct (k <? 0).
  - cbv zeta. destruct (k + n <? 0); [apply clean_err|apply clean_ok].
  - destruct (n <=? k); [apply clean_err|apply clean_ok].
Qed.

Theorem elem_step_in_range : forall xs key k,
  atoi key = Some k -> in_range (zlen xs) k ->
  exists v, spec_pick xs k = Some v /\ elem_step key (JArr xs) = Ok v.
Proof.
  intros xs key k Ha H. cbn [elem_step]. rewrite (elem_index_in_range _ _ _ Ha H). cbn [obind].
  unfold in_range in H. unfold spec_pick.
  replace ((- zlen xs <=? k) && (k <? zlen xs)) with true by lia.
  destruct (slice_get_in_range xs (if k <? 0 then k + zlen xs else k)) as [v [Hs Hn]].
  { destruct (k <? 0) eqn:E; lia. }
  exists v. split; assumption.
Qed.

Theorem elem_step_out_of_range : forall xs key k,
  atoi key = Some k -> ~ in_range (zlen xs) k -> elem_step key (JArr xs) = Err E_RANGE.
Proof.
  intros xs key k Ha H. cbn [elem_step]. rewrite (elem_index_out_of_range _ _ _ Ha H). reflexivity.
Qed.

Lemma elem_step_clean c obj : clean (elem_step c obj).
Proof.
  destruct obj; cbn [elem_step]; try apply clean_err.
  - apply clean_obind; [apply elem_index_clean|]. intros i Hi.
    apply elem_index_bounds in Hi; [|apply zlen_nonneg].
    destruct (slice_get_in_range l i Hi) as [v [Hs _]]. rewrite Hs. apply clean_ok.
  - destruct (map_find4_nonnil c kv); [apply clean_ok|apply clean_err].
Qed.

Lemma elem_walk_clean comps : forall obj, clean (elem_walk comps obj).
Proof.
  induction comps as [|c rest IH]; intros obj; cbn [elem_walk]; [apply clean_ok|].
  destruct c as [|b c'].
  - destruct rest; [apply clean_ok|apply clean_err].
  - apply clean_obind; [apply elem_step_clean|]. intros; apply IH.
Qed.

Theorem element_lookup_never_panics : forall path obj, clean (element_lookup path obj).
Proof.
  intros path obj. unfold element_lookup.
  destruct path as [|sep [|b r]]; try apply clean_err. apply elem_walk_clean.
Qed.

(* paths compose: walking a ++ b is walking a, then b from where a arrived
   (for a without empty components) *)
Theorem elem_walk_app : forall a b obj,
  Forall (fun c => c <> []) a ->
  elem_walk (a ++ b) obj = obind (elem_walk a obj) (elem_walk b).
Proof.
  induction a as [|c a IH]; intros b obj H; [reflexivity|].
  inversion H as [|? ? Hc Ha]; subst.
  cbn [app elem_walk]. destruct c as [|x c']; [contradiction|].
  destruct (elem_step (x :: c') obj) as [v| | |]; cbn [obind]; try reflexivity.
  apply IH; assumption.
Qed.

(* a path "<sep><key>" without further separators is one step *)
Lemma split_go_no_sep sep cur s :
  existsb (N.eqb sep) s = false -> split_go sep cur s = [rev cur ++ s].
Proof.
  revert cur. induction s as [|b s IH]; intros cur H; cbn [split_go].
  - rewrite app_nil_r. reflexivity.
  - cbn [existsb] in H. apply orb_false_iff in H as [H1 H2].
    rewrite N.eqb_sym, H1. rewrite (IH _ H2). cbn [rev]. rewrite <- app_assoc. reflexivity.
Qed.

Lemma split_on_head sep key : split_on sep (sep :: key) = [] :: split_go sep [] key.
Proof. unfold split_on. cbn [split_go]. rewrite N.eqb_refl. reflexivity. Qed.

Lemma element_lookup_single sep key obj :
  key <> [] -> existsb (N.eqb sep) key = false ->
  element_lookup (sep :: key) obj = elem_step key obj.
Proof.
  intros Hne Hs. unfold element_lookup. destruct key as [|b0 r]; [contradiction|].
  rewrite split_on_head. cbn [tl].
  rewrite (split_go_no_sep _ _ _ Hs). cbn [rev app elem_walk].
  destruct (elem_step (b0 :: r) obj); reflexivity.
Qed.

Lemma atoi_nonempty s k : atoi s = Some k -> s <> [].
Proof. intros H E; subst; discriminate. Qed.

Theorem element_in_range : forall xs sep key k,
  existsb (N.eqb sep) key = false -> atoi key = Some k -> in_range (zlen xs) k ->
  exists v, spec_pick xs k = Some v /\ element_lookup (sep :: key) (JArr xs) = Ok v.
Proof.
  intros xs sep key k Hs Ha H.
  rewrite (element_lookup_single _ _ _ (atoi_nonempty _ _ Ha) Hs).
  apply (elem_step_in_range xs key k); assumption.
Qed.

Theorem element_out_of_range_errs : forall xs sep key k,
  existsb (N.eqb sep) key = false -> atoi key = Some k -> ~ in_range (zlen xs) k ->
  element_lookup (sep :: key) (JArr xs) = Err E_RANGE.
Proof.
  intros xs sep key k Hs Ha H.
  rewrite (element_lookup_single _ _ _ (atoi_nonempty _ _ Ha) Hs).
  apply (elem_step_out_of_range xs key k); assumption.
Qed.

(* ---------- maps ---------- *)

Theorem map_key_returns_value : forall legacy kv key v,
  bracketed key = None -> assoc key kv = Some v ->
  ito_index_map legacy [key] kv = Ok (render_index v).
Proof.
  intros legacy kv key v Hb Ha. unfold ito_index_map, map_lookup, map_find4.
  rewrite Hb, Ha. reflexivity.
Qed.

Lemma map_lookup_clean p kv : clean (map_lookup p kv).
Proof.
  unfold map_lookup. destruct (bracketed p).
  - apply element_lookup_never_panics.
  - destruct (map_find4 p kv); [apply clean_ok|apply clean_err].
Qed.

Lemma map_collect_clean params kv : clean (map_collect params kv).
Proof.
  induction params as [|p rest IH]; cbn [map_collect]; [apply clean_ok|].
  apply clean_obind; [apply map_lookup_clean|]. intros.
  apply clean_obind; [exact IH|]. intros; apply clean_ok.
Qed.

Lemma index_map_clean legacy params kv : clean (ito_index_map legacy params kv).
Proof.
  unfold ito_index_map. destruct params as [|p [|q r]].
  - apply clean_ok.
  - apply clean_obind; [apply map_lookup_clean|]. intros; apply clean_ok.
  - apply clean_obind; [apply map_collect_clean|]. intros; apply clean_ok.
Qed.

(* ---------- ![ ---------- *)

Lemma not_positions_clean params n : clean (not_positions params n).
Proof.
  induction params as [|key rest IH]; cbn [not_positions]; [apply clean_ok|].
  destruct (atoi key) as [i|]; [|apply clean_err].
  destruct (i <? 0); [apply clean_err|]. destruct (n <=? i); [apply clean_err|].
  apply clean_obind; [exact IH|]. intros; apply clean_ok.
Qed.

Lemma not_array_clean json params xs : clean (ito_not_array json params xs).
Proof.
  unfold ito_not_array. apply clean_obind; [apply not_positions_clean|].
  intros drop _. destruct (drop_positions 0 drop xs); [destruct json; [apply clean_err|apply clean_ok]|apply clean_ok].
Qed.

(* what `![ ... ]` keeps is a subsequence of the array: order is preserved *)
Inductive subseq {A} : list A -> list A -> Prop :=
| sub_nil : subseq [] []
| sub_skip x l1 l2 : subseq l1 l2 -> subseq l1 (x :: l2)
| sub_keep x l1 l2 : subseq l1 l2 -> subseq (x :: l1) (x :: l2).

Lemma drop_positions_subseq drop xs : forall i, subseq (drop_positions i drop xs) xs.
Proof.
  induction xs as [|x xs IH]; intros i; cbn [drop_positions]; [constructor|].
  destruct (zmem i drop); constructor; apply IH.
Qed.

(* ---------- jsonlines ---------- *)

Lemma jsonl_line_numbers_clean params : clean (jsonl_line_numbers params).
Proof.
  induction params as [|p rest IH]; cbn [jsonl_line_numbers]; [apply clean_ok|].
  destruct (atoi p); [|apply clean_err]. apply clean_obind; [exact IH|]. intros; apply clean_ok.
Qed.

Lemma table_cols_clean names rows : clean (table_cols names rows).
Proof.
  unfold table_cols. destruct rows as [|h rest]; [apply clean_ok|].
  destruct (table_data _ rest) as [d bad]. destruct bad; [apply clean_err|apply clean_ok].
Qed.

Lemma jsonl_index_clean b0 params rows : clean (jsonl_index b0 params rows).
Proof.
  unfold jsonl_index. destruct (forallb all_digits params).
  - apply clean_obind; [apply jsonl_line_numbers_clean|]. intros; apply clean_ok.
  - destruct (b0 || existsb special_param params); [apply clean_ok|].
    destruct rows as [|r rows']; [apply clean_ok|].
    destruct (existsb is_arr (r :: rows')); [|apply clean_err].
    destruct (table_rows (r :: rows')); [apply table_cols_clean|apply clean_ok].
Qed.

Lemma render_elem_clean json v : clean (render_elem json v).
Proof. destruct v; cbn [render_elem]; try apply clean_ok. destruct json; [apply clean_err|apply clean_ok]. Qed.

Lemma jsonl_element_clean path rows : clean (jsonl_element path rows).
Proof.
  unfold jsonl_element.
  destruct (forallb is_arr rows).
  - pose proof (element_lookup_never_panics path JNull) as [H1 H2].
    destruct (element_lookup path JNull); try contradiction; [apply clean_ok|apply clean_err].
  - destruct (existsb is_arr rows); [apply clean_ok|].
    apply clean_obind; [apply element_lookup_never_panics|].
    intros v _. destruct v; try apply clean_ok; apply render_elem_clean.
Qed.

(* ---------- every lookup, every format: never a panic, never a hang ---------- *)

Theorem run_never_panics : forall f o legacy doc params, clean (run f o legacy doc params).
Proof.
  intros f o legacy doc params. unfold run.
  destruct f.
  1,2: destruct o; [ destruct doc; try apply clean_err; [apply index_never_panics|apply index_map_clean]
                   | destruct doc; try apply clean_err; [apply not_array_clean|unfold ito_not_map; apply clean_ok]
                   | destruct params as [|p [|q r]]; try apply clean_ok;
                     apply clean_obind; [apply element_lookup_never_panics|intros; apply render_elem_clean] ].
  destruct doc; try apply clean_ok.
  destruct o; [apply jsonl_index_clean|apply jsonl_index_clean|].
  destruct params as [|p [|q r]]; try apply clean_ok. apply jsonl_element_clean.
Qed.

(* ---------- the model satisfies the predicate the check evaluates ---------- *)

Lemma shows_render_index v : shows (obs_of (Ok (render_index v))) v = true.
Proof.
  destruct v; cbn; try reflexivity.
  - apply bytes_eqb_refl.
  - apply bytes_eqb_refl.
  - apply bytes_eqb_refl.
  - apply (jval_eqb_refl (JArr l)).
  - apply (jval_eqb_refl (JObj kv)).
Qed.

Lemma shows_render_elem json v o :
  render_elem json v = Ok o -> shows (obs_of (Ok o)) v = true.
Proof.
  destruct v; cbn [render_elem]; intros H.
  - destruct json; [discriminate|]. inversion H; subst. reflexivity.
  - inversion H; subst. cbn. apply bytes_eqb_refl.
  - inversion H; subst. cbn. apply bytes_eqb_refl.
  - inversion H; subst. cbn. apply bytes_eqb_refl.
  - inversion H; subst. cbn. apply (jval_eqb_refl (JArr l)).
  - inversion H; subst. cbn. apply (jval_eqb_refl (JObj kv)).
Qed.

Lemma in_range_dec n k : {in_range n k} + {~ in_range n k}.
Proof.
  unfold in_range. destruct (Z_le_dec (- n) k); destruct (Z_lt_dec k n);
    [left; lia|right; lia|right; lia|right; lia].
Qed.

Definition mk (f : fmt) (o : op) (legacy : bool) (doc : jval) (params : list bytes) : case :=
  {| c_fmt := f; c_op := o; c_legacy := legacy; c_doc := doc; c_params := params;
     c_obs := obs_of (run f o legacy doc params) |}.

Lemma no_panic_obs_of m : clean m -> no_panic (obs_of m) = true.
Proof.
  intros [H1 H2]. destruct m as [[b|v|]| | |]; try reflexivity; contradiction.
Qed.

(* `[k]` and `[ k1 k2 .. ]` and `![` on json and yaml: no guard at all *)
Theorem index_meets_spec : forall f o legacy doc params,
  f <> FJsonl -> o <> OpElem -> spec_ok (mk f o legacy doc params) = true.
Proof.
  intros f o legacy doc params Hf Ho. unfold spec_ok, mk. cbn [c_fmt c_op c_doc c_params c_obs].
  unfold spec_obs. rewrite (no_panic_obs_of _ (run_never_panics f o legacy doc params)).
  cbn [andb].
  destruct f; [| |contradiction]; (destruct o; [| reflexivity | contradiction]);
    destruct doc; try reflexivity; destruct params as [|key [|k2 r]]; try reflexivity.
  all: cbn [run is_json].
  1,3: destruct (atoi key) as [k|] eqn:Ha; [|reflexivity]; unfold array_clause;
       destruct (in_range_dec (zlen l) k) as [Hr|Hr];
       [ destruct (index_in_range l key k Ha Hr) as [v [Hp Hi]]; rewrite Hp, Hi; apply shows_render_index
       | rewrite (spec_pick_out_of_range _ _ Hr), (index_out_of_range_errs l key k Ha Hr); reflexivity ].
  all: destruct (bracketed key) eqn:Hb; [reflexivity|]; unfold exact_key;
       destruct (assoc key kv) as [v|] eqn:Hk; [|reflexivity];
       rewrite (map_key_returns_value legacy kv key v Hb Hk); apply shows_render_index.
Qed.

Lemma elem_single_int_inv path k :
  elem_single_int path = Some k ->
  exists sep key, path = sep :: key /\ existsb (N.eqb sep) key = false /\ atoi key = Some k.
Proof.
  destruct path as [|sep r]; [discriminate|]. cbn [elem_single_int].
  destruct (existsb (N.eqb sep) r) eqn:E; [discriminate|]. intros H.
  exists sep, r. repeat split; assumption.
Qed.

(* `[[/k]]` on json and yaml: the one exclusion is a null element under json
   (utils/json refuses to marshal nil), which is known finding 4 *)
Theorem element_meets_spec : forall f legacy doc params,
  f <> FJsonl ->
  classify (mk f OpElem legacy doc params) = 0%N ->
  spec_ok (mk f OpElem legacy doc params) = true.
Proof.
  intros f legacy doc params Hf Hc. unfold spec_ok, mk in *.
  cbn [c_fmt c_op c_doc c_params c_obs] in *.
  unfold spec_obs. rewrite (no_panic_obs_of _ (run_never_panics f OpElem legacy doc params)).
  cbn [andb].
  destruct f; [| |contradiction]; destruct doc; try reflexivity;
    destruct params as [|path [|p2 r]]; try reflexivity.
  all: destruct (elem_single_int path) as [k|] eqn:He; [|reflexivity].
  all: destruct (elem_single_int_inv _ _ He) as [sep [key [-> [Hs Ha]]]].
  all: unfold array_clause; destruct (in_range_dec (zlen l) k) as [Hr|Hr].
  2,4: rewrite (spec_pick_out_of_range _ _ Hr); cbn [run];
       rewrite (element_out_of_range_errs l sep key k Hs Ha Hr); reflexivity.
  all: destruct (element_in_range l sep key k Hs Ha Hr) as [v [Hp Hl]]; rewrite Hp.
  all: cbn [run is_json]; rewrite Hl; cbn [obind].
  - (* json *)
    unfold classify in Hc. cbn [c_fmt c_doc c_params c_op c_obs] in Hc.
    rewrite He, Hp in Hc. cbn [run is_json] in Hc. rewrite Hl in Hc. cbn [obind] in Hc.
    destruct (render_elem true v) as [o| | |] eqn:Er.
    + apply (shows_render_elem _ _ _ Er).
    + destruct v; cbn [render_elem] in Er; try discriminate; cbn in Hc; discriminate.
    + exfalso. apply (proj1 (render_elem_clean true v)). exact Er.
    + exfalso. apply (proj2 (render_elem_clean true v)). exact Er.
  - (* yaml *)
    destruct (render_elem false v) as [o| | |] eqn:Er.
    + apply (shows_render_elem _ _ _ Er).
    + destruct v; cbn [render_elem] in Er; discriminate.
    + exfalso. apply (proj1 (render_elem_clean false v)). exact Er.
    + exfalso. apply (proj2 (render_elem_clean false v)). exact Er.
Qed.

(* every format, every operator: the model fails the predicate only in the
   shapes listed as known findings *)
Theorem model_meets_spec_json_yaml : forall f o legacy doc params,
  f <> FJsonl ->
  classify (mk f o legacy doc params) = 0%N ->
  spec_ok (mk f o legacy doc params) = true.
Proof.
  intros f o legacy doc params Hf Hc. destruct o.
  - apply index_meets_spec; [assumption|discriminate].
  - apply index_meets_spec; [assumption|discriminate].
  - apply element_meets_spec; assumption.
Qed.

(* the findings are real in the model: concrete witnesses *)
Definition b (s : list N) : bytes := s.

Lemma jsonl_row_past_end_refuted :
  spec_ok (mk FJsonl OpIndex true (JArr [JNum 1; JNum 2; JNum 3]) [[53%N]]) = false.
Proof. vm_compute. reflexivity. Qed.

Lemma json_null_element_refuted :
  spec_ok (mk FJson OpElem true (JArr [JNum 1; JNull]) [[47%N; 49%N]]) = false.
Proof. vm_compute. reflexivity. Qed.

Lemma jsonl_table_element_refuted :
  spec_ok (mk FJsonl OpElem true (JArr [JArr [JNum 1]; JArr [JNum 2]]) [[47%N; 49%N]]) = false.
Proof. vm_compute. reflexivity. Qed.

(* The three jsonl findings are predicted by the model for every input of their shape. *)

Lemma select_rows_none : forall rows i k, i + zlen rows <= k ->
  select_rows i (fun j => negb (Bool.eqb (zmem j [k]) false)) rows = [].
Proof.
  induction rows as [|r rows IH]; intros i k H; [reflexivity|]. cbn [select_rows].
  unfold zlen in H. cbn [length] in H.
  replace (zmem i [k]) with false by (unfold zmem; cbn [existsb]; lia). cbn [Bool.eqb negb].
  apply IH. unfold zlen. lia.
Qed.

(* finding 1: a row number past the end selects nothing and is not an error *)
Theorem jsonl_row_past_end_predicted : forall rows key k,
  all_digits key = true -> atoi key = Some k -> zlen rows <= k ->
  jsonl_index false [key] rows = Ok (OutVal (JArr [])).
Proof.
  intros rows key k Hd Ha Hk. unfold jsonl_index. cbn [forallb]. rewrite Hd. cbn [andb].
  cbn [jsonl_line_numbers]. rewrite Ha. cbn [obind]. rewrite select_rows_none by lia. reflexivity.
Qed.

(* finding 2: a negative number is not all digits, so it is looked up as a column name *)
Theorem jsonl_negative_is_column_name : forall rows r rest t,
  rows = r :: rest -> existsb is_arr rows = true -> table_rows rows = Some t ->
  forall key, special_param (45%N :: key) = false ->
  jsonl_index false [45%N :: key] rows = table_cols [45%N :: key] t.
Proof.
  intros rows r rest t -> Ha Ht key Hs. unfold jsonl_index.
  replace (forallb all_digits [45%N :: key]) with false by reflexivity.
  replace (existsb special_param [45%N :: key]) with false by (cbn [existsb]; rewrite Hs; reflexivity).
  cbn [orb]. rewrite Ha, Ht. reflexivity.
Qed.

(* finding 3: `[[<sep>key]]` on rows that are all arrays is an error for every key *)
Theorem jsonl_table_element_predicted : forall rows sep key,
  forallb is_arr rows = true -> key <> [] -> existsb (N.eqb sep) key = false ->
  exists e, jsonl_element (sep :: key) rows = Err e.
Proof.
  intros rows sep key Ha Hk Hs. unfold jsonl_element. rewrite Ha.
  rewrite (element_lookup_single _ _ _ Hk Hs). cbn [elem_step]. eexists; reflexivity.
Qed.

(* the pre-fix itoIndexArray (no `i < 0` test after the adjustment) panics:
   [-5] on three elements reaches v[-2] *)
Definition array_pos_prefix (key : bytes) (len : Z) : Outcome Z :=
  match atoi key with
  | None => Err E_ATOI
  | Some i => let i' := if i <? 0 then i + len else i in
              if len <=? i' then Err E_RANGE else Ok i'
  end.

Lemma prefix_index_panics :
  obind (array_pos_prefix [45%N; 53%N] 3) (slice_get [JNum 1; JNum 2; JNum 3]) = Panic.
Proof. vm_compute. reflexivity. Qed.
