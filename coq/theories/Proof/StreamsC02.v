(* C02 — the data type of a pipe is write-once, the first valid declaration wins,
   GetDataType returns the final type (or `*` only when closed / cancelled with
   none declared); for arbitrary thread programs and schedules. *)
From Coq Require Import List NArith ZArith Bool Lia.
From Murex Require Import Base.Bytes Gen.StreamsTables Model.Streams Check.C02 Proof.Streams.
Import ListNotations.
Open Scope N_scope.

(* the constants of the Go source are the ones the property text names *)
Lemma null_is_null : types_null = lit_null.
Proof. reflexivity. Qed.
Lemma generic_is_star : types_generic = lit_generic.
Proof. reflexivity. Qed.

Lemma valid_type_spec t : valid_type t = negb (null_or_empty t).
Proof. unfold valid_type, null_or_empty. rewrite null_is_null, negb_orb. reflexivity. Qed.

Definition dt_next (cur : bytes) (e : event) : bytes := if is_nil cur then declared e else cur.

Definition is_setdt (e : event) : bool := match e with EvSetDT _ => true | _ => false end.

Lemma dt_next_other cur e : is_setdt e = false -> dt_next cur e = cur.
Proof. intro H. unfold dt_next. destruct cur; [|reflexivity]. destruct e; try reflexivity; discriminate. Qed.

(* a thread is inside SetDataType's critical section only with a valid type *)
Definition pc_wf (c : pc) : Prop :=
  match c with PSetDT t => valid_type t = true | _ => True end.

(* what GetDataType may return at a step that ends in state s' *)
Definition get_ok (s' : st) (e : event) : Prop :=
  match e with
  | EvDT x =>
      if is_nil (sdt s') then x = lit_generic /\ (closed s' || canc s') = true
      else x = sdt s'
  | EvPanic => False
  | EvHang => False
  | _ => True
  end.

Definition dt_good (s : st) (c : pc) (s' : st) (c' : pc) (e : event) : Prop :=
  pc_wf c' /\ sdt s' = dt_next (sdt s) e /\ get_ok s' e.

Ltac quiet := unfold dt_good; repeat split; [rewrite dt_next_other; reflexivity].

Lemma step_pc_dt s c :
  pc_wf c -> let '(s', c', e) := step_pc s c in dt_good s c s' c' e.
Proof.
  intro W. destruct c; cbn [step_pc].
  - (* PIdle *) quiet.
  - (* POpen *) quiet.
  - (* PClose *) quiet.
  - (* PForce *) quiet.
  - (* PStats *) quiet.
  - (* PSetDT *) cbn [pc_wf] in W. unfold dt_good, dt_next. destruct (is_nil (sdt s)) eqn:N.
    + cbn [set_dt sdt declared]. rewrite W. repeat split.
    + repeat split.
  - (* PWSel *) destruct (canc s); quiet.
  - (* PWChk *) destruct ((blen (buf s) <? smax s) || (smax s =? 0)); quiet.
  - (* PWApp *) destruct k; cbn [after_app]; quiet.
  - (* PWDrop *) destruct k; cbn [after_drop]; quiet.
  - (* PRSel *) destruct (canc s); quiet.
  - (* PRChk *) destruct (is_nil (buf s)); [destruct (closed s)|]; quiet.
  - (* PRTake *) unfold do_take. destruct (splitN n (buf s)). quiet.
  - (* PAMax *) quiet.
  - (* PASel *) destruct (canc s); quiet.
  - (* PAPoll *) destruct (closed s); quiet.
  - (* PATake *) quiet.
  - (* PTSel *) destruct (canc s); quiet.
  - (* PTChk *) destruct (is_nil (buf s)); [destruct (closed s)|]; quiet.
  - (* PTTake *) unfold do_take. destruct (splitN writeto_chunk (buf s)). quiet.
  - (* PFMax *) quiet.
  - (* PFSel *) destruct (canc s); [quiet|]. destruct (is_nil rest); [quiet|].
    destruct (splitN readfrom_chunk rest). quiet.
  - (* PGSel *) destruct (canc s) eqn:C; [|quiet].
    unfold dt_good. repeat split; [rewrite dt_next_other; reflexivity|].
    unfold get_ok, dt_or_generic. destruct (is_nil (sdt s)) eqn:N; [|reflexivity].
    split; [apply generic_is_star|]. rewrite C. apply orb_true_r.
  - (* PGPoll *) destruct (is_nil (sdt s)) eqn:N; cbn [negb].
    + destruct (closed s) eqn:D; [|quiet].
      unfold dt_good. repeat split; [rewrite dt_next_other; reflexivity|].
      unfold get_ok. rewrite N. split; [apply generic_is_star|]. rewrite D. reflexivity.
    + unfold dt_good. repeat split; [rewrite dt_next_other; reflexivity|].
      unfold get_ok. rewrite N. reflexivity.
Qed.

Lemma step_thread_dt s t :
  pc_wf (snd t) ->
  let '(s', t', e) := step_thread s t in dt_good s (snd t) s' (snd t') e.
Proof.
  destruct t as [prog c]. cbn [snd]. intro W. unfold step_thread.
  destruct c; try (pose proof (step_pc_dt s) as G;
    match goal with |- context [step_pc s ?c] => specialize (G c W); destruct (step_pc s c) as [[s' c'] e]; exact G end).
  destruct prog as [|o rest]; [cbn [snd]; quiet|].
  destruct o; cbn [begin_op snd]; try quiet.
  - destruct (is_nil p); cbn [snd]; quiet.
  - destruct (null_or_empty t) eqn:V; cbn [snd].
    + unfold dt_good. repeat split. unfold dt_next. destruct (is_nil (sdt s)) eqn:N; [|reflexivity].
      cbn [declared]. rewrite valid_type_spec, V. cbn [negb]. apply is_nil_true. exact N.
    + unfold dt_good. split; [cbn [pc_wf]; rewrite valid_type_spec, V; reflexivity|].
      split; [rewrite dt_next_other; reflexivity|exact I].
Qed.

(* ------------------------------------------------------------ thread lists *)

Definition all_wf (l : list thread) : Prop := Forall (fun t => pc_wf (snd t)) l.

Lemma nth_thread_wf l : forall i t, all_wf l -> nth_thread i l = Some t -> pc_wf (snd t).
Proof.
  induction l as [|x l IH]; intros i t W H; [destruct i; discriminate|].
  inversion W; subst. destruct i; cbn [nth_thread] in H.
  - inversion H; subst. assumption.
  - eapply IH; eassumption.
Qed.

Lemma set_thread_wf l : forall i t, all_wf l -> pc_wf (snd t) -> all_wf (set_thread i t l).
Proof.
  induction l as [|x l IH]; intros i t W H; [destruct i; constructor|].
  inversion W; subst. destruct i; cbn [set_thread]; constructor; auto. apply IH; assumption.
Qed.

Lemma init_wf max progs : all_wf (thr (init_sys max progs)).
Proof.
  unfold init_sys, all_wf; cbn [thr]. induction progs; cbn [map]; constructor; [exact I|assumption].
Qed.

(* one scheduler step *)
Lemma sys_step_dt y i :
  all_wf (thr y) ->
  let '(y', o) := sys_step y i in
  all_wf (thr y') /\ sdt (sh y') = dt_next (sdt (sh y)) (os_ev o) /\ get_ok (sh y') (os_ev o)
  /\ os_sn o = snap_of (sh y').
Proof.
  intro W. unfold sys_step. destruct (nth_thread i (thr y)) as [t|] eqn:N.
  - pose proof (step_thread_dt (sh y) t (nth_thread_wf _ _ _ W N)) as G.
    destruct (step_thread (sh y) t) as [[s' t'] e]. destruct G as (G1 & G2 & G3).
    cbn [thr sh os_ev os_sn]. repeat split; auto. apply set_thread_wf; assumption.
  - cbn [thr sh os_ev os_sn]. repeat split; auto. rewrite dt_next_other; reflexivity.
Qed.

(* ------------------------------------------------------------ whole schedules *)

Lemma exec_dt_ok sched : forall y os yf,
  exec y sched = (os, yf) -> all_wf (thr y) -> dt_ok (sdt (sh y)) os = true.
Proof.
  induction sched as [|i rest IH]; intros y os yf E W; cbn [exec] in E.
  - inversion E; reflexivity.
  - pose proof (sys_step_dt y i W) as G. destruct (sys_step y i) as [y' o].
    destruct (exec y' rest) as [os' yf'] eqn:E'. inversion E; subst. clear E.
    destruct G as (W' & D & Gt & SN). cbn [dt_ok]. fold (dt_next (sdt (sh y)) (os_ev o)).
    rewrite <- D, SN. cbn [sn_dt sn_deps sn_canc snap_of]. rewrite bytes_eqb_refl. cbn [andb].
    rewrite (IH _ _ _ E' W'), andb_true_r.
    unfold get_ok in Gt. destruct (os_ev o); try reflexivity; try contradiction.
    destruct (is_nil (sdt (sh y'))).
    + destruct Gt as [Gx Gc]. subst. rewrite bytes_eqb_refl. cbn [andb]. exact Gc.
    + subst. apply bytes_eqb_refl.
Qed.

(* a poll that must return does return *)
Ltac split_ifs :=
  repeat match goal with
         | |- context [match ?k with KTop => _ | KRF _ _ => _ end] => destruct k
         | |- context [let '(_, _) := splitN ?a ?b in _] => destruct (splitN a b)
         | |- context [if ?b then _ else _] => destruct b eqn:?
         end.

Lemma step_pc_returns s c :
  let '(s', _, e) := step_pc s c in returns_ok (mkOStep (pc_code c) e (snap_of s')) = true.
Proof.
  destruct c; cbn [step_pc]; unfold after_app, after_drop, do_take, do_take_all;
    try (split_ifs; reflexivity).
  - (* PGSel *) destruct (canc s) eqn:C; [unfold returns_ok; destruct (must_return _); reflexivity|].
    unfold returns_ok, must_return; cbn [os_pt os_sn pc_code snap_of sn_canc N.eqb Pos.eqb]. rewrite C. reflexivity.
  - (* PGPoll *) destruct (is_nil (sdt s)) eqn:N; cbn [negb];
      [|unfold returns_ok; destruct (must_return _); reflexivity].
    destruct (closed s) eqn:D; [unfold returns_ok; destruct (must_return _); reflexivity|].
    unfold returns_ok, must_return; cbn [os_pt os_sn pc_code snap_of sn_dt sn_deps N.eqb Pos.eqb].
    unfold closed in D. rewrite N, D. reflexivity.
Qed.

Lemma step_thread_returns s t :
  let '(s', _, e) := step_thread s t in returns_ok (mkOStep (pc_code (snd t)) e (snap_of s')) = true.
Proof.
  destruct t as [prog c]. unfold step_thread. cbn [snd].
  destruct c; try (pose proof (step_pc_returns s) as G;
    match goal with |- context [step_pc s ?c] => specialize (G c); destruct (step_pc s c) as [[s' c'] e]; exact G end).
  destruct prog as [|o r]; [reflexivity|]. destruct (begin_op o). reflexivity.
Qed.

Lemma exec_returns_ok sched : forall y os yf,
  exec y sched = (os, yf) -> forallb returns_ok os = true.
Proof.
  induction sched as [|i rest IH]; intros y os yf E; cbn [exec] in E.
  - inversion E; reflexivity.
  - destruct (sys_step y i) as [y' o] eqn:S. destruct (exec y' rest) as [os' yf'] eqn:E'.
    inversion E; subst. clear E. cbn [forallb]. rewrite (IH _ _ _ E'), andb_true_r.
    unfold sys_step in S. destruct (nth_thread i (thr y)) as [t|].
    + pose proof (step_thread_returns (sh y) t) as G.
      destruct (step_thread (sh y) t) as [[s' t'] e]. inversion S; subst. exact G.
    + inversion S; subst. reflexivity.
Qed.

(* headline: the model meets the predicate evaluated on the implementation *)
Lemma model_meets_spec max progs sched :
  spec_ok (Ctl max progs sched (run_ctl max progs sched)) = true.
Proof.
  cbn [spec_ok]. unfold spec_ctl, run_ctl.
  destruct (exec (init_sys max progs) sched) as [os yf] eqn:E. cbn [co_steps].
  apply andb_true_iff; split.
  - exact (exec_dt_ok _ _ _ _ E (init_wf max progs)).
  - exact (exec_returns_ok _ _ _ _ E).
Qed.

(* write-once: once a type is set no schedule changes it *)
Lemma dt_write_once sched : forall y os yf,
  exec y sched = (os, yf) -> all_wf (thr y) -> sdt (sh y) <> [] -> sdt (sh yf) = sdt (sh y).
Proof.
  induction sched as [|i rest IH]; intros y os yf E W H; cbn [exec] in E.
  - inversion E; reflexivity.
  - pose proof (sys_step_dt y i W) as G. destruct (sys_step y i) as [y' o].
    destruct (exec y' rest) as [os' yf'] eqn:E'. inversion E; subst. clear E.
    destruct G as (W' & D & _ & _).
    assert (K : sdt (sh y') = sdt (sh y)).
    { rewrite D. unfold dt_next. destruct (sdt (sh y)); [congruence|reflexivity]. }
    rewrite <- K. apply (IH _ _ _ E' W'). rewrite K. exact H.
Qed.

(* first declaration wins *)
Fixpoint first_declared (os : list ostep) : bytes :=
  match os with
  | [] => []
  | o :: r => if is_nil (declared (os_ev o)) then first_declared r else declared (os_ev o)
  end.

Lemma dt_first_wins_gen sched : forall y os yf,
  exec y sched = (os, yf) -> all_wf (thr y) ->
  sdt (sh yf) = if is_nil (sdt (sh y)) then first_declared os else sdt (sh y).
Proof.
  induction sched as [|i rest IH]; intros y os yf E W; cbn [exec] in E.
  - inversion E; subst. cbn [first_declared]. destruct (sdt (sh yf)); reflexivity.
  - pose proof (sys_step_dt y i W) as G. destruct (sys_step y i) as [y' o].
    destruct (exec y' rest) as [os' yf'] eqn:E'. inversion E; subst. clear E.
    destruct G as (W' & D & _ & _). rewrite (IH _ _ _ E' W'), D. unfold dt_next.
    cbn [first_declared]. destruct (is_nil (sdt (sh y))) eqn:N.
    + destruct (is_nil (declared (os_ev o))) eqn:N'; [reflexivity|].
      destruct (declared (os_ev o)); [discriminate|reflexivity].
    + rewrite N. reflexivity.
Qed.

Lemma dt_first_wins max progs sched os yf :
  exec (init_sys max progs) sched = (os, yf) -> sdt (sh yf) = first_declared os.
Proof.
  intro E. rewrite (dt_first_wins_gen _ _ _ _ E (init_wf max progs)). reflexivity.
Qed.

(* GetDataType returns the FINAL type of the run, or `*` only from a state with no
   type declared in which all writers had closed or the pipe was cancelled *)
Definition get_final_ok (final : bytes) (o : ostep) : Prop :=
  match os_ev o with
  | EvDT x =>
      (x = final /\ final <> []) \/
      (x = lit_generic /\ sn_dt (os_sn o) = [] /\ ((sn_deps (os_sn o) <? 1)%Z || sn_canc (os_sn o)) = true)
  | _ => True
  end.

Lemma get_returns_final_gen sched : forall y os yf,
  exec y sched = (os, yf) -> all_wf (thr y) -> Forall (get_final_ok (sdt (sh yf))) os.
Proof.
  induction sched as [|i rest IH]; intros y os yf E W; cbn [exec] in E.
  - inversion E; constructor.
  - pose proof (sys_step_dt y i W) as G. destruct (sys_step y i) as [y' o].
    destruct (exec y' rest) as [os' yf'] eqn:E'. inversion E; subst. clear E.
    destruct G as (W' & D & Gt & SN). constructor; [|exact (IH _ _ _ E' W')].
    unfold get_final_ok. unfold get_ok in Gt. destruct (os_ev o); try exact I.
    rewrite SN. cbn [sn_dt sn_deps sn_canc snap_of].
    destruct (is_nil (sdt (sh y'))) eqn:N.
    + right. destruct Gt as [Gx Gc]. repeat split; auto. apply is_nil_true. exact N.
    + left. subst t. pose proof (is_nil_false _ N) as NE.
      rewrite (dt_write_once _ _ _ _ E' W' NE). split; [reflexivity|exact NE].
Qed.

Lemma get_returns_final max progs sched os yf :
  exec (init_sys max progs) sched = (os, yf) -> Forall (get_final_ok (sdt (sh yf))) os.
Proof. intro E. exact (get_returns_final_gen _ _ _ _ E (init_wf max progs)). Qed.

(* ------------------------------------------------------------ waiting and termination (enabledness) *)

(* with no type declared, writers open and no cancellation, GetDataType only polls *)
Lemma get_waits s :
  sdt s = [] -> closed s = false -> canc s = false ->
  step_pc s PGSel = (s, PGPoll, EvTau) /\ step_pc s PGPoll = (s, PGSel, EvTau).
Proof. intros H1 H2 H3. cbn [step_pc]. rewrite H1, H2, H3. split; reflexivity. Qed.

(* as soon as a type is declared, or all writers closed, or the pipe is cancelled,
   the poller returns within its next two steps *)
Lemma get_terminates_if s :
  sdt s <> [] \/ closed s = true \/ canc s = true ->
  (exists t, step_pc s PGSel = (s, PIdle, EvDT t)) \/
  (step_pc s PGSel = (s, PGPoll, EvTau) /\ exists t, step_pc s PGPoll = (s, PIdle, EvDT t)).
Proof.
  intro H. cbn [step_pc]. destruct (canc s) eqn:C; [left; eexists; reflexivity|].
  right. split; [reflexivity|].
  destruct (is_nil (sdt s)) eqn:N; cbn [negb]; [|eexists; reflexivity].
  destruct (closed s) eqn:D; [eexists; reflexivity|].
  destruct H as [H|[H|H]]; [apply is_nil_true in N; congruence|discriminate|discriminate].
Qed.

(* SetDataType("") and SetDataType("null") take no shared action at all *)
Lemma setdt_ignored t : t = [] \/ t = lit_null -> begin_op (OSetDT t) = (PIdle, EvSetDT t).
Proof. intros [H|H]; subst; reflexivity. Qed.
