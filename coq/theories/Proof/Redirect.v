(* C33 — proofs about Model/Redirect.v: the code-shaped wiring (stream identities,
   Next/Parent, the createProcess switches) sends every byte where the
   documentation-shaped predicate of Check/C33.v says, for blocks of any length. *)
From Coq Require Import Lia.
From Murex Require Import Base.Outcome Base.Bytes Model.Redirect Check.C33.
Local Open Scope N_scope.

(* ---------- parseRedirection: the first name of each class wins ---------- *)
Lemma parse_redirection_first l : forall acc,
  n_out (parse_redirection l acc) = match n_out acc with Some r => Some r | None => first_out l end /\
  n_err (parse_redirection l acc) = match n_err acc with Some r => Some r | None => first_err l end.
Proof.
  induction l as [|r l IH]; intro acc.
  - cbn. destruct (n_out acc), (n_err acc); split; reflexivity.
  - cbn [parse_redirection]. destruct (IH
      (if is_bang r
       then match n_err acc with
            | Some _ => {| n_out := n_out acc; n_err := n_err acc; n_complaints := S (n_complaints acc) |}
            | None => {| n_out := n_out acc; n_err := Some r; n_complaints := n_complaints acc |}
            end
       else match n_out acc with
            | Some _ => {| n_out := n_out acc; n_err := n_err acc; n_complaints := S (n_complaints acc) |}
            | None => {| n_out := Some r; n_err := n_err acc; n_complaints := n_complaints acc |}
            end)) as [Ho He].
    rewrite Ho, He. unfold first_out, first_err. cbn [find].
    destruct (is_bang r) eqn:B; cbn [negb];
      destruct (n_out acc) eqn:Eo, (n_err acc) eqn:Ee; cbn [n_out n_err]; rewrite ?Eo, ?Ee; split; reflexivity.
Qed.

Lemma parse_redirs_first l :
  n_out (parse_redirs l) = first_out l /\ n_err (parse_redirs l) = first_err l.
Proof. unfold parse_redirs. destruct (parse_redirection_first l {| n_out := None; n_err := None; n_complaints := O |}) as [A B]. split; assumption. Qed.

Lemma first_out_not_bang l r : first_out l = Some r -> is_bang r = false.
Proof. unfold first_out. intro H. apply find_some in H as [_ H]. destruct (is_bang r); [discriminate|reflexivity]. Qed.

Lemma first_err_bang l r : first_err l = Some r -> is_bang r = true.
Proof. unfold first_err. intro H. apply find_some in H as [_ H]. exact H. Qed.

(* ---------- files ---------- *)
Lemma file_get_set fs f d : file_get (file_set fs f d) f = Some d.
Proof.
  induction fs as [|[g d'] fs IH]; cbn.
  - rewrite N.eqb_refl. reflexivity.
  - destruct (N.eqb_spec f g) as [->|NE]; cbn.
    + rewrite N.eqb_refl. reflexivity.
    + destruct (N.eqb_spec f g); [congruence|exact IH].
Qed.

Lemma file_get_set_other fs f g d : f <> g -> file_get (file_set fs g d) f = file_get fs f.
Proof.
  intro NE. induction fs as [|[h d'] fs IH]; cbn.
  - destruct (N.eqb_spec f g); [congruence|reflexivity].
  - destruct (N.eqb_spec g h) as [->|NE2]; cbn.
    + destruct (N.eqb_spec f h); [congruence|reflexivity].
    + destruct (N.eqb_spec f h); [reflexivity|exact IH].
Qed.

(* ---------- the wiring lemma ---------- *)
Definition stream_of (i : nat) (d : dest) : stream :=
  match d with
  | ToOut => SParentOut | ToErr => SParentErr | ToNext => SStdin (S i) | ToPipe k => SPipe k | Nowhere => SNull
  end.

Lemma wire_doc n i s : (s_link s <> Semi -> S i <> n) ->
  wire n i s = (stream_of i (doc_out s), stream_of i (doc_err s)).
Proof.
  intro HP. unfold wire, doc_out, doc_err.
  destruct (parse_redirs_first (s_redirs s)) as [Ho He]. rewrite Ho, He.
  assert (NS : s_link s <> Semi -> next_stdin n i = SStdin (S i)).
  { intro L. unfold next_stdin. destruct (Nat.eqb_spec (S i) n) as [E|E]; [exfalso; exact (HP L E)|reflexivity]. }
  assert (D : default_stdout n i (s_link s) = stream_of i (plain_out (s_link s))).
  { unfold default_stdout, plain_out. destruct (s_link s) eqn:L; try reflexivity. apply NS. discriminate. }
  assert (D' : default_stderr n i (s_link s) = stream_of i (plain_err (s_link s))).
  { unfold default_stderr, plain_err. destruct (s_link s) eqn:L; try reflexivity. apply NS. discriminate. }
  rewrite D, D'.
  destruct (first_out (s_redirs s)) as [ro|] eqn:Fo, (first_err (s_redirs s)) as [re|] eqn:Fe;
    try (apply first_out_not_bang in Fo); try (apply first_err_bang in Fe);
    try destruct ro; try destruct re; try discriminate; reflexivity.
Qed.

(* ---------- writes ---------- *)
Lemma dest_eqb_refl d : dest_eqb d d = true.
Proof. destruct d; try reflexivity. apply N.eqb_refl. Qed.

Lemma dest_eqb_eq a b : dest_eqb a b = true <-> a = b.
Proof.
  destruct a, b; cbn; split; intro H; try reflexivity; try discriminate.
  - apply N.eqb_eq in H. subst. reflexivity.
  - inversion H. apply N.eqb_refl.
Qed.

Definition pick (d d' : dest) (x : bytes) : bytes := if dest_eqb d d' then x else [].

(* what has been delivered to destination d so far *)
Definition proj (d : dest) (st : state) : bytes :=
  match d with
  | ToOut => st_out st
  | ToErr => st_err st
  | ToPipe k => pipe_get (st_pipes st) k
  | Nowhere => st_null st
  | ToNext => []
  end.

Lemma pipe_get_set ps k k' x :
  pipe_get (file_set ps k x) k' = if N.eqb k k' then x else pipe_get ps k'.
Proof.
  unfold pipe_get. destruct (N.eqb_spec k k') as [->|NE].
  - rewrite file_get_set. reflexivity.
  - rewrite file_get_set_other by congruence. reflexivity.
Qed.

Lemma write_proj i d' d x st : d <> ToNext ->
  proj d (write (stream_of i d') x st) = proj d st ++ pick d' d x.
Proof.
  intro ND. unfold pick.
  destruct d', d; try congruence; cbn; rewrite ?app_nil_r; try reflexivity.
  rewrite pipe_get_set. destruct (N.eqb_spec k k0) as [->|NE]; [reflexivity|rewrite app_nil_r; reflexivity].
Qed.

Lemma write_fs i d x st : st_fs (write (stream_of i d) x st) = st_fs st.
Proof. destruct d; reflexivity. Qed.
Lemma write_pin i d x st : st_pin (write (stream_of i d) x st) = st_pin st.
Proof. destruct d; reflexivity. Qed.
Lemma write_ins i d x st :
  st_ins (write (stream_of i d) x st) = match d with ToNext => app_nth (st_ins st) (S i) x | _ => st_ins st end.
Proof. destruct d; reflexivity. Qed.

Lemma app_nth_length l : forall k x, length (app_nth l k x) = length l.
Proof. induction l as [|a l IH]; intros [|k] x; cbn; try reflexivity. rewrite IH. reflexivity. Qed.

Lemma nth_app_nth_same l : forall k x, (k < length l)%nat -> nth k (app_nth l k x) [] = nth k l [] ++ x.
Proof.
  induction l as [|a l IH]; intros [|k] x H; cbn in *; try lia; try reflexivity.
  apply IH. lia.
Qed.

Lemma nth_app_nth_other l : forall k j x, j <> k -> nth j (app_nth l k x) [] = nth j l [].
Proof.
  induction l as [|a l IH]; intros [|k] [|j] x H; cbn; try reflexivity; try congruence.
  apply IH. congruence.
Qed.

(* ---------- blocks ---------- *)
Lemma last_link_cons s l : l <> [] -> last_link (s :: l) = last_link l.
Proof.
  intro NE. unfold last_link. cbn [rev].
  destruct (rev l) as [|x r] eqn:E.
  - apply (f_equal (@rev stage)) in E. rewrite rev_involutive in E. cbn in E. congruence.
  - reflexivity.
Qed.

Lemma last_link_single s : last_link [s] = s_link s.
Proof. reflexivity. Qed.

Lemma sel_nil d s : sel d s [] [] = [].
Proof. unfold sel. destruct (dest_eqb (doc_out s) d), (dest_eqb (doc_err s) d); reflexivity. Qed.

Lemma sel_pick d s o e : sel d s o e = pick (doc_out s) d o ++ pick (doc_err s) d e.
Proof. reflexivity. Qed.

Lemma doc_out_next s : doc_out s = ToNext -> s_link s <> Semi.
Proof.
  unfold doc_out, plain_out. destruct (first_out (s_redirs s)) as [[]|]; destruct (s_link s); intro H; try discriminate; congruence.
Qed.
Lemma doc_err_next s : doc_err s = ToNext -> s_link s <> Semi.
Proof.
  unfold doc_err, plain_out, plain_err. destruct (first_err (s_redirs s)) as [[]|]; destruct (s_link s); intro H; try discriminate; congruence.
Qed.

Lemma sel_next_semi s o e : s_link s = Semi -> sel ToNext s o e = [].
Proof.
  intro L. unfold sel.
  destruct (dest_eqb (doc_out s) ToNext) eqn:A.
  { apply dest_eqb_eq in A. apply doc_out_next in A. congruence. }
  destruct (dest_eqb (doc_err s) ToNext) eqn:B.
  { apply dest_eqb_eq in B. apply doc_err_next in B. congruence. }
  reflexivity.
Qed.

Definition input_of (prev : option link) (i : nat) (st : state) : bytes :=
  if is_method prev then nth i (st_ins st) [] else [].

(* main invariant: from any reachable intermediate state, the rest of the block delivers to
   every destination exactly what `collect` says, and leaves the files `expected_fs` says *)
Lemma run_from_expected l : forall n i prev st,
  n = (i + length l)%nat ->
  length (st_ins st) = n ->
  last_link l = Semi ->
  (forall j, (i < j)%nat -> nth j (st_ins st) [] = []) ->
  let st' := run_from n i prev l st in
  (forall d, d <> ToNext -> proj d st' = proj d st ++ collect d (input_of prev i st) l) /\
  st_fs st' = expected_fs (input_of prev i st) l (st_fs st) /\ st_pin st' = st_pin st.
Proof.
  induction l as [|s l IH]; intros n i prev st Hn Hlen Hlast Hempty.
  - cbn. repeat split. intros d _. rewrite app_nil_r. reflexivity.
  - cbn [run_from collect expected_fs].
    set (carry := input_of prev i st).
    assert (HP : s_link s <> Semi -> S i <> n).
    { intro P. cbn [length] in Hn. destruct l as [|s' l']; [rewrite last_link_single in Hlast; congruence|cbn [length] in Hn; lia]. }
    assert (Hlast' : last_link l = Semi).
    { destruct l as [|s' l']; [reflexivity|]. rewrite last_link_cons in Hlast by discriminate. exact Hlast. }
    set (oe := stage_oe carry s).
    set (fs1 := match s_act s with
                | Trunc f => file_set (st_fs st) f carry
                | Append f => file_set (st_fs st) f (match file_get (st_fs st) f with Some old => old ++ carry | None => carry end)
                | Emit _ _ => st_fs st
                end).
    set (st1 := run_stage n i prev s st).
    assert (S1 : (forall d, d <> ToNext -> proj d st1 = proj d st ++ sel d s (fst oe) (snd oe)) /\
                 st_fs st1 = fs1 /\ st_pin st1 = st_pin st /\
                 length (st_ins st1) = n /\
                 (forall j, (S i < j)%nat -> nth j (st_ins st1) [] = []) /\
                 input_of (Some (s_link s)) (S i) st1 = sel ToNext s (fst oe) (snd oe)).
    { subst st1 oe fs1. unfold run_stage, stage_oe. fold (input_of prev i st). fold carry.
      rewrite (wire_doc n i s HP).
      destruct (s_act s) as [o e|f|f]; cbn [fst snd].
      - (* Emit *)
        rewrite !write_fs, !write_pin, !write_ins.
        repeat split.
        + intros d ND. rewrite !write_proj by exact ND. rewrite sel_pick, app_assoc. reflexivity.
        + destruct (doc_err s), (doc_out s); cbn [st_ins]; rewrite ?app_nth_length; exact Hlen.
        + intros j Hj.
          assert (E0 : nth j (st_ins st) [] = []) by (apply Hempty; lia).
          destruct (doc_err s), (doc_out s); cbn [st_ins]; rewrite ?nth_app_nth_other by lia; exact E0.
        + unfold input_of. destruct (is_method (Some (s_link s))) eqn:M.
          * assert (LS : s_link s <> Semi) by (destruct (s_link s); [discriminate|discriminate|discriminate M]).
            assert (Hlt : (S i < length (st_ins st))%nat).
            { rewrite Hlen. specialize (HP LS). cbn [length] in Hn. lia. }
            assert (E0 : nth (S i) (st_ins st) [] = []) by (apply Hempty; lia).
            rewrite !write_ins. unfold sel.
            destruct (doc_err s), (doc_out s); cbn [dest_eqb];
              rewrite ?nth_app_nth_same by (rewrite ?app_nth_length; exact Hlt);
              rewrite ?E0, ?app_nil_r; cbn [app]; rewrite ?app_nil_r; reflexivity.
          * assert (L : s_link s = Semi) by (destruct (s_link s); [discriminate M|discriminate M|reflexivity]).
            symmetry. apply sel_next_semi. exact L.
      - (* Trunc *)
        cbn. repeat split; try exact Hlen.
        + intros d _. rewrite sel_nil, app_nil_r. destruct d; reflexivity.
        + intros j Hj. apply Hempty. lia.
        + rewrite sel_nil. unfold input_of. destruct (is_method (Some (s_link s))); [apply Hempty; lia|reflexivity].
      - (* Append *)
        cbn. repeat split; try exact Hlen.
        + intros d _. rewrite sel_nil, app_nil_r. destruct d; reflexivity.
        + intros j Hj. apply Hempty. lia.
        + rewrite sel_nil. unfold input_of. destruct (is_method (Some (s_link s))); [apply Hempty; lia|reflexivity].
    }
    destruct S1 as (Sd & Sf & Sp & Sl & Sz & Si).
    specialize (IH n (S i) (Some (s_link s)) st1 ltac:(cbn [length] in Hn; lia) Sl Hlast' Sz).
    cbn zeta in IH. rewrite Si, Sf in IH. destruct IH as (Id & If & Ip).
    fold oe. destruct oe as [o e] eqn:OE. cbn [fst snd] in *.
    fold st1. repeat split.
    + intros d ND. rewrite (Id d ND), (Sd d ND), app_assoc. reflexivity.
    + rewrite If. subst fs1. reflexivity.
    + rewrite Ip, Sp. reflexivity.
Qed.

Lemma init_ins_empty n j fs : nth j (st_ins (init_state n fs)) [] = [].
Proof.
  cbn [init_state upd st_ins]. revert j. induction n as [|n IH]; intro j; destruct j; cbn; try reflexivity. apply IH.
Qed.

(* the whole block, from the initial state *)
Lemma run_block_expected l fs : last_link l = Semi ->
  exists st, run_block l fs = Ok st /\
    st_out st = collect ToOut [] l /\ st_err st = collect ToErr [] l /\
    (forall k, pipe_get (st_pipes st) k = collect (ToPipe k) [] l) /\
    st_fs st = expected_fs [] l fs /\ st_pin st = [].
Proof.
  intro L. unfold run_block. rewrite L. eexists; split; [reflexivity|].
  pose proof (run_from_expected l (length l) O None (init_state (length l) fs) eq_refl
                ltac:(cbn [init_state upd st_ins]; apply repeat_length) L
                ltac:(intros; apply init_ins_empty)) as H.
  cbn zeta in H. unfold input_of in H. cbn [is_method] in H. destruct H as (Hd & Hf & Hp).
  repeat split.
  - exact (Hd ToOut ltac:(discriminate)).
  - exact (Hd ToErr ltac:(discriminate)).
  - intro k. exact (Hd (ToPipe k) ltac:(discriminate)).
  - exact Hf.
  - exact Hp.
Qed.

Lemma obytes_eqb_refl a : obytes_eqb a a = true.
Proof. destruct a; [apply bytes_eqb_refl|reflexivity]. Qed.

Lemma files_eqb_refl a : files_eqb a a = true.
Proof. unfold files_eqb. apply forallb_forall. intros f _. apply obytes_eqb_refl. Qed.

(* headline *)
Lemma model_meets_spec l fs :
  spec_ok {| c_stages := l; c_files := fs; c_obs := model_obs l fs |} = true.
Proof.
  unfold spec_ok. cbn [c_stages c_files c_obs].
  destruct (last_link l) eqn:L; try reflexivity.
  destruct (run_block_expected l fs L) as (st & R & Ho & He & Hk & Hf & _).
  unfold model_obs. rewrite R. cbn [o_kind o_out o_err o_files o_pipes].
  rewrite Ho, He, Hf, !bytes_eqb_refl, files_eqb_refl. cbn [N.eqb andb].
  apply forallb_forall. intros k _. rewrite Hk. apply bytes_eqb_refl.
Qed.

(* nothing is ever written into the block's own stdin (where the old `<!out>` wiring lost bytes) *)
Lemma nothing_lost_in_parent_stdin l fs st : run_block l fs = Ok st -> st_pin st = [].
Proof.
  intro R. assert (L : last_link l = Semi).
  { unfold run_block in R. destruct (last_link l); try discriminate; reflexivity. }
  destruct (run_block_expected l fs L) as (st' & R' & H). rewrite R in R'. inversion R'; subst st'. tauto.
Qed.

(* ---------- the statements of the property for one command ---------- *)
Definition one (rs : list rname) (o e : bytes) : list stage :=
  [{| s_act := Emit o e; s_redirs := rs; s_link := Semi |}].

Ltac one_cmd rs o e fs :=
  destruct (run_block_expected (one rs o e) fs eq_refl) as (st & R & Ho & He & Hk & Hf & _);
  exists st; cbn in Ho, He, Hf; repeat rewrite app_nil_r in Ho; repeat rewrite app_nil_r in He; repeat split; try assumption.

Lemma no_redirect o e fs : exists st, run_block (one [] o e) fs = Ok st /\ st_out st = o /\ st_err st = e /\ st_fs st = fs.
Proof. one_cmd (@nil rname) o e fs. Qed.

Lemma err_redirect o e fs : exists st, run_block (one [R_err] o e) fs = Ok st /\ st_out st = [] /\ st_err st = o ++ e /\ st_fs st = fs.
Proof. one_cmd [R_err] o e fs. Qed.

Lemma bang_out_redirect o e fs : exists st, run_block (one [R_bout] o e) fs = Ok st /\ st_out st = o ++ e /\ st_err st = [] /\ st_fs st = fs.
Proof. one_cmd [R_bout] o e fs. Qed.

Lemma null_redirects o e fs :
  (exists st, run_block (one [R_null] o e) fs = Ok st /\ st_out st = [] /\ st_err st = e /\ st_fs st = fs) /\
  (exists st, run_block (one [R_bnull] o e) fs = Ok st /\ st_out st = o /\ st_err st = [] /\ st_fs st = fs) /\
  (exists st, run_block (one [R_null; R_bnull] o e) fs = Ok st /\ st_out st = [] /\ st_err st = [] /\ st_fs st = fs).
Proof.
  split; [|split].
  - one_cmd [R_null] o e fs.
  - one_cmd [R_bnull] o e fs.
  - one_cmd [R_null; R_bnull] o e fs.
Qed.

(* both streams redirected at once, in either order: `<err> <!out>` swaps them,
   `<err> <!null>` keeps only stdout (on stderr), `<null> <!out>` keeps only stderr (on stdout) *)
Lemma both_redirected o e fs :
  (exists st, run_block (one [R_err; R_bout] o e) fs = Ok st /\ st_out st = e /\ st_err st = o /\ st_fs st = fs) /\
  (exists st, run_block (one [R_bout; R_err] o e) fs = Ok st /\ st_out st = e /\ st_err st = o /\ st_fs st = fs) /\
  (exists st, run_block (one [R_err; R_bnull] o e) fs = Ok st /\ st_out st = [] /\ st_err st = o /\ st_fs st = fs) /\
  (exists st, run_block (one [R_null; R_bout] o e) fs = Ok st /\ st_out st = e /\ st_err st = [] /\ st_fs st = fs).
Proof.
  split; [|split; [|split]].
  - one_cmd [R_err; R_bout] o e fs.
  - one_cmd [R_bout; R_err] o e fs.
  - one_cmd [R_err; R_bnull] o e fs.
  - one_cmd [R_null; R_bout] o e fs.
Qed.

(* user-named pipes as targets: `cmd <p> <!q>` *)
Lemma named_pipe_redirect o e j k fs : j <> k ->
  exists st, run_block (one [R_pipe j; R_bpipe k] o e) fs = Ok st /\
    pipe_get (st_pipes st) j = o /\ pipe_get (st_pipes st) k = e /\ st_out st = [] /\ st_err st = [] /\ st_fs st = fs.
Proof.
  intro NE.
  destruct (run_block_expected (one [R_pipe j; R_bpipe k] o e) fs eq_refl) as (st & R & Ho & He & Hk & Hf & _).
  exists st. split; [exact R|]. rewrite (Hk j), (Hk k). cbn in *.
  rewrite N.eqb_refl. destruct (N.eqb_spec k j) as [E|_]; [congruence|].
  destruct (N.eqb_spec j k) as [E|_]; [congruence|].
  repeat rewrite N.eqb_refl. repeat rewrite app_nil_r. cbn [app]. repeat split; assumption.
Qed.

(* `cmd ? next`: stderr of cmd is what next reads, stdout of cmd goes to the block's stderr.
   (next = the harness command: it copies what it reads to its stdout) *)
Definition qpiped (rs : list rname) (o e : bytes) : list stage :=
  [{| s_act := Emit o e; s_redirs := rs; s_link := QPipe |}; {| s_act := Emit [] []; s_redirs := []; s_link := Semi |}].

Lemma qpipe_routes o e fs :
  exists st, run_block (qpiped [] o e) fs = Ok st /\ st_out st = e /\ st_err st = o /\ st_fs st = fs.
Proof.
  destruct (run_block_expected (qpiped [] o e) fs eq_refl) as (st & R & Ho & He & Hk & Hf & _).
  exists st. cbn in Ho, He, Hf. repeat rewrite app_nil_r in Ho. repeat rewrite app_nil_r in He. repeat split; assumption.
Qed.

(* `cmd |> f` and `cmd >> f` for a command writing o (any length) to stdout *)
Definition to_file (act : action) (o e : bytes) : list stage :=
  [{| s_act := Emit o e; s_redirs := []; s_link := Pipe |}; {| s_act := act; s_redirs := []; s_link := Semi |}].

Lemma truncate_exact o e f fs :
  exists st, run_block (to_file (Trunc f) o e) fs = Ok st /\
    file_get (st_fs st) f = Some o /\ (forall g, g <> f -> file_get (st_fs st) g = file_get fs g) /\
    st_out st = [] /\ st_err st = e.
Proof.
  destruct (run_block_expected (to_file (Trunc f) o e) fs eq_refl) as (st & R & Ho & He & Hk & Hf & _).
  exists st. split; [exact R|]. cbn in Ho, He, Hf. repeat rewrite app_nil_r in Ho. repeat rewrite app_nil_r in He. repeat rewrite app_nil_r in Hf.
  rewrite Hf, Ho, He. repeat split.
  - apply file_get_set.
  - intros g NE. apply file_get_set_other. exact NE.
Qed.

Lemma append_exact o e f fs :
  exists st, run_block (to_file (Append f) o e) fs = Ok st /\
    file_get (st_fs st) f = Some (match file_get fs f with Some old => old ++ o | None => o end) /\
    (forall g, g <> f -> file_get (st_fs st) g = file_get fs g) /\
    st_out st = [] /\ st_err st = e.
Proof.
  destruct (run_block_expected (to_file (Append f) o e) fs eq_refl) as (st & R & Ho & He & Hk & Hf & _).
  exists st. split; [exact R|]. cbn in Ho, He, Hf. repeat rewrite app_nil_r in Ho. repeat rewrite app_nil_r in He. repeat rewrite app_nil_r in Hf.
  rewrite Hf, Ho, He. repeat split.
  - apply file_get_set.
  - intros g NE. apply file_get_set_other. exact NE.
Qed.

(* ---------- the defects that were fixed ---------- *)
(* F33: createProcess used to wire `<!out>` to p.Next.Stdin.  For a command that is not
   followed by a pipe that stream is the next command's (or the block's own) stdin. *)
Definition wire_old_bang_out (n i : nat) : stream := next_stdin n i.

Lemma old_wiring_refuted :
  wire_old_bang_out 1 0 = SParentIn /\
  stream_of 0 (doc_err {| s_act := Emit [] [101]; s_redirs := [R_bout]; s_link := Semi |}) = SParentOut.
Proof. split; reflexivity. Qed.

(* F33b: `<err>` used to be p.Next.Stderr, the NEXT command's compile-time stderr.  When that
   command has a ` ? ` pipe of its own this is the stdin of the command after it:
   `a <err>; b ? c` delivered a's stdout to c. *)
Lemma old_err_wiring_refuted :
  old_err_target 3 0 (Some QPipe) = SStdin 2 /\
  stream_of 0 (doc_out {| s_act := Emit [111] []; s_redirs := [R_err]; s_link := Semi |}) = SParentErr.
Proof. split; reflexivity. Qed.
