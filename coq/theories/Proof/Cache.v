(* C30 — proofs about Model/Cache.v *)
From Coq Require Import Lia ZifyBool.
From Murex Require Import Base.Bytes Model.Cache Check.C30.
Open Scope Z_scope.

Lemma key2_eqb_eq a b : key2_eqb a b = true <-> a = b.
Proof.
  destruct a as [a1 a2], b as [b1 b2]. unfold key2_eqb. cbn [fst snd].
  rewrite andb_true_iff, !bytes_eqb_eq. split; [intros [-> ->]; reflexivity|intro E; inversion E; auto].
Qed.
Lemma key2_eqb_refl a : key2_eqb a a = true.
Proof. apply key2_eqb_eq. reflexivity. Qed.

(* ---- the keyed-table laws: the ASSUMPTION about SQLite ---- *)
Record db_laws {D : Type} (ops : dbops D) : Prop := {
  row_empty : forall k, d_row ops (d_empty ops) k = None;
  row_insert_same : forall d k v t, d_row ops (d_insert ops d k v t) k = Some (v, t);
  row_insert_other : forall d k k' v t, key2_eqb k k' = false ->
      d_row ops (d_insert ops d k v t) k' = d_row ops d k';
  row_trim : forall d ns now k,
      d_row ops (d_trim ops d ns now) k =
      match d_row ops d k with
      | Some (v, t) => if bytes_eqb (fst k) ns && (t <? now) then None else Some (v, t)
      | None => None
      end;
  row_clear : forall d ns k,
      d_row ops (d_clear ops d ns) k = if bytes_eqb (fst k) ns then None else d_row ops d k
}.

(* the association list is a keyed table *)
Lemma t_row_filter_key (q : key2 -> bool) (t : table) k :
  t_row (filter (fun e => q (fst e)) t) k = if q k then t_row t k else None.
Proof.
  induction t as [|[k0 r] t IH]; [destruct (q k); reflexivity|]. cbn [filter fst].
  destruct (q k0) eqn:Q0.
  - cbn [t_row]. destruct (key2_eqb k0 k) eqn:E0.
    + apply key2_eqb_eq in E0. subst k0. rewrite Q0. reflexivity.
    + exact IH.
  - rewrite IH. cbn [t_row]. destruct (key2_eqb k0 k) eqn:E0; [|reflexivity].
    apply key2_eqb_eq in E0. subst k0. rewrite Q0. reflexivity.
Qed.

Lemma list_db_laws : db_laws list_db.
Proof.
  constructor; cbn [list_db d_empty d_row d_insert d_trim d_clear].
  - reflexivity.
  - intros d k v t. unfold t_insert. cbn [t_row]. rewrite key2_eqb_refl. reflexivity.
  - intros d k k' v t H. unfold t_insert. cbn [t_row]. rewrite H.
    rewrite (t_row_filter_key (fun k0 => negb (key2_eqb k0 k)) d k').
    replace (key2_eqb k' k) with false; [reflexivity|].
    destruct (key2_eqb k' k) eqn:E; [|reflexivity].
    apply key2_eqb_eq in E. subst. rewrite key2_eqb_refl in H. discriminate.
  - intros d ns now k. unfold t_trim.
    rewrite (t_row_filter_key (fun k0 => negb (t_stale d ns now k0)) d k).
    unfold t_stale, t_in_ns. destruct (t_row d k) as [[v t]|]; [|reflexivity].
    destruct (bytes_eqb (fst k) ns && (t <? now)); reflexivity.
  - intros d ns k. unfold t_clear.
    rewrite (t_row_filter_key (fun k0 => negb (t_in_ns ns k0)) d k).
    unfold t_in_ns. destruct (bytes_eqb (fst k) ns); reflexivity.
Qed.

Section Generic.
  Context {D : Type} (ops : dbops D) (L : db_laws ops).
  Variable all_ns : list bytes.

  Notation state := (@state D).

  (* the in-memory layer never influences what a read returns *)
  Lemma internal_layer_unobservable (st : state) now k :
    c_read ops st now k = db_read ops st now k.
  Proof.
    unfold c_read, internal_read. destruct (t_row (internal st) k) as [[v ttl]|]; [|reflexivity].
    destruct (now <? ttl); reflexivity.
  Qed.

  (* rows after Trim / Clear over all namespaces *)
  Lemma row_trim_all (nss : list bytes) d now k :
    d_row ops (fold_left (fun d ns => d_trim ops d ns now) nss d) k =
    match d_row ops d k with
    | Some (v, t) => if mem (fst k) nss && (t <? now) then None else Some (v, t)
    | None => None
    end.
  Proof.
    revert d. induction nss as [|ns nss IH]; intro d.
    - cbn. destruct (d_row ops d k) as [[v t]|]; reflexivity.
    - cbn [fold_left]. rewrite IH, (row_trim ops L). unfold mem. cbn [existsb].
      destruct (d_row ops d k) as [[v t]|]; [|reflexivity].
      fold (mem (fst k) nss).
      destruct (bytes_eqb (fst k) ns), (t <? now) eqn:E2, (mem (fst k) nss); cbn; rewrite ?E2; reflexivity.
  Qed.

  Lemma row_clear_all (nss : list bytes) d k :
    d_row ops (fold_left (d_clear ops) nss d) k = if mem (fst k) nss then None else d_row ops d k.
  Proof.
    revert d. induction nss as [|ns nss IH]; intro d; [reflexivity|].
    cbn [fold_left]. rewrite IH, (row_clear ops L). unfold mem. cbn [existsb].
    fold (mem (fst k) nss). destruct (bytes_eqb (fst k) ns), (mem (fst k) nss); reflexivity.
  Qed.

  (* state after a history given newest-first *)
  Fixpoint state_rev (hr : list (Z * op)) : state :=
    match hr with
    | [] => init ops
    | (t, o) :: hr' => fst (apply ops all_ns (state_rev hr') t o)
    end.

  (* what the backwards specification computes, in terms of the row the database holds *)
  Definition row_verdict (row : option (bytes * Z)) (dead : bool) (tmax : option Z) (now : Z)
    : option bytes :=
    match row with
    | Some (v, ttl) =>
      if dead || killed tmax ttl || negb (now <? ttl) || is_empty v then None else Some v
    | None => None
    end.

  Lemma killed_bump tmax t ttl : killed (bump tmax t) ttl = killed tmax ttl || (ttl <? t).
  Proof. destruct tmax as [m|]; cbn [killed bump]; lia. Qed.

  Lemma expect_is_row hr : forall k dead tmax now,
    expect_rev all_ns hr k dead tmax now
    = row_verdict (d_row ops (db (state_rev hr)) k) dead tmax now.
  Proof.
    induction hr as [|[t o] hr IH]; intros k dead tmax now.
    - cbn. rewrite (row_empty ops L). reflexivity.
    - cbn [expect_rev state_rev]. destruct o as [k' v ttl|k'| |]; cbn [apply fst].
      + cbn [c_write db]. destruct (key2_eqb k' k) eqn:E.
        * apply key2_eqb_eq in E. subst k'. rewrite (row_insert_same ops L). reflexivity.
        * rewrite (row_insert_other ops L) by exact E. apply IH.
      + apply IH.
      + cbn [c_trim db]. rewrite row_trim_all, IH. unfold row_verdict.
        destruct (d_row ops (db (state_rev hr)) k) as [[v ttl]|]; [|reflexivity].
        destruct (mem (fst k) all_ns); cbn [andb].
        * rewrite killed_bump. destruct (ttl <? t); [|rewrite orb_false_r; reflexivity].
          rewrite orb_true_r. destruct dead; reflexivity.
        * reflexivity.
      + cbn [c_clear db]. rewrite row_clear_all, IH. unfold row_verdict.
        destruct (mem (fst k) all_ns).
        * rewrite orb_true_r. destruct (d_row ops (db (state_rev hr)) k) as [[v ttl]|]; reflexivity.
        * rewrite orb_false_r. reflexivity.
  Qed.

  (* a read returns exactly what the backwards specification says *)
  Lemma read_is_expect hr k now :
    c_read ops (state_rev hr) now k = expect_rev all_ns hr k false None now.
  Proof.
    rewrite internal_layer_unobservable, expect_is_row. unfold db_read, row_verdict.
    destruct (d_row ops (db (state_rev hr)) k) as [[v ttl]|]; [|reflexivity].
    cbn [killed orb]. destruct (now <? ttl), (is_empty v); reflexivity.
  Qed.

  (* forward run = state_rev of the reversed history *)
  Lemma run_from_spec (h : list (Z * op)) : forall hr,
    spec_steps all_ns hr (zip_steps h (snd (run_from ops all_ns (state_rev hr) h))) = true.
  Proof.
    induction h as [|[t o] h IH]; intro hr; [reflexivity|].
    cbn [run_from].
    destruct (apply ops all_ns (state_rev hr) t o) as [st1 r] eqn:EA.
    destruct (run_from ops all_ns st1 h) as [st2 rs] eqn:ER.
    cbn [snd zip_steps spec_steps st_op st_obs st_now].
    assert (st1 = state_rev ((t, o) :: hr)) as E1 by (cbn [state_rev]; rewrite EA; reflexivity).
    specialize (IH ((t, o) :: hr)). rewrite <- E1, ER in IH. cbn [snd] in IH. rewrite IH, andb_true_r.
    destruct o as [k' v ttl|k'| |]; cbn [apply] in EA; inversion EA; subst; try reflexivity.
    rewrite read_is_expect. destruct (expect_rev all_ns hr k' false None t); cbn; [apply bytes_eqb_refl|reflexivity].
  Qed.

  Lemma model_meets_spec_gen h :
    spec_ok (mk_case all_ns h (results ops all_ns h)) = true.
  Proof. unfold spec_ok, mk_case, results. cbn [c_ns c_steps]. apply (run_from_spec h []). Qed.
End Generic.

(* ---- what the backwards specification means, spelled out ---- *)
Definition writes_to (k : key2) (o : op) : bool :=
  match o with Write k' _ _ => key2_eqb k' k | _ => false end.
Definition no_write (k : key2) (hr : list (Z * op)) : Prop :=
  forall t o, In (t, o) hr -> writes_to k o = false.

Section Spec.
  Variable all_ns : list bytes.

  (* sound: a returned value is the value of the latest write to the same namespace and key,
     and that write's TTL is in the future *)
  Lemma expect_sound hr : forall k dead tmax now v,
    expect_rev all_ns hr k dead tmax now = Some v ->
    exists hr1 hr2 t ttl, hr = hr1 ++ (t, Write k v ttl) :: hr2 /\ no_write k hr1 /\ now < ttl.
  Proof.
    induction hr as [|[t o] hr IH]; intros k dead tmax now v H; [discriminate|].
    cbn [expect_rev] in H.
    assert (forall dead' tmax', expect_rev all_ns hr k dead' tmax' now = Some v -> writes_to k o = false ->
            exists hr1 hr2 t0 ttl, (t, o) :: hr = hr1 ++ (t0, Write k v ttl) :: hr2 /\ no_write k hr1 /\ now < ttl) as Skip.
    { intros dead' tmax' H' Ho. destruct (IH _ _ _ _ _ H') as [hr1 [hr2 [t0 [ttl [E [NW LT]]]]]].
      exists ((t, o) :: hr1), hr2, t0, ttl. split; [rewrite E; reflexivity|]. split; [|exact LT].
      intros t' o' [HI|HI]; [inversion HI; subst; exact Ho|eapply NW; exact HI]. }
    destruct o as [k' v' ttl|k'| |].
    - destruct (key2_eqb k' k) eqn:E.
      + apply key2_eqb_eq in E. subst k'.
        destruct (dead || killed tmax ttl || negb (now <? ttl) || is_empty v') eqn:C; [discriminate|].
        inversion H; subst v'. exists [], hr, t, ttl. split; [reflexivity|]. split; [intros ? ? []|lia].
      + eapply Skip; [exact H|exact E].
    - eapply Skip; [exact H|reflexivity].
    - eapply Skip; [exact H|reflexivity].
    - eapply Skip; [exact H|reflexivity].
  Qed.

  (* expired, or overwritten by an expired entry: nothing is returned *)
  Lemma expect_expired hr1 : forall hr2 k t v ttl dead tmax now,
    no_write k hr1 -> ttl <= now ->
    expect_rev all_ns (hr1 ++ (t, Write k v ttl) :: hr2) k dead tmax now = None.
  Proof.
    induction hr1 as [|[t1 o] hr1 IH]; intros hr2 k t v ttl dead tmax now NW LE.
    - cbn [app expect_rev]. rewrite key2_eqb_refl.
      replace (now <? ttl) with false by lia. cbn [negb]. rewrite orb_true_r. reflexivity.
    - assert (no_write k hr1) as NW1 by (intros t' o' HI; eapply NW; right; exact HI).
      pose proof (NW t1 o (or_introl eq_refl)) as Ho.
      cbn [app expect_rev]. destruct o as [k' v' ttl'|k'| |]; cbn [writes_to] in Ho;
        try rewrite Ho; apply IH; assumption.
  Qed.

  (* nothing was ever written under that namespace and key: nothing is returned *)
  Lemma expect_nothing_written hr : forall k dead tmax now,
    no_write k hr -> expect_rev all_ns hr k dead tmax now = None.
  Proof.
    induction hr as [|[t o] hr IH]; intros k dead tmax now NW; [reflexivity|].
    assert (no_write k hr) as NW1 by (intros t' o' HI; eapply NW; right; exact HI).
    pose proof (NW t o (or_introl eq_refl)) as Ho.
    cbn [expect_rev]. destruct o as [k' v' ttl'|k'| |]; cbn [writes_to] in Ho;
      try rewrite Ho; apply IH; assumption.
  Qed.

  (* complete: the latest write is returned while its TTL is in the future, provided no Clear
     followed it and no Trim ran after its expiry *)
  Definition harmless (ttl : Z) (e : Z * op) : Prop :=
    match snd e with Clear => False | Trim => ttl >= fst e | _ => True end.

  Lemma expect_complete hr1 : forall hr2 k t v ttl tmax now,
    no_write k hr1 -> Forall (harmless ttl) hr1 -> killed tmax ttl = false ->
    now < ttl -> v <> [] ->
    expect_rev all_ns (hr1 ++ (t, Write k v ttl) :: hr2) k false tmax now = Some v.
  Proof.
    induction hr1 as [|[t1 o] hr1 IH]; intros hr2 k t v ttl tmax now NW HL KL LT NE.
    - cbn [app expect_rev]. rewrite key2_eqb_refl, KL.
      replace (now <? ttl) with true by lia. destruct v; [contradiction|reflexivity].
    - assert (no_write k hr1) as NW1 by (intros t' o' HI; eapply NW; right; exact HI).
      pose proof (NW t1 o (or_introl eq_refl)) as Ho.
      inversion HL as [|? ? H1 HL1]; subst.
      cbn [app expect_rev]. destruct o as [k' v' ttl'|k'| |]; cbn [writes_to] in Ho; unfold harmless in H1; cbn [fst snd] in H1.
      + rewrite Ho. apply IH; assumption.
      + apply IH; assumption.
      + apply IH; try assumption. destruct (mem (fst k) all_ns); [|exact KL].
        rewrite killed_bump, KL. cbn [orb]. lia.
      + contradiction.
  Qed.
End Spec.

(* ---- the named theorems, for reads of the model over any keyed-table database ---- *)
Section Named.
  Context {D : Type} (ops : dbops D) (L : db_laws ops).
  Variable all_ns : list bytes.
  Notation st := (state_rev ops all_ns).

  Lemma read_sound hr k now v :
    c_read ops (st hr) now k = Some v ->
    exists hr1 hr2 t ttl, hr = hr1 ++ (t, Write k v ttl) :: hr2 /\ no_write k hr1 /\ now < ttl.
  Proof. rewrite (read_is_expect ops L). apply expect_sound. Qed.

  Lemma read_complete hr1 hr2 k t v ttl now :
    no_write k hr1 -> Forall (harmless ttl) hr1 -> now < ttl -> v <> [] ->
    c_read ops (st (hr1 ++ (t, Write k v ttl) :: hr2)) now k = Some v.
  Proof.
    intros. rewrite (read_is_expect ops L). apply expect_complete; try assumption. reflexivity.
  Qed.

  Lemma expired_returns_nothing hr1 hr2 k t v ttl now :
    no_write k hr1 -> ttl <= now ->
    c_read ops (st (hr1 ++ (t, Write k v ttl) :: hr2)) now k = None.
  Proof. intros. rewrite (read_is_expect ops L). apply expect_expired; assumption. Qed.

  Lemma nothing_written_returns_nothing hr k now :
    no_write k hr -> c_read ops (st hr) now k = None.
  Proof. intros. rewrite (read_is_expect ops L). apply expect_nothing_written; assumption. Qed.
End Named.

Lemma model_meets_spec ns h : spec_ok (mk_case ns h (results list_db ns h)) = true.
Proof. apply model_meets_spec_gen. exact list_db_laws. Qed.
