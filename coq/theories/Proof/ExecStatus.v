From Coq Require Import Lia.
From Murex Require Import Base.Outcome Model.ExecStatus Check.C21.

Lemma exited_reports_status n : exit_num (Exited n) = n.
Proof. unfold exit_num, external, exec_fork, go_wait. destruct (Z.eqb_spec n 0); subst; reflexivity. Qed.

Lemma exited_zero : exit_num (Exited 0) = 0%Z.
Proof. reflexivity. Qed.

Lemma signaled_is_128_plus s : exit_num (Signaled s) = (128 + s)%Z.
Proof. reflexivity. Qed.

Lemma signaled_nonzero s : (1 <= s)%Z -> exit_num (Signaled s) <> 0%Z.
Proof. intro H. rewrite signaled_is_128_plus. lia. Qed.

Lemma signaled_no_error_message s : snd (external (Signaled s)) = false.
Proof. reflexivity. Qed.

Lemma failed_iff_really_failed w :
  match w with Exited _ => True | Signaled s => (1 <= s)%Z | NoChild => True end ->
  failed (exit_num w) = really_failed w.
Proof.
  destruct w as [n|s|]; intro H; unfold failed.
  - rewrite exited_reports_status. reflexivity.
  - rewrite signaled_is_128_plus. cbn [really_failed]. destruct (Z.eqb_spec (128 + s) 0); [lia|reflexivity].
  - reflexivity.
Qed.

(* The model meets the property predicate for every context, exit status and signal. *)
Lemma model_meets_spec c w :
  match w with Exited _ => True | Signaled s => (1 <= s)%Z | NoChild => True end ->
  spec_obs c w (run c w) = true.
Proof.
  intro H. unfold spec_obs, run. cbn [o_exit o_next].
  assert (F := failed_iff_really_failed w H).
  apply andb_true_iff; split.
  - destruct w as [n|s|].
    + rewrite exited_reports_status. apply Z.eqb_refl.
    + rewrite signaled_is_128_plus. destruct (Z.eqb_spec (128 + s) 0); [lia|reflexivity].
    + reflexivity.
  - unfold next_runs, expect_next. rewrite F. destruct c; apply Bool.eqb_reflx.
Qed.

Lemma signaled_fails_chain s : (1 <= s)%Z ->
  o_next (run AndThen (Signaled s)) = false /\
  o_next (run OrElse (Signaled s)) = true /\
  o_next (run InTry (Signaled s)) = false /\
  o_next (run InTryPipe (Signaled s)) = false.
Proof.
  intro H. unfold run, next_runs; cbn [o_next].
  rewrite (failed_iff_really_failed (Signaled s) H). cbn. repeat split.
Qed.
