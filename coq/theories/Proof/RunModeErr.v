(* Proofs for C05, tryerr / trypipeerr: strict_loop (runModeTry / runModeTryPipe
   with or without checkTryErr) on the processes of a program computes what the
   CUMULATIVE reference interpreter (spec_ref true) computes on the program; the
   documented per-process rule (spec_ref false) is refuted, and holds under
   guards. *)
From Coq Require Import Lia ZifyBool.
From Murex Require Import Base.Outcome Base.Bytes Model.RunMode Proof.RunMode Proof.RunModeStrict.

Definition after' (chk every : bool) (outT errT : N) (e : Z) (tail : list proc) : list bool * Z :=
  match tail with
  | [] => ([], e)
  | q :: _ => if Z.ltb e 1 && p_or q then strict_loop chk every outT errT [] e true tail
              else if Z.ltb 0 e && negb (p_or q) then (falses tail, e)
              else strict_loop chk every outT errT [] e false tail
  end.

Lemma sl_skip_step chk every o s c e p rest : p_or p || p_method p = true ->
  strict_loop chk every o s c e true (p :: rest) =
  let '(r, e') := strict_loop chk every o s [] e true rest in (false :: r, e').
Proof. intro H. cbn [strict_loop]. rewrite H. reflexivity. Qed.

Lemma sl_run_step chk every o s c e sk p rest : sk && (p_or p || p_method p) = false ->
  strict_loop chk every o s c e sk (p :: rest) =
  let out := produced p true c in
  let errT' := (s + perr p)%N in
  match rest with
  | [] => ([true], check_err chk (pexit p) (o + blen out)%N errT')
  | q :: _ =>
      if p_method q && negb every
      then let '(r, e') := strict_loop chk every o errT' out e false rest in (true :: r, e')
      else
        let osz := if p_method q then blen out else (o + blen out)%N in
        let outT' := if p_method q then o else (o + blen out)%N in
        let carry' := if p_method q then out else [] in
        let e1 := check_err chk (pexit p) osz errT' in
        if Z.ltb e1 1 && p_or q
        then let '(r, e') := strict_loop chk every outT' errT' carry' e1 true rest in (true :: r, e')
        else if Z.ltb 0 e1 && negb (p_or q)
        then (true :: falses rest, e1)
        else let '(r, e') := strict_loop chk every outT' errT' carry' e1 false rest in (true :: r, e')
  end.
Proof. intro H. cbn [strict_loop]. rewrite H. reflexivity. Qed.

Lemma check_err_nonneg chk e o s : (0 <= e)%Z -> (0 <= check_err chk e o s)%Z.
Proof. intro H. unfold check_err. destruct (chk && Z.ltb e 1 && N.ltb o s); lia. Qed.

Lemma sl_skip_stages chk every cs : forall carry p o s c e tail,
  head_nonmethod tail -> p_or p || p_method p = true ->
  oe carry (p :: map stage_proc cs ++ tail) (strict_loop chk every o s c e true (p :: map stage_proc cs ++ tail))
  = oe [] tail (strict_loop chk every o s [] e true tail).
Proof.
  induction cs as [|c0 cs IH]; intros carry p o s c e tail HT Hp.
  - cbn [map app]. rewrite sl_skip_step by exact Hp.
    destruct (strict_loop chk every o s [] e true tail) as [r e'] eqn:E.
    rewrite oe_cons_nonmethod by exact HT. reflexivity.
  - cbn [map app]. rewrite sl_skip_step by exact Hp.
    specialize (IH [] (stage_proc c0) o s [] e tail HT eq_refl).
    destruct (strict_loop chk every o s [] e true (stage_proc c0 :: map stage_proc cs ++ tail)) as [r e'] eqn:E.
    rewrite oe_cons_method by reflexivity. exact IH.
Qed.

Lemma sl_run_stages chk every cs : forall carry p o s e0 sk tail,
  head_nonmethod tail -> sk && (p_or p || p_method p) = false ->
  (0 <= pexit p)%Z -> Forall nonneg_cmd cs ->
  oe carry (p :: map stage_proc cs ++ tail)
     (strict_loop chk every o s carry e0 sk (p :: map stage_proc cs ++ tail))
  = match stages_ref true chk every o s carry (p_cmd p) cs with
    | RDone out e1 o' s' =>
        (out ++ fst (oe [] tail (after' chk every o' s' e1 tail)), snd (after' chk every o' s' e1 tail))
    | RAbort e1 => ([], e1)
    end.
Proof.
  induction cs as [|c0 cs IH]; intros carry p o s e0 sk tail HT Hsk Hp Hcs.
  - cbn [map app stages_ref]. rewrite sl_run_step by exact Hsk. cbv zeta.
    unfold verdict. fold (pexit p). fold (perr p).
    change (stage_out carry (p_cmd p)) with (produced p true carry).
    destruct tail as [|q tl].
    + unfold oe. cbn [fst snd stdout_of after']. rewrite app_nil_r. reflexivity.
    + cbn in HT. rewrite HT. cbn [andb after'].
      set (e1 := check_err chk (pexit p) (o + blen (produced p true carry)) (s + perr p)).
      destruct (Z.ltb e1 1 && p_or q).
      * destruct (strict_loop chk every (o + blen (produced p true carry)) (s + perr p) [] e1 true (q :: tl)) as [r e'].
        rewrite oe_cons_nonmethod by exact HT. reflexivity.
      * destruct (Z.ltb 0 e1 && negb (p_or q)).
        -- rewrite oe_cons_nonmethod by exact HT. reflexivity.
        -- destruct (strict_loop chk every (o + blen (produced p true carry)) (s + perr p) [] e1 false (q :: tl)) as [r e'].
           rewrite oe_cons_nonmethod by exact HT. reflexivity.
  - inversion Hcs as [|x l Hc Hcs']; subst.
    cbn [map app]. rewrite sl_run_step by exact Hsk. cbv zeta.
    cbn [stage_proc p_method p_or andb negb]. cbn [stages_ref].
    unfold verdict. fold (pexit p). fold (perr p).
    change (stage_out carry (p_cmd p)) with (produced p true carry).
    change (stage_proc c0 :: map stage_proc cs ++ tail) with (stage_proc c0 :: (map stage_proc cs ++ tail)) in *.
    destruct every; cbn [negb andb].
    + (* trypipe(err): this stage is checked on its own pipe *)
      rewrite andb_false_r.
      set (e1 := check_err chk (pexit p) (blen (produced p true carry)) (s + perr p)).
      assert (N1 : (0 <= e1)%Z) by (apply check_err_nonneg; exact Hp).
      destruct (Z.eqb_spec e1 0) as [E0|E0].
      * rewrite E0. cbn [Z.ltb Z.compare negb andb].
        specialize (IH (produced p true carry) (stage_proc c0) o (s + perr p)%N 0%Z false tail HT eq_refl Hc Hcs').
        destruct (strict_loop chk true o (s + perr p) (produced p true carry) 0 false (stage_proc c0 :: (map stage_proc cs ++ tail))) as [r e'] eqn:E.
        rewrite oe_cons_method by reflexivity. rewrite IH. reflexivity.
      * assert (L : Z.ltb 0 e1 = true) by lia. rewrite L. cbn [negb andb].
        rewrite oe_cons_method by reflexivity. unfold oe. cbn [fst snd].
        change (false :: falses (map stage_proc cs ++ tail)) with (falses (stage_proc c0 :: (map stage_proc cs ++ tail))).
        rewrite stdout_of_falses. reflexivity.
    + (* try(err): not waited for *)
      specialize (IH (produced p true carry) (stage_proc c0) o (s + perr p)%N e0 false tail HT eq_refl Hc Hcs').
      destruct (strict_loop chk false o (s + perr p) (produced p true carry) e0 false (stage_proc c0 :: (map stage_proc cs ++ tail))) as [r e'] eqn:E.
      rewrite oe_cons_method by reflexivity. rewrite IH. reflexivity.
Qed.

Lemma stages_ref_done_nonneg cum chk every cs : forall o s data c out e o' s',
  nonneg_cmd c -> Forall nonneg_cmd cs ->
  stages_ref cum chk every o s data c cs = RDone out e o' s' -> (0 <= e)%Z.
Proof.
  induction cs as [|c' cs IH]; intros o s data c out e o' s' Hc Hcs H.
  - cbn in H. injection H as _ <- _ _. unfold verdict. destruct cum; apply check_err_nonneg; exact Hc.
  - cbn [stages_ref] in H. inversion Hcs; subst. destruct every.
    + destruct (negb (Z.eqb _ 0)) in H; [discriminate|]. eapply IH; eassumption.
    + eapply IH; eassumption.
Qed.

Lemma ref_go chk every rest : nonneg_rest rest ->
  (forall e o s, (0 <= e)%Z ->
     oe [] (flatten_rest rest) (after' chk every o s e (flatten_rest rest))
     = spec_ref_go true chk every (negb (Z.eqb e 0)) e o s rest) /\
  (forall e o s,
     oe [] (flatten_rest rest) (strict_loop chk every o s [] e true (flatten_rest rest))
     = spec_ref_go true chk every false e o s rest).
Proof.
  induction rest as [|[j [h cs]] rest IH]; intro NN.
  - split; intros; reflexivity.
  - inversion NN as [|x l [Hh Hcs] NN']; subst. cbn [fst snd] in Hh, Hcs.
    destruct (IH NN') as [IHT IHS]. clear IH.
    pose proof (flatten_rest_head_nonmethod rest) as HT.
    assert (RUN : forall e o s sk, sk && is_or j = false ->
              oe [] (flatten_pl j (h, cs) ++ flatten_rest rest)
                 (strict_loop chk every o s [] e sk (flatten_pl j (h, cs) ++ flatten_rest rest))
              = match stages_ref true chk every o s [] h cs with
                | RAbort e1 => ([], e1)
                | RDone out e1 o' s' =>
                    let '(o2, e') := spec_ref_go true chk every (negb (Z.eqb e1 0)) e1 o' s' rest in
                    (out ++ o2, e')
                end).
    { intros e o s sk Hsk. unfold flatten_pl. cbn [fst snd].
      change ((head_proc j h :: map stage_proc cs) ++ flatten_rest rest)
        with (head_proc j h :: map stage_proc cs ++ flatten_rest rest).
      rewrite (sl_run_stages chk every cs [] (head_proc j h) o s e sk _ HT); try assumption.
      2:{ cbn [head_proc p_or p_method]. rewrite orb_false_r. exact Hsk. }
      cbn [head_proc p_cmd].
      destruct (stages_ref true chk every o s [] h cs) as [out e1 o' s'|e1] eqn:R; [|reflexivity].
      assert (0 <= e1)%Z by (eapply stages_ref_done_nonneg; eassumption).
      pose proof (IHT e1 o' s' H) as T. unfold oe in T.
      assert (T1 := f_equal fst T). assert (T2 := f_equal snd T). cbn [fst snd] in T1, T2.
      unfold oe. cbn [fst snd]. rewrite T1, T2.
      destruct (spec_ref_go true chk every (negb (Z.eqb e1 0)) e1 o' s' rest) as [o2 e']. reflexivity. }
    assert (S : forall e o s,
              oe [] (flatten_rest ((j, (h, cs)) :: rest))
                 (strict_loop chk every o s [] e true (flatten_rest ((j, (h, cs)) :: rest)))
              = spec_ref_go true chk every false e o s ((j, (h, cs)) :: rest)).
    { intros e o s. cbn [flatten_rest spec_ref_go fst snd].
      destruct j.
      - apply RUN. reflexivity.
      - apply RUN. reflexivity.
      - unfold flatten_pl. cbn [fst snd].
        change ((head_proc JOr h :: map stage_proc cs) ++ flatten_rest rest)
          with (head_proc JOr h :: map stage_proc cs ++ flatten_rest rest).
        rewrite (sl_skip_stages chk every cs [] (head_proc JOr h) o s [] e _ HT eq_refl). apply IHS. }
    split; [|exact S].
    intros e o s He. cbn [flatten_rest].
    change (flatten_pl j (h, cs) ++ flatten_rest rest)
      with (head_proc j h :: (map stage_proc cs ++ flatten_rest rest)).
    cbn [after']. cbn [head_proc p_or].
    change (head_proc j h :: (map stage_proc cs ++ flatten_rest rest))
      with (flatten_pl j (h, cs) ++ flatten_rest rest).
    destruct (Z.eqb_spec e 0) as [E0|E0].
    + subst e. cbn [Z.ltb Z.compare andb negb].
      destruct j; cbn [is_or andb negb spec_ref_go fst snd].
      * apply RUN. reflexivity.
      * apply RUN. reflexivity.
      * exact (S 0%Z o s).
    + assert (L1 : Z.ltb e 1 = false) by lia. assert (L2 : Z.ltb 0 e = true) by lia.
      rewrite L1, L2. cbn [andb negb].
      destruct j; cbn [is_or andb negb spec_ref_go fst snd].
      * unfold oe. cbn [fst snd]. rewrite stdout_of_falses. reflexivity.
      * unfold oe. cbn [fst snd]. rewrite stdout_of_falses. reflexivity.
      * apply RUN. reflexivity.
Qed.

(* the four strict schedulers (chk = tryErr, every = trypipe) compute the
   cumulative reference interpreter, for every program *)
Theorem strict_loop_refines_cum chk every prog :
  exits_nonneg prog = true -> prog <> [] ->
  observe (flatten prog) (run_strict chk every (flatten prog)) = spec_ref true chk every prog.
Proof.
  intros NN NE. destruct prog as [|[j [h cs]] rest]; [congruence|].
  apply exits_nonneg_rest in NN. inversion NN as [|x l [Hh Hcs] NN']; subst. cbn [fst snd] in Hh, Hcs.
  destruct (ref_go chk every rest NN') as [IHT _].
  pose proof (flatten_rest_head_nonmethod rest) as HT.
  unfold spec_ref. cbn [spec_ref_go flatten fst snd]. unfold run_strict, flatten_pl. cbn [fst snd app].
  pose proof (sl_run_stages chk every cs [] (head_proc JSemi h) 0%N 0%N 0%Z false _ HT eq_refl Hh Hcs) as R.
  cbn [head_proc p_cmd] in R. unfold observe. unfold oe in R.
  assert (R1 := f_equal fst R). assert (R2 := f_equal snd R). cbn [fst snd] in R1, R2.
  change (head_proc JSemi h :: map stage_proc cs ++ flatten_rest rest)
    with ({| p_method := false; p_and := is_and JSemi; p_or := is_or JSemi; p_cmd := h |} :: map stage_proc cs ++ flatten_rest rest) in *.
  rewrite R1, R2. clear R R1 R2.
  destruct (stages_ref true chk every 0 0 [] h cs) as [out e1 o' s'|e1] eqn:RP; [|reflexivity].
  assert (0 <= e1)%Z by (eapply stages_ref_done_nonneg; eassumption).
  pose proof (IHT e1 o' s' H) as T. unfold oe in T.
  assert (T1 := f_equal fst T). assert (T2 := f_equal snd T). cbn [fst snd] in T1, T2.
  rewrite T1, T2.
  destruct (spec_ref_go true chk every (negb (Z.eqb e1 0)) e1 o' s' rest) as [o2 e']. reflexivity.
Qed.

Theorem err_modes_refine_cum m prog :
  exits_nonneg prog = true ->
  match sched_of m with STryErr | STryPipeErr => True | _ => False end ->
  run_program m prog = spec_cum_of m prog.
Proof.
  intros NN H. unfold run_program, execute, spec_cum_of.
  destruct (sched_of m) eqn:S; try contradiction.
  - destruct (flatten prog) eqn:F.
    + destruct prog as [|[j [h cs]] rest]; [reflexivity|discriminate].
    + rewrite <- F. apply (strict_loop_refines_cum true false prog NN). intro E; subst; discriminate.
  - destruct (flatten prog) eqn:F.
    + destruct prog as [|[j [h cs]] rest]; [reflexivity|discriminate].
    + rewrite <- F. apply (strict_loop_refines_cum true true prog NN). intro E; subst; discriminate.
Qed.

(* ------------------------------------------------------------------ *)
(* the documented per-process rule *)

Definition w_s0 (n : nat) : cmd :=      (* exit 0, nothing on stdout, n bytes on stderr *)
  {| c_exit := 0; c_tok := []; c_fwd := false; c_err := repeat 116%N n |}.
Definition w_outn (n : nat) : cmd :=    (* exit 0, n bytes on stdout *)
  {| c_exit := 0; c_tok := repeat 111%N n; c_fwd := false; c_err := [] |}.

(* `tryerr { out ooooooo; s0 t2; out o3 }`: s0 exits 0 and writes only to stderr,
   the documented rule says it failed; the code compares the block's totals
   (3 bytes of stderr against 8 of stdout) and goes on. *)
Definition witness_err_masked : program :=
  [(JSemi, (w_outn 8, [])); (JSemi, (w_s0 3, [])); (JSemi, (w_outn 3, []))].
(* `tryerr { s0 tttt1 || out o2; out o3 }`: `out o2` writes nothing to stderr but is
   judged failed because of what s0 wrote before it. *)
Definition witness_err_inherited : program :=
  [(JSemi, (w_s0 6, [])); (JOr, (w_outn 3, [])); (JSemi, (w_outn 3, []))].

Lemma doc_rule_refuted :
  run_program RmBlockTryErr witness_err_masked <> spec_of RmBlockTryErr witness_err_masked /\
  run_program RmBlockTryErr witness_err_inherited <> spec_of RmBlockTryErr witness_err_inherited /\
  run_program RmBlockTryPipeErr witness_err_masked <> spec_of RmBlockTryPipeErr witness_err_masked.
Proof. repeat split; vm_compute; discriminate. Qed.

(* guard 1: nothing is written to stderr *)
Definition no_err_cmd (c : cmd) : Prop := c_err c = [].
Definition no_err_rest (rest : program) : Prop :=
  Forall (fun jp => no_err_cmd (fst (snd jp)) /\ Forall no_err_cmd (snd (snd jp))) rest.

Lemma no_stderr_rest prog : no_stderr prog = true -> no_err_rest prog.
Proof.
  unfold no_stderr, no_err_rest. induction prog as [|[j [h cs]] rest IH]; intro H; [constructor|].
  cbn [cmds_of flat_map fst snd] in H. cbn [forallb app] in H.
  apply andb_true_iff in H as [H1 H2]. rewrite forallb_app in H2. apply andb_true_iff in H2 as [H2 H3].
  constructor.
  - cbn [fst snd]. split; [unfold no_err_cmd; destruct (c_err h); [reflexivity|discriminate]|].
    apply Forall_forall. intros c Hc. rewrite forallb_forall in H2. specialize (H2 c Hc).
    unfold no_err_cmd; destruct (c_err c); [reflexivity|discriminate].
  - apply IH. exact H3.
Qed.

Lemma check_err_zero chk e o : check_err chk e o 0 = e.
Proof. unfold check_err. destruct o; rewrite andb_false_r; reflexivity. Qed.

Lemma stages_ref_no_err cum chk cum' chk' every cs : forall o data c,
  no_err_cmd c -> Forall no_err_cmd cs ->
  stages_ref cum chk every o 0 data c cs = stages_ref cum' chk' every o 0 data c cs /\
  (forall out e o' s', stages_ref cum chk every o 0 data c cs = RDone out e o' s' -> s' = 0%N).
Proof.
  induction cs as [|c' cs IH]; intros o data c Hc Hcs.
  - cbn [stages_ref]. unfold verdict. rewrite Hc. cbn [length blen N.of_nat N.add].
    destruct cum, cum'; rewrite !check_err_zero; split; try reflexivity;
      intros out e o' s' H; injection H as _ _ _ <-; reflexivity.
  - inversion Hcs as [|x l Hc' Hcs']; subst. cbn [stages_ref]. unfold verdict. rewrite Hc.
    cbn [length blen N.of_nat N.add].
    destruct (IH o (stage_out data c) c' Hc' Hcs') as [E Z0].
    destruct every.
    + destruct cum, cum'; rewrite !check_err_zero;
        (destruct (negb (Z.eqb (c_exit c) 0)); [split; [reflexivity|intros; discriminate]|split; [exact E|exact Z0]]).
    + split; [exact E|exact Z0].
Qed.

Lemma spec_ref_go_no_err cum chk cum' chk' every rest : no_err_rest rest ->
  forall pf prev o,
  spec_ref_go cum chk every pf prev o 0 rest = spec_ref_go cum' chk' every pf prev o 0 rest.
Proof.
  induction 1 as [|[j [h cs]] rest [Hh Hcs] _ IH]; intros pf prev o; [reflexivity|].
  cbn [fst snd] in Hh, Hcs. cbn [spec_ref_go fst snd].
  destruct (stages_ref_no_err cum chk cum' chk' every cs o [] h Hh Hcs) as [E Z0].
  rewrite <- E.
  assert (RUN :
    match stages_ref cum chk every o 0 [] h cs with
    | RDone o1 e outT' errT' =>
        let '(o', e') := spec_ref_go cum chk every (negb (Z.eqb e 0)) e outT' errT' rest in (o1 ++ o', e')
    | RAbort e => ([], e)
    end =
    match stages_ref cum chk every o 0 [] h cs with
    | RDone o1 e outT' errT' =>
        let '(o', e') := spec_ref_go cum' chk' every (negb (Z.eqb e 0)) e outT' errT' rest in (o1 ++ o', e')
    | RAbort e => ([], e)
    end).
  { destruct (stages_ref cum chk every o 0 [] h cs) as [o1 e o' s'|e] eqn:R; [|reflexivity].
    rewrite (Z0 _ _ _ _ eq_refl). rewrite IH. reflexivity. }
  destruct j; destruct pf; try reflexivity; try exact RUN; apply IH.
Qed.

(* with no stderr output the *err modes follow the documented rule (and are
   try / trypipe) *)
Theorem err_modes_meet_doc_no_stderr m prog :
  exits_nonneg prog = true -> no_stderr prog = true ->
  match sched_of m with STryErr | STryPipeErr => True | _ => False end ->
  run_program m prog = spec_of m prog.
Proof.
  intros NN NS H. rewrite (err_modes_refine_cum m prog NN H).
  unfold spec_cum_of, spec_of. apply no_stderr_rest in NS.
  destruct (sched_of m); try contradiction; unfold spec_ref;
    destruct prog as [|[j pl] rest]; try reflexivity.
  - inversion NS as [|x l Hx NS']; subst.
    rewrite (spec_ref_go_no_err true true false true false ((JSemi, pl) :: rest)); [reflexivity|].
    constructor; assumption.
  - inversion NS as [|x l Hx NS']; subst.
    rewrite (spec_ref_go_no_err true true false true true ((JSemi, pl) :: rest)); [reflexivity|].
    constructor; assumption.
Qed.

(* guard 2 (exact): on every program for which the cumulative and the per-process
   reading give the same result, the code follows the documented rule *)
Theorem err_modes_meet_doc_when_readings_agree m prog :
  exits_nonneg prog = true ->
  match sched_of m with STryErr | STryPipeErr => True | _ => False end ->
  obs_eqb (spec_cum_of m prog) (spec_of m prog) = true ->
  run_program m prog = spec_of m prog.
Proof.
  intros NN H E. rewrite (err_modes_refine_cum m prog NN H). apply obs_eqb_eq. exact E.
Qed.
