(* C18 — proofs about Model/MkArrayParse.v: totality for every byte string and
   parse (print e) = e for well-formed expressions. *)
From Coq Require Import Lia ZifyBool.
From Murex Require Import Base.Outcome Base.Bytes Model.Decimal Model.MkArray Model.MkArrayParse
  Check.C18 Proof.MkArray.
Open Scope Z_scope.

(* ================= totality ================= *)

Definition is_data (n : node) : Prop := n_type n = NString \/ n_type n = NRange.

(* [rdone o done]: the finished nodes (newest first) are data, marker, data, marker, ...
   starting with a data node, with brackets balanced so far and o = "inside a bracket" *)
Inductive rdone : bool -> list node -> Prop :=
| rd_nil : rdone false []
| rd_sep o d m done : rdone o done -> is_data d -> n_type m = NSep -> rdone o (m :: d :: done)
| rd_open d m done : rdone false done -> is_data d -> n_type m = NOpen -> rdone true (m :: d :: done)
| rd_close d m done : rdone true done -> is_data d -> n_type m = NClose -> rdone false (m :: d :: done).

Lemma fin_is_data c r : is_data (fin c r).
Proof. unfold is_data, fin. destruct r; cbn; auto. Qed.

Lemma parse_step_inv st b st' :
  rdone (ps_open st) (ps_done st) -> parse_step st b = Ok st' -> rdone (ps_open st') (ps_done st').
Proof.
  intros H. unfold parse_step.
  destruct (b =? 92)%N.
  { destruct (ps_esc st); intros E; inversion E; subst; exact H. }
  destruct (b =? 44)%N.
  { destruct (ps_esc st); intros E; inversion E; subst; cbn; [exact H|].
    apply rd_sep; [exact H|apply fin_is_data|reflexivity]. }
  destruct (b =? 91)%N.
  { destruct (ps_esc st); [intros E; inversion E; subst; exact H|].
    destruct (ps_open st) eqn:Ho; [discriminate|]. intros E; inversion E; subst; cbn.
    apply rd_open; [exact H|apply fin_is_data|reflexivity]. }
  destruct (b =? 93)%N.
  { destruct (ps_esc st); [intros E; inversion E; subst; exact H|].
    destruct (ps_open st) eqn:Ho; [|discriminate]. intros E; inversion E; subst; cbn.
    apply rd_close; [exact H|apply fin_is_data|reflexivity]. }
  destruct (b =? 46)%N.
  { destruct (ps_open st) eqn:Ho; intros E; inversion E; subst; cbn; rewrite ?Ho; exact H. }
  intros E; inversion E; subst; exact H.
Qed.

Lemma feed_inv : forall s st st',
  rdone (ps_open st) (ps_done st) -> feed st s = Ok st' -> rdone (ps_open st') (ps_done st').
Proof.
  induction s as [|b r IH]; intros st st' H E; cbn [feed] in E.
  - inversion E; subst; exact H.
  - destruct (parse_step st b) as [st1| | |] eqn:Es; cbn [obind] in E; try discriminate.
    apply (IH st1); [apply (parse_step_inv st b); assumption|exact E].
Qed.

Definition den (done : list node) : tstate := fold_right (fun n st => tstep st n) tinit done.

Lemma fold_left_den done : fold_left tstep (rev done) tinit = den done.
Proof.
  unfold den. rewrite <- (rev_involutive done) at 2.
  rewrite (fold_left_rev_right (fun n st => tstep st n)). reflexivity.
Qed.

Definition blk_ok (s : seg) : Prop := match s with SBlock [] => False | _ => True end.

Definition tstate_ok (st : tstate) : Prop :=
  Forall blk_ok (t_grp st) /\ Forall (Forall blk_ok) (t_groups st).

Lemma tstep_data_ok st d :
  is_data d -> tstate_ok st ->
  tstate_ok (tstep st d) /\ t_open (tstep st d) = t_open st /\
  (t_open st = true -> t_blk (tstep st d) <> []).
Proof.
  intros [Hd|Hd] [H1 H2]; unfold tstep; rewrite Hd.
  - destruct (t_open st) eqn:Ho.
    + cbn. repeat split; try assumption. discriminate.
    + destruct (n_data d); cbn; rewrite ?Ho; repeat split; try assumption; try discriminate.
      constructor; [exact I|assumption].
  - cbn. repeat split; try assumption. discriminate.
Qed.

Lemma tstep_sep st m : n_type m = NSep ->
  tstep st m = if t_open st then st
               else {| t_open := false; t_blk := t_blk st; t_grp := []; t_groups := rev (t_grp st) :: t_groups st |}.
Proof. intros H. unfold tstep. rewrite H. reflexivity. Qed.
Lemma tstep_open st m : n_type m = NOpen ->
  tstep st m = {| t_open := true; t_blk := []; t_grp := t_grp st; t_groups := t_groups st |}.
Proof. intros H. unfold tstep. rewrite H. reflexivity. Qed.
Lemma tstep_close st m : n_type m = NClose ->
  tstep st m = {| t_open := false; t_blk := []; t_grp := SBlock (rev (t_blk st)) :: t_grp st; t_groups := t_groups st |}.
Proof. intros H. unfold tstep. rewrite H. reflexivity. Qed.

Lemma rdone_den : forall o done, rdone o done -> tstate_ok (den done) /\ t_open (den done) = o.
Proof.
  intros o done H. induction H as [|o d m done H IH Hd Hm|d m done H IH Hd Hm|d m done H IH Hd Hm].
  - cbn. repeat split; constructor.
  - destruct IH as [Hok Ho]. change (den (m :: d :: done)) with (tstep (tstep (den done) d) m).
    destruct (tstep_data_ok (den done) d Hd Hok) as [[G1 G2] [Go _]].
    rewrite (tstep_sep _ _ Hm). rewrite Go, Ho. destruct o.
    + split; [split; assumption|rewrite Go; exact Ho].
    + cbn. repeat split; [constructor|].
      constructor; [|assumption]. apply Forall_rev. assumption.
  - destruct IH as [Hok Ho]. change (den (m :: d :: done)) with (tstep (tstep (den done) d) m).
    destruct (tstep_data_ok (den done) d Hd Hok) as [[G1 G2] _].
    rewrite (tstep_open _ _ Hm). cbn. repeat split; assumption.
  - destruct IH as [Hok Ho]. change (den (m :: d :: done)) with (tstep (tstep (den done) d) m).
    destruct (tstep_data_ok (den done) d Hd Hok) as [[G1 G2] [_ Hb]].
    rewrite (tstep_close _ _ Hm). cbn. repeat split; [|assumption].
    constructor; [|assumption]. specialize (Hb Ho).
    destruct (t_blk (tstep (den done) d)) as [|x l] eqn:E; [contradiction|].
    cbn [blk_ok]. destruct (rev (x :: l)) eqn:R; [|exact I].
    apply (f_equal (@length elem)) in R. rewrite rev_length in R. discriminate.
Qed.

(* every byte string that parses gives an expression whose blocks all have an element *)
Theorem parse_expr_wf : forall raw e, parse_expr raw = Ok e -> wf_expr e.
Proof.
  intros raw e. unfold parse_expr, parse_nodes.
  destruct (feed pstart raw) as [st| | |] eqn:Ef; cbn [obind]; try discriminate.
  destruct (ps_open st) eqn:Ho; cbn [obind]; [discriminate|].
  intros E. injection E as E. rewrite <- E. clear E.
  pose proof (feed_inv raw pstart st rd_nil Ef) as Hr. rewrite Ho in Hr.
  unfold to_expr.
  change (rev (ps_done st) ++ [fin (ps_cur st) (ps_rng st)]) with (rev (fin (ps_cur st) (ps_rng st) :: ps_done st)).
  rewrite fold_left_den.
  change (den (fin (ps_cur st) (ps_rng st) :: ps_done st))
    with (tstep (den (ps_done st)) (fin (ps_cur st) (ps_rng st))).
  destruct (rdone_den _ _ Hr) as [Hok _].
  destruct (tstep_data_ok _ _ (fin_is_data (ps_cur st) (ps_rng st)) Hok) as [[G1 G2] _].
  unfold tfinish, wf_expr. apply Forall_rev. constructor; [apply Forall_rev; exact G1|exact G2].
Qed.

Lemma parse_step_clean st b : clean (parse_step st b).
Proof.
  unfold parse_step.
  repeat match goal with |- clean (if ?c then _ else _) => destruct c end; split; discriminate.
Qed.

Lemma feed_clean : forall s st, clean (feed st s).
Proof.
  induction s as [|b r IH]; intros st; cbn [feed]; [split; discriminate|].
  destruct (parse_step_clean st b) as [H1 H2].
  destruct (parse_step st b); cbn [obind]; try contradiction; [apply IH|split; discriminate].
Qed.

Theorem parse_expr_total : forall raw, clean (parse_expr raw).
Proof.
  intros raw. unfold parse_expr, parse_nodes. destruct (feed_clean raw pstart) as [H1 H2].
  destruct (feed pstart raw) as [st| | |]; cbn [obind]; try contradiction; [|split; discriminate].
  destruct (ps_open st); cbn [obind]; split; discriminate.
Qed.

Lemma number_elems_clean : forall es acc, clean (number_elems es acc).
Proof.
  induction es as [|[s|lo hi|d] r IH]; intros acc; cbn [number_elems].
  - destruct acc; split; discriminate.
  - destruct s as [|b s']; [apply IH|]. destruct (lead_zero (b :: s')); [split; discriminate|].
    destruct (atoi (b :: s')); [apply IH|split; discriminate].
  - destruct (lead_zero lo || lead_zero hi); [split; discriminate|].
    destruct (atoi lo); [|split; discriminate]. destruct (atoi hi); [apply IH|split; discriminate].
  - split; discriminate.
Qed.

(* `a` and `ja` on ANY byte string: never a panic, never a hang *)
Theorem run_expr_total : forall ja raw, clean (run_expr ja raw).
Proof.
  intros ja raw. unfold run_expr.
  destruct (parse_expr_total raw) as [P1 P2].
  destruct (parse_expr raw) as [e| | |] eqn:Ep; try contradiction.
  - pose proof (expand_total e (parse_expr_wf raw e Ep)) as Hx.
    destruct (ja && is_number_expr raw); cbn [obind]; [|exact Hx].
    destruct e as [|g r]; [exact Hx|]. destruct g as [|sg g']; [exact Hx|].
    destruct sg as [s|es]; [exact Hx|]. destruct g'; [|exact Hx]. destruct r; [|exact Hx].
    destruct (number_elems_clean es []) as [N1 N2].
    destruct (number_elems es []) as [[l|]| | |]; try contradiction; try exact Hx; split; discriminate.
  - destruct (ja && is_number_expr raw); cbn [obind]; split; discriminate.
Qed.

(* ================= parse (print e) = e ================= *)

Definition plain (b : N) : bool :=
  negb ((b =? 92) || (b =? 44) || (b =? 91) || (b =? 93) || (b =? 46))%N.

Definition S_ (o : bool) (d : list node) (c : bytes) (r : bool) : pstate :=
  {| ps_esc := false; ps_open := o; ps_dots := false; ps_done := d; ps_cur := c; ps_rng := r |}.

Lemma feed_app : forall a b st, feed st (a ++ b) = obind (feed st a) (fun st' => feed st' b).
Proof.
  induction a as [|x a IH]; intros b st; [reflexivity|]. cbn [app feed].
  destruct (parse_step st x); cbn [obind]; try reflexivity. apply IH.
Qed.

Lemma step_plain o d c r b : plain b = true -> parse_step (S_ o d c r) b = Ok (S_ o d (b :: c) r).
Proof.
  unfold plain. intros H. apply negb_true_iff in H.
  repeat (apply orb_false_iff in H; destruct H as [H ?]).
  unfold parse_step. rewrite H, H0, H1, H2, H3. reflexivity.
Qed.

Lemma feed_plain : forall s o d c r,
  forallb plain s = true -> feed (S_ o d c r) s = Ok (S_ o d (rev s ++ c) r).
Proof.
  induction s as [|b s IH]; intros o d c r H; [reflexivity|].
  cbn [forallb] in H. apply andb_true_iff in H as [Hb Hs].
  cbn [feed]. rewrite (step_plain _ _ _ _ _ Hb). cbn [obind]. rewrite IH by exact Hs.
  cbn [rev]. rewrite <- app_assoc. reflexivity.
Qed.

Lemma feed_dd d c r : feed (S_ true d c r) [46; 46]%N = Ok (S_ true d (46 :: 46 :: c)%N true).
Proof. cbn. unfold S_. rewrite orb_false_r, orb_true_r. reflexivity. Qed.

Lemma feed_sep o d c r : feed (S_ o d c r) [44%N] = Ok (S_ o (marker 44 NSep :: fin c r :: d) [] false).
Proof. reflexivity. Qed.
Lemma feed_open d c r : feed (S_ false d c r) [91%N] = Ok (S_ true (marker 91 NOpen :: fin c r :: d) [] false).
Proof. reflexivity. Qed.
Lemma feed_close d c r : feed (S_ true d c r) [93%N] = Ok (S_ false (marker 93 NClose :: fin c r :: d) [] false).
Proof. reflexivity. Qed.

Definition wf_elem (e : elem) : Prop :=
  match e with
  | EStr s => forallb plain s = true
  | ERange lo hi => forallb plain lo = true /\ forallb plain hi = true
  | EBad _ => False
  end.

Definition wf_seg (s : seg) : Prop :=
  match s with
  | SLit s => s <> [] /\ forallb plain s = true
  | SBlock es => es <> [] /\ Forall wf_elem es
  end.

Fixpoint no_adj (g : group) : Prop :=
  match g with
  | SLit _ :: ((SLit _ :: _) as r) => False
  | _ :: r => no_adj r
  | [] => True
  end.

Definition wf_group (g : group) : Prop := Forall wf_seg g /\ no_adj g.
Definition wf_print (e : expr) : Prop := e <> [] /\ Forall wf_group e.

Definition is_range (e : elem) : bool := match e with ERange _ _ => true | _ => false end.
Definition node_of (e : elem) : node := fin (rev (print_elem e)) (is_range e).

Lemma feed_elem d e : wf_elem e ->
  feed (S_ true d [] false) (print_elem e) = Ok (S_ true d (rev (print_elem e)) (is_range e)).
Proof.
  destruct e as [s|lo hi|x]; cbn [wf_elem print_elem is_range]; [| |contradiction].
  - intros H. rewrite (feed_plain s true d [] false H). rewrite app_nil_r. reflexivity.
  - intros [Hl Hh]. rewrite feed_app, (feed_plain lo true d [] false Hl). cbn [obind].
    rewrite feed_app, feed_dd. cbn [obind]. rewrite (feed_plain hi _ _ _ _ Hh).
    rewrite app_nil_r. rewrite !rev_app_distr. cbn [rev app]. rewrite <- !app_assoc. reflexivity.
Qed.

(* nodes of a block's elements, oldest first *)
Fixpoint enodes (es : list elem) : list node :=
  match es with
  | [] => []
  | [e] => [node_of e]
  | e :: r => node_of e :: marker 44 NSep :: enodes r
  end.

Lemma feed_elems : forall es d, es <> [] -> Forall wf_elem es ->
  feed (S_ true d [] false) (print_elems es ++ [93%N]) =
  Ok (S_ false (marker 93 NClose :: rev (enodes es) ++ d) [] false).
Proof.
  induction es as [|e r IH]; intros d Hne HF; [contradiction|].
  inversion HF as [|? ? He Hr]; subst. destruct r as [|e2 r'].
  - cbn [print_elems enodes]. rewrite feed_app, (feed_elem d e He). cbn [obind].
    rewrite feed_close. reflexivity.
  - change (print_elems (e :: e2 :: r')) with (print_elem e ++ 44%N :: print_elems (e2 :: r')).
    rewrite <- app_assoc. rewrite feed_app, (feed_elem d e He). cbn [obind].
    change ((44%N :: print_elems (e2 :: r')) ++ [93%N]) with ([44%N] ++ (print_elems (e2 :: r') ++ [93%N])).
    rewrite feed_app, feed_sep. cbn [obind].
    rewrite IH; [|discriminate|exact Hr].
    change (enodes (e :: e2 :: r')) with (node_of e :: marker 44 NSep :: enodes (e2 :: r')).
    cbn [rev]. rewrite <- !app_assoc. reflexivity.
Qed.

(* the finished nodes and the pending literal after a group / an expression *)
Fixpoint gfeed (g : group) (d : list node) (c : bytes) : list node * bytes :=
  match g with
  | [] => (d, c)
  | SLit s :: r => gfeed r d (rev s ++ c)
  | SBlock es :: r => gfeed r (marker 93 NClose :: rev (enodes es) ++ marker 91 NOpen :: fin c false :: d) []
  end.

Lemma feed_group : forall g d c, Forall wf_seg g ->
  feed (S_ false d c false) (print_group g) = Ok (S_ false (fst (gfeed g d c)) (snd (gfeed g d c)) false).
Proof.
  induction g as [|[s|es] r IH]; intros d c HF; [reflexivity| |]; inversion HF as [|? ? Hs Hr]; subst.
  - destruct Hs as [_ Hp]. unfold print_group. cbn [flat_map print_seg]. rewrite feed_app, (feed_plain s _ _ _ _ Hp).
    cbn [obind gfeed]. apply IH. exact Hr.
  - destruct Hs as [Hne HF']. unfold print_group. cbn [flat_map print_seg].
    change ((91%N :: print_elems es ++ [93%N]) ++ flat_map print_seg r)
      with ([91%N] ++ ((print_elems es ++ [93%N]) ++ flat_map print_seg r)).
    rewrite feed_app, feed_open. cbn [obind]. rewrite feed_app, (feed_elems es _ Hne HF'). cbn [obind gfeed].
    apply IH. exact Hr.
Qed.

Fixpoint efeed (e : expr) (d : list node) (c : bytes) : list node * bytes :=
  match e with
  | [] => (d, c)
  | [g] => gfeed g d c
  | g :: r => efeed r (marker 44 NSep :: fin (snd (gfeed g d c)) false :: fst (gfeed g d c)) []
  end.

Lemma feed_expr : forall e d c, Forall wf_group e ->
  feed (S_ false d c false) (print_expr e) = Ok (S_ false (fst (efeed e d c)) (snd (efeed e d c)) false).
Proof.
  induction e as [|g r IH]; intros d c HF; [reflexivity|]. inversion HF as [|? ? [Hg _] Hr]; subst.
  destruct r as [|g2 r'].
  - cbn [print_expr efeed]. apply feed_group. exact Hg.
  - change (print_expr (g :: g2 :: r')) with (print_group g ++ 44%N :: print_expr (g2 :: r')).
    rewrite feed_app, (feed_group g d c Hg). cbn [obind].
    change (44%N :: print_expr (g2 :: r')) with ([44%N] ++ print_expr (g2 :: r')).
    rewrite feed_app, feed_sep. cbn [obind]. rewrite IH by exact Hr. reflexivity.
Qed.

(* ---- reading the nodes back ---- *)

Lemma split_dd_go_plain : forall s cur, forallb plain s = true -> split_dd_go cur s = [rev cur ++ s].
Proof.
  induction s as [|b r IH]; intros cur H; cbn [split_dd_go]; [rewrite app_nil_r; reflexivity|].
  cbn [forallb] in H. apply andb_true_iff in H as [Hb Hr].
  assert (Hb46 : (b =? 46)%N = false).
  { unfold plain in Hb. apply negb_true_iff in Hb. apply orb_false_iff in Hb as [_ Hb]. exact Hb. }
  destruct r as [|c r'].
  - cbn [split_dd_go rev]. reflexivity.
  - rewrite Hb46. cbn [andb]. rewrite (IH (b :: cur) Hr). cbn [rev]. rewrite <- app_assoc. reflexivity.
Qed.

Lemma split_dd_go_range hi : forallb plain hi = true -> forall lo cur, forallb plain lo = true ->
  split_dd_go cur (lo ++ [46; 46]%N ++ hi) = [rev cur ++ lo; hi].
Proof.
  intros Hh. induction lo as [|b r IH]; intros cur Hl.
  - cbn [app]. cbn [split_dd_go]. cbn [N.eqb Pos.eqb andb]. rewrite (split_dd_go_plain hi [] Hh).
    rewrite app_nil_r. reflexivity.
  - cbn [forallb] in Hl. apply andb_true_iff in Hl as [Hb Hr].
    assert (Hb46 : (b =? 46)%N = false).
    { unfold plain in Hb. apply negb_true_iff in Hb. apply orb_false_iff in Hb as [_ Hb]. exact Hb. }
    cbn [app split_dd_go]. rewrite Hb46. cbn [andb].
    assert (G : split_dd_go (b :: cur) (r ++ 46%N :: 46%N :: hi) = [rev (b :: cur) ++ r; hi]) by (apply (IH (b :: cur) Hr)).
    cbn [rev] in G. rewrite <- app_assoc in G. cbn [app] in G.
    destruct (r ++ 46%N :: 46%N :: hi); exact G.
Qed.

Lemma split_dd_range lo hi : forallb plain lo = true -> forallb plain hi = true ->
  split_dd (lo ++ [46; 46]%N ++ hi) = [lo; hi].
Proof. intros Hl Hh. unfold split_dd. rewrite (split_dd_go_range hi Hh lo [] Hl). reflexivity. Qed.

Definition T_ (o : bool) (blk : list elem) (grp : list seg) (groups : list group) : tstate :=
  {| t_open := o; t_blk := blk; t_grp := grp; t_groups := groups |}.

Lemma tstate_eta st : st = T_ (t_open st) (t_blk st) (t_grp st) (t_groups st).
Proof. destruct st; reflexivity. Qed.

Lemma den_app a b : den (a ++ b) = fold_right (fun n st => tstep st n) (den b) a.
Proof. unfold den. apply fold_right_app. Qed.

Lemma den_rev_app l d : den (rev l ++ d) = fold_left tstep l (den d).
Proof.
  rewrite den_app. rewrite fold_left_rev_right. reflexivity.
Qed.

Lemma tstep_node_of blk grp groups e : wf_elem e ->
  tstep (T_ true blk grp groups) (node_of e) = T_ true (e :: blk) grp groups.
Proof.
  destruct e as [s|lo hi|x]; cbn [wf_elem]; [| |contradiction].
  - intros _. unfold tstep, node_of, fin. cbn. rewrite rev_involutive. reflexivity.
  - intros [Hl Hh]. unfold tstep, node_of, fin. cbn [is_range n_type n_data t_open t_blk t_grp t_groups T_ print_elem].
    rewrite rev_involutive. unfold range_elem. rewrite (split_dd_range lo hi Hl Hh). reflexivity.
Qed.

Lemma fl_enodes : forall es blk grp groups, Forall wf_elem es ->
  fold_left tstep (enodes es) (T_ true blk grp groups) = T_ true (rev es ++ blk) grp groups.
Proof.
  induction es as [|e r IH]; intros blk grp groups HF; [reflexivity|].
  inversion HF as [|? ? He Hr]; subst. destruct r as [|e2 r'].
  - cbn [enodes fold_left]. rewrite (tstep_node_of _ _ _ _ He). reflexivity.
  - change (enodes (e :: e2 :: r')) with (node_of e :: marker 44 NSep :: enodes (e2 :: r')).
    cbn [fold_left]. rewrite (tstep_node_of _ _ _ _ He).
    change (tstep (T_ true (e :: blk) grp groups) (marker 44 NSep)) with (T_ true (e :: blk) grp groups).
    rewrite (IH _ _ _ Hr). cbn [rev]. rewrite <- !app_assoc. reflexivity.
Qed.

(* the literal still being read, as a segment list *)
Definition lit_of (c : bytes) : list seg := match c with [] => [] | _ => [SLit (rev c)] end.

Lemma tstep_fin_lit blk grp groups c :
  tstep (T_ false blk grp groups) (fin c false) = T_ false blk (rev (lit_of c) ++ grp) groups.
Proof.
  unfold tstep, fin. cbn [n_type n_data t_open T_].
  destruct c as [|b c']; [reflexivity|].
  destruct (rev (b :: c')) eqn:E.
  - apply (f_equal (@length N)) in E. rewrite rev_length in E. discriminate.
  - cbn [lit_of rev app]. cbn [t_blk t_grp t_groups]. rewrite <- E. reflexivity.
Qed.

Definition starts_lit (g : group) : bool := match g with SLit _ :: _ => true | _ => false end.

Lemma gfeed_den : forall g d c blk grp groups,
  Forall wf_seg g -> no_adj g -> (c <> [] -> starts_lit g = false) ->
  den d = T_ false blk grp groups ->
  exists blk' grp',
    den (fst (gfeed g d c)) = T_ false blk' grp' groups /\
    rev (lit_of (snd (gfeed g d c))) ++ grp' = rev g ++ rev (lit_of c) ++ grp.
Proof.
  induction g as [|[s|es] r IH]; intros d c blk grp groups HF Hadj Hc Hd.
  - exists blk, grp. split; [exact Hd|reflexivity].
  - inversion HF as [|? ? Hs Hr]; subst. cbn [wf_seg] in Hs. destruct Hs as [Hne Hp].
    assert (c = []) as -> by (destruct c; [reflexivity|exfalso; specialize (Hc ltac:(discriminate)); discriminate]).
    cbn [gfeed]. rewrite app_nil_r.
    destruct (IH d (rev s) blk grp groups Hr) as [blk' [grp' [H1 H2]]].
    + destruct r as [|[s2|es2] r']; cbn [no_adj] in Hadj |- *; try exact Hadj; contradiction.
    + intros _. destruct r as [|[s2|es2] r']; try reflexivity. cbn [no_adj] in Hadj. contradiction.
    + exact Hd.
    + exists blk', grp'. split; [exact H1|]. rewrite H2.
      assert (L : lit_of (rev s) = [SLit s]).
      { unfold lit_of. destruct (rev s) eqn:E.
        - apply (f_equal (@length N)) in E. rewrite rev_length in E. destruct s; [contradiction|discriminate].
        - rewrite <- E, rev_involutive. reflexivity. }
      rewrite L. cbn [rev lit_of app]. rewrite <- !app_assoc. reflexivity.
  - inversion HF as [|? ? Hs Hr]; subst. cbn [wf_seg] in Hs. destruct Hs as [Hne HF']. cbn [gfeed].
    set (d1 := marker 93 NClose :: rev (enodes es) ++ marker 91 NOpen :: fin c false :: d).
    assert (Hd1 : den d1 = T_ false [] (SBlock es :: rev (lit_of c) ++ grp) groups).
    { unfold d1. change (den (marker 93 NClose :: ?l)) with (tstep (den l) (marker 93 NClose)).
      rewrite den_rev_app.
      change (den (marker 91 NOpen :: fin c false :: d)) with (tstep (tstep (den d) (fin c false)) (marker 91 NOpen)).
      rewrite Hd, tstep_fin_lit.
      change (tstep (T_ false blk (rev (lit_of c) ++ grp) groups) (marker 91 NOpen))
        with (T_ true [] (rev (lit_of c) ++ grp) groups).
      rewrite (fl_enodes es _ _ _ HF'). rewrite app_nil_r.
      unfold tstep. cbn [n_type marker t_blk t_grp t_groups T_]. rewrite rev_involutive. reflexivity. }
    destruct (IH d1 [] [] (SBlock es :: rev (lit_of c) ++ grp) groups Hr) as [blk' [grp' [H1 H2]]].
    + destruct r; exact Hadj.
    + intros C; contradiction.
    + exact Hd1.
    + exists blk', grp'. split; [exact H1|]. rewrite H2. cbn [lit_of rev app].
      rewrite <- !app_assoc. reflexivity.
Qed.

Lemma efeed_den : forall e d blk groups,
  e <> [] -> Forall wf_group e -> den d = T_ false blk [] groups ->
  tfinish (tstep (den (fst (efeed e d []))) (fin (snd (efeed e d [])) false)) = rev groups ++ e.
Proof.
  induction e as [|g r IH]; intros d blk groups Hne HF Hd; [contradiction|].
  inversion HF as [|? ? Hwg Hr]; subst. destruct Hwg as [Hg Hadj].
  destruct (gfeed_den g d [] blk [] groups Hg Hadj ltac:(intros C; contradiction) Hd)
    as [blk' [grp' [H1 H2]]].
  cbn [lit_of rev app] in H2. rewrite app_nil_r in H2.
  destruct r as [|g2 r'].
  - cbn [efeed]. rewrite H1, tstep_fin_lit, H2. unfold tfinish. cbn [t_grp t_groups T_ rev].
    rewrite rev_involutive. reflexivity.
  - change (efeed (g :: g2 :: r') d [])
      with (efeed (g2 :: r') (marker 44 NSep :: fin (snd (gfeed g d [])) false :: fst (gfeed g d [])) []).
    rewrite (IH _ blk' (g :: groups)); [cbn [rev]; rewrite <- app_assoc; reflexivity|discriminate|exact Hr|].
    change (den (marker 44 NSep :: fin (snd (gfeed g d [])) false :: fst (gfeed g d [])))
      with (tstep (tstep (den (fst (gfeed g d []))) (fin (snd (gfeed g d [])) false)) (marker 44 NSep)).
    rewrite H1, tstep_fin_lit, H2.
    unfold tstep. cbn [n_type marker t_open t_blk t_grp t_groups T_]. rewrite rev_involutive. reflexivity.
Qed.

(* The canonical spelling of a well-formed expression (any number of groups,
   blocks, elements) parses back to exactly that expression. *)
Theorem parse_print : forall e, wf_print e -> parse_expr (print_expr e) = Ok e.
Proof.
  intros e [Hne HF]. unfold parse_expr, parse_nodes.
  change pstart with (S_ false [] [] false). rewrite (feed_expr e [] [] HF). cbn [obind ps_open S_].
  cbn [ps_cur ps_rng ps_done]. f_equal.
  assert (G : forall x d, to_expr (rev (x :: d)) = tfinish (tstep (den d) x)).
  { intros x d. unfold to_expr. rewrite fold_left_den. reflexivity. }
  cbn [rev] in G |- *. rewrite G.
  apply (efeed_den e [] [] [] Hne HF). reflexivity.
Qed.

(* ================= the model satisfies the predicate the check evaluates ================= *)

Definition mk (ja : bool) (e : expr) : case :=
  {| c_ja := ja; c_raw := print_expr e; c_expr := Some e;
     c_obs := obs_of (run_expr ja (print_expr e)) |}.

Lemma wf_print_wf_expr e : wf_print e -> wf_expr e.
Proof.
  intros [_ HF]. unfold wf_expr. apply Forall_forall. intros g Hg.
  rewrite Forall_forall in HF. destruct (HF g Hg) as [Hs _].
  apply Forall_forall. intros s Hin. rewrite Forall_forall in Hs. specialize (Hs s Hin).
  destruct s as [x|es]; [exact I|]. destruct es; [destruct Hs as [C _]; contradiction|exact I].
Qed.

Lemma spec_ok_of_expand ja e :
  wf_print e -> run_expr ja (print_expr e) = expand e -> spec_ok (mk ja e) = true.
Proof.
  intros Hwf Hrun. unfold spec_ok, mk. cbn [c_obs c_expr c_raw]. rewrite Hrun.
  rewrite bytes_eqb_refl. cbn [andb].
  destruct (expand_total e (wf_print_wf_expr e Hwf)) as [H1 H2].
  destruct (spec_expr e) as [l|] eqn:Hs.
  - rewrite (spec_is_model e l Hs). cbn. apply items_eqb_refl.
  - destruct (expand e); try contradiction; reflexivity.
Qed.

(* `a <spelling of e>`: for every well-formed e *)
Theorem model_meets_spec_a : forall e, wf_print e -> spec_ok (mk false e) = true.
Proof.
  intros e Hwf. apply spec_ok_of_expand; [exact Hwf|].
  unfold run_expr. cbn [andb]. rewrite (parse_print e Hwf). reflexivity.
Qed.

(* `ja <spelling of e>` outside the number-array mode (any literal, any sign,
   any non-digit element, several blocks, ...) *)
Theorem model_meets_spec_ja_partial : forall e,
  wf_print e -> is_number_expr (print_expr e) = false -> spec_ok (mk true e) = true.
Proof.
  intros e Hwf Hn. apply spec_ok_of_expand; [exact Hwf|].
  unfold run_expr. rewrite Hn. cbn [andb]. rewrite (parse_print e Hwf). reflexivity.
Qed.

(* the number-array finding is real in the model: ja [1,,2] *)
Lemma ja_drops_empty_refuted :
  spec_ok (mk true [[SBlock [EStr [49%N]; EStr []; EStr [50%N]]]]) = false.
Proof. vm_compute. reflexivity. Qed.
