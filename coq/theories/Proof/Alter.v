(* C12 — proofs about Model/Alter.v *)
From Coq Require Import Lia.
From Murex Require Import Base.Outcome Base.Bytes Model.Alter Check.C12.

(* ---------- induction principle and reflexivity of json_eqb ---------- *)
Section JsonInd.
  Variable P : json -> Prop.
  Hypothesis HN : P JNull.
  Hypothesis HB : forall b, P (JBool b).
  Hypothesis Hn : forall t, P (JNum t).
  Hypothesis HS : forall s, P (JStr s).
  Hypothesis HA : forall l, Forall P l -> P (JArr l).
  Hypothesis HO : forall o, Forall (fun kv => P (snd kv)) o -> P (JObj o).
  Fixpoint json_ind' (v : json) : P v :=
    match v with
    | JNull => HN | JBool b => HB b | JNum t => Hn t | JStr s => HS s
    | JArr l => HA l ((fix go (l : list json) : Forall P l :=
                         match l with
                         | [] => Forall_nil _
                         | x :: l' => Forall_cons _ (json_ind' x) (go l')
                         end) l)
    | JObj o => HO o ((fix go (o : list (bytes * json)) : Forall (fun kv => P (snd kv)) o :=
                         match o with
                         | [] => Forall_nil _
                         | kv :: o' => Forall_cons _ (json_ind' (snd kv)) (go o')
                         end) o)
    end.
End JsonInd.

Lemma json_eqb_refl v : json_eqb v v = true.
Proof.
  induction v using json_ind'; cbn; auto using Bool.eqb_reflx, bytes_eqb_refl.
  - induction H as [|x l Hx Hl IH]; cbn; [reflexivity|]. rewrite Hx. exact IH.
  - induction H as [|[k x] o Hx Ho IH]; cbn; [reflexivity|]. cbn in Hx.
    rewrite bytes_eqb_refl, Hx. exact IH.
Qed.

Lemma jlist_eqb_refl l : jlist_eqb l l = true.
Proof. apply (json_eqb_refl (JArr l)). Qed.
Lemma jobj_eqb_refl o : jobj_eqb o o = true.
Proof. apply (json_eqb_refl (JObj o)). Qed.
Lemma ojson_eqb_refl x : ojson_eqb x x = true.
Proof. destruct x; cbn; [apply json_eqb_refl|reflexivity]. Qed.

(* ---------- byte strings ---------- *)
Lemma bytes_eqb_false a b : bytes_eqb a b = false <-> a <> b.
Proof.
  split.
  - intros H E. subst. rewrite bytes_eqb_refl in H. discriminate.
  - intro H. destruct (bytes_eqb a b) eqn:E; [|reflexivity].
    apply bytes_eqb_eq in E. contradiction.
Qed.

Lemma bytes_cmp_eq a b : bytes_cmp a b = Eq <-> a = b.
Proof.
  revert b; induction a as [|x a IH]; intros [|y b]; cbn; split; intro H;
    try reflexivity; try discriminate.
  - destruct (N.compare_spec x y) as [E|E|E]; try discriminate. subst.
    apply IH in H. subst. reflexivity.
  - inversion H; subst. rewrite N.compare_refl. apply IH. reflexivity.
Qed.

Lemma bytes_eqb_sym a b : bytes_eqb a b = bytes_eqb b a.
Proof.
  destruct (bytes_eqb a b) eqn:E.
  - apply bytes_eqb_eq in E. subst. symmetry. apply bytes_eqb_refl.
  - apply bytes_eqb_false in E. symmetry. apply bytes_eqb_false. congruence.
Qed.

(* ---------- objects ---------- *)
Lemma obj_find_set_same k x o : obj_find k (obj_set k x o) = Some x.
Proof.
  induction o as [|[k' y] o IH]; cbn.
  - rewrite bytes_eqb_refl. reflexivity.
  - destruct (bytes_cmp k k') eqn:C; cbn.
    + rewrite bytes_eqb_refl. reflexivity.
    + rewrite bytes_eqb_refl. reflexivity.
    + destruct (bytes_eqb k k') eqn:E.
      * apply bytes_eqb_eq in E. subst. pose proof (proj2 (bytes_cmp_eq k' k') eq_refl). congruence.
      * exact IH.
Qed.

Lemma obj_find_set_other k k2 x o : k2 <> k -> obj_find k2 (obj_set k x o) = obj_find k2 o.
Proof.
  intro N. apply bytes_eqb_false in N.
  induction o as [|[k' y] o IH]; cbn.
  - rewrite N. reflexivity.
  - destruct (bytes_cmp k k') eqn:C; cbn.
    + apply bytes_cmp_eq in C. subst. rewrite N. reflexivity.
    + rewrite N. reflexivity.
    + rewrite IH. reflexivity.
Qed.

Lemma obj_remove_set k x o : obj_remove k (obj_set k x o) = obj_remove k o.
Proof.
  induction o as [|[k' y] o IH]; cbn.
  - rewrite bytes_eqb_refl. reflexivity.
  - destruct (bytes_cmp k k') eqn:C; cbn.
    + apply bytes_cmp_eq in C. subst. rewrite !bytes_eqb_refl. reflexivity.
    + rewrite bytes_eqb_refl. reflexivity.
    + rewrite IH. reflexivity.
Qed.

Lemma obj_get_set_same k x o : obj_get k (obj_set k x o) = x.
Proof. unfold obj_get. rewrite obj_find_set_same. reflexivity. Qed.

(* ---------- arrays ---------- *)
Lemma length_set_nth i x l : length (set_nth i x l) = length l.
Proof. revert i; induction l as [|y l IH]; intros [|i]; cbn; auto. Qed.

Lemma nth_set_nth_same i x l d : (i < length l)%nat -> nth i (set_nth i x l) d = x.
Proof.
  revert i; induction l as [|y l IH]; intros [|i] H; cbn in *; try lia; auto.
  apply IH. lia.
Qed.

Lemma nth_set_nth_other i j x l d : i <> j -> nth j (set_nth i x l) d = nth j l d.
Proof.
  revert i j; induction l as [|y l IH]; intros [|i] [|j] H; cbn; auto; try lia.
Qed.

Lemma set_nth_set_nth i x y l : set_nth i y (set_nth i x l) = set_nth i y l.
Proof. revert i; induction l as [|z l IH]; intros [|i]; cbn; auto. rewrite IH. reflexivity. Qed.

Lemma arr_index_set_nth k i x l : arr_index k (set_nth i x l) = arr_index k l.
Proof. unfold arr_index. rewrite length_set_nth. reflexivity. Qed.

Lemma arr_index_lt k l i : arr_index k l = Some i -> (i < length l)%nat.
Proof.
  unfold arr_index. destruct (atoi k) as [z|]; [|discriminate].
  destruct (Z.ltb_spec z 0); [discriminate|].
  destruct (Z.leb_spec (Z.of_nat (length l)) z); [discriminate|].
  intro E. inversion E. lia.
Qed.

(* ---------- leaf conversion and the wanted value ---------- *)
Lemma leaf_want v n r : leaf v n = (r, ENone) -> want (Some v) n = Some r.
Proof.
  destruct v; cbn; intro H;
    try (inversion H; reflexivity);
    match goal with
    | |- ok_of ?c = _ => destruct c; cbn in H; inversion H; reflexivity
    end.
Qed.

Lemma leaf_not_overwrite v n r : leaf v n = (r, EOverwrite) -> False.
Proof.
  destruct v; cbn; intro H; try discriminate;
    match goal with
    | _ : from_conv ?c = _ |- _ => destruct c; cbn in H; discriminate
    end.
Qed.

Lemma want_null_path p n : want (lookup JNull p) n = Some (nv n).
Proof. destruct p; reflexivity. Qed.

Lemma lookup_null_cons k p : lookup JNull (k :: p) = None.
Proof. reflexivity. Qed.

(* ---------- newPath ---------- *)
Lemma lookup_new_path p x : lookup (new_path p x) p = Some x.
Proof.
  induction p as [|k p IH]; cbn; [reflexivity|].
  rewrite bytes_eqb_refl. exact IH.
Qed.

Lemma eq_except_new_path p x : eq_except JNull (new_path p x) p = true.
Proof.
  induction p as [|k p IH]; cbn [eq_except new_path]; [reflexivity|].
  cbn [obj_remove]. rewrite bytes_eqb_refl. cbn [obj_remove].
  unfold obj_get. cbn [obj_find]. rewrite bytes_eqb_refl. rewrite IH. reflexivity.
Qed.

(* paths that part ways: walking v along both, the first differing element.
   On an array the elements are compared after resolution (01, +1 and 1 name the
   same element). *)
Fixpoint disjoint (v : json) (p q : path) : bool :=
  match p, q with
  | k :: p', k2 :: q' =>
      match v with
      | JArr l =>
          match arr_index k l, arr_index k2 l with
          | Some i, Some j => if Nat.eqb i j then disjoint (nth i l JNull) p' q' else true
          | _, _ => true
          end
      | JObj o => if bytes_eqb k k2 then disjoint (obj_get k o) p' q' else true
      | _ => if bytes_eqb k k2 then disjoint JNull p' q' else true
      end
  | _, _ => false
  end.

Lemma disjoint_new_path p q x : disjoint JNull p q = true -> lookup (new_path p x) q = None.
Proof.
  revert q; induction p as [|k p IH]; intros [|k2 q] H; cbn in H; try discriminate.
  cbn [new_path lookup obj_find]. rewrite bytes_eqb_sym.
  destruct (bytes_eqb k k2) eqn:E; [|reflexivity].
  apply IH. exact H.
Qed.

Lemma disjoint_nonempty v p q : disjoint v p q = true -> exists k q', q = k :: q'.
Proof. destruct p, q; cbn; try discriminate. eauto. Qed.

(* ---------- the main lemma about loop ---------- *)
Definition loop_post (v : json) (p : path) (n : newval) (r : json) (e : lerr) : Prop :=
  match e with
  | ENone =>
      lookup r p = want (lookup v p) n /\
      eq_except v r p = true /\
      (forall q, disjoint v p q = true -> lookup r q = lookup v q)
  | EOverwrite => v = JNull /\ p <> []
  | EOther => True
  end.

Lemma lookup_obj_get k o q : q <> [] ->
  lookup (obj_get k o) q = match obj_find k o with Some x => lookup x q | None => None end.
Proof.
  unfold obj_get. destruct (obj_find k o); [reflexivity|].
  destruct q; [contradiction|reflexivity].
Qed.

Lemma want_obj_get k o p n :
  want (lookup (obj_get k o) p) n =
  want (match obj_find k o with Some x => lookup x p | None => None end) n.
Proof.
  unfold obj_get. destruct (obj_find k o); [reflexivity|]. apply want_null_path.
Qed.

Lemma loop_spec p : forall v n r e, loop v p n = (r, e) -> loop_post v p n r e.
Proof.
  induction p as [|k p IH]; intros v n r e H.
  - (* leaf *)
    cbn in H. destruct e; cbn; auto.
    + split; [|split].
      * symmetry. apply leaf_want. exact H.
      * reflexivity.
      * intros q D. destruct q; discriminate.
    + exfalso. eapply leaf_not_overwrite. exact H.
  - cbn [loop] in H. destruct v as [| b | t | s | l | o].
    + inversion H; subst. cbn. split; [reflexivity|discriminate].
    + inversion H; subst. exact I.
    + inversion H; subst. exact I.
    + inversion H; subst. exact I.
    + (* array *)
      destruct (arr_index k l) as [i|] eqn:Ei; [|inversion H; subst; exact I].
      pose proof (arr_index_lt _ _ _ Ei) as Hi.
      destruct (loop (nth i l JNull) p n) as [r' e'] eqn:Er.
      specialize (IH _ _ _ _ Er).
      destruct e'; cbn [up] in H; inversion H; subst; clear H; cbn [loop_post].
      * (* ENone *)
        destruct IH as (IH1 & IH2 & IH3).
        split; [|split].
        -- cbn [lookup]. rewrite arr_index_set_nth, Ei.
           rewrite nth_set_nth_same by exact Hi. exact IH1.
        -- cbn [eq_except]. rewrite Ei. rewrite set_nth_set_nth, jlist_eqb_refl.
           rewrite nth_set_nth_same by exact Hi. exact IH2.
        -- intros q D. destruct q as [|k2 q]; [discriminate|].
           cbn [disjoint] in D. rewrite Ei in D.
           cbn [lookup]. rewrite arr_index_set_nth.
           destruct (arr_index k2 l) as [j|] eqn:Ej; [|reflexivity].
           destruct (Nat.eqb_spec i j) as [E|E].
           ++ subst j. rewrite nth_set_nth_same by exact Hi. apply IH3. exact D.
           ++ rewrite nth_set_nth_other by exact E. reflexivity.
      * (* EOverwrite: the element is null and p goes on *)
        destruct IH as (Hnull & Hp).
        split; [|split].
        -- cbn [lookup]. rewrite arr_index_set_nth, Ei.
           rewrite nth_set_nth_same by exact Hi. rewrite lookup_new_path.
           rewrite Hnull. destruct p; [contradiction|reflexivity].
        -- cbn [eq_except]. rewrite Ei. rewrite set_nth_set_nth, jlist_eqb_refl.
           rewrite nth_set_nth_same by exact Hi. rewrite Hnull. apply eq_except_new_path.
        -- intros q D. destruct q as [|k2 q]; [discriminate|].
           cbn [disjoint] in D. rewrite Ei in D.
           cbn [lookup]. rewrite arr_index_set_nth.
           destruct (arr_index k2 l) as [j|] eqn:Ej; [|reflexivity].
           destruct (Nat.eqb_spec i j) as [E|E].
           ++ subst j. rewrite nth_set_nth_same by exact Hi. rewrite Hnull in *.
              destruct (disjoint_nonempty _ _ _ D) as (k3 & q' & ->).
              rewrite lookup_null_cons. apply disjoint_new_path. exact D.
           ++ rewrite nth_set_nth_other by exact E. reflexivity.
      * exact I.
    + (* object *)
      destruct (loop (obj_get k o) p n) as [r' e'] eqn:Er.
      specialize (IH _ _ _ _ Er).
      destruct e'; cbn [up] in H; inversion H; subst; clear H; cbn [loop_post].
      * destruct IH as (IH1 & IH2 & IH3).
        split; [|split].
        -- cbn [lookup]. rewrite obj_find_set_same. rewrite IH1. apply want_obj_get.
        -- cbn [eq_except]. rewrite obj_remove_set, jobj_eqb_refl, obj_get_set_same. exact IH2.
        -- intros q D. destruct q as [|k2 q]; [discriminate|].
           cbn [disjoint] in D. cbn [lookup].
           destruct (bytes_eqb k k2) eqn:E.
           ++ apply bytes_eqb_eq in E. subst k2. rewrite obj_find_set_same.
              rewrite (IH3 _ D). apply lookup_obj_get.
              destruct (disjoint_nonempty _ _ _ D) as (k3 & q' & ->). discriminate.
           ++ apply bytes_eqb_false in E. rewrite obj_find_set_other by congruence. reflexivity.
      * destruct IH as (Hnull & Hp).
        split; [|split].
        -- cbn [lookup]. rewrite obj_find_set_same, lookup_new_path.
           unfold obj_get in Hnull. destruct (obj_find k o) as [x|]; [|reflexivity].
           subst x. destruct p; [contradiction|reflexivity].
        -- cbn [eq_except]. rewrite obj_remove_set, jobj_eqb_refl, obj_get_set_same.
           rewrite Hnull. apply eq_except_new_path.
        -- intros q D. destruct q as [|k2 q]; [discriminate|].
           cbn [disjoint] in D. cbn [lookup].
           destruct (bytes_eqb k k2) eqn:E.
           ++ apply bytes_eqb_eq in E. subst k2. rewrite obj_find_set_same.
              rewrite Hnull in D.
              rewrite (disjoint_new_path _ _ _ D).
              destruct (disjoint_nonempty _ _ _ D) as (k3 & q' & ->).
              unfold obj_get in Hnull. destruct (obj_find k o) as [x|]; [|reflexivity].
              subst x. reflexivity.
           ++ apply bytes_eqb_false in E. rewrite obj_find_set_other by congruence. reflexivity.
      * exact I.
Qed.

Lemma alter_ok v p n v' : alter v p n = Ok v' -> loop v p n = (v', ENone).
Proof.
  unfold alter. destruct (loop v p n) as [r e]. destruct e; intro H; inversion H. reflexivity.
Qed.

(* ---------- the theorems ---------- *)
Lemma alter_read_back v p n v' :
  alter v p n = Ok v' -> lookup v' p = want (lookup v p) n.
Proof. intro H. apply alter_ok in H. apply loop_spec in H. apply H. Qed.

Lemma alter_frame v p n v' q :
  alter v p n = Ok v' -> disjoint v p q = true -> lookup v' q = lookup v q.
Proof. intros H D. apply alter_ok in H. apply loop_spec in H. apply H. exact D. Qed.

Lemma alter_eq_except v p n v' : alter v p n = Ok v' -> eq_except v v' p = true.
Proof. intro H. apply alter_ok in H. apply loop_spec in H. apply H. Qed.

Lemma alter_precise v p n v' : alter v p n = Ok v' -> precise v p n v' = true.
Proof.
  intro H. unfold precise. rewrite (alter_read_back _ _ _ _ H), ojson_eqb_refl.
  rewrite (alter_eq_except _ _ _ _ H). reflexivity.
Qed.

(* alter never panics and never hangs *)
Lemma alter_total v p n : (exists r, alter v p n = Ok r) \/ (exists k, alter v p n = Err k).
Proof.
  unfold alter. destruct (loop v p n) as [r e]. destruct e; eauto.
Qed.

(* the observation of a direct call that the model predicts *)
Definition alter_obs (v : json) (p : path) (n : newval) : aobs :=
  match alter v p n with
  | Ok r => {| a_kind := 0; a_res := r |}
  | Err _ => {| a_kind := 1; a_res := JNull |}
  | _ => {| a_kind := 2; a_res := JNull |}
  end.

Lemma alter_meets_spec v p n :
  conv_sane n = true -> spec_ok (CAlter v p n (alter_obs v p n)) = true.
Proof.
  intro S. cbn [spec_ok]. unfold spec_alter, alter_obs. rewrite S. cbn [andb].
  destruct (alter_total v p n) as [(r & H) | (k & H)]; rewrite H; cbn.
  - apply alter_precise. exact H.
  - reflexivity.
Qed.

(* ---------- ElementLookup agrees with the exact lookup on non-null values ---------- *)
Lemma arr_index_elem_index k l i : arr_index k l = Some i -> elem_index k l = Some i.
Proof.
  unfold arr_index, elem_index. destruct (atoi k) as [z|]; [|discriminate].
  destruct (Z.ltb_spec z 0); [discriminate|].
  destruct (Z.leb_spec (Z.of_nat (length l)) z); [discriminate|]. auto.
Qed.

Lemma lookup_elookup p : forall v x,
  lookup v p = Some x -> is_null x = false -> elookup v p = Some x.
Proof.
  induction p as [|k p IH]; intros v x H N; [exact H|].
  cbn [lookup] in H. cbn [elookup]. destruct v as [| b | t | s | l | o]; try discriminate.
  - destruct (arr_index k l) as [i|] eqn:Ei; [|discriminate].
    rewrite (arr_index_elem_index _ _ _ Ei). apply IH; assumption.
  - destruct (obj_find k o) as [c|] eqn:Ec; [|discriminate].
    unfold elem_key, present. rewrite Ec.
    destruct (is_null c) eqn:Nc.
    + destruct c; try discriminate. destruct p; cbn in H; [|discriminate].
      inversion H; subst. discriminate.
    + cbn [first_some]. apply IH; assumption.
Qed.

Lemma alter_read_back_murex v p n v' x :
  alter v p n = Ok v' -> want (lookup v p) n = Some x -> is_null x = false ->
  elookup v' p = Some x.
Proof.
  intros H W N. apply lookup_elookup; [|exact N].
  rewrite (alter_read_back _ _ _ _ H). exact W.
Qed.

(* ---------- variables: no two names share a cell ---------- *)
Definition target (o : op) : option bytes :=
  match o with
  | OCopy dst _ => Some dst
  | OSet x _ _ => Some x
  | OCall _ _ _ => None
  | ORead _ _ => None
  end.

Definition inv (s : state) : Prop :=
  NoDup (map snd (vars s)) /\ Forall (fun xc => (snd xc < next s)%nat) (vars s).

Lemma var_find_in x vs c : var_find x vs = Some c -> exists y, y = x /\ In (y, c) vs.
Proof.
  induction vs as [|[y d] vs IH]; cbn; [discriminate|].
  destruct (bytes_eqb x y) eqn:E.
  - intro H. inversion H; subst. apply bytes_eqb_eq in E. subst. eauto.
  - intro H. destruct (IH H) as (z & -> & I). eauto.
Qed.

Lemma nodup_cells_names (vs : list (bytes * nat)) x y c :
  NoDup (map snd vs) -> In (x, c) vs -> In (y, c) vs -> x = y.
Proof.
  induction vs as [|[z d] vs IH]; cbn; intros ND I1 I2; [contradiction|].
  inversion ND as [|? ? Hn Hd]; subst.
  destruct I1 as [E1|I1], I2 as [E2|I2].
  - congruence.
  - inversion E1; subst. exfalso. apply Hn. apply (in_map snd) in I2. exact I2.
  - inversion E2; subst. exfalso. apply Hn. apply (in_map snd) in I1. exact I1.
  - apply IH; assumption.
Qed.

Lemma var_find_set_other x y c vs : y <> x -> var_find y (var_set x c vs) = var_find y vs.
Proof.
  intro N. apply bytes_eqb_false in N.
  induction vs as [|[z d] vs IH]; cbn.
  - rewrite N. reflexivity.
  - destruct (bytes_eqb x z) eqn:E; cbn.
    + apply bytes_eqb_eq in E. subst. rewrite N. reflexivity.
    + rewrite IH. reflexivity.
Qed.

Lemma var_find_set_same x c vs : var_find x (var_set x c vs) = Some c.
Proof.
  induction vs as [|[z d] vs IH]; cbn.
  - rewrite bytes_eqb_refl. reflexivity.
  - destruct (bytes_eqb x z) eqn:E; cbn.
    + rewrite bytes_eqb_refl. reflexivity.
    + rewrite E. exact IH.
Qed.

Lemma in_cells_var_set x c vs d :
  In d (map snd (var_set x c vs)) -> d = c \/ In d (map snd vs).
Proof.
  induction vs as [|[z e] vs IH]; cbn.
  - intros [H|[]]; auto.
  - destruct (bytes_eqb x z); cbn.
    + intros [H|H]; auto.
    + intros [H|H]; auto. destruct (IH H); auto.
Qed.

Lemma nodup_var_set x c (vs : list (bytes * nat)) :
  NoDup (map snd vs) -> ~ In c (map snd vs) -> NoDup (map snd (var_set x c vs)).
Proof.
  induction vs as [|[z e] vs IH]; cbn; intros ND NI.
  - constructor; [intros []|constructor].
  - inversion ND as [|? ? Hn Hd]; subst.
    destruct (bytes_eqb x z); cbn.
    + constructor; [|exact Hd]. intro I. apply NI. right. exact I.
    + constructor.
      * intro I. apply in_cells_var_set in I. destruct I as [I|I]; [|contradiction].
        subst. apply NI. left. reflexivity.
      * apply IH; [exact Hd|]. intro I. apply NI. right. exact I.
Qed.

Lemma forall_var_set (P : bytes * nat -> Prop) x c vs :
  Forall P vs -> P (x, c) -> Forall P (var_set x c vs).
Proof.
  induction vs as [|[z e] vs IH]; cbn; intros F Px.
  - constructor; [exact Px|constructor].
  - inversion F; subst. destruct (bytes_eqb x z); constructor; auto.
Qed.

Lemma heap_find_set_other c d v h : d <> c -> heap_find d (heap_set c v h) = heap_find d h.
Proof.
  intro N. induction h as [|[e w] h IH]; cbn.
  - destruct (Nat.eqb_spec d c); [contradiction|reflexivity].
  - destruct (Nat.eqb_spec c e); cbn.
    + subst. destruct (Nat.eqb_spec d e); [contradiction|reflexivity].
    + rewrite IH. reflexivity.
Qed.

Lemma heap_find_set_same c v h : heap_find c (heap_set c v h) = Some v.
Proof.
  induction h as [|[e w] h IH]; cbn.
  - rewrite Nat.eqb_refl. reflexivity.
  - destruct (Nat.eqb_spec c e); cbn.
    + rewrite Nat.eqb_refl. reflexivity.
    + destruct (Nat.eqb_spec c e); [contradiction|exact IH].
Qed.

Lemma inv_cell_lt s x c : inv s -> var_find x (vars s) = Some c -> (c < next s)%nat.
Proof.
  intros [_ F] H. apply var_find_in in H. destruct H as (y & -> & I).
  rewrite Forall_forall in F. apply (F _ I).
Qed.

Section Hist.
  Variable reparse : json -> json.

  Lemma inv_assign s x v : inv s -> inv (assign s x v).
  Proof.
    intros [ND F]. split; cbn.
    - apply nodup_var_set; [exact ND|].
      intro I. apply in_map_iff in I. destruct I as ([y c] & E & I). cbn in E. subst.
      rewrite Forall_forall in F. specialize (F _ I). cbn in F. lia.
    - apply forall_var_set.
      + eapply Forall_impl; [|exact F]. cbn. intros; lia.
      + cbn. lia.
  Qed.

  Lemma value_assign_other s x y v : inv s -> y <> x -> value (assign s x v) y = value s y.
  Proof.
    intros I N. unfold value. cbn [vars heap assign].
    rewrite var_find_set_other by exact N.
    destruct (var_find y (vars s)) as [c|] eqn:E; [|reflexivity].
    pose proof (inv_cell_lt _ _ _ I E) as L. cbn [heap_find].
    destruct (Nat.eqb_spec c (next s)); [lia|reflexivity].
  Qed.

  Lemma value_assign_same s x v : value (assign s x v) x = Some v.
  Proof.
    unfold value. cbn [vars heap assign]. rewrite var_find_set_same. cbn [heap_find].
    rewrite Nat.eqb_refl. reflexivity.
  Qed.

  Lemma step_inv s o : inv s -> inv (fst (step reparse s o)).
  Proof.
    intro I. destruct o as [dst src | x p n | src p n | x p]; cbn [step].
    - destruct (value s src); cbn; [apply inv_assign|]; exact I.
    - destruct (var_find x (vars s)); [|exact I].
      destruct (heap_find _ _); [|exact I].
      destruct (alter _ _ _); cbn; exact I.
    - destruct (value s src); [|exact I]. destruct (alter _ _ _); exact I.
    - destruct (value s x); [|exact I]. destruct (elookup _ _); exact I.
  Qed.

  (* one command leaves every variable it does not assign untouched *)
  Lemma step_frame s o y :
    inv s -> target o <> Some y -> value (fst (step reparse s o)) y = value s y.
  Proof.
    intros I T. destruct o as [dst src | x p n | src p n | x p]; cbn [step].
    - destruct (value s src); [|reflexivity]. cbn [fst].
      apply value_assign_other; [exact I|]. cbn in T. congruence.
    - destruct (var_find x (vars s)) as [c|] eqn:Ex; [|reflexivity].
      destruct (heap_find c (heap s)) as [v|] eqn:Ev; [|reflexivity].
      destruct (alter v p n) as [v'| | |]; try reflexivity. cbn [fst].
      unfold value. cbn [vars heap].
      destruct (var_find y (vars s)) as [d|] eqn:Ey; [|reflexivity].
      apply heap_find_set_other.
      intro E. subst d. cbn in T. apply T. f_equal.
      apply var_find_in in Ex. apply var_find_in in Ey.
      destruct Ex as (x' & -> & Ix). destruct Ey as (y' & -> & Iy).
      destruct I as [ND _]. eapply nodup_cells_names; eassumption.
    - destruct (value s src); [|reflexivity]. destruct (alter _ _ _); reflexivity.
    - destruct (value s x); [|reflexivity]. destruct (elookup _ _); reflexivity.
  Qed.

  Lemma final_inv ops : forall s, inv s -> inv (final reparse s ops).
  Proof.
    induction ops as [|o ops IH]; intros s I; cbn; [exact I|].
    apply IH. apply step_inv. exact I.
  Qed.

  (* any sequence of commands leaves every variable that none of them assigns
     exactly as it was *)
  Lemma copy_independent ops : forall s y,
    inv s -> Forall (fun o => target o <> Some y) ops ->
    value (final reparse s ops) y = value s y.
  Proof.
    induction ops as [|o ops IH]; intros s y I F; cbn; [reflexivity|].
    inversion F; subst. rewrite IH; [|apply step_inv; exact I|assumption].
    apply step_frame; assumption.
  Qed.

  Hypothesis reparse_id : forall v, reparse v = v.

  (* `b = $a`, then anything done to b: a is unchanged; anything done to a: b
     still holds the value copied *)
  Lemma copy_then_modify s a b v ops :
    inv s -> a <> b -> value s a = Some v ->
    let s1 := fst (step reparse s (OCopy b a)) in
    (Forall (fun o => target o <> Some a) ops -> value (final reparse s1 ops) a = Some v) /\
    (Forall (fun o => target o <> Some b) ops -> value (final reparse s1 ops) b = Some v).
  Proof.
    intros I N V s1.
    assert (I1 : inv s1) by (apply step_inv; exact I).
    assert (Va : value s1 a = Some v).
    { unfold s1. rewrite step_frame; [exact V|exact I|]. cbn. congruence. }
    assert (Vb : value s1 b = Some v).
    { unfold s1. cbn [step]. rewrite V. cbn [fst]. rewrite value_assign_same, reparse_id. reflexivity. }
    split; intro F; rewrite copy_independent; assumption.
  Qed.

  (* a nested set changes its own variable as alter says *)
  Lemma step_set_value s x p n c v v' :
    var_find x (vars s) = Some c -> heap_find c (heap s) = Some v -> alter v p n = Ok v' ->
    value (fst (step reparse s (OSet x p n))) x = Some v'.
  Proof.
    intros Ex Ev Ea. cbn [step]. rewrite Ex, Ev, Ea. cbn [fst]. unfold value. cbn [vars heap].
    rewrite Ex. apply heap_find_set_same.
  Qed.
End Hist.

Lemma inv_empty : inv empty_state.
Proof. split; cbn; constructor. Qed.

Lemma inv_init reparse init : forall s, inv s -> inv (init_state reparse s init).
Proof.
  induction init as [|[x v] init IH]; intros s I; cbn; [exact I|].
  apply IH. apply inv_assign. exact I.
Qed.

(* ================= histories: the model meets spec_steps ================= *)
(* ---------- the observation the model predicts for a step ---------- *)
Definition obs_of (s : state) (r : out) : sobs :=
  {| s_ok := match r with OFail => false | _ => true end;
     s_vals := snapshot s; s_strs := snapshot s;
     s_text := match r with
               | OVal v => match scalar_text v with Some t => t | None => [] end
               | _ => []
               end;
     s_doc := match r with OVal v => Some v | _ => None end |}.

Definition names_ok (s : state) : Prop := NoDup (map fst (vars s)).

Lemma snap_eqb_refl a : snap_eqb a a = true.
Proof.
  unfold snap_eqb. induction a as [|[x v] a IH]; cbn; [reflexivity|].
  rewrite bytes_eqb_refl, ojson_eqb_refl. exact IH.
Qed.

Lemma snap_get_snapshot s x : snap_get x (snapshot s) = value s x.
Proof.
  unfold snapshot, value. induction (vars s) as [|[y c] vs IH]; cbn; [reflexivity|].
  destruct (bytes_eqb x y); [reflexivity|exact IH].
Qed.

Lemma var_find_nodup (vs : list (bytes * nat)) y c :
  NoDup (map fst vs) -> In (y, c) vs -> var_find y vs = Some c.
Proof.
  induction vs as [|[z d] vs IH]; cbn; intros ND I; [contradiction|].
  inversion ND as [|? ? Hn Hd]; subst.
  destruct I as [E|I].
  - inversion E; subst. rewrite bytes_eqb_refl. reflexivity.
  - destruct (bytes_eqb y z) eqn:E.
    + apply bytes_eqb_eq in E. subst. exfalso. apply Hn. apply (in_map fst) in I. exact I.
    + apply IH; assumption.
Qed.

Lemma snapshot_entry s y v :
  names_ok s -> In (y, v) (snapshot s) -> v = value s y.
Proof.
  intros ND I. unfold snapshot in I. apply in_map_iff in I.
  destruct I as ([z c] & E & I). cbn in E. inversion E; subst.
  unfold value. rewrite (var_find_nodup _ _ _ ND I). reflexivity.
Qed.

Lemma others_same_snap s s' x :
  names_ok s -> names_ok s' ->
  (forall y, x <> Some y -> value s' y = value s y) ->
  others_same x (snapshot s) (snapshot s') = true.
Proof.
  intros N N' H. unfold others_same. apply andb_true_iff; split; apply forallb_forall; intros [y v] I; cbn [fst snd].
  - destruct x as [x'|]; cbn.
    + destruct (bytes_eqb x' y) eqn:E; [reflexivity|]. cbn.
      rewrite snap_get_snapshot, (snapshot_entry _ _ _ N I), H; [apply ojson_eqb_refl|].
      intro Q. inversion Q; subst. rewrite bytes_eqb_refl in E. discriminate.
    + rewrite snap_get_snapshot, (snapshot_entry _ _ _ N I), H; [apply ojson_eqb_refl|discriminate].
  - destruct x as [x'|]; cbn.
    + destruct (bytes_eqb x' y) eqn:E; [reflexivity|]. cbn.
      rewrite snap_get_snapshot, (snapshot_entry _ _ _ N' I), H; [apply ojson_eqb_refl|].
      intro Q. inversion Q; subst. rewrite bytes_eqb_refl in E. discriminate.
    + rewrite snap_get_snapshot, (snapshot_entry _ _ _ N' I), H; [apply ojson_eqb_refl|discriminate].
Qed.

Lemma in_names_var_set x c (vs : list (bytes * nat)) y :
  In y (map fst (var_set x c vs)) -> y = x \/ In y (map fst vs).
Proof.
  induction vs as [|[z e] vs IH]; cbn.
  - intros [H|[]]; auto.
  - destruct (bytes_eqb x z) eqn:E; cbn.
    + apply bytes_eqb_eq in E. subst. intros [H|H]; auto.
    + intros [H|H]; auto. destruct (IH H); auto.
Qed.

Lemma names_var_set x c (vs : list (bytes * nat)) :
  NoDup (map fst vs) -> NoDup (map fst (var_set x c vs)).
Proof.
  induction vs as [|[z e] vs IH]; cbn; intro ND.
  - constructor; [intros []|constructor].
  - inversion ND as [|? ? Hn Hd]; subst.
    destruct (bytes_eqb x z) eqn:E; cbn.
    + apply bytes_eqb_eq in E. subst. constructor; assumption.
    + constructor; [|apply IH; exact Hd].
      intro I. apply in_names_var_set in I. destruct I as [I|I]; [|contradiction].
      subst. rewrite bytes_eqb_refl in E. discriminate.
Qed.

Lemma step_names reparse s o : names_ok s -> names_ok (fst (step reparse s o)).
Proof.
  intro N. destruct o as [dst src | x p n | src p n | x p]; cbn [step].
  - destruct (value s src); cbn; [apply names_var_set|]; exact N.
  - destruct (var_find x (vars s)); [|exact N]. destruct (heap_find _ _); [|exact N].
    destruct (alter _ _ _); exact N.
  - destruct (value s src); [|exact N]. destruct (alter _ _ _); exact N.
  - destruct (value s x); [|exact N]. destruct (elookup _ _); exact N.
Qed.

Definition op_sane (o : op) : bool :=
  match o with
  | OSet _ _ n | OCall _ _ n => conv_sane n
  | _ => true
  end.

Lemma read_shows_obs s v : read_shows v (obs_of s (OVal v)) = true.
Proof.
  unfold read_shows, obs_of. cbn [s_text s_doc].
  destruct (scalar_text v); [apply bytes_eqb_refl|apply ojson_eqb_refl].
Qed.

(* every step of the model satisfies the per-step property predicate *)
Lemma step_meets_spec s o r0 :
  inv s -> names_ok s -> op_sane o = true ->
  spec_step (obs_of s r0) o (obs_of (fst (step (fun v => v) s o)) (snd (step (fun v => v) s o))) = true.
Proof.
  intros I N S.
  pose proof (step_names (fun v => v) s o N) as N'.
  assert (FR : forall y, target o <> Some y ->
               value (fst (step (fun v => v) s o)) y = value s y)
    by (intros y T; apply step_frame; assumption).
  unfold spec_step. cbn [s_vals s_strs obs_of]. rewrite snap_eqb_refl. cbn [andb].
  destruct o as [dst src | x p n | src p n | x p]; cbn [op_sane target] in *.
  - (* copy *)
    cbn [step] in *. rewrite snap_get_snapshot.
    destruct (value s src) as [v|] eqn:V; cbn [fst snd s_ok].
    + rewrite others_same_snap; try assumption. cbn [andb].
      rewrite snap_get_snapshot. cbn [fst]. rewrite value_assign_same. apply ojson_eqb_refl.
    + apply others_same_snap; try assumption. intros y _. reflexivity.
  - (* nested set *)
    rewrite S. cbn [andb].
    rewrite others_same_snap; try assumption. cbn [andb].
    cbn [step] in *.
    destruct (var_find x (vars s)) as [c|] eqn:Ex; [|reflexivity].
    destruct (heap_find c (heap s)) as [v|] eqn:Ev; [|reflexivity].
    destruct (alter v p n) as [v'| | |] eqn:Ea; try reflexivity.
    cbn [fst snd s_ok]. rewrite !snap_get_snapshot.
    unfold value at 1. rewrite Ex, Ev.
    unfold value. cbn [vars heap]. rewrite Ex, heap_find_set_same.
    apply alter_precise. exact Ea.
  - (* call *)
    rewrite S. cbn [andb].
    rewrite others_same_snap; try assumption; try (intros y _; apply FR; discriminate). cbn [andb].
    cbn [step] in *. rewrite snap_get_snapshot.
    destruct (value s src) as [v|] eqn:V; [|reflexivity].
    destruct (alter v p n) as [v'| | |] eqn:Ea; try reflexivity.
    cbn [fst snd s_ok s_doc]. apply alter_precise. exact Ea.
  - (* read *)
    rewrite others_same_snap; try assumption; try (intros y _; apply FR; discriminate). cbn [andb].
    cbn [step] in *. rewrite snap_get_snapshot.
    destruct (value s x) as [v|] eqn:V; [|reflexivity].
    destruct (lookup v p) as [r|] eqn:L; [|reflexivity].
    destruct (is_null r) eqn:Nr; [reflexivity|].
    rewrite (lookup_elookup _ _ _ L Nr). cbn [fst snd s_ok andb].
    apply read_shows_obs.
Qed.

(* ... hence every history of the model satisfies spec_steps *)
Lemma history_meets_spec ops : forall s r0,
  inv s -> names_ok s -> forallb op_sane ops = true ->
  spec_steps (obs_of s r0) ops
    (map (fun sr => obs_of (fst sr) (snd sr)) (run (fun v => v) s ops)) = true.
Proof.
  induction ops as [|o ops IH]; intros s r0 I N S; [reflexivity|].
  cbn in S. apply andb_true_iff in S. destruct S as [So S].
  cbn [run]. destruct (step (fun v => v) s o) as [s' r] eqn:E.
  cbn [map spec_steps fst snd].
  pose proof (step_meets_spec s o r0 I N So) as H. rewrite E in H. cbn [fst snd] in H.
  rewrite H. cbn [andb]. apply IH; [| |exact S].
  - pose proof (step_inv (fun v => v) s o I) as I'. rewrite E in I'. exact I'.
  - pose proof (step_names (fun v => v) s o N) as N'. rewrite E in N'. exact N'.
Qed.
