(* C11 — proofs: the stack machine (Model/Scope.v) refines the stack-free
   reference semantics (Check/C11.v), for op trees of any shape and depth, and
   the scoping laws of the property text follow. *)
From Coq Require Import Lia.
From Murex Require Import Base.Outcome Base.Bytes Model.Scope Check.C11.

(* ---- induction principle for the nested op type ---- *)
Section OpInd.
  Variable P : op -> Prop.
  Hypothesis HSet : forall x v, P (OSet x v).
  Hypothesis HSetGlobal : forall x v, P (OSetGlobal x v).
  Hypothesis HUnset : forall t x, P (OUnset t x).
  Hypothesis HUnsetGlobal : forall t x, P (OUnsetGlobal t x).
  Hypothesis HRead : forall t x, P (ORead t x).
  Hypothesis HReadGlobal : forall t x, P (OReadGlobal t x).
  Hypothesis HCall : forall body, Forall P body -> P (OCall body).
  Hypothesis HBlock : forall body, Forall P body -> P (OBlock body).
  Hypothesis HForeach : forall x vals body, Forall P body -> P (OForeach x vals body).

  Fixpoint op_tree_ind (o : op) : P o :=
    let all := fix all (l : list op) : Forall P l :=
      match l with
      | [] => Forall_nil P
      | a :: l' => Forall_cons a (op_tree_ind a) (all l')
      end in
    match o with
    | OSet x v => HSet x v
    | OSetGlobal x v => HSetGlobal x v
    | OUnset t x => HUnset t x
    | OUnsetGlobal t x => HUnsetGlobal t x
    | ORead t x => HRead t x
    | OReadGlobal t x => HReadGlobal t x
    | OCall body => HCall body (all body)
    | OBlock body => HBlock body (all body)
    | OForeach x vals body => HForeach x vals body (all body)
    end.
End OpInd.

(* ---- tables ---- *)
Lemma t_get_del_same t x : t_get (t_del t x) x = None.
Proof.
  induction t as [|[y v] t IH]; cbn [t_del t_get]; [reflexivity|].
  destruct (N.eqb x y) eqn:E; [exact IH|]. cbn [t_get]. rewrite E. exact IH.
Qed.

Lemma t_get_del_other t x y : x <> y -> t_get (t_del t y) x = t_get t x.
Proof.
  intro D. induction t as [|[z v] t IH]; cbn [t_del t_get]; [reflexivity|].
  destruct (N.eqb y z) eqn:E.
  - apply N.eqb_eq in E. subst z. destruct (N.eqb x y) eqn:E2; [apply N.eqb_eq in E2; contradiction|exact IH].
  - cbn [t_get]. destruct (N.eqb x z); [reflexivity|exact IH].
Qed.

Lemma t_get_set_same t x v : t_get (t_set t x v) x = Some v.
Proof. unfold t_set. cbn [t_get]. rewrite N.eqb_refl. reflexivity. Qed.

Lemma t_get_set_other t x y v : x <> y -> t_get (t_set t y v) x = t_get t x.
Proof.
  intro D. unfold t_set. cbn [t_get].
  destruct (N.eqb x y) eqn:E; [apply N.eqb_eq in E; contradiction|].
  apply t_get_del_other; exact D.
Qed.

(* ---- refinement ---- *)
Definition mk (g l : table) (c : list table) : state := {| globals := g; cur := l; callers := c |}.

Definition inj (c : list table) (r : gl * trace) : state * trace :=
  (mk (fst (fst r)) (snd (fst r)) c, snd r).

Definition refines (o : op) : Prop :=
  forall g l c, step o (mk g l c) = inj c (spec_op o (g, l)).

Lemma seq_ops_refines body :
  Forall refines body ->
  forall g l c, seq_ops step body (mk g l c) = inj c (seq_ops spec_op body (g, l)).
Proof.
  intro H. induction H as [|o body Ho Hb IH]; intros g l c.
  - reflexivity.
  - cbn [seq_ops]. rewrite (Ho g l c). unfold inj at 1.
    destruct (spec_op o (g, l)) as [[g1 l1] t1]. cbn [fst snd].
    rewrite (IH g1 l1 c). unfold inj.
    destruct (seq_ops spec_op body (g1, l1)) as [[g2 l2] t2]. reflexivity.
Qed.

Lemma seq_vals_refines (f : value -> state -> state * trace) (h : value -> gl -> gl * trace) :
  (forall v g l c, f v (mk g l c) = inj c (h v (g, l))) ->
  forall vals g l c, seq_vals f vals (mk g l c) = inj c (seq_vals h vals (g, l)).
Proof.
  intros H vals. induction vals as [|v vals IH]; intros g l c.
  - reflexivity.
  - cbn [seq_vals]. rewrite (H v g l c). unfold inj at 1.
    destruct (h v (g, l)) as [[g1 l1] t1]. cbn [fst snd].
    rewrite (IH g1 l1 c). unfold inj.
    destruct (seq_vals h vals (g1, l1)) as [[g2 l2] t2]. reflexivity.
Qed.

Lemma inj_pop c (l : table) (r : gl * trace) :
  (let '(s', tr) := inj (l :: c) r in (pop s', tr)) =
  inj c (let '((g', _), tr) := r in ((g', l), tr)).
Proof. destruct r as [[g1 l1] t1]. reflexivity. Qed.

Lemma step_refines : forall o, refines o.
Proof.
  induction o as [x v|x v|t x|t x|t x|t x|body IH|body IH|x vals body IH] using op_tree_ind;
    intros g l c.
  - reflexivity.
  - reflexivity.
  - cbn [step spec_op]. unfold unset_in, mk. cbn [cur].
    destruct (t_get l x); reflexivity.
  - cbn [step spec_op]. unfold unset_in, mk. cbn [globals].
    destruct (t_get g x); reflexivity.
  - reflexivity.
  - reflexivity.
  - cbn [step spec_op]. change (push (mk g l c)) with (mk g t_empty (l :: c)).
    rewrite (seq_ops_refines body IH g t_empty (l :: c)). apply inj_pop.
  - cbn [step spec_op]. apply seq_ops_refines. exact IH.
  - cbn [step spec_op].
    apply (seq_vals_refines
             (fun v s0 => seq_ops step body (set_cur s0 (t_set (cur s0) x v)))
             (fun v s0 => seq_ops spec_op body (fst s0, t_set (snd s0) x v))).
    intros v g0 l0 c0. unfold set_cur, mk at 1. cbn [globals cur callers fst snd].
    apply (seq_ops_refines body IH g0 (t_set l0 x v) c0).
Qed.

Lemma all_refine body : Forall refines body.
Proof. induction body; constructor; [apply step_refines|assumption]. Qed.

(* Full refinement: on ANY state (any caller stack), any op list behaves as the
   stack-free semantics on (globals, current frame) and leaves every caller
   frame exactly as it was. *)
Theorem run_state_refines ops g l c :
  run_state ops (mk g l c) = inj c (seq_ops spec_op ops (g, l)).
Proof. apply seq_ops_refines, all_refine. Qed.

Lemma run_is_spec ops : run ops = spec_trace ops.
Proof.
  unfold run, spec_trace. change init_state with (mk t_empty t_empty []).
  rewrite run_state_refines. reflexivity.
Qed.

(* ---- boolean equality helpers ---- *)
Lemma event_eqb_refl e : event_eqb e e = true.
Proof.
  destruct e as [t [v|]]; unfold event_eqb; cbn [fst snd option_eqb];
    rewrite ?N.eqb_refl; reflexivity.
Qed.

Lemma trace_eqb_refl t : trace_eqb t t = true.
Proof.
  induction t as [|e t IH]; [reflexivity|].
  unfold trace_eqb in *. cbn [list_eqb]. rewrite event_eqb_refl, IH. reflexivity.
Qed.

Lemma model_meets_spec ops :
  spec_ok {| c_ops := ops; c_status := 0; c_obs := run ops |} = true.
Proof.
  unfold spec_ok. cbn [c_status c_ops c_obs]. rewrite run_is_spec.
  rewrite trace_eqb_refl. reflexivity.
Qed.

(* ---- scoping laws ---- *)

(* any op: caller frames are never touched *)
Lemma callers_untouched o s : callers (fst (step o s)) = callers s.
Proof.
  destruct s as [g l c]. change {| globals := g; cur := l; callers := c |} with (mk g l c).
  rewrite step_refines. reflexivity.
Qed.

(* a call returns with the caller's own frame exactly as it was *)
Lemma callee_writes_invisible body s :
  cur (fst (step (OCall body) s)) = cur s /\ callers (fst (step (OCall body) s)) = callers s.
Proof.
  destruct s as [g l c]. change {| globals := g; cur := l; callers := c |} with (mk g l c).
  rewrite step_refines. cbn [spec_op].
  destruct (seq_ops spec_op body (g, t_empty)) as [[g1 l1] t1]. split; reflexivity.
Qed.

(* ... and, when the callee (at any depth) performs no global write, the whole
   state is as it was: nothing of the callee's variables leaks out. *)
Fixpoint gfree (o : op) : bool :=
  match o with
  | OSetGlobal _ _ | OUnsetGlobal _ _ => false
  | OCall body | OBlock body | OForeach _ _ body => forallb gfree body
  | _ => true
  end.

Lemma gfree_spec_globals : forall o, gfree o = true ->
  forall g l, fst (fst (spec_op o (g, l))) = g.
Proof.
  assert (SEQ : forall body, Forall (fun o => gfree o = true -> forall g l, fst (fst (spec_op o (g, l))) = g) body ->
            forallb gfree body = true -> forall g l, fst (fst (seq_ops spec_op body (g, l))) = g).
  { intros body H. induction H as [|o body Ho Hb IH]; intros F g l; [reflexivity|].
    cbn [forallb] in F. apply andb_true_iff in F as [F1 F2].
    cbn [seq_ops]. specialize (Ho F1 g l).
    destruct (spec_op o (g, l)) as [[g1 l1] t1]. cbn [fst] in Ho. subst g1.
    specialize (IH F2 g l1). destruct (seq_ops spec_op body (g, l1)) as [[g2 l2] t2].
    exact IH. }
  induction o as [x v|x v|t x|t x|t x|t x|body IH|body IH|x vals body IH] using op_tree_ind;
    intros F g l; cbn [gfree] in F; try discriminate; try reflexivity.
  - cbn [spec_op]. destruct (t_get l x); reflexivity.
  - cbn [spec_op]. specialize (SEQ body IH F g t_empty).
    destruct (seq_ops spec_op body (g, t_empty)) as [[g1 l1] t1]. exact SEQ.
  - cbn [spec_op]. apply SEQ; assumption.
  - cbn [spec_op]. revert g l. induction vals as [|v vals IHv]; intros g l; [reflexivity|].
    cbn [seq_vals fst snd]. specialize (SEQ body IH F g (t_set l x v)).
    destruct (seq_ops spec_op body (g, t_set l x v)) as [[g1 l1] t1]. cbn [fst] in SEQ. subst g1.
    specialize (IHv g l1).
    match goal with |- context [seq_vals ?f vals (g, l1)] =>
      destruct (seq_vals f vals (g, l1)) as [[g2 l2] t2] end. exact IHv.
Qed.

Lemma callee_local_writes_leave_state body s :
  forallb gfree body = true -> fst (step (OCall body) s) = s.
Proof.
  intro F. destruct s as [g l c]. change {| globals := g; cur := l; callers := c |} with (mk g l c).
  rewrite step_refines.
  assert (G := gfree_spec_globals (OCall body) F g l).
  cbn [spec_op] in *. destruct (seq_ops spec_op body (g, t_empty)) as [[g1 l1] t1].
  cbn [fst] in G. subst g1. reflexivity.
Qed.

(* a call sees nothing of its caller's (or anybody else's) local variables:
   what it prints and what it leaves in the global table depend on the global
   table only *)
Lemma calls_isolated body g l1 c1 l2 c2 :
  snd (step (OCall body) (mk g l1 c1)) = snd (step (OCall body) (mk g l2 c2)) /\
  globals (fst (step (OCall body) (mk g l1 c1))) = globals (fst (step (OCall body) (mk g l2 c2))).
Proof.
  rewrite !step_refines. cbn [spec_op].
  destruct (seq_ops spec_op body (g, t_empty)) as [[g1 l'] t1]. split; reflexivity.
Qed.

(* blocks share the enclosing function's variables: a block is its body, inlined *)
Lemma seq_ops_app {S} (f : op -> S -> S * trace) a b s :
  seq_ops f (a ++ b) s =
  let '(s1, t1) := seq_ops f a s in let '(s2, t2) := seq_ops f b s1 in (s2, t1 ++ t2).
Proof.
  revert s. induction a as [|o a IH]; intro s.
  - cbn [app seq_ops]. destruct (seq_ops f b s) as [s2 t2]. reflexivity.
  - cbn [app seq_ops]. destruct (f o s) as [s1 t1]. rewrite IH.
    destruct (seq_ops f a s1) as [s2 t2]. destruct (seq_ops f b s2) as [s3 t3].
    rewrite app_assoc. reflexivity.
Qed.

Lemma blocks_share body rest s :
  run_state (OBlock body :: rest) s = run_state (body ++ rest) s.
Proof.
  unfold run_state. rewrite seq_ops_app. cbn [seq_ops step]. reflexivity.
Qed.

(* a local x shadows the global x for plain reads; $GLOBAL.x still reads the global *)
Lemma local_shadows_global s x v t1 t2 :
  let s' := fst (step (OSet x v) s) in
  snd (step (ORead t1 x) s') = [(t1, Some v)] /\
  snd (step (OReadGlobal t2 x) s') = [(t2, t_get (globals s) x)].
Proof.
  cbn [step fst snd]. unfold lookup, set_cur. cbn [cur globals].
  rewrite t_get_set_same. split; reflexivity.
Qed.

(* unsetting removes only this scope's binding: the global table and all caller
   frames are unchanged, other names keep their value, and a shadowed global
   becomes visible again (or the name becomes undefined) *)
Lemma unset_is_local s x t :
  t_get (cur s) x <> None ->
  let s' := fst (step (OUnset t x) s) in
  globals s' = globals s /\ callers s' = callers s /\
  lookup s' x = t_get (globals s) x /\
  (forall y, y <> x -> lookup s' y = lookup s y) /\
  snd (step (OUnset t x) s) = [(t, Some 0%N)].
Proof.
  intro H. cbn [step]. unfold unset_in. destruct (t_get (cur s) x) eqn:E; [|contradiction].
  cbn [fst snd]. unfold lookup, set_cur. cbn [cur globals callers].
  rewrite t_get_del_same. repeat split; try reflexivity.
  intros y D. rewrite t_get_del_other by exact D. reflexivity.
Qed.

(* unsetting a name that this scope does not bind is an error and changes nothing,
   even if the name is bound globally *)
Lemma unset_unbound_errors s x t :
  t_get (cur s) x = None -> step (OUnset t x) s = (s, [(t, None)]).
Proof.
  intro H. cbn [step]. unfold unset_in. rewrite H. destruct s; reflexivity.
Qed.

Lemma undefined_read_errors s x t :
  t_get (cur s) x = None -> t_get (globals s) x = None ->
  step (ORead t x) s = (s, [(t, None)]).
Proof. intros H1 H2. cbn [step]. unfold lookup. rewrite H1, H2. reflexivity. Qed.

(* n nested function calls around ops *)
Fixpoint nest (n : nat) (ops : list op) : list op :=
  match n with O => ops | S n' => [OCall (nest n' ops)] end.

Lemma nest_read_sees_globals_only n t x : forall g l c,
  snd (run_state (nest (S n) [ORead t x]) (mk g l c)) = [(t, t_get g x)].
Proof.
  induction n as [|n IH]; intros g l c.
  - reflexivity.
  - change (nest (S (S n)) [ORead t x]) with [OCall (nest (S n) [ORead t x])].
    unfold run_state in *. cbn [seq_ops step]. unfold push. cbn [globals cur callers].
    specialize (IH g t_empty (l :: c)). unfold mk in IH.
    destruct (seq_ops step (nest (S n) [ORead t x]) _) as [s1 t1]. cbn [snd] in *.
    rewrite IH. reflexivity.
Qed.

(* $GLOBAL.x is one value seen in every scope: after a global assignment, a
   read at any call depth >= 1 below (fresh frames) yields that value *)
Lemma global_seen_everywhere n s x v t :
  snd (run_state (nest (S n) [ORead t x]) (fst (step (OSetGlobal x v) s))) = [(t, Some v)].
Proof.
  cbn [step fst]. destruct s as [g l c]. unfold set_globals. cbn [globals cur callers].
  change {| globals := t_set g x v; cur := l; callers := c |} with (mk (t_set g x v) l c).
  rewrite nest_read_sees_globals_only. rewrite t_get_set_same. reflexivity.
Qed.

(* a local assignment is seen at no call depth >= 1 below: the callee reads the
   global value or gets the undefined-variable error *)
Lemma local_seen_nowhere_below n s x v t :
  snd (run_state (nest (S n) [ORead t x]) (fst (step (OSet x v) s))) = [(t, t_get (globals s) x)].
Proof.
  cbn [step fst]. destruct s as [g l c]. unfold set_cur. cbn [globals cur callers].
  change {| globals := g; cur := t_set l x v; callers := c |} with (mk g (t_set l x v) c).
  apply nest_read_sees_globals_only.
Qed.
