(* Proofs for C05: runModeTry / runModeTryPipe (Model/RunMode.v try_loop,
   trypipe_loop) on the processes of a program compute what the reference
   interpreter spec_strict computes on the program. *)
From Coq Require Import Lia ZifyBool.
From Murex Require Import Base.Outcome Base.Bytes Model.RunMode Proof.RunMode.

Lemma last_cons_shift {A} (l : list A) (x d : A) : last (x :: l) d = last l x.
Proof.
  revert x d; induction l as [|y l IH]; intros x d; [reflexivity|].
  change (last (y :: l) d = last (y :: l) x).
  rewrite (IH y d), (IH y x). reflexivity.
Qed.

Definition nonneg_cmd (c : cmd) : Prop := (0 <= c_exit c)%Z.

Definition nonneg_rest (rest : program) : Prop :=
  Forall (fun jp => nonneg_cmd (fst (snd jp)) /\ Forall nonneg_cmd (snd (snd jp))) rest.

Lemma exits_nonneg_rest prog : exits_nonneg prog = true -> nonneg_rest prog.
Proof.
  unfold exits_nonneg, nonneg_rest. induction prog as [|[j [h cs]] rest IH]; intro H; [constructor|].
  cbn [cmds_of flat_map fst snd] in H. cbn [forallb app] in H.
  apply andb_true_iff in H as [H1 H2]. rewrite forallb_app in H2. apply andb_true_iff in H2 as [H2 H3].
  constructor.
  - cbn [fst snd]. split; [unfold nonneg_cmd; lia|].
    apply Forall_forall. intros c Hc. rewrite forallb_forall in H2. specialize (H2 c Hc).
    unfold nonneg_cmd; lia.
  - apply IH. exact H3.
Qed.

Lemma last_nonneg cs h : nonneg_cmd h -> Forall nonneg_cmd cs -> nonneg_cmd (last cs h).
Proof.
  revert h; induction cs as [|c cs IH]; intros h Hh Hcs; [exact Hh|].
  rewrite last_cons_shift. inversion Hcs; subst. apply IH; assumption.
Qed.

Lemma trypipe_stages_done_nonneg cs : forall data c o e,
  nonneg_cmd c -> Forall nonneg_cmd cs ->
  trypipe_stages data c cs = PlDone o e -> (0 <= e)%Z.
Proof.
  induction cs as [|c' cs IH]; intros data c o e Hc Hcs H.
  - cbn in H. injection H as _ <-. exact Hc.
  - cbn [trypipe_stages] in H. destruct (negb (Z.eqb (c_exit c) 0)); [discriminate|].
    inversion Hcs; subst. eapply IH; eassumption.
Qed.

Lemma run_pl_done_nonneg tp h cs o e :
  nonneg_cmd h -> Forall nonneg_cmd cs -> run_pl tp (h, cs) = PlDone o e -> (0 <= e)%Z.
Proof.
  intros Hh Hcs H. unfold run_pl in H. destruct tp.
  - cbn [fst snd] in H. eapply trypipe_stages_done_nonneg; eassumption.
  - injection H as _ <-. unfold pl_exit. cbn [fst snd]. apply last_nonneg; assumption.
Qed.

(* ------------------------------------------------------------------ *)
(* Generic part: any loop that (1) skips a whole `||` pipeline while skipping,
   (2) runs a pipeline as run_pl says and then takes the decision `after`. *)
Section Strict.
  Variable tp : bool.
  Variable loop : Z -> bool -> list proc -> list bool * Z.

  Definition after (e : Z) (tail : list proc) : list bool * Z :=
    match tail with
    | [] => ([], e)
    | q :: _ => if Z.ltb e 1 && p_or q then loop e true tail
                else if Z.ltb 0 e && negb (p_or q) then (falses tail, e)
                else loop e false tail
    end.

  Hypothesis loop_nil : forall e sk, loop e sk [] = ([], e).
  Hypothesis loop_skip : forall cs h e tail, head_nonmethod tail ->
    oe [] (flatten_pl JOr (h, cs) ++ tail) (loop e true (flatten_pl JOr (h, cs) ++ tail))
    = oe [] tail (loop e true tail).
  Hypothesis loop_run : forall cs j h e sk tail, head_nonmethod tail ->
    sk && is_or j = false -> nonneg_cmd h -> Forall nonneg_cmd cs ->
    oe [] (flatten_pl j (h, cs) ++ tail) (loop e sk (flatten_pl j (h, cs) ++ tail))
    = match run_pl tp (h, cs) with
      | PlDone o e1 => (o ++ fst (oe [] tail (after e1 tail)), snd (after e1 tail))
      | PlAbort e1 => ([], e1)
      end.

  Lemma strict_go rest : nonneg_rest rest ->
    (forall e, (0 <= e)%Z ->
       oe [] (flatten_rest rest) (after e (flatten_rest rest))
       = spec_strict_go tp (negb (Z.eqb e 0)) e rest) /\
    (forall e,
       oe [] (flatten_rest rest) (loop e true (flatten_rest rest))
       = spec_strict_go tp false e rest).
  Proof.
    induction rest as [|[j [h cs]] rest IH]; intro NN.
    - split; intros; cbn; [|rewrite loop_nil]; reflexivity.
    - inversion NN as [|x l [Hh Hcs] NN']; subst. cbn [fst snd] in Hh, Hcs.
      destruct (IH NN') as [IHT IHS]. clear IH.
      pose proof (flatten_rest_head_nonmethod rest) as HT.
      (* what running this pipeline gives, in spec terms *)
      assert (RUN : forall e sk, sk && is_or j = false ->
                oe [] (flatten_pl j (h, cs) ++ flatten_rest rest)
                   (loop e sk (flatten_pl j (h, cs) ++ flatten_rest rest))
                = match run_pl tp (h, cs) with
                  | PlAbort e1 => ([], e1)
                  | PlDone o e1 =>
                      let '(o', e') := spec_strict_go tp (negb (Z.eqb e1 0)) e1 rest in (o ++ o', e')
                  end).
      { intros e sk Hsk. rewrite (loop_run cs j h e sk _ HT Hsk Hh Hcs).
        destruct (run_pl tp (h, cs)) as [o e1|e1] eqn:R; [|reflexivity].
        assert (0 <= e1)%Z by (eapply run_pl_done_nonneg; eassumption).
        pose proof (IHT e1 H) as T. unfold oe in T.
        assert (T1 := f_equal fst T). assert (T2 := f_equal snd T). cbn [fst snd] in T1, T2.
        unfold oe. cbn [fst snd]. rewrite T1, T2.
        destruct (spec_strict_go tp (negb (Z.eqb e1 0)) e1 rest) as [o' e']. reflexivity. }
      assert (S : forall e,
                oe [] (flatten_rest ((j, (h, cs)) :: rest)) (loop e true (flatten_rest ((j, (h, cs)) :: rest)))
                = spec_strict_go tp false e ((j, (h, cs)) :: rest)).
      { intro e. cbn [flatten_rest spec_strict_go].
        destruct j.
        - apply RUN. reflexivity.
        - apply RUN. reflexivity.
        - rewrite (loop_skip cs h e _ HT). apply IHS. }
      split; [|exact S].
      intros e He. cbn [flatten_rest].
      change (flatten_pl j (h, cs) ++ flatten_rest rest)
        with (head_proc j h :: (map stage_proc cs ++ flatten_rest rest)).
      cbn [after]. cbn [head_proc p_or].
      change (head_proc j h :: (map stage_proc cs ++ flatten_rest rest))
        with (flatten_pl j (h, cs) ++ flatten_rest rest).
      destruct (Z.eqb_spec e 0) as [E0|E0].
      + (* the command before succeeded *)
        subst e. cbn [Z.ltb Z.compare andb negb].
        destruct j; cbn [is_or andb negb spec_strict_go].
        * apply RUN. reflexivity.
        * apply RUN. reflexivity.
        * exact (S 0%Z).
      + (* the command before failed *)
        assert (L1 : Z.ltb e 1 = false) by lia. assert (L2 : Z.ltb 0 e = true) by lia.
        rewrite L1, L2. cbn [andb negb].
        destruct j; cbn [is_or andb negb spec_strict_go].
        * unfold oe. cbn [fst snd]. rewrite stdout_of_falses. reflexivity.
        * unfold oe. cbn [fst snd]. rewrite stdout_of_falses. reflexivity.
        * apply RUN. reflexivity.
  Qed.

  Lemma strict_refines prog : exits_nonneg prog = true ->
    prog <> [] ->
    observe (flatten prog) (loop 0 false (flatten prog)) = spec_strict tp prog.
  Proof.
    intros NN NE. destruct prog as [|[j [h cs]] rest]; [congruence|].
    apply exits_nonneg_rest in NN. inversion NN as [|x l [Hh Hcs] NN']; subst. cbn [fst snd] in Hh, Hcs.
    destruct (strict_go rest NN') as [IHT _].
    pose proof (flatten_rest_head_nonmethod rest) as HT.
    pose proof (loop_run cs JSemi h 0%Z false _ HT eq_refl Hh Hcs) as R.
    unfold spec_strict. cbn [spec_strict_go flatten].
    unfold observe. unfold oe in R.
    assert (R1 := f_equal fst R). assert (R2 := f_equal snd R). cbn [fst snd] in R1, R2.
    rewrite R1, R2. clear R R1 R2.
    destruct (run_pl tp (h, cs)) as [o e1|e1] eqn:RP; [|reflexivity].
    assert (0 <= e1)%Z by (eapply run_pl_done_nonneg; eassumption).
    pose proof (IHT e1 H) as T. unfold oe in T.
    assert (T1 := f_equal fst T). assert (T2 := f_equal snd T). cbn [fst snd] in T1, T2.
    rewrite T1, T2.
    destruct (spec_strict_go tp (negb (Z.eqb e1 0)) e1 rest) as [o' e']. reflexivity.
  Qed.
End Strict.

(* ------------------------------------------------------------------ *)
(* try_loop satisfies the three hypotheses *)

Lemma try_loop_nil e sk : try_loop e sk [] = ([], e).
Proof. reflexivity. Qed.

Lemma try_loop_skip_step e p rest : p_or p || p_method p = true ->
  try_loop e true (p :: rest) = let '(r, e') := try_loop e true rest in (false :: r, e').
Proof. intro H. cbn [try_loop]. rewrite H. reflexivity. Qed.

Lemma try_loop_run_step e sk p rest : sk && (p_or p || p_method p) = false ->
  try_loop e sk (p :: rest) =
  match rest with
  | [] => ([true], pexit p)
  | q :: _ =>
      if p_method q
      then let '(r, e') := try_loop e false rest in (true :: r, e')
      else if Z.ltb (pexit p) 1 && p_or q
           then let '(r, e') := try_loop (pexit p) true rest in (true :: r, e')
           else if Z.ltb 0 (pexit p) && negb (p_or q)
                then (true :: falses rest, pexit p)
                else let '(r, e') := try_loop (pexit p) false rest in (true :: r, e')
  end.
Proof. intro H. cbn [try_loop]. rewrite H. reflexivity. Qed.

Lemma try_skip_stages cs : forall carry p e tail,
  head_nonmethod tail -> p_or p || p_method p = true ->
  oe carry (p :: map stage_proc cs ++ tail) (try_loop e true (p :: map stage_proc cs ++ tail))
  = oe [] tail (try_loop e true tail).
Proof.
  induction cs as [|c cs IH]; intros carry p e tail HT Hp.
  - cbn [map app]. rewrite try_loop_skip_step by exact Hp.
    destruct (try_loop e true tail) as [r e'] eqn:E.
    rewrite oe_cons_nonmethod by exact HT. reflexivity.
  - cbn [map app]. rewrite try_loop_skip_step by exact Hp.
    specialize (IH [] (stage_proc c) e tail HT eq_refl).
    destruct (try_loop e true (stage_proc c :: map stage_proc cs ++ tail)) as [r e'] eqn:E.
    rewrite oe_cons_method by reflexivity. exact IH.
Qed.

Lemma try_loop_skip cs h e tail : head_nonmethod tail ->
  oe [] (flatten_pl JOr (h, cs) ++ tail) (try_loop e true (flatten_pl JOr (h, cs) ++ tail))
  = oe [] tail (try_loop e true tail).
Proof. intro HT. apply (try_skip_stages cs [] (head_proc JOr h) e tail HT). reflexivity. Qed.

Lemma try_run_stages cs : forall carry p e0 sk tail,
  head_nonmethod tail -> sk && (p_or p || p_method p) = false ->
  oe carry (p :: map stage_proc cs ++ tail) (try_loop e0 sk (p :: map stage_proc cs ++ tail))
  = (fold_left stage_out cs (produced p true carry) ++
       fst (oe [] tail (after try_loop (pexit (last (map stage_proc cs) p)) tail)),
     snd (after try_loop (pexit (last (map stage_proc cs) p)) tail)).
Proof.
  induction cs as [|c cs IH]; intros carry p e0 sk tail HT Hsk.
  - cbn [map app fold_left last]. rewrite try_loop_run_step by exact Hsk.
    destruct tail as [|q tl].
    + unfold oe. cbn. rewrite app_nil_r. reflexivity.
    + cbn in HT. rewrite HT. cbn [after].
      destruct (Z.ltb (pexit p) 1 && p_or q).
      * destruct (try_loop (pexit p) true (q :: tl)) as [r e'].
        rewrite oe_cons_nonmethod by exact HT. reflexivity.
      * destruct (Z.ltb 0 (pexit p) && negb (p_or q)).
        -- rewrite oe_cons_nonmethod by exact HT. reflexivity.
        -- destruct (try_loop (pexit p) false (q :: tl)) as [r e'].
           rewrite oe_cons_nonmethod by exact HT. reflexivity.
  - cbn [map app]. rewrite try_loop_run_step by exact Hsk. cbn [stage_proc p_method].
    specialize (IH (produced p true carry) (stage_proc c) e0 false tail HT eq_refl).
    change (stage_proc c :: map stage_proc cs ++ tail) with (stage_proc c :: (map stage_proc cs ++ tail)) in *.
    destruct (try_loop e0 false (stage_proc c :: (map stage_proc cs ++ tail))) as [r e'] eqn:E.
    rewrite oe_cons_method by reflexivity. rewrite IH.
    rewrite last_cons_shift. reflexivity.
Qed.

Lemma try_loop_run cs j h e sk tail : head_nonmethod tail ->
  sk && is_or j = false -> nonneg_cmd h -> Forall nonneg_cmd cs ->
  oe [] (flatten_pl j (h, cs) ++ tail) (try_loop e sk (flatten_pl j (h, cs) ++ tail))
  = match run_pl false (h, cs) with
    | PlDone o e1 => (o ++ fst (oe [] tail (after try_loop e1 tail)), snd (after try_loop e1 tail))
    | PlAbort e1 => ([], e1)
    end.
Proof.
  intros HT Hsk _ _. unfold run_pl, flatten_pl. cbn [fst snd].
  change ((head_proc j h :: map stage_proc cs) ++ tail) with (head_proc j h :: map stage_proc cs ++ tail).
  rewrite (try_run_stages cs [] (head_proc j h) e sk tail HT).
  2:{ cbn [head_proc p_or p_method]. rewrite orb_false_r. exact Hsk. }
  rewrite last_stage_exit. unfold pl_out, pl_exit. cbn [fst snd].
  unfold produced. cbn [head_proc p_cmd]. destruct (c_fwd h); reflexivity.
Qed.

Theorem try_refines_spec prog :
  exits_nonneg prog = true -> run_program RmBlockTry prog = spec_strict false prog.
Proof.
  intro NN. destruct prog as [|jp rest] eqn:P; [reflexivity|]. rewrite <- P in *.
  assert (NE : prog <> []) by (rewrite P; discriminate).
  pose proof (strict_refines false try_loop try_loop_nil try_loop_skip try_loop_run prog NN NE) as R.
  rewrite <- R. unfold run_program, execute. cbn [sched_of]. unfold run_try.
  destruct (flatten prog) eqn:F; [|reflexivity].
  subst prog. destruct jp as [j [h cs]]. discriminate.
Qed.

(* ------------------------------------------------------------------ *)
(* trypipe_loop satisfies them too *)

Lemma trypipe_loop_nil e sk : trypipe_loop e sk [] = ([], e).
Proof. reflexivity. Qed.

Lemma trypipe_loop_skip_step e p rest : p_or p || p_method p = true ->
  trypipe_loop e true (p :: rest) = let '(r, e') := trypipe_loop e true rest in (false :: r, e').
Proof. intro H. cbn [trypipe_loop]. rewrite H. reflexivity. Qed.

Lemma trypipe_loop_run_step e sk p rest : sk && (p_or p || p_method p) = false ->
  trypipe_loop e sk (p :: rest) =
  match rest with
  | [] => ([true], pexit p)
  | q :: _ =>
      if Z.ltb (pexit p) 1 && p_or q
      then let '(r, e') := trypipe_loop (pexit p) true rest in (true :: r, e')
      else if Z.ltb 0 (pexit p) && negb (p_or q)
           then (true :: falses rest, pexit p)
           else let '(r, e') := trypipe_loop (pexit p) false rest in (true :: r, e')
  end.
Proof. intro H. cbn [trypipe_loop]. rewrite H. reflexivity. Qed.

Lemma trypipe_skip_stages cs : forall carry p e tail,
  head_nonmethod tail -> p_or p || p_method p = true ->
  oe carry (p :: map stage_proc cs ++ tail) (trypipe_loop e true (p :: map stage_proc cs ++ tail))
  = oe [] tail (trypipe_loop e true tail).
Proof.
  induction cs as [|c cs IH]; intros carry p e tail HT Hp.
  - cbn [map app]. rewrite trypipe_loop_skip_step by exact Hp.
    destruct (trypipe_loop e true tail) as [r e'] eqn:E.
    rewrite oe_cons_nonmethod by exact HT. reflexivity.
  - cbn [map app]. rewrite trypipe_loop_skip_step by exact Hp.
    specialize (IH [] (stage_proc c) e tail HT eq_refl).
    destruct (trypipe_loop e true (stage_proc c :: map stage_proc cs ++ tail)) as [r e'] eqn:E.
    rewrite oe_cons_method by reflexivity. exact IH.
Qed.

Lemma trypipe_loop_skip cs h e tail : head_nonmethod tail ->
  oe [] (flatten_pl JOr (h, cs) ++ tail) (trypipe_loop e true (flatten_pl JOr (h, cs) ++ tail))
  = oe [] tail (trypipe_loop e true tail).
Proof. intro HT. apply (trypipe_skip_stages cs [] (head_proc JOr h) e tail HT). reflexivity. Qed.

Lemma trypipe_run_stages cs : forall carry p e0 sk tail,
  head_nonmethod tail -> sk && (p_or p || p_method p) = false ->
  (0 <= pexit p)%Z -> Forall nonneg_cmd cs ->
  oe carry (p :: map stage_proc cs ++ tail) (trypipe_loop e0 sk (p :: map stage_proc cs ++ tail))
  = match trypipe_stages carry (p_cmd p) cs with
    | PlDone o e1 => (o ++ fst (oe [] tail (after trypipe_loop e1 tail)), snd (after trypipe_loop e1 tail))
    | PlAbort e1 => ([], e1)
    end.
Proof.
  induction cs as [|c cs IH]; intros carry p e0 sk tail HT Hsk Hp Hcs.
  - cbn [map app trypipe_stages]. rewrite trypipe_loop_run_step by exact Hsk.
    destruct tail as [|q tl].
    + unfold oe. cbn. rewrite app_nil_r. reflexivity.
    + cbn in HT. cbn [after]. fold (pexit p).
      destruct (Z.ltb (pexit p) 1 && p_or q).
      * destruct (trypipe_loop (pexit p) true (q :: tl)) as [r e'].
        rewrite oe_cons_nonmethod by exact HT. reflexivity.
      * destruct (Z.ltb 0 (pexit p) && negb (p_or q)).
        -- rewrite oe_cons_nonmethod by exact HT. reflexivity.
        -- destruct (trypipe_loop (pexit p) false (q :: tl)) as [r e'].
           rewrite oe_cons_nonmethod by exact HT. reflexivity.
  - inversion Hcs as [|x l Hc Hcs']; subst.
    cbn [map app]. rewrite trypipe_loop_run_step by exact Hsk. cbn [stage_proc p_or p_method andb negb].
    rewrite andb_false_r. rewrite andb_true_r.
    cbn [trypipe_stages]. fold (pexit p).
    change (stage_proc c :: map stage_proc cs ++ tail) with (stage_proc c :: (map stage_proc cs ++ tail)) in *.
    destruct (Z.eqb_spec (pexit p) 0) as [E0|E0].
    + (* this stage succeeded: go on with the next one *)
      rewrite E0. cbn [Z.ltb Z.compare negb].
      specialize (IH (produced p true carry) (stage_proc c) 0%Z false tail HT eq_refl Hc Hcs').
      destruct (trypipe_loop 0 false (stage_proc c :: (map stage_proc cs ++ tail))) as [r e'] eqn:E.
      rewrite oe_cons_method by reflexivity. rewrite IH. reflexivity.
    + (* it failed and the next command is joined by `|`: the block ends *)
      assert (L : Z.ltb 0 (pexit p) = true) by lia. rewrite L. cbn [negb].
      rewrite oe_cons_method by reflexivity.
      unfold oe. cbn [fst snd].
      change (false :: falses (map stage_proc cs ++ tail)) with (falses (stage_proc c :: (map stage_proc cs ++ tail))).
      rewrite stdout_of_falses. reflexivity.
Qed.

Lemma trypipe_loop_run cs j h e sk tail : head_nonmethod tail ->
  sk && is_or j = false -> nonneg_cmd h -> Forall nonneg_cmd cs ->
  oe [] (flatten_pl j (h, cs) ++ tail) (trypipe_loop e sk (flatten_pl j (h, cs) ++ tail))
  = match run_pl true (h, cs) with
    | PlDone o e1 => (o ++ fst (oe [] tail (after trypipe_loop e1 tail)), snd (after trypipe_loop e1 tail))
    | PlAbort e1 => ([], e1)
    end.
Proof.
  intros HT Hsk Hh Hcs. unfold run_pl, flatten_pl. cbn [fst snd].
  change ((head_proc j h :: map stage_proc cs) ++ tail) with (head_proc j h :: map stage_proc cs ++ tail).
  rewrite (trypipe_run_stages cs [] (head_proc j h) e sk tail HT); try assumption.
  - reflexivity.
  - cbn [head_proc p_or p_method]. rewrite orb_false_r. exact Hsk.
Qed.

Theorem trypipe_refines_spec prog :
  exits_nonneg prog = true -> run_program RmBlockTryPipe prog = spec_strict true prog.
Proof.
  intro NN. destruct prog as [|jp rest] eqn:P; [reflexivity|]. rewrite <- P in *.
  assert (NE : prog <> []) by (rewrite P; discriminate).
  pose proof (strict_refines true trypipe_loop trypipe_loop_nil trypipe_loop_skip trypipe_loop_run prog NN NE) as R.
  rewrite <- R. unfold run_program, execute. cbn [sched_of]. unfold run_trypipe.
  destruct (flatten prog) eqn:F; [|reflexivity].
  subst prog. destruct jp as [j [h cs]]. discriminate.
Qed.

(* every run mode that selects the same scheduler behaves the same: try {} and
   `runmode try function` (and module), trypipe {} and `runmode trypipe function` *)
Theorem same_scheduler_same_result m1 m2 prog :
  sched_of m1 = sched_of m2 -> run_program m1 prog = run_program m2 prog.
Proof. intro H. unfold run_program, execute. rewrite H. reflexivity. Qed.

Theorem strict_refines_spec m prog :
  exits_nonneg prog = true ->
  match sched_of m with STry | STryPipe => True | _ => False end ->
  run_program m prog = spec_of m prog.
Proof.
  intros NN H. unfold spec_of. destruct (sched_of m) eqn:S; try contradiction.
  - rewrite (same_scheduler_same_result m RmBlockTry) by exact S. apply try_refines_spec; exact NN.
  - rewrite (same_scheduler_same_result m RmBlockTryPipe) by exact S. apply trypipe_refines_spec; exact NN.
Qed.

(* ------------------------------------------------------------------ *)
(* what was wrong before the repairs *)
Definition witness_or_chain : program :=
  [(JSemi, (w_true, [])); (JOr, (w_out 97, [])); (JOr, (w_out 98, []))].

Lemma old_try_or_chain_refuted :
  run_program_old RmBlockTry witness_or_chain = {| o_out := [98%N; 10%N]; o_exit := 0 |} /\
  run_program_old RmBlockTryPipe witness_or_chain = {| o_out := [98%N; 10%N]; o_exit := 0 |} /\
  spec_strict false witness_or_chain = {| o_out := []; o_exit := 0 |} /\
  spec_strict true witness_or_chain = {| o_out := []; o_exit := 0 |}.
Proof. repeat split; reflexivity. Qed.

(* try checks only the last command of a pipeline, trypipe every command *)
Lemma try_vs_trypipe_pipeline_head a b c :
  (0 < c_exit a)%Z -> (c_exit b = 0)%Z -> (0 <= c_exit c)%Z ->
  run_program RmBlockTry [(JSemi, (a, [b])); (JSemi, (c, []))] =
    {| o_out := stage_out (c_tok a) b ++ c_tok c; o_exit := c_exit c |} /\
  run_program RmBlockTryPipe [(JSemi, (a, [b])); (JSemi, (c, []))] =
    {| o_out := []; o_exit := c_exit a |}.
Proof.
  intros Ha Hb Hc.
  assert (NN : exits_nonneg [(JSemi, (a, [b])); (JSemi, (c, []))] = true).
  { unfold exits_nonneg. cbn. lia. }
  split.
  - rewrite try_refines_spec by exact NN.
    unfold spec_strict. cbn [spec_strict_go run_pl pl_exit pl_out fst snd last fold_left].
    change (pl_exit (a, [b])) with (c_exit b). rewrite Hb. cbn [Z.eqb negb].
    rewrite app_nil_r. reflexivity.
  - rewrite trypipe_refines_spec by exact NN.
    unfold spec_strict. cbn [spec_strict_go run_pl fst snd trypipe_stages].
    assert (E : Z.eqb (c_exit a) 0 = false) by lia. rewrite E. reflexivity.
Qed.
