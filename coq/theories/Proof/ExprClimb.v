(* C06 / C07 — facts about precedence climbing, and the core theorem:
   folding pass by pass (tightest level first, left to right inside a pass)
   computes the same thing as precedence climbing. Generic in the carrier A
   and the node constructor mk. *)
From Coq Require Import List NArith ZArith Bool Lia Arith.
From Murex Require Import Base.Outcome Base.Bytes Model.Expr Model.ExprSpec.
Import ListNotations.

Section Generic.
  Context {A : Type}.
  Variable mk : sym -> A -> A -> A.

  Notation rest_t := (list (sym * A)).

  (* ---- basic facts about climb ---- *)

  Lemma climb_len prec f : forall lhs m (rest : rest_t),
      length (snd (climb mk prec f lhs m rest)) <= length rest.
  Proof.
    induction f as [|f IH]; intros lhs m rest; cbn [climb]; [cbn; lia|].
    destruct rest as [|[o a] r]; [cbn; lia|].
    destruct (m <=? prec o); [|cbn; lia].
    destruct (climb mk prec f a (S (prec o)) r) as [rhs r1] eqn:E.
    pose proof (IH a (S (prec o)) r) as H1. rewrite E in H1. cbn [snd] in H1.
    pose proof (IH (mk o lhs rhs) m r1) as H2. cbn [length]. lia.
  Qed.

  Lemma climb_Forall prec (P : sym * A -> Prop) f : forall lhs m (rest : rest_t),
      Forall P rest -> Forall P (snd (climb mk prec f lhs m rest)).
  Proof.
    induction f as [|f IH]; intros lhs m rest HF; cbn [climb]; [exact HF|].
    destruct rest as [|[o a] r]; [exact HF|].
    destruct (m <=? prec o); [|exact HF].
    destruct (climb mk prec f a (S (prec o)) r) as [rhs r1] eqn:E.
    inversion HF as [|x l Hx Hr]; subst.
    pose proof (IH a (S (prec o)) r Hr) as H1. rewrite E in H1. cbn [snd] in H1.
    apply IH. exact H1.
  Qed.

  Lemma climb_S prec f : forall lhs m (rest : rest_t),
      length rest <= f -> climb mk prec (S f) lhs m rest = climb mk prec f lhs m rest.
  Proof.
    induction f as [|f IH]; intros lhs m rest Hl.
    - destruct rest; [reflexivity|cbn in Hl; lia].
    - destruct rest as [|[o a] r]; [reflexivity|].
      cbn [length] in Hl.
      change (climb mk prec (S (S f)) lhs m ((o, a) :: r)) with
          (if m <=? prec o then
             let '(rhs, r1) := climb mk prec (S f) a (S (prec o)) r in
             climb mk prec (S f) (mk o lhs rhs) m r1
           else (lhs, (o, a) :: r)).
      change (climb mk prec (S f) lhs m ((o, a) :: r)) with
          (if m <=? prec o then
             let '(rhs, r1) := climb mk prec f a (S (prec o)) r in
             climb mk prec f (mk o lhs rhs) m r1
           else (lhs, (o, a) :: r)).
      destruct (m <=? prec o); [|reflexivity].
      rewrite (IH a (S (prec o)) r) by lia.
      destruct (climb mk prec f a (S (prec o)) r) as [rhs r1] eqn:E.
      apply IH.
      pose proof (climb_len prec f a (S (prec o)) r) as H1. rewrite E in H1. cbn [snd] in H1. lia.
  Qed.

  Lemma climb_fuel prec : forall f2 f1 lhs m (rest : rest_t),
      length rest <= f1 -> f1 <= f2 ->
      climb mk prec f2 lhs m rest = climb mk prec f1 lhs m rest.
  Proof.
    induction f2 as [|f2 IH]; intros f1 lhs m rest Hl Hle.
    - assert (f1 = 0) by lia. subst. reflexivity.
    - destruct (Nat.eq_dec f1 (S f2)) as [->|Hne]; [reflexivity|].
      rewrite climb_S by lia. apply IH; lia.
  Qed.

  (* with enough fuel, the first unread operator is below the threshold *)
  Lemma climb_head prec f : forall lhs m (rest : rest_t) x o a r,
      length rest <= f ->
      climb mk prec f lhs m rest = (x, (o, a) :: r) -> prec o < m.
  Proof.
    induction f as [|f IH]; intros lhs m rest x o a r Hl Hc.
    - destruct rest; [cbn in Hc; discriminate|cbn in Hl; lia].
    - destruct rest as [|[o' a'] r']; [cbn in Hc; discriminate|].
      cbn [length] in Hl. cbn [climb] in Hc.
      destruct (m <=? prec o') eqn:Hm.
      + destruct (climb mk prec f a' (S (prec o')) r') as [rhs r1] eqn:E.
        pose proof (climb_len prec f a' (S (prec o')) r') as H1. rewrite E in H1. cbn [snd] in H1.
        eapply IH; [|exact Hc]. lia.
      + inversion Hc; subst. apply Nat.leb_gt in Hm. exact Hm.
  Qed.

  (* an operator below the threshold stops the loop at once *)
  Lemma climb_stop prec f lhs m (rest : rest_t) :
      match rest with [] => True | (o, _) :: _ => prec o < m end ->
      climb mk prec f lhs m rest = (lhs, rest).
  Proof.
    intro H. destruct f; [reflexivity|]. cbn [climb].
    destruct rest as [|[o a] r]; [reflexivity|].
    apply Nat.leb_gt in H. rewrite H. reflexivity.
  Qed.

  (* climb looks at the precedence of the operators in its input only *)
  Lemma climb_ext prec1 prec2 f : forall lhs m (rest : rest_t),
      Forall (fun oa => prec1 (fst oa) = prec2 (fst oa)) rest ->
      climb mk prec1 f lhs m rest = climb mk prec2 f lhs m rest.
  Proof.
    induction f as [|f IH]; intros lhs m rest HF; [reflexivity|].
    cbn [climb]. destruct rest as [|[o a] r]; [reflexivity|].
    inversion HF as [|x l Hx Hr]; subst. cbn [fst] in Hx. rewrite <- Hx.
    destruct (m <=? prec1 o); [|reflexivity].
    rewrite <- (IH a (S (prec1 o)) r Hr).
    pose proof (climb_Forall prec1 _ f a (S (prec1 o)) r Hr) as H1.
    destruct (climb mk prec1 f a (S (prec1 o)) r) as [rhs r1]. cbn [snd] in H1.
    apply IH. exact H1.
  Qed.

  (* climb depends on the precedence function only through the order it induces *)
  Lemma climb_iso prec1 prec2
        (Hiso : forall o o', (prec1 o <? prec1 o') = (prec2 o <? prec2 o')) f :
    forall lhs m1 m2 (rest : rest_t),
      Forall (fun oa => (m1 <=? prec1 (fst oa)) = (m2 <=? prec2 (fst oa))) rest ->
      climb mk prec1 f lhs m1 rest = climb mk prec2 f lhs m2 rest.
  Proof.
    induction f as [|f IH]; intros lhs m1 m2 rest HF; [reflexivity|].
    cbn [climb]. destruct rest as [|[o a] r]; [reflexivity|].
    inversion HF as [|x l Hx Hr]; subst. cbn [fst] in Hx. rewrite <- Hx.
    destruct (m1 <=? prec1 o); [|reflexivity].
    assert (Hr1 : Forall (fun oa => (S (prec1 o) <=? prec1 (fst oa)) = (S (prec2 o) <=? prec2 (fst oa))) r).
    { apply Forall_forall. intros [o' a'] _. cbn [fst]. exact (Hiso o o'). }
    rewrite <- (IH a (S (prec1 o)) (S (prec2 o)) r Hr1).
    pose proof (climb_Forall prec1 _ f a (S (prec1 o)) r Hr) as H1.
    destruct (climb mk prec1 f a (S (prec1 o)) r) as [rhs r1]. cbn [snd] in H1.
    apply IH. exact H1.
  Qed.

  (* ---- one fold pass, structurally: fold every operator satisfying p, left to right ---- *)

  Fixpoint spass (p : sym -> bool) (lhs : A) (rest : rest_t) : A * rest_t :=
    match rest with
    | [] => (lhs, [])
    | (o, a) :: r =>
      if p o then spass p (mk o lhs a) r
      else let '(a', r') := spass p a r in (lhs, (o, a') :: r')
    end.

  Definition tail_pass (p : sym -> bool) (lo : rest_t) : rest_t :=
    match lo with
    | [] => []
    | (o, a) :: r => let '(a', r') := spass p a r in (o, a') :: r'
    end.

  Lemma spass_len p : forall lhs (rest : rest_t), length (snd (spass p lhs rest)) <= length rest.
  Proof.
    intros lhs rest; revert lhs. induction rest as [|[o a] r IH]; intro lhs; cbn [spass]; [cbn; lia|].
    destruct (p o).
    - pose proof (IH (mk o lhs a)). cbn [length]. lia.
    - pose proof (IH a) as H. destruct (spass p a r) as [a' r']. cbn [snd length] in *. lia.
  Qed.

  Lemma spass_nop p : forall lhs (rest : rest_t),
      Forall (fun oa => p (fst oa) = false) (snd (spass p lhs rest)).
  Proof.
    intros lhs rest; revert lhs. induction rest as [|[o a] r IH]; intro lhs; cbn [spass]; [constructor|].
    destruct (p o) eqn:Hp.
    - apply IH.
    - pose proof (IH a) as H. destruct (spass p a r) as [a' r']. cbn [snd] in *.
      constructor; [exact Hp|exact H].
  Qed.

  Lemma spass_notp p lhs (rest : rest_t) :
      match rest with [] => True | (o, _) :: _ => p o = false end ->
      spass p lhs rest = (lhs, tail_pass p rest).
  Proof.
    destruct rest as [|[o a] r]; intro H; [reflexivity|].
    cbn [spass tail_pass]. rewrite H. destruct (spass p a r). reflexivity.
  Qed.

  (* ---- folding the tightest level first does not change what climbing computes ---- *)

  Section TopFold.
    Variable prec : sym -> nat.
    Variable p : sym -> bool.
    Variable M : nat.
    Hypothesis Hp : forall o, p o = true -> prec o = M.
    Hypothesis Hn : forall o, p o = false -> prec o < M.

    Lemma prec_le_M o : prec o <= M.
    Proof. destruct (p o) eqn:E; [rewrite (Hp o E); lia|pose proof (Hn o E); lia]. Qed.

    Lemma below_M_notp o : prec o < M -> p o = false.
    Proof. intro H. destruct (p o) eqn:E; [rewrite (Hp o E) in H; lia|reflexivity]. Qed.

    Lemma top_fold f : forall lhs m (rest : rest_t),
        m <= M -> length rest <= f ->
        climb mk prec f (fst (spass p lhs rest)) m (snd (spass p lhs rest)) =
        (fst (climb mk prec f lhs m rest), tail_pass p (snd (climb mk prec f lhs m rest))).
    Proof.
      induction f as [|f IH]; intros lhs m rest Hm Hl.
      - destruct rest; [reflexivity|cbn in Hl; lia].
      - destruct rest as [|[o a] r]; [reflexivity|].
        cbn [length] in Hl.
        destruct (p o) eqn:Epo.
        + (* a top-level operator: both sides fold it into the left operand *)
          cbn [spass]. rewrite Epo.
          assert (Hc : climb mk prec (S f) lhs m ((o, a) :: r) = climb mk prec f (mk o lhs a) m r).
          { cbn [climb]. rewrite (Hp o Epo).
            assert (Hmle : (m <=? M) = true) by (apply Nat.leb_le; exact Hm). rewrite Hmle.
            rewrite climb_stop; [reflexivity|].
            destruct r as [|[o1 a1] r1]; [exact I|]. pose proof (prec_le_M o1). lia. }
          rewrite Hc.
          rewrite climb_S.
          * apply IH; [exact Hm|lia].
          * pose proof (spass_len p (mk o lhs a) r). lia.
        + cbn [spass]. rewrite Epo.
          destruct (spass p a r) as [a' r'] eqn:Es. cbn [fst snd].
          cbn [climb].
          destruct (m <=? prec o) eqn:Emo.
          * (* climbed over: first the right operand, then the rest of the loop *)
            pose proof (Hn o Epo) as HoM.
            assert (Hl1 : length r <= f) by lia.
            pose proof (IH a (S (prec o)) r HoM Hl1) as IH1.
            rewrite Es in IH1. cbn [fst snd] in IH1. rewrite IH1.
            destruct (climb mk prec f a (S (prec o)) r) as [rhs r1] eqn:E1. cbn [fst snd].
            pose proof (climb_len prec f a (S (prec o)) r) as Hlen1. rewrite E1 in Hlen1. cbn [snd] in Hlen1.
            assert (Hhd : match r1 with [] => True | (o1, _) :: _ => p o1 = false end).
            { destruct r1 as [|[o1 a1] r2]; [exact I|].
              apply below_M_notp.
              pose proof (climb_head prec f a (S (prec o)) r rhs o1 a1 r2 Hl1 E1). lia. }
            pose proof (IH (mk o lhs rhs) m r1 Hm ltac:(lia)) as IH2.
            rewrite (spass_notp p (mk o lhs rhs) r1 Hhd) in IH2. cbn [fst snd] in IH2.
            exact IH2.
          * (* below the threshold: both sides stop here *)
            cbn [fst snd tail_pass]. rewrite Es. reflexivity.
    Qed.
  End TopFold.

  (* ---- all passes ---- *)

  (* precedence induced by a list of pass predicates: an operator folded in the
     first pass binds tightest; one that no pass folds has precedence 0 *)
  Fixpoint prec_of (ps : list (sym -> bool)) (o : sym) : nat :=
    match ps with
    | [] => 0
    | p :: ps' => if p o then S (length ps') else prec_of ps' o
    end.

  Lemma prec_of_le ps o : prec_of ps o <= length ps.
  Proof. induction ps as [|p ps IH]; cbn [prec_of length]; [lia|]. destruct (p o); lia. Qed.

  Fixpoint run_spasses (ps : list (sym -> bool)) (e : A * rest_t) : A * rest_t :=
    match ps with
    | [] => e
    | p :: ps' => run_spasses ps' (spass p (fst e) (snd e))
    end.

  Lemma tail_pass_nil p (lo : rest_t) : tail_pass p lo = [] <-> lo = [].
  Proof.
    destruct lo as [|[o a] r]; cbn [tail_pass]; [tauto|].
    destruct (spass p a r). split; discriminate.
  Qed.

  (* CORE: the passes compute what precedence climbing computes *)
  Theorem passes_eq_climb : forall ps lhs (rest : rest_t),
      fst (run_spasses ps (lhs, rest)) = fst (climb mk (prec_of ps) (length rest) lhs 1 rest) /\
      (snd (run_spasses ps (lhs, rest)) = [] <->
       snd (climb mk (prec_of ps) (length rest) lhs 1 rest) = []).
  Proof.
    induction ps as [|p ps IH]; intros lhs rest.
    - cbn [run_spasses prec_of fst snd].
      rewrite climb_stop; [cbn [fst snd]; tauto|].
      destruct rest as [|[o a] r]; [exact I|]. lia.
    - cbn [run_spasses fst snd].
      destruct (spass p lhs rest) as [l1 r1] eqn:Es.
      pose proof (spass_len p lhs rest) as Hlen. rewrite Es in Hlen. cbn [snd] in Hlen.
      pose proof (spass_nop p lhs rest) as Hnop. rewrite Es in Hnop. cbn [snd] in Hnop.
      specialize (IH l1 r1).
      assert (Hext : climb mk (prec_of ps) (length r1) l1 1 r1 =
                     climb mk (prec_of (p :: ps)) (length r1) l1 1 r1).
      { apply climb_ext. eapply Forall_impl; [|exact Hnop].
        intros [o a] Ho. cbn [fst] in *. cbn [prec_of]. rewrite Ho. reflexivity. }
      rewrite Hext in IH.
      rewrite <- (climb_fuel (prec_of (p :: ps)) (length rest) (length r1)) in IH by lia.
      assert (HT := top_fold (prec_of (p :: ps)) p (S (length ps))).
      assert (Hp : forall o, p o = true -> prec_of (p :: ps) o = S (length ps)).
      { intros o Ho. cbn [prec_of]. rewrite Ho. reflexivity. }
      assert (Hn : forall o, p o = false -> prec_of (p :: ps) o < S (length ps)).
      { intros o Ho. cbn [prec_of]. rewrite Ho. pose proof (prec_of_le ps o). lia. }
      specialize (HT Hp Hn (length rest) lhs 1 rest ltac:(lia) ltac:(lia)).
      rewrite Es in HT. cbn [fst snd] in HT. rewrite HT in IH. cbn [fst snd] in IH.
      rewrite tail_pass_nil in IH. exact IH.
  Qed.
End Generic.

(* the same climb under a homomorphism of node constructors (trees -> values) *)
Lemma climb_map {A B : Type} (mkA : sym -> A -> A -> A) (mkB : sym -> B -> B -> B)
      (h : A -> B) (Hh : forall o a b, h (mkA o a b) = mkB o (h a) (h b)) prec f :
  forall lhs m rest,
    climb mkB prec f (h lhs) m (map (fun oa => (fst oa, h (snd oa))) rest) =
    (h (fst (climb mkA prec f lhs m rest)),
     map (fun oa => (fst oa, h (snd oa))) (snd (climb mkA prec f lhs m rest))).
Proof.
  induction f as [|f IH]; intros lhs m rest; [reflexivity|].
  cbn [climb]. destruct rest as [|[o a] r]; [reflexivity|].
  cbn [map fst snd]. destruct (m <=? prec o); [|reflexivity].
  rewrite IH. destruct (climb mkA prec f a (S (prec o)) r) as [rhs r1]. cbn [fst snd].
  rewrite <- Hh. apply IH.
Qed.
