(* C15 — proofs about Model/ArrayIO.v. *)
From Coq Require Import Lia ZifyBool ZifyN ZifyNat.
From Murex Require Import Base.Outcome Base.Bytes Model.ByteStr Model.ArrayIO Check.C15 Proof.ByteStr.

Local Open Scope N_scope.

(* ---------------------------------------------------------- line splitting *)
Lemma split_lines_app x rest :
  no_newline x = true -> split_lines (x ++ 10 :: rest) = x :: split_lines rest.
Proof.
  unfold no_newline. induction x as [|c x IH]; intro H.
  - reflexivity.
  - cbn [existsb] in H. apply negb_true_iff, orb_false_iff in H as [H1 H2].
    cbn [app split_lines]. rewrite N.eqb_sym, H1.
    rewrite IH; [reflexivity|]. apply negb_true_iff. exact H2.
Qed.

Lemma split_write xs :
  forallb no_newline xs = true -> split_lines (write_lines xs) = xs.
Proof.
  induction xs as [|x xs IH]; intro H; [reflexivity|].
  cbn [forallb] in H. apply andb_true_iff in H as [H1 H2].
  cbn [write_lines]. rewrite split_lines_app by exact H1. f_equal. apply IH; exact H2.
Qed.

Lemma scan_deliver_id xs :
  forallb (fun x => short_enough x && no_trailing_cr x) xs = true -> scan_deliver xs = (xs, false).
Proof.
  induction xs as [|x xs IH]; intro H; [reflexivity|].
  cbn [forallb] in H. apply andb_true_iff in H as [H1 H2]. apply andb_true_iff in H1 as [S C].
  cbn [scan_deliver]. unfold too_long. unfold short_enough in S.
  destruct (N.leb_spec max_token (N.of_nat (length x))); [lia|].
  rewrite (IH H2). f_equal. f_equal. unfold drop_cr. unfold no_trailing_cr in C.
  destruct (frev x) as [|c r]; [reflexivity|].
  destruct c as [|p]; [reflexivity|]. repeat (destruct p as [p|p|]; try reflexivity); discriminate.
Qed.

(* an element with no white-space rune at its ends has no trailing \r *)
Lemma strip_any_none_prefix pats b p : strip_any pats b = None -> In p pats -> is_prefix p b = false.
Proof.
  induction pats as [|q pats IH]; intros H I; [contradiction|].
  cbn [strip_any] in H. destruct (is_prefix q b) eqn:E; [discriminate|].
  destruct I as [->|I]; [exact E|apply IH; assumption].
Qed.

Lemma no_space_ends_of_b x : no_space_endsb x = true -> no_space_ends x.
Proof.
  unfold no_space_endsb, no_space_ends.
  destruct (strip_any space_pats x); [discriminate|].
  destruct (strip_any _ (frev x)); [discriminate|]. auto.
Qed.

Lemma no_space_no_cr x : no_space_endsb x = true -> no_trailing_cr x = true.
Proof.
  intro H. apply no_space_ends_of_b in H as [_ H].
  assert (P := strip_any_none_prefix _ _ [13] H).
  unfold no_trailing_cr. destruct (frev x) as [|c r]; [reflexivity|].
  destruct (N.eqb_spec c 13) as [->|NE].
  - exfalso. assert (is_prefix [13] (13 :: r) = false) by (apply P; vm_compute; tauto). discriminate.
  - destruct c as [|p]; [reflexivity|]. repeat (destruct p as [p|p|]; try reflexivity); congruence.
Qed.

(* ------------------------------------------------ round trips, line types *)
Theorem roundtrip_generic xs :
  forallb (legal_elem TGeneric) xs = true -> read_generic (write_lines xs) = (xs, false).
Proof.
  intro L. unfold read_generic, scan_lines. rewrite split_write.
  - apply scan_deliver_id. eapply forallb_forall. intros x I.
    rewrite forallb_forall in L. specialize (L x I). cbn [legal_elem] in L.
    repeat (apply andb_true_iff in L as [L ?]). apply andb_true_iff; split; assumption.
  - apply forallb_forall. intros x I. rewrite forallb_forall in L. specialize (L x I).
    cbn [legal_elem] in L. repeat (apply andb_true_iff in L as [L ?]). assumption.
Qed.

Lemma map_trim_id xs : forallb no_space_endsb xs = true -> map trim_space xs = xs.
Proof.
  induction xs as [|x xs IH]; intro H; [reflexivity|].
  cbn [forallb] in H. apply andb_true_iff in H as [H1 H2]. cbn [map].
  rewrite (trim_space_id x (no_space_ends_of_b x H1)), (IH H2). reflexivity.
Qed.

Theorem roundtrip_str xs :
  forallb (legal_elem TStr) xs = true -> read_str (write_lines xs) = (xs, false).
Proof.
  intro L.
  assert (A : forall x, In x xs -> no_newline x = true /\ short_enough x = true /\ no_space_endsb x = true).
  { intros x I. rewrite forallb_forall in L. specialize (L x I). cbn [legal_elem] in L.
    repeat (apply andb_true_iff in L as [L ?]). auto. }
  unfold read_str, scan_lines. rewrite split_write.
  - rewrite scan_deliver_id.
    + rewrite map_trim_id; [reflexivity|]. apply forallb_forall. intros x I. apply A; exact I.
    + apply forallb_forall. intros x I. destruct (A x I) as (_ & S & N).
      apply andb_true_iff; split; [exact S|apply no_space_no_cr; exact N].
  - apply forallb_forall. intros x I. apply A; exact I.
Qed.

Theorem roundtrip_jsonl xs :
  forallb (legal_elem TJsonl) xs = true -> read_jsonl (write_lines xs) = (xs, false).
Proof. exact (roundtrip_str xs). Qed.

(* --------------------------------------------------------------- json *)
Lemma sanitize_id_all xs : forallb valid_utf8 xs = true -> map sanitize xs = xs.
Proof.
  induction xs as [|x xs IH]; intro H; [reflexivity|].
  cbn [forallb] in H. apply andb_true_iff in H as [H1 H2]. cbn [map].
  apply bytes_eqb_eq in H1. rewrite H1, (IH H2). reflexivity.
Qed.

Section Json.
  Variable jenc : list bytes -> bytes.
  Variable jdec : bytes -> option (list bytes).
  (* encoding/json: an array of strings decodes to the same strings, bytes that
     are not valid UTF-8 replaced by U+FFFD; the encoding of a non-empty array is
     not blank *)
  Hypothesis jcodec : forall xs, jdec (jenc xs) = Some (map sanitize xs).
  Hypothesis jenc_not_blank : forall xs, xs <> [] -> crlf_trim (jenc xs) <> [].

  Theorem roundtrip_json xs :
    forallb valid_utf8 xs = true ->
    read_json jdec (fst (write_json jenc xs)) = (xs, false) /\
    snd (write_json jenc xs) = match xs with [] => true | _ => false end.
  Proof.
    intro V. destruct xs as [|x xs]; [split; reflexivity|].
    split; [|reflexivity]. cbn [write_json fst]. unfold read_json.
    destruct (crlf_trim (jenc (x :: xs))) eqn:E.
    - exfalso. eapply jenc_not_blank; [|exact E]. discriminate.
    - rewrite jcodec, (sanitize_id_all _ V). reflexivity.
  Qed.

  (* the element-level model used by the check agrees with the byte-level one *)
  Theorem roundtrip_json_model xs :
    roundtrip TJson xs =
    Some (fst (read_json jdec (fst (write_json jenc xs))), snd (write_json jenc xs),
          snd (read_json jdec (fst (write_json jenc xs)))).
  Proof.
    destruct xs as [|x xs]; [reflexivity|].
    cbn [write_json fst snd roundtrip]. unfold read_json.
    destruct (crlf_trim (jenc (x :: xs))) eqn:E.
    - exfalso. eapply jenc_not_blank; [|exact E]. discriminate.
    - rewrite jcodec. reflexivity.
  Qed.
End Json.

(* --------------------------------------------------------------- generic: tabwriter *)
Definition no_ff (x : bytes) : bool := negb (has_byte 12 x).

Lemma ff_to_nl_id x : no_ff x = true -> ff_to_nl x = x.
Proof.
  unfold no_ff, has_byte, ff_to_nl. induction x as [|c x IH]; intro H; [reflexivity|].
  cbn [existsb] in H. apply negb_true_iff, orb_false_iff in H as [H1 H2]. cbn [map].
  rewrite N.eqb_sym, H1. f_equal. apply IH. apply negb_true_iff. exact H2.
Qed.

Lemma map_ff_id xs : forallb no_ff xs = true -> map ff_to_nl xs = xs.
Proof.
  induction xs as [|x xs IH]; intro H; [reflexivity|]. cbn [forallb] in H.
  apply andb_true_iff in H as [H1 H2]. cbn [map]. rewrite (ff_to_nl_id x H1), (IH H2). reflexivity.
Qed.

Lemma existsb_ff_false xs : forallb no_ff xs = true -> existsb (has_byte 12) xs = false.
Proof.
  induction xs as [|x xs IH]; intro H; [reflexivity|]. cbn [forallb] in H.
  apply andb_true_iff in H as [H1 H2]. cbn [existsb]. unfold no_ff in H1. apply negb_true_iff in H1.
  rewrite H1, (IH H2). reflexivity.
Qed.

Theorem write_generic_legal xs :
  forallb (legal_elem TGeneric) xs = true -> forallb no_ff xs = true ->
  write_generic xs = Some (write_lines xs).
Proof.
  intros L F. unfold write_generic.
  assert (forallb tab_free xs = true) as ->.
  { apply forallb_forall. intros x I. rewrite forallb_forall in L. specialize (L x I).
    cbn [legal_elem] in L. repeat (apply andb_true_iff in L as [L ?]). assumption. }
  cbn [negb]. rewrite (existsb_ff_false xs F), andb_false_r.
  destruct (existsb (has_byte 255) xs); [reflexivity|]. rewrite (map_ff_id xs F). reflexivity.
Qed.

(* F15-3: a form feed is written as a line break *)
Lemma generic_ff_refuted :
  forallb (legal_elem TGeneric) [[97; 12; 98]] = true /\
  roundtrip TGeneric [[97; 12; 98]] = Some ([[97]; [98]], false, false).
Proof. vm_compute. auto. Qed.

(* --------------------------------------------------------------- paths *)
Lemma split_colon_app x rest : no_colon x = true ->
  split_colon (x ++ 58 :: rest) = x :: split_colon rest.
Proof.
  unfold no_colon, has_byte. induction x as [|c x IH]; intro H; [reflexivity|].
  cbn [existsb] in H. apply negb_true_iff, orb_false_iff in H as [H1 H2].
  cbn [app split_colon]. rewrite N.eqb_sym, H1. rewrite IH; [reflexivity|]. apply negb_true_iff. exact H2.
Qed.

Lemma split_colon_single x : no_colon x = true -> split_colon x = [x].
Proof.
  unfold no_colon, has_byte. induction x as [|c x IH]; intro H; [reflexivity|].
  cbn [existsb] in H. apply negb_true_iff, orb_false_iff in H as [H1 H2].
  cbn [split_colon]. rewrite N.eqb_sym, H1. rewrite IH; [reflexivity|]. apply negb_true_iff. exact H2.
Qed.

Theorem roundtrip_paths xs : xs <> [] -> forallb no_colon xs = true ->
  split_colon (join_colon xs) = xs.
Proof.
  intros NE H. induction xs as [|x xs IH]; [congruence|].
  cbn [forallb] in H. apply andb_true_iff in H as [H1 H2].
  destruct xs as [|y xs']; [apply split_colon_single; exact H1|].
  change (join_colon (x :: y :: xs')) with (x ++ 58 :: join_colon (y :: xs')).
  rewrite split_colon_app by exact H1. f_equal. apply IH; [discriminate|exact H2].
Qed.

(* F15-4: the empty list is written as the empty string and read as [""] *)
Lemma paths_empty_refuted : roundtrip TPaths [] = Some ([[]], false, false).
Proof. reflexivity. Qed.

(* --------------------------------------------------------------- yaml *)
Section Yaml.
  Variable yscalar : bytes -> bytes.
  Variable ydec : bytes -> option (list bytes).
  (* gopkg.in/yaml.v3: a block sequence of encoded string scalars decodes to the
     strings; the encoding of a non-empty sequence is not blank *)
  Hypothesis ycodec : forall xs, xs <> [] -> ydec (write_yaml yscalar xs) = Some xs.
  Hypothesis yenc_not_blank : forall xs, xs <> [] -> crlf_trim (write_yaml yscalar xs) <> [].

  Theorem roundtrip_yaml xs : read_yaml ydec (write_yaml yscalar xs) = (xs, false).
  Proof.
    destruct xs as [|x xs]; [reflexivity|]. unfold read_yaml.
    destruct (crlf_trim (write_yaml yscalar (x :: xs))) eqn:E.
    - exfalso. eapply yenc_not_blank; [|exact E]. discriminate.
    - rewrite ycodec by discriminate. reflexivity.
  Qed.
End Yaml.

(* ------------------------------------------------------ the model function *)
Definition main_ty (t : ty) : Prop := match t with TOther _ => False | _ => True end.

(* the exact guard beyond the alphabets: it excludes known findings 3 and 4 *)
Definition extra (t : ty) (xs : list bytes) : bool :=
  match t with
  | TGeneric => forallb no_ff xs
  | TPaths => negb (is_nil xs)
  | _ => true
  end.

Theorem roundtrip_legal t xs : main_ty t ->
  forallb (legal_elem t) xs = true -> extra t xs = true ->
  roundtrip t xs = Some (xs, match t, xs with TJson, [] => true | _, _ => false end, false).
Proof.
  intros M L X. destruct t; try contradiction; cbn [roundtrip extra] in *.
  - rewrite (roundtrip_str xs L). reflexivity.
  - rewrite (write_generic_legal xs L X). rewrite (roundtrip_generic xs L). reflexivity.
  - rewrite sanitize_id_all; [destruct xs; reflexivity|].
    apply forallb_forall. intros x I. rewrite forallb_forall in L. specialize (L x I).
    cbn [legal_elem] in L. repeat (apply andb_true_iff in L as [L ?]). assumption.
  - rewrite (roundtrip_str xs L). reflexivity.
  - reflexivity.
  - rewrite roundtrip_paths; [reflexivity|destruct xs; [discriminate|discriminate]|].
    apply forallb_forall. intros x I. rewrite forallb_forall in L. specialize (L x I).
    cbn [legal_elem] in L. repeat (apply andb_true_iff in L as [L ?]). assumption.
Qed.

(* ----------------------------------------------------------------- foreach *)
Definition nonempty (x : bytes) : bool := match x with [] => false | _ => true end.

Lemma foreach_bound_id xs : forallb nonempty xs = true -> foreach_bound xs = xs.
Proof.
  induction xs as [|x xs IH]; intro H; [reflexivity|].
  cbn [forallb] in H. apply andb_true_iff in H as [H1 H2]. cbn [foreach_bound filter].
  destruct x; [discriminate|]. f_equal. apply IH; exact H2.
Qed.

(* in general: an order-preserving subsequence that loses exactly the empty strings *)
Lemma foreach_bound_filter xs : foreach_bound xs = filter nonempty xs.
Proof. reflexivity. Qed.

Lemma crlf_trim_id x : no_newline x = true -> no_trailing_cr x = true -> crlf_trim x = x.
Proof.
  intros N C. unfold crlf_trim.
  assert (H10 : match frev x with 10 :: r => frev r | _ => x end = x).
  { destruct (frev x) as [|c r] eqn:E; [reflexivity|]. destruct (N.eqb_spec c 10) as [->|NE].
    - exfalso. unfold no_newline in N. apply negb_true_iff in N.
      assert (In 10 x) as I by (apply in_rev; rewrite <- frev_eq, E; left; reflexivity).
      assert (existsb (N.eqb 10) x = true) by (apply existsb_exists; exists 10; split; [exact I|reflexivity]).
      congruence.
    - destruct c as [|p]; [reflexivity|]. repeat (destruct p as [p|p|]; try reflexivity); congruence. }
  rewrite H10. unfold no_trailing_cr in C.
  destruct (frev x) as [|c r]; [reflexivity|].
  destruct c as [|p]; [reflexivity|]. repeat (destruct p as [p|p|]; try reflexivity); discriminate.
Qed.

Definition text_elem (x : bytes) : bool := valid_utf8 x && no_newline x && no_trailing_cr x && nonempty x.

Theorem foreach_once_in_order xs :
  forallb text_elem xs = true -> foreach_bound xs = xs /\ foreach_seen xs = xs.
Proof.
  intro H.
  assert (B : foreach_bound xs = xs).
  { apply foreach_bound_id. apply forallb_forall. intros x I. rewrite forallb_forall in H.
    specialize (H x I). unfold text_elem in H. repeat (apply andb_true_iff in H as [H ?]). assumption. }
  split; [exact B|]. unfold foreach_seen. rewrite B.
  induction xs as [|x xs IH]; [reflexivity|].
  cbn [forallb] in H. apply andb_true_iff in H as [H1 H2]. cbn [map]. rewrite IH.
  - f_equal. unfold text_elem in H1. repeat (apply andb_true_iff in H1 as [H1 ?]).
    unfold expand_var. rewrite crlf_trim_id by assumption. apply bytes_eqb_eq. assumption.
  - exact H2.
  - apply foreach_bound_id. apply forallb_forall. intros y I. rewrite forallb_forall in H2.
    specialize (H2 y I). unfold text_elem in H2. repeat (apply andb_true_iff in H2 as [H2 ?]). assumption.
Qed.

(* -------------------------------------------- the model meets the property *)
Definition lit (xs : list bytes) : list (list chunk) := map (fun b => [Lit b]) xs.

Lemma expand_lit xs : map expand (lit xs) = xs.
Proof.
  unfold lit. rewrite map_map. induction xs as [|x xs IH]; [reflexivity|].
  cbn [map]. rewrite IH. unfold expand. cbn [map concat expand_chunk]. rewrite app_nil_r. reflexivity.
Qed.

Lemma elems_eqb_refl l : elems_eqb l l = true.
Proof. apply list_eqb_eq; [apply bytes_eqb_eq|reflexivity]. Qed.

(* what the model predicts as observation for an input list *)
Definition model_obs (t : ty) (xs : list bytes) : option obs :=
  match roundtrip t xs with
  | Some (d, we, re) => Some {| o_werr := we; o_read := lit d; o_rerr := re; o_typed := true;
                                 o_each := lit (foreach_seen d) |}
  | None => None
  end.

Theorem model_meets_spec t cin docs :
  main_ty t ->
  let xs := map expand cin in
  forallb nonempty xs = true -> extra t xs = true ->
  forall ob, model_obs t xs = Some ob ->
  spec_ok {| c_ty := t; c_in := cin; c_legal_other := true; c_docs := docs; c_obs := ob |} = true.
Proof.
  intros M xs NE X ob MO. unfold spec_ok.
  destruct (legal _) eqn:L; [|reflexivity].
  assert (L' : forallb (legal_elem t) xs = true).
  { unfold legal in L. cbn [c_ty c_in] in L. destruct t; try contradiction; exact L. }
  unfold model_obs in MO. rewrite (roundtrip_legal t xs M L' X) in MO. inversion MO; subst ob; clear MO.
  cbn [c_ty c_in c_obs o_werr o_read o_rerr o_typed o_each]. fold xs.
  rewrite !expand_lit, elems_eqb_refl. cbn [negb andb].
  assert (W : (negb match t with TJson => match xs with [] => true | _ => false end | _ => false end
               || match t with TJson => is_nil xs | _ => false end) = true).
  { destruct t; try reflexivity. destruct xs; reflexivity. }
  rewrite W. cbn [andb].
  destruct (forallb valid_utf8 xs) eqn:V; [|reflexivity]. cbn [andb].
  destruct (each_applies _); [|reflexivity].
  (* foreach: every element is non-empty text *)
  assert (T : forallb text_elem xs = true).
  { apply forallb_forall. intros x I. unfold text_elem.
    rewrite forallb_forall in V, NE, L'. specialize (V x I). specialize (NE x I). specialize (L' x I).
    rewrite V, NE. cbn [andb]. rewrite andb_true_r.
    destruct t; try contradiction; cbn [legal_elem] in L'; repeat (apply andb_true_iff in L' as [L' ?]).
    - rewrite L'. cbn [andb]. apply no_space_no_cr; assumption.
    - rewrite L'. cbn [andb]. assumption.
    - apply andb_true_iff; split; assumption.
    - rewrite L'. cbn [andb]. apply no_space_no_cr; assumption.
    - apply andb_true_iff; split; assumption.
    - rewrite L'. cbn [andb]. assumption. }
  destruct (foreach_once_in_order xs T) as [_ S]. rewrite S. apply elems_eqb_refl.
Qed.

(* ------------------------------------------------- F15: foreach skips "" *)
Definition f15_in : list (list chunk) := [[Lit [120]]; []; [Lit [121]]].

Lemma foreach_refuted :
  exists ob, model_obs TJson (map expand f15_in) = Some ob /\
    spec_ok {| c_ty := TJson; c_in := f15_in; c_legal_other := true; c_docs := true; c_obs := ob |} = false /\
    classify {| c_ty := TJson; c_in := f15_in; c_legal_other := true; c_docs := true; c_obs := ob |} = 1 /\
    length (o_each ob) = 2%nat.
Proof. eexists. split; [reflexivity|]. vm_compute. auto. Qed.

(* --------------------------------- each clause of the legal alphabet is needed *)
Definition rt_differs (t : ty) (xs : list bytes) : bool :=
  match roundtrip t xs with
  | Some (d, _, re) => re || negb (elems_eqb d xs)
  | None => false
  end.

Lemma legal_sharp :
  (* a newline inside an element *)
  rt_differs TStr [[97; 10; 98]] = true /\ rt_differs TGeneric [[97; 10; 98]] = true /\
  rt_differs TJsonl [[97; 10; 98]] = true /\
  (* leading / trailing white space for str and jsonl (ASCII and Unicode) *)
  rt_differs TStr [[32; 97]] = true /\ rt_differs TStr [[97; 9]] = true /\
  rt_differs TJsonl [[194; 160; 97]] = true /\ rt_differs TJsonl [[97; 226; 128; 168]] = true /\
  (* ... but not for generic *)
  rt_differs TGeneric [[32; 97; 32]] = false /\
  (* generic: a trailing carriage return *)
  rt_differs TGeneric [[97; 13]] = true /\
  (* an element of 64 KiB; one byte less is fine *)
  rt_differs TStr [N.iter 65536 (cons 120) []] = true /\
  rt_differs TGeneric [N.iter 65536 (cons 120) []] = true /\
  rt_differs TStr [N.iter 65535 (cons 120) []] = false /\
  (* json: bytes that are not UTF-8 *)
  rt_differs TJson [[97; 255]] = true /\
  (* paths: the separator inside an element *)
  rt_differs TPaths [[97; 58; 98]] = true.
Proof. vm_compute. repeat split. Qed.
