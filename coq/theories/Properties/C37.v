(* C37 — Syntax highlighting never changes the typed text.
   Only theorem statements here; proofs live in Proof/TokHighlight.v. *)
From Murex Require Import Base.Outcome Base.Bytes Model.Tokenizer Check.C37 Proof.TokHighlight.
Local Open Scope N_scope.

(* Headline. For EVERY line of typed text (any length; valid code points, no ESC
   character) the highlighter returns a string (it does not panic) and removing
   the ANSI colour codes from that string gives the line back exactly. *)
Theorem C37_highlight_preserves_text : forall src,
  typed_text src = true ->
  exists h, highlight src = Ok h /\ strip h = src.
Proof. exact highlight_preserves. Qed.
Print Assumptions C37_highlight_preserves_text.

(* The same, phrased with the predicate that the check evaluates on what the
   implementation returned. *)
Theorem C37_model_meets_spec : forall src,
  typed_text src = true ->
  exists h, highlight src = Ok h /\
    spec_ok {| c_src := src; c_hl := h; c_stripped := strip h; c_panic := false |} = true.
Proof. exact model_meets_spec. Qed.
Print Assumptions C37_model_meets_spec.

(* Without any guard on the runes: for every rune list the output consists of the
   typed runes, in order, interleaved only with colour codes each of which is
   removed entirely by [strip]. *)
Theorem C37_typed_runes_kept : forall src,
  exists r, parse src 0%Z = Ok r /\ r_early r = false /\ chars (r_hl r) = src /\
            Forall (fun s => seg_ok s = true) (r_hl r).
Proof. exact parse_keeps_runes. Qed.
Print Assumptions C37_typed_runes_kept.

(* Every colour constant of utils/parser/parser.go (regenerated from the Go source
   on every run) is a sequence of complete ESC [ ... m codes. *)
Theorem C37_colour_constants_wellformed : forallb code_ok all_codes = true.
Proof. exact all_codes_ok. Qed.
Print Assumptions C37_colour_constants_wellformed.

(* What spec_ok = true on an observation means. *)
Theorem C37_spec_ok_sound : forall c, typed_text (c_src c) = true -> spec_ok c = true ->
  c_panic c = false /\ strip (c_hl c) = c_src c.
Proof. exact spec_ok_sound. Qed.
Print Assumptions C37_spec_ok_sound.

(* Non-vacuity: `out a\->b` is typed text; the model highlights it; and spec_ok
   rejects what the code returned before the fix (the reset code after the
   escaped `-` lost its final `m`: ESC [ 1 instead of ESC [ 1 m). *)
Example C37_nonvacuous :
  let src := [111;117;116;32;97;92;45;62;98] in
  typed_text src = true /\
  highlight src = Ok [27;91;49;109; 111;117;116; 32;27;91;48;109; 97; 27;91;51;51;109;92; 45;27;91;48;109;
                      27;91;51;53;109; 62;27;91;48;109; 27;91;49;109; 98; 27;91;48;109] /\
  spec_ok {| c_src := src;
             c_hl := [27;91;49;109; 111;117;116; 32;27;91;48;109; 97; 27;91;51;51;109;92; 45;27;91;48;
                      27;91;51;53;109;45; 62;27;91;48;109; 27;91;49;109; 98; 27;91;48;109];
             c_stripped := [111;117;116;32;97;92;45;27;91;48;45;62;98];
             c_panic := false |} = false.
Proof. vm_compute. repeat split. Qed.
